import ShexerModel.Model.Emit
import ShexerModel.Model.Ctor
import ShexerModel.Model.Shacl
import ShexerModel.Model.Targets
import ShexerModel.Model.Text
import ShexerModel.Model.MinIri
import ShexerModel.Model.MergeE
import ShexerModel.Model.Nt
import ShexerModel.Model.Ttl
import ShexerModel.Model.History
import ShexerModel.Model.Tsv
import ShexerModel.Model.Endpoint
import ShexerModel.Spec.ShExEachOf
import ShexerModel.Spec.Counts
import ShexerModel.Spec.ShExSem
open Shexer

/-! Line-protocol driver: reads cases from stdin, prints the model's canonical output.
```
CFG <TAB> key=value <TAB> …          configuration (fields of `Shexer.Config`)
T <TAB> skind <TAB> s <TAB> p <TAB> okind <TAB> o      kinds: I (IRI) B (bnode) L (literal; o = datatype)
RUN <TAB> what <TAB> id               what ∈ {shapes, profile, track}
```
-/

structure Query where
  cls : String
  inv : Bool
  prop : String
  ty : String
  card : Card

structure DState where
  cfg : Config := {}
  triples : Array Triple := #[]
  /-- triples that take part in the selection of instances (all but those marked `TX`) -/
  selTriples : Array Triple := #[]
  queries : Array Query := #[]
  /-- explicit selection (`SEL` lines): node ↦ labels; overrides the class-based selection in the spec modes -/
  selLines : Array (String × List String) := #[]
  /-- shapes handed in from outside (the implementation's output) for the `conf` mode -/
  shapes : Array Shexer.Shape := #[]
  /-- shape map: prefixes (reversed namespaces dict, dictionary order) and items -/
  prefixes : Array (String × String) := #[]
  /-- (raw selector, raw label, explicit rows for selectors the model cannot evaluate) -/
  smItems : Array (String × String × Option (List String)) := #[]
  /-- the user's namespaces dictionary (namespace, prefix) in dictionary order -/
  nsDict : Array (String × String) := #[]
  /-- raw lines for the reader models (`NT` lines; a tab inside is written `\\t`) -/
  rawLines : Array String := #[]

def parseBool (s : String) : Bool := s == "1" || s == "true" || s == "True"

def splitList (s : String) : List String := if s.isEmpty then [] else s.splitOn "|"

def setCfg (cfg : Config) (kv : String) : Config :=
  match kv.splitOn "=" with
  | k :: rest =>
    let v := "=".intercalate rest
    match k with
    | "instProp" => { cfg with instProp := v }
    | "allClasses" => { cfg with allClasses := parseBool v }
    | "targets" => { cfg with targets := some (splitList v) }
    | "targetsFromFile" => { cfg with targetsFromFile := parseBool v }
    | "cap" => { cfg with cap := v.toNat?.getD 0 }
    | "ignoreNs" => { cfg with ignoreNs := some (splitList v) }
    | "inverse" => { cfg with inverse := parseBool v }
    | "thNum" => { cfg with thNum := v.toNat?.getD 0 }
    | "thDen" => { cfg with thDen := v.toNat?.getD 1 }
    | "allCompliant" => { cfg with allCompliant := parseBool v }
    | "keepLessSpecific" => { cfg with keepLessSpecific := parseBool v }
    | "discardUseless" => { cfg with discardUseless := parseBool v }
    | "allowOpt" => { cfg with allowOpt := parseBool v }
    | "disableExact" => { cfg with disableExact := parseBool v }
    | "disableComments" => { cfg with disableComments := parseBool v }
    | "disableOr" => { cfg with disableOr := parseBool v }
    | "allowRedundantOr" => { cfg with allowRedundantOr := parseBool v }
    | "removeEmpty" => { cfg with removeEmpty := parseBool v }
    | "shapesNs" => { cfg with shapesNs := v }
    | "detectMinIri" => { cfg with detectMinIri := parseBool v }
    | _ => cfg
  | [] => cfg

def mkTerm (kind v : String) : Term :=
  match kind with
  | "I" => Term.iri v
  | "B" => Term.bnode v
  | _ => Term.lit v

def parseCard (s : String) : Card :=
  if s == "+" then Card.plus else if s == "*" then Card.star else if s == "?" then Card.opt
  else Card.exact (((s.drop 1).dropEnd 1).toString.toNat?.getD 0)

/-- selection of the shape map (+ all classes in mixed mode); `none` when a selector or label is rejected -/
def resolveSel (st : DState) : Option (Tracker.InstDict × List String) :=
  let g := st.triples.toList
  let px := st.prefixes.toList
  let items := st.smItems.toList.map fun (rs, rl, rows) =>
    let lab := Targets.parseLabel px rl
    let sel := Targets.parseSelector px rs
    match rows, lab, sel with
    | some r, some l, _ => some (r, l)
    | none, some l, Targets.Selector.error => none
    | none, some l, Targets.Selector.unsupported _ => none
    | none, some l, s => some (Targets.evalSelector g s, l)
    | _, none, _ => none
  if items.any (·.isNone) then none
  else
    let its := items.filterMap id
    let sm := Targets.trackItems its
    let labels := its.map (·.2)
    if st.cfg.allClasses then some (Targets.integrate sm (Tracker.track st.cfg g), labels) else some (sm, labels)

def runCase (st : DState) (what id : String) : List String :=
  let g := st.triples.toList
  let body : List String :=
    match what with
    | "resolve" =>
      match resolveSel st with
      | none => ["ERR"]
      | some (sel, _) => sel.map fun (n, ls) => "SEL\t" ++ n ++ "\t" ++ "|".intercalate ls
    | "shapesmap" =>
      match resolveSel st with
      | none => ["ERR"]
      | some (sel, labels) => Emit.render (Shexer.runSel { st.cfg with protectedLabels := labels } sel g)
    | "shapessel" =>
      -- selection handed in (`SEL` lines, in the implementation's dictionary order); labels of the shape map are protected
      let sel : Tracker.InstDict := st.selLines.toList
      let labels := (st.smItems.toList.filterMap fun (_, rl, _) => Targets.parseLabel st.prefixes.toList rl)
      Emit.render (Shexer.runSel { st.cfg with protectedLabels := labels } sel g)
    | "text" =>
      match Text.withShapesNs st.nsDict.toList st.cfg.shapesNs with
      | none => ["RANDOM-PREFIX"]
      | some ns =>
        (Text.prefixLines ns).map (fun l => "P\t" ++ l) ++
        (Shexer.run st.cfg g).flatMap fun sh =>
          ("L\t" ++ (Text.tuneToken ns sh.name).render.drop 1) ::      -- the label is the reference token without '@'
          sh.stmts.map fun s =>
            "S\t" ++ (Text.tuneToken ns s.prop).render ++ "\t" ++
              "|".intercalate (s.types.map (Text.valueToken st.cfg ns s))
    | "ntlines" =>
      st.rawLines.toList.map fun l =>
        let term : Term → String
          | .iri v => "IRI\t" ++ v
          | .bnode v => "BNode\t" ++ v
          | .lit dt => "Literal\t" ++ dt
        match Nt.parseLine l.toList with
        | .ok (some t) => "OK\t" ++ term t.s ++ "\t" ++ t.p ++ "\t" ++ term t.o
        | .ok none => "DROPPED"
        | .error _ => "EXC"
    | "endpoint" =>
      -- `NT` lines: the target nodes; answer: the requests of the neighbourhood fetch and the queries a cached double pass sends
      let targets := st.rawLines.toList
      let reqs := Endpoint.directRequests g targets ++ (if st.cfg.inverse then Endpoint.inverseRequests g targets else [])
      let show_ : Endpoint.Req → String
        | .po s => "REQ\tpo\t" ++ s
        | .sp o => "REQ\tsp\t" ++ o
        | .classes s => "REQ\tclasses\t" ++ s
      let noClasses := reqs.filter fun r => match r with | .classes _ => false | _ => true
      reqs.map show_ ++ ["QUERIES\t" ++ toString (Endpoint.runCached st.cfg.instProp g {} (reqs ++ reqs)).1.queries,
                         "QUERIESPOSP\t" ++ toString (Endpoint.runCached st.cfg.instProp g {} (noClasses ++ noClasses)).1.queries]
    | "tsvlines" =>
      st.rawLines.toList.map fun l =>
        let term : Term → String
          | .iri v => "IRI\t" ++ v
          | .bnode v => "BNode\t" ++ v
          | .lit dt => "Literal\t" ++ dt
        match Tsv.parseLine l.toList with
        | .ok (some t) => "OK\t" ++ term t.s ++ "\t" ++ t.p ++ "\t" ++ term t.o
        | .ok none => "DROPPED"
        | .error _ => "EXC"
    | "ttldoc" =>
      let term : Term → String
        | .iri v => "IRI\t" ++ v
        | .bnode v => "BNode\t" ++ v
        | .lit dt => "Literal\t" ++ dt
      match Ttl.readLines Ttl.simpleResolve (st.rawLines.toList.map String.toList) with
      | .ok ts => ts.map fun t => "T\t" ++ term t.s ++ "\t" ++ t.p ++ "\t" ++ term t.o
      | .error (.valueError _) => ["EXC\tValueError"]
      | .error .runtimeError => ["EXC\tRuntimeError"]
      | .error .attributeError => ["EXC\tAttributeError"]
      | .error .indexError => ["EXC\tIndexError"]
    | "history" =>
      -- `NT` lines carry the operations: `shex <fmt> <num> <den>` | `profile`; every call is answered from the
      -- History model (memoised stages), not from the pipeline directly
      let ops : List History.Op := st.rawLines.toList.filterMap fun l =>
        match l.splitOn " " with
        | ["shex", f, n, d] => some (.shex (if f == "shacl" then .shacl else .shexc) (n.toNat?.getD 0) (d.toNat?.getD 1))
        | ["profile"] => some .profile
        | _ => none
      let rec go (s : History.Shaper) (k : Nat) : List History.Op → List String
        | [] => []
        | op :: rest =>
          let r := History.step s op
          ("CALL\t" ++ toString k) ::
            (match r.2 with
             | .shapes _ l => Emit.render l
             | .profile p => p.map fun e => "PROFILE\t" ++ e.1) ++ go r.1 (k + 1) rest
      go (History.new st.cfg g) 0 ops
    | "merge" =>
      -- unit level: `MergeableConstraints.merge_group` on the statements of the last shape, failure modes included
      match st.shapes.back? with
      | none => ["bad-op\tno group"]
      | some sh =>
        match MergeE.mergeGroupE st.cfg sh.stmts with
        | .ok r => "OK" :: Emit.stmtLines r
        | .error (.attributeOnNone slot) => ["EXC\tAttributeError\t" ++ slot]
        | .error (.indexOutOfRange w) => ["EXC\tIndexError\t" ++ w]
    | "miniri" =>
      -- per final shape: stem, shape example, and for every statement the index (in the document) of the triple
      -- whose value is the constraint example
      let inst := Tracker.track st.cfg g
      let vis := (g.zipIdx).filter fun (t, _) => Profiler.passesFilter st.cfg t
      (Shexer.run st.cfg g).flatMap fun sh =>
        ("MI\t" ++ sh.name ++ "\t" ++ (MinIri.stem inst sh.classUri).getD "-" ++ "\t" ++ (MinIri.shapeExample inst sh.classUri).getD "-") ::
        sh.stmts.map fun s =>
          let hit := if s.inverse then
              vis.find? fun (t, _) => t.p == s.prop && t.o.isNode && ((Dict.get? inst t.o.key).getD []).contains sh.classUri
            else
              vis.find? fun (t, _) => t.p == s.prop && t.s.isNode && ((Dict.get? inst t.s.key).getD []).contains sh.classUri
          "CE\t" ++ (if s.inverse then "I" else "D") ++ "\t" ++ s.prop ++ "\t" ++ (match hit with | some (_, i) => toString i | none => "-")
    | "fixedlines" =>
      st.smItems.toList.map fun (rs, _, _) =>
        match Targets.splitFixedLine rs with
        | none => "SKIP"
        | some none => "ERR"
        | some (some (a, b)) => "ITEM\t" ++ a ++ "\t" ++ b
    | "keys" =>
      let sel := if st.selLines.isEmpty then Spec.selectionOf st.cfg st.selTriples.toList else st.selLines.toList
      let classes := Spec.dedup ((Dict.keys sel).flatMap fun n => Spec.classesIn sel n)
      classes.flatMap fun c =>
        ("KC\t" ++ c ++ "\t" ++ toString (Spec.classSize sel c)) ::
        (Spec.observedKeys st.cfg sel g c).map fun k =>
          "K\t" ++ (if k.1 then "I" else "D") ++ "\t" ++ k.2.1 ++ "\t" ++
            (match k.2.2 with | .datatype d => "dt:" ++ d | .nonliteral => "nonliteral" | .classValue v => "cv:" ++ v)
            ++ "\t" ++ toString (Spec.keyCount st.cfg sel g c k.1 k.2.1 k.2.2)
    | "shacl" =>
      let occ : Occ → String := fun o => match o with | Occ.none => "-" | Occ.nat k => toString k | Occ.bad => "BAD"
      (Shacl.emit st.cfg (Shexer.run st.cfg g)).flatMap fun ns =>
        ("NS\t" ++ ns.iri ++ "\t" ++ ns.targetClass) :: ns.props.map fun ps =>
          "PS\t" ++ (if ps.inverse then "I" else "D") ++ "\t" ++ ps.path ++ "\t" ++
            (let one : Shacl.Restriction → String := fun r => match r with
               | .nodeKind k => "nodeKind:" ++ k | .none_ => "none" | .datatype d => "datatype:" ++ d
               | .node i => "node:" ++ i | .inValue c => "in:" ++ c | .anyOf _ => "nested"
             match ps.restr with
             | .anyOf tys => "or:" ++ ";".intercalate (tys.map fun ty => one (Shacl.restrictionOf ty))
             | r => one r) ++ "\t" ++ occ ps.min ++ "\t" ++ occ ps.max
    | "conf" =>
      let sel := if st.selLines.isEmpty then Spec.selectionOf st.cfg st.selTriples.toList else st.selLines.toList
      st.shapes.toList.flatMap fun sh =>
        ((Spec.nonConforming st.cfg sel g sh).map fun n =>
          "NC\t" ++ sh.classUri ++ "\t" ++ n ++ "\t" ++
            "|".intercalate ((sh.stmts.filter fun s => !Spec.stmtOk st.cfg sel g n s).map fun s => (if s.inverse then "^" else "") ++ s.prop)
            ++ "\t" ++ (if Spec.valuesCovered st.cfg sel g n sh then "covered" else "uncovered")) ++
        -- ShEx proper: the values of each predicate distributed over its constraints (`Spec/ShExEachOf.lean`)
        ((Spec.nonConformingShEx st.cfg sel g sh).map fun n => "NX\t" ++ sh.classUri ++ "\t" ++ n)
    | "confmodel" =>
      let sel := if st.selLines.isEmpty then Spec.selectionOf st.cfg st.selTriples.toList else st.selLines.toList
      (Shexer.run st.cfg g).flatMap fun sh => (Spec.nonConforming st.cfg sel g sh).map fun n => "NC\t" ++ sh.classUri ++ "\t" ++ n
    | "spec" =>
      let sel := if st.selLines.isEmpty then Spec.selectionOf st.cfg st.selTriples.toList else st.selLines.toList
      st.queries.toList.map fun q =>
        "A\t" ++ toString (if q.ty == Gen.NONLITERAL_ELEM_TYPE then Spec.countOverNonlit st.cfg sel g q.cls q.inv q.prop q.card
                           else Spec.countOver st.cfg sel g q.cls q.inv q.prop q.ty q.card) ++ "\t"
          ++ toString (Spec.classSize sel q.cls)
    | "shapes" => Emit.render (Shexer.run st.cfg g)
    | "track" => (Tracker.track st.cfg g).map fun (k, cls) => "INST\t" ++ k ++ "\t" ++ "|".intercalate cls
    | _ => ["bad-op"]
  ("BEGIN\t" ++ id) :: body ++ ["END"]

def optStr (v : String) : Option String := if v == "~" then none else some v

def setInit (a : InitArgs) (kv : String) : InitArgs :=
  match kv.splitOn "=" with
  | [k, v] =>
    match k with
    | "graph_file_input" => { a with graph_file_input := parseBool v }
    | "graph_list_of_files_input" => { a with graph_list_of_files_input := parseBool v }
    | "raw_graph" => { a with raw_graph := parseBool v }
    | "url_graph_input" => { a with url_graph_input := parseBool v }
    | "list_of_url_input" => { a with list_of_url_input := parseBool v }
    | "url_endpoint" => { a with url_endpoint := parseBool v }
    | "rdflib_graph" => { a with rdflib_graph := parseBool v }
    | "target_classes" => { a with target_classes := parseBool v }
    | "file_target_classes" => { a with file_target_classes := parseBool v }
    | "shape_map_file" => { a with shape_map_file := parseBool v }
    | "shape_map_raw" => { a with shape_map_raw := parseBool v }
    | "all_classes_mode" => { a with all_classes_mode := parseBool v }
    | "disable_or_statements" => { a with disable_or_statements := parseBool v }
    | "allow_redundant_or" => { a with allow_redundant_or := parseBool v }
    | "input_format" => { a with input_format := v }
    | "compression_mode" => { a with compression_mode := optStr v }
    | "examples_mode" => { a with examples_mode := optStr v }
    | _ => a
  | _ => a

def setCall (c : CallArgs) (kv : String) : CallArgs :=
  match kv.splitOn "=" with
  | [k, v] =>
    match k with
    | "string_output" => { c with string_output := parseBool v }
    | "output_file" => { c with output_file := parseBool v }
    | "to_uml_path" => { c with to_uml_path := parseBool v }
    | "output_format" => { c with output_format := v }
    | "thNum" => { c with thNum := v.toInt?.getD 0 }
    | "thDen" => { c with thDen := v.toNat?.getD 1 }
    | _ => c
  | _ => c

def guardStr : Guard → String
  | Guard.ok => "ok"
  | Guard.valueError => "ValueError"
  | Guard.otherError c => c

def stepLine (st : DState) (line : String) : DState × List String :=
  match line.splitOn "\t" with
  | "GUARD" :: "init" :: id :: kvs => (st, ["G\t" ++ id ++ "\t" ++ guardStr (Gen.init_guard (kvs.foldl setInit {}))])
  | "GUARD" :: "ctor" :: id :: kvs => (st, ["G\t" ++ id ++ "\t" ++ guardStr (Ctor.ctor (kvs.foldl setInit {}))])
  | "GUARD" :: "deferred" :: id :: kvs => (st, ["G\t" ++ id ++ "\t" ++ guardStr (Ctor.deferred (kvs.foldl setInit {}))])
  | "GUARD" :: "shex" :: id :: kvs => (st, ["G\t" ++ id ++ "\t" ++ guardStr (Gen.shex_graph_guard (kvs.foldl setCall {}))])
  | "GUARD" :: "profile" :: id :: kvs => (st, ["G\t" ++ id ++ "\t" ++ guardStr (Gen.profile_graph_guard (kvs.foldl setCall {}))])
  | "CFG" :: kvs => ({ st with cfg := kvs.foldl setCfg st.cfg }, [])
  | ["T", sk, s, p, ok, o] =>
    let t : Triple := { s := mkTerm sk s, p := p, o := mkTerm ok o }
    ({ st with triples := st.triples.push t, selTriples := st.selTriples.push t }, [])
  | ["TX", sk, s, p, ok, o] => ({ st with triples := st.triples.push { s := mkTerm sk s, p := p, o := mkTerm ok o } }, [])
  | ["NS", n, p] => ({ st with nsDict := st.nsDict.push (n, p) }, [])
  | ["PX", p, ns] => ({ st with prefixes := st.prefixes.push (p, ns) }, [])
  | ["SM", rs, rl] => ({ st with smItems := st.smItems.push (rs, rl, none) }, [])
  | ["SMR", rs, rl, rows] => ({ st with smItems := st.smItems.push (rs, rl, some (splitList rows)) }, [])
  | ["SH", name, cls, n] =>
    ({ st with shapes := st.shapes.push { name := name, classUri := cls, nInstances := n.toNat?.getD 0, stmts := [] } }, [])
  | ["S", inv, p, tys, card] =>
    let stm : Shexer.Stmt := { prop := p, types := tys.splitOn "|", choice := (tys.splitOn "|").length > 1, card := parseCard card, n := 0, inverse := inv == "I" }
    (match st.shapes.back? with
     | some sh => ({ st with shapes := st.shapes.pop.push { sh with stmts := sh.stmts ++ [stm] } }, [])
     | none => (st, ["bad-op\tS before SH"]))
  | ["SN", inv, p, ty, card, n] =>
    let stm : Shexer.Stmt := { prop := p, types := [ty], card := parseCard card, n := n.toNat?.getD 0, inverse := inv == "I" }
    (match st.shapes.back? with
     | some sh => ({ st with shapes := st.shapes.pop.push { sh with stmts := sh.stmts ++ [stm] } }, [])
     | none => (st, ["bad-op\tSN before SH"]))
  | "NT" :: rest => ({ st with rawLines := st.rawLines.push (("\t".intercalate rest).replace "\\t" "\t") }, [])
  | ["SEL", n, ls] => ({ st with selLines := st.selLines.push (n, splitList ls) }, [])
  | ["Q", c, inv, p, ty, card] =>
    ({ st with queries := st.queries.push { cls := c, inv := inv == "I", prop := p, ty := ty, card := parseCard card } }, [])
  | ["RUN", what, id] => ({}, runCase st what id)
  | [""] => (st, [])
  | _ => (st, ["bad-op\t" ++ line])

partial def loop (h : IO.FS.Stream) (out : IO.FS.Stream) (st : DState) : IO Unit := do
  let line ← h.getLine
  if line.isEmpty then return ()
  let l := if line.endsWith "\n" then (line.dropEnd 1).toString else line
  let (st', outs) := stepLine st l
  for o in outs do out.putStrLn o
  loop h out st'

def main : IO Unit := do
  let out ← IO.getStdout
  loop (← IO.getStdin) out {}
