import ShexerModel
open Shexer

/-! Line-protocol driver: reads cases from stdin, prints the model's canonical output.
```
CFG <TAB> key=value <TAB> …          configuration (fields of `Shexer.Config`)
T <TAB> skind <TAB> s <TAB> p <TAB> okind <TAB> o      kinds: I (IRI) B (bnode) L (literal; o = datatype)
RUN <TAB> what <TAB> id               what ∈ {shapes, profile, track}
```
-/

structure DState where
  cfg : Config := {}
  triples : Array Triple := #[]

def parseBool (s : String) : Bool := s == "1" || s == "true" || s == "True"

def splitList (s : String) : List String := if s.isEmpty then [] else s.splitOn "|"

def setCfg (cfg : Config) (kv : String) : Config :=
  match kv.splitOn "=" with
  | k :: rest =>
    let v := "=".intercalate rest
    match k with
    | "instProp" => { cfg with instProp := v }
    | "allClasses" => { cfg with allClasses := parseBool v }
    | "targets" => { cfg with targets := some (splitList v) }
    | "targetsFromFile" => { cfg with targetsFromFile := parseBool v }
    | "cap" => { cfg with cap := v.toNat?.getD 0 }
    | "ignoreNs" => { cfg with ignoreNs := some (splitList v) }
    | "inverse" => { cfg with inverse := parseBool v }
    | "thNum" => { cfg with thNum := v.toNat?.getD 0 }
    | "thDen" => { cfg with thDen := v.toNat?.getD 1 }
    | "allCompliant" => { cfg with allCompliant := parseBool v }
    | "keepLessSpecific" => { cfg with keepLessSpecific := parseBool v }
    | "discardUseless" => { cfg with discardUseless := parseBool v }
    | "allowOpt" => { cfg with allowOpt := parseBool v }
    | "disableExact" => { cfg with disableExact := parseBool v }
    | "disableComments" => { cfg with disableComments := parseBool v }
    | "disableOr" => { cfg with disableOr := parseBool v }
    | "allowRedundantOr" => { cfg with allowRedundantOr := parseBool v }
    | "removeEmpty" => { cfg with removeEmpty := parseBool v }
    | "shapesNs" => { cfg with shapesNs := v }
    | "detectMinIri" => { cfg with detectMinIri := parseBool v }
    | _ => cfg
  | [] => cfg

def mkTerm (kind v : String) : Term :=
  match kind with
  | "I" => Term.iri v
  | "B" => Term.bnode v
  | _ => Term.lit v

def runCase (st : DState) (what id : String) : List String :=
  let g := st.triples.toList
  let body : List String :=
    match what with
    | "shapes" => Emit.render (Shexer.run st.cfg g)
    | "track" => (Tracker.track st.cfg g).map fun (k, cls) => "INST\t" ++ k ++ "\t" ++ "|".intercalate cls
    | _ => ["bad-op"]
  ("BEGIN\t" ++ id) :: body ++ ["END"]

def stepLine (st : DState) (line : String) : DState × List String :=
  match line.splitOn "\t" with
  | "CFG" :: kvs => ({ st with cfg := kvs.foldl setCfg st.cfg }, [])
  | ["T", sk, s, p, ok, o] => ({ st with triples := st.triples.push { s := mkTerm sk s, p := p, o := mkTerm ok o } }, [])
  | ["RUN", what, id] => ({}, runCase st what id)
  | [""] => (st, [])
  | _ => (st, ["bad-op\t" ++ line])

partial def loop (h : IO.FS.Stream) (out : IO.FS.Stream) (st : DState) : IO Unit := do
  let line ← h.getLine
  if line.isEmpty then return ()
  let l := if line.endsWith "\n" then (line.dropEnd 1).toString else line
  let (st', outs) := stepLine st l
  for o in outs do out.putStrLn o
  loop h out st'

def main : IO Unit := do
  let out ← IO.getStdout
  loop (← IO.getStdin) out {}
