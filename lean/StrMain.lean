import ShexerModel.GeneratedStr
import ShexerModel.Model.Ttl
open Shexer PyOps

/-! Driver for the translator's own correspondence check (fragment S): the Python-string primitives of `Base/PyOps.lean`
and the functions regenerated into `GeneratedStr.lean` are run on the same arguments as CPython's `str` methods and the
real functions of /repo (`harness/strcheck.py`).  Strings travel as comma-separated code points (`-` = empty string,
`N` = None / omitted bound).  `urljoin` is replaced on both sides by the same bracketing stub, so argument order is seen. -/

def decStr (s : String) : List Char :=
  if s == "-" then [] else (s.splitOn ",").filterMap fun t => t.toNat?.map Char.ofNat
def encStr (l : List Char) : String := if l.isEmpty then "-" else ",".intercalate (l.map fun c => toString c.toNat)
def decInt? (s : String) : Option Int := if s == "N" then none else s.toInt?
def showExc : PyExc → String
  | .valueError => "ValueError"
  | .runtimeError => "RuntimeError"
  | .indexError => "IndexError"
  | .keyError => "KeyError"
  | .outOfFuel => "OutOfFuel"
  | .typeError => "TypeError"
def showBool (b : Bool) : String := if b then "bool 1" else "bool 0"
/-- stand-in for Python's `float()` on the tokens the check generates (sign, digits, one dot): `none` = ValueError, `some b` = whole number -/
def floatStub (t : List Char) : Option Bool := if Ttl.isNum t then some (Ttl.isIntegral t) else none
def resolveStub (b r : List Char) : List Char := "[".toList ++ b ++ "|".toList ++ r ++ "]".toList

def step (line : String) : String :=
  match line.trimAscii.toString.splitOn " " with
  | ["find", a, b] => s!"int {find (decStr a) (decStr b)}"
  | ["rfind", a, b] => s!"int {rfind (decStr a) (decStr b)}"
  | ["slice", a, i, j] => "str " ++ encStr (slice (decStr a) (decInt? i) (decInt? j))
  | ["startswith", a, b] => showBool (startsWith (decStr a) (decStr b))
  | ["endswith", a, b] => showBool (endsWith (decStr a) (decStr b))
  | ["in", a, b] => showBool (isIn (decStr a) (decStr b))
  | ["strip", a] => "str " ++ encStr (strip (decStr a))
  | "F" :: name :: flag :: opt :: strs =>
    match GenS.dispatch resolveStub floatStub name (strs.map decStr) (flag == "1") (if opt == "N" then none else some (decStr opt)) with
    | none => "nofunc"
    | some (.ok (some r)) => "str " ++ encStr r
    | some (.ok none) => "none"
    | some (.error e) => "err " ++ showExc e
  | "G" :: name :: num :: strs =>       -- a function with an int parameter; `while` loops get far more fuel than any terminating run needs
    let ss := strs.map decStr
    match GenS.dispatch resolveStub floatStub name ss false none (num.toInt?.getD 0) (4 * (ss.foldl (fun a s => a + s.length) 0) + 50) with
    | none => "nofunc"
    | some (.ok (some r)) => "str " ++ encStr r
    | some (.ok none) => "none"
    | some (.error e) => "err " ++ showExc e
  | "H" :: name :: flag :: num :: opt :: strs =>       -- flag, int, optional string and strings all given
    match GenS.dispatch resolveStub floatStub name (strs.map decStr) (flag == "1") (if opt == "N" then none else some (decStr opt)) (num.toInt?.getD 0) 1000 with
    | none => "nofunc"
    | some (.ok (some r)) => "str " ++ encStr r
    | some (.ok none) => "none"
    | some (.error e) => "err " ++ showExc e
  | _ => "bad-op"

partial def loop (h : IO.FS.Stream) (out : IO.FS.Stream) : IO Unit := do
  let line ← h.getLine
  if line.isEmpty then return ()
  out.putStrLn (step line)
  loop h out

def main : IO Unit := do
  let out ← IO.getStdout
  loop (← IO.getStdin) out
