import ShexerModel.Spec.Counts
open Shexer

/-! Spec-only driver: evaluates the declarative counts of `Spec/Counts.lean`.  It does not import the
shexing model, so it keeps working (and keeps serving the failing-input search) when a change to
the repository makes `Model/Shexer.lean` fail to compile against the regenerated definitions.
Same line protocol as `Main.lean`, modes `spec` and `keys` only. -/

structure Query where
  cls : String
  inv : Bool
  prop : String
  ty : String
  card : Card

structure DState where
  cfg : Config := {}
  triples : Array Triple := #[]
  selTriples : Array Triple := #[]
  queries : Array Query := #[]
  /-- explicit selection (`SEL` lines): node ↦ labels; overrides the class-based selection in the spec modes -/
  selLines : Array (String × List String) := #[]

def parseBool (s : String) : Bool := s == "1" || s == "true" || s == "True"
def splitList (s : String) : List String := if s.isEmpty then [] else s.splitOn "|"

def setCfg (cfg : Config) (kv : String) : Config :=
  match kv.splitOn "=" with
  | k :: rest =>
    let v := "=".intercalate rest
    match k with
    | "instProp" => { cfg with instProp := v }
    | "allClasses" => { cfg with allClasses := parseBool v }
    | "targets" => { cfg with targets := some (splitList v) }
    | "ignoreNs" => { cfg with ignoreNs := some (splitList v) }
    | "inverse" => { cfg with inverse := parseBool v }
    | "thNum" => { cfg with thNum := v.toNat?.getD 0 }
    | "thDen" => { cfg with thDen := v.toNat?.getD 1 }
    | _ => cfg
  | [] => cfg

def mkTerm (kind v : String) : Term :=
  match kind with
  | "I" => Term.iri v
  | "B" => Term.bnode v
  | _ => Term.lit v

def parseCard (s : String) : Card :=
  if s == "+" then Card.plus else if s == "*" then Card.star else if s == "?" then Card.opt
  else Card.exact (((s.drop 1).dropEnd 1).toString.toNat?.getD 0)

def runCase (st : DState) (what id : String) : List String :=
  let g := st.triples.toList
  let sel := if st.selLines.isEmpty then Spec.selectionOf st.cfg st.selTriples.toList else st.selLines.toList
  let body : List String :=
    match what with
    | "keys" =>
      let classes := Spec.dedup ((Dict.keys sel).flatMap fun n => Spec.classesIn sel n)
      classes.flatMap fun c =>
        ("KC\t" ++ c ++ "\t" ++ toString (Spec.classSize sel c)) ::
        (Spec.observedKeys st.cfg sel g c).map fun k =>
          "K\t" ++ (if k.1 then "I" else "D") ++ "\t" ++ k.2.1 ++ "\t" ++
            (match k.2.2 with | .datatype d => "dt:" ++ d | .nonliteral => "nonliteral" | .classValue v => "cv:" ++ v)
            ++ "\t" ++ toString (Spec.keyCount st.cfg sel g c k.1 k.2.1 k.2.2)
    | "spec" =>
      st.queries.toList.map fun q =>
        "A\t" ++ toString (if q.ty == Gen.NONLITERAL_ELEM_TYPE then Spec.countOverNonlit st.cfg sel g q.cls q.inv q.prop q.card
                           else Spec.countOver st.cfg sel g q.cls q.inv q.prop q.ty q.card) ++ "\t"
          ++ toString (Spec.classSize sel q.cls)
    | _ => ["bad-op"]
  ("BEGIN\t" ++ id) :: body ++ ["END"]

def stepLine (st : DState) (line : String) : DState × List String :=
  match line.splitOn "\t" with
  | "CFG" :: kvs => ({ st with cfg := kvs.foldl setCfg st.cfg }, [])
  | ["T", sk, s, p, ok, o] =>
    let t : Triple := { s := mkTerm sk s, p := p, o := mkTerm ok o }
    ({ st with triples := st.triples.push t, selTriples := st.selTriples.push t }, [])
  | ["TX", sk, s, p, ok, o] => ({ st with triples := st.triples.push { s := mkTerm sk s, p := p, o := mkTerm ok o } }, [])
  | ["SEL", n, ls] => ({ st with selLines := st.selLines.push (n, splitList ls) }, [])
  | ["Q", c, inv, p, ty, card] =>
    ({ st with queries := st.queries.push { cls := c, inv := inv == "I", prop := p, ty := ty, card := parseCard card } }, [])
  | ["RUN", what, id] => ({}, runCase st what id)
  | [""] => (st, [])
  | _ => (st, ["bad-op\t" ++ line])

partial def loop (h : IO.FS.Stream) (out : IO.FS.Stream) (st : DState) : IO Unit := do
  let line ← h.getLine
  if line.isEmpty then return ()
  let l := if line.endsWith "\n" then (line.dropEnd 1).toString else line
  let (st', outs) := stepLine st l
  for o in outs do out.putStrLn o
  loop h out st'

def main : IO Unit := do
  let out ← IO.getStdout
  loop (← IO.getStdin) out {}
