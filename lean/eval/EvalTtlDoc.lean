import ShexerModel.Lemmas.GenTtlDoc
open Shexer PyOps Shexer.GenStrTune2 Shexer.GenNtReader Shexer.GenTtlReader Shexer.GenTtlDoc
def pieces : List String := ["@prefix", "@base", "x:", "x", ":", "<http://e/>", "<u", ">", ".", " ", " ", "\"a\"", "x:a", ";", "#", "\t", "a"]
def strs : Nat → List (List Char)
  | 0 => [[]]
  | n+1 => (strs n) ++ ((strs n).flatMap fun s => pieces.map (fun p => s ++ p.toList))
instance : BEq Triple := ⟨fun a b => decide (a = b)⟩
instance : BEq Ttl.Wait := ⟨fun a b => decide (a = b)⟩
def stEq (a b : Ttl.St) : Bool := a.wait == b.wait && a.s == b.s && a.p == b.p && a.o == b.o && a.ctx.base == b.ctx.base && a.ctx.prefixes == b.ctx.prefixes
def eqR (a b : Except PyExc (Ttl.St × List Triple)) : Bool := match a, b with
  | .ok x, .ok y => stEq x.1 y.1 && x.2 == y.2
  | .error e1, .error e2 => e1 == e2
  | _, _ => false
def eqE {α} [BEq α] (a b : Except PyExc α) : Bool := match a, b with
  | .ok x, .ok y => x == y
  | .error e1, .error e2 => e1 == e2
  | _, _ => false
def res (b r : List Char) : List Char := "[".toList ++ b ++ "|".toList ++ r ++ "]".toList
def okCorner (raw : List Char) : Bool := let line := Ttl.cleanLine raw; (List.range (line.length + 1)).all fun j =>
  match (line.drop j).dropWhile (· = ' ') with
  | '<' :: t => (Nt.toCorner ('<' :: t)).isSome
  | _ => true
def main : IO Unit := do
  let ss := strs 5
  IO.println s!"{ss.length}"
  let mut bad := 0
  let mut n := 0
  let st0 : Ttl.St := { ctx := { prefixes := [("x".toList, "http://e/".toList)], base := none } }
  for s in ss do
    let e1 : Ttl.M (List Char × List Char) := match Ttl.splitSpace s with
      | [_, p, ns, dot] => if dot = ['.'] then (Ttl.removeCornersHard ns).map fun ns' => (if Nt.endsWith p ":" then p.dropLast else p, ns') else throw (Ttl.Err.valueError "A directive is expected to be alone in its line")
      | _ => throw (Ttl.Err.valueError "A directive is expected to be alone in its line")
    if !(eqE (GenS.ttl_process_prefix_line [] s) (e1.mapError excOfTtl)) then bad := bad + 1; if bad < 10 then IO.println s!"prefix {s}"
    let e2 : Ttl.M (List Char) := match Ttl.splitSpace s with
      | [_, x, dot] => if dot = ['.'] then Ttl.removeCornersHard x else throw (Ttl.Err.valueError "A directive is expected to be alone in its line")
      | _ => throw (Ttl.Err.valueError "A directive is expected to be alone in its line")
    if !(eqE (GenS.ttl_process_base_line none s) (e2.mapError excOfTtl)) then bad := bad + 1; if bad < 10 then IO.println s!"base {s}"
    if okCorner s then
      n := n + 1
      let l := (genProcessLine res (s.length + 1) st0 s).map (fun r => (r.1, r.2.map tripleOfObjs))
      let r := (Ttl.processLine res st0 s).mapError excOfTtl
      if !(eqR l r) then bad := bad + 1; if bad < 10 then IO.println s!"line {s}"
  -- documents of two lines
  let small := (strs 3).filter okCorner
  let mut docs := 0
  for a in small.take 400 do
    for b in small.take 400 do
      docs := docs + 1
      let l := (genReadLines res 40 [a, b]).map (List.map tripleOfObjs)
      let r := (Ttl.readLines res [a, b]).mapError excOfTtl
      if !(eqE l r) then bad := bad + 1; if bad < 10 then IO.println s!"doc {a} / {b}"
  IO.println s!"lines {n} docs {docs} bad {bad}"
