import ShexerModel.Lemmas.GenStrTtlElem
open Shexer PyOps Shexer.GenStrTune2
def pieces : List String := ["\"", "\\", "a", " ", " ", "<", ">", "^^", "#", "\t", "\n", ":", "x:", "_:", "1", ".", "-", "true", "rdf:type"]
def strs : Nat → List (List Char)
  | 0 => [[]]
  | n+1 => (strs n) ++ ((strs n).flatMap fun s => pieces.map (fun p => s ++ p.toList))
def eqE {α} [BEq α] (a b : Except PyExc α) : Bool := match a, b with
  | .ok x, .ok y => x == y
  | .error e1, .error e2 => e1 == e2
  | _, _ => false
def res (b r : List Char) : List Char := "[".toList ++ b ++ "|".toList ++ r ++ "]".toList
def main : IO Unit := do
  let ss := strs 4
  IO.println s!"{ss.length}"
  let mut bad := 0
  for s in ss do
    if !(eqE (GenS.ttl_clean_line (s.length + 1) s) (.ok (Ttl.cleanLine s))) then bad := bad + 1; if bad < 10 then IO.println s!"clean {s}"
    for ctx in [({} : Ttl.Ctx), { base := some "http://b/".toList, prefixes := [("x".toList, "http://e/".toList), ("".toList, "u:".toList)] }] do
      if !(eqE (GenS.ttl_parse_elem res ttlFloat ctx.base ctx.prefixes s) ((Ttl.parseElem res ctx s).mapError excOfTtl)) then bad := bad + 1; if bad < 10 then IO.println s!"elem {s}"
  IO.println s!"bad {bad}"
