import ShexerModel.Lemmas.GenStrTtlTok
open Shexer PyOps Shexer.GenStrTune2
def pieces : List String := ["\"", "\\", "a", " ", " ", "<", ">", "^", "@", ";", ",", ".", "x:", "#"]
def strs : Nat → List (List Char)
  | 0 => [[]]
  | n+1 => (strs n) ++ ((strs n).flatMap fun s => pieces.map (fun p => s ++ p.toList))
def eqE {α} [BEq α] (a b : Except PyExc α) : Bool := match a, b with
  | .ok x, .ok y => x == y
  | .error e1, .error e2 => e1 == e2
  | _, _ => false
def res (b r : List Char) : List Char := "[".toList ++ b ++ "|".toList ++ r ++ "]".toList
def main : IO Unit := do
  let ss := strs 5
  IO.println s!"{ss.length}"
  let mut bad := 0
  let mut n := 0
  for s in ss do
    for ctx in [({} : Ttl.Ctx), { base := some "http://b/".toList }] do
      if !(eqE (GenS.ttl_parse_cornered_element res ctx.base s) (.ok (Ttl.parseCornered res ctx s))) then bad := bad + 1; IO.println s!"cornered {s}"
      for i in List.range (s.length + 2) do
        let okc := match (s.drop i).dropWhile (· = ' ') with
          | '<' :: t => (Nt.toCorner ('<' :: t)).isSome
          | _ => true
        if okc then
          n := n + 1
          let l := (GenS.ttl_next_line_token res (s.length + 1) ctx.base s (i : Int)).map (Option.map fun p => (p.1, s.drop p.2.toNat))
          let r := (Ttl.nextToken res ctx (s.drop i)).mapError excOfTtl
          if !(eqE l r) then bad := bad + 1; if bad < 10 then IO.println s!"tok {s} {i}"
  IO.println s!"cases {n} bad {bad}"
