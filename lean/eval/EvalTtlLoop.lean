import ShexerModel.Lemmas.GenTtlReader
open Shexer PyOps Shexer.GenStrTune2 Shexer.GenNtReader Shexer.GenTtlReader
def pieces : List String := ["\"a\"", "\"", "x:a", "x:", "a", " ", " ", "<u>", "<", "^^x:d", "@en", ";", ",", ".", "1", "_:b", "zz:q"]
def strs : Nat → List (List Char)
  | 0 => [[]]
  | n+1 => (strs n) ++ ((strs n).flatMap fun s => pieces.map (fun p => s ++ p.toList))
instance : BEq Triple := ⟨fun a b => decide (a = b)⟩
instance : BEq Ttl.Wait := ⟨fun a b => decide (a = b)⟩
def stEq (a b : Ttl.St) : Bool := a.wait == b.wait && a.s == b.s && a.p == b.p && a.o == b.o && a.ctx.base == b.ctx.base && a.ctx.prefixes == b.ctx.prefixes
def eqR (a b : Except PyExc (Ttl.St × List Triple)) : Bool := match a, b with
  | .ok x, .ok y => stEq x.1 y.1 && x.2 == y.2
  | .error e1, .error e2 => e1 == e2
  | _, _ => false
def res (b r : List Char) : List Char := "[".toList ++ b ++ "|".toList ++ r ++ "]".toList
def okCorner (line : List Char) : Bool := (List.range (line.length + 1)).all fun j =>
  match (line.drop j).dropWhile (· = ' ') with
  | '<' :: t => (Nt.toCorner ('<' :: t)).isSome
  | _ => true
def main : IO Unit := do
  let ss := strs 5
  IO.println s!"{ss.length}"
  let mut bad := 0
  let mut n := 0
  let mut yielded := 0
  let st0 : Ttl.St := { ctx := { prefixes := [("x".toList, "http://e/".toList)], base := none } }
  let st1 : Ttl.St := { ctx := { prefixes := [("x".toList, "http://e/".toList)], base := some "http://b/".toList }, wait := .obj, s := some "<http://e/s>".toList, p := some "<http://e/p>".toList }
  for s in ss do
    if okCorner s then
      for st in [st0, st1] do
        n := n + 1
        let l := (genLineLoop res (s.length + 1) (s.length + 1) st s (0 : Int)).map (fun r => (r.1, r.2.map tripleOfObjs))
        let r := (Ttl.lineLoop res (s.length + 1) st s).mapError excOfTtl
        match r with | .ok (_, _ :: _) => yielded := yielded + 1 | _ => pure ()
        if !(eqR l r) then bad := bad + 1; if bad < 10 then IO.println s!"line {s}"
  IO.println s!"cases {n} yielding {yielded} bad {bad}"
