import ShexerModel.Lemmas.GenStrNtTokB
open Shexer PyOps
def pieces : List String := ["<", ">", "\"", "\\", "a", " ", ".", "@", "^^", "^^<", "_", "1", "#"]
def strs : Nat → List (List Char)
  | 0 => [[]]
  | n+1 => (strs n) ++ ((strs n).flatMap fun s => if s.length ≥ n then pieces.map (fun p => s ++ p.toList) else [])
def main : IO Unit := do
  let ss := strs 4
  let mut bad := 0
  let mut div := 0
  for s in ss do
    match Nt.tokens s with
    | some _ => pure ()
    | none =>
      div := div + 1
      for fuel in List.range (2 * s.length + 6) do
        match GenS.nt_look_for_tokens fuel s with
        | .error .outOfFuel => pure ()
        | _ => bad := bad + 1; IO.println s!"tokens-div {s} fuel {fuel}"
  IO.println s!"divergent {div} bad {bad}"
