import ShexerModel.Lemmas.GenNtReader
open Shexer PyOps Shexer.GenStrTune2 Shexer.GenNtReader
def pieces : List String := ["<a>", "<", ">", "\"", "\\", "a", " ", " ", ".", "@e", "^^<d>", "^^", "_:b", "1", "#", "\t"]
def strs : Nat → List (List Char)
  | 0 => [[]]
  | n+1 => (strs n) ++ ((strs n).flatMap fun s => pieces.map (fun p => s ++ p.toList))
instance : BEq Triple := ⟨fun a b => decide (a = b)⟩
def eqE {α} [BEq α] (a b : Except PyExc α) : Bool := match a, b with
  | .ok x, .ok y => x == y
  | .error e1, .error e2 => e1 == e2
  | _, _ => false
def main : IO Unit := do
  let ss := strs 5
  IO.println s!"{ss.length}"
  let mut bad := 0
  let mut ok3 := 0
  for s in ss do
    let l := (genParseLine (fun _ r => r) (fun _ => none) (s.length + 1) s).map (Option.map tripleOfObjs)
    let r := (Nt.parseLine s).mapError excOfNt
    match r with | .ok (some _) => ok3 := ok3 + 1 | _ => pure ()
    if !(eqE l r) then bad := bad + 1; if bad < 10 then IO.println s!"line {s}"
  IO.println s!"bad {bad} triples {ok3}"
