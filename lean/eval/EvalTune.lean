import ShexerModel.Lemmas.GenStrTune2
open Shexer PyOps Shexer.GenStrTune2
def pieces : List String := ["<", ">", "\"", "a", " ", "@", "^^", "^^<", "^^xsd:", "_:", "1", ".", "[]", "-", "#"]
def strs : Nat → List (List Char)
  | 0 => [[]]
  | n+1 => (strs n) ++ ((strs n).flatMap fun s => if s.length ≥ n then pieces.map (fun p => s ++ p.toList) else [])
def eqE {α} [BEq α] (a b : Except PyExc α) : Bool := match a, b with
  | .ok x, .ok y => x == y
  | .error e1, .error e2 => e1 == e2
  | _, _ => false
def res (b r : List Char) : List Char := "[".toList ++ b ++ "|".toList ++ r ++ "]".toList
instance : BEq Term := ⟨fun a b => decide (a = b)⟩
def main : IO Unit := do
  let ss := strs 4
  IO.println s!"{ss.length}"
  let mut bad := 0
  for s in ss do
    if !(eqE ((GenS.tune_token res (fun _ => none) s false true none).map termOfObj) ((Nt.tuneToken s).mapError excOfNt)) then bad := bad + 1; IO.println s!"nt tok {s}"
    if !(eqE ((GenS.tune_prop s true).map termOfObj) (((Nt.removeCorners s).map Term.iri).mapError excOfNt)) then bad := bad + 1; IO.println s!"nt prop {s}"
    if !(eqE ((GenS.tune_subj s false).map termOfObj) ((Ttl.tuneSubj (some s)).mapError excOfTtl)) then bad := bad + 1; IO.println s!"ttl subj {s}"
    if !(eqE ((GenS.tune_prop s false).map termOfObj) (((Ttl.tuneProp (some s)).map Term.iri).mapError excOfTtl)) then bad := bad + 1; IO.println s!"ttl prop {s}"
    for b in [none, some "http://b/".toList] do
      if !(eqE ((GenS.tune_token res ttlFloat s true false b).map termOfObj) ((Ttl.tuneObj res b (some s)).mapError excOfTtl)) then bad := bad + 1; IO.println s!"ttl tok {s}"
  IO.println s!"bad {bad}"
