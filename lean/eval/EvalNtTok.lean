import ShexerModel.Lemmas.GenStrNtTokB
open Shexer PyOps

def pieces : List String := ["<", ">", "\"", "\\", "a", " ", ".", "@", "^^", "^^<", "_", "1", "#", "\t", "é"]
def strs : Nat → List (List Char)
  | 0 => [[]]
  | n+1 => (strs n) ++ ((strs n).flatMap fun s => if s.length ≥ n then pieces.map (fun p => s ++ p.toList) else [])

def okI (a b : Except PyExc Int) : Bool := match a, b with | .ok x, .ok y => x == y | .error _, .error _ => true | _, _ => false

def main : IO Unit := do
  let ss := strs 4
  IO.println s!"{ss.length} strings"
  let mut bad := 0
  for s in ss do
    let fuel := s.length + 1
    for i in List.range (s.length + 1) do
      -- closing
      let e1 : Except PyExc Int := .ok (match Nt.closing (s.drop (i + 1)) with | some (content, _) => ((i + 1 + content.length : Nat) : Int) | none => (s.length : Int) - 1)
      if !(okI (GenS.nt_look_for_index_of_closing_quotes fuel s i) e1) then bad := bad + 1; IO.println s!"closing {s} {i}"
      match s[i]? with
      | some c =>
        if Nt.isSpace c = false && c != '#' then
          let e2 : Except PyExc Int := .ok (((i + (Nt.toBlank (s.drop i)).1.length : Nat) : Int) - 1)
          if !(okI (GenS.nt_look_for_last_index_before_blank fuel s i) e2) then bad := bad + 1; IO.println s!"blank {s} {i}"
        if c == '"' then
          let e4 : Except PyExc Int := .ok (match Nt.literalToken (s.drop (i + 1)) with | some (tok, _) => ((i + tok.length : Nat) : Int) - 1 | none => -1)
          if !(okI (GenS.nt_look_for_last_index_of_literal_token fuel s i) e4) then bad := bad + 1; IO.println s!"literal {s} {i}"
      | none => pure ()
      let e3 : Except PyExc Int := .ok (match Nt.toCorner (s.drop i) with | some (tok, _) => ((i + tok.length : Nat) : Int) - 1 | none => (i : Int) - 1)
      if !(okI (GenS.nt_look_for_last_index_of_uri_token s i) e3) then bad := bad + 1; IO.println s!"uri {s} {i}"
    match Nt.tokens s with
    | some ts => match GenS.nt_look_for_tokens fuel s with
      | .ok r => if r != ts then bad := bad + 1; IO.println s!"tokens {s}"
      | .error _ => bad := bad + 1; IO.println s!"tokens-err {s}"
    | none => match GenS.nt_look_for_tokens (3 * fuel + 10) s with
      | .error .outOfFuel => pure ()
      | _ => bad := bad + 1; IO.println s!"tokens-div {s}"
  IO.println s!"bad {bad}"
