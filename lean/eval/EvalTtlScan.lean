import ShexerModel.Lemmas.GenStrTtlScanA
import ShexerModel.Lemmas.GenStrTtlScanB
open Shexer PyOps

def pieces : List String := ["\"", "\\", "a", " ", "#", "^", "@", "^^", "<", "x:", "."]
def strs : Nat → List (List Char)
  | 0 => [[]]
  | n+1 => (strs n) ++ ((strs n).flatMap fun s => if s.length ≥ n then pieces.map (fun p => s ++ p.toList) else [])

def eqE {α} [BEq α] (a b : Except PyExc α) : Bool := match a, b with
  | .ok x, .ok y => x == y
  | .error e1, .error e2 => e1 == e2
  | _, _ => false

def main : IO Unit := do
  let ss := strs 5
  IO.println s!"{ss.length} strings"
  let mut bad := 0
  let dicts : List (List (List Char × List Char)) := [[], [("x".toList, "http://e/".toList)], [("".toList, "u:".toList), ("x".toList, "h".toList)]]
  for s in ss do
    let fuel := s.length + 1
    if !(eqE (GenS.ttl_remove_comments_if_needed fuel s) (.ok (Ttl.removeComment s))) then bad := bad + 1; IO.println s!"comments {s}"
    for d in dicts do
      if !(eqE (GenS.ttl_expand_prefixed_datatype_if_needed d s) (.ok (Ttl.expandDatatype { prefixes := d } s))) then bad := bad + 1; IO.println s!"expand {s}"
    for i in List.range (s.length + 1) do
      if !(eqE (GenS.ttl_find_next_blank s i) (.ok (((i + ((s.drop i).takeWhile (· != ' ')).length : Nat) : Int)))) then bad := bad + 1; IO.println s!"blank {s} {i}"
      if s[i]? == some '"' then
        let e3 : Except PyExc Int := match Nt.closing (s.drop (i + 1)) with
          | some (content, _) => .ok (((i + 1 + content.length : Nat) : Int))
          | none => .error .valueError
        if !(eqE (GenS.ttl_find_next_unescaped_quotes fuel s ((i : Int) + 1)) e3) then bad := bad + 1; IO.println s!"quotes {s} {i}"
        let e4 : Except PyExc Int := match Nt.closing (s.drop (i + 1)) with
          | none => .error .valueError
          | some (content, rest) =>
            match rest with
            | [] => .ok (((i + 1 + content.length : Nat) : Int))
            | d :: _ =>
              if d = ' ' then .ok (((i + 1 + content.length : Nat) : Int))
              else if d = '^' || d = '@' then .ok (((i + 1 + content.length + (rest.takeWhile (· != ' ')).length : Nat) : Int))
              else .error .valueError
        if !(eqE (GenS.ttl_find_next_quoted_literal_ending fuel s (i : Int)) e4) then bad := bad + 1; IO.println s!"ending {s} {i}"
  IO.println s!"bad {bad}"
