/-! Abstract RDF terms as sheXer's model classes see them (`IRI`, `BNode`, `Literal`, `Property`). -/
namespace Shexer

inductive Term
  | iri (s : String)
  | bnode (s : String)          -- identifier as read, i.e. including the leading `_:`
  | lit (dt : String)           -- only the datatype matters downstream of the readers
deriving DecidableEq, Repr, Inhabited

namespace Term
def isNode : Term → Bool
  | iri _ => true | bnode _ => true | lit _ => false
def isIri : Term → Bool
  | iri _ => true | _ => false
/-- the `.iri` attribute (`Literal` has none: reading it is an `AttributeError`, see `Model/Crash`) -/
def key : Term → String
  | iri s => s | bnode s => s | lit _ => ""
end Term

structure Triple where
  s : Term
  p : String
  o : Term
deriving DecidableEq, Repr, Inhabited

abbrev Graph := List Triple

end Shexer
