/-! PLACEHOLDER — overwritten by harness/extract.py from /repo's Python AST on every run. -/
namespace Shexer.Gen
def IRI_ELEM_TYPE : String := "IRI"
def BNODE_ELEM_TYPE : String := "BNode"
def NONLITERAL_ELEM_TYPE : String := "NONLITERAL"
def STARTING_CHAR_FOR_SHAPE_NAME : String := "%"
end Shexer.Gen
