/-! Python `str` operations on `List Char`, as the generated string functions (`Generated.lean`, fragment S) use them:
`find` / `rfind` (−1 when absent), slicing with Python's clamping and negative indices, `startswith` / `endswith`,
`in`, `strip`.  Hand-written, part of the trusted base; the `#guard`s pin them to values computed by CPython. -/
namespace Shexer
namespace PyOps

/-- exceptions a generated string function can raise -/
inductive PyExc where
  | valueError
  | runtimeError
  | indexError
  | keyError
  | typeError      -- a `None` result used as a number
  | outOfFuel      -- a `while` loop used up the fuel it was given: the Python loop had not ended after that many rounds
deriving DecidableEq, Repr

/-- the model objects the readers build: `IRI(content)`, `BNode(identifier)`, `Literal(content, elem_type)`, `Property(content)` -/
inductive Obj where
  | iri (content : List Char)
  | bnode (identifier : List Char)
  | lit (content elemType : List Char)
  | prop (content : List Char)
deriving DecidableEq, Repr

def findFrom (l pat : List Char) : Nat → Option Nat
  | i => if i + pat.length > l.length then none
         else if pat.isPrefixOf (l.drop i) then some i else findFrom l pat (i + 1)
termination_by i => l.length + 1 - i
decreasing_by omega

/-- `l.find(pat)` -/
def find (l pat : List Char) : Int :=
  match findFrom l pat 0 with
  | some i => i
  | none => -1

/-- all start positions of `pat`, increasing -/
def occurrences (l pat : List Char) : List Nat :=
  (List.range (l.length + 1)).filter fun i => i + pat.length ≤ l.length && pat.isPrefixOf (l.drop i)

/-- `l.rfind(pat)` -/
def rfind (l pat : List Char) : Int :=
  match (occurrences l pat).getLast? with
  | some i => i
  | none => -1

/-- a slice bound as Python clamps it -/
def clamp (len : Nat) (i : Int) : Nat :=
  if i < 0 then (if i + len < 0 then 0 else (i + len).toNat) else (if i.toNat > len then len else i.toNat)

/-- `l[i:j]` (`none` = omitted bound) -/
def slice (l : List Char) (i j : Option Int) : List Char :=
  let a := match i with | some i => clamp l.length i | none => 0
  let b := match j with | some j => clamp l.length j | none => l.length
  (l.take b).drop a

def startsWith (l p : List Char) : Bool := p.isPrefixOf l
def endsWith (l p : List Char) : Bool := p.reverse.isPrefixOf l.reverse
/-- `pat in l` -/
def isIn (pat l : List Char) : Bool := (findFrom l pat 0).isSome

/-- `str.isspace()` for one character -/
def isSpace (c : Char) : Bool :=
  let n := c.toNat
  (9 ≤ n && n ≤ 13) || (28 ≤ n && n ≤ 32) || n == 133 || n == 160 || n == 5760 || (8192 ≤ n && n ≤ 8202) ||
    n == 8232 || n == 8233 || n == 8239 || n == 8287 || n == 12288

/-- `l.strip()` -/
def strip (l : List Char) : List Char := ((l.dropWhile isSpace).reverse.dropWhile isSpace).reverse

/-- `l[i]` for an int index: negative indices count from the end, out of range raises IndexError -/
def index (l : List Char) (i : Int) : Except PyExc Char :=
  let j := if i < 0 then i + l.length else i
  if j < 0 then throw .indexError
  else match l[j.toNat]? with
    | some c => pure c
    | none => throw .indexError

/-- `l[i]` for a list of strings: negative indices count from the end, out of range raises IndexError -/
def indexL (l : List (List Char)) (i : Int) : Except PyExc (List Char) :=
  let j := if i < 0 then i + l.length else i
  if j < 0 then throw .indexError
  else match l[j.toNat]? with
    | some x => pure x
    | none => throw .indexError

/-- `d[k]` on an insertion-ordered dictionary of strings -/
def dictGet (d : List (List Char × List Char)) (k : List Char) : Except PyExc (List Char) :=
  match d.find? fun e => e.1 == k with
  | some e => pure e.2
  | none => throw .keyError

/-- `k in d` -/
def dictHas (d : List (List Char × List Char)) (k : List Char) : Bool := (d.find? fun e => e.1 == k).isSome

/-- `best = None; for k in d: if cond(k): best = k; break` -/
def findFirst (d : List (List Char × List Char)) (cond : List Char → Bool) : Option (List Char) :=
  (d.find? fun e => cond e.1).map (·.1)

def replaceGo (old new : List Char) : Nat → List Char → List Char
  | 0, l => l
  | _ + 1, [] => []
  | f + 1, c :: t => if old.isPrefixOf (c :: t) then new ++ replaceGo old new f ((c :: t).drop old.length) else c :: replaceGo old new f t

/-- `s.replace(old, new)`: every non-overlapping occurrence, left to right; an empty `old` matches before every character and at the end -/
def replace (s old new : List Char) : List Char :=
  if old.isEmpty then new ++ s.flatMap (fun c => c :: new) else replaceGo old new s.length s

#guard replace "abcabc".toList "bc".toList "X".toList == "aXaX".toList && replace "aaa".toList "aa".toList "X".toList == "Xa".toList
#guard replace "abc".toList [] "-".toList == "-a-b-c-".toList && replace [] [] "-".toList == "-".toList && replace "abc".toList "x".toList "y".toList == "abc".toList
#guard (dictGet [("a".toList, "1".toList)] "a".toList).toOption == some "1".toList && (dictGet [] "a".toList).toOption == none

/-- `for x in xs: body` where the body only tests and returns / raises; `some r` = the body executed `return r` -/
def forEach {α β : Type} (xs : List α) (f : α → Except PyExc (Option β)) : Except PyExc (Option β) :=
  match xs with
  | [] => pure none
  | x :: rest => do
    match ← f x with
    | some r => pure (some r)
    | none => forEach rest f

#guard (forEach [1, 2, 3] (fun x => pure (if x == 2 then some x else none)) : Except PyExc (Option Nat)).toOption == some (some 2)

/-- `re.compile("[cls]").search(l)`: `.start()` of the match = index of the first character of the class, `none` = no match -/
def searchClass (cls l : List Char) : Option Int :=
  (l.findIdx? fun c => cls.contains c).map fun i => (i : Int)

#guard searchClass ":/#".toList "ab/c#".toList == some 2 && searchClass ":/#".toList "abc".toList == none

/-- rounds `start, start+1, …` (`count` of them) of a loop body; `some r` = the body executed `return r` -/
def forRangeFrom {α : Type} (f : Int → Except PyExc (Option α)) (start : Nat) : Nat → Except PyExc (Option α)
  | 0 => pure none
  | k + 1 => do
    match ← f start with
    | some r => pure (some r)
    | none => forRangeFrom f (start + 1) k

/-- `for i in range(n): body` where the body only tests and returns / raises -/
def forRange {α : Type} (n : Int) (f : Int → Except PyExc (Option α)) : Except PyExc (Option α) :=
  forRangeFrom f 0 n.toNat

/-- `str.isnumeric()` for one character, restricted to ASCII digits (the only numeric characters of the documents in scope) -/
def isNumeric (c : Char) : Bool := c.isDigit

/-- `re.compile("[cls]").sub(rep, l)`: every character of the class becomes `rep` -/
def subClass (cls rep l : List Char) : List Char := l.flatMap fun c => if cls.contains c then rep else [c]

/-- `re.compile("  +").sub(" ", l)`: every run of two or more spaces becomes one space -/
def squeezeGo : Bool → List Char → List Char
  | _, [] => []
  | prevSpace, c :: t => if c = ' ' then (if prevSpace then squeezeGo true t else c :: squeezeGo true t) else c :: squeezeGo false t
def squeezeBlanks (l : List Char) : List Char := squeezeGo false l

#guard subClass "\r\n\t".toList " ".toList "a\tb\r\nc".toList == "a b  c".toList && squeezeBlanks "a  b   c d ".toList == "a b c d ".toList && squeezeBlanks "   ".toList == " ".toList

/-- `l.split(c)` for a one-character separator: the pieces between the separators, empty pieces included (`"".split(c) == [""]`) -/
def splitChar (l : List Char) (c : Char) : List (List Char) :=
  l.foldr (fun x acc => if x = c then [] :: acc else match acc with | [] => [[x]] | h :: t => (x :: h) :: t) [[]]

#guard splitChar "a\tb\t\tc".toList '\t' == ["a".toList, "b".toList, [], "c".toList] && splitChar [] '\t' == [[]] && splitChar "\t".toList '\t' == [[], []]

/-- `l.find(pat, start)`: the search begins at `start` (clamped like a slice bound) -/
def findAt (l pat : List Char) (start : Int) : Int :=
  if start > l.length then -1      -- beyond the end nothing is found, not even the empty pattern
  else match findFrom l pat (clamp l.length start) with
  | some i => i
  | none => -1

#guard findAt "a>b>".toList ">".toList 2 == 3 && findAt "a>b>".toList ">".toList 4 == -1 && findAt "a>b>".toList ">".toList (-3) == 1
#guard findAt "abc".toList [] 7 == -1 && findAt "abc".toList [] 3 == 3 && findAt "a>b".toList ">".toList 0 == 1

/-- what one round of a `while` body does: go on with the next round, leave the loop (`break`, or the condition is false), or `return` -/
inductive Ctl (σ ρ : Type) where
  | next (s : σ)
  | brk (s : σ)
  | ret (r : ρ)

/-- `while cond: body` over the variables `σ` the body assigns; one round = condition test + body.  `inl s` = the loop ended with the
variables `s`, `inr r` = the body executed `return r`.  The Python loop has no bound; the model runs at most `fuel` rounds and raises
`outOfFuel` after that (theorems about a generated loop say how much fuel is always enough). -/
def whileFuel {σ ρ : Type} (body : σ → Except PyExc (Ctl σ ρ)) : Nat → σ → Except PyExc (Sum σ ρ)
  | 0, _ => throw .outOfFuel
  | fuel + 1, s => do
    match ← body s with
    | .next s' => whileFuel body fuel s'
    | .brk s' => pure (.inl s')
    | .ret r => pure (.inr r)

#guard (match (whileFuel (fun (i : Nat) => pure (if i < 5 then Ctl.next (i + 1) else Ctl.brk i)) 10 0 : Except PyExc (Sum Nat Nat)) with | .ok (.inl 5) => true | _ => false)
#guard (match (whileFuel (fun (i : Nat) => pure (Ctl.next (i + 1))) 10 0 : Except PyExc (Sum Nat Nat)) with | .error .outOfFuel => true | _ => false)

#guard (index "abc".toList 0).toOption == some 'a' && (index "abc".toList (-1)).toOption == some 'c'
#guard (index "abc".toList 3).toOption == none && (index "abc".toList (-4)).toOption == none && (index [] 0).toOption == none
#guard (forRange 3 (fun i => pure (if i == 1 then some i else none)) : Except PyExc (Option Int)).toOption == some (some 1)
#guard (forRange (-2) (fun i => pure (some i)) : Except PyExc (Option Int)).toOption == some none
#guard find "abcabc".toList "bc".toList == 1
#guard find "abc".toList "x".toList == -1
#guard find "abc".toList [] == 0
#guard rfind "abcabc".toList "bc".toList == 4
#guard rfind "abc".toList "\"".toList == -1
#guard rfind "abc".toList [] == 3
#guard slice "abcdef".toList (some 1) (some (-1)) == "bcde".toList
#guard slice "abcdef".toList (some (-2)) none == "ef".toList
#guard slice "abc".toList (some 5) none == []
#guard slice "abc".toList none (some (-5)) == []
#guard slice "abc".toList (some 2) (some 1) == []
#guard slice "a\"b\"@en".toList (some (rfind "a\"b\"@en".toList "\"".toList + 1)) none == "@en".toList
#guard strip " \ta b\n ".toList == "a b".toList
#guard isIn "b".toList "abc".toList && !isIn "x".toList "abc".toList && isIn [] []
#guard endsWith "abc".toList "bc".toList && !endsWith "abc".toList "ab".toList

end PyOps
end Shexer
