/-! Python `str` operations on `List Char`, as the generated string functions (`Generated.lean`, fragment S) use them:
`find` / `rfind` (−1 when absent), slicing with Python's clamping and negative indices, `startswith` / `endswith`,
`in`, `strip`.  Hand-written, part of the trusted base; the `#guard`s pin them to values computed by CPython. -/
namespace Shexer
namespace PyOps

/-- exceptions a generated string function can raise -/
inductive PyExc where
  | valueError
  | runtimeError
  | indexError
deriving DecidableEq, Repr

def findFrom (l pat : List Char) : Nat → Option Nat
  | i => if i + pat.length > l.length then none
         else if pat.isPrefixOf (l.drop i) then some i else findFrom l pat (i + 1)
termination_by i => l.length + 1 - i
decreasing_by omega

/-- `l.find(pat)` -/
def find (l pat : List Char) : Int :=
  match findFrom l pat 0 with
  | some i => i
  | none => -1

/-- all start positions of `pat`, increasing -/
def occurrences (l pat : List Char) : List Nat :=
  (List.range (l.length + 1)).filter fun i => i + pat.length ≤ l.length && pat.isPrefixOf (l.drop i)

/-- `l.rfind(pat)` -/
def rfind (l pat : List Char) : Int :=
  match (occurrences l pat).getLast? with
  | some i => i
  | none => -1

/-- a slice bound as Python clamps it -/
def clamp (len : Nat) (i : Int) : Nat :=
  if i < 0 then (if i + len < 0 then 0 else (i + len).toNat) else (if i.toNat > len then len else i.toNat)

/-- `l[i:j]` (`none` = omitted bound) -/
def slice (l : List Char) (i j : Option Int) : List Char :=
  let a := match i with | some i => clamp l.length i | none => 0
  let b := match j with | some j => clamp l.length j | none => l.length
  (l.take b).drop a

def startsWith (l p : List Char) : Bool := p.isPrefixOf l
def endsWith (l p : List Char) : Bool := p.reverse.isPrefixOf l.reverse
/-- `pat in l` -/
def isIn (pat l : List Char) : Bool := (findFrom l pat 0).isSome

/-- `str.isspace()` for one character -/
def isSpace (c : Char) : Bool :=
  let n := c.toNat
  (9 ≤ n && n ≤ 13) || (28 ≤ n && n ≤ 32) || n == 133 || n == 160 || n == 5760 || (8192 ≤ n && n ≤ 8202) ||
    n == 8232 || n == 8233 || n == 8239 || n == 8287 || n == 12288

/-- `l.strip()` -/
def strip (l : List Char) : List Char := ((l.dropWhile isSpace).reverse.dropWhile isSpace).reverse

#guard find "abcabc".toList "bc".toList == 1
#guard find "abc".toList "x".toList == -1
#guard find "abc".toList [] == 0
#guard rfind "abcabc".toList "bc".toList == 4
#guard rfind "abc".toList "\"".toList == -1
#guard rfind "abc".toList [] == 3
#guard slice "abcdef".toList (some 1) (some (-1)) == "bcde".toList
#guard slice "abcdef".toList (some (-2)) none == "ef".toList
#guard slice "abc".toList (some 5) none == []
#guard slice "abc".toList none (some (-5)) == []
#guard slice "abc".toList (some 2) (some 1) == []
#guard slice "a\"b\"@en".toList (some (rfind "a\"b\"@en".toList "\"".toList + 1)) none == "@en".toList
#guard strip " \ta b\n ".toList == "a b".toList
#guard isIn "b".toList "abc".toList && !isIn "x".toList "abc".toList && isIn [] []
#guard endsWith "abc".toList "bc".toList && !endsWith "abc".toList "ab".toList

end PyOps
end Shexer
