/-! Insertion-ordered dictionary: mirrors the observable behaviour of a Python `dict`
(lookup, update in place, new keys appended last, deletion keeps the order of the rest). -/
namespace Shexer

abbrev Dict (κ ν : Type) := List (κ × ν)

namespace Dict
variable {κ ν : Type} [DecidableEq κ]

def get? : Dict κ ν → κ → Option ν
  | [], _ => none
  | (k', v) :: rest, k => if k' = k then some v else get? rest k

def contains (d : Dict κ ν) (k : κ) : Bool := (get? d k).isSome

/-- `d[k] = f(d.get(k))`, keeping the position of an existing key and appending a new key last. -/
def upd : Dict κ ν → κ → (Option ν → ν) → Dict κ ν
  | [], k, f => [(k, f none)]
  | (k', v) :: rest, k, f => if k' = k then (k', f (some v)) :: rest else (k', v) :: upd rest k f

/-- `d[k] = v` -/
def set (d : Dict κ ν) (k : κ) (v : ν) : Dict κ ν := upd d k (fun _ => v)

/-- `d.setdefault(k, v)` (the dictionary afterwards) -/
def setDefault (d : Dict κ ν) (k : κ) (v : ν) : Dict κ ν := upd d k (fun o => o.getD v)

/-- `del d[k]` (no error when absent) -/
def erase : Dict κ ν → κ → Dict κ ν
  | [], _ => []
  | (k', v) :: rest, k => if k' = k then rest else (k', v) :: erase rest k

def keys (d : Dict κ ν) : List κ := d.map Prod.fst

@[simp] theorem get?_nil (k : κ) : get? ([] : Dict κ ν) k = none := rfl

@[simp] theorem get?_upd_same (d : Dict κ ν) (k : κ) (f : Option ν → ν) :
    get? (upd d k f) k = some (f (get? d k)) := by
  induction d with
  | nil => simp [upd, get?]
  | cons hd tl ih =>
    obtain ⟨k', v⟩ := hd
    by_cases h : k' = k <;> simp [upd, get?, h, ih]

theorem get?_upd_other (d : Dict κ ν) (k k2 : κ) (f : Option ν → ν) (h : k ≠ k2) :
    get? (upd d k f) k2 = get? d k2 := by
  induction d with
  | nil => simp [upd, get?, h]
  | cons hd tl ih =>
    obtain ⟨k', v⟩ := hd
    by_cases h1 : k' = k
    · subst h1; simp [upd, get?, h]
    · by_cases h2 : k' = k2
      · subst h2; simp [upd, get?, h1]
      · simp [upd, get?, h1, h2, ih]

theorem get?_upd (d : Dict κ ν) (k k2 : κ) (f : Option ν → ν) :
    get? (upd d k f) k2 = if k = k2 then some (f (get? d k)) else get? d k2 := by
  by_cases h : k = k2
  · subst h; simp
  · simp [h, get?_upd_other _ _ _ _ h]

theorem contains_upd (d : Dict κ ν) (k k2 : κ) (f : Option ν → ν) :
    contains (upd d k f) k2 = (decide (k = k2) || contains d k2) := by
  unfold contains
  rw [get?_upd]
  by_cases h : k = k2 <;> simp [h]

/-- keys after an update: unchanged if the key was present, appended otherwise -/
theorem keys_upd (d : Dict κ ν) (k : κ) (f : Option ν → ν) :
    keys (upd d k f) = if contains d k then keys d else keys d ++ [k] := by
  induction d with
  | nil => simp [upd, keys, contains, get?]
  | cons hd tl ih =>
    obtain ⟨k', v⟩ := hd
    by_cases h : k' = k
    · simp [upd, keys, contains, get?, h]
    · simp only [keys, contains] at ih
      simp only [upd, keys, contains, get?, h, if_false, List.map_cons]
      rw [ih]
      split <;> simp_all

theorem get?_isSome_iff_mem_keys (d : Dict κ ν) (k : κ) :
    (get? d k).isSome = true ↔ k ∈ keys d := by
  induction d with
  | nil => simp [keys]
  | cons hd tl ih =>
    obtain ⟨k', v⟩ := hd
    by_cases h : k' = k
    · simp [get?, keys, h]
    · simp only [keys] at ih
      simp only [get?, h, if_false, keys, List.map_cons, List.mem_cons]
      rw [ih]
      constructor
      · intro hm; exact Or.inr hm
      · rintro (hm | hm)
        · exact absurd hm.symm h
        · exact hm

end Dict
end Shexer
