/-! A few Python `str` operations on `List Char` / `String`, as used by sheXer. -/
namespace Shexer
namespace PyStr

/-- index of the last occurrence of `c`, as `str.rfind(c)` (`none` = -1) -/
def rfindIdx (l : List Char) (c : Char) : Option Nat :=
  let rec go (l : List Char) (i : Nat) (acc : Option Nat) : Option Nat :=
    match l with
    | [] => acc
    | x :: xs => go xs (i + 1) (if x = c then some i else acc)
  go l 0 none

/-- `s[s.rfind(c)+1:]` (whole string when `c` does not occur) -/
def afterLast (l : List Char) (c : Char) : List Char :=
  match rfindIdx l c with
  | none => l
  | some i => l.drop (i + 1)

def startsWith (l p : List Char) : Bool := p.isPrefixOf l
def endsWith (l p : List Char) : Bool := p.reverse.isPrefixOf l.reverse

/-- `target.startswith(ns) and "/" not in rest and "#" not in rest` -/
def directChildOf (prop ns : List Char) : Bool :=
  startsWith prop ns && !((prop.drop ns.length).contains '/') && !((prop.drop ns.length).contains '#')

end PyStr
end Shexer
