/-! Hand-written types shared by the generated definitions and the model. -/
namespace Shexer

/-- cardinality of a statement: Python `int`, `"+"` (`POSITIVE_CLOSURE`), `"*"` (`KLEENE_CLOSURE`),
`"?"` (`OPT_CARDINALITY`) -/
inductive Card
  | exact (k : Nat)
  | plus
  | star
  | opt
deriving DecidableEq, Repr, Inhabited

/-- `type(c) == int and c > k` -/
def Card.exactGt : Card → Nat → Bool
  | Card.exact j, k => decide (j > k)
  | _, _ => false

def Card.isInt : Card → Bool
  | Card.exact _ => true
  | _ => false

/-- value handed to `sh:minCount` / `sh:maxCount`: nothing, a number, or (if the code ever lets a
closure symbol through) garbage -/
inductive Occ
  | none
  | nat (k : Nat)
  | bad
deriving DecidableEq, Repr, Inhabited

/-- `return cardinality` -/
def Card.asOcc : Card → Occ
  | Card.exact k => Occ.nat k
  | _ => Occ.bad

/-- outcome of a guard: `raise ValueError` / `raise <other>` / fall through -/
inductive Guard
  | ok
  | valueError
  | otherError (cls : String)
deriving DecidableEq, Repr, Inhabited

def Guard.andThen : Guard → Guard → Guard
  | Guard.ok, g => g
  | e, _ => e

/-- arguments of `Shaper.__init__` as far as the constructor-time checks read them:
presence (`is not None`) of the source and target arguments, the flags, the three enumerations -/
structure InitArgs where
  graph_file_input : Bool := false
  graph_list_of_files_input : Bool := false
  raw_graph : Bool := false
  url_graph_input : Bool := false
  list_of_url_input : Bool := false
  url_endpoint : Bool := false
  rdflib_graph : Bool := false
  target_classes : Bool := false
  file_target_classes : Bool := false
  shape_map_file : Bool := false
  shape_map_raw : Bool := false
  all_classes_mode : Bool := false
  disable_or_statements : Bool := true
  allow_redundant_or : Bool := false
  input_format : String := "nt"
  compression_mode : Option String := none
  examples_mode : Option String := none
deriving DecidableEq, Repr, Inhabited

/-- arguments of `shex_graph` / `profile_graph` read by the call-time checks; the threshold is the
rational `thNum / thDen` (`thDen > 0`) -/
structure CallArgs where
  string_output : Bool := false
  output_file : Bool := false
  to_uml_path : Bool := false
  output_format : String := "ShEx"
  thNum : Int := 0
  thDen : Nat := 1
deriving DecidableEq, Repr, Inhabited

end Shexer
