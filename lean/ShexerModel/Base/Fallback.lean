import ShexerModel.Base.Types
/-! Hand-written counterparts of the generated decision functions.  `Generated.lean` refers to one of
these only when the extractor could not translate the Python source any more (the function left
fragment G); the check then records the obligation as *not re-derived from source*, and the
correspondence / search decide whether the property still holds. -/
namespace Shexer.Fallback

def check_just_one_not_none (present : List Bool) : Guard :=
  if present.count true ≠ 1 then Guard.valueError else Guard.ok
def min_occurs_from_cardinality : Card → Occ
  | Card.star => Occ.none | Card.opt => Occ.none | Card.plus => Occ.nat 1 | c => c.asOcc
def max_occurs_from_cardinality : Card → Occ
  | Card.star => Occ.none | Card.plus => Occ.none | Card.opt => Occ.nat 1 | c => c.asOcc
def most_general_cardinality (a b : Card) : Card :=
  if a == Card.plus || b == Card.plus || a != b then Card.plus else a
def relax_cardinality (allowOpt : Bool) (c : Card) : Card :=
  if allowOpt && c == Card.exact 1 then Card.opt else Card.star
def relax_trigger (n N : Nat) : Bool := decide (n ≠ N)
def generalize_cardinality (c : Card) : Card := if c.exactGt 1 then Card.plus else c
def threshold_keeps (n N a b : Nat) : Bool := decide (n * b ≥ a * N)
def cardinality_representation (c : Card) (outOfComment : Bool) : String :=
  if outOfComment && c == Card.exact 1 then ""
  else match c with
    | Card.exact k => "{" ++ toString k ++ "}"
    | Card.plus => "+" | Card.star => "*" | Card.opt => "?"

def MACRO_MAPPING : List (String × Option String) :=
  [("IRI", some "http://www.w3.org/ns/shacl#IRI"), ("LITERAL", some "http://www.w3.org/ns/shacl#Literal"),
   (".", none), ("BNode", some "http://www.w3.org/ns/shacl#BlankNode"),
   ("NONLITERAL", some "http://www.w3.org/ns/shacl#BlankNodeOrIRI")]

end Shexer.Fallback
