import ShexerModel.Spec.ShExSem
/-! ShEx `EachOf` semantics proper (C03): the triples of a node for one predicate are *distributed* over the triple constraints of
that predicate - every value goes to exactly one constraint it matches - and every constraint must receive a number of values in its
cardinality interval.  `Spec.nodeConforms` counts the matching values of every constraint independently, which is the same thing
exactly when no value matches two constraints of its predicate (`Props/C03each.lean`); a shape that lists one constraint twice
(`p IRI ; p IRI`) is satisfied by the independent reading and by no node with a `p` under ShEx. -/
namespace Shexer
namespace Spec
open Shexer (Stmt Shape)

/-- can `vs` be distributed over the constraints in `acc` (each with the number of values it already received)? -/
def distribute (m : Stmt → Term → Bool) : List Term → List (Stmt × Nat) → Bool
  | [], acc => acc.all fun x => inInterval x.1.card x.2
  | v :: vs, acc => (List.range acc.length).any fun i =>
      match acc[i]? with
      | some x => m x.1 v && distribute m vs (acc.set i (x.1, x.2 + 1))
      | none => false

/-- the constraints of `sh` on predicate `p` in direction `inv`, in the order of the shape -/
def tcsOf (sh : Shape) (inv : Bool) (p : String) : List Stmt :=
  sh.stmts.filter fun st => st.inverse == inv && st.prop == p

/-- `n` conforms to `sh` under ShEx: for every predicate the shape mentions, the values can be distributed -/
def nodeConformsShEx (cfg : Config) (sel : Selection) (g : Graph) (n : String) (sh : Shape) : Bool :=
  sh.stmts.all fun st =>
    distribute (stmtMatches cfg sel) (valuesOf g st.inverse n st.prop) ((tcsOf sh st.inverse st.prop).map fun t => (t, 0))

def nonConformingShEx (cfg : Config) (sel : Selection) (g : Graph) (sh : Shape) : List String :=
  ((Dict.keys sel).filter fun n => (classesIn sel n).contains sh.classUri).filter fun n => !nodeConformsShEx cfg sel g n sh

def allConformShEx (cfg : Config) (sel : Selection) (g : Graph) (shapes : List Shape) : Bool :=
  shapes.all fun sh => (nonConformingShEx cfg sel g sh).isEmpty

end Spec
end Shexer
