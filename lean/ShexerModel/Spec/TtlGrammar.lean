import ShexerModel.Model.Ttl
import ShexerModel.Spec.NtGrammar
/-! The Turtle documents C07 quantifies over, as data.

A document body is a list of *lines*; a line is a list of tokens, each preceded by a run of blanks, possibly followed
by trailing blanks and a comment.  The tokens of all lines, concatenated, are the token stream of a list of *statement
groups* (`subject (predicate object (, object)*) (; predicate object …)* .`), so line breaks fall at arbitrary token
boundaries — a subject alone on its line, punctuation on its own line, empty lines, whole-line comments.

`Elem` is how a term is written; `Elem.term` is the term a standard Turtle parser assigns to it in the context of
the directives read so far (prefix map, base), with `resolve` standing for RFC 3986 resolution (`urljoin`). -/
namespace Shexer
namespace TtlGrammar
open Ttl NtGrammar

inductive DtSpelling
  | abs (iri : List Char)            -- ^^<iri>
  | pname (pre loc : List Char)      -- ^^pre:loc
deriving DecidableEq, Repr

inductive LitSuffix
  | none
  | lang (tag : List Char)
  | dt (d : DtSpelling)
deriving DecidableEq, Repr

inductive Elem
  | abs (iri : List Char)                        -- <iri>, absolute
  | rel (r : List Char)                          -- <r>, relative to @base
  | pname (pre loc : List Char)                  -- pre:loc
  | kwA                                          -- a
  | bnode (label : List Char)                    -- _:label
  | lit (content : List Item) (sf : LitSuffix)   -- "…" / "…"@tag / "…"^^dt
  | int (ds : List Char)                         -- 42, -7, +3
deriving DecidableEq, Repr

def DtSpelling.chars : DtSpelling → List Char
  | .abs iri => '<' :: iri ++ ['>']
  | .pname pre loc => pre ++ ':' :: loc

def LitSuffix.chars : LitSuffix → List Char
  | .none => []
  | .lang tag => '@' :: tag
  | .dt d => '^' :: '^' :: d.chars

def Elem.chars : Elem → List Char
  | .abs iri => '<' :: iri ++ ['>']
  | .rel r => '<' :: r ++ ['>']
  | .pname pre loc => pre ++ ':' :: loc
  | .kwA => ['a']
  | .bnode l => '_' :: ':' :: l
  | .lit content sf => '"' :: content.flatMap Item.chars ++ ['"'] ++ sf.chars
  | .int ds => ds

/-- blanks that separate tokens inside a line -/
def isBlank (c : Char) : Bool := c = ' ' || c = '\t' || c = '\r'

/-- characters that cannot occur inside an IRI reference, a prefixed name, a label or a language tag -/
def plainChar (c : Char) : Prop := Nt.isSpace c = false ∧ c ≠ '"'

def lookup (prefixes : List (List Char × List Char)) (pre : List Char) : Option (List Char) :=
  (prefixes.find? fun e => e.1 = pre).map (·.2)

/-- a prefix label: no `:` inside -/
def preOk (pre : List Char) : Prop := ∀ c ∈ pre, c ≠ ':' ∧ plainChar c

/-- a local name: plain characters, the text `pre:` does not occur in it, and it does not start a blank-node label -/
def locOk (pre loc : List Char) : Prop :=
  (∀ c ∈ loc, plainChar c) ∧ (∀ k, ¬ (pre ++ [':']).isPrefixOf ((pre ++ ':' :: loc).drop (k + 1)) = true)

/-- what `resolve` must satisfy on the references of the document: absolute references are fixed points, results
are absolute -/
structure ResolveOk (resolve : List Char → List Char → List Char) (b : List Char) (r : List Char) : Prop where
  idem : resolve b (resolve b r) = resolve b r
  noCorner : ∀ c ∈ resolve b r, c ≠ '>'

def DtSpelling.Valid (resolve : List Char → List Char → List Char) (ctx : Ctx) : DtSpelling → Prop
  | .abs iri => (∀ c ∈ iri, plainChar c ∧ c ≠ '>') ∧ (∀ b, ctx.base = some b → resolve b iri = iri)
  | .pname pre loc => preOk pre ∧ locOk pre loc ∧ (∃ ns, lookup ctx.prefixes pre = some ns ∧
      (∀ c ∈ ns ++ loc, c ≠ '"') ∧ (∀ b, ctx.base = some b → resolve b (ns ++ loc) = ns ++ loc)) ∧
      (∀ c ∈ loc, c ≠ '>') ∧ (pre ++ ':' :: loc).head? ≠ some '<' ∧ ['/', '/'].isPrefixOf loc = false

def LitSuffix.Valid (resolve : List Char → List Char → List Char) (ctx : Ctx) : LitSuffix → Prop
  | .none => True
  | .lang tag => tag ≠ [] ∧ ∀ c ∈ tag, plainChar c
  | .dt d => d.Valid resolve ctx

/-- the lexical form of a literal as the theorem covers it: valid items, and no tab, CR, line feed or run of two blanks
in it (the reader normalises those *inside* literals too, which changes the lexical form but not the datatype; that
case is covered by the correspondence check, not by the theorem) -/
def contentOk (content : List Item) : Prop :=
  (∀ i ∈ content, i.Valid) ∧
  (∀ c ∈ content.flatMap Item.chars, c ≠ '\t' ∧ c ≠ '\r' ∧ c ≠ '\n') ∧
  (∀ k, ¬ ([' ', ' '].isPrefixOf ((content.flatMap Item.chars).drop k) = true))

def Elem.Valid (resolve : List Char → List Char → List Char) (ctx : Ctx) : Elem → Prop
  | .abs iri => (∀ c ∈ iri, plainChar c ∧ c ≠ '>') ∧ (∀ b, ctx.base = some b → resolve b iri = iri)
  | .rel r => (∀ c ∈ r, plainChar c ∧ c ≠ '>') ∧ ∃ b, ctx.base = some b ∧ ResolveOk resolve b r
  | .pname pre loc => preOk pre ∧ locOk pre loc ∧ pre ≠ ['_'] ∧ (∃ ns, lookup ctx.prefixes pre = some ns) ∧
      (∀ c, (pre ++ ':' :: loc).head? = some c → c ≠ '<' ∧ c ≠ '@' ∧ c ≠ '#' ∧ isClosure c = false) ∧
      pre ++ ':' :: loc ≠ "rdf:type".toList
  | .kwA => True
  | .bnode l => l ≠ [] ∧ ∀ c ∈ l, plainChar c
  | .lit content sf => contentOk content ∧ sf.Valid resolve ctx
  | .int ds => ∃ sign body, ds = sign ++ body ∧ (sign = [] ∨ sign = ['+'] ∨ sign = ['-']) ∧ body ≠ [] ∧ ∀ c ∈ body, c.isDigit = true

def RDF_TYPE : String := "http://www.w3.org/1999/02/22-rdf-syntax-ns#type"

/-- the IRI a written IRI / prefixed name / `a` denotes -/
def Elem.iri? (resolve : List Char → List Char → List Char) (ctx : Ctx) : Elem → Option String
  | .abs iri => some (String.ofList iri)
  | .rel r => ctx.base.map fun b => String.ofList (resolve b r)
  | .pname pre loc => (lookup ctx.prefixes pre).map fun ns => String.ofList (ns ++ loc)
  | .kwA => some RDF_TYPE
  | _ => none

def DtSpelling.iri (ctx : Ctx) : DtSpelling → String
  | .abs iri => String.ofList iri
  | .pname pre loc => String.ofList (((lookup ctx.prefixes pre).getD []) ++ loc)

/-- the term a standard Turtle parser assigns -/
def Elem.term (resolve : List Char → List Char → List Char) (ctx : Ctx) : Elem → Term
  | .bnode l => .bnode (String.ofList ('_' :: ':' :: l))
  | .lit _ .none => .lit Gen.STRING_TYPE
  | .lit _ (.lang _) => .lit Gen.LANG_STRING_TYPE
  | .lit _ (.dt d) => .lit (d.iri ctx)
  | .int _ => .lit Ttl.INTEGER_TYPE
  | e => .iri ((e.iri? resolve ctx).getD "")

/-- subject: IRI or blank node -/
def subjOk : Elem → Prop
  | .abs _ | .rel _ | .pname _ _ | .bnode _ => True
  | _ => False

/-- predicate: IRI or `a` -/
def predOk : Elem → Prop
  | .abs _ | .rel _ | .pname _ _ | .kwA => True
  | _ => False

/-- object: anything but the keyword -/
def objOk : Elem → Prop
  | .kwA => False
  | _ => True

/-- `subject (predicate objects)+` with non-empty lists -/
structure Group where
  s : Elem
  po : List (Elem × List Elem)

def Group.Valid (resolve : List Char → List Char → List Char) (ctx : Ctx) (g : Group) : Prop :=
  g.s.Valid resolve ctx ∧ subjOk g.s ∧ g.po ≠ [] ∧
  ∀ x ∈ g.po, x.1.Valid resolve ctx ∧ predOk x.1 ∧ x.2 ≠ [] ∧ ∀ o ∈ x.2, o.Valid resolve ctx ∧ objOk o

inductive Tok
  | elem (e : Elem)
  | comma | semi | dot
deriving DecidableEq, Repr

def Tok.chars : Tok → List Char
  | .elem e => e.chars
  | .comma => [','] | .semi => [';'] | .dot => ['.']

/-- `o1 , o2 , … , on` followed by `last` -/
def objToks (last : Tok) : List Elem → List Tok
  | [] => [last]
  | [o] => [.elem o, last]
  | o :: os => .elem o :: .comma :: objToks last os

def poToks : List (Elem × List Elem) → List Tok
  | [] => [.dot]
  | [(p, os)] => .elem p :: objToks .dot os
  | (p, os) :: rest => .elem p :: objToks .semi os ++ poToks rest

def Group.toks (g : Group) : List Tok := .elem g.s :: poToks g.po

def Group.triples (resolve : List Char → List Char → List Char) (ctx : Ctx) (g : Group) : List Triple :=
  g.po.flatMap fun x => x.2.map fun o =>
    { s := g.s.term resolve ctx, p := (x.1.iri? resolve ctx).getD "", o := o.term resolve ctx }

/-- one physical line of the body: tokens, each after a run of blanks; trailing blanks; an optional comment
(`#` and its text; when tokens precede it on the line at least one blank separates them) -/
structure Line where
  toks : List (List Char × Tok)
  trail : List Char
  comment : Option (List Char)

def blanksOnly (l : List Char) : Prop := ∀ c ∈ l, isBlank c = true

def Line.Valid (ln : Line) : Prop :=
  (∀ x ∈ ln.toks, blanksOnly x.1) ∧
  -- between two tokens of a line there is at least one blank
  (∀ k, 0 < k → ∀ x, ln.toks[k]? = some x → x.1 ≠ []) ∧
  blanksOnly ln.trail ∧
  (∀ c, ln.comment = some c → (∀ ch ∈ c, ch ≠ '\n') ∧ (ln.toks ≠ [] → ln.trail ≠ []))

def Line.chars (ln : Line) : List Char :=
  ln.toks.flatMap (fun x => x.1 ++ x.2.chars) ++ ln.trail ++ (match ln.comment with | some c => '#' :: c | none => [])

/-- the prefix map as the directives build it: no `:` inside a prefix label -/
def ctxOk (ctx : Ctx) : Prop := ∀ e ∈ ctx.prefixes, ∀ c ∈ e.1, c ≠ ':'

/-- the body lines read one after the other from a given state (`yield_triples` without the final check) -/
def runBody (resolve : List Char → List Char → List Char) (st : St) (lines : List (List Char)) : M (St × List Triple) :=
  lines.foldlM (fun (acc : St × List Triple) l => do
    let (st', o) ← processLine resolve acc.1 l
    pure (st', acc.2 ++ o)) (st, [])

end TtlGrammar
end Shexer
