import ShexerModel.Spec.Counts
import ShexerModel.Model.Shexer
/-! ShEx semantics of the fragment sheXer emits (C03): a selected node conforms to its shape when
every value of a mentioned predicate matches the value expression of one of that predicate's
constraints and, for every constraint, the number of matching values lies in its cardinality
interval.  Shape references are interpreted under the typing "`v` is an instance of `S` iff `v` was
used to extract `S`" — exhibiting one consistent typing is what ShEx conformance asks for. -/
namespace Shexer
namespace Spec
open Shexer (Stmt Shape)

/-- does the value `v` match value expression `ty` of a constraint on property `p`? -/
def valueMatches (cfg : Config) (sel : Selection) (p ty : String) (v : Term) : Bool :=
  if p == cfg.instProp then v.isNode && v.key == ty                       -- value set `[c]`
  else if ty == Gen.IRI_ELEM_TYPE then v.isIri
  else if ty == Gen.BNODE_ELEM_TYPE then v.isNode && !v.isIri
  else if ty == Gen.NONLITERAL_ELEM_TYPE then v.isNode
  else if ty.startsWith Gen.STARTING_CHAR_FOR_SHAPE_NAME then v.isNode && (shapesOfValue sel v.key).contains ty
  else match v with
    | .lit dt => dt == ty
    | _ => false

def inInterval : Card → Nat → Bool
  | Card.exact k, m => m == k
  | Card.plus, m => decide (1 ≤ m)
  | Card.star, _ => true
  | Card.opt, m => decide (m ≤ 1)

/-- values of node `n` for property `p`: objects of its outgoing triples / node subjects of its incoming ones -/
def valuesOf (g : Graph) (inv : Bool) (n p : String) : List Term :=
  if inv then (g.filter fun t => t.o.isNode && t.o.key == n && t.p == p && t.s.isNode).map (·.s)
  else (g.filter fun t => t.s.isNode && t.s.key == n && t.p == p).map (·.o)

def stmtMatches (cfg : Config) (sel : Selection) (st : Stmt) (v : Term) : Bool :=
  st.types.any fun ty => valueMatches cfg sel st.prop ty v

/-- the cardinality of one constraint is respected by node `n` -/
def stmtOk (cfg : Config) (sel : Selection) (g : Graph) (n : String) (st : Stmt) : Bool :=
  inInterval st.card ((valuesOf g st.inverse n st.prop).countP (stmtMatches cfg sel st))

/-- every value of a predicate the shape mentions (in that direction) matches some constraint of it -/
def valuesCovered (cfg : Config) (sel : Selection) (g : Graph) (n : String) (sh : Shape) : Bool :=
  sh.stmts.all fun st =>
    (valuesOf g st.inverse n st.prop).all fun v =>
      sh.stmts.any fun st' => st'.inverse == st.inverse && st'.prop == st.prop && stmtMatches cfg sel st' v

def nodeConforms (cfg : Config) (sel : Selection) (g : Graph) (n : String) (sh : Shape) : Bool :=
  sh.stmts.all (stmtOk cfg sel g n) && valuesCovered cfg sel g n sh

/-- nodes of `sh`'s class that do not conform to it -/
def nonConforming (cfg : Config) (sel : Selection) (g : Graph) (sh : Shape) : List String :=
  ((Dict.keys sel).filter fun n => (classesIn sel n).contains sh.classUri).filter fun n => !nodeConforms cfg sel g n sh

/-- C03: every node used to extract a shape conforms to it -/
def allConform (cfg : Config) (sel : Selection) (g : Graph) (shapes : List Shape) : Bool :=
  shapes.all fun sh => (nonConforming cfg sel g sh).isEmpty

end Spec
end Shexer
