import ShexerModel.Base.Types
/-! Reference predicate of C20: which argument combinations are valid.  Written from the property
text, not from the code. -/
namespace Shexer.Spec

def count (bs : List Bool) : Nat := (bs.filter id).length

def inputFormats : List String := ["nt", "tsv_spo", "turtle", "turtle_iter", "xml", "n3", "json-ld"]
def compressionModes : List (Option String) := [none, some "gz", some "zip", some "xz"]
def examplesModes : List (Option String) := [none, some "shape", some "cons", some "all"]
def outputFormats : List String := ["ShEx", "Shacl"]

/-- exactly one graph source -/
def oneSource (a : InitArgs) : Bool :=
  count [a.graph_file_input, a.graph_list_of_files_input, a.raw_graph, a.url_graph_input,
         a.list_of_url_input, a.url_endpoint, a.rdflib_graph] == 1

/-- one target specification; `all_classes_mode` may only be combined with a shape map -/
def targetsOk (a : InitArgs) : Bool :=
  if a.all_classes_mode then !a.target_classes && !a.file_target_classes && !(a.shape_map_file && a.shape_map_raw)
  else count [a.target_classes, a.file_target_classes, a.shape_map_file, a.shape_map_raw] == 1

def remoteSource (a : InitArgs) : Bool := a.url_endpoint || a.url_graph_input || a.list_of_url_input

/-- the enumerations and the flag combination -/
def restOk (a : InitArgs) : Bool :=
  inputFormats.contains a.input_format
  && compressionModes.contains a.compression_mode
  && !(a.compression_mode.isSome && remoteSource a)
  && examplesModes.contains a.examples_mode
  && !(a.allow_redundant_or && a.disable_or_statements)

def validInit (a : InitArgs) : Bool := oneSource a && targetsOk a && restOk a

/-- a shape map is given together with a source that the selector engine (rdflib) is never handed
or cannot read: several files, URL inputs, a compressed file, or one of sheXer's own formats.
These combinations are valid by the property text and are *not* handled up front today (finding F-C20-2). -/
def smUnsupported (a : InitArgs) : Bool :=
  (a.shape_map_file || a.shape_map_raw) && !a.url_endpoint && !a.rdflib_graph &&
  (a.graph_list_of_files_input || a.url_graph_input || a.list_of_url_input
   || ((a.graph_file_input || a.raw_graph) && (a.input_format == "tsv_spo" || a.input_format == "turtle_iter"))
   || (a.graph_file_input && a.compression_mode.isSome))

/-- accepted by the constructor but bound to fail later on the configuration alone: a compression
mode together with a source that is not a file (finding F-C20-1) -/
def compressionWithoutFile (a : InitArgs) : Bool :=
  a.compression_mode.isSome && (a.raw_graph || a.rdflib_graph)

/-- `shex_graph`: threshold in [0,1], known output format, at least one sink -/
def validCall (c : CallArgs) : Bool :=
  (c.string_output || c.output_file || c.to_uml_path)
  && outputFormats.contains c.output_format
  && decide (0 ≤ c.thNum) && decide (c.thNum ≤ (c.thDen : Int))

/-- `profile_graph`: at least one sink -/
def validProfileCall (c : CallArgs) : Bool := c.string_output || c.output_file

end Shexer.Spec
