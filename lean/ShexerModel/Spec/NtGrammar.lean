import ShexerModel.Model.Nt
/-! The documents C06 quantifies over, as data: an abstract statement, the choices of layout, the line they render to,
and the triple the RDF semantics assigns to the statement.  The validity predicates are the side conditions of the
N-Triples grammar that matter to a reader (what an IRI, a label, a language tag cannot contain); they are stated
semantically, so every string the grammar allows satisfies them. -/
namespace Shexer
namespace NtGrammar
open Nt

/-- one unit of a literal's lexical form as written: a plain character or an escape pair `\c`
(`\"`, `\\`, `\n`, the head of `\uXXXX` …) -/
inductive Item
  | plain (c : Char)
  | esc (c : Char)
deriving DecidableEq, Repr

def Item.chars : Item → List Char
  | .plain c => [c]
  | .esc c => ['\\', c]

/-- a plain character is anything but the two characters that must be escaped -/
def Item.Valid : Item → Prop
  | .plain c => c ≠ '"' ∧ c ≠ '\\'
  | .esc _ => True

inductive Suffix
  | none
  | lang (tag : List Char)
  | dt (iri : List Char)
deriving DecidableEq, Repr

inductive Node
  | iri (v : List Char)
  | bnode (label : List Char)
  | lit (content : List Item) (suffix : Suffix)
deriving DecidableEq, Repr

/-- no `>` inside an IRI (and no `"` inside a datatype IRI, see `Suffix.Valid`) -/
def iriOk (v : List Char) : Prop := ∀ c ∈ v, c ≠ '>'

/-- a blank-node label is non-empty, has no blank, no `#`, and does not end in a dot -/
def labelOk (l : List Char) : Prop := l ≠ [] ∧ (∀ c ∈ l, isSpace c = false ∧ c ≠ '#') ∧ l.getLast? ≠ some '.'

def Suffix.Valid : Suffix → Prop
  | .none => True
  | .lang tag => tag ≠ [] ∧ (∀ c ∈ tag, isSpace c = false ∧ c ≠ '"' ∧ c ≠ '#') ∧ tag.getLast? ≠ some '.'
  | .dt d => ∀ c ∈ d, c ≠ '>' ∧ c ≠ '"'

def Node.Valid : Node → Prop
  | .iri v => iriOk v
  | .bnode l => labelOk l
  | .lit content sf => (∀ i ∈ content, i.Valid) ∧ sf.Valid

def Suffix.chars : Suffix → List Char
  | .none => []
  | .lang tag => '@' :: tag
  | .dt d => "^^<".toList ++ d ++ ['>']

def Node.chars : Node → List Char
  | .iri v => '<' :: v ++ ['>']
  | .bnode l => '_' :: ':' :: l
  | .lit content sf => '"' :: content.flatMap Item.chars ++ ['"'] ++ sf.chars

structure Stmt where
  s : Node
  p : List Char
  o : Node

/-- subject: IRI or blank node; predicate: IRI; object: any node -/
def Stmt.Valid (st : Stmt) : Prop :=
  st.s.Valid ∧ (match st.s with | .lit _ _ => False | _ => True) ∧ iriOk st.p ∧ st.o.Valid

structure Layout where
  lead : List Char        -- blanks before the subject
  sep1 : List Char        -- blanks between subject and predicate
  sep2 : List Char        -- blanks between predicate and object
  dot : List Char         -- blanks before the final dot (possibly none)
  tail : List Char        -- after the dot: blanks, then possibly a comment (`#` and anything)

def blanks (l : List Char) : Prop := ∀ c ∈ l, isSpace c = true

/-- what may follow the final dot on its line: nothing, or something that starts with a blank or a comment -/
def tailOk (t : List Char) : Prop := ∀ c, t.head? = some c → isSpace c = true ∨ c = '#'

def Layout.Valid (lay : Layout) : Prop :=
  blanks lay.lead ∧ blanks lay.sep1 ∧ lay.sep1 ≠ [] ∧ blanks lay.sep2 ∧ lay.sep2 ≠ [] ∧ blanks lay.dot ∧ tailOk lay.tail

def render (st : Stmt) (lay : Layout) : List Char :=
  lay.lead ++ st.s.chars ++ lay.sep1 ++ ('<' :: st.p ++ ['>']) ++ lay.sep2 ++ st.o.chars ++ lay.dot ++ ['.'] ++ lay.tail

/-- the term the RDF semantics gives to a node, in sheXer's model: node kind, IRI / label, datatype -/
def Node.term : Node → Term
  | .iri v => .iri (String.ofList v)
  | .bnode l => .bnode (String.ofList ('_' :: ':' :: l))
  | .lit _ .none => .lit Gen.STRING_TYPE
  | .lit _ (.lang _) => .lit Gen.LANG_STRING_TYPE
  | .lit _ (.dt d) => .lit (String.ofList d)

def Stmt.triple (st : Stmt) : Triple := { s := st.s.term, p := String.ofList st.p, o := st.o.term }

end NtGrammar
end Shexer
