import ShexerModel.Model.Profiler
/-! Declarative meaning of the figures (C01, C02, C10, C12, C14, C16): which nodes a class
selects, how many values of a kind a node has, how many instances have a given number of them.
Everything is a `filter` / `count` over the triple list — no dictionaries, no passes. -/
namespace Shexer
namespace Spec

/-- an instantiation triple that selects its subject (class targets / all-classes mode) -/
def selects (cfg : Config) (t : Triple) : Bool := Tracker.innerRelevant cfg t

/-- the classes a node key is selected for: objects of its selecting triples, in document order -/
def classesOf (cfg : Config) (g : Graph) (n : String) : List String :=
  (g.filter fun t => selects cfg t && t.s.key == n).map (·.o.key)

/-- `n` is selected for at least one class -/
def isSelected (cfg : Config) (g : Graph) (n : String) : Bool := g.any fun t => selects cfg t && t.s.key == n

/-- the shapes a node value is an instance of (profiler's default shapes namespace) -/
def shapesOfValue (cfg : Config) (g : Graph) (k : String) : List String :=
  (classesOf cfg g k).map fun c => Profiler.shapeName c "http://weso.es/shapes/"

/-- types an object contributes to for property `p`: its datatype / node kind (the class IRI itself
for the instantiation property) and, for node values, the shape of every class it is selected for -/
def objTypes (cfg : Config) (g : Graph) (p : String) (o : Term) : List String :=
  let ty := Profiler.typeOf cfg p o
  ty :: (if ty == Gen.IRI_ELEM_TYPE || ty == Gen.BNODE_ELEM_TYPE then shapesOfValue cfg g o.key else [])

/-- same for the subject of an incoming link (blank-node subjects get no shape reference, by design) -/
def subjTypes (cfg : Config) (g : Graph) (p : String) (s : Term) : List String :=
  let ty := Profiler.typeOf cfg p s
  ty :: (if ty == Gen.IRI_ELEM_TYPE then shapesOfValue cfg g s.key else [])

/-- the triples the feature pass sees -/
def visible (cfg : Config) (g : Graph) : Graph := g.filter (Profiler.passesFilter cfg)

/-- number of values of type `ty` that node `n` has for property `p` (outgoing) -/
def outCount (cfg : Config) (g : Graph) (n p ty : String) : Nat :=
  (((visible cfg g).filter fun t => t.s.isNode && t.s.key == n && t.p == p).map
    fun t => (objTypes cfg g p t.o).count ty).sum

/-- number of incoming links of type `ty` that node `n` has for property `p` -/
def inCount (cfg : Config) (g : Graph) (n p ty : String) : Nat :=
  (((visible cfg g).filter fun t => t.o.isNode && t.o.key == n && t.p == p).map
    fun t => (subjTypes cfg g p t.s).count ty).sum

/-- does a node with `k` values fall under cardinality `card`?  `{j}`: exactly `j` (`j ≥ 1`);
`+`: at least one; for the instantiation property the profile only ever records `{1}`, meaning
"has this class value" -/
def cardMatches (cfg : Config) (p : String) (card : Card) (k : Nat) : Bool :=
  if p == cfg.instProp then card == Card.exact 1 && decide (1 ≤ k)
  else match card with
    | Card.exact j => j == k && decide (1 ≤ k)
    | Card.plus => decide (1 ≤ k)
    | _ => false

/-- number of instances of class `c` that have, for (direction, property, type), a number of values
matching `card` — counted over any duplicate-free enumeration `nodes` of the selected nodes -/
def countOver (cfg : Config) (g : Graph) (nodes : List String) (c : String) (inv : Bool) (p ty : String) (card : Card) : Nat :=
  (nodes.filter fun n => (classesOf cfg g n).contains c).countP fun n =>
    cardMatches cfg p card (if inv then inCount cfg g n p ty else outCount cfg g n p ty)

/-- number of selected nodes of class `c` -/
def classSizeOver (cfg : Config) (g : Graph) (nodes : List String) (c : String) : Nat :=
  (nodes.filter fun n => (classesOf cfg g n).contains c).length

end Spec
end Shexer
