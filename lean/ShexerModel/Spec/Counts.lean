import ShexerModel.Model.Profiler
/-! Declarative meaning of the figures (C01, C02, C10, C12, C14, C16): which nodes a class
selects, how many values of a kind a node has, how many instances have a given number of them.
Everything is a `filter` / `count` over the triple list — no dictionaries, no passes. -/
namespace Shexer
namespace Spec

/-- an instantiation triple that selects its subject (class targets / all-classes mode) -/
def selects (cfg : Config) (t : Triple) : Bool := Tracker.innerRelevant cfg t

/-- the classes a node key is selected for: objects of its selecting triples, in document order -/
def classesOf (cfg : Config) (g : Graph) (n : String) : List String :=
  (g.filter fun t => selects cfg t && t.s.key == n).map (·.o.key)

/-- `n` is selected for at least one class -/
def isSelected (cfg : Config) (g : Graph) (n : String) : Bool := g.any fun t => selects cfg t && t.s.key == n

/-- the selection as a function: which classes (labels) a node key is selected for.  For class
targets it is `classesOf` (theorem `Tracker.get?_track`), with an instance cap the selection of the
restricted document (C16), for shape maps the denotation of the selectors (C10). -/
abbrev Selection := Tracker.InstDict

def classesIn (sel : Selection) (n : String) : List String := (Dict.get? sel n).getD []

/-- the shapes a node value is an instance of (profiler's default shapes namespace) -/
def shapesOfValue (sel : Selection) (k : String) : List String :=
  (classesIn sel k).map fun c => Profiler.shapeName c "http://weso.es/shapes/"

/-- types an object contributes to for property `p`: its datatype / node kind (the class IRI itself
for the instantiation property) and, for node values, the shape of every class it is selected for -/
def objTypes (cfg : Config) (sel : Selection) (p : String) (o : Term) : List String :=
  let ty := Profiler.typeOf cfg p o
  ty :: (if ty == Gen.IRI_ELEM_TYPE || ty == Gen.BNODE_ELEM_TYPE then shapesOfValue sel o.key else [])

/-- same for the subject of an incoming link (blank-node subjects get no shape reference, by design) -/
def subjTypes (cfg : Config) (sel : Selection) (p : String) (s : Term) : List String :=
  let ty := Profiler.typeOf cfg p s
  ty :: (if ty == Gen.IRI_ELEM_TYPE then shapesOfValue sel s.key else [])

/-- the triples the feature pass sees -/
def visible (cfg : Config) (g : Graph) : Graph := g.filter (Profiler.passesFilter cfg)

/-- number of values of type `ty` that node `n` has for property `p` (outgoing) -/
def outCount (cfg : Config) (sel : Selection) (g : Graph) (n p ty : String) : Nat :=
  (((visible cfg g).filter fun t => t.s.isNode && t.s.key == n && t.p == p).map
    fun t => (objTypes cfg sel p t.o).count ty).sum

/-- number of incoming links of type `ty` that node `n` has for property `p` -/
def inCount (cfg : Config) (sel : Selection) (g : Graph) (n p ty : String) : Nat :=
  (((visible cfg g).filter fun t => t.o.isNode && t.o.key == n && t.p == p).map
    fun t => (subjTypes cfg sel p t.s).count ty).sum

/-- does a node with `k` values fall under cardinality `card`?  `{j}`: exactly `j` (`j ≥ 1`);
`+`: at least one; for the instantiation property the profile only ever records `{1}`, meaning
"has this class value" -/
def cardMatches (cfg : Config) (p : String) (card : Card) (k : Nat) : Bool :=
  if p == cfg.instProp then card == Card.exact 1 && decide (1 ≤ k)
  else match card with
    | Card.exact j => j == k && decide (1 ≤ k)
    | Card.plus => decide (1 ≤ k)
    | _ => false

/-- number of selected nodes of class `c` that have, for (direction, property, type), a number of
values matching `card` -/
def countOver (cfg : Config) (sel : Selection) (g : Graph) (c : String) (inv : Bool) (p ty : String) (card : Card) : Nat :=
  ((Dict.keys sel).filter fun n => (classesIn sel n).contains c).countP fun n =>
    cardMatches cfg p card (if inv then inCount cfg sel g n p ty else outCount cfg sel g n p ty)

/-- number of non-literal values (IRIs and blank nodes together) -/
def nonlitCount (cfg : Config) (sel : Selection) (g : Graph) (inv : Bool) (n p : String) : Nat :=
  if inv then inCount cfg sel g n p Gen.IRI_ELEM_TYPE + inCount cfg sel g n p Gen.BNODE_ELEM_TYPE
  else outCount cfg sel g n p Gen.IRI_ELEM_TYPE + outCount cfg sel g n p Gen.BNODE_ELEM_TYPE

/-- what a `NONLITERAL` figure ought to mean: instances whose number of non-literal values matches -/
def countOverNonlit (cfg : Config) (sel : Selection) (g : Graph) (c : String) (inv : Bool) (p : String) (card : Card) : Nat :=
  ((Dict.keys sel).filter fun n => (classesIn sel n).contains c).countP fun n =>
    cardMatches cfg p card (nonlitCount cfg sel g inv n p)

/-- number of selected nodes of class `c` -/
def classSize (sel : Selection) (c : String) : Nat :=
  ((Dict.keys sel).filter fun n => (classesIn sel n).contains c).length

/-- first occurrences, in order -/
def dedup : List String → List String
  | [] => []
  | x :: xs => x :: (dedup xs).filter (· != x)

/-- the selected nodes in first-occurrence order -/
def selectedNodes (cfg : Config) (g : Graph) : List String := dedup ((g.filter (selects cfg)).map (·.s.key))

/-- the declarative selection for class targets / all-classes mode (no cap): selected nodes in
first-occurrence order, each with its classes in document order -/
def selectionOf (cfg : Config) (g : Graph) : Selection :=
  (selectedNodes cfg g).map fun n => (n, classesOf cfg g n)

end Spec
end Shexer

namespace Shexer
namespace Spec

/-- value class of a constraint key (C02): a literal datatype, "non-literal node", or - for the
instantiation property - a specific class value -/
inductive VClass
  | datatype (dt : String)
  | nonliteral
  | classValue (c : String)
deriving DecidableEq, Repr

def vclassOfTerm (cfg : Config) (p : String) (t : Term) : VClass :=
  if p == cfg.instProp then VClass.classValue t.key
  else match t with
    | .lit dt => VClass.datatype dt
    | _ => VClass.nonliteral

/-- number of values of node `n` in value class `vc` -/
def vcCount (cfg : Config) (sel : Selection) (g : Graph) (inv : Bool) (n p : String) (vc : VClass) : Nat :=
  match vc with
  | .datatype dt => if inv then inCount cfg sel g n p dt else outCount cfg sel g n p dt
  | .nonliteral => nonlitCount cfg sel g inv n p
  | .classValue c => if inv then inCount cfg sel g n p c else outCount cfg sel g n p c

/-- instances of class `c` having at least one value in the value class -/
def keyCount (cfg : Config) (sel : Selection) (g : Graph) (c : String) (inv : Bool) (p : String) (vc : VClass) : Nat :=
  ((Dict.keys sel).filter fun n => (classesIn sel n).contains c).countP fun n => decide (1 ≤ vcCount cfg sel g inv n p vc)

def dedupKeys : List (Bool × String × VClass) → List (Bool × String × VClass)
  | [] => []
  | x :: xs => x :: (dedupKeys xs).filter (· != x)

/-- every (direction, property, value class) some instance of `c` has a value for -/
def observedKeys (cfg : Config) (sel : Selection) (g : Graph) (c : String) : List (Bool × String × VClass) :=
  let isInst (t : Term) : Bool := t.isNode && (classesIn sel t.key).contains c
  dedupKeys ((visible cfg g).flatMap fun t =>
    (if isInst t.s then [(false, t.p, vclassOfTerm cfg t.p t.o)] else []) ++
    (if cfg.inverse && isInst t.o && t.s.isNode then [(true, t.p, vclassOfTerm cfg t.p t.s)] else []))

/-- C02: the keys a shape for `c` must contain at threshold `a / b` -/
def expectedKeys (cfg : Config) (sel : Selection) (g : Graph) (c : String) : List (Bool × String × VClass) :=
  (observedKeys cfg sel g c).filter fun k =>
    decide (keyCount cfg sel g c k.1 k.2.1 k.2.2 * cfg.thDen ≥ cfg.thNum * classSize sel c)

end Spec
end Shexer
