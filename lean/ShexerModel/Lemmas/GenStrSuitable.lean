import ShexerModel.GeneratedStr
import ShexerModel.Lemmas.PyOpsLemmas
import ShexerModel.Model.MinIri
/-! `GenS.determine_suitable_iri_pattern` (regenerated from /repo's `AnnotateMinIriStrategy._determine_suitable_iri_pattern`
by fragment S of the extractor: reversal, search of the separator class `[:/#]`, the length rules) = `MinIri.suitable`. -/
namespace Shexer
namespace GenStr
open PyOps

theorem drop_findIdx?_some {p : Char → Bool} : ∀ (l : List Char) (i : Nat), l.findIdx? p = some i →
    l.drop i = l.dropWhile (fun c => !p c) := by
  intro l
  induction l with
  | nil => intro i h; simp at h
  | cons x xs ih =>
    intro i h
    rw [List.findIdx?_cons] at h
    by_cases hx : p x = true
    · simp [hx] at h
      subst h
      simp [hx]
    · have hx' : p x = false := by simpa using hx
      simp [hx'] at h
      obtain ⟨j, hj, rfl⟩ := h
      simp [hx', ih j hj]

theorem dropWhile_findIdx?_none {p : Char → Bool} (l : List Char) (h : l.findIdx? p = none) :
    l.dropWhile (fun c => !p c) = [] := by
  rw [List.findIdx?_eq_none_iff] at h
  induction l with
  | nil => rfl
  | cons x xs ih =>
    have hx : p x = false := h x (by simp)
    simp only [List.dropWhile_cons, hx, Bool.not_false, if_true]
    exact ih (fun y hy => h y (by simp [hy]))

theorem sepClass_contains : (fun c => (":/#".toList).contains c) = MinIri.isSep := by
  funext c
  have : ":/#".toList = [':', '/', '#'] := by decide
  rw [this]
  simp only [MinIri.isSep, List.contains, List.elem]
  cases (c == ':') <;> cases (c == '/') <;> cases (c == '#') <;> rfl

/-- no prefix (the pattern was already decided in an earlier call): no pattern -/
theorem determine_suitable_none : GenS.determine_suitable_iri_pattern none = .ok none := by
  rfl

/-- `_determine_suitable_iri_pattern(prefix)` never raises and is `MinIri.suitable` -/
theorem determine_suitable_eq (l : List Char) : GenS.determine_suitable_iri_pattern (some l) = .ok (MinIri.suitable l) := by
  unfold GenS.determine_suitable_iri_pattern MinIri.suitable MinIri.uptoLastSep
  simp only [searchClass, sepClass_contains]
  cases h : l.reverse.findIdx? MinIri.isSep with
  | none =>
    rw [dropWhile_findIdx?_none _ h]
    rfl
  | some i =>
    simp only [Option.bind_eq_bind, Option.bind_some, Option.pure_def, Option.map_some, slice_from, drop_findIdx?_some _ _ h]
    generalize List.dropWhile (fun c => !MinIri.isSep c) l.reverse = r
    cases r with
    | nil => rfl
    | cons x xs =>
      simp only [startsWith]
      generalize (x :: xs).reverse = cand
      have h3 : decide (((cand.length : Nat) : Int) < 3) = decide (cand.length < 3) := by
        apply decide_eq_decide.mpr; omega
      have h9 : decide (((cand.length : Nat) : Int) < 9) = decide (cand.length < 9) := by
        apply decide_eq_decide.mpr; omega
      rw [h3, h9]
      by_cases c3 : cand.length < 3
      · simp only [c3, decide_true, if_true]; rfl
      · simp only [c3, decide_false, if_false, Bool.false_eq_true]
        by_cases c9 : ("http".toList.isPrefixOf cand && decide (cand.length < 9)) = true
        · simp only [c9, if_true]; rfl
        · simp only [c9, if_false, Bool.false_eq_true]; rfl

end GenStr
end Shexer
