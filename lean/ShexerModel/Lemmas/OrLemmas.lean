import ShexerModel.Props.C13
/-! `disable_or_statements = False` only turns a single non-literal constraint into a disjunction over the same alternatives
(C13), run level, with empty shapes kept (with `remove_empty_shapes` a disjunction that names a removed shape is dropped as
a whole while a single reference is dropped alone, so the two runs can lose different constraints: finding F-C02-2). -/
namespace Shexer
namespace C13
open Shexer

/-- element-wise relation between two lists of the same length -/
inductive All2 {α β : Type} (R : α → β → Prop) : List α → List β → Prop
  | nil : All2 R [] []
  | cons {a : α} {b : β} {as : List α} {bs : List β} : R a b → All2 R as bs → All2 R (a :: as) (b :: bs)

/-- what a disjunction must leave alone: predicate, direction, cardinality, count -/
def orSkeleton (s : Stmt) : String × Bool × Card × Nat := (s.prop, s.inverse, s.card, s.n)

/-- the statement `on` (disjunctions enabled) stands where `off` (disabled) stands: identical apart from comments, or a disjunction
whose alternatives include the single type of `off` -/
def orRefines (off on : Stmt) : Prop :=
  orSkeleton on = orSkeleton off ∧ (on.types = off.types ∧ on.choice = off.choice ∨ on.choice = true ∧ off.choice = false ∧ off.ty ∈ on.types)

/-! ### `All2` -/

theorem All2.refl' {α : Type} {R : α → α → Prop} (h : ∀ a, R a a) : ∀ l : List α, All2 R l l
  | [] => .nil
  | a :: as => .cons (h a) (All2.refl' h as)

theorem All2.append {α β : Type} {R : α → β → Prop} {l1 : List α} {l2 : List β} {m1 : List α} {m2 : List β}
    (h : All2 R l1 l2) (hm : All2 R m1 m2) : All2 R (l1 ++ m1) (l2 ++ m2) := by
  induction h with
  | nil => exact hm
  | cons hab _ ih => exact .cons hab ih

theorem All2.map2 {α β γ δ : Type} {R : α → β → Prop} {S : γ → δ → Prop} (f : α → γ) (g : β → δ)
    (hfg : ∀ a b, R a b → S (f a) (g b)) {l : List α} {l' : List β} (h : All2 R l l') : All2 S (l.map f) (l'.map g) := by
  induction h with
  | nil => exact .nil
  | cons hab _ ih => exact .cons (hfg _ _ hab) ih

theorem All2.map_same {α γ δ : Type} {S : γ → δ → Prop} (f : α → γ) (g : α → δ) :
    ∀ l : List α, (∀ a ∈ l, S (f a) (g a)) → All2 S (l.map f) (l.map g)
  | [], _ => .nil
  | a :: as, h => .cons (h a List.mem_cons_self) (All2.map_same f g as fun x hx => h x (List.mem_cons_of_mem _ hx))

/-! ### `orRefines` -/

theorem orRefines_refl (s : Stmt) : orRefines s s := ⟨rfl, Or.inl ⟨rfl, rfl⟩⟩

theorem orRefines_n {s t : Stmt} (h : orRefines s t) : t.n = s.n := congrArg (fun x => x.2.2.2) h.1
theorem orRefines_card {s t : Stmt} (h : orRefines s t) : t.card = s.card := congrArg (fun x => x.2.2.1) h.1
theorem orRefines_prop {s t : Stmt} (h : orRefines s t) : t.prop = s.prop := congrArg (fun x => x.1) h.1
theorem orRefines_inverse {s t : Stmt} (h : orRefines s t) : t.inverse = s.inverse := congrArg (fun x => x.2.1) h.1

/-- comments play no part in `orRefines` -/
theorem orRefines_comments {s t : Stmt} (h : orRefines s t) (c c' : List Comment) :
    orRefines { s with comments := c } { t with comments := c' } := h

/-! ### sorting runs in lock-step -/

theorem insertDesc_all2 {x y : Stmt} (hxy : orRefines x y) {l l' : List Stmt} (h : All2 orRefines l l') :
    All2 orRefines (insertDesc x l) (insertDesc y l') := by
  induction h with
  | nil => exact .cons hxy .nil
  | cons hab ht ih =>
    unfold insertDesc
    rw [orRefines_n hxy, orRefines_n hab]
    split
    · exact .cons hxy (.cons hab ht)
    · exact .cons hab ih

theorem sortDesc_all2 {l l' : List Stmt} (h : All2 orRefines l l') : All2 orRefines (sortDesc l) (sortDesc l') := by
  induction h with
  | nil => exact .nil
  | cons hab _ ih => exact insertDesc_all2 hab ih

/-! ### the two configurations -/

/-- `a` (disjunctions disabled) and `b` (enabled) agree on every other option the shexing stage reads -/
structure OrPair (a b : Config) : Prop where
  instProp : a.instProp = b.instProp
  du : a.discardUseless = b.discardUseless
  kl : a.keepLessSpecific = b.keepLessSpecific
  inv : a.inverse = b.inverse
  ac : a.allCompliant = b.allCompliant
  de : a.disableExact = b.disableExact
  dc : a.disableComments = b.disableComments
  ao : a.allowOpt = b.allowOpt
  off : a.disableOr = true
  on : b.disableOr = false

/-! ### relaxation pass -/

/-- the cardinality after the relaxation pass, as a function of cardinality and count -/
def tuneCard (cfg : Config) (N : Nat) (c : Card) (n : Nat) : Card :=
  let c1 := if cfg.allCompliant then (if Gen.relax_trigger n N then Gen.relax_cardinality cfg.allowOpt c else c) else c
  if cfg.disableExact then Gen.generalize_cardinality c1 else c1

theorem tuneOne_card (cfg : Config) (N : Nat) (s : Stmt) : (tuneOne cfg N s).card = tuneCard cfg N s.card s.n := by
  unfold tuneOne tuneCard generalize relax
  cases cfg.allCompliant <;> cases cfg.disableExact <;> cases cfg.disableComments <;> simp <;> (repeat' split) <;> simp

theorem tuneCard_congr {a b : Config} (h : OrPair a b) (N : Nat) (c : Card) (n : Nat) : tuneCard a N c n = tuneCard b N c n := by
  unfold tuneCard
  rw [h.ac, h.de, h.ao]

theorem tuneOne_orRefines {a b : Config} (h : OrPair a b) (N : Nat) (s t : Stmt) (hst : orRefines s t) :
    orRefines (tuneOne a N s) (tuneOne b N t) := by
  obtain ⟨ap, at', ai, an, ach⟩ := tuneOne_skeleton a N s
  obtain ⟨bp, bt, bi, bn, bch⟩ := tuneOne_skeleton b N t
  refine ⟨?_, ?_⟩
  · unfold orSkeleton
    rw [ap, ai, an, bp, bi, bn, tuneOne_card, tuneOne_card, tuneCard_congr h, orRefines_prop hst, orRefines_inverse hst,
      orRefines_n hst, orRefines_card hst]
  · unfold Stmt.ty
    rw [at', bt, ach, bch]
    exact hst.2

/-! ### stage 1 does not read the flags and yields plain statements -/

theorem decideBest_or_congr {a b : Config} (h : OrPair a b) (g : List Stmt) : decideBest a g = decideBest b g := by
  unfold decideBest
  rw [h.du, h.kl]

theorem groupSameAux_or_congr {a b : Config} (h : OrPair a b) (fuel : Nat) (l : List Stmt) :
    groupSameAux a fuel l = groupSameAux b fuel l := by
  induction fuel generalizing l with
  | zero => rfl
  | succ fuel ih =>
    cases l with
    | nil => rfl
    | cons c cs =>
      unfold groupSameAux
      simp only [decideBest_or_congr h, ih]

theorem default_choice : (default : Stmt).choice = false := rfl

theorem find?_getD_choice (g : List Stmt) (p : Stmt → Bool) (hg : ∀ s ∈ g, s.choice = false) :
    ((g.find? p).getD default).choice = false := by
  cases hf : g.find? p with
  | none => exact default_choice
  | some x => exact hg x (List.mem_of_find?_eq_some hf)

theorem decideBest_choice (cfg : Config) (g : List Stmt) (hg : ∀ s ∈ g, s.choice = false) :
    (decideBest cfg g).choice = false := by
  have hgs : ∀ s ∈ sortDesc g, s.choice = false := fun s hs => hg s ((mem_sortDesc g s).mp hs)
  unfold decideBest
  split
  · exact find?_getD_choice g _ hg
  · show (((if cfg.keepLessSpecific then (sortDesc g).find? fun s => s.card == Card.plus
        else (sortDesc g).find? fun s => s.card != Card.plus).orElse fun _ => (sortDesc g).head?).getD default).choice = false
    generalize hp : (if cfg.keepLessSpecific then (sortDesc g).find? fun s => s.card == Card.plus
        else (sortDesc g).find? fun s => s.card != Card.plus) = pick
    cases pick with
    | some x =>
      have hx : x ∈ sortDesc g := by
        split at hp
        · exact List.mem_of_find?_eq_some hp
        · exact List.mem_of_find?_eq_some hp
      exact hgs x hx
    | none =>
      cases hh : (sortDesc g).head? with
      | none => simp [Option.orElse, default_choice]
      | some x => simp only [Option.orElse, Option.getD]; exact hgs x (List.mem_of_head? hh)

theorem groupSameAux_choice (cfg : Config) (fuel : Nat) (l : List Stmt) (hl : ∀ s ∈ l, s.choice = false) :
    ∀ s ∈ groupSameAux cfg fuel l, s.choice = false := by
  induction fuel generalizing l with
  | zero => intro s hs; simp [groupSameAux] at hs
  | succ fuel ih =>
    cases l with
    | nil => intro s hs; simp [groupSameAux] at hs
    | cons c cs =>
      intro s hs
      unfold groupSameAux at hs
      rcases List.mem_cons.mp hs with rfl | hs
      · split
        · exact hl _ List.mem_cons_self
        · apply decideBest_choice
          intro x hx
          rcases List.mem_cons.mp hx with rfl | hx
          · exact hl _ List.mem_cons_self
          · exact hl _ (List.mem_cons_of_mem _ (List.mem_filter.mp hx).1)
      · exact ih _ (fun x hx => hl _ (List.mem_cons_of_mem _ (List.mem_filter.mp hx).1)) s hs

/-! ### the node merge -/

def orFresh (b i : Stmt) : Stmt :=
  { prop := b.prop, types := [Gen.NONLITERAL_ELEM_TYPE], card := mostGeneral b.card i.card,
    n := b.n + i.n, inverse := b.inverse, parts := some (b.n, i.n) }

/-- the dominant constraint of `mergeGroup` (copied from the model) -/
def orDom (gs : List Stmt) (bnode iri : Option Stmt) (shapes : List Stmt) : Stmt × Bool :=
  match bnode with
  | some b =>
    match iri with
    | some i =>
      match shapes with
      | [s] => if i.n + b.n == s.n then (s, true) else (orFresh b i, false)
      | _ => (orFresh b i, false)
    | none =>
      match shapes with
      | s :: _ => if s.n == b.n then (s, true) else (b, false)
      | [] => (b, false)
  | none =>
    match iri, shapes with
    | some i, [] => (i, false)
    | some i, s :: _ => if s.n < i.n then (i, false) else (s, true)
    | none, s :: _ => (s, true)
    | none, [] => (gs.headD default, false)

/-- `_tune_dominant_constraint_wrt_or_config` (copied from the model) -/
def orTune (cfg : Config) (shapes : List Stmt) (d0 : Stmt) (domIsShape : Bool) : Stmt × Bool :=
  if cfg.disableOr then (d0, false)
  else
    let stTypes :=
      if cfg.allowRedundantOr then (if domIsShape then [] else [d0.ty]) ++ shapes.map (·.ty)
      else if domIsShape then shapes.map (·.ty) else []
    if stTypes.length > 1 then
      ({ prop := d0.prop, types := stTypes, choice := true, card := d0.card, n := d0.n, inverse := d0.inverse,
         parts := d0.parts }, true)
    else (d0, false)

theorem mergeGroup_or_eq (cfg : Config) (g : List Stmt) :
    mergeGroup cfg g =
      let bnode := (g.filter fun s => s.ty == Gen.BNODE_ELEM_TYPE).getLast?
      let iri := (g.filter fun s => s.ty == Gen.IRI_ELEM_TYPE).getLast?
      let shapes := sortDesc (g.filter fun s => isShapeType s.ty)
      let dom := orDom (sortDesc g) bnode iri shapes
      let t := orTune cfg shapes dom.1 dom.2
      { t.1 with comments := t.1.comments ++
          (match bnode with
            | some b => [commentOf b] ++ (match iri with | some i => [commentOf i] | none => [])
            | none => []) ++
          (shapes.filter fun s => t.2 || !(dom.2 && s == dom.1)).map commentOf } := rfl

/-- a dominant constraint flagged as a shape constraint is one of the shape constraints -/
theorem orDom_shape (gs : List Stmt) (bnode iri : Option Stmt) (shapes : List Stmt)
    (h : (orDom gs bnode iri shapes).2 = true) : (orDom gs bnode iri shapes).1 ∈ shapes := by
  unfold orDom at h ⊢
  split at h
  · split at h
    · split at h
      · split at h
        · simp_all
        · simp at h
      · simp at h
    · split at h
      · split at h
        · simp_all
        · simp at h
      · simp at h
  · split at h
    · simp at h
    · split at h
      · simp at h
      · rename_i hlt
        rw [if_neg hlt]
        simp
    · simp_all
    · simp at h

/-- the dominant constraint is never a disjunction -/
theorem orDom_choice (gs : List Stmt) (bnode iri : Option Stmt) (shapes : List Stmt)
    (hb : ∀ b, bnode = some b → b.choice = false) (hi : ∀ i, iri = some i → i.choice = false)
    (hs : ∀ s ∈ shapes, s.choice = false) (hg : (gs.headD default).choice = false) :
    (orDom gs bnode iri shapes).1.choice = false := by
  unfold orDom
  split
  · split
    · split
      · split
        · exact hs _ (by simp)
        · rfl
      · rfl
    · split
      · split
        · exact hs _ (by simp)
        · exact hb _ rfl
      · exact hb _ rfl
  · split
    · exact hi _ rfl
    · split
      · exact hi _ rfl
      · exact hs _ (by simp)
    · exact hs _ (by simp)
    · exact hg

theorem orChoice_refines (d0 : Stmt) (ts : List String) (hc : d0.choice = false) (hmem : ts.length > 1 → d0.ty ∈ ts) :
    orRefines d0 (if ts.length > 1 then
        (({ prop := d0.prop, types := ts, choice := true, card := d0.card, n := d0.n, inverse := d0.inverse,
             parts := d0.parts } : Stmt), true)
      else (d0, false)).1 := by
  split
  · rename_i hlen
    exact ⟨rfl, Or.inr ⟨rfl, hc, hmem hlen⟩⟩
  · exact orRefines_refl _

theorem orTune_refines {a b : Config} (h : OrPair a b) (shapes : List Stmt) (d0 : Stmt) (isShape : Bool)
    (hc : d0.choice = false) (hm : isShape = true → d0 ∈ shapes) :
    orRefines (orTune a shapes d0 isShape).1 (orTune b shapes d0 isShape).1 := by
  unfold orTune
  simp only [h.off, h.on, if_true, Bool.false_eq_true, if_false]
  apply orChoice_refines _ _ hc
  have hin : isShape = true → d0.ty ∈ shapes.map (·.ty) := fun hi => List.mem_map.mpr ⟨d0, hm hi, rfl⟩
  intro hlen
  cases hr : b.allowRedundantOr <;> cases hi : isShape <;> simp only [hr, hi] at hlen ⊢
  · simp at hlen
  · exact hin hi
  · simp
  · simpa using hin hi

theorem mergeGroup_refines {a b : Config} (h : OrPair a b) (g : List Stmt) (hg : ∀ s ∈ g, s.choice = false) :
    orRefines (mergeGroup a g) (mergeGroup b g) := by
  rw [mergeGroup_or_eq, mergeGroup_or_eq]
  apply orRefines_comments
  apply orTune_refines h
  · apply orDom_choice
    · intro x hx; exact hg x (List.mem_filter.mp (List.mem_of_getLast? hx)).1
    · intro x hx; exact hg x (List.mem_filter.mp (List.mem_of_getLast? hx)).1
    · intro s hs; exact hg s (List.mem_filter.mp ((mem_sortDesc _ _).mp hs)).1
    · cases hh : sortDesc g with
      | nil => exact default_choice
      | cons x xs => exact hg x ((mem_sortDesc g x).mp (by rw [hh]; exact List.mem_cons_self))
  · exact orDom_shape _ _ _ _

theorem groupNodeAux_all2 {a b : Config} (h : OrPair a b) (fuel : Nat) (l : List Stmt) (hl : ∀ s ∈ l, s.choice = false) :
    All2 orRefines (groupNodeAux a fuel l) (groupNodeAux b fuel l) := by
  induction fuel generalizing l with
  | zero => exact .nil
  | succ fuel ih =>
    cases l with
    | nil => exact .nil
    | cons c cs =>
      unfold groupNodeAux
      rw [h.instProp]
      split
      · exact .cons (orRefines_refl c) (ih cs fun s hs => hl s (List.mem_cons_of_mem _ hs))
      · refine .cons ?_ (ih _ fun s hs => hl s (List.mem_cons_of_mem _ (List.mem_filter.mp hs).1))
        split
        · exact orRefines_refl c
        · apply mergeGroup_refines h
          intro x hx
          rcases List.mem_cons.mp hx with rfl | hx
          · exact hl _ List.mem_cons_self
          · exact hl _ (List.mem_cons_of_mem _ (List.mem_filter.mp hx).1)

theorem selectValid_all2 {a b : Config} (h : OrPair a b) (l : List Stmt) (hl : ∀ s ∈ l, s.choice = false) :
    All2 orRefines (selectValid a l) (selectValid b l) := by
  unfold selectValid groupNode groupSame
  rw [groupSameAux_or_congr h]
  exact groupNodeAux_all2 h _ _ (groupSameAux_choice b _ l hl)

theorem validOf_all2 {a b : Config} (h : OrPair a b) (sh : Shape) (hl : ∀ s ∈ sh.stmts, s.choice = false) :
    All2 orRefines (validOf a sh) (validOf b sh) := by
  unfold validOf
  rw [h.inv]
  split
  · exact (selectValid_all2 h _ fun s hs => hl s (List.mem_filter.mp hs).1).append
      (selectValid_all2 h _ fun s hs => hl s (List.mem_filter.mp hs).1)
  · exact selectValid_all2 h _ fun s hs => hl s (List.mem_filter.mp hs).1

theorem setValid_all2 {a b : Config} (h : OrPair a b) (sh : Shape) (hl : ∀ s ∈ sh.stmts, s.choice = false) :
    All2 orRefines (setValid a sh).stmts (setValid b sh).stmts := by
  rw [setValid_eq, setValid_eq, tune_eq_map, tune_eq_map]
  exact All2.map2 _ _ (tuneOne_orRefines h sh.nInstances) (sortDesc_all2 (validOf_all2 h sh hl))

/-! ### candidates are plain statements -/

theorem candidates_choice (cfg : Config) (N : Nat) (inv : Bool) (pp : Profiler.PropProfile) :
    ∀ s ∈ candidates cfg N inv pp, s.choice = false := by
  intro s hs
  unfold candidates at hs
  simp only [List.mem_flatMap, List.mem_filterMap] at hs
  obtain ⟨_, _, _, _, _, _, hx⟩ := hs
  split at hx
  · cases hx; rfl
  · cases hx

theorem baseShapes_choice (cfg : Config) (r : Profiler.Result) :
    ∀ sh ∈ baseShapes cfg r, ∀ s ∈ sh.stmts, s.choice = false := by
  intro sh hsh s hs
  unfold baseShapes at hsh
  obtain ⟨x, _, rfl⟩ := List.mem_map.mp hsh
  simp only [List.mem_append] at hs
  rcases hs with hs | hs
  · exact candidates_choice _ _ _ _ s hs
  · split at hs
    · exact candidates_choice _ _ _ _ s hs
    · cases hs

theorem pre_all2 {a b : Config} (h : OrPair a b) (g : Graph)
    (hprof : Profiler.run a g = Profiler.run b g) (hbase : ∀ r, baseShapes a r = baseShapes b r) :
    All2 (fun (off on : Shape) => on.name = off.name ∧ on.classUri = off.classUri ∧ on.nInstances = off.nInstances ∧
        All2 orRefines off.stmts on.stmts) (pre a g) (pre b g) := by
  unfold pre
  rw [hprof, hbase]
  apply All2.map_same
  intro sh hsh
  refine ⟨rfl, rfl, rfl, ?_⟩
  apply setValid_all2 h
  obtain ⟨sh0, hsh0, rfl⟩ := List.mem_map.mp hsh
  intro s hs
  exact baseShapes_choice _ _ sh0 hsh0 s ((mem_sortDesc _ _).mp hs)

/-- **`disable_or_statements`** (empty shapes kept): enabling disjunctions, redundant or not, keeps the shapes (name, class, number
of instances), the number and order of their statements, and every statement's predicate, direction, cardinality and count; a
statement either keeps its type or becomes a disjunction that contains it -/
theorem or_only_adds_alternatives (cfg : Config) (hre : cfg.removeEmpty = false) (r : Bool) (g : Graph) :
    All2 (fun (off on : Shape) => on.name = off.name ∧ on.classUri = off.classUri ∧ on.nInstances = off.nInstances ∧
        All2 orRefines off.stmts on.stmts)
      (Shexer.run { cfg with disableOr := true, allowRedundantOr := false } g)
      (Shexer.run { cfg with disableOr := false, allowRedundantOr := r } g) := by
  rw [run_eq, run_eq]
  have e1 : ∀ l, cleanEmpty { cfg with disableOr := true, allowRedundantOr := false } l = l := by
    intro l; unfold cleanEmpty; simp [hre]
  have e2 : ∀ l, cleanEmpty { cfg with disableOr := false, allowRedundantOr := r } l = l := by
    intro l; unfold cleanEmpty; simp [hre]
  rw [e1, e2]
  exact pre_all2 (a := { cfg with disableOr := true, allowRedundantOr := false })
    (b := { cfg with disableOr := false, allowRedundantOr := r }) ⟨rfl, rfl, rfl, rfl, rfl, rfl, rfl, rfl, rfl, rfl⟩ g rfl (fun _ => rfl)

end C13
end Shexer
