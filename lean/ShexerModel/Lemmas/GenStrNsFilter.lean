import ShexerModel.GeneratedStr
import ShexerModel.Lemmas.PyOpsLemmas
import ShexerModel.Base.PyStr
/-! `GenS.check_if_property_belongs_to_namespace_list` (regenerated from /repo's `utils/triple_yielders.py`, the loop over the
ignored namespaces included) = `any (PyStr.directChildOf prop ·)`, the test `Profiler.passesFilter` (C16) uses. -/
namespace Shexer
namespace GenStr
open PyOps

theorem isIn_single_eq (c : Char) (l : List Char) : PyOps.isIn [c] l = l.contains c := isIn_single l c

theorem ns_body (prop ns : List Char) :
    (PyOps.startsWith prop ns && (!(PyOps.isIn "/".toList (PyOps.slice prop (some ((ns.length : Nat) : Int)) none)) &&
      !(PyOps.isIn "#".toList (PyOps.slice prop (some ((ns.length : Nat) : Int)) none)))) = PyStr.directChildOf prop ns := by
  have e1 : "/".toList = ['/'] := by simp
  have e2 : "#".toList = ['#'] := by simp
  rw [e1, e2, slice_from, isIn_single_eq, isIn_single_eq]
  simp only [PyStr.directChildOf, PyStr.startsWith, PyOps.startsWith, Bool.and_assoc]

/-- a loop whose body answers `return True` exactly on `p` -/
theorem forEach_any {α : Type} (p : α → Bool) (f : α → Except PyExc (Option Bool))
    (hf : ∀ x, f x = .ok (if p x then some true else none)) (xs : List α) :
    PyOps.forEach xs f = .ok (if xs.any p then some true else none) := by
  induction xs with
  | nil => rfl
  | cons x rest ih =>
    unfold PyOps.forEach
    rw [hf x]
    cases hp : p x with
    | true => simp [List.any_cons, hp, bind, Except.bind, pure, Except.pure]
    | false =>
      simp only [List.any_cons, hp, Bool.false_or, Bool.false_eq_true, if_false, bind, Except.bind]
      exact ih

/-- the loop body of the generated function -/
def nsBody (prop : List Char) (a_namespace : List Char) : Except PyExc (Option Bool) := do
  if (PyOps.startsWith prop a_namespace) then (do
  if ((!(PyOps.isIn "/".toList (PyOps.slice prop (some ((a_namespace).length : Int)) none))) && (!(PyOps.isIn "#".toList (PyOps.slice prop (some ((a_namespace).length : Int)) none)))) then (do
  pure (some true))
  else (do
  pure none))
  else (do
  pure none)

theorem nsBody_eq (prop ns : List Char) : nsBody prop ns = .ok (if PyStr.directChildOf prop ns then some true else none) := by
  rw [← ns_body prop ns]
  unfold nsBody
  by_cases h1 : PyOps.startsWith prop ns = true
  · simp only [h1, if_true, Bool.true_and]
    split <;> rfl
  · simp only [h1, Bool.false_eq_true, if_false]
    have : PyOps.startsWith prop ns = false := by simpa using h1
    simp only [this, Bool.false_and, Bool.false_eq_true, if_false]
    rfl

/-- `check_if_property_belongs_to_namespace_list(prop, namespaces)` never raises and says whether `prop` is a direct child of
one of the namespaces -/
theorem ns_filter_eq (prop : List Char) (nss : List (List Char)) :
    GenS.check_if_property_belongs_to_namespace_list prop nss = .ok (nss.any fun ns => PyStr.directChildOf prop ns) := by
  unfold GenS.check_if_property_belongs_to_namespace_list
  change (do
    let r_1 ← PyOps.forEach nss (nsBody prop)
    match r_1 with
    | some v => pure v
    | none => pure false) = _
  rw [forEach_any (fun ns => PyStr.directChildOf prop ns) (nsBody prop) (nsBody_eq prop) nss]
  cases (nss.any fun ns => PyStr.directChildOf prop ns) <;> rfl

end GenStr
end Shexer
