import ShexerModel.Props.C13
import ShexerModel.Lemmas.OptLemmas
/-! `allow_opt_cardinality = False` only replaces `?` by `*` (C13): run-level statement.  The relaxation pass is the only
place a `?` can come from (`Gen.relax_cardinality`), because the statements that reach it carry the cardinalities of the
profile (`{k}` or `+`) or their merge (`Gen.most_general_cardinality`), never `?` or `*`. -/
namespace Shexer
namespace C13
open Shexer Shexer.Shexer Shexer.Profiler

/-- `?` becomes `*`, everything else is untouched -/
def optToStar : Shape → Stmt → Stmt := fun _ s => if s.card = Card.opt then { s with card := Card.star } else s

theorem optToStar_tp : TyPreserving optToStar :=
  ⟨fun _ s => by unfold optToStar; split <;> rfl, fun _ s => by unfold optToStar; split <;> rfl,
   fun _ s => by unfold optToStar; split <;> rfl, fun _ s => by unfold optToStar; split <;> rfl,
   fun _ _ _ _ _ => rfl⟩

/-! ### no `?` in the class profile -/

/-- no entry of a property profile is filed under the cardinality `?` -/
def PPCard (pp : PropProfile) : Prop :=
  ∀ p ks, (p, ks) ∈ pp → ∀ ty cs, (ty, cs) ∈ ks → ∀ c n, (c, n) ∈ cs → c ≠ Card.opt

theorem PPCard_nil : PPCard [] := by intro p ks h; cases h

theorem PPCard_bumpP (pp : PropProfile) (x : Tup) (hx : x.2.2 ≠ Card.opt) (h : PPCard pp) : PPCard (bumpP pp x) := by
  have hks : ∀ ty cs, (ty, cs) ∈ (Dict.get? pp x.1).getD [] → ∀ c n, (c, n) ∈ cs → c ≠ Card.opt := by
    intro ty cs hm
    cases hq : Dict.get? pp x.1 with
    | none => rw [hq] at hm; simp at hm
    | some ks0 => rw [hq] at hm; exact h _ _ (Dict.mem_of_get? _ _ _ hq) ty cs hm
  have hcs : ∀ c n, (c, n) ∈ (Dict.get? ((Dict.get? pp x.1).getD []) x.2.1).getD [] → c ≠ Card.opt := by
    intro c n hm
    cases hq : Dict.get? ((Dict.get? pp x.1).getD []) x.2.1 with
    | none => rw [hq] at hm; simp at hm
    | some cs0 => rw [hq] at hm; exact hks _ _ (Dict.mem_of_get? _ _ _ hq) c n hm
  unfold bumpP
  apply Dict.forall_upd pp x.1 _ (fun _ ks => ∀ ty cs, (ty, cs) ∈ ks → ∀ c n, (c, n) ∈ cs → c ≠ Card.opt) h
  apply Dict.forall_upd _ x.2.1 _ (fun _ cs => ∀ c n, (c, n) ∈ cs → c ≠ Card.opt) hks
  apply Dict.forall_upd _ x.2.2 _ (fun c _ => c ≠ Card.opt) hcs
  exact hx

theorem PPCard_foldl (ts : List Tup) (hts : ∀ x ∈ ts, x.2.2 ≠ Card.opt) (pp : PropProfile) (h : PPCard pp) :
    PPCard (ts.foldl bumpP pp) := by
  induction ts generalizing pp with
  | nil => exact h
  | cons x xs ih =>
    exact ih (fun y hy => hts y (List.mem_cons_of_mem _ hy)) _ (PPCard_bumpP pp x (hts x List.mem_cons_self) h)

/-- `_infer_valid_cardinalities` yields `{k}` and `+` only -/
theorem tuples_card (cfg : Config) (f : Feat) : ∀ x ∈ tuples cfg f, x.2.2 ≠ Card.opt := by
  intro x hx
  unfold tuples at hx
  simp only [List.mem_flatMap, List.mem_map] at hx
  obtain ⟨⟨p, ks⟩, _, ⟨ty, k⟩, _, c, hc, rfl⟩ := hx
  simp only
  unfold validCards at hc
  split at hc
  · simp only [List.mem_singleton] at hc
    rw [hc]; simp
  · simp only [List.mem_cons, List.mem_nil_iff, or_false] at hc
    rcases hc with rfl | rfl <;> simp

def ProfCard (prof : Profile) : Prop :=
  ∀ cls cp, Dict.get? prof cls = some cp → PPCard cp.direct ∧ PPCard cp.inverse

theorem ProfCard_upd (prof : Profile) (c : String) (f : Option ClassProfile → ClassProfile) (h : ProfCard prof)
    (hf : PPCard (f (Dict.get? prof c)).direct ∧ PPCard (f (Dict.get? prof c)).inverse) :
    ProfCard (Dict.upd prof c f) := by
  intro cls cp hg
  rw [Dict.get?_upd] at hg
  by_cases hc : c = cls
  · rw [if_pos hc] at hg
    simp only [Option.some.injEq] at hg
    subst hg
    exact hf
  · rw [if_neg hc] at hg
    exact h cls cp hg

theorem ProfCard_getD (prof : Profile) (c : String) (h : ProfCard prof) :
    PPCard ((Dict.get? prof c).getD {}).direct ∧ PPCard ((Dict.get? prof c).getD {}).inverse := by
  cases hq : Dict.get? prof c with
  | none => exact ⟨PPCard_nil, PPCard_nil⟩
  | some cp => exact h c cp hq

theorem ProfCard_addDirect (dts : List Tup) (hts : ∀ x ∈ dts, x.2.2 ≠ Card.opt) (prof : Profile) (c : String)
    (h : ProfCard prof) : ProfCard (addDirect dts prof c) := by
  unfold addDirect
  apply ProfCard_upd _ _ _ h
  have := ProfCard_getD prof c h
  exact ⟨PPCard_foldl _ hts _ this.1, this.2⟩

theorem ProfCard_addInverse (its : List Tup) (hts : ∀ x ∈ its, x.2.2 ≠ Card.opt) (prof : Profile) (c : String)
    (h : ProfCard prof) : ProfCard (addInverse its prof c) := by
  unfold addInverse
  apply ProfCard_upd _ _ _ h
  have := ProfCard_getD prof c h
  exact ⟨this.1, PPCard_foldl _ hts _ this.2⟩

theorem ProfCard_foldl_addDirect (dts : List Tup) (hts : ∀ x ∈ dts, x.2.2 ≠ Card.opt) (cs : List String) (prof : Profile)
    (h : ProfCard prof) : ProfCard (cs.foldl (addDirect dts) prof) := by
  induction cs generalizing prof with
  | nil => exact h
  | cons c cs ih => exact ih _ (ProfCard_addDirect dts hts prof c h)

theorem ProfCard_foldl_addInverse (its : List Tup) (hts : ∀ x ∈ its, x.2.2 ≠ Card.opt) (cs : List String) (prof : Profile)
    (h : ProfCard prof) : ProfCard (cs.foldl (addInverse its) prof) := by
  induction cs generalizing prof with
  | nil => exact h
  | cons c cs ih => exact ih _ (ProfCard_addInverse its hts prof c h)

theorem ProfCard_annotateInstance (cfg : Config) (prof : Profile) (ni : NodeInfo) (h : ProfCard prof) :
    ProfCard (annotateInstance cfg prof ni) := by
  rw [annotateInstance_eq]
  split
  · exact ProfCard_foldl_addInverse _ (tuples_card cfg _) _ _ (ProfCard_foldl_addDirect _ (tuples_card cfg _) _ _ h)
  · exact ProfCard_foldl_addDirect _ (tuples_card cfg _) _ _ h

/-- no entry of the class profile built by `Profiler.build` is filed under `?` -/
theorem ProfCard_build (cfg : Config) (inst : Tracker.InstDict) (d : IDict) : ProfCard (build cfg inst d) := by
  rw [build_eq]
  have h0 : ProfCard (initProfile cfg inst) := by
    intro cls cp hg
    rw [AllEmpty_initProfile cfg inst cls cp hg]
    exact ⟨PPCard_nil, PPCard_nil⟩
  generalize initProfile cfg inst = p0 at h0
  induction d generalizing p0 with
  | nil => exact h0
  | cons e es ih =>
    simp only [List.foldl_cons]
    exact ih _ (ProfCard_annotateInstance cfg p0 e.2 h0)

theorem candidates_card (cfg : Config) (N : Nat) (inv : Bool) (pp : PropProfile) (h : PPCard pp)
    (c : Stmt) (hc : c ∈ candidates cfg N inv pp) : c.card ≠ Card.opt := by
  obtain ⟨e, he, _, rfl⟩ := (mem_candidates cfg N inv pp c).mp hc
  unfold entries at he
  simp only [List.mem_flatMap, List.mem_map] at he
  obtain ⟨⟨p, ks⟩, hpk, ⟨ty, cs⟩, htc, ⟨cd, n⟩, hcn, heq⟩ := he
  subst heq
  exact h p ks hpk ty cs htc cd n hcn

/-- no candidate of a base shape carries `?` -/
theorem base_card (cfg : Config) (g : Graph) (b : Shape) (hb : b ∈ baseShapes cfg (Profiler.run cfg g))
    (c : Stmt) (hc : c ∈ b.stmts) : c.card ≠ Card.opt := by
  obtain ⟨cls, cp', hm, _, _, _, hst⟩ := mem_baseShapes cfg _ b hb
  obtain ⟨cp, hget, hrel⟩ := get?_build_of_mem_run cfg g cls cp' hm
  have hpc := ProfCard_build _ _ _ cls cp hget
  rw [hst] at hc
  rcases List.mem_append.mp hc with h | h
  · exact candidates_card cfg _ false _ hpc.1 c (candidates_of_cleaned cfg b.nInstances false cp cp' hrel c h)
  · split at h
    · exact candidates_card cfg _ true _ hpc.2 c (candidates_of_cleaned cfg b.nInstances true cp cp' hrel c h)
    · simp at h

/-! ### no `?` out of the merge stages -/

theorem mostGeneral_ne_opt (a b : Card) (ha : a ≠ Card.opt) : mostGeneral a b ≠ Card.opt := by
  unfold mostGeneral Gen.most_general_cardinality
  split
  · simp
  · exact ha

theorem decideBest_card (cfg : Config) (g : List Stmt) (hg : g ≠ []) (h : ∀ s ∈ g, s.card ≠ Card.opt) :
    (decideBest cfg g).card ≠ Card.opt := by
  obtain ⟨x, hx, cms, heq, _⟩ := decideBest_spec cfg g hg
  rw [heq]
  exact h x hx

theorem groupSameAux_card (cfg : Config) : ∀ (fuel : Nat) (l : List Stmt), (∀ s ∈ l, s.card ≠ Card.opt) →
    ∀ s ∈ groupSameAux cfg fuel l, s.card ≠ Card.opt := by
  intro fuel
  induction fuel with
  | zero => intro l _ s hs; simp [groupSameAux] at hs
  | succ fuel ih =>
    intro l hl s hs
    cases l with
    | nil => simp [groupSameAux] at hs
    | cons c cs =>
      simp only [groupSameAux, List.mem_cons] at hs
      rcases hs with rfl | hs
      · split
        · exact hl c (by simp)
        · apply decideBest_card cfg _ (by simp)
          intro y hy
          rcases List.mem_cons.mp hy with rfl | hy
          · exact hl _ (by simp)
          · exact hl _ (List.mem_cons_of_mem _ (List.mem_filter.mp hy).1)
      · exact ih _ (fun s hs => hl s (List.mem_cons_of_mem _ (List.mem_filter.mp hs).1)) s hs

theorem mergeGroup_card (cfg : Config) (g : List Stmt) (hg : g ≠ []) (h : ∀ s ∈ g, s.card ≠ Card.opt) :
    (mergeGroup cfg g).card ≠ Card.opt := by
  rw [mergeGroup_eq]
  have hb : ∀ b, (g.filter fun s => s.ty == Gen.BNODE_ELEM_TYPE).getLast? = some b → b ∈ g ∧ b.ty = Gen.BNODE_ELEM_TYPE := by
    intro b h
    have := List.mem_filter.mp (List.mem_of_getLast? h)
    exact ⟨this.1, by simpa using this.2⟩
  have hi : ∀ i, (g.filter fun s => s.ty == Gen.IRI_ELEM_TYPE).getLast? = some i → i ∈ g ∧ i.ty = Gen.IRI_ELEM_TYPE := by
    intro b h
    have := List.mem_filter.mp (List.mem_of_getLast? h)
    exact ⟨this.1, by simpa using this.2⟩
  have hs : ∀ s ∈ sortDesc (g.filter fun s => isShapeType s.ty), s ∈ g := by
    intro s h
    exact (List.mem_filter.mp ((mem_sortDesc _ s).mp h)).1
  have hgs : (sortDesc g).headD default ∈ g := by
    have := sortDesc_ne_nil g hg
    rw [← mem_sortDesc]
    cases h : sortDesc g with
    | nil => exact absurd h this
    | cons a t => simp
  have hd := domOf_spec g (sortDesc g) _ _ _ hb hi hs hgs
  simp only []
  generalize domOf (sortDesc g) _ _ _ = dom at hd ⊢
  obtain ⟨d0, isS⟩ := dom
  simp only [] at hd ⊢
  have hd0 : d0.card ≠ Card.opt := by
    rcases hd with h' | ⟨b, hb', i, _, _, _, rfl⟩
    · exact h d0 h'
    · exact mostGeneral_ne_opt _ _ (h b hb')
  have ht := tuneOr_spec cfg (sortDesc (g.filter fun s => isShapeType s.ty)) d0 isS
  generalize tuneOr cfg _ d0 isS = t at ht ⊢
  obtain ⟨d1, rep⟩ := t
  simp only [] at ht ⊢
  rcases ht with rfl | ⟨ts, rfl⟩
  · exact hd0
  · exact hd0

theorem groupNodeAux_card (cfg : Config) : ∀ (fuel : Nat) (l : List Stmt), (∀ s ∈ l, s.card ≠ Card.opt) →
    ∀ s ∈ groupNodeAux cfg fuel l, s.card ≠ Card.opt := by
  intro fuel
  induction fuel with
  | zero => intro l _ s hs; simp [groupNodeAux] at hs
  | succ fuel ih =>
    intro l hl s hs
    cases l with
    | nil => simp [groupNodeAux] at hs
    | cons c cs =>
      have hcs : ∀ s ∈ cs, s.card ≠ Card.opt := fun s h => hl s (List.mem_cons_of_mem _ h)
      simp only [groupNodeAux] at hs
      split at hs
      · rcases List.mem_cons.mp hs with rfl | hs
        · exact hl _ (by simp)
        · exact ih cs hcs s hs
      · rcases List.mem_cons.mp hs with rfl | hs
        · split
          · exact hl _ (by simp)
          · apply mergeGroup_card cfg _ (by simp)
            intro y hy
            rcases List.mem_cons.mp hy with rfl | hy
            · exact hl _ (by simp)
            · exact hcs y (List.mem_filter.mp hy).1
        · exact ih _ (fun s hs => hcs s (List.mem_filter.mp hs).1) s hs

theorem selectValid_card (cfg : Config) (l : List Stmt) (hl : ∀ s ∈ l, s.card ≠ Card.opt) :
    ∀ s ∈ selectValid cfg l, s.card ≠ Card.opt :=
  groupNodeAux_card cfg _ _ (groupSameAux_card cfg _ _ hl)

/-- the statements handed to the relaxation pass never carry `?` when the candidates do not -/
theorem validOf_card (cfg : Config) (sh : Shape) (hl : ∀ s ∈ sh.stmts, s.card ≠ Card.opt) :
    ∀ s ∈ validOf cfg sh, s.card ≠ Card.opt := by
  intro s hs
  unfold validOf at hs
  split at hs
  · rcases List.mem_append.mp hs with h | h
    · exact selectValid_card cfg _ (fun s hs => hl s (List.mem_filter.mp hs).1) s h
    · exact selectValid_card cfg _ (fun s hs => hl s (List.mem_filter.mp hs).1) s h
  · exact selectValid_card cfg _ (fun s hs => hl s (List.mem_filter.mp hs).1) s hs

/-! ### the run-level equation -/

/-- `pre_map` with the statement-wise equation required only for the statements that reach the relaxation pass -/
theorem pre_map_on (a b : Config) (g : Graph) (f : Shape → Stmt → Stmt) (P : Stmt → Prop)
    (hprof : Profiler.run b g = Profiler.run a g) (hbase : ∀ r, baseShapes b r = baseShapes a r)
    (hm : SameMergeCfg b a) (hi : b.inverse = a.inverse)
    (hP : ∀ sh ∈ baseShapes a (Profiler.run a g), ∀ s ∈ validOf a { sh with stmts := sortDesc sh.stmts }, P s)
    (hf : ∀ (sh : Shape) (s : Stmt), P s → tuneOne b sh.nInstances s = f sh (tuneOne a sh.nInstances s))
    (hhdr : ∀ sh sh' s, sh.name = sh'.name → sh.nInstances = sh'.nInstances → f sh s = f sh' s) :
    pre b g = (pre a g).map (mapShape f) := by
  unfold pre
  rw [hprof, hbase, List.map_map, List.map_map, List.map_map]
  apply List.map_congr_left
  intro sh hsh
  simp only [Function.comp]
  rw [setValid_eq, setValid_eq, validOf_congr b a hm hi, tune_eq_map, tune_eq_map]
  unfold mapShape
  simp only [List.map_map]
  congr 1
  apply List.map_congr_left
  intro s hs
  simp only [Function.comp]
  rw [hf _ _ (hP sh hsh s ((mem_sortDesc _ s).mp hs))]
  exact hhdr _ _ _ rfl rfl

/-- statement-wise: switching the option off turns the `?` of the relaxation into `*`, provided the statement did not
carry a `?` before the pass -/
theorem tuneOne_allowOpt (cfg : Config) (sh : Shape) (N : Nat) (s : Stmt) (hs : s.card ≠ Card.opt) :
    tuneOne { cfg with allowOpt := false } N s = optToStar sh (tuneOne { cfg with allowOpt := true } N s) := by
  obtain ⟨prop, types, choice, card, n, inverse, comments, parts⟩ := s
  simp only at hs
  unfold tuneOne relax optToStar generalize Gen.relax_cardinality Gen.generalize_cardinality
  cases hac : cfg.allCompliant <;> cases hde : cfg.disableExact <;> cases hdc : cfg.disableComments <;>
    cases htr : Gen.relax_trigger n N <;> cases card with
    | exact k =>
      by_cases hk : k = 1
      · subst hk; simp [Card.isInt, Card.exactGt]
      · by_cases hk' : 1 < k <;> simp [Card.isInt, Card.exactGt, hk, hk']
    | plus => simp [Card.isInt, Card.exactGt]
    | star => simp [Card.isInt, Card.exactGt]
    | opt => exact absurd rfl hs

/-- **`allow_opt_cardinality`**: the run with the option off is the run with the option on in which every `?` is replaced by
`*` — same shapes, same statements in the same order, same types, figures and comments -/
theorem allow_opt_off_only_replaces_opt (cfg : Config) (g : Graph) :
    Shexer.run { cfg with allowOpt := false } g
      = (Shexer.run { cfg with allowOpt := true } g).map (mapShape optToStar) := by
  rw [run_eq, run_eq]
  rw [pre_map_on { cfg with allowOpt := true } { cfg with allowOpt := false } g optToStar (fun s => s.card ≠ Card.opt)
    rfl (fun _ => rfl) ⟨rfl, rfl, rfl, rfl, rfl⟩ rfl
    (by
      intro sh hsh s hs
      apply validOf_card _ _ _ s hs
      intro c hc
      exact base_card _ g sh hsh c ((mem_sortDesc _ c).mp hc))
    (fun sh s hs => tuneOne_allowOpt cfg sh sh.nInstances s hs)
    (fun _ _ _ _ _ => rfl)]
  rw [cleanEmpty_congr { cfg with allowOpt := false } { cfg with allowOpt := true } rfl rfl]
  exact cleanEmpty_map _ optToStar optToStar_tp _

end C13
end Shexer
