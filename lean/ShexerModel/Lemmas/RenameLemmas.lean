import ShexerModel.Lemmas.FigureLemmas
import ShexerModel.Lemmas.Pass2Lemmas
/-! Renaming blank nodes does not change the shapes. -/
namespace Shexer
namespace Rename
open Shexer Profiler

def renameTerm (σ : String → String) : Term → Term
  | .bnode b => .bnode (σ b)
  | t => t

def renameTriple (σ : String → String) (t : Triple) : Triple := { s := renameTerm σ t.s, p := t.p, o := renameTerm σ t.o }

/-- the blank-node labels of a graph -/
def bnodeLabels (g : Graph) : List String :=
  g.flatMap fun t => (match t.s with | .bnode b => [b] | _ => []) ++ (match t.o with | .bnode b => [b] | _ => [])

/-- the IRIs in node position -/
def iriKeys (g : Graph) : List String :=
  g.flatMap fun t => (match t.s with | .iri i => [i] | _ => []) ++ (match t.o with | .iri i => [i] | _ => [])

/-! ### dictionaries under a key renaming -/

def mapKeys {ν : Type} (ρ : String → String) (d : Dict String ν) : Dict String ν := d.map fun e => (ρ e.1, e.2)

def InjOn (ρ : String → String) (K : List String) : Prop := ∀ a ∈ K, ∀ b ∈ K, ρ a = ρ b → a = b

theorem get?_mapKeys' {ν : Type} (ρ : String → String) (d : Dict String ν) (k : String)
    (h : ∀ k' ∈ Dict.keys d, ρ k' = ρ k → k' = k) :
    Dict.get? (mapKeys ρ d) (ρ k) = Dict.get? d k := by
  induction d with
  | nil => rfl
  | cons hd tl ih =>
    obtain ⟨k', v⟩ := hd
    have ih := ih (fun a ha => h a (by simp only [Dict.keys, List.map_cons, List.mem_cons] at ha ⊢; exact Or.inr ha))
    have h0 := h k' (by simp [Dict.keys])
    by_cases hk : k' = k
    · subst hk; simp [mapKeys, Dict.get?]
    · have hne : ρ k' ≠ ρ k := fun e => hk (h0 e)
      simp only [mapKeys, List.map_cons, Dict.get?, hk, hne, if_false]; exact ih

theorem upd_mapKeys' {ν : Type} (ρ : String → String) (d : Dict String ν) (k : String) (f : Option ν → ν)
    (h : ∀ k' ∈ Dict.keys d, ρ k' = ρ k → k' = k) :
    Dict.upd (mapKeys ρ d) (ρ k) f = mapKeys ρ (Dict.upd d k f) := by
  induction d with
  | nil => rfl
  | cons hd tl ih =>
    obtain ⟨k', v⟩ := hd
    have ih := ih (fun a ha => h a (by simp only [Dict.keys, List.map_cons, List.mem_cons] at ha ⊢; exact Or.inr ha))
    have h0 := h k' (by simp [Dict.keys])
    by_cases hk : k' = k
    · subst hk; simp [mapKeys, Dict.upd]
    · have hne : ρ k' ≠ ρ k := fun e => hk (h0 e)
      simp only [mapKeys, List.map_cons, Dict.upd, hk, hne, if_false] at ih ⊢; rw [ih]

variable {ρ : String → String} {K : List String}

theorem get?_mapKeys {ν : Type} (hρ : InjOn ρ K) (d : Dict String ν) (k : String)
    (hd : ∀ a ∈ Dict.keys d, a ∈ K) (hk : k ∈ K) :
    Dict.get? (mapKeys ρ d) (ρ k) = Dict.get? d k :=
  get?_mapKeys' ρ d k fun a ha e => hρ a (hd a ha) k hk e

theorem upd_mapKeys {ν : Type} (hρ : InjOn ρ K) (d : Dict String ν) (k : String) (f : Option ν → ν)
    (hd : ∀ a ∈ Dict.keys d, a ∈ K) (hk : k ∈ K) :
    Dict.upd (mapKeys ρ d) (ρ k) f = mapKeys ρ (Dict.upd d k f) :=
  upd_mapKeys' ρ d k f fun a ha e => hρ a (hd a ha) k hk e

theorem contains_mapKeys {ν : Type} (hρ : InjOn ρ K) (d : Dict String ν) (k : String)
    (hd : ∀ a ∈ Dict.keys d, a ∈ K) (hk : k ∈ K) :
    Dict.contains (mapKeys ρ d) (ρ k) = Dict.contains d k := by
  unfold Dict.contains; rw [get?_mapKeys hρ d k hd hk]

theorem keys_upd_sub {ν : Type} (d : Dict String ν) (k : String) (f : Option ν → ν) (P : String → Prop)
    (hd : ∀ a ∈ Dict.keys d, P a) (hk : P k) : ∀ a ∈ Dict.keys (Dict.upd d k f), P a := by
  intro a ha
  rcases (Dict.mem_keys_upd d k a f).mp ha with rfl | h
  · exact hk
  · exact hd a h

theorem keys_upd_of_contains {ν : Type} (d : Dict String ν) (k : String) (f : Option ν → ν)
    (h : Dict.contains d k = true) : Dict.keys (Dict.upd d k f) = Dict.keys d := by
  rw [Dict.keys_upd, if_pos h]

/-! ### renaming of terms -/

theorem renameTerm_isNode (σ : String → String) (t : Term) : (renameTerm σ t).isNode = t.isNode := by
  cases t <;> rfl
theorem renameTerm_isIri (σ : String → String) (t : Term) : (renameTerm σ t).isIri = t.isIri := by
  cases t <;> rfl
theorem renameTerm_of_isIri (σ : String → String) (t : Term) (h : t.isIri = true) : renameTerm σ t = t := by
  cases t <;> simp_all [renameTerm, Term.isIri]
theorem typeOf_rename (cfg : Config) (σ : String → String) (p : String) (t : Term)
    (h : p = cfg.instProp → t.isIri = true) : typeOf cfg p (renameTerm σ t) = typeOf cfg p t := by
  by_cases hp : p = cfg.instProp
  · rw [renameTerm_of_isIri σ t (h hp)]
  · cases t <;> simp [typeOf, renameTerm, hp]

/-- what the proof needs to know about one triple of the graph -/
structure Good (cfg : Config) (σ ρ : String → String) (K : List String) (t : Triple) : Prop where
  sK : t.s.key ∈ K
  oK : t.o.key ∈ K
  sρ : (renameTerm σ t.s).key = ρ t.s.key
  oρ : (renameTerm σ t.o).key = ρ t.o.key
  cls : t.p = cfg.instProp → t.o.isIri = true

/-! ### pass 1 -/
open Tracker in
def liftSt (ρ : String → String) (st : Tracker.St) : Tracker.St := { st with inst := mapKeys ρ st.inst }

theorem relevant_rename (cfg : Config) (σ : String → String) (st : Tracker.St) (t : Triple)
    (hc : t.p = cfg.instProp → t.o.isIri = true) :
    Tracker.relevant cfg (liftSt ρ st) (renameTriple σ t) = Tracker.relevant cfg st t := by
  by_cases hp : t.p = cfg.instProp
  · have : renameTriple σ t = { t with s := renameTerm σ t.s } := by
      simp [renameTriple, renameTerm_of_isIri σ t.o (hc hp)]
    rw [this]; rfl
  · have hb : (t.p == cfg.instProp) = false := by simpa using hp
    simp [Tracker.relevant, Tracker.innerRelevant, Tracker.capAllows, renameTriple, hb, hp]

theorem innerRelevant_p (cfg : Config) (t : Triple) (h : Tracker.innerRelevant cfg t = true) : t.p = cfg.instProp := by
  unfold Tracker.innerRelevant at h
  split at h
  · simpa using h
  · split at h
    · simp only [Bool.and_eq_true, beq_iff_eq] at h; exact h.1.1
    · exact absurd h (by simp)

theorem relevant_inner (cfg : Config) (st : Tracker.St) (t : Triple) (h : Tracker.relevant cfg st t = true) :
    Tracker.innerRelevant cfg t = true := by
  unfold Tracker.relevant at h
  split at h
  · exact h
  · simp only [Bool.and_eq_true] at h; exact h.2

theorem annotate_rename (cfg : Config) (σ : String → String) (hρ : InjOn ρ K) (st : Tracker.St) (t : Triple)
    (hg : Good cfg σ ρ K t) (hp : t.p = cfg.instProp) (hd : ∀ a ∈ Dict.keys st.inst, a ∈ K) :
    Tracker.annotate cfg (liftSt ρ st) (renameTriple σ t) = liftSt ρ (Tracker.annotate cfg st t) := by
  have ho : renameTerm σ t.o = t.o := renameTerm_of_isIri σ t.o (hg.cls hp)
  have e1 : Dict.upd (Dict.setDefault (mapKeys ρ st.inst) (ρ t.s.key) []) (ρ t.s.key) (fun o => o.getD [] ++ [t.o.key])
      = mapKeys ρ (Dict.upd (Dict.setDefault st.inst t.s.key []) t.s.key (fun o => o.getD [] ++ [t.o.key])) := by
    unfold Dict.setDefault
    rw [upd_mapKeys hρ _ _ _ hd hg.sK, upd_mapKeys hρ _ _ _ (keys_upd_sub _ _ _ _ hd hg.sK) hg.sK]
  unfold Tracker.annotate
  simp only [renameTriple, ho, hg.sρ, liftSt, e1]
  split <;> rfl

theorem step_rename (cfg : Config) (σ : String → String) (hρ : InjOn ρ K) (st : Tracker.St) (t : Triple)
    (hg : Good cfg σ ρ K t) (hd : ∀ a ∈ Dict.keys st.inst, a ∈ K) :
    Tracker.step cfg (liftSt ρ st) (renameTriple σ t) = liftSt ρ (Tracker.step cfg st t) := by
  unfold Tracker.step
  rw [relevant_rename cfg σ st t hg.cls]
  have hs : (liftSt ρ st).stopped = st.stopped := rfl
  rw [hs]
  split
  · rfl
  · split
    · next h => exact annotate_rename cfg σ hρ st t hg (innerRelevant_p cfg t (relevant_inner cfg st t h)) hd
    · rfl

theorem keys_step (cfg : Config) (st : Tracker.St) (t : Triple) (P : String → Prop)
    (hd : ∀ a ∈ Dict.keys st.inst, P a) (hk : Tracker.innerRelevant cfg t = true → P t.s.key) :
    ∀ a ∈ Dict.keys (Tracker.step cfg st t).inst, P a := by
  unfold Tracker.step
  split
  · exact hd
  · split
    · next h =>
      have hk := hk (relevant_inner cfg st t h)
      have : (Tracker.annotate cfg st t).inst =
          Dict.upd (Dict.setDefault st.inst t.s.key []) t.s.key (fun o => o.getD [] ++ [t.o.key]) := by
        unfold Tracker.annotate; split <;> rfl
      rw [this]; unfold Dict.setDefault
      exact keys_upd_sub _ _ _ _ (keys_upd_sub _ _ _ _ hd hk) hk
    · exact hd

theorem foldl_step_rename (cfg : Config) (σ : String → String) (hρ : InjOn ρ K) (l : List Triple) (st : Tracker.St)
    (hg : ∀ t ∈ l, Good cfg σ ρ K t) (hd : ∀ a ∈ Dict.keys st.inst, a ∈ K) :
    (l.map (renameTriple σ)).foldl (Tracker.step cfg) (liftSt ρ st) = liftSt ρ (l.foldl (Tracker.step cfg) st) := by
  induction l generalizing st with
  | nil => rfl
  | cons t l ih =>
    simp only [List.map_cons, List.foldl_cons]
    rw [step_rename cfg σ hρ st t (hg t (by simp)) hd]
    exact ih _ (fun t ht => hg t (by simp [ht])) (keys_step cfg st t _ hd (fun _ => (hg t (by simp)).sK))

theorem keys_foldl_step (cfg : Config) (l : List Triple) (st : Tracker.St) (P : String → Prop)
    (hd : ∀ a ∈ Dict.keys st.inst, P a) (hk : ∀ t ∈ l, Tracker.innerRelevant cfg t = true → P t.s.key) :
    ∀ a ∈ Dict.keys (l.foldl (Tracker.step cfg) st).inst, P a := by
  induction l generalizing st with
  | nil => exact hd
  | cons t l ih =>
    simp only [List.foldl_cons]
    exact ih _ (keys_step cfg st t P hd (hk t (by simp))) (fun t ht => hk t (by simp [ht]))

theorem track_rename (cfg : Config) (σ : String → String) (hρ : InjOn ρ K) (g : Graph)
    (hg : ∀ t ∈ g, Good cfg σ ρ K t) :
    Tracker.track cfg (g.map (renameTriple σ)) = mapKeys ρ (Tracker.track cfg g) := by
  unfold Tracker.track
  have := foldl_step_rename cfg σ hρ g {} hg (by simp [Dict.keys])
  have e : liftSt ρ ({} : Tracker.St) = {} := rfl
  rw [e] at this; rw [this]; rfl

theorem keys_track (cfg : Config) (g : Graph) (P : String → Prop)
    (hk : ∀ t ∈ g, Tracker.innerRelevant cfg t = true → P t.s.key) :
    ∀ a ∈ Dict.keys (Tracker.track cfg g), P a :=
  keys_foldl_step cfg g {} P (by simp [Dict.keys]) hk


/-! ### pass 2 -/

theorem adapt_mapKeys (inst : Tracker.InstDict) : adapt (mapKeys ρ inst) = mapKeys ρ (adapt inst) := by
  simp [adapt, mapKeys, List.map_map, Function.comp_def]

theorem keys_adapt (inst : Tracker.InstDict) : Dict.keys (adapt inst) = Dict.keys inst := by
  simp [adapt, Dict.keys, List.map_map, Function.comp_def]

theorem isInstance_rename (σ : String → String) (hρ : InjOn ρ K) (d : IDict) (x : Term)
    (hd : ∀ a ∈ Dict.keys d, a ∈ K) (hx : x.key ∈ K) (hxρ : (renameTerm σ x).key = ρ x.key) :
    isInstance (mapKeys ρ d) (renameTerm σ x) = isInstance d x := by
  unfold isInstance; rw [renameTerm_isNode, hxρ, contains_mapKeys hρ d _ hd hx]

theorem shapesOf_rename (hρ : InjOn ρ K) (d : IDict) (k : String)
    (hd : ∀ a ∈ Dict.keys d, a ∈ K) (hk : k ∈ K) : shapesOf (mapKeys ρ d) (ρ k) = shapesOf d k := by
  unfold shapesOf; rw [get?_mapKeys hρ d k hd hk]

theorem annotateSubject_rename (cfg : Config) (σ : String → String) (hρ : InjOn ρ K) (d : IDict) (t : Triple)
    (hg : Good cfg σ ρ K t) (hd : ∀ a ∈ Dict.keys d, a ∈ K) :
    annotateSubject cfg (mapKeys ρ d) (renameTriple σ t) = mapKeys ρ (annotateSubject cfg d t) := by
  unfold annotateSubject
  simp only [renameTriple, typeOf_rename cfg σ t.p t.o hg.cls, hg.oρ, hg.sρ, shapesOf_rename hρ d _ hd hg.oK]
  rw [upd_mapKeys hρ d _ _ hd hg.sK]

theorem annotateObject_rename (cfg : Config) (σ : String → String) (hρ : InjOn ρ K) (d : IDict) (t : Triple)
    (hg : Good cfg σ ρ K t) (hd : ∀ a ∈ Dict.keys d, a ∈ K) (hs : t.p = cfg.instProp → t.s.isIri = true) :
    annotateObject cfg (mapKeys ρ d) (renameTriple σ t) = mapKeys ρ (annotateObject cfg d t) := by
  unfold annotateObject
  simp only [renameTriple, typeOf_rename cfg σ t.p t.s hs, hg.oρ, hg.sρ, shapesOf_rename hρ d _ hd hg.sK]
  rw [upd_mapKeys hρ d _ _ hd hg.oK]

theorem isInstance_contains {d : IDict} {x : Term} (h : isInstance d x = true) : Dict.contains d x.key = true := by
  unfold isInstance at h; simp only [Bool.and_eq_true] at h; exact h.2

theorem keys_phase1 (cfg : Config) (d : IDict) (t : Triple) : Dict.keys (phase1 cfg d t) = Dict.keys d := by
  unfold phase1; split
  · next h => exact keys_upd_of_contains _ _ _ (isInstance_contains h)
  · rfl

theorem keys_phase2 (cfg : Config) (d : IDict) (t : Triple) : Dict.keys (phase2 cfg d t) = Dict.keys d := by
  unfold phase2; split
  · next h => exact keys_upd_of_contains _ _ _ (isInstance_contains h.2)
  · rfl

theorem keys_pstep (cfg : Config) (d : IDict) (t : Triple) : Dict.keys (Profiler.step cfg d t) = Dict.keys d := by
  rw [step_eq, keys_phase2, keys_phase1]

theorem phase1_rename (cfg : Config) (σ : String → String) (hρ : InjOn ρ K) (d : IDict) (t : Triple)
    (hg : Good cfg σ ρ K t) (hd : ∀ a ∈ Dict.keys d, a ∈ K) :
    phase1 cfg (mapKeys ρ d) (renameTriple σ t) = mapKeys ρ (phase1 cfg d t) := by
  unfold phase1
  have e : isInstance (mapKeys ρ d) (renameTriple σ t).s = isInstance d t.s :=
    isInstance_rename σ hρ d t.s hd hg.sK hg.sρ
  rw [e, annotateSubject_rename cfg σ hρ d t hg hd]
  split <;> rfl

theorem phase2_rename (cfg : Config) (σ : String → String) (hρ : InjOn ρ K) (d : IDict) (t : Triple)
    (hg : Good cfg σ ρ K t) (hd : ∀ a ∈ Dict.keys d, a ∈ K)
    (hinv : t.p = cfg.instProp → cfg.inverse = true → t.s.isIri = true ∨ t.o.key ∉ Dict.keys d) :
    phase2 cfg (mapKeys ρ d) (renameTriple σ t) = mapKeys ρ (phase2 cfg d t) := by
  unfold phase2
  have e : isInstance (mapKeys ρ d) (renameTriple σ t).o = isInstance d t.o :=
    isInstance_rename σ hρ d t.o hd hg.oK hg.oρ
  rw [e]
  split
  · next h =>
    refine annotateObject_rename cfg σ hρ d t hg hd fun hp => ?_
    rcases hinv hp h.1 with h1 | h1
    · exact h1
    · exact absurd ((Dict.get?_isSome_iff_mem_keys d t.o.key).mp (isInstance_contains h.2)) h1
  · rfl

theorem pstep_rename (cfg : Config) (σ : String → String) (hρ : InjOn ρ K) (d : IDict) (t : Triple)
    (hg : Good cfg σ ρ K t) (hd : ∀ a ∈ Dict.keys d, a ∈ K)
    (hinv : t.p = cfg.instProp → cfg.inverse = true → t.s.isIri = true ∨ t.o.key ∉ Dict.keys d) :
    Profiler.step cfg (mapKeys ρ d) (renameTriple σ t) = mapKeys ρ (Profiler.step cfg d t) := by
  rw [step_eq, step_eq, phase1_rename cfg σ hρ d t hg hd]
  exact phase2_rename cfg σ hρ _ t hg (by rw [keys_phase1]; exact hd) (by rw [keys_phase1]; exact hinv)

theorem foldl_pstep_rename (cfg : Config) (σ : String → String) (hρ : InjOn ρ K) (l : List Triple) (d : IDict)
    (hg : ∀ t ∈ l, Good cfg σ ρ K t) (hd : ∀ a ∈ Dict.keys d, a ∈ K)
    (hinv : ∀ t ∈ l, t.p = cfg.instProp → cfg.inverse = true → t.s.isIri = true ∨ t.o.key ∉ Dict.keys d) :
    (l.map (renameTriple σ)).foldl (Profiler.step cfg) (mapKeys ρ d) = mapKeys ρ (l.foldl (Profiler.step cfg) d) := by
  induction l generalizing d with
  | nil => rfl
  | cons t l ih =>
    simp only [List.map_cons, List.foldl_cons]
    rw [pstep_rename cfg σ hρ d t (hg t (by simp)) hd (hinv t (by simp))]
    exact ih _ (fun t ht => hg t (by simp [ht])) (by rw [keys_pstep]; exact hd)
      (by rw [keys_pstep]; exact fun t ht => hinv t (by simp [ht]))

theorem passesFilter_rename (cfg : Config) (σ : String → String) (t : Triple) :
    passesFilter cfg (renameTriple σ t) = passesFilter cfg t := rfl

theorem pass2_rename (cfg : Config) (σ : String → String) (hρ : InjOn ρ K) (g : Graph) (inst : Tracker.InstDict)
    (hg : ∀ t ∈ g, Good cfg σ ρ K t) (hd : ∀ a ∈ Dict.keys inst, a ∈ K)
    (hinv : ∀ t ∈ g, t.p = cfg.instProp → cfg.inverse = true → t.s.isIri = true ∨ t.o.key ∉ Dict.keys inst) :
    pass2 cfg (mapKeys ρ inst) (g.map (renameTriple σ)) = mapKeys ρ (pass2 cfg inst g) := by
  unfold pass2
  have e : (g.map (renameTriple σ)).filter (passesFilter cfg) = (g.filter (passesFilter cfg)).map (renameTriple σ) := by
    rw [List.filter_map]; rfl
  rw [e, adapt_mapKeys]
  exact foldl_pstep_rename cfg σ hρ _ _ (fun t ht => hg t (List.mem_filter.mp ht).1) (by rw [keys_adapt]; exact hd)
    (by rw [keys_adapt]; exact fun t ht => hinv t (List.mem_filter.mp ht).1)

/-! ### the profile -/

theorem foldl_mapKeys {ν β : Type} (f : β → ν → β) (d : Dict String ν) (b : β) :
    (mapKeys ρ d).foldl (fun acc e => f acc e.2) b = d.foldl (fun acc e => f acc e.2) b := by
  unfold mapKeys; rw [List.foldl_map]

theorem build_rename (cfg : Config) (inst : Tracker.InstDict) (d : IDict) :
    build cfg (mapKeys ρ inst) (mapKeys ρ d) = build cfg inst d := by
  unfold build initProfile mapKeys
  rw [List.foldl_map, List.foldl_map]

theorem initCounts_rename (cfg : Config) (inst : Tracker.InstDict) :
    initCounts cfg (mapKeys ρ inst) = initCounts cfg inst := by
  unfold initCounts mapKeys
  rw [List.foldl_map]

theorem shexClasses_congr (cfg : Config) (r r' : Profiler.Result) (hp : r.profile = r'.profile) (hc : r.counts = r'.counts) :
    Shexer.shexClasses cfg r = Shexer.shexClasses cfg r' := by
  unfold Shexer.shexClasses Shexer.baseShapes
  rw [hp, hc]


/-! ### assembly -/

theorem selected_of_mem_track (cfg : Config) (g : Graph) (k : String) (h : k ∈ Dict.keys (Tracker.track cfg g)) :
    Spec.isSelected cfg g k = true := by
  refine keys_track cfg g (fun k => Spec.isSelected cfg g k = true) (fun t ht hr => ?_) k h
  unfold Spec.isSelected
  rw [List.any_eq_true]
  exact ⟨t, ht, by simp [Spec.selects, hr]⟩

/-- the general form: any renaming of terms that acts on the node keys of the graph as a key map `ρ` injective on them -/
theorem run_rename_gen (cfg : Config) (g : Graph) (σ ρ : String → String) (K : List String) (hρ : InjOn ρ K)
    (hg : ∀ t ∈ g, Good cfg σ ρ K t)
    (hinv : ∀ t ∈ g, t.p = cfg.instProp → cfg.inverse = true →
      t.s.isIri = true ∨ Spec.isSelected cfg g t.o.key = false) :
    Shexer.run cfg (g.map (renameTriple σ)) = Shexer.run cfg g := by
  have hd : ∀ a ∈ Dict.keys (Tracker.track cfg g), a ∈ K :=
    keys_track cfg g (· ∈ K) (fun t ht _ => (hg t ht).sK)
  have hinv' : ∀ t ∈ g, t.p = cfg.instProp → cfg.inverse = true →
      t.s.isIri = true ∨ t.o.key ∉ Dict.keys (Tracker.track cfg g) := by
    intro t ht hp hi
    rcases hinv t ht hp hi with h | h
    · exact Or.inl h
    · refine Or.inr fun hm => ?_
      rw [selected_of_mem_track cfg g _ hm] at h; exact absurd h (by simp)
  unfold Shexer.run
  apply shexClasses_congr
  · show clean cfg (build cfg _ (pass2 cfg _ _)) = clean cfg (build cfg _ (pass2 cfg _ _))
    rw [track_rename cfg σ hρ g hg, pass2_rename cfg σ hρ g _ hg hd hinv', build_rename]
  · show initCounts cfg _ = initCounts cfg _
    rw [track_rename cfg σ hρ g hg, initCounts_rename]

/-- `""` (the key the implementation reads off a literal) if a literal occurs in the graph -/
def litKeys (g : Graph) : List String :=
  g.flatMap fun t => (match t.s with | .lit _ => [""] | _ => []) ++ (match t.o with | .lit _ => [""] | _ => [])

theorem term_cases (g : Graph) (t : Triple) (ht : t ∈ g) (x : Term) (hx : x = t.s ∨ x = t.o) :
    (∃ b, x = .bnode b ∧ b ∈ bnodeLabels g) ∨ (∃ i, x = .iri i ∧ i ∈ iriKeys g) ∨
      (∃ dt, x = .lit dt ∧ "" ∈ litKeys g) := by
  cases x with
  | bnode b =>
    refine Or.inl ⟨b, rfl, ?_⟩
    unfold bnodeLabels; rw [List.mem_flatMap]
    refine ⟨t, ht, ?_⟩
    rcases hx with h | h <;> simp [← h]
  | iri i =>
    refine Or.inr (Or.inl ⟨i, rfl, ?_⟩)
    unfold iriKeys; rw [List.mem_flatMap]
    refine ⟨t, ht, ?_⟩
    rcases hx with h | h <;> simp [← h]
  | lit dt =>
    refine Or.inr (Or.inr ⟨dt, rfl, ?_⟩)
    unfold litKeys; rw [List.mem_flatMap]
    refine ⟨t, ht, ?_⟩
    rcases hx with h | h <;> simp [← h]

/-- the key map induced by a renaming of labels -/
def keyMap (σ : String → String) (g : Graph) (k : String) : String := if k ∈ bnodeLabels g then σ k else k

/-- **blank-node labels are irrelevant** (repaired statement): `run_rename` holds when, in addition, no label of
the graph is the text of an IRI in node position (`hdisj`), and - if a literal occurs in the graph - neither a
label nor a renamed label is the empty string, the key the implementation reads off a literal (`hlit`).  Without
these the dictionaries, keyed by the bare string, identify a blank node with an IRI / a literal before the
renaming and separate them afterwards (see the counterexamples below). -/
theorem run_rename_partial (cfg : Config) (g : Graph) (σ : String → String)
    (hinj : ∀ a ∈ bnodeLabels g, ∀ b ∈ bnodeLabels g, σ a = σ b → a = b)
    (hfresh : ∀ b ∈ bnodeLabels g, σ b ∉ iriKeys g)
    (hcls : ∀ t ∈ g, t.p = cfg.instProp → t.o.isIri = true ∧
      (cfg.inverse = true → t.s.isIri = true ∨ Spec.isSelected cfg g t.o.key = false))
    (hdisj : ∀ b ∈ bnodeLabels g, b ∉ iriKeys g)
    (hlit : ∀ b ∈ bnodeLabels g, b ∉ litKeys g ∧ σ b ∉ litKeys g) :
    Shexer.run cfg (g.map (renameTriple σ)) = Shexer.run cfg g := by
  have hρ : InjOn (keyMap σ g) (bnodeLabels g ++ (iriKeys g ++ litKeys g)) := by
    intro a ha b hb e
    unfold keyMap at e
    by_cases h1 : a ∈ bnodeLabels g <;> by_cases h2 : b ∈ bnodeLabels g
    · rw [if_pos h1, if_pos h2] at e; exact hinj a h1 b h2 e
    · rw [if_pos h1, if_neg h2] at e
      rcases List.mem_append.mp hb with h | h
      · exact absurd h h2
      · rcases List.mem_append.mp h with h | h
        · exact absurd (e ▸ h) (hfresh a h1)
        · exact absurd (e ▸ h) (hlit a h1).2
    · rw [if_neg h1, if_pos h2] at e
      rcases List.mem_append.mp ha with h | h
      · exact absurd h h1
      · rcases List.mem_append.mp h with h | h
        · exact absurd (e ▸ h) (hfresh b h2)
        · exact absurd (e ▸ h) (hlit b h2).2
    · rw [if_neg h1, if_neg h2] at e; exact e
  have hterm : ∀ t ∈ g, ∀ x, (x = t.s ∨ x = t.o) →
      x.key ∈ bnodeLabels g ++ (iriKeys g ++ litKeys g) ∧ (renameTerm σ x).key = keyMap σ g x.key := by
    intro t ht x hx
    rcases term_cases g t ht x hx with ⟨b, rfl, hb⟩ | ⟨i, rfl, hi⟩ | ⟨dt, rfl, hl⟩
    · exact ⟨List.mem_append.mpr (Or.inl hb), by simp [renameTerm, Term.key, keyMap, hb]⟩
    · refine ⟨List.mem_append.mpr (Or.inr (List.mem_append.mpr (Or.inl hi))), ?_⟩
      have : i ∉ bnodeLabels g := fun h => hdisj i h hi
      simp [renameTerm, Term.key, keyMap, this]
    · refine ⟨List.mem_append.mpr (Or.inr (List.mem_append.mpr (Or.inr hl))), ?_⟩
      have : "" ∉ bnodeLabels g := fun h => (hlit "" h).1 hl
      simp [renameTerm, Term.key, keyMap, this]
  refine run_rename_gen cfg g σ (keyMap σ g) _ hρ (fun t ht => ?_) (fun t ht hp => (hcls t ht hp).2)
  exact ⟨(hterm t ht _ (Or.inl rfl)).1, (hterm t ht _ (Or.inr rfl)).1, (hterm t ht _ (Or.inl rfl)).2,
    (hterm t ht _ (Or.inr rfl)).2, fun hp => (hcls t ht hp).1⟩


/-- corollary in the form that matches the readers: labels (before and after the renaming) are recognisable by a
test `isLabel` (e.g. "starts with `_:`") that no IRI in node position and not the empty string passes -/
theorem run_rename_sorted (cfg : Config) (g : Graph) (σ : String → String) (isLabel : String → Bool)
    (hinj : ∀ a ∈ bnodeLabels g, ∀ b ∈ bnodeLabels g, σ a = σ b → a = b)
    (hcls : ∀ t ∈ g, t.p = cfg.instProp → t.o.isIri = true ∧
      (cfg.inverse = true → t.s.isIri = true ∨ Spec.isSelected cfg g t.o.key = false))
    (hlab : ∀ b ∈ bnodeLabels g, isLabel b = true ∧ isLabel (σ b) = true)
    (hiri : ∀ i ∈ iriKeys g, isLabel i = false) (hempty : isLabel "" = false) :
    Shexer.run cfg (g.map (renameTriple σ)) = Shexer.run cfg g := by
  have hl : ∀ k ∈ litKeys g, k = "" := by
    intro k hk
    unfold litKeys at hk
    rw [List.mem_flatMap] at hk
    obtain ⟨t, _, h⟩ := hk
    rcases List.mem_append.mp h with h | h
    · split at h <;> simp_all
    · split at h <;> simp_all
  have no : ∀ k, isLabel k = true → k ∉ iriKeys g ∧ k ∉ litKeys g := by
    intro k hk
    refine ⟨fun h => ?_, fun h => ?_⟩
    · rw [hiri k h] at hk; exact absurd hk (by simp)
    · rw [hl k h, hempty] at hk; exact absurd hk (by simp)
  exact run_rename_partial cfg g σ hinj (fun b hb => (no _ (hlab b hb).2).1) hcls
    (fun b hb => (no _ (hlab b hb).1).1) (fun b hb => ⟨(no _ (hlab b hb).1).2, (no _ (hlab b hb).2).2⟩)

/-! ### `run_rename` is false as stated: counterexamples

The dictionaries of both passes are keyed by the bare string `Term.key`, so a blank node labelled `b` and the IRI
`b` are ONE node for the tracker and the profiler.  Renaming the label separates them. -/

namespace Cx
def T : String := "http://www.w3.org/1999/02/22-rdf-syntax-ns#type"
def cfg : Config := { allClasses := true }
def σ (s : String) : String := "_:r" ++ s
/-- the blank node `b` is an instance of `C`; the triple `<b> p <x>` is counted for it before the renaming only -/
def g1 : Graph := [⟨.bnode "b", T, .iri "C"⟩, ⟨.iri "b", "p", .iri "x"⟩]
/-- the literal subject registers the key `""`, which the blank node labelled `""` shares before the renaming only -/
def g2 : Graph := [⟨.lit "d", T, .iri "C"⟩, ⟨.bnode "", "p", .iri "x"⟩]
/-- a literal with datatype `"IRI"` is looked up under the key `""`: a shape reference before the renaming only -/
def g3 : Graph := [⟨.bnode "", T, .iri "C"⟩, ⟨.bnode "", "p", .lit "IRI"⟩]

/-- all hypotheses of `run_rename` (and, fourth component, `hdisj` of `run_rename_partial`) -/
def hyps (g : Graph) : Bool × Bool × Bool × Bool :=
  (decide (∀ a ∈ bnodeLabels g, ∀ b ∈ bnodeLabels g, σ a = σ b → a = b),
   decide (∀ b ∈ bnodeLabels g, σ b ∉ iriKeys g),
   decide (∀ t ∈ g, t.p = cfg.instProp → t.o.isIri = true ∧
      (cfg.inverse = true → t.s.isIri = true ∨ Spec.isSelected cfg g t.o.key = false)),
   decide (∀ b ∈ bnodeLabels g, b ∉ iriKeys g))
def same (g : Graph) : Bool := decide (Shexer.run cfg (g.map (renameTriple σ)) = Shexer.run cfg g)

#eval (hyps g1, same g1)   -- ((true, true, true, false), false)
#eval (hyps g2, same g2)   -- ((true, true, true, true), false)
#eval (hyps g3, same g3)   -- ((true, true, true, true), false)
#eval ((Shexer.run cfg g1).map fun sh => (sh.name, sh.stmts.map fun s => (s.prop, s.types)),
       (Shexer.run cfg (g1.map (renameTriple σ))).map fun sh => (sh.name, sh.stmts.map fun s => (s.prop, s.types)))
end Cx

/-- kernel-checked refutation of the statement of `run_rename` (graph `Cx.g1`) -/
theorem run_rename_refuted : ¬ ∀ (cfg : Config) (g : Graph) (σ : String → String),
    (∀ a ∈ bnodeLabels g, ∀ b ∈ bnodeLabels g, σ a = σ b → a = b) →
    (∀ b ∈ bnodeLabels g, σ b ∉ iriKeys g) →
    (∀ t ∈ g, t.p = cfg.instProp → t.o.isIri = true ∧
      (cfg.inverse = true → t.s.isIri = true ∨ Spec.isSelected cfg g t.o.key = false)) →
    Shexer.run cfg (g.map (renameTriple σ)) = Shexer.run cfg g := by
  intro h
  have h1 : ∀ a ∈ bnodeLabels Cx.g1, ∀ b ∈ bnodeLabels Cx.g1, Cx.σ a = Cx.σ b → a = b := by decide +kernel
  have h2 : ∀ b ∈ bnodeLabels Cx.g1, Cx.σ b ∉ iriKeys Cx.g1 := by decide +kernel
  have h3 : ∀ t ∈ Cx.g1, t.p = Cx.cfg.instProp → t.o.isIri = true ∧
      (Cx.cfg.inverse = true → t.s.isIri = true ∨ Spec.isSelected Cx.cfg Cx.g1 t.o.key = false) := by decide +kernel
  have h4 : Shexer.run Cx.cfg (Cx.g1.map (renameTriple Cx.σ)) ≠ Shexer.run Cx.cfg Cx.g1 := by decide +kernel
  exact h4 (h Cx.cfg Cx.g1 Cx.σ h1 h2 h3)

/-- `hdisj` alone does not repair the statement: the empty key of literals (`Cx.g2`; `Cx.g3` is analogous) -/
theorem run_rename_hdisj_insufficient : ¬ ∀ (cfg : Config) (g : Graph) (σ : String → String),
    (∀ a ∈ bnodeLabels g, ∀ b ∈ bnodeLabels g, σ a = σ b → a = b) →
    (∀ b ∈ bnodeLabels g, σ b ∉ iriKeys g) →
    (∀ t ∈ g, t.p = cfg.instProp → t.o.isIri = true ∧
      (cfg.inverse = true → t.s.isIri = true ∨ Spec.isSelected cfg g t.o.key = false)) →
    (∀ b ∈ bnodeLabels g, b ∉ iriKeys g) →
    Shexer.run cfg (g.map (renameTriple σ)) = Shexer.run cfg g := by
  intro h
  have h1 : ∀ a ∈ bnodeLabels Cx.g2, ∀ b ∈ bnodeLabels Cx.g2, Cx.σ a = Cx.σ b → a = b := by decide +kernel
  have h2 : ∀ b ∈ bnodeLabels Cx.g2, Cx.σ b ∉ iriKeys Cx.g2 := by decide +kernel
  have h3 : ∀ t ∈ Cx.g2, t.p = Cx.cfg.instProp → t.o.isIri = true ∧
      (Cx.cfg.inverse = true → t.s.isIri = true ∨ Spec.isSelected Cx.cfg Cx.g2 t.o.key = false) := by decide +kernel
  have h5 : ∀ b ∈ bnodeLabels Cx.g2, b ∉ iriKeys Cx.g2 := by decide +kernel
  have h4 : Shexer.run Cx.cfg (Cx.g2.map (renameTriple Cx.σ)) ≠ Shexer.run Cx.cfg Cx.g2 := by decide +kernel
  exact h4 (h Cx.cfg Cx.g2 Cx.σ h1 h2 h3 h5)

/-! The original statement, kept verbatim.  IT IS FALSE (`run_rename_refuted`); use `run_rename_partial` /
`run_rename_sorted`. -/

/- `run_rename` at full strength (hypotheses `hinj`, `hfresh`, `hcls` only) is false of the model: see `run_rename_refuted`
(a blank node and an IRI with the same text are one dictionary key) and `run_rename_hdisj_insufficient` (the key of a
literal is the empty string). The proved variants are `run_rename_partial`, `run_rename_sorted`, `run_rename_gen`. -/

end Rename
end Shexer
