import ShexerModel.Lemmas.GenStrNtTokB
/-! The other half of the tie between the regenerated N-Triples tokenizer and `Nt.tokens`: on a line for which the model has no answer
the Python loop never ends - the regenerated tokenizer runs out of fuel whatever fuel it is given. -/
namespace Shexer.GenStrNtTok
open Shexer PyOps

/-! ### `whileFuel`: more fuel changes nothing but an `outOfFuel` -/

theorem ntC_whileFuel_err {σ ρ : Type} (body : σ → Except PyExc (Ctl σ ρ)) (f : Nat) (s : σ) (e : PyExc)
    (h : body s = Except.error e) : whileFuel body (f + 1) s = Except.error e := by
  simp only [whileFuel, h, bind, Except.bind]

theorem ntC_whileFuel_ret {σ ρ : Type} (body : σ → Except PyExc (Ctl σ ρ)) (f : Nat) (s : σ) (r : ρ)
    (h : body s = Except.ok (Ctl.ret r)) : whileFuel body (f + 1) s = Except.ok (Sum.inr r) := by
  simp only [whileFuel, h, bind, Except.bind, pure, Except.pure]

/-- a computation indexed by its fuel either ran out of it, or gives the same result with any larger fuel -/
def ntC_Stable {α : Type} (g : Nat → Except PyExc α) (F : Nat) : Prop :=
  g F = Except.error PyExc.outOfFuel ∨ ∀ G, F ≤ G → g G = g F

theorem ntC_whileFuel_stable {σ ρ : Type} (body : σ → Except PyExc (Ctl σ ρ)) : ∀ (F : Nat) (s : σ),
    ntC_Stable (fun F => whileFuel body F s) F := by
  intro F
  induction F with
  | zero => intro s; left; rfl
  | succ F ih =>
    intro s
    unfold ntC_Stable
    cases hb : body s with
    | error e =>
      right; intro G hG
      obtain ⟨G', rfl⟩ : ∃ G', G = G' + 1 := ⟨G - 1, by omega⟩
      show whileFuel body (G' + 1) s = whileFuel body (F + 1) s
      rw [ntC_whileFuel_err _ _ _ _ hb, ntC_whileFuel_err _ _ _ _ hb]
    | ok r =>
      cases r with
      | next s' =>
        show whileFuel body (F + 1) s = _ ∨ ∀ G, F + 1 ≤ G → whileFuel body G s = whileFuel body (F + 1) s
        rw [ntB_whileFuel_next _ _ _ _ hb]
        rcases ih s' with h | h
        · left; exact h
        · right; intro G hG
          obtain ⟨G', rfl⟩ : ∃ G', G = G' + 1 := ⟨G - 1, by omega⟩
          rw [ntB_whileFuel_next _ _ _ _ hb]
          exact h G' (by omega)
      | brk s' =>
        right; intro G hG
        obtain ⟨G', rfl⟩ : ∃ G', G = G' + 1 := ⟨G - 1, by omega⟩
        show whileFuel body (G' + 1) s = whileFuel body (F + 1) s
        rw [ntB_whileFuel_brk _ _ _ _ hb, ntB_whileFuel_brk _ _ _ _ hb]
      | ret r =>
        right; intro G hG
        obtain ⟨G', rfl⟩ : ∃ G', G = G' + 1 := ⟨G - 1, by omega⟩
        show whileFuel body (G' + 1) s = whileFuel body (F + 1) s
        rw [ntC_whileFuel_ret _ _ _ _ hb, ntC_whileFuel_ret _ _ _ _ hb]

theorem ntC_stable_bind {α β : Type} (g : Nat → Except PyExc α) (k : α → Except PyExc β) (F : Nat)
    (h : ntC_Stable g F) : ntC_Stable (fun F => g F >>= k) F := by
  rcases h with h | h
  · left; show g F >>= k = _; rw [h]; rfl
  · right; intro G hG; show g G >>= k = g F >>= k; rw [h G hG]

theorem ntC_blank_stable (s : List Char) (i : Int) (F : Nat) :
    ntC_Stable (fun F => GenS.nt_look_for_last_index_before_blank F s i) F := by
  have := ntC_stable_bind _ (blankPost s) F (ntC_whileFuel_stable (blankBody s) F i)
  exact this

theorem ntC_closing_stable (s : List Char) (i : Int) (F : Nat) :
    ntC_Stable (fun F => GenS.nt_look_for_index_of_closing_quotes F s i) F := by
  have := ntC_stable_bind _ (fun w => match w with
        | .inr v => pure v
        | .inl _ => pure ((s.length : Int) - 1)) F (ntC_whileFuel_stable (closingBody s) F (i + 1))
  exact this

theorem ntC_stable_bind2 {α β : Type} (g : Nat → Except PyExc α) (k : Nat → α → Except PyExc β) (F : Nat)
    (h : ntC_Stable g F) (hk : ∀ v, ntC_Stable (fun F => k F v) F) : ntC_Stable (fun F => g F >>= k F) F := by
  rcases h with h | h
  · left; show g F >>= k F = _; rw [h]; rfl
  · cases hg : g F with
    | error e =>
      right; intro G hG
      show g G >>= k G = g F >>= k F
      rw [h G hG, hg]; rfl
    | ok v =>
      rcases hk v with h2 | h2
      · left; show g F >>= k F = _; rw [hg]; exact h2
      · right; intro G hG
        show g G >>= k G = g F >>= k F
        rw [h G hG, hg]; exact h2 G hG

/-- what `nt_look_for_last_index_of_literal_token` does once the closing quotes are found (same text) -/
def ntC_litTail (fuel : Nat) (target_str : List Char) (index_closing_quotes : Int) : Except PyExc Int :=
  if ((PyOps.slice target_str (some (index_closing_quotes + (1 : Int))) (some (index_closing_quotes + (2 : Int)))) == "@".toList) then (do
  let r_2 ← GenS.nt_look_for_last_index_before_blank fuel target_str (index_closing_quotes + (1 : Int))
  pure r_2)
  else (do
  if ((PyOps.slice target_str (some (index_closing_quotes + (1 : Int))) (some (index_closing_quotes + (4 : Int)))) == "^^<".toList) then (do
  pure (PyOps.findAt target_str ">".toList (index_closing_quotes + (1 : Int))))
  else (do
  if ((PyOps.slice target_str (some (index_closing_quotes + (1 : Int))) (some (index_closing_quotes + (3 : Int)))) == "^^".toList) then (do
  let r_3 ← GenS.nt_look_for_last_index_before_blank fuel target_str (index_closing_quotes + (1 : Int))
  pure r_3)
  else (do
  pure index_closing_quotes)))

theorem ntC_literal_unfold (fuel : Nat) (s : List Char) (i : Int) :
    GenS.nt_look_for_last_index_of_literal_token fuel s i =
      (GenS.nt_look_for_index_of_closing_quotes fuel s i >>= ntC_litTail fuel s) := rfl

theorem ntC_litTail_stable (s : List Char) (v : Int) (F : Nat) : ntC_Stable (fun F => ntC_litTail F s v) F := by
  have hb := ntC_blank_stable s (v + 1) F
  unfold ntC_litTail
  split
  · exact hb
  · split
    · right; intro G hG; rfl
    · split
      · exact hb
      · right; intro G hG; rfl

theorem ntC_literal_stable (s : List Char) (i : Int) (F : Nat) :
    ntC_Stable (fun F => GenS.nt_look_for_last_index_of_literal_token F s i) F :=
  ntC_stable_bind2 _ (fun F => ntC_litTail F s) F (ntC_closing_stable s i F) (fun v => ntC_litTail_stable s v F)

/-! ### the helpers at any fuel: out of fuel, or the value of the model -/

theorem ntC_blank_val (s : List Char) (i F : Nat) (c : Char) (hc : s[i]? = some c) (hs : Nt.isSpace c = false) (hh : c ≠ '#') :
    GenS.nt_look_for_last_index_before_blank F s (i : Int) = Except.error PyExc.outOfFuel ∨
    GenS.nt_look_for_last_index_before_blank F s (i : Int) =
      Except.ok (((i + (Nt.toBlank (s.drop i)).1.length : Nat) : Int) - 1) := by
  rcases ntC_blank_stable s (i : Int) F with h | h
  · left; exact h
  · right
    have := h (max F (s.length + 1)) (by omega)
    simp only [] at this
    rw [← this, before_blank_eq s i _ c hc hs hh (by omega)]

theorem ntC_literal_val (s : List Char) (i F : Nat) (hq : s[i]? = some '"') :
    GenS.nt_look_for_last_index_of_literal_token F s (i : Int) = Except.error PyExc.outOfFuel ∨
    GenS.nt_look_for_last_index_of_literal_token F s (i : Int) =
      Except.ok (match Nt.literalToken (s.drop (i + 1)) with
                 | some (tok, _) => ((i + tok.length : Nat) : Int) - 1
                 | none => -1) := by
  rcases ntC_literal_stable s (i : Int) F with h | h
  · left; exact h
  · right
    have := h (max F (s.length + 1)) (by omega)
    simp only [] at this
    rw [← this]
    exact literal_token_eq s i _ hq (by omega)

/-! ### the loop never ends -/

theorem ntC_main (F : Nat) (line : List Char) (H0 : Nt.tokensAux (line.length + 1) line = none) :
    ∀ (f n k : Nat) (acc : List (List Char)), k ≤ line.length → line.length - k + 1 ≤ n →
      Nt.tokensAux n (line.drop k) = none →
      whileFuel (ntB_tokBody F line) f ((k : Int), acc) = Except.error PyExc.outOfFuel := by
  intro f
  induction f with
  | zero => intros; rfl
  | succ f ih =>
    intro n k acc hk hn h
    obtain ⟨n', rfl⟩ : ∃ n', n = n' + 1 := ⟨n - 1, by omega⟩
    rcases Nat.lt_or_ge k line.length with hlt | hge
    · have hget : line[k]? = some line[k] := List.getElem?_eq_getElem hlt
      rw [List.drop_eq_getElem_cons hlt] at h
      have hdrop := List.drop_eq_getElem_cons hlt
      generalize line[k] = c at h hget hdrop
      -- a helper ran out of fuel
      have oof : ∀ (g : Except PyExc Int), g = Except.error PyExc.outOfFuel →
          ntB_tokBody F line ((k : Int), acc) = (g >>= ntB_stepNext line k acc) →
          whileFuel (ntB_tokBody F line) (f + 1) ((k : Int), acc) = Except.error PyExc.outOfFuel := by
        intro g hg hbody
        rw [hg] at hbody
        exact ntC_whileFuel_err _ _ _ _ hbody
      -- what a cut token does
      have next : ∀ (tok rest : List Char), line.drop k = tok ++ rest → 1 ≤ tok.length →
          Nt.tokensAux n' rest = none →
          ntB_tokBody F line ((k : Int), acc) = ntB_stepNext line k acc (((k + tok.length : Nat) : Int) - 1) →
          whileFuel (ntB_tokBody F line) (f + 1) ((k : Int), acc) = Except.error PyExc.outOfFuel := by
        intro tok rest hsplit hpos haux hbody
        obtain ⟨c1, c2, c3⟩ := ntB_cut_tok line tok rest k hsplit
        have hne : tok ≠ [] := by intro h0; rw [h0] at hpos; simp at hpos
        have c3 := c3 hne
        unfold ntB_stepNext at hbody
        have e : ((k + tok.length : Nat) : Int) - 1 + 1 = ((k + tok.length : Nat) : Int) := by omega
        rw [e] at hbody
        rw [ntB_whileFuel_next _ _ _ _ hbody]
        exact ih n' (k + tok.length) _ c3 (by omega) (by rw [c2]; exact haux)
      rw [Nt.tokensAux] at h
      have hbody := ntB_tokBody_char F line k c acc hget
      by_cases c1 : c = '<'
      · simp only [c1, if_true] at h hbody
        rw [← c1, ← hdrop] at h
        rw [uri_token_eq line k hk] at hbody
        cases hco : Nt.toCorner (line.drop k) with
        | none =>
          rw [hco] at hbody
          have hb2 : ntB_tokBody F line ((k : Int), acc) = ntB_stepNext line k acc ((k : Int) - 1) := hbody
          unfold ntB_stepNext at hb2
          have e : (k : Int) - 1 + 1 = (k : Int) := by omega
          rw [e] at hb2
          rw [ntB_whileFuel_next _ _ _ _ hb2]
          refine ih (n' + 1) k _ hk hn ?_
          rw [hdrop, Nt.tokensAux]
          simp only [c1, if_true]
          rw [← c1, ← hdrop, hco]
        | some p =>
          obtain ⟨tok, rest⟩ := p
          rw [hco] at h hbody
          simp only [Option.map_eq_none_iff] at h
          obtain ⟨s1, s2⟩ := ntB_toCorner_spec _ _ _ hco
          exact next tok rest s1 s2 h hbody
      · simp only [c1, if_false] at h hbody
        -- tokens that end at a blank
        have blank : Nt.isSpace c = false → c ≠ '#' → c ≠ '.' →
            Option.map (fun x => (Nt.toBlank (c :: List.drop (k + 1) line)).fst :: x)
              (Nt.tokensAux n' (Nt.toBlank (c :: List.drop (k + 1) line)).snd) = none →
            ntB_tokBody F line ((k : Int), acc) = (GenS.nt_look_for_last_index_before_blank F line (k : Int) >>= ntB_stepNext line k acc) →
            whileFuel (ntB_tokBody F line) (f + 1) ((k : Int), acc) = Except.error PyExc.outOfFuel := by
          intro hs hh hd h hbody
          have hpos := ntB_toBlank_pos c (List.drop (k + 1) line) hs hh hd
          rw [← hdrop] at h hpos
          rcases ntC_blank_val line k F c hget hs hh with hv | hv
          · exact oof _ hv hbody
          · rw [hv] at hbody
            simp only [Option.map_eq_none_iff] at h
            exact next _ _ (ntB_toBlank_spec _) hpos h hbody
        by_cases c2 : c = '"'
        · simp only [c2, if_true] at h hbody
          rcases ntC_literal_val line k F (by rw [hget, c2]) with hv | hv
          · exact oof _ hv hbody
          · rw [hv] at hbody
            cases hlt : Nt.literalToken (line.drop (k + 1)) with
            | none =>
              rw [hlt] at hbody
              have hb2 : ntB_tokBody F line ((k : Int), acc) = ntB_stepNext line k acc (-1) := hbody
              unfold ntB_stepNext at hb2
              have e : (-1 : Int) + 1 = ((0 : Nat) : Int) := by decide
              rw [e] at hb2
              rw [ntB_whileFuel_next _ _ _ _ hb2]
              exact ih (line.length + 1) 0 _ (by omega) (by omega) (by simpa using H0)
            | some p =>
              obtain ⟨tok, rest⟩ := p
              rw [hlt] at h hbody
              simp only [Option.map_eq_none_iff] at h
              obtain ⟨s1, s2⟩ := ntB_literalToken_spec _ _ _ hlt
              rw [← c2, ← hdrop] at s1
              exact next tok rest s1 s2 h hbody
        · simp only [c2, if_false] at h hbody
          by_cases c3 : c = '_'
          · simp only [c3, if_true] at h hbody
            rw [← c3] at h
            exact blank (by rw [c3]; decide) (by rw [c3]; decide) (by rw [c3]; decide) h hbody
          · simp only [c3, if_false] at h hbody
            by_cases c4 : c = '.'
            · simp only [c4, if_true] at h
              cases h
            · simp only [c4, if_false] at h hbody
              by_cases c5 : Nt.isNumeric c = true
              · simp only [c5, if_true] at h hbody
                obtain ⟨d1, d2, d3⟩ := ntB_digit_facts c c5
                exact blank d1 d2 d3 h hbody
              · simp only [c5] at h hbody
                rw [ntB_whileFuel_next _ _ _ _ hbody]
                have e : (k : Int) + 1 = ((k + 1 : Nat) : Int) := by omega
                rw [e]
                exact ih n' (k + 1) acc (by omega) (by omega) h
    · have hkl : k = line.length := by omega
      subst hkl
      simp [Nt.tokensAux] at h

theorem tokens_diverges (line : List Char) (h : Nt.tokens line = none) (fuel : Nat) :
    GenS.nt_look_for_tokens fuel line = Except.error PyExc.outOfFuel := by
  unfold Nt.tokens at h
  have hm := ntC_main fuel line h fuel (line.length + 1) 0 [] (by omega) (by omega) (by simpa using h)
  rw [ntB_tokens_unfold]
  have e : ((0 : Nat) : Int) = (0 : Int) := rfl
  rw [e] at hm
  rw [hm]
  rfl

end Shexer.GenStrNtTok
