import ShexerModel.GeneratedStr
import ShexerModel.Model.Ttl
import ShexerModel.Lemmas.GenStrNtTokB
/-! The quote scans of the regenerated streaming Turtle reader: the implementation finds the closing quotes by counting the backslashes
before each candidate BACKWARDS (`_find_next_unescaped_quotes`, `_count_prior_backslashes`), the model skips escape pairs FORWARDS
(`Nt.closing`).  From an opening quote both find the same quote. -/
namespace Shexer.GenStrTtlScan
open Shexer PyOps

open Shexer.GenStrNtTok

/-! ### `find(c, k)` for a one-character pattern at natural indices -/

theorem tsb_findFrom_ge (s : List Char) (c : Char) (k : Nat) (h : s.length ≤ k) : findFrom s [c] k = none := by
  rw [findFrom]
  have : k + [c].length > s.length := by simp; omega
  rw [if_pos this]

theorem tsb_findFrom_hit (s : List Char) (c : Char) (k : Nat) (h : k < s.length) (hc : s[k] = c) :
    findFrom s [c] k = some k := by
  rw [findFrom]
  have : ¬ (k + [c].length > s.length) := by simp; omega
  rw [if_neg this, drop_cons s k h, hc]
  simp [List.isPrefixOf]

theorem tsb_findFrom_miss (s : List Char) (c : Char) (k : Nat) (h : k < s.length) (hc : ¬ s[k] = c) :
    findFrom s [c] k = findFrom s [c] (k + 1) := by
  rw [findFrom]
  have : ¬ (k + [c].length > s.length) := by simp; omega
  rw [if_neg this, drop_cons s k h]
  have hp : ([c].isPrefixOf (s[k] :: s.drop (k + 1))) = false := by
    simp [List.isPrefixOf]; exact fun h => hc h.symm
  rw [hp]; simp

theorem tsb_findAt_nat (s : List Char) (c : Char) (k : Nat) (h : k ≤ s.length) :
    findAt s [c] (k : Int) = (match findFrom s [c] k with | some i => (i : Int) | none => -1) := by
  unfold findAt
  have : ¬ ((k : Int) > (s.length : Int)) := by omega
  simp only [this, if_false, ntB_clamp_nat, Nat.min_eq_left h]
  cases findFrom s [c] k <;> rfl

theorem tsb_findAt_ge (s : List Char) (c : Char) (k : Nat) (h : s.length ≤ k) : findAt s [c] (k : Int) = -1 := by
  by_cases hk : k = s.length
  · rw [tsb_findAt_nat s c k (by omega), tsb_findFrom_ge s c k h]
  · unfold findAt
    have : ((k : Int) > (s.length : Int)) := by omega
    simp only [this, if_true]

theorem tsb_findAt_hit (s : List Char) (c : Char) (k : Nat) (h : k < s.length) (hc : s[k] = c) :
    findAt s [c] (k : Int) = (k : Int) := by
  rw [tsb_findAt_nat s c k (by omega), tsb_findFrom_hit s c k h hc]

theorem tsb_findAt_miss (s : List Char) (c : Char) (k : Nat) (h : k < s.length) (hc : ¬ s[k] = c) :
    findAt s [c] (k : Int) = findAt s [c] ((k + 1 : Nat) : Int) := by
  rw [tsb_findAt_nat s c k (by omega), tsb_findAt_nat s c (k + 1) (by omega), tsb_findFrom_miss s c k h hc]

/-! ### the backward count of backslashes -/

/-- number of consecutive backslashes right before position `k` -/
def tsb_run (s : List Char) : Nat → Nat
  | 0 => 0
  | k + 1 => if s[k]? = some '\\' then tsb_run s k + 1 else 0

def tsb_countBody (an_str : List Char) : Int × Int → Except PyExc (Ctl (Int × Int) Int) := (fun (counter, quote_pos) => do
  if !(← (do
  pure (decide (quote_pos ≥ (0 : Int))))) then pure (PyOps.Ctl.brk (counter, quote_pos)) else (do
  let c_1 ← PyOps.index an_str quote_pos
  if (c_1 == '\\') then (do
  let counter := (counter + (1 : Int))
  let quote_pos := (quote_pos - (1 : Int))
  pure (PyOps.Ctl.next (counter, quote_pos)))
  else (do
  pure (PyOps.Ctl.ret counter))))

def tsb_countPost (w : Sum (Int × Int) Int) : Except PyExc Int := match w with
  | .inr v => pure v
  | .inl (counter, _) => pure counter

theorem tsb_count_unfold (fuel : Nat) (s : List Char) (p : Int) :
    GenS.ttl_count_prior_backslashes fuel s p =
      (whileFuel (tsb_countBody s) fuel ((1 : Int), p - 2) >>= tsb_countPost) := by
  rfl

theorem tsb_countBody_neg (s : List Char) (c q : Int) (h : q < 0) :
    tsb_countBody s (c, q) = Except.ok (Ctl.brk (c, q)) := by
  unfold tsb_countBody
  have : ¬ (q ≥ 0) := by omega
  simp [this]
  rfl

theorem tsb_countBody_nat (s : List Char) (c : Int) (q : Nat) (h : q < s.length) :
    tsb_countBody s (c, (q : Int)) =
      Except.ok (if s[q] = '\\' then Ctl.next (c + 1, (q : Int) - 1) else Ctl.ret c) := by
  unfold tsb_countBody
  have : ((q : Int) ≥ 0) := by omega
  simp only [this, index_nat s q h, decide_true, Bool.not_true, pure, Except.pure, bind, Except.bind, beq_iff_eq,
    Bool.false_eq_true, if_false]
  by_cases h1 : s[q] = '\\'
  · simp only [h1, if_true]
  · simp only [h1, if_false]

theorem tsb_count_loop (s : List Char) : ∀ (m f : Nat) (c q : Int), q + 1 = (m : Int) → m ≤ s.length → m + 1 ≤ f →
    (whileFuel (tsb_countBody s) f (c, q) >>= tsb_countPost) = Except.ok (c + (tsb_run s m : Nat)) := by
  intro m
  induction m with
  | zero =>
    intro f c q hq _ hf
    obtain ⟨f', rfl⟩ : ∃ f', f = f' + 1 := ⟨f - 1, by omega⟩
    rw [ntB_whileFuel_brk _ _ _ _ (tsb_countBody_neg s c q (by omega))]
    simp [tsb_countPost, tsb_run, bind, Except.bind, pure, Except.pure]
  | succ m ih =>
    intro f c q hq hm hf
    obtain ⟨f', rfl⟩ : ∃ f', f = f' + 1 := ⟨f - 1, by omega⟩
    have hqm : q = (m : Int) := by omega
    subst hqm
    have hb := tsb_countBody_nat s c m (by omega)
    have hget : s[m]? = some s[m] := List.getElem?_eq_getElem (by omega)
    by_cases h1 : s[m] = '\\'
    · simp only [h1, if_true] at hb
      rw [ntB_whileFuel_next _ _ _ _ hb, ih f' (c + 1) ((m : Int) - 1) (by omega) (by omega) (by omega)]
      simp only [tsb_run, hget, h1, if_true]
      congr 1
      push_cast
      omega
    · simp only [h1, if_false] at hb
      have hne : ¬ (s[m]? = some '\\') := by rw [hget]; simpa using h1
      simp only [whileFuel, hb, bind, Except.bind, pure, Except.pure, tsb_countPost, tsb_run, hne, if_false]
      simp

theorem tsb_count_eq (s : List Char) (F k : Nat) (hk : 1 ≤ k) (hkl : k ≤ s.length) (hb : s[k - 1]? = some '\\')
    (hF : s.length + 1 ≤ F) :
    GenS.ttl_count_prior_backslashes F s (k : Int) = Except.ok ((tsb_run s k : Nat) : Int) := by
  rw [tsb_count_unfold, tsb_count_loop s (k - 1) F 1 ((k : Int) - 2) (by omega) (by omega) (by omega)]
  obtain ⟨j, rfl⟩ : ∃ j, k = j + 1 := ⟨k - 1, by omega⟩
  simp only [Nat.add_sub_cancel] at hb ⊢
  simp only [tsb_run, hb, if_true]
  congr 1
  push_cast
  omega

/-! ### the model: `Nt.closing` as an offset, from a position inside a run of backslashes -/

def tsb_cl (l : List Char) : Option Nat := (Nt.closing l).map fun p => p.1.length

/-- offset of the closing quotes when the scan is behind an odd (`true`) / even (`false`) number of backslashes -/
def tsb_clp (odd : Bool) (l : List Char) : Option Nat :=
  if odd then (match l with | [] => none | _ :: t => (tsb_cl t).map (· + 1)) else tsb_cl l

theorem tsb_clp_nil (b : Bool) : tsb_clp b [] = none := by
  cases b <;> simp [tsb_clp, tsb_cl, Nt.closing]

theorem tsb_clp_odd (c : Char) (t : List Char) : tsb_clp true (c :: t) = (tsb_clp false t).map (· + 1) := by
  simp [tsb_clp]

theorem tsb_clp_quote (t : List Char) : tsb_clp false ('"' :: t) = some 0 := by
  simp [tsb_clp, tsb_cl, closing_quote]

theorem tsb_clp_other (c : Char) (t : List Char) (h1 : ¬ c = '\\') (h2 : ¬ c = '"') :
    tsb_clp false (c :: t) = (tsb_clp false t).map (· + 1) := by
  simp only [tsb_clp, tsb_cl, closing_other c t h1 h2, Bool.false_eq_true, if_false]
  cases Nt.closing t <;> simp

theorem tsb_clp_bs (b : Bool) (t : List Char) : tsb_clp b ('\\' :: t) = (tsb_clp (!b) t).map (· + 1) := by
  cases b
  · cases t with
    | nil => simp [tsb_clp, tsb_cl, closing_bs_nil]
    | cons d t' =>
      simp only [tsb_clp, tsb_cl, closing_bs_cons, Bool.false_eq_true, if_false, Bool.not_false, if_true]
      cases Nt.closing t' <;> simp
  · simp [tsb_clp]

def tsb_out (k : Nat) (o : Option Nat) : Except PyExc Int :=
  match o with
  | some off => Except.ok (((k + off : Nat) : Int))
  | none => Except.error PyExc.valueError

theorem tsb_out_map (k : Nat) (o : Option Nat) : tsb_out k (o.map (· + 1)) = tsb_out (k + 1) o := by
  cases o with
  | none => rfl
  | some off => simp only [tsb_out, Option.map_some]; congr 2; omega

def tsb_spec (s : List Char) (k : Nat) : Except PyExc Int :=
  tsb_out k (tsb_clp (tsb_run s k % 2 == 1) (s.drop k))

theorem tsb_spec_end (s : List Char) (k : Nat) (h : s.length ≤ k) : tsb_spec s k = Except.error PyExc.valueError := by
  rw [tsb_spec, List.drop_eq_nil_of_le h, tsb_clp_nil]; rfl

theorem tsb_run_succ_bs (s : List Char) (k : Nat) (h : k < s.length) (hc : s[k] = '\\') :
    tsb_run s (k + 1) = tsb_run s k + 1 := by
  have : s[k]? = some '\\' := by rw [List.getElem?_eq_getElem h, hc]
  simp only [tsb_run, this, if_true]

theorem tsb_run_succ_other (s : List Char) (k : Nat) (h : k < s.length) (hc : ¬ s[k] = '\\') :
    tsb_run s (k + 1) = 0 := by
  have : ¬ (s[k]? = some '\\') := by rw [List.getElem?_eq_getElem h]; simpa using hc
  simp only [tsb_run, this, if_false]

theorem tsb_spec_hit (s : List Char) (k : Nat) (h : k < s.length) (hc : s[k] = '"') (hr : tsb_run s k % 2 = 0) :
    tsb_spec s k = Except.ok (k : Int) := by
  have hb : (tsb_run s k % 2 == 1) = false := by simp [hr]
  rw [tsb_spec, drop_cons s k h, hc, hb, tsb_clp_quote]; rfl

theorem tsb_spec_skip (s : List Char) (k : Nat) (h : k < s.length) (hc : ¬ (s[k] = '"' ∧ tsb_run s k % 2 = 0)) :
    tsb_spec s k = tsb_spec s (k + 1) := by
  rw [tsb_spec, tsb_spec, drop_cons s k h, ← tsb_out_map]
  congr 1
  by_cases h1 : s[k] = '\\'
  · rw [tsb_run_succ_bs s k h h1, h1, tsb_clp_bs]
    congr 2
    rcases Nat.mod_two_eq_zero_or_one (tsb_run s k) with h0 | h0
    · have : (tsb_run s k + 1) % 2 = 1 := by omega
      simp [h0, this]
    · have : (tsb_run s k + 1) % 2 = 0 := by omega
      simp [h0, this]
  · rw [tsb_run_succ_other s k h h1]
    have e0 : ((0 : Nat) % 2 == 1) = false := by decide
    rw [e0]
    rcases Nat.mod_two_eq_zero_or_one (tsb_run s k) with h0 | h0
    · have hb : (tsb_run s k % 2 == 1) = false := by simp [h0]
      have h2 : ¬ s[k] = '"' := fun h2 => hc ⟨h2, h0⟩
      rw [hb, tsb_clp_other _ _ h1 h2]
    · have hb : (tsb_run s k % 2 == 1) = true := by simp [h0]
      rw [hb, tsb_clp_odd]

/-! ### the scan for the next unescaped quotes -/

def tsb_quoteBody (fuel : Nat) (target_str : List Char) : Int → Except PyExc (Ctl Int Int) := (fun pos => do
  if !(← (do
  pure (!(pos == (-(1 : Int)))))) then pure (PyOps.Ctl.brk pos) else (do
  let c_1 ← PyOps.index target_str (pos - (1 : Int))
  if (!(c_1 == '\\')) then (do
  pure (PyOps.Ctl.ret pos))
  else (do
  let r_2 ← GenS.ttl_count_prior_backslashes fuel target_str pos
  if ((r_2 % (2 : Int)) == (0 : Int)) then (do
  pure (PyOps.Ctl.ret pos))
  else (do
  let pos := (PyOps.findAt target_str "\"".toList (pos + (1 : Int)))
  pure (PyOps.Ctl.next pos)))))

def tsb_quotePost (w : Sum Int Int) : Except PyExc Int :=
  match w with
  | .inr v => pure v
  | .inl pos => (do
    if (pos == (-(1 : Int))) then (do
    throw PyExc.valueError)
    else (do
    throw PyExc.typeError))

theorem tsb_quote_unfold (fuel : Nat) (s : List Char) (st : Int) :
    GenS.ttl_find_next_unescaped_quotes fuel s st =
      (whileFuel (tsb_quoteBody fuel s) fuel (findAt s ['"'] st) >>= tsb_quotePost) := by
  rfl

theorem tsb_quoteBody_neg (F : Nat) (s : List Char) : tsb_quoteBody F s (-1) = Except.ok (Ctl.brk (-1)) := by
  rfl

theorem tsb_quoteBody_nat (F : Nat) (s : List Char) (k : Nat) (hk : 1 ≤ k) (hkl : k ≤ s.length) (hF : s.length + 1 ≤ F) :
    tsb_quoteBody F s (k : Int) =
      Except.ok (if s[k - 1]? = some '\\' ∧ tsb_run s k % 2 = 1 then Ctl.next (findAt s ['"'] ((k + 1 : Nat) : Int))
                 else Ctl.ret (k : Int)) := by
  have hk1 : k - 1 < s.length := by omega
  have hne : ((k : Int) == -1) = false := by simp
  have e1 : ((k : Int) - 1) = ((k - 1 : Nat) : Int) := by omega
  have e2 : ((k : Int) + 1) = ((k + 1 : Nat) : Int) := by omega
  have hq : "\"".toList = ['"'] := rfl
  have hget : s[k - 1]? = some s[k - 1] := List.getElem?_eq_getElem hk1
  unfold tsb_quoteBody
  simp only [hne, e1, e2, hq, index_nat s (k - 1) hk1, bind, Except.bind, pure, Except.pure, Bool.not_false, Bool.not_true,
    Bool.false_eq_true, if_false]
  by_cases h1 : s[k - 1] = '\\'
  · have hb : s[k - 1]? = some '\\' := by rw [hget, h1]
    have hbeq : (s[k - 1] == '\\') = true := by simp [h1]
    simp only [hbeq, tsb_count_eq s F k hk hkl hb hF, hb, true_and, Bool.not_true, Bool.false_eq_true, if_false]
    rcases Nat.mod_two_eq_zero_or_one (tsb_run s k) with h0 | h0
    · have : (((tsb_run s k : Nat) : Int) % 2 == 0) = true := by simp; omega
      simp [this, h0]
    · have : (((tsb_run s k : Nat) : Int) % 2 == 0) = false := by simp; omega
      simp [this, h0]
  · have hb : ¬ (s[k - 1]? = some '\\') := by rw [hget]; simpa using h1
    have hbeq : (s[k - 1] == '\\') = false := by simp [h1]
    simp [hbeq, hb]

theorem tsb_run_zero (s : List Char) (k : Nat) (hk : 1 ≤ k) (h : ¬ (s[k - 1]? = some '\\')) : tsb_run s k = 0 := by
  obtain ⟨j, rfl⟩ : ∃ j, k = j + 1 := ⟨k - 1, by omega⟩
  simp only [Nat.add_sub_cancel] at h
  simp only [tsb_run, h, if_false]

theorem tsb_quote_loop (s : List Char) (F : Nat) (hF : s.length + 1 ≤ F) : ∀ (n k f : Nat), s.length - k = n → 1 ≤ k → n + 1 ≤ f →
    (whileFuel (tsb_quoteBody F s) f (findAt s ['"'] (k : Int)) >>= tsb_quotePost) = tsb_spec s k := by
  intro n
  induction n with
  | zero =>
    intro k f hn hk hf
    obtain ⟨f', rfl⟩ : ∃ f', f = f' + 1 := ⟨f - 1, by omega⟩
    rw [tsb_findAt_ge s '"' k (by omega), ntB_whileFuel_brk _ _ _ _ (tsb_quoteBody_neg F s), tsb_spec_end s k (by omega)]
    rfl
  | succ n ih =>
    intro k f hn hk hf
    have hlt : k < s.length := by omega
    by_cases hc : s[k] = '"'
    · rw [tsb_findAt_hit s '"' k hlt hc]
      obtain ⟨f', rfl⟩ : ∃ f', f = f' + 1 := ⟨f - 1, by omega⟩
      have hb := tsb_quoteBody_nat F s k hk (by omega) hF
      by_cases hodd : s[k - 1]? = some '\\' ∧ tsb_run s k % 2 = 1
      · rw [if_pos hodd] at hb
        rw [ntB_whileFuel_next _ _ _ _ hb, ih (k + 1) f' (by omega) (by omega) (by omega)]
        rw [tsb_spec_skip s k hlt (by intro h; omega)]
      · rw [if_neg hodd] at hb
        have hr : tsb_run s k % 2 = 0 := by
          by_cases hbs : s[k - 1]? = some '\\'
          · have : ¬ (tsb_run s k % 2 = 1) := fun h => hodd ⟨hbs, h⟩
            omega
          · rw [tsb_run_zero s k hk hbs]
        rw [tsb_spec_hit s k hlt hc hr]
        simp only [whileFuel, hb, bind, Except.bind, pure, Except.pure, tsb_quotePost]
    · rw [tsb_findAt_miss s '"' k hlt hc, ih (k + 1) f (by omega) (by omega) (by omega),
        tsb_spec_skip s k hlt (fun h => hc h.1)]

theorem find_next_unescaped_quotes_eq (s : List Char) (i fuel : Nat) (hq : s[i]? = some '"') (hf : s.length + 1 ≤ fuel) :
    GenS.ttl_find_next_unescaped_quotes fuel s ((i : Int) + 1) =
      (match Nt.closing (s.drop (i + 1)) with
       | some (content, _) => Except.ok (((i + 1 + content.length : Nat) : Int))
       | none => Except.error PyExc.valueError) := by
  have hi : i < s.length := by
    rcases Nat.lt_or_ge i s.length with h | h
    · exact h
    · rw [List.getElem?_eq_none h] at hq; cases hq
  have e : ((i : Int) + 1) = ((i + 1 : Nat) : Int) := by omega
  rw [tsb_quote_unfold, e, tsb_quote_loop s fuel hf (s.length - (i + 1)) (i + 1) fuel rfl (by omega) (by omega)]
  have hr : tsb_run s (i + 1) = 0 := tsb_run_zero s (i + 1) (by omega) (by simp [hq])
  have e0 : ((0 : Nat) % 2 == 1) = false := by decide
  rw [tsb_spec, hr, e0]
  simp only [tsb_clp, tsb_cl, Bool.false_eq_true, if_false]
  cases Nt.closing (s.drop (i + 1)) with
  | none => rfl
  | some p => rfl

/-! ### the next blank -/

theorem tsb_blank_unfold (s : List Char) (st : Int) :
    GenS.ttl_find_next_blank s st =
      (if (findAt s [' '] st == (-(1 : Int))) then Except.ok ((s.length : Int)) else Except.ok (findAt s [' '] st)) := by
  rfl

theorem tsb_blank_eq (s : List Char) : ∀ (n k : Nat), s.length - k = n → k ≤ s.length →
    GenS.ttl_find_next_blank s (k : Int) = Except.ok (((k + ((s.drop k).takeWhile (· != ' ')).length : Nat) : Int)) := by
  intro n
  induction n with
  | zero =>
    intro k hn hk
    have : k = s.length := by omega
    subst this
    rw [tsb_blank_unfold, tsb_findAt_ge s ' ' _ (Nat.le_refl _), List.drop_length]
    simp
  | succ n ih =>
    intro k hn hk
    have hlt : k < s.length := by omega
    by_cases hc : s[k] = ' '
    · rw [tsb_blank_unfold, tsb_findAt_hit s ' ' k hlt hc, drop_cons s k hlt, hc]
      have hne : ((k : Int) == -1) = false := by simp
      simp [hne]
    · have e : GenS.ttl_find_next_blank s (k : Int) = GenS.ttl_find_next_blank s ((k + 1 : Nat) : Int) := by
        rw [tsb_blank_unfold, tsb_blank_unfold, tsb_findAt_miss s ' ' k hlt hc]
      rw [e, ih (k + 1) (by omega) (by omega), drop_cons s k hlt]
      have hp : (s[k] != ' ') = true := by simp [hc]
      rw [List.takeWhile_cons_of_pos (p := fun x => x != ' ') hp]
      simp only [List.length_cons]
      congr 2
      omega

theorem quoted_literal_ending_eq (s : List Char) (i fuel : Nat) (hq : s[i]? = some '"') (hf : s.length + 1 ≤ fuel) :
    GenS.ttl_find_next_quoted_literal_ending fuel s (i : Int) =
      (match Nt.closing (s.drop (i + 1)) with
       | none => Except.error PyExc.valueError
       | some (content, rest) =>
         match rest with
         | [] => Except.ok (((i + 1 + content.length : Nat) : Int))
         | d :: _ =>
           if d = ' ' then Except.ok (((i + 1 + content.length : Nat) : Int))
           else if d = '^' || d = '@' then Except.ok (((i + 1 + content.length + (rest.takeWhile (· != ' ')).length : Nat) : Int))
           else Except.error PyExc.valueError) := by
  unfold GenS.ttl_find_next_quoted_literal_ending
  rw [find_next_unescaped_quotes_eq s i fuel hq hf]
  cases hcl : Nt.closing (s.drop (i + 1)) with
  | none => rfl
  | some p =>
    obtain ⟨content, rest⟩ := p
    have hsp := ntB_closing_spec _ _ _ hcl
    obtain ⟨ic, hic⟩ : ∃ ic, i + 1 + content.length = ic := ⟨_, rfl⟩
    simp only [hic]
    have hdrop0 : s.drop ic = '"' :: rest := by
      have : ic = (i + 1) + content.length := by omega
      rw [this, ← List.drop_drop, hsp]
      simp
    have hdrop : s.drop (ic + 1) = rest := by
      rw [← List.drop_drop, hdrop0]; rfl
    have hlen : ic + 1 + rest.length = s.length := by
      have := congrArg List.length hdrop
      simp at this
      have h0 := congrArg List.length hdrop0
      simp at h0
      omega
    have e1 : ((ic : Nat) : Int) + 1 = ((ic + 1 : Nat) : Int) := by omega
    simp only [bind, Except.bind, pure, Except.pure, e1]
    cases rest with
    | nil =>
      have : ((s.length : Int) ≤ (ic : Int) + 1) := by simp at hlen; omega
      simp [this]
    | cons d t =>
      have hlt : ic + 1 < s.length := by simp at hlen; omega
      have hnot : ¬ (((ic + 1 : Nat) : Int) ≥ (s.length : Int)) := by omega
      have hd : s[ic + 1]? = some d := by
        have : (s.drop (ic + 1))[0]? = some d := by rw [hdrop]; rfl
        rw [List.getElem?_drop] at this
        simpa using this
      simp only [hnot, decide_false, Bool.false_eq_true, if_false, ntB_index_nat s (ic + 1) d hd]
      by_cases c1 : d = ' '
      · simp [c1]
      · have c1' : (d == ' ') = false := by simp [c1]
        simp only [c1', c1, Bool.false_eq_true, if_false]
        by_cases c2 : (d = '^' || d = '@') = true
        · have hcont : ("^@".toList).contains d = true := by
            simp at c2 ⊢
            exact c2
          rw [if_pos hcont, if_pos c2, tsb_blank_eq s (s.length - ic) ic rfl (by omega), hdrop0]
          have hp : (('"' : Char) != ' ') = true := by decide
          rw [List.takeWhile_cons_of_pos (p := fun x => x != ' ') hp]
          simp only [List.length_cons]
          congr 1
          omega
        · have hcont : ¬ (("^@".toList).contains d = true) := by
            simp at c2 ⊢
            exact c2
          rw [if_neg hcont, if_neg c2]
          rfl

end Shexer.GenStrTtlScan
