import ShexerModel.Lemmas.R1
import ShexerModel.Lemmas.OriginLemmas
import ShexerModel.Lemmas.CleanLemmas
import ShexerModel.Lemmas.TuneLemmas
/-! C01 part 2: from the class profile to the final shapes.  Every figure on a constraint line or in a
comment of `Shexer.run cfg g` is an entry of the class profile of the shape's class (hence, by R1,
the declarative count) — the only exception being the NONLITERAL sum. -/
namespace Shexer
namespace Shexer
open Profiler

/-- three-level well-formedness (distinct keys) of a property profile -/
def PPWF (pp : PropProfile) : Prop :=
  Dict.WF pp ∧ ∀ p ks, Dict.get? pp p = some ks →
    (Dict.WF ks ∧ ∀ ty cs, Dict.get? ks ty = some cs → Dict.WF cs)

theorem PPWF_nil : PPWF [] := ⟨Dict.WF_nil, by intro p ks h; simp at h⟩

theorem PPWF_bumpP (pp : PropProfile) (x : Tup) (h : PPWF pp) : PPWF (bumpP pp x) := by
  obtain ⟨hw, hin⟩ := h
  refine ⟨Dict.WF_upd _ _ _ hw, ?_⟩
  intro p ks hg
  unfold bumpP at hg
  rw [Dict.get?_upd] at hg
  have hold : Dict.WF ((Dict.get? pp x.1).getD []) ∧
      ∀ ty cs, Dict.get? ((Dict.get? pp x.1).getD []) ty = some cs → Dict.WF cs := by
    cases hq : Dict.get? pp x.1 with
    | none => exact ⟨Dict.WF_nil, by intro ty cs h; simp at h⟩
    | some ks0 => exact hin _ _ hq
  by_cases hp : x.1 = p
  · rw [if_pos hp] at hg
    simp only [Option.some.injEq] at hg
    subst hg
    refine ⟨Dict.WF_upd _ _ _ hold.1, ?_⟩
    intro ty cs hg2
    rw [Dict.get?_upd] at hg2
    by_cases ht : x.2.1 = ty
    · rw [if_pos ht] at hg2
      simp only [Option.some.injEq] at hg2
      subst hg2
      apply Dict.WF_upd
      cases hq2 : Dict.get? ((Dict.get? pp x.1).getD []) x.2.1 with
      | none => exact Dict.WF_nil
      | some cs0 => exact hold.2 _ _ hq2
    · rw [if_neg ht] at hg2
      exact hold.2 _ _ hg2
  · rw [if_neg hp] at hg
    exact hin p ks hg

theorem PPWF_foldl (ts : List Tup) (pp : PropProfile) (h : PPWF pp) : PPWF (ts.foldl bumpP pp) := by
  induction ts generalizing pp with
  | nil => exact h
  | cons x xs ih => exact ih _ (PPWF_bumpP pp x h)

/-- well-formedness of a class profile at all levels -/
def ProfWF (prof : Profile) : Prop :=
  Dict.WF prof ∧ ∀ cls cp, Dict.get? prof cls = some cp → PPWF cp.direct ∧ PPWF cp.inverse

theorem ProfWF_upd (prof : Profile) (c : String) (f : Option ClassProfile → ClassProfile) (h : ProfWF prof)
    (hf : PPWF (f (Dict.get? prof c)).direct ∧ PPWF (f (Dict.get? prof c)).inverse) :
    ProfWF (Dict.upd prof c f) := by
  refine ⟨Dict.WF_upd _ _ _ h.1, ?_⟩
  intro cls cp hg
  rw [Dict.get?_upd] at hg
  by_cases hc : c = cls
  · rw [if_pos hc] at hg
    simp only [Option.some.injEq] at hg
    subst hg
    exact hf
  · rw [if_neg hc] at hg
    exact h.2 cls cp hg

theorem ProfWF_getD (prof : Profile) (c : String) (h : ProfWF prof) :
    PPWF ((Dict.get? prof c).getD {}).direct ∧ PPWF ((Dict.get? prof c).getD {}).inverse := by
  cases hq : Dict.get? prof c with
  | none => exact ⟨PPWF_nil, PPWF_nil⟩
  | some cp => exact h.2 c cp hq

theorem ProfWF_addDirect (dts : List Tup) (prof : Profile) (c : String) (h : ProfWF prof) :
    ProfWF (addDirect dts prof c) := by
  unfold addDirect
  apply ProfWF_upd _ _ _ h
  have := ProfWF_getD prof c h
  exact ⟨PPWF_foldl _ _ this.1, this.2⟩

theorem ProfWF_addInverse (its : List Tup) (prof : Profile) (c : String) (h : ProfWF prof) :
    ProfWF (addInverse its prof c) := by
  unfold addInverse
  apply ProfWF_upd _ _ _ h
  have := ProfWF_getD prof c h
  exact ⟨this.1, PPWF_foldl _ _ this.2⟩

theorem ProfWF_foldl_addDirect (dts : List Tup) (cs : List String) (prof : Profile) (h : ProfWF prof) :
    ProfWF (cs.foldl (addDirect dts) prof) := by
  induction cs generalizing prof with
  | nil => exact h
  | cons c cs ih => exact ih _ (ProfWF_addDirect dts prof c h)

theorem ProfWF_foldl_addInverse (its : List Tup) (cs : List String) (prof : Profile) (h : ProfWF prof) :
    ProfWF (cs.foldl (addInverse its) prof) := by
  induction cs generalizing prof with
  | nil => exact h
  | cons c cs ih => exact ih _ (ProfWF_addInverse its prof c h)

theorem ProfWF_annotateInstance (cfg : Config) (prof : Profile) (ni : NodeInfo) (h : ProfWF prof) :
    ProfWF (annotateInstance cfg prof ni) := by
  rw [annotateInstance_eq]
  split
  · exact ProfWF_foldl_addInverse _ _ _ (ProfWF_foldl_addDirect _ _ _ h)
  · exact ProfWF_foldl_addDirect _ _ _ h

theorem WF_foldl_set {ν : Type} (l : List String) (v : ν) (d : Dict String ν) (h : Dict.WF d) :
    Dict.WF (l.foldl (fun d c => Dict.set d c v) d) := by
  induction l generalizing d with
  | nil => exact h
  | cons c cs ih => exact ih _ (Dict.WF_upd _ _ _ h)

theorem WF_foldl_setDefault {ν : Type} (l : List String) (v : ν) (d : Dict String ν) (h : Dict.WF d) :
    Dict.WF (l.foldl (fun d c => Dict.setDefault d c v) d) := by
  induction l generalizing d with
  | nil => exact h
  | cons c cs ih => exact ih _ (Dict.WF_upd _ _ _ h)

theorem WF_initProfile (cfg : Config) (inst : Tracker.InstDict) : Dict.WF (initProfile cfg inst) := by
  unfold initProfile
  have h0 : Dict.WF (seedProfile cfg) := by
    unfold seedProfile
    cases seedTargets cfg with
    | none => exact Dict.WF_nil
    | some ts => exact WF_foldl_set ts _ [] Dict.WF_nil
  generalize seedProfile cfg = p0 at h0
  induction inst generalizing p0 with
  | nil => exact h0
  | cons e es ih =>
    simp only [List.foldl_cons]
    exact ih _ (WF_foldl_setDefault e.2 _ p0 h0)

theorem ProfWF_initProfile (cfg : Config) (inst : Tracker.InstDict) : ProfWF (initProfile cfg inst) := by
  refine ⟨WF_initProfile cfg inst, ?_⟩
  intro cls cp hg
  rw [AllEmpty_initProfile cfg inst cls cp hg]
  exact ⟨PPWF_nil, PPWF_nil⟩

theorem ProfWF_build (cfg : Config) (inst : Tracker.InstDict) (d : IDict) : ProfWF (build cfg inst d) := by
  rw [build_eq]
  have h0 := ProfWF_initProfile cfg inst
  generalize initProfile cfg inst = p0 at h0
  induction d generalizing p0 with
  | nil => exact h0
  | cons e es ih =>
    simp only [List.foldl_cons]
    exact ih _ (ProfWF_annotateInstance cfg p0 e.2 h0)

/-- the class profile built by `Profiler.build` is well-formed at every level -/
theorem build_WF (cfg : Config) (inst : Tracker.InstDict) (d : IDict) :
    Dict.WF (build cfg inst d) ∧
    ∀ cls cp, Dict.get? (build cfg inst d) cls = some cp → PPWF cp.direct ∧ PPWF cp.inverse :=
  ProfWF_build cfg inst d

/-- in a well-formed property profile, a flattened entry is what the lookup returns -/
theorem entries_pget (pp : PropProfile) (h : PPWF pp) (p ty : String) (card : Card) (n : Nat)
    (hm : (p, ty, card, n) ∈ entries pp) : pget pp (p, ty, card) = n := by
  obtain ⟨hw, hin⟩ := h
  unfold entries at hm
  simp only [List.mem_flatMap, List.mem_map] at hm
  obtain ⟨⟨p', ks⟩, hpk, ⟨ty', cs⟩, htc, ⟨c, n'⟩, hcn, heq⟩ := hm
  simp only [Prod.mk.injEq] at heq
  obtain ⟨rfl, rfl, rfl, rfl⟩ := heq
  have h1 := (Dict.mem_iff_get? pp hw _ _).mp hpk
  obtain ⟨hwk, hin2⟩ := hin _ _ h1
  have h2 := (Dict.mem_iff_get? ks hwk _ _).mp htc
  have h3 := (Dict.mem_iff_get? cs (hin2 _ _ h2) _ _).mp hcn
  simp [pget, h1, h2, h3]

theorem mergeGroup_inverse (cfg : Config) (g : List Stmt) (inv : Bool) (hg : g ≠ [])
    (h : ∀ y ∈ g, y.inverse = inv) : (mergeGroup cfg g).inverse = inv := by
  rw [mergeGroup_eq]
  have hb : ∀ b, (g.filter fun s => s.ty == Gen.BNODE_ELEM_TYPE).getLast? = some b → b ∈ g ∧ b.ty = Gen.BNODE_ELEM_TYPE := by
    intro b h
    have := List.mem_filter.mp (List.mem_of_getLast? h)
    exact ⟨this.1, by simpa using this.2⟩
  have hi : ∀ i, (g.filter fun s => s.ty == Gen.IRI_ELEM_TYPE).getLast? = some i → i ∈ g ∧ i.ty = Gen.IRI_ELEM_TYPE := by
    intro b h
    have := List.mem_filter.mp (List.mem_of_getLast? h)
    exact ⟨this.1, by simpa using this.2⟩
  have hs : ∀ s ∈ sortDesc (g.filter fun s => isShapeType s.ty), s ∈ g := by
    intro s h
    exact (List.mem_filter.mp ((mem_sortDesc _ s).mp h)).1
  have hgs : (sortDesc g).headD default ∈ g := by
    have := sortDesc_ne_nil g hg
    rw [← mem_sortDesc]
    cases h : sortDesc g with
    | nil => exact absurd h this
    | cons a t => simp
  have hd := domOf_spec g (sortDesc g) _ _ _ hb hi hs hgs
  simp only []
  generalize domOf (sortDesc g) _ _ _ = dom at hd ⊢
  obtain ⟨d0, isS⟩ := dom
  simp only [] at hd ⊢
  have hd0 : d0.inverse = inv := by
    rcases hd with h' | ⟨b, hb', i, _, _, _, rfl⟩
    · exact h d0 h'
    · exact h b hb'
  have ht := tuneOr_spec cfg (sortDesc (g.filter fun s => isShapeType s.ty)) d0 isS
  generalize tuneOr cfg _ d0 isS = t at ht ⊢
  obtain ⟨d1, rep⟩ := t
  simp only [] at ht ⊢
  rcases ht with rfl | ⟨ts, rfl⟩
  · exact hd0
  · exact hd0

theorem groupNodeAux_inverse (cfg : Config) (inv : Bool) :
    ∀ (fuel : Nat) (l' : List Stmt), (∀ s ∈ l', s.inverse = inv) → ∀ s ∈ groupNodeAux cfg fuel l', s.inverse = inv := by
  intro fuel
  induction fuel with
  | zero => intro l' _ s hs; simp [groupNodeAux] at hs
  | succ fuel ih =>
    intro l' hl' s hs
    cases l' with
    | nil => simp [groupNodeAux] at hs
    | cons c cs =>
      have hcs : ∀ s ∈ cs, s.inverse = inv := fun s h => hl' s (List.mem_cons_of_mem _ h)
      simp only [groupNodeAux] at hs
      split at hs
      · rcases List.mem_cons.mp hs with rfl | hs
        · exact hl' _ (by simp)
        · exact ih cs hcs s hs
      · rcases List.mem_cons.mp hs with rfl | hs
        · split
          · exact hl' _ (by simp)
          · apply mergeGroup_inverse cfg _ inv (by simp)
            intro y hy
            rcases List.mem_cons.mp hy with rfl | hy
            · exact hl' _ (by simp)
            · exact hcs y (List.mem_filter.mp hy).1
        · exact ih _ (fun s hs => hcs s (List.mem_filter.mp hs).1) s hs

/-- the merge stages keep the direction of their input -/
theorem selectValid_inverse (cfg : Config) (l : List Stmt) (inv : Bool) (hl : ∀ s ∈ l, Base s ∧ s.inverse = inv)
    (s : Stmt) (hs : s ∈ selectValid cfg l) : s.inverse = inv := by
  refine groupNodeAux_inverse cfg inv _ _ ?_ s hs
  intro y hy
  obtain ⟨_, _, ⟨c, hc, _, _, _, _, hci⟩, _⟩ := groupSame_inv cfg l (fun s hs => (hl s hs).1) y hy
  rw [← hci]
  exact (hl c hc).2

/-- candidates of one direction of a (sorted) base shape -/
def candsOf (b : Shape) (inv : Bool) : List Stmt := (sortDesc b.stmts).filter fun s => s.inverse == inv

theorem filter_not_inverse (l : List Stmt) :
    (l.filter fun s => !s.inverse) = l.filter fun s => s.inverse == false := by
  congr 1; funext s; cases s.inverse <;> rfl

theorem filter_inverse (l : List Stmt) :
    (l.filter fun s => s.inverse) = l.filter fun s => s.inverse == true := by
  congr 1; funext s; cases s.inverse <;> rfl

/-- a final shape is a sub-shape of `setValid` of a sorted base shape -/
theorem run_shape_origin (cfg : Config) (g : Graph) (sh : Shape) (hsh : sh ∈ Shexer.run cfg g) (s : Stmt) (hs : s ∈ sh.stmts) :
    ∃ b ∈ baseShapes cfg (Profiler.run cfg g),
      (sh.name = b.name ∧ sh.classUri = b.classUri ∧ sh.nInstances = b.nInstances) ∧
      ∃ s' ∈ validOf cfg { b with stmts := sortDesc b.stmts }, s = tuneOne cfg b.nInstances s' := by
  simp only [Shexer.run, shexClasses] at hsh
  obtain ⟨sh0, hsh0, hsub⟩ := cleanEmpty_sub cfg _ sh hsh
  simp only [List.mem_map] at hsh0
  obtain ⟨b', ⟨b, hb, rfl⟩, rfl⟩ := hsh0
  obtain ⟨hn, hc, hN, hst⟩ := hsub
  have hs0 := hst s hs
  rw [setValid_eq] at hs0 hn hc hN
  simp only [tune_eq_map, List.mem_map, mem_sortDesc] at hs0
  obtain ⟨s', hs', rfl⟩ := hs0
  exact ⟨b, hb, ⟨hn, hc, hN⟩, s', hs', rfl⟩

/-- **provenance of every final statement**: it is `tuneOne` of a statement that the merge stages
produced from the candidates of one direction of the base shape with the same header -/
theorem run_stmt_origin (cfg : Config) (g : Graph) (sh : Shape) (hsh : sh ∈ Shexer.run cfg g) (s : Stmt) (hs : s ∈ sh.stmts) :
    ∃ b ∈ baseShapes cfg (Profiler.run cfg g),
      b.name = sh.name ∧ b.classUri = sh.classUri ∧ b.nInstances = sh.nInstances ∧
      ∃ inv : Bool, (inv = true → cfg.inverse = true) ∧
        ∃ s' ∈ selectValid cfg (candsOf b inv), s = tuneOne cfg b.nInstances s' := by
  obtain ⟨b, hb, hsub, s', hs', hs0⟩ := run_shape_origin cfg g sh hsh s hs
  obtain ⟨hn, hc, hN⟩ := hsub
  refine ⟨b, hb, hn.symm, hc.symm, hN.symm, ?_⟩
  unfold validOf at hs'
  simp only [filter_not_inverse, filter_inverse] at hs'
  by_cases hi : cfg.inverse = true
  · rw [if_pos hi] at hs'
    rcases List.mem_append.mp hs' with h | h
    · exact ⟨false, by simp, s', h, hs0⟩
    · exact ⟨true, fun _ => hi, s', h, hs0⟩
  · rw [if_neg hi] at hs'
    exact ⟨false, by simp, s', hs', hs0⟩

theorem mem_baseShapes (cfg : Config) (r : Profiler.Result) (b : Shape) (hb : b ∈ baseShapes cfg r) :
    ∃ cls cp, (cls, cp) ∈ r.profile ∧ b.classUri = cls ∧ b.name = shapeName cls cfg.shapesNs ∧
      b.nInstances = cget r.counts cls ∧
      b.stmts = candidates cfg b.nInstances false cp.direct ++
        (if cfg.inverse then candidates cfg b.nInstances true cp.inverse else []) := by
  unfold baseShapes at hb
  rw [List.mem_map] at hb
  obtain ⟨⟨cls, cp⟩, hm, rfl⟩ := hb
  exact ⟨cls, cp, hm, rfl, rfl, rfl, rfl⟩

/-! ### `Dict.erase` and the type-erasing `clean` -/

theorem erase_sublist {ν : Type} (d : Dict String ν) (k : String) : (Dict.erase d k).Sublist d := by
  induction d with
  | nil => exact List.Sublist.refl _
  | cons hd tl ih =>
    obtain ⟨k', v⟩ := hd
    by_cases h : k' = k
    · simp only [Dict.erase, h, if_true]
      exact List.sublist_cons_self _ _
    · simp only [Dict.erase, h, if_false]
      exact List.Sublist.cons_cons _ ih

theorem foldl_erase_sublist {ν : Type} (names : List String) (d : Dict String ν) :
    (names.foldl (fun d nm => Dict.erase d nm) d).Sublist d := by
  induction names generalizing d with
  | nil => exact List.Sublist.refl _
  | cons nm nms ih =>
    simp only [List.foldl_cons]
    exact (ih _).trans (erase_sublist d nm)

/-- every entry of `Dict.erase d k` is an entry of `d` -/
theorem mem_erase {ν : Type} (d : Dict String ν) (k : String) (x : String × ν)
    (h : x ∈ Dict.erase d k) : x ∈ d := (erase_sublist d k).subset h

theorem mem_foldl_erase {ν : Type} (names : List String) (d : Dict String ν) (x : String × ν)
    (h : x ∈ names.foldl (fun d nm => Dict.erase d nm) d) : x ∈ d := (foldl_erase_sublist names d).subset h

theorem WF_of_sublist {ν : Type} (d' d : Dict String ν) (hs : d'.Sublist d) (h : Dict.WF d) : Dict.WF d' := by
  unfold Dict.WF Dict.keys at *
  exact List.Nodup.sublist (List.Sublist.map _ hs) h

theorem WF_erase {ν : Type} (d : Dict String ν) (k : String) (h : Dict.WF d) : Dict.WF (Dict.erase d k) :=
  WF_of_sublist _ _ (erase_sublist d k) h

theorem WF_foldl_erase {ν : Type} (names : List String) (d : Dict String ν) (h : Dict.WF d) :
    Dict.WF (names.foldl (fun d nm => Dict.erase d nm) d) :=
  WF_of_sublist _ _ (foldl_erase_sublist names d) h

/-- under `WF`, erasing removes exactly the key -/
theorem get?_erase {ν : Type} (d : Dict String ν) (h : Dict.WF d) (k k' : String) :
    Dict.get? (Dict.erase d k) k' = if k = k' then none else Dict.get? d k' := by
  induction d with
  | nil => simp [Dict.erase]
  | cons hd tl ih =>
    obtain ⟨k0, v⟩ := hd
    obtain ⟨hn, hw⟩ := Dict.WF_cons h
    by_cases h0 : k0 = k
    · subst h0
      simp only [Dict.erase, if_true]
      by_cases h1 : k0 = k'
      · subst h1
        simp only [if_true]
        exact Dict.get?_of_not_mem _ _ hn
      · simp [Dict.get?, h1]
    · simp only [Dict.erase, h0, if_false]
      by_cases h1 : k0 = k'
      · subst h1
        have : ¬ k = k0 := fun e => h0 e.symm
        simp [Dict.get?, this]
      · simp only [Dict.get?, h1, if_false]
        exact ih hw

theorem eraseTypesPP_eq (names : List String) (pp : PropProfile) :
    eraseTypesPP names pp =
      pp.map fun (p, ks) => (p, (fun (_ : String) (ks : Dict String (Dict Card Nat)) =>
        names.foldl (fun d nm => Dict.erase d nm) ks) p ks) := rfl

/-- deleting type keys keeps a sub-collection of the flattened entries -/
theorem entries_eraseTypesPP (names : List String) (pp : PropProfile) (e : String × String × Card × Nat)
    (h : e ∈ entries (eraseTypesPP names pp)) : e ∈ entries pp := by
  unfold entries eraseTypesPP at h
  unfold entries
  simp only [List.mem_flatMap, List.mem_map] at h ⊢
  obtain ⟨⟨p', ks'⟩, ⟨⟨p, ks⟩, hpk, heq⟩, ⟨ty, cs⟩, htc, hrest⟩ := h
  simp only [Prod.mk.injEq] at heq
  obtain ⟨rfl, rfl⟩ := heq
  exact ⟨(p, ks), hpk, (ty, cs), mem_foldl_erase names ks _ htc, hrest⟩

theorem PPWF_eraseTypesPP (names : List String) (pp : PropProfile) (h : PPWF pp) :
    PPWF (eraseTypesPP names pp) := by
  obtain ⟨hw, hin⟩ := h
  rw [eraseTypesPP_eq]
  refine ⟨Dict.WF_map_snd pp (fun (_ : String) (ks : Dict String (Dict Card Nat)) =>
    names.foldl (fun d nm => Dict.erase d nm) ks) hw, ?_⟩
  intro p ks' hg
  rw [Dict.get?_map_snd pp (fun (_ : String) (ks : Dict String (Dict Card Nat)) =>
    names.foldl (fun d nm => Dict.erase d nm) ks) p] at hg
  cases hq : Dict.get? pp p with
  | none => rw [hq] at hg; simp at hg
  | some ks =>
    rw [hq] at hg
    simp only [Option.map_some, Option.some.injEq] at hg
    subst hg
    obtain ⟨hwk, hin2⟩ := hin p ks hq
    refine ⟨WF_foldl_erase names ks hwk, ?_⟩
    intro ty cs hg2
    have hm := mem_foldl_erase names ks _ (Dict.mem_of_get? _ _ _ hg2)
    exact hin2 ty cs ((Dict.mem_iff_get? ks hwk _ _).mp hm)

/-- candidates of a type-erased property profile are candidates of the original one -/
theorem candidates_eraseTypesPP (cfg : Config) (N : Nat) (inv : Bool) (names : List String) (pp : PropProfile)
    (c : Stmt) (h : c ∈ candidates cfg N inv (eraseTypesPP names pp)) : c ∈ candidates cfg N inv pp := by
  obtain ⟨e, he, hp, rfl⟩ := (mem_candidates cfg N inv _ c).mp h
  exact (mem_candidates cfg N inv pp _).mpr ⟨e, entries_eraseTypesPP names pp e he, hp, rfl⟩

/-- shape of one cleaning round, for arbitrary selection predicate and list of names -/
theorem get?_filter_map_erase (prof : Profile) (hw : Dict.WF prof) (q : String × ClassProfile → Bool)
    (names : List String) (c : String) (cp' : ClassProfile)
    (h : Dict.get? ((prof.filter q).map fun (c, cp) => (c, eraseTypes names cp)) c = some cp') :
    ∃ cp, Dict.get? prof c = some cp ∧ cp' = eraseTypes names cp := by
  rw [Dict.get?_map_snd (prof.filter q) (fun _ cp => eraseTypes names cp) c, Dict.get?_filter _ _ hw] at h
  cases hq : Dict.get? prof c with
  | none => rw [hq] at h; simp at h
  | some cp =>
    rw [hq] at h
    by_cases hf : q (c, cp) = true
    · simp [Option.filter, hf] at h
      exact ⟨cp, rfl, h.symm⟩
    · simp [Option.filter, hf] at h

/-- lookups in the cleaned profile: the class has an entry in the original profile, and the cleaned entry is
that entry, possibly with some type keys deleted -/
theorem get?_clean (cfg : Config) (prof : Profile) (hw : Dict.WF prof) (c : String) (cp' : ClassProfile)
    (h : Dict.get? (clean cfg prof) c = some cp') :
    ∃ cp, Dict.get? prof c = some cp ∧ (cp' = cp ∨ ∃ names, cp' = eraseTypes names cp) := by
  unfold clean at h
  split at h
  · simp only at h
    generalize (List.map _ (List.filter _ prof) : List String) = names at h
    obtain ⟨cp, h1, h2⟩ := get?_filter_map_erase prof hw _ names c cp' h
    exact ⟨cp, h1, Or.inr ⟨names, h2⟩⟩
  · exact ⟨cp', h, Or.inl rfl⟩

theorem WF_clean (cfg : Config) (prof : Profile) (hw : Dict.WF prof) : Dict.WF (clean cfg prof) := by
  unfold clean
  split
  · simp only
    generalize (List.map _ (List.filter _ prof) : List String) = names
    exact Dict.WF_map_snd (prof.filter _) (fun _ cp => eraseTypes names cp) (Dict.WF_filter _ _ hw)
  · exact hw

/-- an entry of the cleaned profile comes from an entry of the built profile of the same class, possibly with
some type keys deleted -/
theorem get?_build_of_mem_run (cfg : Config) (g : Graph) (cls : String) (cp' : ClassProfile)
    (h : (cls, cp') ∈ (Profiler.run cfg g).profile) :
    ∃ cp, Dict.get? (build cfg (Tracker.track cfg g) (pass2 cfg (Tracker.track cfg g) g)) cls = some cp ∧
      (cp' = cp ∨ ∃ names, cp' = eraseTypes names cp) := by
  have hw := (build_WF cfg (Tracker.track cfg g) (pass2 cfg (Tracker.track cfg g) g)).1
  apply get?_clean cfg _ hw cls cp'
  exact (Dict.mem_iff_get? _ (WF_clean cfg _ hw) _ _).mp h

/-- candidates built from the cleaned entry are candidates built from the original entry -/
theorem candidates_of_cleaned (cfg : Config) (N : Nat) (inv : Bool) (cp cp' : ClassProfile)
    (h : cp' = cp ∨ ∃ names, cp' = eraseTypes names cp) (c : Stmt)
    (hcm : c ∈ candidates cfg N inv (if inv then cp'.inverse else cp'.direct)) :
    c ∈ candidates cfg N inv (if inv then cp.inverse else cp.direct) := by
  rcases h with rfl | ⟨names, rfl⟩
  · exact hcm
  · cases inv
    · exact candidates_eraseTypesPP cfg N false names cp.direct c hcm
    · exact candidates_eraseTypesPP cfg N true names cp.inverse c hcm

/-- the figure of a candidate is the declarative count -/
theorem cand_count (cfg : Config) (hc : cfg.cap = 0) (g : Graph)
    (hnd : ∀ n, (Spec.classesIn (Tracker.track cfg g) n).Nodup)
    (cls : String) (cp : ClassProfile)
    (hget : Dict.get? (build cfg (Tracker.track cfg g) (pass2 cfg (Tracker.track cfg g) g)) cls = some cp)
    (N : Nat) (inv : Bool) (hinv : inv = true → cfg.inverse = true) (c : Stmt)
    (hcm : c ∈ candidates cfg N inv (if inv then cp.inverse else cp.direct)) :
    c.n = Spec.countOver cfg (Tracker.track cfg g) g cls inv c.prop c.ty c.card := by
  obtain ⟨e, he, _, rfl⟩ := (mem_candidates cfg N inv _ c).mp hcm
  have hpp : PPWF (if inv then cp.inverse else cp.direct) := by
    have := (build_WF _ _ _).2 cls cp hget
    cases inv
    · exact this.1
    · exact this.2
  have h1 := entries_pget _ hpp e.1 e.2.1 e.2.2.1 e.2.2.2 he
  have hx := Profiler.profile_exact cfg (Tracker.track cfg g) (Tracker.WF_track cfg hc g) g hnd cls inv
    e.1 e.2.1 e.2.2.1 hinv
  unfold eget at hx
  rw [hget] at hx
  simp only at hx
  rw [h1] at hx
  exact hx

/-- the candidates of one direction of a base shape: `Base`, right direction, exact figure -/
theorem cand_figure (cfg : Config) (hc : cfg.cap = 0) (g : Graph)
    (hnd : ∀ n, (Spec.classesIn (Tracker.track cfg g) n).Nodup)
    (b : Shape) (hb : b ∈ baseShapes cfg (Profiler.run cfg g)) (inv : Bool) (hinv : inv = true → cfg.inverse = true)
    (c : Stmt) (hcm : c ∈ candsOf b inv) :
    c.n = Spec.countOver cfg (Tracker.track cfg g) g b.classUri inv c.prop c.ty c.card := by
  obtain ⟨cls, cp', hm, hcls, _, _, hst⟩ := mem_baseShapes cfg _ b hb
  obtain ⟨cp, hget, hrel⟩ := get?_build_of_mem_run cfg g cls cp' hm
  unfold candsOf at hcm
  rw [List.mem_filter, mem_sortDesc, hst] at hcm
  obtain ⟨hmem, hci⟩ := hcm
  have hci : c.inverse = inv := by simpa using hci
  rw [hcls]
  apply cand_count cfg hc g hnd cls cp hget b.nInstances inv hinv
  apply candidates_of_cleaned cfg b.nInstances inv cp cp' hrel
  rcases List.mem_append.mp hmem with h | h
  · have := (candidate_props cfg _ _ _ c h).2.2.2.1
    rw [hci] at this
    subst this
    exact h
  · split at h
    · have := (candidate_props cfg _ _ _ c h).2.2.2.1
      rw [hci] at this
      subst this
      exact h
    · simp at h

/-- every statement of a base shape is `Base` -/
theorem candsOf_base (cfg : Config) (r : Profiler.Result) (b : Shape) (hb : b ∈ baseShapes cfg r) (inv : Bool)
    (c : Stmt) (hcm : c ∈ candsOf b inv) : Base c ∧ c.inverse = inv := by
  obtain ⟨cls, cp, _, _, _, _, hst⟩ := mem_baseShapes cfg _ b hb
  unfold candsOf at hcm
  rw [List.mem_filter, mem_sortDesc, hst] at hcm
  obtain ⟨hmem, hci⟩ := hcm
  refine ⟨?_, by simpa using hci⟩
  have key : ∀ iv pp, c ∈ candidates cfg b.nInstances iv pp → Base c := by
    intro iv pp h
    obtain ⟨_, h1, h2, _, h4, h5⟩ := candidate_props cfg _ _ _ c h
    exact ⟨h1, h4, h2, h5⟩
  rcases List.mem_append.mp hmem with h | h
  · exact key _ _ h
  · split at h
    · exact key _ _ h
    · simp at h

theorem tuneOne_parts (cfg : Config) (N : Nat) (s : Stmt) : (tuneOne cfg N s).parts = s.parts := by
  unfold tuneOne generalize relax
  cases cfg.allCompliant <;> cases cfg.disableExact <;> cases cfg.disableComments <;> simp <;> (repeat' split) <;> simp

theorem tuneOne_card (cfg : Config) (N : Nat) (s : Stmt) :
    (tuneOne cfg N s).card = s.card ∨ (tuneOne cfg N s).card = Gen.generalize_cardinality s.card
      ∨ (tuneOne cfg N s).card = Gen.relax_cardinality cfg.allowOpt s.card
      ∨ (tuneOne cfg N s).card = Gen.generalize_cardinality (Gen.relax_cardinality cfg.allowOpt s.card) := by
  unfold tuneOne generalize relax
  cases cfg.allCompliant <;> cases cfg.disableExact <;> cases cfg.disableComments <;> simp <;> (repeat' split) <;> simp

theorem tuneOne_comments (cfg : Config) (N : Nat) (s : Stmt) :
    ∀ cm ∈ (tuneOne cfg N s).comments, cm = commentOf s ∨ cm ∈ s.comments := by
  have h1 : ∀ cm ∈ (if cfg.allCompliant then relax cfg N s else s).comments, cm = commentOf s ∨ cm ∈ s.comments := by
    intro cm h
    split at h
    · unfold relax at h
      split at h
      · simpa using h
      · exact Or.inr h
    · exact Or.inr h
  intro cm hcm
  unfold tuneOne at hcm
  simp only at hcm
  split at hcm
  · simp at hcm
  · split at hcm
    · exact h1 cm hcm
    · exact h1 cm hcm

/-- header of a final shape: its class has a profile entry and its instance count is the class count -/
theorem run_shape_header (cfg : Config) (g : Graph) (sh : Shape) (hsh : sh ∈ Shexer.run cfg g) :
    sh.name = shapeName sh.classUri cfg.shapesNs ∧
    sh.nInstances = cget (Profiler.run cfg g).counts sh.classUri ∧
    ∃ cp, Dict.get? (Profiler.run cfg g).profile sh.classUri = some cp := by
  obtain ⟨sh0, hsh0, hsub⟩ := cleanEmpty_sub cfg _ sh (by simpa only [Shexer.run, shexClasses] using hsh)
  simp only [List.mem_map] at hsh0
  obtain ⟨b', ⟨b, hb, rfl⟩, rfl⟩ := hsh0
  obtain ⟨hn, hc, hN, _⟩ := hsub
  rw [setValid_eq] at hn hc hN
  simp only at hn hc hN
  obtain ⟨cls, cp, hm, hcls, hname, hcnt, _⟩ := mem_baseShapes cfg _ b hb
  rw [hn, hc, hN, hcls]
  refine ⟨hname, hcnt, ?_⟩
  have hk : cls ∈ Dict.keys (Profiler.run cfg g).profile := List.mem_map_of_mem (f := Prod.fst) hm
  have := (Dict.get?_isSome_iff_mem_keys _ cls).mpr hk
  cases hq : Dict.get? (Profiler.run cfg g).profile cls with
  | none => rw [hq] at this; simp at this
  | some cp' => exact ⟨cp', rfl⟩

/-- **line figures are exact** (class targets / all classes, no cap, no node selected twice for a class):
the count carried by an ordinary final statement is the declarative count for the cardinality `card0`
the statement had before the relaxation pass, and its cardinality is `card0` possibly relaxed and/or
generalised; the shape's instance count is the number of selected nodes of the class -/
theorem line_figure_exact (cfg : Config) (hc : cfg.cap = 0) (g : Graph)
    (hnd : ∀ n, (Spec.classesIn (Tracker.track cfg g) n).Nodup)
    (sh : Shape) (hsh : sh ∈ Shexer.run cfg g) (s : Stmt) (hs : s ∈ sh.stmts)
    (hp : s.parts = none) (hch : s.choice = false) :
    ∃ card0 : Card,
      s.n = Spec.countOver cfg (Tracker.track cfg g) g sh.classUri s.inverse s.prop s.ty card0
      ∧ (s.card = card0 ∨ s.card = Gen.generalize_cardinality card0
          ∨ s.card = Gen.relax_cardinality cfg.allowOpt card0
          ∨ s.card = Gen.generalize_cardinality (Gen.relax_cardinality cfg.allowOpt card0))
      ∧ sh.nInstances = Spec.classSize (Tracker.track cfg g) sh.classUri := by
  obtain ⟨b, hb, _, hcls, _, inv, hinv, s', hs', rfl⟩ := run_stmt_origin cfg g sh hsh s hs
  obtain ⟨hprop, htypes, hinvs, hn, hchoice⟩ := tuneOne_skeleton cfg b.nInstances s'
  have hbase := candsOf_base cfg _ b hb inv
  rw [tuneOne_parts] at hp
  rw [hchoice] at hch
  obtain ⟨c, hcm, hcp, hct, hcc, hcn, hci⟩ :=
    selectValid_line cfg _ (fun x hx => (hbase x hx).1) s' hs' hp hch
  have hfig := cand_figure cfg hc g hnd b hb inv hinv c hcm
  have hty : (tuneOne cfg b.nInstances s').ty = c.ty := by
    unfold Stmt.ty; rw [htypes, hct]
  refine ⟨s'.card, ?_, tuneOne_card cfg b.nInstances s', ?_⟩
  · rw [hn, hinvs, hprop, hty, ← hcn, ← hci, (hbase c hcm).2, ← hcp, ← hcc, ← hcls]
    exact hfig
  · obtain ⟨_, hcnt, _⟩ := run_shape_header cfg g sh hsh
    rw [hcnt]
    exact Profiler.count_exact cfg (Tracker.track cfg g) (Tracker.WF_track cfg hc g) hnd sh.classUri

/-- **comment figures are exact**: every comment that names a type other than NONLITERAL carries the
declarative count for its own type and cardinality -/
theorem comment_figure_exact (cfg : Config) (hc : cfg.cap = 0) (g : Graph)
    (hnd : ∀ n, (Spec.classesIn (Tracker.track cfg g) n).Nodup)
    (sh : Shape) (hsh : sh ∈ Shexer.run cfg g) (s : Stmt) (hs : s ∈ sh.stmts)
    (cm : Comment) (hcm : cm ∈ s.comments) (ty : String) (hty : cm.ty = some ty) (hnl : ty ≠ Gen.NONLITERAL_ELEM_TYPE) :
    cm.n = Spec.countOver cfg (Tracker.track cfg g) g sh.classUri s.inverse s.prop ty cm.card := by
  obtain ⟨b, hb, _, hcls, _, inv, hinv, s', hs', rfl⟩ := run_stmt_origin cfg g sh hsh s hs
  obtain ⟨hprop, htypes, hinvs, hn, hchoice⟩ := tuneOne_skeleton cfg b.nInstances s'
  have hbase := candsOf_base cfg _ b hb inv
  have hs'inv : s'.inverse = inv := selectValid_inverse cfg _ inv hbase s' hs'
  rw [hinvs, hprop, hs'inv, ← hcls]
  -- every comment is the figure of a candidate `c` of the same property
  have key : ∃ c ∈ candsOf b inv, c.prop = s'.prop ∧ cm.n = c.n ∧ cm.card = c.card ∧ ty = c.ty := by
    rcases tuneOne_comments cfg b.nInstances s' cm hcm with h | h
    · -- the comment written by the relaxation pass
      subst h
      have hch : s'.choice = false := by
        cases hq : s'.choice with
        | false => rfl
        | true => simp [commentOf, hq] at hty
      have hty' : ty = s'.ty := by
        simp [commentOf, hch] at hty; exact hty.symm
      have hp : s'.parts = none := by
        cases hq : s'.parts with
        | none => rfl
        | some pr =>
          obtain ⟨nb, ni⟩ := pr
          obtain ⟨_, _, _, _, _, _, _, _, _, _, _, hx⟩ :=
            selectValid_parts cfg _ (fun x hx => (hbase x hx).1) s' hs' nb ni hq
          have := (hx hch).1
          exfalso
          apply hnl
          rw [hty']
          unfold Stmt.ty
          rw [this]
          rfl
      obtain ⟨c, hc', hcp, hct, hcc, hcn, _⟩ :=
        selectValid_line cfg _ (fun x hx => (hbase x hx).1) s' hs' hp hch
      refine ⟨c, hc', hcp, hcn.symm, hcc.symm, ?_⟩
      rw [hty']; unfold Stmt.ty; rw [hct]
    · obtain ⟨c, hc', hcp, rfl⟩ :=
        selectValid_comments cfg _ (fun x hx => (hbase x hx).1) s' hs' cm h
      have hcch : c.choice = false := (hbase c hc').1.2.2.1
      refine ⟨c, hc', hcp, rfl, rfl, ?_⟩
      simp [commentOf, hcch] at hty
      exact hty.symm
  obtain ⟨c, hc', hcp, hcn, hcc, hct⟩ := key
  rw [hcn, hcc, hct, ← hcp]
  exact cand_figure cfg hc g hnd b hb inv hinv c hc'

end Shexer
end Shexer
