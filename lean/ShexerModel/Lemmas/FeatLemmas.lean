import ShexerModel.Lemmas.DictLemmas
import ShexerModel.Model.Profiler
/-! Per-node feature dictionaries (`prop ↦ type ↦ count`): lookups after `bump` / `bumpAll`,
well-formedness and positivity invariants. -/
namespace Shexer
namespace Profiler
open Dict

/-- `f[p][ty]` if present -/
def fget? (f : Feat) (p ty : String) : Option Nat :=
  match Dict.get? f p with
  | none => none
  | some ks => Dict.get? ks ty

/-- number stored for `(p, ty)`, 0 when absent -/
def fget (f : Feat) (p ty : String) : Nat := (fget? f p ty).getD 0

/-- both levels have distinct keys and every stored count is positive -/
structure FeatOK (f : Feat) : Prop where
  wf : Dict.WF f
  wf2 : ∀ p ks, Dict.get? f p = some ks → Dict.WF ks
  pos : ∀ p ty, fget? f p ty ≠ some 0

theorem FeatOK_nil : FeatOK ([] : Feat) :=
  ⟨Dict.WF_nil, by intro p ks h; simp at h, by intro p ty; simp [fget?]⟩

theorem fget?_bump (f : Feat) (p ty p' ty' : String) :
    fget? (bump f p ty) p' ty' =
      if p = p' ∧ ty = ty' then some ((fget? f p ty).getD 0 + 1) else fget? f p' ty' := by
  unfold fget? bump
  rw [Dict.get?_upd]
  by_cases hp : p = p'
  · subst hp
    simp only [if_true, true_and]
    rw [Dict.get?_upd]
    by_cases ht : ty = ty'
    · subst ht
      cases h : Dict.get? f p <;> simp
    · cases h : Dict.get? f p <;> simp [ht]
  · simp [hp]

theorem fget_bump (f : Feat) (p ty p' ty' : String) :
    fget (bump f p ty) p' ty' = fget f p' ty' + (if p = p' ∧ ty = ty' then 1 else 0) := by
  unfold fget
  rw [fget?_bump]
  by_cases h : p = p' ∧ ty = ty'
  · obtain ⟨rfl, rfl⟩ := h; simp
  · simp [h]

theorem FeatOK_bump (f : Feat) (p ty : String) (h : FeatOK f) : FeatOK (bump f p ty) := by
  refine ⟨?_, ?_, ?_⟩
  · exact Dict.WF_upd _ _ _ h.wf
  · intro p' ks hk
    unfold bump at hk
    rw [Dict.get?_upd] at hk
    by_cases hp : p = p'
    · subst hp
      simp only [if_true, Option.some.injEq] at hk
      subst hk
      apply Dict.WF_upd
      cases hg : Dict.get? f p with
      | none => exact Dict.WF_nil
      | some ks0 => exact h.wf2 p ks0 hg
    · simp only [hp, if_false] at hk
      exact h.wf2 p' ks hk
  · intro p' ty'
    rw [fget?_bump]
    by_cases hc : p = p' ∧ ty = ty'
    · simp [hc]
    · simp only [hc, if_false]
      exact h.pos p' ty'

theorem fget_bumpAll (f : Feat) (p : String) (tys : List String) (p' ty' : String) :
    fget (bumpAll f p tys) p' ty' = fget f p' ty' + (if p = p' then tys.count ty' else 0) := by
  unfold bumpAll
  induction tys generalizing f with
  | nil => simp
  | cons t ts ih =>
    simp only [List.foldl_cons]
    rw [ih, fget_bump]
    by_cases hp : p = p'
    · by_cases ht : t = ty'
      · subst hp ht; simp; omega
      · subst hp; simp [ht, List.count_cons]
    · simp [hp]

theorem FeatOK_bumpAll (f : Feat) (p : String) (tys : List String) (h : FeatOK f) : FeatOK (bumpAll f p tys) := by
  unfold bumpAll
  induction tys generalizing f with
  | nil => exact h
  | cons t ts ih => exact ih _ (FeatOK_bump f p t h)

/-- with positivity, the optional lookup is determined by the number -/
theorem fget?_eq_of_OK (f : Feat) (h : FeatOK f) (p ty : String) :
    fget? f p ty = if fget f p ty = 0 then none else some (fget f p ty) := by
  unfold fget
  cases hg : fget? f p ty with
  | none => simp
  | some k =>
    have := h.pos p ty
    rw [hg] at this
    have hk : k ≠ 0 := fun hk => this (by rw [hk])
    simp [hk]

end Profiler
end Shexer
