import ShexerModel.Lemmas.BuildLemmas
import ShexerModel.Spec.Counts
/-! How often a `(property, type, cardinality)` tuple occurs among the tuples of one instance. -/
namespace Shexer
namespace Profiler
open Dict

theorem sum_map_dict_key {ν : Type} (d : Dict String ν) (hw : Dict.WF d) (k0 : String) (F : String → ν → Nat)
    (hF : ∀ k v, k ≠ k0 → F k v = 0) :
    (d.map fun e => F e.1 e.2).sum = match Dict.get? d k0 with | some v => F k0 v | none => 0 := by
  induction d with
  | nil => rfl
  | cons hd tl ih =>
    obtain ⟨k, v⟩ := hd
    obtain ⟨hn, hw'⟩ := Dict.WF_cons hw
    simp only [List.map_cons, List.sum_cons]
    rw [ih hw']
    by_cases hk : k = k0
    · subst hk
      simp [Dict.get?, Dict.get?_of_not_mem tl k hn]
    · simp [Dict.get?, hk, hF k v hk]

theorem count_validCards_map (cfg : Config) (p ty : String) (k : Nat) (p' ty' : String) (card : Card) :
    ((validCards cfg p k).map fun c => ((p, ty, c) : Tup)).count (p', ty', card) =
      if p = p' ∧ ty = ty' then (validCards cfg p k).count card else 0 := by
  by_cases h : p = p' ∧ ty = ty'
  · obtain ⟨rfl, rfl⟩ := h
    simp only [and_self, if_true]
    induction (validCards cfg p k) with
    | nil => rfl
    | cons c cs ih =>
      simp only [List.map_cons, List.count_cons, ih]
      by_cases hc : c = card <;> simp [hc]
  · rw [if_neg h]
    apply List.count_eq_zero_of_not_mem
    intro hm
    simp only [List.mem_map, Prod.mk.injEq] at hm
    obtain ⟨c, _, h1, h2, _⟩ := hm
    exact h ⟨h1, h2⟩

theorem count_tuples (cfg : Config) (f : Feat) (h : FeatOK f) (p ty : String) (card : Card) :
    (tuples cfg f).count ((p, ty, card) : Tup) =
      if fget f p ty = 0 then 0 else (validCards cfg p (fget f p ty)).count card := by
  unfold tuples
  rw [List.count_flatMap]
  have h1 := sum_map_dict_key f h.wf p
    (fun p' ks => (ks.flatMap fun (e : String × Nat) => (validCards cfg p' e.2).map fun c => ((p', e.1, c) : Tup)).count (p, ty, card))
    (by
      intro p' ks hne
      apply List.count_eq_zero_of_not_mem
      intro hm
      simp only [List.mem_flatMap, List.mem_map, Prod.mk.injEq] at hm
      obtain ⟨_, _, _, _, h1, _⟩ := hm
      exact hne h1)
  simp only [Function.comp_def] at *
  rw [h1]
  cases hg : Dict.get? f p with
  | none => simp [fget, fget?, hg]
  | some ks =>
    simp only
    rw [List.count_flatMap]
    have h2 := sum_map_dict_key ks (h.wf2 p ks hg) ty
      (fun ty' k => ((validCards cfg p k).map fun c => ((p, ty', c) : Tup)).count (p, ty, card))
      (by
        intro ty' k hne
        rw [count_validCards_map]
        simp [hne])
    simp only [Function.comp_def] at *
    rw [h2]
    have hf : fget? f p ty = Dict.get? ks ty := by simp [fget?, hg]
    cases hk : Dict.get? ks ty with
    | none => simp [fget, hf, hk]
    | some k =>
      have hpos : k ≠ 0 := by
        intro h0
        have := h.pos p ty
        rw [hf, hk, h0] at this
        exact this rfl
      simp only [fget, hf, hk, Option.getD_some, hpos, if_false]
      rw [count_validCards_map]
      simp

/-- the contribution of a tuple in terms of the declarative cardinality test -/
theorem count_validCards (cfg : Config) (p : String) (k : Nat) (hk : k ≠ 0) (card : Card) :
    (validCards cfg p k).count card = if Spec.cardMatches cfg p card k then 1 else 0 := by
  unfold validCards Spec.cardMatches
  by_cases hp : (p == cfg.instProp) = true
  · simp only [hp, if_true]
    by_cases hc : card = Card.exact 1
    · subst hc; simp; omega
    · have : (card == Card.exact 1) = false := by simpa using hc
      simp [List.count_cons, this, hc, Ne.symm hc]
  · have hp' : (p == cfg.instProp) = false := by simpa using hp
    simp only [hp', Bool.false_eq_true, if_false]
    cases card with
    | exact j =>
      by_cases hj : j = k
      · subst hj; simp [List.count_cons]; omega
      · have : ¬ k = j := fun h => hj h.symm
        simp [List.count_cons, hj, this]
    | plus => simp [List.count_cons]; omega
    | star => simp [List.count_cons]
    | opt => simp [List.count_cons]

theorem count_tuples_spec (cfg : Config) (f : Feat) (h : FeatOK f) (p ty : String) (card : Card) :
    (tuples cfg f).count ((p, ty, card) : Tup) = if Spec.cardMatches cfg p card (fget f p ty) then 1 else 0 := by
  rw [count_tuples cfg f h]
  by_cases h0 : fget f p ty = 0
  · rw [if_pos h0, h0]
    have : Spec.cardMatches cfg p card 0 = false := by
      unfold Spec.cardMatches
      by_cases hp : (p == cfg.instProp) = true
      · simp [hp]
      · have hp' : (p == cfg.instProp) = false := by simpa using hp
        cases card <;> simp [hp']
    simp [this]
  · rw [if_neg h0, count_validCards cfg p _ h0]

end Profiler
end Shexer
