import ShexerModel.Lemmas.CleanLemmas
/-! The relaxation pass as a per-statement map, and the independence of the merge stages from the
options that only act in the relaxation pass. -/
namespace Shexer
namespace Shexer

/-- the options the merge stages read -/
def SameMergeCfg (a b : Config) : Prop :=
  a.instProp = b.instProp ∧ a.discardUseless = b.discardUseless ∧ a.keepLessSpecific = b.keepLessSpecific
  ∧ a.disableOr = b.disableOr ∧ a.allowRedundantOr = b.allowRedundantOr

theorem decideBest_congr (a b : Config) (h : SameMergeCfg a b) (g : List Stmt) : decideBest a g = decideBest b g := by
  obtain ⟨_, h2, h3, _, _⟩ := h
  unfold decideBest
  rw [h2, h3]

theorem mergeGroup_congr (a b : Config) (h : SameMergeCfg a b) (g : List Stmt) : mergeGroup a g = mergeGroup b g := by
  obtain ⟨_, _, _, h4, h5⟩ := h
  unfold mergeGroup
  rw [h4, h5]

theorem groupSameAux_congr (a b : Config) (h : SameMergeCfg a b) (fuel : Nat) (l : List Stmt) :
    groupSameAux a fuel l = groupSameAux b fuel l := by
  induction fuel generalizing l with
  | zero => rfl
  | succ fuel ih =>
    cases l with
    | nil => rfl
    | cons c cs =>
      unfold groupSameAux
      simp only [decideBest_congr a b h, ih]

theorem groupNodeAux_congr (a b : Config) (h : SameMergeCfg a b) (fuel : Nat) (l : List Stmt) :
    groupNodeAux a fuel l = groupNodeAux b fuel l := by
  induction fuel generalizing l with
  | zero => rfl
  | succ fuel ih =>
    cases l with
    | nil => rfl
    | cons c cs =>
      unfold groupNodeAux
      simp only [mergeGroup_congr a b h, ih, h.1]

theorem selectValid_congr (a b : Config) (h : SameMergeCfg a b) (l : List Stmt) : selectValid a l = selectValid b l := by
  unfold selectValid groupNode groupSame
  rw [groupSameAux_congr a b h, groupNodeAux_congr a b h]

/-- the statements handed to the relaxation pass -/
def validOf (cfg : Config) (sh : Shape) : List Stmt :=
  if cfg.inverse then selectValid cfg (sh.stmts.filter fun s => !s.inverse) ++ selectValid cfg (sh.stmts.filter fun s => s.inverse)
  else selectValid cfg (sh.stmts.filter fun s => !s.inverse)

theorem setValid_eq (cfg : Config) (sh : Shape) :
    setValid cfg sh = { sh with stmts := tune cfg sh.nInstances (validOf cfg sh) } := rfl

theorem validOf_congr (a b : Config) (h : SameMergeCfg a b) (hi : a.inverse = b.inverse) (sh : Shape) :
    validOf a sh = validOf b sh := by
  unfold validOf
  simp only [hi, selectValid_congr a b h]

/-- what the relaxation pass does to one statement -/
def tuneOne (cfg : Config) (N : Nat) (s : Stmt) : Stmt :=
  let s1 := if cfg.allCompliant then relax cfg N s else s
  let s2 := if cfg.disableExact then generalize s1 else s1
  if cfg.disableComments then { s2 with comments := [] } else s2

/-- `_tune_list_of_valid_statements` = restore the order, then rewrite every statement on its own -/
theorem tune_eq_map (cfg : Config) (N : Nat) (l : List Stmt) : tune cfg N l = (sortDesc l).map (tuneOne cfg N) := by
  unfold tune tuneOne
  cases cfg.allCompliant <;> cases cfg.disableExact <;> cases cfg.disableComments <;> simp [List.map_map, Function.comp_def]

theorem relax_ty (cfg : Config) (N : Nat) (s : Stmt) : (relax cfg N s).ty = s.ty := by
  unfold relax; split <;> rfl
theorem relax_inverse (cfg : Config) (N : Nat) (s : Stmt) : (relax cfg N s).inverse = s.inverse := by
  unfold relax; split <;> rfl
theorem relax_prop (cfg : Config) (N : Nat) (s : Stmt) : (relax cfg N s).prop = s.prop := by
  unfold relax; split <;> rfl
theorem relax_types (cfg : Config) (N : Nat) (s : Stmt) : (relax cfg N s).types = s.types := by
  unfold relax; split <;> rfl
theorem relax_n (cfg : Config) (N : Nat) (s : Stmt) : (relax cfg N s).n = s.n := by
  unfold relax; split <;> rfl

/-- the relaxation pass never touches property, types, direction or count of a statement -/
theorem tuneOne_skeleton (cfg : Config) (N : Nat) (s : Stmt) :
    (tuneOne cfg N s).prop = s.prop ∧ (tuneOne cfg N s).types = s.types ∧ (tuneOne cfg N s).inverse = s.inverse
    ∧ (tuneOne cfg N s).n = s.n ∧ (tuneOne cfg N s).choice = s.choice := by
  unfold tuneOne generalize relax
  cases cfg.allCompliant <;> cases cfg.disableExact <;> cases cfg.disableComments <;> simp <;> (repeat' split) <;> simp

end Shexer
end Shexer
