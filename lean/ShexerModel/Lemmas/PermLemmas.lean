import ShexerModel.Lemmas.R1
import ShexerModel.Lemmas.SelectionLemmas
/-! C09: the declarative counts do not depend on the order of the statements of the document. -/
namespace Shexer
namespace Spec

theorem mem_dedup (l : List String) (x : String) : x ∈ dedup l ↔ x ∈ l := by
  induction l with
  | nil => simp [dedup]
  | cons a l ih =>
    simp only [dedup, List.mem_cons, List.mem_filter, ih]
    by_cases h : x = a
    · simp [h]
    · simp [h]

theorem nodup_dedup (l : List String) : (dedup l).Nodup := by
  induction l with
  | nil => simp [dedup]
  | cons a l ih =>
    simp only [dedup, List.nodup_cons]
    refine ⟨?_, List.Nodup.sublist List.filter_sublist ih⟩
    simp [List.mem_filter]

theorem dedup_perm {l l' : List String} (h : l.Perm l') : (dedup l).Perm (dedup l') := by
  rw [List.perm_ext_iff_of_nodup (nodup_dedup l) (nodup_dedup l')]
  intro a
  rw [mem_dedup, mem_dedup]
  exact h.mem_iff

theorem selectedNodes_perm (cfg : Config) {g g' : Graph} (h : g.Perm g') :
    (selectedNodes cfg g).Perm (selectedNodes cfg g') := by
  unfold selectedNodes
  exact dedup_perm ((h.filter _).map _)

theorem classesOf_perm (cfg : Config) {g g' : Graph} (h : g.Perm g') (n : String) :
    (classesOf cfg g n).Perm (classesOf cfg g' n) := by
  unfold classesOf
  exact (h.filter _).map _

theorem get?_map_key {ν : Type} (l : List String) (f : String → ν) (k : String) :
    Dict.get? (l.map fun n => (n, f n)) k = if k ∈ l then some (f k) else none := by
  induction l with
  | nil => simp
  | cons a l ih =>
    simp only [List.map_cons, Dict.get?, ih, List.mem_cons]
    by_cases h : a = k
    · subst h; simp
    · have h' : ¬ k = a := fun e => h e.symm
      simp [h, h']

theorem classesOf_eq_nil_of_not_mem (cfg : Config) (g : Graph) (n : String)
    (h : n ∉ selectedNodes cfg g) : classesOf cfg g n = [] := by
  unfold selectedNodes at h
  rw [mem_dedup] at h
  unfold classesOf
  rw [List.map_eq_nil_iff, List.filter_eq_nil_iff]
  intro t ht hc
  simp only [Bool.and_eq_true, beq_iff_eq] at hc
  apply h
  rw [List.mem_map]
  exact ⟨t, List.mem_filter.mpr ⟨ht, hc.1⟩, hc.2⟩

theorem classesIn_selectionOf (cfg : Config) (g : Graph) (n : String) :
    classesIn (selectionOf cfg g) n = classesOf cfg g n := by
  unfold classesIn selectionOf
  rw [get?_map_key]
  by_cases h : n ∈ selectedNodes cfg g
  · simp [h]
  · simp [h, classesOf_eq_nil_of_not_mem cfg g n h]

theorem keys_selectionOf (cfg : Config) (g : Graph) :
    Dict.keys (selectionOf cfg g) = selectedNodes cfg g := by
  unfold selectionOf Dict.keys
  simp [List.map_map, Function.comp_def]

theorem shapesOfValue_perm (sel sel' : Selection) (hs : ∀ k, (classesIn sel k).Perm (classesIn sel' k))
    (k : String) : (shapesOfValue sel k).Perm (shapesOfValue sel' k) := by
  unfold shapesOfValue
  exact (hs k).map _

theorem objTypes_perm (cfg : Config) (sel sel' : Selection)
    (hs : ∀ k, (classesIn sel k).Perm (classesIn sel' k)) (p : String) (o : Term) :
    (objTypes cfg sel p o).Perm (objTypes cfg sel' p o) := by
  unfold objTypes
  simp only
  refine List.Perm.cons _ ?_
  split
  · exact shapesOfValue_perm sel sel' hs _
  · exact List.Perm.refl _

theorem subjTypes_perm (cfg : Config) (sel sel' : Selection)
    (hs : ∀ k, (classesIn sel k).Perm (classesIn sel' k)) (p : String) (s : Term) :
    (subjTypes cfg sel p s).Perm (subjTypes cfg sel' p s) := by
  unfold subjTypes
  simp only
  refine List.Perm.cons _ ?_
  split
  · exact shapesOfValue_perm sel sel' hs _
  · exact List.Perm.refl _

theorem visible_perm (cfg : Config) {g g' : Graph} (h : g.Perm g') :
    (visible cfg g).Perm (visible cfg g') := h.filter _

theorem outCount_perm (cfg : Config) (sel sel' : Selection)
    (hs : ∀ k, (classesIn sel k).Perm (classesIn sel' k)) {g g' : Graph} (h : g.Perm g')
    (n p ty : String) : outCount cfg sel g n p ty = outCount cfg sel' g' n p ty := by
  unfold outCount
  have e : (fun t : Triple => (objTypes cfg sel p t.o).count ty)
      = fun t : Triple => (objTypes cfg sel' p t.o).count ty := by
    funext t
    exact (objTypes_perm cfg sel sel' hs p t.o).count_eq ty
  rw [e]
  exact List.Perm.sum_nat ((((visible_perm cfg h).filter _).map _))

theorem inCount_perm (cfg : Config) (sel sel' : Selection)
    (hs : ∀ k, (classesIn sel k).Perm (classesIn sel' k)) {g g' : Graph} (h : g.Perm g')
    (n p ty : String) : inCount cfg sel g n p ty = inCount cfg sel' g' n p ty := by
  unfold inCount
  have e : (fun t : Triple => (subjTypes cfg sel p t.s).count ty)
      = fun t : Triple => (subjTypes cfg sel' p t.s).count ty := by
    funext t
    exact (subjTypes_perm cfg sel sel' hs p t.s).count_eq ty
  rw [e]
  exact List.Perm.sum_nat ((((visible_perm cfg h).filter _).map _))

theorem classesIn_selectionOf_perm (cfg : Config) {g g' : Graph} (h : g.Perm g') (k : String) :
    (classesIn (selectionOf cfg g) k).Perm (classesIn (selectionOf cfg g') k) := by
  rw [classesIn_selectionOf, classesIn_selectionOf]
  exact classesOf_perm cfg h k

theorem instFilter_perm (cfg : Config) {g g' : Graph} (h : g.Perm g') (c : String) :
    ((Dict.keys (selectionOf cfg g)).filter fun n => (classesIn (selectionOf cfg g) n).contains c).Perm
      ((Dict.keys (selectionOf cfg g')).filter fun n => (classesIn (selectionOf cfg g') n).contains c) := by
  have e : (fun n => (classesIn (selectionOf cfg g) n).contains c)
      = fun n => (classesIn (selectionOf cfg g') n).contains c := by
    funext n
    exact (classesIn_selectionOf_perm cfg h n).contains_eq
  rw [e, keys_selectionOf, keys_selectionOf]
  exact (selectedNodes_perm cfg h).filter _

/-- the declarative count of C01 is invariant under permutation of the document (the selection
being recomputed from the permuted document) -/
theorem countOver_perm (cfg : Config) (g g' : Graph) (h : g.Perm g') (c : String) (inv : Bool) (p ty : String) (card : Card) :
    countOver cfg (selectionOf cfg g) g c inv p ty card = countOver cfg (selectionOf cfg g') g' c inv p ty card := by
  unfold countOver
  apply (instFilter_perm cfg h c).countP_congr
  intro n _
  have hs := classesIn_selectionOf_perm cfg h
  rw [outCount_perm cfg _ _ hs h n p ty, inCount_perm cfg _ _ hs h n p ty]

/-- so is the number of selected nodes of a class -/
theorem classSize_perm (cfg : Config) (g g' : Graph) (h : g.Perm g') (c : String) :
    classSize (selectionOf cfg g) c = classSize (selectionOf cfg g') c := by
  unfold classSize
  exact (instFilter_perm cfg h c).length_eq

/-- and the "no node selected twice for a class" hypothesis is itself order-independent -/
theorem nodupClasses_perm (cfg : Config) (g g' : Graph) (h : g.Perm g')
    (hnd : ∀ n, (classesOf cfg g n).Nodup) : ∀ n, (classesOf cfg g' n).Nodup := by
  intro n
  exact (classesOf_perm cfg h n).nodup_iff.mp (hnd n)

end Spec

namespace Profiler
open Spec

/-- **C09 at the level of the profile**: every entry of the class profile (the source of every figure
sheXer prints) and every class count is the same for a document and any permutation of it -/
theorem profile_perm (cfg : Config) (hc : cfg.cap = 0) (g g' : Graph) (h : g.Perm g')
    (hnd : ∀ n, (Spec.classesOf cfg g n).Nodup)
    (c : String) (inv : Bool) (p ty : String) (card : Card) (hinv : inv = true → cfg.inverse = true) :
    eget (build cfg (Tracker.track cfg g) (pass2 cfg (Tracker.track cfg g) g)) c inv (p, ty, card)
      = eget (build cfg (Tracker.track cfg g') (pass2 cfg (Tracker.track cfg g') g')) c inv (p, ty, card)
    ∧ cget (initCounts cfg (Tracker.track cfg g)) c = cget (initCounts cfg (Tracker.track cfg g')) c := by
  have hnd' := Spec.nodupClasses_perm cfg g g' h hnd
  have h1 : ∀ n, (Spec.classesIn (Tracker.track cfg g) n).Nodup := by
    intro n
    rw [Tracker.track_eq_selectionOf cfg hc g, Spec.classesIn_selectionOf]; exact hnd n
  have h2 : ∀ n, (Spec.classesIn (Tracker.track cfg g') n).Nodup := by
    intro n
    rw [Tracker.track_eq_selectionOf cfg hc g', Spec.classesIn_selectionOf]; exact hnd' n
  constructor
  · rw [profile_exact cfg _ (Tracker.WF_track cfg hc g) g h1 c inv p ty card hinv,
      profile_exact cfg _ (Tracker.WF_track cfg hc g') g' h2 c inv p ty card hinv,
      Tracker.track_eq_selectionOf cfg hc g, Tracker.track_eq_selectionOf cfg hc g']
    exact Spec.countOver_perm cfg g g' h c inv p ty card
  · rw [count_exact cfg _ (Tracker.WF_track cfg hc g) h1 c,
      count_exact cfg _ (Tracker.WF_track cfg hc g') h2 c,
      Tracker.track_eq_selectionOf cfg hc g, Tracker.track_eq_selectionOf cfg hc g']
    exact Spec.classSize_perm cfg g g' h c

end Profiler
end Shexer
