import ShexerModel.Model.CountE
/-! The subscripted increments of the counting passes never raise `KeyError` and compute the defaulting updates of the
pipeline model. -/
namespace Shexer
namespace CountE
open Profiler

/-! ### generic facts about `Dict.upd` -/
section DictFacts
variable {κ ν : Type} [DecidableEq κ]

theorem upd_upd_same (d : Dict κ ν) (k : κ) (f g : Option ν → ν) :
    Dict.upd (Dict.upd d k f) k g = Dict.upd d k (fun o => g (some (f o))) := by
  induction d with
  | nil => simp [Dict.upd]
  | cons hd tl ih =>
    obtain ⟨k', v⟩ := hd
    by_cases h : k' = k <;> simp [Dict.upd, h, ih]

theorem upd_congr (d : Dict κ ν) (k : κ) (f g : Option ν → ν) (h : f (Dict.get? d k) = g (Dict.get? d k)) :
    Dict.upd d k f = Dict.upd d k g := by
  induction d with
  | nil => simpa [Dict.upd, Dict.get?] using h
  | cons hd tl ih =>
    obtain ⟨k', v⟩ := hd
    by_cases h1 : k' = k
    · simp [Dict.get?, h1] at h
      simp [Dict.upd, h1, h]
    · simp [Dict.get?, h1] at h
      simp [Dict.upd, h1, ih h]

theorem upd_getD_self (d : Dict κ ν) (k : κ) (v : ν) (h : Dict.contains d k = true) :
    Dict.upd d k (fun o => o.getD v) = d := by
  induction d with
  | nil => simp [Dict.contains, Dict.get?] at h
  | cons hd tl ih =>
    obtain ⟨k', w⟩ := hd
    by_cases h1 : k' = k
    · simp [Dict.upd, h1]
    · have : Dict.contains tl k = true := by simpa [Dict.contains, Dict.get?, h1] using h
      simp [Dict.upd, h1, ih this]

theorem upd_comm (d : Dict κ ν) (k1 k2 : κ) (f g : Option ν → ν) (hne : k1 ≠ k2)
    (h : Dict.contains d k1 = true) :
    Dict.upd (Dict.upd d k1 f) k2 g = Dict.upd (Dict.upd d k2 g) k1 f := by
  induction d with
  | nil => simp [Dict.contains, Dict.get?] at h
  | cons hd tl ih =>
    obtain ⟨k', w⟩ := hd
    by_cases h1 : k' = k1
    · subst h1
      simp [Dict.upd, hne]
    · have ht : Dict.contains tl k1 = true := by simpa [Dict.contains, Dict.get?, h1] using h
      by_cases h2 : k' = k2
      · subst h2
        simp [Dict.upd, h1]
      · simp [Dict.upd, h1, h2, ih ht]

theorem ite_eq_upd (d : Dict κ ν) (k : κ) (v : ν) :
    (if Dict.contains d k = true then d else Dict.set d k v) = Dict.upd d k (fun o => o.getD v) := by
  by_cases h : Dict.contains d k = true
  · rw [if_pos h, upd_getD_self d k v h]
  · rw [if_neg h]
    unfold Dict.set
    apply upd_congr
    have : Dict.get? d k = none := by
      simpa [Dict.contains] using h
    simp [this]

end DictFacts

theorem ensure_eq {ν : Type} (d : Dict String ν) (k : String) (v : ν) :
    ensure d k v = Dict.upd d k (fun o => o.getD v) := by
  unfold ensure
  exact ite_eq_upd d k v

theorem sub_ok {ν : Type} (what : String) (d : Dict String ν) (k : String) (v : ν)
    (h : Dict.get? d k = some v) : sub what d k = pure v := by
  unfold sub
  rw [h]

/-! ### one property row -/

/-- `row[k] += 1` with a default -/
def inc (r : Dict String Nat) (k : String) : Dict String Nat := Dict.upd r k (fun c => c.getD 0 + 1)
/-- `if k not in row: row[k] = 0` -/
def ens (r : Dict String Nat) (k : String) : Dict String Nat := Dict.upd r k (fun o => o.getD 0)

theorem contains_ens (r : Dict String Nat) (k k2 : String) :
    Dict.contains (ens r k) k2 = (decide (k = k2) || Dict.contains r k2) := Dict.contains_upd _ _ _ _
theorem contains_inc (r : Dict String Nat) (k k2 : String) :
    Dict.contains (inc r k) k2 = (decide (k = k2) || Dict.contains r k2) := Dict.contains_upd _ _ _ _

theorem contains_foldl_ens (L : List String) (r : Dict String Nat) (k : String) :
    Dict.contains (L.foldl ens r) k = (Dict.contains r k || decide (k ∈ L)) := by
  induction L generalizing r with
  | nil => simp
  | cons t ts ih =>
    simp only [List.foldl_cons, ih, contains_ens, List.mem_cons]
    by_cases h : t = k
    · subst h; simp
    · have h' : ¬ k = t := fun e => h e.symm
      simp [h, h']

theorem inc_ens_same (r : Dict String Nat) (t : String) : inc (ens r t) t = inc r t := by
  unfold inc ens
  rw [upd_upd_same]
  rfl

theorem inc_ens_comm (x : Dict String Nat) (s t : String) (h : Dict.contains x t = true) :
    inc (ens x s) t = ens (inc x t) s := by
  by_cases hst : s = t
  · subst hst
    rw [inc_ens_same]
    have : Dict.contains (inc x s) s = true := by simp [contains_inc]
    exact (upd_getD_self _ _ _ this).symm
  · unfold inc ens
    exact (upd_comm x t s _ _ (fun e => hst e.symm) h).symm

theorem inc_foldl_ens (ts : List String) (x : Dict String Nat) (t : String) (h : Dict.contains x t = true) :
    inc (ts.foldl ens x) t = ts.foldl ens (inc x t) := by
  induction ts generalizing x with
  | nil => rfl
  | cons s ss ih =>
    simp only [List.foldl_cons]
    rw [ih (ens x s) (by simp [contains_ens, h]), inc_ens_comm x s t h]

/-- introducing all keys first does not change the result of the increments (same order, same counts) -/
theorem foldl_inc_foldl_ens (L : List String) (r : Dict String Nat) :
    L.foldl inc (L.foldl ens r) = L.foldl inc r := by
  induction L generalizing r with
  | nil => rfl
  | cons t ts ih =>
    simp only [List.foldl_cons]
    rw [inc_foldl_ens ts (ens r t) t (by simp [contains_ens]), inc_ens_same, ih]

/-! ### the feature dictionary -/

theorem introduce_eq (f : Feat) (p ty : String) (shapes : List String) :
    introduce f p ty shapes
      = pure (Dict.set f p ((ty :: shapes).foldl ens ((Dict.get? f p).getD []))) := by
  have h : Dict.get? (ensure f p []) p = some ((Dict.get? f p).getD []) := by
    rw [ensure_eq, Dict.get?_upd_same]
  simp only [introduce, sub_ok _ _ _ _ h, pure_bind]
  congr 1
  rw [ensure_eq]
  unfold Dict.set
  rw [upd_upd_same]
  simp only [ensure_eq, List.foldl_cons]
  rfl

theorem incr_eq (F : Feat) (p k : String) (row : Dict String Nat) (h : Dict.get? F p = some row)
    (hk : Dict.contains row k = true) : incr F p k = pure (Dict.set F p (inc row k)) := by
  unfold incr
  rw [sub_ok _ _ _ _ h]
  simp only [pure_bind]
  obtain ⟨n, hn⟩ : ∃ n, Dict.get? row k = some n := by
    simpa [Dict.contains, Option.isSome_iff_exists] using hk
  rw [sub_ok _ _ _ _ hn]
  simp only [pure_bind]
  congr 2
  unfold Dict.set inc
  apply upd_congr
  simp [hn]

theorem foldlM_incr_eq (L : List String) (F : Feat) (p : String) (row : Dict String Nat)
    (h : Dict.get? F p = some row) (hk : ∀ k ∈ L, Dict.contains row k = true) :
    L.foldlM (fun acc sh => incr acc p sh) F = pure (Dict.set F p (L.foldl inc row)) := by
  induction L generalizing F row with
  | nil =>
    simp only [List.foldlM_nil, List.foldl_nil]
    congr 1
    unfold Dict.set
    have := upd_congr F p (fun _ => row) (fun o => o.getD row) (by simp [h])
    rw [this, upd_getD_self]
    simp [Dict.contains, h]
  | cons t ts ih =>
    simp only [List.foldlM_cons, List.foldl_cons]
    rw [incr_eq F p t row h (hk t (by simp)), pure_bind]
    rw [ih (Dict.set F p (inc row t)) (inc row t) (by simp [Dict.set])
      (fun k hkm => by simp [contains_inc, hk k (by simp [hkm])])]
    congr 1
    unfold Dict.set
    rw [upd_upd_same]

theorem bump_eq (f : Feat) (p k : String) :
    bump f p k = Dict.upd f p (fun o => inc (o.getD []) k) := rfl

theorem foldl_bump_upd (ts : List String) (f : Feat) (p : String) (g : Option (Dict String Nat) → Dict String Nat) :
    ts.foldl (fun f ty => bump f p ty) (Dict.upd f p g) = Dict.upd f p (fun o => ts.foldl inc (g o)) := by
  induction ts generalizing g with
  | nil => rfl
  | cons t ts ih =>
    simp only [List.foldl_cons]
    rw [bump_eq, upd_upd_same]
    rw [ih]
    rfl

theorem bumpAll_cons (f : Feat) (p t : String) (ts : List String) :
    bumpAll f p (t :: ts) = Dict.upd f p (fun o => (t :: ts).foldl inc (o.getD [])) := by
  unfold bumpAll
  simp only [List.foldl_cons]
  rw [bump_eq, foldl_bump_upd]


/-- **pass 2, one triple**: introducing the keys and then incrementing with plain subscripts never fails, and the feature
dictionary of the node is exactly `Profiler.bumpAll` (same keys, same order, same counts) — for every dictionary, property,
type and list of shapes (repetitions included) -/
theorem annotate_never_fails (f : Feat) (p ty : String) (shapes : List String) :
    annotateE f p ty shapes = .ok (bumpAll f p (ty :: shapes)) := by
  let r0 : Dict String Nat := (Dict.get? f p).getD []
  let R : Dict String Nat := (ty :: shapes).foldl ens r0
  have hget : Dict.get? (Dict.set f p R) p = some R := by simp [Dict.set]
  have hkeys : ∀ k ∈ ty :: shapes, Dict.contains R k = true := by
    intro k hk
    show Dict.contains ((ty :: shapes).foldl ens r0) k = true
    rw [contains_foldl_ens, decide_eq_true hk, Bool.or_true]
  have hfold := foldlM_incr_eq (ty :: shapes) (Dict.set f p R) p R hget hkeys
  rw [List.foldlM_cons] at hfold
  unfold annotateE
  rw [introduce_eq, pure_bind]
  refine hfold.trans ?_
  show Except.ok _ = Except.ok _
  congr 1
  rw [bumpAll_cons, foldl_inc_foldl_ens]
  unfold Dict.set
  rw [upd_upd_same]
  exact upd_congr _ _ _ _ rfl

/-- **class profile, one tuple**: never fails, equals `Profiler.bumpP` -/
theorem profileIncr_never_fails (pr : PropProfile) (x : String × String × Card) :
    profileIncrE pr x = .ok (bumpP pr x) := by
  obtain ⟨p, t, c⟩ := x
  simp only [profileIncrE, ite_eq_upd, Dict.get?_upd_same, sub_ok _ _ _ _ (Dict.get?_upd_same _ _ _), pure_bind]
  show Except.ok _ = Except.ok _
  congr 1
  unfold bumpP Dict.set
  simp only [upd_upd_same]
  apply upd_congr
  apply upd_congr
  apply upd_congr
  rfl

/-! ### the class counts -/

/-- both invariants of `init_annotated_targets` -/
def SeedsInv (s : Seeds) : Prop :=
  (∀ c ∈ s.shapes, Dict.contains s.counts c = true) ∧ (∀ c, Dict.contains s.counts c = true → c ∈ s.shapes)

theorem countClass_ok (s : Seeds) (c : String) (h : SeedsInv s) :
    ∃ s', countClassE s c = .ok s' ∧ SeedsInv s' ∧
      s'.counts = Dict.upd s.counts c (fun o => o.getD 0 + 1) := by
  obtain ⟨h1, h2⟩ := h
  by_cases hc : c ∈ s.shapes
  · have hcont := h1 c hc
    obtain ⟨n, hn⟩ : ∃ n, Dict.get? s.counts c = some n := by
      simpa [Dict.contains, Option.isSome_iff_exists] using hcont
    have hcounts : Dict.set s.counts c (n + 1) = Dict.upd s.counts c (fun o => o.getD 0 + 1) := by
      unfold Dict.set
      apply upd_congr
      simp [hn]
    refine ⟨{ s with counts := Dict.set s.counts c (n + 1) }, ?_, ⟨?_, ?_⟩, hcounts⟩
    · have hb : s.shapes.contains c = true := by simpa using hc
      simp only [countClassE, hb, if_true, sub_ok _ _ _ _ hn, pure_bind]
      rfl
    · intro c' hc'
      show Dict.contains (Dict.set s.counts c (n + 1)) c' = true
      simp [Dict.set, Dict.contains_upd, h1 c' hc']
    · intro c' hc'
      have hc'' : Dict.contains (Dict.set s.counts c (n + 1)) c' = true := hc'
      rw [Dict.set, Dict.contains_upd] at hc''
      by_cases e : c = c'
      · subst e; exact hc
      · simp [e] at hc''
        exact h2 c' hc''
  · have hnone : Dict.get? s.counts c = none := by
      have : ¬ Dict.contains s.counts c = true := fun hh => hc (h2 c hh)
      simpa [Dict.contains] using this
    have hget : Dict.get? (Dict.set s.counts c 0) c = some 0 := by simp [Dict.set]
    have hcounts : Dict.set (Dict.set s.counts c 0) c (0 + 1) = Dict.upd s.counts c (fun o => o.getD 0 + 1) := by
      unfold Dict.set
      rw [upd_upd_same]
      apply upd_congr
      simp [hnone]
    refine ⟨{ shapes := s.shapes ++ [c], counts := Dict.set (Dict.set s.counts c 0) c (0 + 1) }, ?_, ⟨?_, ?_⟩, hcounts⟩
    · have hb : s.shapes.contains c = false := by simpa using hc
      simp only [countClassE, hb, Bool.false_eq_true, if_false, sub_ok _ _ _ _ hget, pure_bind]
      rfl
    · intro c' hc'
      show Dict.contains (Dict.set (Dict.set s.counts c 0) c (0 + 1)) c' = true
      have hc'' : c' ∈ s.shapes ++ [c] := hc'
      rw [List.mem_append, List.mem_singleton] at hc''
      rcases hc'' with hm | rfl
      · simp [Dict.set, Dict.contains_upd, h1 c' hm]
      · simp [Dict.set, Dict.contains_upd]
    · intro c' hc'
      have hc'' : Dict.contains (Dict.set (Dict.set s.counts c 0) c (0 + 1)) c' = true := hc'
      show c' ∈ s.shapes ++ [c]
      simp only [Dict.set, Dict.contains_upd] at hc''
      by_cases e : c = c'
      · subst e; simp
      · simp [e] at hc''
        exact List.mem_append_left _ (h2 c' hc'')

theorem countClasses_ok (cs : List String) (s : Seeds) (h : SeedsInv s) :
    ∃ s', cs.foldlM countClassE s = .ok s' ∧ SeedsInv s' ∧
      s'.counts = cs.foldl (fun d c => Dict.upd d c fun o => o.getD 0 + 1) s.counts := by
  induction cs generalizing s with
  | nil => exact ⟨s, rfl, h, rfl⟩
  | cons c cs ih =>
    obtain ⟨s1, e1, i1, c1⟩ := countClass_ok s c h
    obtain ⟨s2, e2, i2, c2⟩ := ih s1 i1
    refine ⟨s2, ?_, i2, ?_⟩
    · rw [List.foldlM_cons, e1]
      exact e2
    · rw [c2, c1]
      rfl

theorem countAll_ok (inst : Tracker.InstDict) (s : Seeds) (h : SeedsInv s) :
    ∃ s', countAllE s inst = .ok s' ∧ SeedsInv s' ∧
      s'.counts = inst.foldl (fun d e => e.2.foldl (fun d c => Dict.upd d c fun o => o.getD 0 + 1) d) s.counts := by
  unfold countAllE
  induction inst generalizing s with
  | nil => exact ⟨s, rfl, h, rfl⟩
  | cons e es ih =>
    obtain ⟨s1, e1, i1, c1⟩ := countClasses_ok e.2 s h
    obtain ⟨s2, e2, i2, c2⟩ := ih s1 i1
    refine ⟨s2, ?_, i2, ?_⟩
    · rw [List.foldlM_cons, e1]
      exact e2
    · rw [c2, c1]
      rfl

/-- **class counts**: as long as every class known to the shapes dictionary has a counter (which `init_original_targets`
and this very function establish), the increment never fails, the invariant is kept, and the counters are those of
`Profiler.initCounts`'s fold -/
theorem countAll_never_fails (s : Seeds) (inst : Tracker.InstDict)
    (hinv : ∀ c ∈ s.shapes, Dict.contains s.counts c = true) (hinv2 : ∀ c, Dict.contains s.counts c = true → c ∈ s.shapes) :
    ∃ s', countAllE s inst = .ok s' ∧ (∀ c ∈ s'.shapes, Dict.contains s'.counts c = true) ∧
      (∀ c, Dict.contains s'.counts c = true → c ∈ s'.shapes) ∧
      s'.counts = inst.foldl (fun d e => e.2.foldl (fun d c => Dict.upd d c fun o => o.getD 0 + 1) d) s.counts := by
  obtain ⟨s', e, ⟨i1, i2⟩, c⟩ := countAll_ok inst s ⟨hinv, hinv2⟩
  exact ⟨s', e, i1, i2, c⟩

end CountE
end Shexer
