import ShexerModel.Model.Shexer
import ShexerModel.Lemmas.SortLemmas
/-! helper lemmas about the figure of the merged `NONLITERAL` statement (`Props/C12.lean`) -/
namespace Shexer.MergeFigLemmas
open Shexer Shexer.Shexer

theorem getLast?_filter_mem {α} (p : α → Bool) (l : List α) (x : α)
    (h : (l.filter p).getLast? = some x) : x ∈ l ∧ p x = true := by
  have := List.mem_of_getLast? h
  exact List.mem_filter.mp this

theorem nonliteral_figure_is_the_sum (cfg : Config) (g : List Stmt)
    (hg : ∀ s ∈ g, s.types ≠ [Gen.NONLITERAL_ELEM_TYPE])
    (h : (mergeGroup cfg g).types = [Gen.NONLITERAL_ELEM_TYPE]) :
    ∃ b ∈ g, ∃ i ∈ g, b.ty = Gen.BNODE_ELEM_TYPE ∧ i.ty = Gen.IRI_ELEM_TYPE ∧
      (mergeGroup cfg g).n = b.n + i.n ∧ (mergeGroup cfg g).parts = some (b.n, i.n) := by
  unfold mergeGroup at h ⊢
  extract_lets gs bnode iri shapes dom cB at h
  extract_lets at ⊢
  have hb : ∀ x, bnode = some x → x ∈ g ∧ x.ty = Gen.BNODE_ELEM_TYPE := fun x hx => by
    have := getLast?_filter_mem _ _ _ hx
    simpa using this
  have hi : ∀ x, iri = some x → x ∈ g ∧ x.ty = Gen.IRI_ELEM_TYPE := fun x hx => by
    have := getLast?_filter_mem _ _ _ hx
    simpa using this
  have hs : ∀ s ∈ shapes, s ∈ g := by
    intro s hs
    exact (List.mem_filter.mp ((mem_sortDesc _ _).mp hs)).1
  have hgs : ∀ s ∈ gs, s ∈ g := fun s hs => (mem_sortDesc _ _).mp hs
  have hdom : dom.1.types = [Gen.NONLITERAL_ELEM_TYPE] →
      ∃ b i, bnode = some b ∧ iri = some i ∧ dom.1.n = b.n + i.n ∧ dom.1.parts = some (b.n, i.n) := by
    clear h
    clear_value cB
    clear_value gs bnode iri shapes
    rcases bnode with _ | b <;> rcases iri with _ | i <;> rcases shapes with _ | ⟨s, _ | ⟨s2, t⟩⟩ <;>
      simp only [dom]
    all_goals try split
    all_goals try dsimp only
    all_goals intro ht
    all_goals first
      | exact ⟨_, _, rfl, rfl, rfl, rfl⟩
      | exact absurd ht (hg _ (hs _ (List.mem_cons_self ..)))
      | exact absurd ht (hg _ (hb _ rfl).1)
      | exact absurd ht (hg _ (hi _ rfl).1)
      | skip
    exfalso
    rcases gs with _ | ⟨x, t⟩
    · exact absurd ht (by decide)
    · exact absurd ht (hg _ (hgs _ (List.mem_cons_self ..)))
  clear_value cB
  clear_value dom
  obtain ⟨d0, dis⟩ := dom
  dsimp only at h ⊢ hdom
  generalize (if cfg.allowRedundantOr = true then
      (if dis = true then [] else [d0.ty]) ++ List.map (fun x => x.ty) shapes
    else if dis = true then List.map (fun x => x.ty) shapes else []) = stTypes at h ⊢
  have fin : d0.types = [Gen.NONLITERAL_ELEM_TYPE] → ∃ b ∈ g, ∃ i ∈ g, b.ty = Gen.BNODE_ELEM_TYPE ∧
      i.ty = Gen.IRI_ELEM_TYPE ∧ d0.n = b.n + i.n ∧ d0.parts = some (b.n, i.n) := by
    intro h0
    obtain ⟨b, i, hbb, hii, hn, hp⟩ := hdom h0
    exact ⟨b, (hb b hbb).1, i, (hi i hii).1, (hb b hbb).2, (hi i hii).2, hn, hp⟩
  by_cases hdo : cfg.disableOr = true
  · simp only [hdo, if_true] at h ⊢
    exact fin h
  · simp only [hdo, Bool.false_eq_true, if_false] at h ⊢
    by_cases hlen : stTypes.length > 1
    · exfalso
      simp only [if_pos hlen] at h
      rw [h] at hlen
      simp at hlen
    · simp only [if_neg hlen] at h ⊢
      exact fin h

end Shexer.MergeFigLemmas
