import ShexerModel.GeneratedStr
import ShexerModel.Model.Ttl
import ShexerModel.Lemmas.GenStrCorners
import ShexerModel.Lemmas.GenStrLiteral
/-! From a token to the model object: the regenerated `tune_subj` / `tune_prop` / `tune_token` (`shexer/utils/triple_yielders.py`, with
`parse_literal` / `parse_unquoted_literal` of `shexer/utils/uri.py`) against the classification the two hand-written reader models end with
(`Nt.tuneToken`, `Nt.removeCorners`; `Ttl.tuneSubj`, `Ttl.tuneProp`, `Ttl.tuneObj`). -/
namespace Shexer.GenStrTune2
open Shexer PyOps

/-- the RDF term a model object stands for downstream of the readers (only the datatype of a literal matters there) -/
def termOfObj : Obj → Term
  | .iri c => .iri (String.ofList c)
  | .bnode c => .bnode (String.ofList c)
  | .lit _ dt => .lit (String.ofList dt)
  | .prop c => .iri (String.ofList c)

def excOfNt : Nt.Err → PyExc
  | .valueError => .valueError
  | .runtimeError => .runtimeError
  | .diverges => .outOfFuel

def excOfTtl : Ttl.Err → PyExc
  | .valueError _ => .valueError
  | .runtimeError => .runtimeError
  | .attributeError => .typeError
  | .indexError => .indexError

/-- `float()` as the streaming Turtle model reads it -/
def ttlFloat (t : List Char) : Option Bool := if Ttl.isNum t then some (Ttl.isIntegral t) else none


theorem tn2_nt_rc_cases (tok : List Char) :
    (∃ s, Nt.removeCorners tok = .ok s) ∨ Nt.removeCorners tok = .error .valueError := by
  unfold Nt.removeCorners
  split
  · exact Or.inl ⟨_, rfl⟩
  · exact Or.inr rfl

theorem tn2_nt_dt_cases (tok : List Char) :
    (∃ s, Nt.decideType tok = .ok s) ∨ Nt.decideType tok = .error .runtimeError := by
  unfold Nt.decideType
  simp only []
  repeat (first | exact Or.inl ⟨_, rfl⟩ | exact Or.inr rfl | split)

theorem tn2_ttl_dt_cases (resolve : List Char → List Char → List Char) (base : Option (List Char)) (tok : List Char) :
    (∃ s, Ttl.decideType resolve base tok = .ok s) ∨ Ttl.decideType resolve base tok = .error .runtimeError := by
  unfold Ttl.decideType
  simp only []
  repeat (first | exact Or.inl ⟨_, rfl⟩ | exact Or.inr rfl | split)

/-- N-Triples: subjects and objects go through `tune_token(tok)` with the defaults (no numeric inference, corners demanded, no base) -/
theorem tune_token_nt_eq (resolve : List Char → List Char → List Char) (floatOf : List Char → Option Bool) (tok : List Char) :
    (GenS.tune_token resolve floatOf tok false true none).map termOfObj = (Nt.tuneToken tok).mapError excOfNt := by
  simp only [GenS.tune_token, GenS.parse_literal, GenS.parse_unquoted_literal, GenStr.remove_corners_strict,
    GenStr.decide_literal_type_nt, Nt.tuneToken, GenStr.startsWith_eq, GenStr.strip_eq, Bool.false_eq_true, ↓reduceIte]
  by_cases c1 : Nt.startsWith tok "<" = true
  · simp only [c1, ↓reduceIte]
    rcases tn2_nt_rc_cases tok with ⟨s, h⟩ | h <;> rw [h]
    · simp [GenStr.convNt, bind, Except.bind, pure, Except.pure, Except.map, Except.mapError, termOfObj]
    · rfl
  by_cases c2 : Nt.startsWith tok "\"" = true
  · simp only [c1, c2, ↓reduceIte]
    rcases tn2_nt_dt_cases tok with ⟨s, h⟩ | h <;> rw [h]
    · simp [GenStr.convNt, bind, Except.bind, pure, Except.pure, Except.map, Except.mapError, termOfObj]
    · rfl
  by_cases c3 : Nt.startsWith tok "_:" = true
  · simp only [c1, c2, c3, ↓reduceIte]; rfl
  by_cases c4 : (Nt.strip tok == "[]".toList) = true
  · simp only [c1, c2, c3, c4, ↓reduceIte]; rfl
  · simp only [c1, c2, c3, c4]
    rcases tn2_nt_dt_cases tok with ⟨s, h⟩ | h <;> rw [h]
    · simp [GenStr.convNt, bind, Except.bind, pure, Except.pure, Except.map, Except.mapError, termOfObj]
    · rfl

/-- N-Triples: predicates go through `tune_prop(tok)` -/
theorem tune_prop_nt_eq (tok : List Char) :
    (GenS.tune_prop tok true).map termOfObj = ((Nt.removeCorners tok).map Term.iri).mapError excOfNt := by
  simp only [GenS.tune_prop, GenStr.remove_corners_strict]
  rcases tn2_nt_rc_cases tok with ⟨s, h⟩ | h <;> rw [h]
  · simp [GenStr.convNt, bind, Except.bind, pure, Except.pure, Except.map, Except.mapError, termOfObj]
  · rfl

/-- streaming Turtle: subjects -/
theorem tune_subj_ttl_eq (tok : List Char) :
    (GenS.tune_subj tok false).map termOfObj = (Ttl.tuneSubj (some tok)).mapError excOfTtl := by
  simp only [GenS.tune_subj, GenStr.remove_corners_soft, Ttl.tuneSubj, GenStr.startsWith_eq, GenStr.strip_eq, beq_iff_eq]
  by_cases c1 : Nt.startsWith tok "<" = true
  · simp only [c1, ↓reduceIte]; rfl
  by_cases c2 : Nt.startsWith tok "_:" = true
  · simp only [c1, c2, ↓reduceIte]; rfl
  by_cases c3 : Nt.strip tok = "[]".toList
  · simp only [c1, c2, c3, ↓reduceIte]; rfl
  · simp only [c1, c2, c3, ↓reduceIte]; rfl

/-- streaming Turtle: predicates -/
theorem tune_prop_ttl_eq (tok : List Char) :
    (GenS.tune_prop tok false).map termOfObj = ((Ttl.tuneProp (some tok)).map Term.iri).mapError excOfTtl := by
  simp only [GenS.tune_prop, GenStr.remove_corners_soft, Ttl.tuneProp]
  rfl

/-- streaming Turtle: objects (`allow_untyped_numbers` on, corners optional, the reader's base) -/
theorem tune_token_ttl_eq (resolve : List Char → List Char → List Char) (base : Option (List Char)) (tok : List Char) :
    (GenS.tune_token resolve ttlFloat tok true false base).map termOfObj = (Ttl.tuneObj resolve base (some tok)).mapError excOfTtl := by
  simp only [GenS.tune_token, GenS.parse_literal, GenS.parse_unquoted_literal, GenStr.remove_corners_soft,
    GenStr.decide_literal_type_ttl, Ttl.tuneObj, GenStr.startsWith_eq, GenStr.strip_eq, beq_iff_eq, ↓reduceIte]
  by_cases c1 : Nt.startsWith tok "<" = true
  · simp only [c1, ↓reduceIte]; rfl
  by_cases c2 : Nt.startsWith tok "\"" = true
  · simp only [c1, c2, ↓reduceIte]
    rcases tn2_ttl_dt_cases resolve base tok with ⟨s, h⟩ | h <;> rw [h]
    · simp [GenStr.convTtl, bind, Except.bind, pure, Except.pure, Except.map, Except.mapError, termOfObj]
    · rfl
  by_cases c3 : Nt.startsWith tok "_:" = true
  · simp only [c1, c2, c3, ↓reduceIte]; rfl
  by_cases c4 : Nt.strip tok = "[]".toList
  · simp only [c1, c2, c3, c4, ↓reduceIte]; rfl
  by_cases c5 : Ttl.isNum tok = true
  · simp only [c1, c2, c3, c4, c5, ttlFloat, ↓reduceIte]
    by_cases c6 : Ttl.isIntegral tok = true
    · simp only [c6, ↓reduceIte]; rfl
    · simp only [c6]; rfl
  · simp only [c1, c2, c3, c4, c5, ttlFloat, ↓reduceIte]
    rcases tn2_ttl_dt_cases resolve none tok with ⟨s, h⟩ | h <;> rw [h]
    · simp [GenStr.convTtl, bind, Except.bind, pure, Except.pure, Except.map, Except.mapError, termOfObj]
    · rfl

end Shexer.GenStrTune2
