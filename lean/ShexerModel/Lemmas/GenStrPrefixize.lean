import ShexerModel.GeneratedStr
import ShexerModel.Lemmas.PyOpsLemmas
import ShexerModel.Model.Text
/-! `GenS.serializer_prefixize_uri_if_possible` (regenerated from /repo's `BaseStatementSerializer._prefixize_uri_if_possible`:
the find-first loop over the namespaces dictionary, the dictionary lookup, `str.replace`) against `Text.bestNamespace`, the
choice the token-level model of the ShExC serialiser (`Text.tuneToken`) makes. -/
namespace Shexer
namespace GenStr
open PyOps

/-- the test inside the find-first loop is `PyStr.directChildOf` -/
theorem pfx_cond (uri k : List Char) :
    (PyOps.startsWith uri k && ((!(PyOps.isIn "/".toList (PyOps.slice uri (some ((k).length : Int)) none))) &&
      (!(PyOps.isIn "#".toList (PyOps.slice uri (some ((k).length : Int)) none))))) = PyStr.directChildOf uri k := by
  have e1 : "/".toList = ['/'] := by simp
  have e2 : "#".toList = ['#'] := by simp
  rw [e1, e2, slice_from, isIn_single, isIn_single]
  simp only [PyStr.directChildOf, PyStr.startsWith, PyOps.startsWith, Bool.and_assoc]

/-- the first entry satisfying a test on keys is the first entry with its own key -/
theorem find_key_of_find (p : List Char → Bool) (e : List Char × List Char) :
    ∀ d : List (List Char × List Char), d.find? (fun x => p x.1) = some e → d.find? (fun x => x.1 == e.1) = some e := by
  intro d
  induction d with
  | nil => intro h; simp at h
  | cons x xs ih =>
    intro h
    rw [List.find?_cons] at h ⊢
    cases hp : p x.1 with
    | true =>
      rw [hp] at h
      simp only [Option.some.injEq] at h
      subst h
      simp
    | false =>
      rw [hp] at h
      simp only at h
      have hpe : p e.1 = true := by simpa using List.find?_some h
      have hne : (x.1 == e.1) = false := by
        cases hx : x.1 == e.1 with
        | false => rfl
        | true =>
          have : x.1 = e.1 := by simpa using hx
          rw [this, hpe] at hp
          cases hp
      rw [hne]
      exact ih h

theorem dictGet_of_find (p : List Char → Bool) (e : List Char × List Char) (d : List (List Char × List Char))
    (h : d.find? (fun x => p x.1) = some e) : PyOps.dictGet d e.1 = .ok e.2 := by
  unfold PyOps.dictGet
  rw [find_key_of_find p e d h]
  rfl

/-- the generated function: first namespace (dictionary order) the IRI is a direct child of; every occurrence of that
namespace in the IRI replaced by `prefix:`; never raises (the key found by the loop is a key of the dictionary) -/
theorem serializer_prefixize_eq (uri : List Char) (d : List (List Char × List Char)) :
    GenS.serializer_prefixize_uri_if_possible uri d =
      .ok ((d.find? fun e => PyStr.directChildOf uri e.1).map fun e => PyOps.replace uri e.1 (e.2 ++ [':'])) := by
  unfold GenS.serializer_prefixize_uri_if_possible
  have hc : (fun a_namespace => (PyOps.startsWith uri a_namespace) && ((!(PyOps.isIn "/".toList (PyOps.slice uri (some ((a_namespace).length : Int)) none))) && (!(PyOps.isIn "#".toList (PyOps.slice uri (some ((a_namespace).length : Int)) none))))) =
      fun k => PyStr.directChildOf uri k := funext (pfx_cond uri)
  simp only [hc]
  unfold PyOps.findFirst
  cases hf : d.find? (fun e => PyStr.directChildOf uri e.1) with
  | none => rfl
  | some e =>
    simp only [Option.map_some]
    rw [dictGet_of_find (fun k => PyStr.directChildOf uri k) e d hf]
    have e3 : ":".toList = [':'] := by simp
    rw [e3]
    rfl

/-- no occurrence of `old` in a list that misses one of its characters -/
theorem replaceGo_no_occ (old new : List Char) (c : Char) (hc : c ∈ old) :
    ∀ (rest : List Char) (f : Nat), c ∉ rest → PyOps.replaceGo old new f rest = rest := by
  intro rest
  induction rest with
  | nil => intro f _; cases f <;> rfl
  | cons x t ih =>
    intro f hn
    cases f with
    | zero => rfl
    | succ f =>
      unfold PyOps.replaceGo
      have hp : old.isPrefixOf (x :: t) = false := by
        cases h : old.isPrefixOf (x :: t) with
        | false => rfl
        | true =>
          exact absurd ((List.isPrefixOf_iff_prefix.mp h).subset hc) hn
      rw [hp]
      simp only [Bool.false_eq_true, if_false]
      rw [ih f (fun hm => hn (List.mem_cons_of_mem _ hm))]

/-- `str.replace` swaps just the leading namespace when the namespace cannot occur again in the rest: it contains a `/` or `#`
and the rest (a direct child's local part) contains neither -/
theorem replace_leading (n rest new : List Char) (hsep : (n.contains '/' || n.contains '#') = true)
    (hrest : (rest.contains '/' || rest.contains '#') = false) :
    PyOps.replace (n ++ rest) n new = new ++ rest := by
  obtain ⟨c, hcn, hcr⟩ : ∃ c, c ∈ n ∧ c ∉ rest := by
    simp only [Bool.or_eq_true, Bool.or_eq_false_iff, List.contains_eq_mem, decide_eq_true_eq, decide_eq_false_iff_not] at hsep hrest
    cases hsep with
    | inl h => exact ⟨'/', h, hrest.1⟩
    | inr h => exact ⟨'#', h, hrest.2⟩
  cases n with
  | nil => simp at hcn
  | cons a n' =>
    unfold PyOps.replace
    simp only [List.isEmpty_cons, Bool.false_eq_true, if_false, List.cons_append, List.length_cons]
    unfold PyOps.replaceGo
    have hp : (a :: n').isPrefixOf (a :: (n' ++ rest)) = true := by
      rw [List.isPrefixOf_iff_prefix]
      exact List.prefix_append (a :: n') rest
    rw [hp]
    simp only [if_true, List.length_cons, List.drop_succ_cons, List.drop_left]
    rw [replaceGo_no_occ (a :: n') new c hcn rest _ hcr]

/-- for namespaces that contain a separator (every IRI namespace ending in `/` or `#`), the generated function is the
model's choice: `prefix:local` with the local part being the IRI without the namespace -/
theorem serializer_prefixize_is_bestNamespace (ns : Text.Namespaces) (uri : String)
    (hsep : ∀ e ∈ ns, (e.1.toList.contains '/' || e.1.toList.contains '#') = true) :
    GenS.serializer_prefixize_uri_if_possible uri.toList (ns.map fun e => (e.1.toList, e.2.toList)) =
      .ok ((Text.bestNamespace ns uri).map fun e => e.2.toList ++ ':' :: uri.toList.drop e.1.toList.length) := by
  rw [serializer_prefixize_eq, List.find?_map]
  have hb : Text.bestNamespace ns uri = ns.find? fun e => PyStr.directChildOf uri.toList e.1.toList := by
    unfold Text.bestNamespace
    congr 1
  rw [hb]
  congr 1
  have hcomp : ((fun e : List Char × List Char => PyStr.directChildOf uri.toList e.1) ∘ fun e : String × String => (e.1.toList, e.2.toList)) =
      fun e => PyStr.directChildOf uri.toList e.1.toList := rfl
  rw [hcomp]
  cases hf : ns.find? (fun e => PyStr.directChildOf uri.toList e.1.toList) with
  | none => rfl
  | some e =>
    simp only [Option.map_some, Option.some.injEq]
    have hmem : e ∈ ns := List.mem_of_find?_eq_some hf
    have hd : PyStr.directChildOf uri.toList e.1.toList = true := by simpa using List.find?_some hf
    unfold PyStr.directChildOf PyStr.startsWith at hd
    simp only [Bool.and_eq_true, Bool.not_eq_true'] at hd
    obtain ⟨⟨h1, h2⟩, h3⟩ := hd
    obtain ⟨rest, hr⟩ := List.isPrefixOf_iff_prefix.mp h1
    rw [← hr] at h2 h3 ⊢
    rw [List.drop_left] at h2 h3 ⊢
    rw [replace_leading _ _ _ (hsep e hmem) (by rw [h2, h3]; rfl)]
    simp
