import ShexerModel.Model.Tsv
import ShexerModel.Lemmas.NtLemmas
/-! Delivery channels: the TSV reader agrees with the N-Triples reader on every statement; reading several sources is
reading their concatenation. -/
namespace Shexer
namespace Delivery
open Nt NtGrammar

/-- the statement as a TSV line: the three terms in N-Triples syntax, separated by tabs, no final dot;
`lead` / `trail` are blanks around it -/
def renderTsv (st : Stmt) (lead trail : List Char) : List Char :=
  lead ++ st.s.chars ++ ['\t'] ++ ('<' :: st.p ++ ['>']) ++ ['\t'] ++ st.o.chars ++ trail

/-- no tab inside any term of the statement (a raw tab inside a literal would be read as a column separator) -/
def noTab (st : Stmt) : Prop := (∀ c ∈ st.s.chars, c ≠ '\t') ∧ (∀ c ∈ st.p, c ≠ '\t') ∧ (∀ c ∈ st.o.chars, c ≠ '\t')

/-- the last char of the object term is not a blank (so that `strip` leaves the term alone) -/
def objEndOk (st : Stmt) : Prop := ∀ c, st.o.chars.getLast? = some c → isSpace c = false

/-! ### helpers: strip, splitTab -/
theorem blanks_reverse {l : List Char} (h : blanks l) : blanks l.reverse := by
  intro c hc; exact h c (by simpa using hc)

theorem strip_blanks (lead body trail : List Char) (hl : blanks lead) (ht : blanks trail) (hne : body ≠ [])
    (h1 : ∀ c, body.head? = some c → isSpace c = false) (h2 : ∀ c, body.getLast? = some c → isSpace c = false) :
    strip (lead ++ body ++ trail) = body := by
  cases body with
  | nil => exact absurd rfl hne
  | cons c r =>
    have hc := h1 c rfl
    unfold strip
    have e : lead ++ c :: r ++ trail = lead ++ c :: (r ++ trail) := by simp
    rw [e, dropWhile_blanks lead c _ hl hc]
    cases hr : (c :: r).reverse with
    | nil => simp at hr
    | cons d u =>
      have hd : (c :: r).getLast? = some d := by
        rw [List.getLast?_eq_head?_reverse, hr]; rfl
      have hd' := h2 d hd
      have e2 : (c :: (r ++ trail)).reverse = trail.reverse ++ d :: u := by
        have : c :: (r ++ trail) = (c :: r) ++ trail := by simp
        rw [this, List.reverse_append, hr]
      rw [e2, dropWhile_blanks trail.reverse d u (blanks_reverse ht) hd', ← hr]
      simp

theorem splitTab_nil : Tsv.splitTab [] = [[]] := rfl

theorem splitTab_tab (l : List Char) : Tsv.splitTab ('\t' :: l) = [] :: Tsv.splitTab l := by
  simp [Tsv.splitTab]

theorem splitTab_cons (c : Char) (l h : List Char) (t : List (List Char)) (hc : c ≠ '\t')
    (e : Tsv.splitTab l = h :: t) : Tsv.splitTab (c :: l) = (c :: h) :: t := by
  unfold Tsv.splitTab at e ⊢
  rw [List.foldr_cons, if_neg hc, e]

theorem splitTab_noTab (s : List Char) (h : ∀ c ∈ s, c ≠ '\t') : Tsv.splitTab s = [s] := by
  induction s with
  | nil => rfl
  | cons c s ih =>
    exact splitTab_cons c s s [] (h c (by simp)) (ih (fun x hx => h x (by simp [hx])))

theorem splitTab_append (s r : List Char) (h : ∀ c ∈ s, c ≠ '\t') :
    Tsv.splitTab (s ++ '\t' :: r) = s :: Tsv.splitTab r := by
  induction s with
  | nil => exact splitTab_tab r
  | cons c s ih =>
    exact splitTab_cons c _ _ _ (h c (by simp)) (ih (fun x hx => h x (by simp [hx])))

theorem tuneObj_node (n : Node) : Tsv.tuneObj n.chars = tuneToken n.chars := by
  cases n <;> simp [Tsv.tuneObj, startsWith, Node.chars, List.isPrefixOf]

theorem node_chars_ne (n : Node) : n.chars ≠ [] := by
  obtain ⟨c, s', h, _⟩ := node_chars_head n
  rw [h]; simp

/-- the TSV line without the blanks around it -/
def tsvBody (st : Stmt) : List Char := st.s.chars ++ '\t' :: (('<' :: st.p ++ ['>']) ++ '\t' :: st.o.chars)

theorem renderTsv_eq (st : Stmt) (lead trail : List Char) : renderTsv st lead trail = lead ++ tsvBody st ++ trail := by
  simp [renderTsv, tsvBody]

theorem splitTab_body (st : Stmt) (hnt : noTab st) :
    Tsv.splitTab (tsvBody st) = [st.s.chars, '<' :: st.p ++ ['>'], st.o.chars] := by
  obtain ⟨hs, hp, ho⟩ := hnt
  have hp' : ∀ c ∈ '<' :: st.p ++ ['>'], c ≠ '\t' := by
    intro c hc; simp at hc; rcases hc with rfl | hc | rfl
    · decide
    · exact hp c hc
    · decide
  unfold tsvBody
  rw [splitTab_append _ _ hs, splitTab_append _ _ hp', splitTab_noTab _ ho]

/-- **the TSV reader yields the triple of the statement** -/
theorem tsv_reads_the_statement (st : Stmt) (lead trail : List Char) (hst : st.Valid) (hnt : noTab st) (hend : objEndOk st)
    (hl : blanks lead) (ht : blanks trail) :
    Tsv.parseLine (renderTsv st lead trail) = .ok (some st.triple) := by
  obtain ⟨hs, _, hp, ho⟩ := hst
  have hstrip : strip (renderTsv st lead trail) = tsvBody st := by
    rw [renderTsv_eq]
    apply strip_blanks lead _ trail hl ht
    · obtain ⟨c, s', h, _⟩ := node_chars_head st.s
      simp [tsvBody, h]
    · obtain ⟨c, s', h, hc⟩ := node_chars_head st.s
      intro x hx
      simp [tsvBody, h] at hx; subst hx; exact hc
    · intro x hx
      apply hend x
      have e : tsvBody st = (st.s.chars ++ '\t' :: (('<' :: st.p ++ ['>']) ++ ['\t'])) ++ st.o.chars := by
        simp [tsvBody]
      rw [e, List.getLast?_append] at hx
      cases ho' : st.o.chars.getLast? with
      | none => exact absurd (List.getLast?_eq_none_iff.mp ho') (node_chars_ne st.o)
      | some d => rw [ho'] at hx; simp at hx; subst hx; rfl
  have hrc : removeCorners ('<' :: st.p ++ ['>']) = .ok (String.ofList st.p) := removeCorners_iri st.p
  unfold Tsv.parseLine
  rw [hstrip, splitTab_body st hnt]
  simp only [tuneObj_node, tune_node _ hs, tune_node _ ho, hrc, Stmt.triple, bind, Except.bind, pure, Except.pure]

/-! ### helpers: the loops -/
/-- add an accumulator in front of a result -/
def shift (acc : List Triple × Nat) : Except Nt.Err (List Triple × Nat) → Except Nt.Err (List Triple × Nat)
  | .ok r => .ok (acc.1 ++ r.1, acc.2 + r.2)
  | .error e => .error e

theorem foldlM_readStep_shift (b : List (List Char)) : ∀ acc : List Triple × Nat,
    b.foldlM readStep acc = shift acc (b.foldlM readStep ([], 0)) := by
  induction b with
  | nil => intro acc; simp [shift, pure, Except.pure]
  | cons l b ih =>
    intro acc
    rw [List.foldlM_cons, List.foldlM_cons]
    cases hp : Nt.parseLine l with
    | error e => simp [readStep, hp, bind, Except.bind, shift]
    | ok r =>
      cases r with
      | none =>
        simp only [readStep, hp, bind, Except.bind, pure, Except.pure]
        rw [ih (acc.1, acc.2 + 1), ih ([], 0 + 1)]
        cases b.foldlM readStep ([], 0) with
        | error e => simp [shift]
        | ok r => simp [shift]; omega
      | some t =>
        simp only [readStep, hp, bind, Except.bind, pure, Except.pure]
        rw [ih (acc.1 ++ [t], acc.2), ih ([] ++ [t], 0)]
        cases b.foldlM readStep ([], 0) with
        | error e => simp [shift]
        | ok r => simp [shift]

/-- the body of the loop of `readSources` -/
def srcStep (read : List (List Char) → Except Nt.Err (List Triple × Nat)) (acc : List Triple × Nat)
    (src : List (List Char)) : Except Nt.Err (List Triple × Nat) := do
  let r ← read src
  pure (acc.1 ++ r.1, acc.2 + r.2)

theorem readSources_eq (read : List (List Char) → Except Nt.Err (List Triple × Nat)) (sources : List (List (List Char))) :
    Tsv.readSources read sources = sources.foldlM (srcStep read) ([], 0) := rfl

theorem readSources_aux (read : List (List Char) → Except Nt.Err (List Triple × Nat)) (sources : List (List (List Char))) :
    ∀ (results : List (List Triple × Nat)) (hlen : results.length = sources.length)
      (_ : ∀ i (hi : i < sources.length), read sources[i] = .ok (results[i]'(by omega))) (acc : List Triple × Nat),
      sources.foldlM (srcStep read) acc
        = .ok (acc.1 ++ (results.map (·.1)).flatten, acc.2 + (results.map (·.2)).sum) := by
  induction sources with
  | nil =>
    intro results hlen _ acc
    have : results = [] := List.length_eq_zero_iff.mp hlen
    subst this; simp [pure, Except.pure]
  | cons src rest ih =>
    intro results hlen h acc
    cases results with
    | nil => simp at hlen
    | cons r rs =>
      have h0 : read src = .ok r := h 0 (by simp)
      have hlen' : rs.length = rest.length := by simpa using hlen
      have htail : ∀ i (hi : i < rest.length), read rest[i] = .ok (rs[i]'(by omega)) := by
        intro i hi
        have := h (i + 1) (by simp; omega)
        simpa using this
      rw [List.foldlM_cons]
      simp only [srcStep, h0, bind, Except.bind, pure, Except.pure]
      have := ih rs hlen' htail (acc.1 ++ r.1, acc.2 + r.2)
      rw [this]
      simp [List.append_assoc, Nat.add_assoc]

/-- reading one source that is the concatenation of two = reading them one after the other (N-Triples reader) -/
theorem nt_readLines_append (a b : List (List Char)) (ra rb : List Triple × Nat)
    (ha : Nt.readLines a = .ok ra) (hb : Nt.readLines b = .ok rb) :
    Nt.readLines (a ++ b) = .ok (ra.1 ++ rb.1, ra.2 + rb.2) := by
  rw [readLines_eq] at ha hb ⊢
  rw [List.foldlM_append, ha]
  simp only [bind, Except.bind]
  rw [foldlM_readStep_shift b ra, hb]
  rfl

/-- **several sources**: with every source read without exception, the multi-source reader yields the concatenation
of their triples, in the order of the list, and adds up the error lines -/
theorem readSources_concat (read : List (List Char) → Except Nt.Err (List Triple × Nat)) (sources : List (List (List Char)))
    (results : List (List Triple × Nat)) (hlen : results.length = sources.length)
    (h : ∀ i (hi : i < sources.length), read sources[i] = .ok (results[i]'(by omega))) :
    Tsv.readSources read sources = .ok ((results.map (·.1)).flatten, (results.map (·.2)).sum) := by
  rw [readSources_eq, readSources_aux read sources results hlen h]
  simp

/-- **N-Triples files**: a list of files whose lines are valid statements yields exactly the triples of the statements
of all files, file after file -/
theorem nt_files (files : List (List (Stmt × Layout))) (h : ∀ f ∈ files, ∀ x ∈ f, x.1.Valid ∧ x.2.Valid) :
    Tsv.readSources Nt.readLines (files.map fun f => f.map fun x => render x.1 x.2)
      = .ok ((files.map fun f => f.map fun x => x.1.triple).flatten, 0) := by
  have hlen : (files.map fun f => (f.map (fun x => x.1.triple), 0)).length
      = (files.map fun f => f.map fun x => render x.1 x.2).length := by simp
  rw [readSources_concat Nt.readLines _ (files.map fun f => (f.map (fun x => x.1.triple), 0)) hlen]
  · have hz : ∀ l : List (List (Stmt × Layout)), (l.map (fun _ => 0)).sum = 0 := by
      intro l; induction l with
      | nil => rfl
      | cons a l ih => simpa using ih
    simp [List.map_map, Function.comp_def, hz]
  · intro i hi
    simp only [List.getElem_map]
    apply readLines_render
    intro x hx
    exact h _ (List.getElem_mem _) x hx

end Delivery
end Shexer
