import ShexerModel.Lemmas.TrackerLemmas
import Batteries.Data.List.Perm
/-! C16, instance cap: `instances_cap = k` selects exactly what the uncapped tracker selects on the
document from which the excess instantiation triples have been dropped — including the early stop
of the target-classes variant. -/
namespace Shexer
namespace Tracker

/-- drop every selecting triple whose class already has `k` kept selecting triples (document order) -/
def capRestrictAux (cfg : Config) (k : Nat) : Dict String Nat → Graph → Graph
  | _, [] => []
  | cnt, t :: ts =>
    if innerRelevant cfg t then
      (if (Dict.get? cnt t.o.key).getD 0 < k then
        t :: capRestrictAux cfg k (Dict.upd cnt t.o.key (fun o => o.getD 0 + 1)) ts
      else capRestrictAux cfg k cnt ts)
    else t :: capRestrictAux cfg k cnt ts

def capRestrict (cfg : Config) (k : Nat) (g : Graph) : Graph := capRestrictAux cfg k [] g

/-! ### helpers -/

/-- number of classes whose count is exactly `k` -/
def nFull (k : Nat) (d : Dict String Nat) : Nat := (d.filter fun p => p.2 == k).length

theorem nFull_upd (k : Nat) (d : Dict String Nat) (c : String)
    (h : (Dict.get? d c).getD 0 < k) :
    nFull k (Dict.upd d c (fun o => o.getD 0 + 1)) =
      nFull k d + (if (Dict.get? d c).getD 0 + 1 = k then 1 else 0) := by
  induction d with
  | nil =>
    by_cases h1 : 0 + 1 = k
    · simp [nFull, Dict.upd, Dict.get?, h1, List.filter]
    · simp [nFull, Dict.upd, Dict.get?, h1, List.filter]
  | cons hd tl ih =>
    obtain ⟨k', v⟩ := hd
    by_cases hk : k' = c
    · subst hk
      simp only [Dict.get?, if_true, Option.getD_some] at h
      have hv : (v == k) = false := by simp; omega
      by_cases h1 : v + 1 = k
      · simp [nFull, Dict.upd, Dict.get?, List.filter, hv, h1]
      · simp [nFull, Dict.upd, Dict.get?, List.filter, hv, h1]
    · simp only [Dict.get?, hk, if_false] at h
      have := ih h
      unfold nFull at this
      by_cases hv : (v == k) = true
      · simp only [nFull, Dict.upd, Dict.get?, hk, if_false, List.filter, hv, List.length_cons, this]
        omega
      · simp only [nFull, Dict.upd, Dict.get?, hk, if_false, List.filter, hv, this]

theorem innerRelevant_p (cfg : Config) (t : Triple) (h : innerRelevant cfg t = true) :
    (t.p == cfg.instProp) = true := by
  unfold innerRelevant at h
  split at h
  · exact h
  · split at h
    · simp only [Bool.and_eq_true] at h; exact h.1.1
    · simp at h

theorem innerRelevant_target (cfg : Config) (t : Triple) (ts : List String)
    (ha : cfg.allClasses = false) (hts : cfg.targets = some ts) :
    innerRelevant cfg t = true → t.o.key ∈ ts := by
  intro h
  unfold innerRelevant at h
  simp only [ha, hts, Bool.false_eq_true, if_false, Bool.and_eq_true, List.contains_iff_mem] at h
  simpa using h.2

theorem capAllows_of_relevant (cfg : Config) (k : Nat) (hk : 0 < k) (cnt : Dict String Nat) (t : Triple)
    (h : innerRelevant cfg t = true) :
    capAllows { cfg with cap := k } cnt t = decide ((Dict.get? cnt t.o.key).getD 0 < k) := by
  have hp := innerRelevant_p cfg t h
  unfold capAllows
  have : (t.p != cfg.instProp) = false := by simp [bne, hp]
  simp only [this, Bool.false_eq_true, if_false]
  cases hg : Dict.get? cnt t.o.key with
  | none => simp [hk]
  | some c => simp

theorem foldl_step_stopped (cfg : Config) (g : Graph) (st : St) (hs : st.stopped = true) :
    g.foldl (step cfg) st = st := by
  induction g with
  | nil => rfl
  | cons t ts ih =>
    simp only [List.foldl_cons]
    have : step cfg st t = st := by simp [step, hs]
    rw [this, ih]

theorem capRestrictAux_rejected (cfg : Config) (k : Nat) (cnt : Dict String Nat) (g : Graph)
    (h : ∀ t ∈ g, innerRelevant cfg t = true → ¬ (Dict.get? cnt t.o.key).getD 0 < k) :
    (capRestrictAux cfg k cnt g).filter (innerRelevant cfg) = [] := by
  induction g with
  | nil => rfl
  | cons t ts ih =>
    have ih' := ih (fun t' ht' => h t' (List.mem_cons_of_mem _ ht'))
    by_cases hr : innerRelevant cfg t = true
    · have := h t List.mem_cons_self hr
      simp only [capRestrictAux, hr, if_true, this, if_false]
      exact ih'
    · simp only [capRestrictAux, hr, Bool.false_eq_true, if_false, List.filter_cons]
      exact ih'

/-- invariant of the capped fold -/
structure Inv (cfg : Config) (k : Nat) (st : St) : Prop where
  wf : Dict.WF st.counts
  compl : st.completed = nFull k st.counts
  keys : ∀ ts, cfg.allClasses = false → cfg.targets = some ts → ∀ c ∈ Dict.keys st.counts, c ∈ ts
  stop : st.stopped = (decide (nTargetForStop cfg > 0) && st.completed == nTargetForStop cfg)

/-- pigeonhole: once stopped, every target class is full -/
theorem Inv.full_of_stopped {cfg : Config} {k : Nat} {st : St} (hI : Inv cfg k st)
    (hs : st.stopped = true) (t : Triple) (hr : innerRelevant cfg t = true) :
    ¬ (Dict.get? st.counts t.o.key).getD 0 < k := by
  have hstop := hI.stop
  rw [hs] at hstop
  have hstop' := hstop.symm
  simp only [Bool.and_eq_true, decide_eq_true_eq, beq_iff_eq] at hstop'
  obtain ⟨hpos, hcomp⟩ := hstop'
  unfold nTargetForStop at hpos hcomp
  cases ha : cfg.allClasses with
  | true => simp [ha] at hpos
  | false =>
    cases hts : cfg.targets with
    | none => simp [ha, hts] at hpos
    | some ts =>
      simp only [ha, hts, Bool.false_eq_true, if_false] at hcomp
      have hmem := innerRelevant_target cfg t ts ha hts hr
      -- the list of full keys
      let fk := Dict.keys (st.counts.filter fun p => p.2 == k)
      have hnd : fk.Nodup := Dict.WF_filter _ _ hI.wf
      have hsub : fk ⊆ ts := by
        intro c hc
        apply hI.keys ts ha hts c
        exact List.Sublist.subset (List.Sublist.map _ List.filter_sublist) hc
      have hlen : ts.length ≤ fk.length := by
        have : fk.length = nFull k st.counts := by simp [fk, Dict.keys, nFull]
        rw [this, ← hI.compl, hcomp]
        exact Nat.le_refl _
      have hperm := (List.subperm_of_subset hnd hsub).perm_of_length_le hlen
      have hin : t.o.key ∈ fk := hperm.mem_iff.mpr hmem
      have hsome := (Dict.get?_isSome_iff_mem_keys _ _).mpr hin
      rw [Dict.get?_filter _ _ hI.wf] at hsome
      cases hg : Dict.get? st.counts t.o.key with
      | none => simp [hg] at hsome
      | some v =>
        simp only [hg, Option.isSome_filter, Option.any_some, beq_iff_eq] at hsome
        simp [hsome]

theorem annotate_cap_inst (cfg : Config) (k : Nat) (hk : 0 < k) (st : St) (t : Triple) :
    (annotate { cfg with cap := k } st t).inst = addInst st.inst t := by
  have hk' : ¬ k = 0 := by omega
  unfold annotate addInst
  rw [upd_setDefault]
  simp [hk']

theorem annotate_cap_counts (cfg : Config) (k : Nat) (hk : 0 < k) (st : St) (t : Triple) :
    (annotate { cfg with cap := k } st t).counts =
      Dict.upd st.counts t.o.key (fun o => o.getD 0 + 1) := by
  have hk' : ¬ k = 0 := by omega
  unfold annotate
  simp [hk']

theorem Inv.annotate {cfg : Config} {k : Nat} (hk : 0 < k) {st : St} (hI : Inv cfg k st) (t : Triple)
    (hr : innerRelevant cfg t = true) (hlt : (Dict.get? st.counts t.o.key).getD 0 < k) :
    Inv cfg k (annotate { cfg with cap := k } st t) := by
  have hk' : ¬ k = 0 := by omega
  have hnT : nTargetForStop { cfg with cap := k } = nTargetForStop cfg := rfl
  refine ⟨?_, ?_, ?_, ?_⟩
  · rw [annotate_cap_counts cfg k hk]; exact Dict.WF_upd _ _ _ hI.wf
  · rw [annotate_cap_counts cfg k hk, nFull_upd k _ _ hlt]
    unfold Tracker.annotate
    simp only [hk', if_false, Dict.get?_upd_same, Option.getD_some]
    rw [hI.compl]
    split <;> rfl
  · intro ts ha hts c hc
    rw [annotate_cap_counts cfg k hk, Dict.mem_keys_upd] at hc
    rcases hc with rfl | hc
    · exact innerRelevant_target cfg t ts ha hts hr
    · exact hI.keys ts ha hts c hc
  · unfold Tracker.annotate
    simp only [hk', if_false, hnT]

theorem foldl_step_cap (cfg : Config) (k : Nat) (hk : 0 < k) (g : Graph) (st : St) (hI : Inv cfg k st) :
    (g.foldl (step { cfg with cap := k }) st).inst =
      ((capRestrictAux cfg k st.counts g).filter (innerRelevant cfg)).foldl addInst st.inst := by
  have hk' : ¬ k = 0 := by omega
  induction g generalizing st with
  | nil => rfl
  | cons t ts ih =>
    by_cases hs : st.stopped = true
    · rw [foldl_step_stopped _ _ _ hs,
        capRestrictAux_rejected cfg k st.counts (t :: ts) (fun t' _ hr' => hI.full_of_stopped hs t' hr')]
      rfl
    · have hs' : st.stopped = false := by simpa using hs
      simp only [List.foldl_cons]
      by_cases hr : innerRelevant cfg t = true
      · have hrel : relevant { cfg with cap := k } st t
            = decide ((Dict.get? st.counts t.o.key).getD 0 < k) := by
          unfold relevant
          simp only [hk', if_false]
          rw [capAllows_of_relevant cfg k hk _ _ hr]
          have : innerRelevant { cfg with cap := k } t = true := hr
          rw [this, Bool.and_true]
        by_cases hlt : (Dict.get? st.counts t.o.key).getD 0 < k
        · have hstep : step { cfg with cap := k } st t = annotate { cfg with cap := k } st t := by
            simp [step, hs', hrel, hlt]
          rw [hstep, ih _ (hI.annotate hk t hr hlt), annotate_cap_inst cfg k hk,
            annotate_cap_counts cfg k hk]
          simp only [capRestrictAux, hr, if_true, hlt, List.filter_cons, List.foldl_cons]
        · have hstep : step { cfg with cap := k } st t = st := by
            simp [step, hs', hrel, hlt]
          rw [hstep, ih _ hI]
          simp only [capRestrictAux, hr, if_true, hlt, if_false]
      · have hr' : innerRelevant cfg t = false := by simpa using hr
        have hrel : relevant { cfg with cap := k } st t = false := by
          unfold relevant
          simp only [hk', if_false]
          have : innerRelevant { cfg with cap := k } t = false := hr'
          rw [this, Bool.and_false]
        have hstep : step { cfg with cap := k } st t = st := by
          simp [step, hs', hrel]
        rw [hstep, ih _ hI]
        simp only [capRestrictAux, hr', Bool.false_eq_true, if_false, List.filter_cons]

theorem Inv.init (cfg : Config) (k : Nat) : Inv cfg k {} := by
  refine ⟨Dict.WF_nil, rfl, ?_, ?_⟩
  · intro ts _ _ c hc; simp [Dict.keys] at hc
  · show false = _
    by_cases h : nTargetForStop cfg > 0
    · have : (0 == nTargetForStop cfg) = false := by simp; omega
      simp [this]
    · simp [h]

theorem capRestrictAux_large (cfg : Config) (k : Nat) (g : Graph) (cnt : Dict String Nat)
    (h : ∀ c, (Dict.get? cnt c).getD 0 +
      ((g.filter fun t => innerRelevant cfg t && t.o.key == c).length) ≤ k) :
    capRestrictAux cfg k cnt g = g := by
  induction g generalizing cnt with
  | nil => rfl
  | cons t ts ih =>
    by_cases hr : innerRelevant cfg t = true
    · have h1 := h t.o.key
      simp only [List.filter_cons, hr, beq_self_eq_true, Bool.and_self, if_true, List.length_cons] at h1
      have hlt : (Dict.get? cnt t.o.key).getD 0 < k := by omega
      simp only [capRestrictAux, hr, if_true, hlt]
      congr 1
      apply ih
      intro c
      have h2 := h c
      rw [Dict.get?_upd]
      by_cases hc : t.o.key = c
      · subst hc
        simp only [if_true, Option.getD_some]
        omega
      · have hc' : (t.o.key == c) = false := by simpa using hc
        simp only [List.filter_cons, hr, hc', Bool.and_false, Bool.false_eq_true, if_false] at h2
        simp only [hc, if_false]
        exact h2
    · have hr' : innerRelevant cfg t = false := by simpa using hr
      simp only [capRestrictAux, hr', Bool.false_eq_true, if_false]
      congr 1
      apply ih
      intro c
      have h2 := h c
      simp only [List.filter_cons, hr', Bool.false_and, Bool.false_eq_true, if_false] at h2
      exact h2

/-- **the cap is a restriction of the input** (selection part): for every `k > 0`, with or without
the early stop.  `hT`: the user's target classes are pairwise distinct. -/
theorem track_cap (cfg : Config) (k : Nat) (hk : 0 < k) (g : Graph)
    (hT : ∀ ts, cfg.targets = some ts → ts.Nodup) :
    track { cfg with cap := k } g = track { cfg with cap := 0 } (capRestrict cfg k g) := by
  -- the distinctness of the targets turns out not to be needed: the pigeonhole argument only
  -- uses the distinctness of the keys of the counts dictionary
  have _ := hT
  rw [track_nocap { cfg with cap := 0 } rfl]
  exact foldl_step_cap cfg k hk g {} (Inv.init cfg k)

/-- a cap that no class reaches changes nothing -/
theorem capRestrict_large (cfg : Config) (k : Nat) (g : Graph)
    (h : ∀ c, ((g.filter fun t => innerRelevant cfg t && t.o.key == c).length) ≤ k) :
    capRestrict cfg k g = g := by
  apply capRestrictAux_large
  intro c
  simpa using h c

end Tracker
end Shexer
