import ShexerModel.Lemmas.GenStrTtlTok
import ShexerModel.Lemmas.GenStrTtlElem
import ShexerModel.Lemmas.GenNtReader
/-! The token loop of the streaming Turtle reader assembled from the regenerated functions.  For a cleaned line that is no directive,
`BigTtlTriplesYielder._process_line_with_potential_triples` does

    next_token, next_index = self._next_line_token(a_line, 0)
    while next_token != None:
        if next_token == ",": yield self._current_triple(); self._state = _WAITING_FOR_OBJ
        elif next_token == ";": ... _WAITING_FOR_PRED      elif next_token == ".": ... _WAITING_FOR_SUBJ
        else: self._assing_tmp_element_and_promote_state(next_token)      # self._tmp_s / _tmp_p / _tmp_o = self._parse_elem(token)
        next_token, next_index = self._next_line_token(a_line, next_index)

and `yield_triples` turns every yielded `(s, p, o)` into `(tune_subj(s), tune_prop(p), tune_token(o, base, allow_untyped_numbers))`.
`genLineLoop` is that loop with the regenerated `GenS.ttl_next_line_token`, `GenS.ttl_parse_elem`, `GenS.tune_subj`, `GenS.tune_prop`,
`GenS.tune_token` in the places of the calls (the state record is the model's `Ttl.St`; the glue is written by hand; `None` handed to a
`tune_*` function is an AttributeError in Python, `typeError` here).  It is the model's `Ttl.lineLoop`. -/
namespace Shexer.GenTtlReader
open Shexer PyOps Shexer.GenStrTune2 Shexer.GenNtReader

def genEmit (resolve : List Char → List Char → List Char) (st : Ttl.St) : Except PyExc (Obj × Obj × Obj) := do
  let s ← match st.s with
    | none => throw PyExc.typeError
    | some x => GenS.tune_subj x false
  let p ← match st.p with
    | none => throw PyExc.typeError
    | some x => GenS.tune_prop x false
  let o ← match st.o with
    | none => throw PyExc.typeError
    | some x => GenS.tune_token resolve ttlFloat x true false st.ctx.base
  pure (s, p, o)

def genStepToken (resolve : List Char → List Char → List Char) (st : Ttl.St) (tok : List Char) :
    Except PyExc (Ttl.St × List (Obj × Obj × Obj)) :=
  if tok = [','] then do pure ({ st with wait := .obj }, [← genEmit resolve st])
  else if tok = [';'] then do pure ({ st with wait := .pred }, [← genEmit resolve st])
  else if tok = ['.'] then do pure ({ st with wait := .subj }, [← genEmit resolve st])
  else match st.wait with
    | .subj => do pure ({ st with s := ← GenS.ttl_parse_elem resolve ttlFloat st.ctx.base st.ctx.prefixes tok, wait := .pred }, [])
    | .pred => do pure ({ st with p := ← GenS.ttl_parse_elem resolve ttlFloat st.ctx.base st.ctx.prefixes tok, wait := .obj }, [])
    | .obj => do pure ({ st with o := ← GenS.ttl_parse_elem resolve ttlFloat st.ctx.base st.ctx.prefixes tok, wait := .notWaiting }, [])
    | .notWaiting => throw PyExc.valueError

/-- `n` bounds the rounds of the Python `while` loop (the model's `Ttl.lineLoop` has the same bound), `fuel` is for the scans inside -/
def genLineLoop (resolve : List Char → List Char → List Char) (fuel : Nat) : Nat → Ttl.St → List Char → Int →
    Except PyExc (Ttl.St × List (Obj × Obj × Obj))
  | 0, st, _, _ => pure (st, [])
  | n + 1, st, line, idx => do
    match ← GenS.ttl_next_line_token resolve fuel st.ctx.base line idx with
    | none => pure (st, [])
    | some (tok, idx') =>
      let (st1, out1) ← genStepToken resolve st tok
      let (st2, out2) ← genLineLoop resolve fuel n st1 line idx'
      pure (st2, out1 ++ out2)

theorem gtl_tune_prop (tok : List Char) :
    (GenS.tune_prop tok false).map strOfObj = (Ttl.tuneProp (some tok)).mapError excOfTtl := by
  simp only [GenS.tune_prop, GenStr.remove_corners_soft, Ttl.tuneProp]
  rfl

theorem gtl_emit (resolve : List Char → List Char → List Char) (st : Ttl.St) :
    (genEmit resolve st).map tripleOfObjs = (Ttl.emit resolve st).mapError excOfTtl := by
  obtain ⟨ctx, wait, s, p, o⟩ := st
  unfold genEmit Ttl.emit
  cases s with
  | none => rfl
  | some a =>
    rcases gnr_map_mapError _ _ _ _ (tune_subj_ttl_eq a) with ⟨va, ha, ha'⟩ | ⟨ea, ha, ha'⟩
    · cases p with
      | none => simp only [bind, Except.bind, ha, ha']; rfl
      | some b =>
        rcases gnr_map_mapError _ _ _ _ (gtl_tune_prop b) with ⟨vb, hb, hb'⟩ | ⟨eb, hb, hb'⟩
        · cases o with
          | none => simp only [bind, Except.bind, ha, ha', hb, hb']; rfl
          | some c =>
            rcases gnr_map_mapError _ _ _ _ (tune_token_ttl_eq resolve ctx.base c) with ⟨vc, hc, hc'⟩ | ⟨ec, hc, hc'⟩
            · simp only [bind, Except.bind, ha, ha', hb, hb', hc, hc']; rfl
            · simp only [bind, Except.bind, ha, ha', hb, hb', hc, hc']; rfl
        · simp only [bind, Except.bind, ha, ha', hb, hb']; rfl
    · simp only [bind, Except.bind, ha, ha']; rfl

theorem gtl_step (resolve : List Char → List Char → List Char) (st : Ttl.St) (tok : List Char) :
    (genStepToken resolve st tok).map (fun r => (r.1, r.2.map tripleOfObjs)) =
      (Ttl.stepToken resolve st tok).mapError excOfTtl := by
  unfold genStepToken Ttl.stepToken
  by_cases c1 : tok = [',']
  · rw [if_pos c1, if_pos c1]
    rcases gnr_map_mapError _ _ _ _ (gtl_emit resolve st) with ⟨v, h, h'⟩ | ⟨e, h, h'⟩
    · simp only [bind, Except.bind, h, h']; rfl
    · simp only [bind, Except.bind, h, h']; rfl
  rw [if_neg c1, if_neg c1]
  by_cases c2 : tok = [';']
  · rw [if_pos c2, if_pos c2]
    rcases gnr_map_mapError _ _ _ _ (gtl_emit resolve st) with ⟨v, h, h'⟩ | ⟨e, h, h'⟩
    · simp only [bind, Except.bind, h, h']; rfl
    · simp only [bind, Except.bind, h, h']; rfl
  rw [if_neg c2, if_neg c2]
  by_cases c3 : tok = ['.']
  · rw [if_pos c3, if_pos c3]
    rcases gnr_map_mapError _ _ _ _ (gtl_emit resolve st) with ⟨v, h, h'⟩ | ⟨e, h, h'⟩
    · simp only [bind, Except.bind, h, h']; rfl
    · simp only [bind, Except.bind, h, h']; rfl
  rw [if_neg c3, if_neg c3]
  have hp := Shexer.GenStrTtlElem.parse_elem_eq resolve st.ctx tok
  cases hw : st.wait with
  | subj =>
    simp only [bind, Except.bind, hp]
    cases Ttl.parseElem resolve st.ctx tok <;> rfl
  | pred =>
    simp only [bind, Except.bind, hp]
    cases Ttl.parseElem resolve st.ctx tok <;> rfl
  | obj =>
    simp only [bind, Except.bind, hp]
    cases Ttl.parseElem resolve st.ctx tok <;> rfl
  | notWaiting => rfl

open Shexer.GenStrTtlTok Shexer.GenStrNtTok Shexer.GenStrTtlScan in
theorem gtl_post_nonneg (resolve : List Char → List Char → List Char) (base : Option (List Char)) (s : List Char) (fuel k : Nat)
    (hf : s.length + 1 ≤ fuel)
    (hc : ∀ t, s.drop k = '<' :: t → Nt.toCorner ('<' :: t) ≠ none) (tok : List Char) (j : Int)
    (h : ttk_post resolve fuel base s (.inl (k : Int)) = .ok (some (tok, j))) : 0 ≤ j := by
  by_cases hk : k < s.length
  · have hd := drop_cons s k hk
    have hget : s[k]? = some s[k] := List.getElem?_eq_getElem hk
    generalize s[k] = c at hd hget
    rw [ttk_post_cons resolve fuel base s k c hget] at h
    by_cases c1 : Ttl.isClosure c = true
    · rw [if_pos c1] at h
      injection h with h; injection h with h; injection h with _ h
      omega
    · rw [if_neg c1] at h
      by_cases c2 : c = '<'
      · rw [if_pos c2] at h
        subst c2
        cases hco : Nt.toCorner (s.drop k) with
        | none => exact absurd (hd ▸ hco) (hc _ hd)
        | some p =>
          obtain ⟨tk, rest⟩ := p
          rw [ntB_findAt_corner s k (by omega), hco] at h
          simp only [] at h
          cases hpc : GenS.ttl_parse_cornered_element resolve base
              (slice s (some (k : Int)) (some (((k + tk.length : Nat) : Int) - 1 + 1))) with
          | error e => rw [hpc] at h; cases h
          | ok r =>
            rw [hpc] at h
            simp only [bind, Except.bind] at h
            injection h with h; injection h with h; injection h with _ h
            omega
      · rw [if_neg c2] at h
        by_cases c3 : c = '"'
        · rw [if_pos c3] at h
          subst c3
          rw [quoted_literal_ending_eq s k fuel hget hf] at h
          cases hcl : Nt.closing (s.drop (k + 1)) with
          | none => rw [hcl] at h; cases h
          | some p =>
            obtain ⟨content, rest⟩ := p
            rw [hcl] at h
            cases rest with
            | nil =>
              simp only [bind, Except.bind] at h
              injection h with h; injection h with h; injection h with _ h
              omega
            | cons d r =>
              simp only [] at h
              by_cases d1 : d = ' '
              · simp only [d1, if_true, bind, Except.bind] at h
                injection h with h; injection h with h; injection h with _ h
                omega
              · simp only [d1, if_false] at h
                by_cases d2 : (d = '^' || d = '@') = true
                · simp only [d2, if_true, bind, Except.bind] at h
                  injection h with h; injection h with h; injection h with _ h
                  omega
                · simp only [d2] at h
                  cases h
        · rw [if_neg c3, find_next_blank_eq s k (by omega)] at h
          simp only [bind, Except.bind] at h
          injection h with h; injection h with h; injection h with _ h
          omega
  · rw [ttk_post_nil resolve fuel base s k (by omega)] at h
    cases h

open Shexer.GenStrTtlTok in
theorem gtl_next_idx_nonneg (resolve : List Char → List Char → List Char) (base : Option (List Char)) (s : List Char) (i fuel : Nat)
    (hf : s.length + 1 ≤ fuel)
    (hc : ∀ t, (s.drop i).dropWhile (· = ' ') = '<' :: t → Nt.toCorner ('<' :: t) ≠ none) (tok : List Char) (k : Int)
    (h : GenS.ttl_next_line_token resolve fuel base s (i : Int) = .ok (some (tok, k))) : 0 ≤ k := by
  rw [ttk_unfold, ttk_skip_loop s fuel i (by omega) (by omega)] at h
  have hdrop : s.drop (i + ((s.drop i).takeWhile (· = ' ')).length) = (s.drop i).dropWhile (· = ' ') := by
    rw [← List.drop_drop, ttk_drop_takeWhile]
  exact gtl_post_nonneg resolve base s fuel _ hf (by rw [hdrop]; exact hc) tok k h

theorem genLineLoop_eq (resolve : List Char → List Char → List Char) (fuel n : Nat) (st : Ttl.St) (line : List Char) (i : Nat)
    (hf : line.length + 1 ≤ fuel)
    (hc : ∀ j t, (line.drop j).dropWhile (· = ' ') = '<' :: t → Nt.toCorner ('<' :: t) ≠ none) :
    (genLineLoop resolve fuel n st line (i : Int)).map (fun r => (r.1, r.2.map tripleOfObjs)) =
      (Ttl.lineLoop resolve n st (line.drop i)).mapError excOfTtl := by
  induction n generalizing st i with
  | zero => rfl
  | succ n ih =>
    unfold genLineLoop Ttl.lineLoop
    have hci : ∀ t, (line.drop i).dropWhile (· = ' ') = '<' :: t → Nt.toCorner ('<' :: t) ≠ none := hc i
    rcases gnr_map_mapError _ _ _ _ (Shexer.GenStrTtlTok.next_line_token_eq resolve st.ctx line i fuel hf hci)
      with ⟨v, h, h'⟩ | ⟨e, h, h'⟩
    · cases v with
      | none => simp only [bind, Except.bind, h, h']; rfl
      | some p =>
        obtain ⟨tok, idx'⟩ := p
        have hnn := gtl_next_idx_nonneg resolve st.ctx.base line i fuel hf hci tok idx' h
        obtain ⟨m, hm⟩ : ∃ m : Nat, idx' = (m : Int) := ⟨idx'.toNat, by omega⟩
        subst hm
        simp only [Option.map, Int.toNat_natCast] at h'
        simp only [bind, Except.bind, h, h']
        rcases gnr_map_mapError _ _ _ _ (gtl_step resolve st tok) with ⟨w, hs, hs'⟩ | ⟨e, hs, hs'⟩
        · simp only [hs, hs']
          rcases gnr_map_mapError _ _ _ _ (ih w.1 m) with ⟨u, hl, hl'⟩ | ⟨e, hl, hl'⟩
          · simp only [hl, hl']
            simp [Except.map, Except.mapError, pure, Except.pure]
          · simp only [hl, hl']; rfl
        · simp only [hs, hs']; rfl
    · simp only [bind, Except.bind, h, h']; rfl

end Shexer.GenTtlReader
