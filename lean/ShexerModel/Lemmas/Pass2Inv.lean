import ShexerModel.Lemmas.Pass2Spec
/-! Structural invariants of pass 2: the key list never changes, keys stay distinct, every
feature dictionary stays well-formed with positive counts. -/
namespace Shexer
namespace Profiler
open Dict

structure DInv (d : IDict) : Prop where
  wf : Dict.WF d
  ok : ∀ n ni, Dict.get? d n = some ni → FeatOK ni.direct ∧ FeatOK ni.inverse

theorem keys_upd_of_contains {ν : Type} (d : Dict String ν) (k : String) (f : Option ν → ν)
    (h : Dict.contains d k = true) : Dict.keys (Dict.upd d k f) = Dict.keys d := by
  rw [Dict.keys_upd, if_pos h]

theorem contains_of_isInstance {d : IDict} {t : Term} (h : isInstance d t = true) : Dict.contains d t.key = true := by
  unfold isInstance at h
  simp only [Bool.and_eq_true] at h
  exact h.2

theorem annotateSubject_inv (cfg : Config) (d : IDict) (t : Triple) (hi : isInstance d t.s = true) (h : DInv d) :
    DInv (annotateSubject cfg d t) ∧ Dict.keys (annotateSubject cfg d t) = Dict.keys d := by
  refine ⟨⟨?_, ?_⟩, ?_⟩
  · exact Dict.WF_upd _ _ _ h.wf
  · intro n ni hg
    rw [get?_annotateSubject] at hg
    obtain ⟨ni0, hni0⟩ := isInstance_key hi
    by_cases hk : t.s.key = n
    · subst hk
      simp only [if_true, hni0, Option.getD_some, Option.some.injEq] at hg
      subst hg
      obtain ⟨h1, h2⟩ := h.ok _ _ hni0
      exact ⟨FeatOK_bumpAll _ _ _ h1, h2⟩
    · simp only [hk, if_false] at hg
      exact h.ok _ _ hg
  · exact keys_upd_of_contains _ _ _ (contains_of_isInstance hi)

theorem annotateObject_inv (cfg : Config) (d : IDict) (t : Triple) (hi : isInstance d t.o = true) (h : DInv d) :
    DInv (annotateObject cfg d t) ∧ Dict.keys (annotateObject cfg d t) = Dict.keys d := by
  refine ⟨⟨?_, ?_⟩, ?_⟩
  · exact Dict.WF_upd _ _ _ h.wf
  · intro n ni hg
    rw [get?_annotateObject] at hg
    obtain ⟨ni0, hni0⟩ := isInstance_key hi
    by_cases hk : t.o.key = n
    · subst hk
      simp only [if_true, hni0, Option.getD_some, Option.some.injEq] at hg
      subst hg
      obtain ⟨h1, h2⟩ := h.ok _ _ hni0
      exact ⟨h1, FeatOK_bumpAll _ _ _ h2⟩
    · simp only [hk, if_false] at hg
      exact h.ok _ _ hg
  · exact keys_upd_of_contains _ _ _ (contains_of_isInstance hi)

theorem step_inv (cfg : Config) (d : IDict) (t : Triple) (h : DInv d) :
    DInv (step cfg d t) ∧ Dict.keys (step cfg d t) = Dict.keys d := by
  rw [step_eq]
  have h1 : DInv (phase1 cfg d t) ∧ Dict.keys (phase1 cfg d t) = Dict.keys d := by
    unfold phase1
    by_cases hs : isInstance d t.s = true
    · rw [if_pos hs]; exact annotateSubject_inv cfg d t hs h
    · rw [if_neg hs]; exact ⟨h, rfl⟩
  unfold phase2
  by_cases hc : cfg.inverse = true ∧ isInstance (phase1 cfg d t) t.o = true
  · rw [if_pos hc]
    obtain ⟨a, b⟩ := annotateObject_inv cfg _ t hc.2 h1.1
    exact ⟨a, b.trans h1.2⟩
  · rw [if_neg hc]; exact h1

theorem foldl_step_inv (cfg : Config) (ts : List Triple) (d : IDict) (h : DInv d) :
    DInv (ts.foldl (step cfg) d) ∧ Dict.keys (ts.foldl (step cfg) d) = Dict.keys d := by
  induction ts generalizing d with
  | nil => exact ⟨h, rfl⟩
  | cons t ts ih =>
    obtain ⟨a, b⟩ := step_inv cfg d t h
    obtain ⟨a', b'⟩ := ih _ a
    exact ⟨a', b'.trans b⟩

theorem DInv_adapt (inst : Tracker.InstDict) (h : Dict.WF inst) : DInv (adapt inst) := by
  refine ⟨?_, ?_⟩
  · unfold adapt; exact Dict.WF_map_snd inst (fun _ c => ({ classes := c } : NodeInfo)) h
  · intro n ni hg
    rw [get?_adapt] at hg
    cases hi : Dict.get? inst n with
    | none => rw [hi] at hg; simp at hg
    | some c =>
      rw [hi] at hg
      simp only [Option.map_some, Option.some.injEq] at hg
      subst hg
      exact ⟨FeatOK_nil, FeatOK_nil⟩

theorem pass2_inv (cfg : Config) (inst : Tracker.InstDict) (g : Graph) (h : Dict.WF inst) :
    DInv (pass2 cfg inst g) ∧ Dict.keys (pass2 cfg inst g) = Dict.keys inst := by
  unfold pass2
  obtain ⟨a, b⟩ := foldl_step_inv cfg (g.filter (passesFilter cfg)) (adapt inst) (DInv_adapt inst h)
  exact ⟨a, b.trans (keys_adapt inst)⟩

end Profiler
end Shexer
