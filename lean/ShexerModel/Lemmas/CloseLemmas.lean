import ShexerModel.Lemmas.FigureLemmas
/-! C05: the shapes handed to the serialisers are closed under shape references, have pairwise
distinct classes, and carry the label derived from their class. -/
namespace Shexer
namespace Shexer
open Profiler

def names (shapes : List Shape) : List String := shapes.map (·.name)

/-! ### helpers for the removal of empty shapes -/

theorem dropRefs_name (cfg : Config) (gone : List String) (sh : Shape) : (dropRefs cfg gone sh).name = sh.name :=
  (dropRefs_sub cfg gone sh).1

theorem dropRefs_classUri (cfg : Config) (gone : List String) (sh : Shape) :
    (dropRefs cfg gone sh).classUri = sh.classUri :=
  (dropRefs_sub cfg gone sh).2.1

/-- a statement that survives `dropRefs` does not refer to a removed shape (provided inverse statements only occur
when `cfg.inverse` is on) -/
theorem dropRefs_keep (cfg : Config) (gone : List String) (sh : Shape)
    (hinv : cfg.inverse = false → ∀ s ∈ sh.stmts, s.inverse = false)
    (s : Stmt) (hs : s ∈ (dropRefs cfg gone sh).stmts) : s.ty ∉ gone := by
  unfold dropRefs at hs
  split at hs
  · simp only [List.mem_append, List.mem_filter] at hs
    rcases hs with h | h
    · have := h.2; simp only [Bool.and_eq_true, Bool.not_eq_true'] at this; simpa using this.1
    · have := h.2; simp only [Bool.and_eq_true, Bool.not_eq_true'] at this; simpa using this.1
  · rename_i hi
    have hi' : cfg.inverse = false := by simpa using hi
    simp only [List.mem_append, List.mem_filter] at hs
    rcases hs with h | h
    · have := hinv hi' s h.1
      rw [this] at h
      simp at h
    · have := h.2; simp only [Bool.and_eq_true, Bool.not_eq_true'] at this; simpa using this.1

theorem cleanEmptyAux_no_dangling (cfg : Config) (N : List String) (fuel : Nat) (shapes : List Shape)
    (hinv : cfg.inverse = false → ∀ sh ∈ shapes, ∀ s ∈ sh.stmts, s.inverse = false)
    (h : ∀ sh ∈ shapes, ∀ s ∈ sh.stmts, s.ty ∈ N → s.ty ∈ names shapes) :
    ∀ sh ∈ cleanEmptyAux cfg fuel shapes, ∀ s ∈ sh.stmts, s.ty ∈ N → s.ty ∈ names (cleanEmptyAux cfg fuel shapes) := by
  induction fuel generalizing shapes with
  | zero => exact h
  | succ fuel ih =>
    unfold cleanEmptyAux
    simp only
    split
    · exact h
    · apply ih
      · intro hi sh' hsh' s hs
        simp only [List.mem_map, List.mem_filter] at hsh'
        obtain ⟨sh, ⟨hsh, _⟩, rfl⟩ := hsh'
        exact hinv hi sh hsh s ((dropRefs_sub cfg _ sh).2.2.2 s hs)
      · intro sh' hsh' s hs hN
        simp only [List.mem_map, List.mem_filter] at hsh'
        obtain ⟨sh, ⟨hsh, _⟩, rfl⟩ := hsh'
        have hk := dropRefs_keep cfg _ sh (fun hi => hinv hi sh hsh) s hs
        have hin := h sh hsh s ((dropRefs_sub cfg _ sh).2.2.2 s hs) hN
        unfold names at hin ⊢
        rw [List.mem_map] at hin
        obtain ⟨sh2, hsh2, hname⟩ := hin
        rw [List.mem_map]
        have hf : sh2 ∈ shapes.filter fun sh =>
            !((shapes.filter fun sh => sh.stmts.isEmpty).map (·.name)).contains sh.name := by
          rw [List.mem_filter]
          refine ⟨hsh2, ?_⟩
          rw [hname]
          simpa using hk
        exact ⟨_, List.mem_map_of_mem hf, by rw [dropRefs_name]; exact hname⟩

/-- **`cleanEmpty_no_dangling` under the hypothesis that inverse statements only occur with `inverse_paths`** -/
theorem cleanEmpty_no_dangling_partial (cfg : Config) (shapes : List Shape)
    (hinv : cfg.inverse = false → ∀ sh ∈ shapes, ∀ s ∈ sh.stmts, s.inverse = false)
    (sh : Shape) (hsh : sh ∈ cleanEmpty cfg shapes)
    (s : Stmt) (hs : s ∈ sh.stmts) (href : s.ty ∈ names shapes) : s.ty ∈ names (cleanEmpty cfg shapes) := by
  unfold cleanEmpty at hsh ⊢
  split at hsh
  · rename_i hr
    rw [if_pos hr]
    exact cleanEmptyAux_no_dangling cfg (names shapes) _ shapes hinv (fun _ _ _ _ h => h) sh hsh s hs href
  · rename_i hr
    rw [if_neg hr]
    exact href

theorem cleanEmptyAux_no_empty (cfg : Config) (fuel : Nat) (shapes : List Shape) (hl : shapes.length < fuel) :
    ∀ sh ∈ cleanEmptyAux cfg fuel shapes, sh.stmts ≠ [] := by
  induction fuel generalizing shapes with
  | zero => omega
  | succ fuel ih =>
    unfold cleanEmptyAux
    simp only
    split
    · rename_i hg
      intro sh hsh he
      have : sh.name ∈ (shapes.filter fun sh => sh.stmts.isEmpty).map (·.name) := by
        rw [List.mem_map]
        exact ⟨sh, List.mem_filter.mpr ⟨hsh, by simp [he]⟩, rfl⟩
      rw [List.isEmpty_iff] at hg
      rw [hg] at this
      simp at this
    · rename_i hg
      apply ih
      rw [List.length_map]
      have hlt : (shapes.filter fun sh => !((shapes.filter fun sh => sh.stmts.isEmpty).map (·.name)).contains sh.name).length
          < shapes.length := by
        rw [List.length_filter_lt_length_iff_exists]
        cases hgl : (shapes.filter fun sh => sh.stmts.isEmpty) with
        | nil => rw [hgl] at hg; simp at hg
        | cons sh0 rest =>
          have hm : sh0 ∈ shapes.filter fun sh => sh.stmts.isEmpty := by rw [hgl]; simp
          refine ⟨sh0, (List.mem_filter.mp hm).1, ?_⟩
          simp
      omega

/- `cleanEmpty_no_dangling` at full strength is false of the model (see the `_partial` / `_refuted` neighbours): (see `cleanEmpty_no_dangling_partial` above for the true variant): without `inverse_paths` (`cfg.inverse = false`) `dropRefs` keeps the inverse statements of a shape unfiltered, so for `cfg := {}`, `A := ⟨"A", "a", 1, [{prop := "p", types := ["B"], card := .plus, n := 1, inverse := true}]⟩`, `B := ⟨"B", "b", 1, []⟩` one gets `cleanEmpty cfg [A, B] = [A]` (statement of type `"B"` kept) while `names [A, B] = ["A", "B"]` and `names (cleanEmpty cfg [A, B]) = ["A"]`.  -/

/-- kernel-checked refutation of `cleanEmpty_no_dangling` as stated (the counterexample of its docstring) -/
theorem cleanEmpty_no_dangling_refuted :
    ¬ (∀ (cfg : Config) (shapes : List Shape) (sh : Shape), sh ∈ cleanEmpty cfg shapes →
        ∀ s ∈ sh.stmts, s.ty ∈ names shapes → s.ty ∈ names (cleanEmpty cfg shapes)) := by
  intro h
  have := h {} [⟨"A", "a", 1, [{ prop := "p", types := ["B"], card := Card.plus, n := 1, inverse := true }]⟩, ⟨"B", "b", 1, []⟩]
    ⟨"A", "a", 1, [{ prop := "p", types := ["B"], card := Card.plus, n := 1, inverse := true }]⟩ (by decide)
    { prop := "p", types := ["B"], card := Card.plus, n := 1, inverse := true } (by decide) (by decide)
  revert this
  decide

/-- after the removal no shape is empty (when `remove_empty_shapes` is on) -/
theorem cleanEmpty_no_empty (cfg : Config) (h : cfg.removeEmpty = true) (shapes : List Shape) (sh : Shape)
    (hsh : sh ∈ cleanEmpty cfg shapes) : sh.stmts ≠ [] := by
  unfold cleanEmpty at hsh
  rw [if_pos h] at hsh
  exact cleanEmptyAux_no_empty cfg _ shapes (Nat.lt_succ_self _) sh hsh

theorem cleanEmptyAux_cls_sublist (cfg : Config) (fuel : Nat) (shapes : List Shape) :
    ((cleanEmptyAux cfg fuel shapes).map (·.classUri)).Sublist (shapes.map (·.classUri)) := by
  induction fuel generalizing shapes with
  | zero => exact List.Sublist.refl _
  | succ fuel ih =>
    unfold cleanEmptyAux
    simp only
    split
    · exact List.Sublist.refl _
    · refine (ih _).trans ?_
      rw [List.map_map]
      have : ((fun x : Shape => x.classUri) ∘ dropRefs cfg ((shapes.filter fun sh => sh.stmts.isEmpty).map (·.name)))
          = fun x : Shape => x.classUri := by
        funext x; simp [Function.comp, dropRefs_classUri]
      rw [this]
      exact List.Sublist.map _ List.filter_sublist

theorem cleanEmpty_cls_sublist (cfg : Config) (shapes : List Shape) :
    ((cleanEmpty cfg shapes).map (·.classUri)).Sublist (shapes.map (·.classUri)) := by
  unfold cleanEmpty
  split
  · exact cleanEmptyAux_cls_sublist cfg _ shapes
  · exact List.Sublist.refl _

theorem base_cls (cfg : Config) (r : Profiler.Result) :
    ((((baseShapes cfg r).map fun sh => { sh with stmts := sortDesc sh.stmts }).map (setValid cfg)).map (·.classUri))
      = Dict.keys r.profile := by
  unfold baseShapes Dict.keys
  simp only [List.map_map]
  apply List.map_congr_left
  intro e _
  rfl

/-- the classes of the final shapes are pairwise distinct (one shape per class) -/
theorem run_classes_nodup (cfg : Config) (g : Graph) : ((Shexer.run cfg g).map (·.classUri)).Nodup := by
  have hs := cleanEmpty_cls_sublist cfg
    (((baseShapes cfg (Profiler.run cfg g)).map fun sh => { sh with stmts := sortDesc sh.stmts }).map (setValid cfg))
  have hrun : Shexer.run cfg g = cleanEmpty cfg
    (((baseShapes cfg (Profiler.run cfg g)).map fun sh => { sh with stmts := sortDesc sh.stmts }).map (setValid cfg)) := rfl
  rw [hrun]
  apply List.Nodup.sublist hs
  rw [base_cls]
  exact WF_clean cfg _ (build_WF cfg _ _).1

/-- shapes before the removal of empty ones -/
def preShapes (cfg : Config) (g : Graph) : List Shape :=
  (((baseShapes cfg (Profiler.run cfg g)).map fun sh => { sh with stmts := sortDesc sh.stmts }).map (setValid cfg))

theorem run_eq_clean_pre (cfg : Config) (g : Graph) : Shexer.run cfg g = cleanEmpty cfg (preShapes cfg g) := rfl

theorem preShapes_names (cfg : Config) (g : Graph) :
    (preShapes cfg g).map (·.name) = (Profiler.run cfg g).profile.map fun e => shapeName e.1 cfg.shapesNs := by
  unfold preShapes baseShapes
  simp only [List.map_map]
  apply List.map_congr_left
  intro e _
  rfl

/-! ### the types of the statements produced by the merge stages -/

/-- every type of `s` is NONLITERAL or a type of a candidate -/
def TyOk (l : List Stmt) (s : Stmt) : Prop :=
  ∀ ty ∈ s.types, ty = Gen.NONLITERAL_ELEM_TYPE ∨ ∃ c ∈ l, ty ∈ c.types

/-- a stage-1 output: its (single) type is the type of a candidate -/
def TyOne (l : List Stmt) (y : Stmt) : Prop := ∃ c ∈ l, y.types = c.types ∧ y.types.length = 1

theorem tyOne_of_inv1 (l : List Stmt) (hl : ∀ s ∈ l, Base s) (y : Stmt) (h : Inv1 l y) : TyOne l y := by
  obtain ⟨_, _, ⟨c, hc, _, ht, _⟩, _⟩ := h
  exact ⟨c, hc, ht.symm, by rw [← ht]; exact (hl c hc).2.2.2⟩

theorem tyOne_types (l : List Stmt) (y : Stmt) (h : TyOne l y) : TyOk l y := by
  obtain ⟨c, hc, ht, _⟩ := h
  intro ty hty
  exact Or.inr ⟨c, hc, by rw [← ht]; exact hty⟩

theorem tyOne_ty (l : List Stmt) (y : Stmt) (h : TyOne l y) : ∃ c ∈ l, y.ty ∈ c.types := by
  obtain ⟨c, hc, ht, hlen⟩ := h
  refine ⟨c, hc, ?_⟩
  rw [← ht]
  unfold Stmt.ty
  cases hq : y.types with
  | nil => rw [hq] at hlen; simp at hlen
  | cons a t => simp

theorem ite_choice_types (shapes : List Stmt) (d0 : Stmt) (ts : List String)
    (hts : ∀ ty ∈ ts, ty = d0.ty ∨ ∃ s ∈ shapes, ty = s.ty) :
    ∀ ty ∈ (if ts.length > 1 then (choiceOf d0 ts, true) else (d0, false)).1.types,
      ty ∈ d0.types ∨ ty = d0.ty ∨ ∃ s ∈ shapes, ty = s.ty := by
  intro ty hty
  split at hty
  · exact Or.inr (hts ty hty)
  · exact Or.inl hty

theorem tuneOr_types (cfg : Config) (shapes : List Stmt) (d0 : Stmt) (b : Bool) :
    ∀ ty ∈ (tuneOr cfg shapes d0 b).1.types, ty ∈ d0.types ∨ ty = d0.ty ∨ ∃ s ∈ shapes, ty = s.ty := by
  unfold tuneOr
  split
  · intro ty hty; exact Or.inl hty
  · apply ite_choice_types
    intro ty hty
    have hmap : ty ∈ shapes.map (·.ty) → ∃ s ∈ shapes, ty = s.ty := by
      intro h
      rw [List.mem_map] at h
      obtain ⟨s, hs, rfl⟩ := h
      exact ⟨s, hs, rfl⟩
    by_cases ha : cfg.allowRedundantOr = true
    · rw [if_pos ha] at hty
      rcases List.mem_append.mp hty with h | h
      · split at h
        · simp at h
        · exact Or.inl (by simpa using h)
      · exact Or.inr (hmap h)
    · rw [if_neg ha] at hty
      split at hty
      · exact Or.inr (hmap hty)
      · simp at hty

theorem mergeGroup_tyOk (cfg : Config) (l : List Stmt) (g : List Stmt) (hg : g ≠ [])
    (hmem : ∀ y ∈ g, TyOne l y) : TyOk l (mergeGroup cfg g) := by
  rw [mergeGroup_eq]
  have hb : ∀ b, (g.filter fun s => s.ty == Gen.BNODE_ELEM_TYPE).getLast? = some b → b ∈ g ∧ b.ty = Gen.BNODE_ELEM_TYPE := by
    intro b h
    have := List.mem_filter.mp (List.mem_of_getLast? h)
    exact ⟨this.1, by simpa using this.2⟩
  have hi : ∀ i, (g.filter fun s => s.ty == Gen.IRI_ELEM_TYPE).getLast? = some i → i ∈ g ∧ i.ty = Gen.IRI_ELEM_TYPE := by
    intro b h
    have := List.mem_filter.mp (List.mem_of_getLast? h)
    exact ⟨this.1, by simpa using this.2⟩
  have hs : ∀ s ∈ sortDesc (g.filter fun s => isShapeType s.ty), s ∈ g := by
    intro s h
    exact (List.mem_filter.mp ((mem_sortDesc _ s).mp h)).1
  have hgs : (sortDesc g).headD default ∈ g := by
    have := sortDesc_ne_nil g hg
    rw [← mem_sortDesc]
    cases h : sortDesc g with
    | nil => exact absurd h this
    | cons a t => simp
  have hd := domOf_spec g (sortDesc g) _ _ _ hb hi hs hgs
  simp only []
  generalize domOf (sortDesc g) _ _ _ = dom at hd ⊢
  obtain ⟨d0, isS⟩ := dom
  simp only [] at hd ⊢
  have hd0 : TyOk l d0 ∧ (d0.ty = Gen.NONLITERAL_ELEM_TYPE ∨ ∃ c ∈ l, d0.ty ∈ c.types) := by
    rcases hd with h | ⟨b, _, i, _, _, _, rfl⟩
    · exact ⟨tyOne_types l d0 (hmem d0 h), Or.inr (tyOne_ty l d0 (hmem d0 h))⟩
    · refine ⟨?_, Or.inl rfl⟩
      intro ty hty
      simp only [freshNL, List.mem_singleton] at hty
      exact Or.inl hty
  have ht := tuneOr_types cfg (sortDesc (g.filter fun s => isShapeType s.ty)) d0 isS
  generalize tuneOr cfg _ d0 isS = t at ht ⊢
  obtain ⟨d1, rep⟩ := t
  simp only [] at ht ⊢
  intro ty hty
  rcases ht ty hty with h | h | ⟨s, hs', rfl⟩
  · exact hd0.1 ty h
  · rw [h]; exact hd0.2
  · exact Or.inr (tyOne_ty l s (hmem s (hs s hs')))

theorem groupNodeAux_tyOk (cfg : Config) (l : List Stmt) :
    ∀ (fuel : Nat) (l' : List Stmt), (∀ s ∈ l', TyOne l s) → ∀ s ∈ groupNodeAux cfg fuel l', TyOk l s := by
  intro fuel
  induction fuel with
  | zero => intro l' _ s hs; simp [groupNodeAux] at hs
  | succ fuel ih =>
    intro l' hl' s hs
    cases l' with
    | nil => simp [groupNodeAux] at hs
    | cons c cs =>
      have hcs : ∀ s ∈ cs, TyOne l s := fun s h => hl' s (List.mem_cons_of_mem _ h)
      simp only [groupNodeAux] at hs
      split at hs
      · rcases List.mem_cons.mp hs with rfl | hs
        · exact tyOne_types l _ (hl' _ (by simp))
        · exact ih cs hcs s hs
      · rcases List.mem_cons.mp hs with rfl | hs
        · split
          · exact tyOne_types l _ (hl' _ (by simp))
          · apply mergeGroup_tyOk cfg l _ (by simp)
            intro y hy
            rcases List.mem_cons.mp hy with rfl | hy
            · exact hl' _ (by simp)
            · exact hcs y (List.mem_filter.mp hy).1
        · exact ih _ (fun s hs => hcs s (List.mem_filter.mp hs).1) s hs

/-- every type of a statement that leaves the merge stages is NONLITERAL or the type of a candidate -/
theorem selectValid_tyOk (cfg : Config) (l : List Stmt) (hl : ∀ s ∈ l, Base s) : ∀ s ∈ selectValid cfg l, TyOk l s :=
  groupNodeAux_tyOk cfg l _ _ (fun s hs => tyOne_of_inv1 l hl s (groupSame_inv cfg l hl s hs))

/-! ### from a statement of a pre-shape to a type key of the class profile -/

/-- `ty` is a type key of some property of `pp` -/
def TyKey {ν : Type} (pp : Dict String (Dict String ν)) (ty : String) : Prop :=
  ∃ p ks, (p, ks) ∈ pp ∧ ty ∈ Dict.keys ks

/-- `ty` is a type key of some property of some class of the profile -/
def ProfTy (prof : Profile) (ty : String) : Prop :=
  ∃ cls cp, (cls, cp) ∈ prof ∧ (TyKey cp.direct ty ∨ TyKey cp.inverse ty)

theorem tyKey_of_candidate (cfg : Config) (N : Nat) (inv : Bool) (pp : PropProfile) (c : Stmt)
    (hc : c ∈ candidates cfg N inv pp) (ty : String) (hty : ty ∈ c.types) : TyKey pp ty := by
  obtain ⟨e, he, _, rfl⟩ := (mem_candidates cfg N inv pp c).mp hc
  simp only [mkStmt, List.mem_singleton] at hty
  subst hty
  unfold entries at he
  simp only [List.mem_flatMap, List.mem_map] at he
  obtain ⟨⟨p, ks⟩, hpk, ⟨ty', cs⟩, htc, ⟨c', n'⟩, _, rfl⟩ := he
  exact ⟨p, ks, hpk, List.mem_map_of_mem (f := Prod.fst) htc⟩

/-- provenance of a statement of a pre-shape -/
theorem pre_stmt_origin (cfg : Config) (g : Graph) (sh : Shape) (hsh : sh ∈ preShapes cfg g) (s : Stmt) (hs : s ∈ sh.stmts) :
    ∃ b ∈ baseShapes cfg (Profiler.run cfg g),
      ∃ inv : Bool, (inv = true → cfg.inverse = true) ∧
        ∃ s' ∈ selectValid cfg (candsOf b inv), s = tuneOne cfg b.nInstances s' := by
  unfold preShapes at hsh
  simp only [List.mem_map] at hsh
  obtain ⟨b', ⟨b, hb, rfl⟩, rfl⟩ := hsh
  rw [setValid_eq] at hs
  simp only [tune_eq_map, List.mem_map, mem_sortDesc] at hs
  obtain ⟨s', hs', rfl⟩ := hs
  refine ⟨b, hb, ?_⟩
  unfold validOf at hs'
  simp only [filter_not_inverse, filter_inverse] at hs'
  by_cases hi : cfg.inverse = true
  · rw [if_pos hi] at hs'
    rcases List.mem_append.mp hs' with h | h
    · exact ⟨false, by simp, s', h, rfl⟩
    · exact ⟨true, fun _ => hi, s', h, rfl⟩
  · rw [if_neg hi] at hs'
    exact ⟨false, by simp, s', hs', rfl⟩

theorem pre_type_key (cfg : Config) (g : Graph) (sh : Shape) (hsh : sh ∈ preShapes cfg g) (s : Stmt) (hs : s ∈ sh.stmts)
    (ty : String) (hty : ty ∈ s.types) (hnl : ty ≠ Gen.NONLITERAL_ELEM_TYPE) :
    ProfTy (Profiler.run cfg g).profile ty := by
  obtain ⟨b, hb, inv, _, s', hs', rfl⟩ := pre_stmt_origin cfg g sh hsh s hs
  rw [(tuneOne_skeleton cfg b.nInstances s').2.1] at hty
  have hbase := candsOf_base cfg _ b hb inv
  rcases selectValid_tyOk cfg _ (fun x hx => (hbase x hx).1) s' hs' ty hty with h | ⟨c, hc, hct⟩
  · exact absurd h hnl
  · obtain ⟨cls, cp, hm, _, _, _, hst⟩ := mem_baseShapes cfg _ b hb
    unfold candsOf at hc
    rw [List.mem_filter, mem_sortDesc, hst] at hc
    refine ⟨cls, cp, hm, ?_⟩
    rcases List.mem_append.mp hc.1 with h | h
    · exact Or.inl (tyKey_of_candidate cfg _ _ _ c h ty hct)
    · split at h
      · exact Or.inr (tyKey_of_candidate cfg _ _ _ c h ty hct)
      · simp at h

/-- without `inverse_paths` no statement of a pre-shape is an inverse statement -/
theorem pre_inverse (cfg : Config) (g : Graph) (hi : cfg.inverse = false) (sh : Shape) (hsh : sh ∈ preShapes cfg g)
    (s : Stmt) (hs : s ∈ sh.stmts) : s.inverse = false := by
  obtain ⟨b, hb, inv, hinv, s', hs', rfl⟩ := pre_stmt_origin cfg g sh hsh s hs
  rw [(tuneOne_skeleton cfg b.nInstances s').2.2.1]
  have hbase := candsOf_base cfg _ b hb inv
  rw [selectValid_inverse cfg _ inv hbase s' hs']
  cases inv with
  | false => rfl
  | true => rw [hinv rfl] at hi; exact absurd hi (by simp)

/-! ### `clean`: the erased names are no longer type keys -/

/-- the shape names whose references `clean` deletes -/
def erasedNames (cfg : Config) (prof : Profile) : List String :=
  (prof.filter fun (c, cp) => !hasFeatures cp && !cfg.protectedLabels.contains c).map
    fun (c, _) => shapeName c "http://weso.es/shapes/"

theorem clean_eq (cfg : Config) (prof : Profile) (h : cfg.removeEmpty = true) :
    clean cfg prof = (prof.filter fun (c, cp) => hasFeatures cp || cfg.protectedLabels.contains c).map
      fun (c, cp) => (c, eraseTypes (erasedNames cfg prof) cp) := by
  unfold clean
  rw [if_pos h]
  rfl

theorem not_mem_keys_erase {ν : Type} (d : Dict String ν) (hw : Dict.WF d) (k : String) :
    k ∉ Dict.keys (Dict.erase d k) := by
  intro hm
  have := (Dict.get?_isSome_iff_mem_keys _ k).mpr hm
  rw [get?_erase d hw] at this
  simp at this

theorem keys_sublist_of_sublist {ν : Type} (d' d : Dict String ν) (h : d'.Sublist d) :
    (Dict.keys d').Sublist (Dict.keys d) := List.Sublist.map _ h

theorem not_mem_keys_foldl_erase {ν : Type} (names : List String) (d : Dict String ν) (hw : Dict.WF d)
    (k : String) (hk : k ∈ names) : k ∉ Dict.keys (names.foldl (fun d nm => Dict.erase d nm) d) := by
  induction names generalizing d with
  | nil => simp at hk
  | cons nm nms ih =>
    simp only [List.foldl_cons]
    rcases List.mem_cons.mp hk with rfl | hk'
    · intro hm
      exact not_mem_keys_erase d hw k ((keys_sublist_of_sublist _ _ (foldl_erase_sublist nms _)).subset hm)
    · exact ih _ (WF_erase d nm hw) hk'

theorem tyKey_eraseTypesPP (names : List String) (pp : PropProfile) (hpp : PPWF pp) (ty : String)
    (h : TyKey (eraseTypesPP names pp) ty) : TyKey pp ty ∧ ty ∉ names := by
  obtain ⟨p, ks', hm, hty⟩ := h
  unfold eraseTypesPP at hm
  rw [List.mem_map] at hm
  obtain ⟨⟨p0, ks⟩, hpk, heq⟩ := hm
  simp only [Prod.mk.injEq] at heq
  obtain ⟨rfl, rfl⟩ := heq
  have hwk : Dict.WF ks := (hpp.2 p0 ks ((Dict.mem_iff_get? pp hpp.1 _ _).mp hpk)).1
  refine ⟨⟨p0, ks, hpk, (keys_sublist_of_sublist _ _ (foldl_erase_sublist names ks)).subset hty⟩, ?_⟩
  intro hn
  exact not_mem_keys_foldl_erase names ks hwk ty hn hty

/-- a type key of the cleaned profile is a type key of the original profile that was not erased -/
theorem profTy_clean (cfg : Config) (prof : Profile) (hw : ProfWF prof) (ty : String) (h : ProfTy (clean cfg prof) ty) :
    ProfTy prof ty ∧ (cfg.removeEmpty = true → ty ∉ erasedNames cfg prof) := by
  by_cases hr : cfg.removeEmpty = true
  · rw [clean_eq cfg prof hr] at h
    obtain ⟨cls, cp', hm, hk⟩ := h
    rw [List.mem_map] at hm
    obtain ⟨⟨c0, cp⟩, hmem, heq⟩ := hm
    simp only [Prod.mk.injEq] at heq
    obtain ⟨rfl, rfl⟩ := heq
    have hin := (List.mem_filter.mp hmem).1
    have hpp := hw.2 c0 cp ((Dict.mem_iff_get? prof hw.1 _ _).mp hin)
    rcases hk with hk | hk
    · have := tyKey_eraseTypesPP _ cp.direct hpp.1 ty hk
      exact ⟨⟨c0, cp, hin, Or.inl this.1⟩, fun _ => this.2⟩
    · have := tyKey_eraseTypesPP _ cp.inverse hpp.2 ty hk
      exact ⟨⟨c0, cp, hin, Or.inr this.1⟩, fun _ => this.2⟩
  · have : clean cfg prof = prof := by unfold clean; rw [if_neg hr]
    rw [this] at h
    exact ⟨h, fun h' => absurd h' hr⟩

/-- a class of the profile survives `clean`, or the references to its shape are erased -/
theorem clean_survives (cfg : Config) (prof : Profile) (c : String) (hc : c ∈ Dict.keys prof) :
    c ∈ Dict.keys (clean cfg prof) ∨
      (cfg.removeEmpty = true ∧ shapeName c "http://weso.es/shapes/" ∈ erasedNames cfg prof) := by
  by_cases hr : cfg.removeEmpty = true
  · rw [clean_eq cfg prof hr]
    unfold Dict.keys at hc
    rw [List.mem_map] at hc
    obtain ⟨⟨c0, cp⟩, hm, rfl⟩ := hc
    by_cases hf : (hasFeatures cp || cfg.protectedLabels.contains c0) = true
    · left
      unfold Dict.keys
      rw [List.mem_map]
      refine ⟨(c0, eraseTypes (erasedNames cfg prof) cp), ?_, rfl⟩
      rw [List.mem_map]
      exact ⟨(c0, cp), List.mem_filter.mpr ⟨hm, hf⟩, rfl⟩
    · right
      refine ⟨hr, ?_⟩
      unfold erasedNames
      rw [List.mem_map]
      refine ⟨(c0, cp), List.mem_filter.mpr ⟨hm, ?_⟩, rfl⟩
      simp only [Bool.or_eq_true, not_or] at hf
      have h1 : hasFeatures cp = false := by simpa using hf.1
      have h2 : cfg.protectedLabels.contains c0 = false := by simpa using hf.2
      show (!hasFeatures cp && !cfg.protectedLabels.contains c0) = true
      rw [h1, h2]; rfl
  · left
    have : clean cfg prof = prof := by unfold clean; rw [if_neg hr]
    rw [this]; exact hc

/-! ### `build`: the type keys of the profile are type keys of the feature dictionaries -/

theorem tyKey_nil {ν : Type} (ty : String) : ¬ TyKey ([] : Dict String (Dict String ν)) ty := by
  rintro ⟨p, ks, hm, _⟩
  simp at hm

/-- two-level update: the only new type key is the updated one -/
theorem tyKey_upd2 {ν : Type} (pp : Dict String (Dict String ν)) (x1 x2 : String) (g : Option ν → ν) (ty : String)
    (h : TyKey (Dict.upd pp x1 fun ks => Dict.upd (ks.getD []) x2 g) ty) : TyKey pp ty ∨ ty = x2 := by
  obtain ⟨p, ks, hm, hty⟩ := h
  refine Dict.forall_upd pp x1 _ (fun _ v => ∀ ty ∈ Dict.keys v, TyKey pp ty ∨ ty = x2) ?_ ?_ p ks hm ty hty
  · intro k v hkv ty' hty'
    exact Or.inl ⟨k, v, hkv, hty'⟩
  · intro ty' hty'
    rw [Dict.mem_keys_upd] at hty'
    rcases hty' with rfl | hty'
    · exact Or.inr rfl
    · cases hq : Dict.get? pp x1 with
      | none => rw [hq] at hty'; simp [Dict.keys] at hty'
      | some ks0 =>
        rw [hq] at hty'
        exact Or.inl ⟨x1, ks0, Dict.mem_of_get? _ _ _ hq, hty'⟩

theorem tyKey_bumpP (pp : PropProfile) (x : Tup) (ty : String) (h : TyKey (bumpP pp x) ty) :
    TyKey pp ty ∨ ty = x.2.1 := tyKey_upd2 pp x.1 x.2.1 _ ty h

theorem tyKey_foldl_bumpP (ts : List Tup) (pp : PropProfile) (ty : String) (h : TyKey (ts.foldl bumpP pp) ty) :
    TyKey pp ty ∨ ∃ x ∈ ts, ty = x.2.1 := by
  induction ts generalizing pp with
  | nil => exact Or.inl h
  | cons x xs ih =>
    simp only [List.foldl_cons] at h
    rcases ih _ h with h1 | ⟨y, hy, rfl⟩
    · rcases tyKey_bumpP pp x ty h1 with h2 | rfl
      · exact Or.inl h2
      · exact Or.inr ⟨x, by simp, rfl⟩
    · exact Or.inr ⟨y, List.mem_cons_of_mem _ hy, rfl⟩

theorem tyKey_of_tuples (cfg : Config) (f : Feat) (x : Tup) (hx : x ∈ tuples cfg f) : TyKey f x.2.1 := by
  unfold tuples at hx
  simp only [List.mem_flatMap, List.mem_map] at hx
  obtain ⟨⟨p, ks⟩, hpk, ⟨ty, k⟩, htk, c, _, rfl⟩ := hx
  exact ⟨p, ks, hpk, List.mem_map_of_mem (f := Prod.fst) htk⟩

theorem profTy_getD (prof : Profile) (c : String) (ty : String)
    (h : TyKey ((Dict.get? prof c).getD {}).direct ty ∨ TyKey ((Dict.get? prof c).getD {}).inverse ty) : ProfTy prof ty := by
  cases hq : Dict.get? prof c with
  | none =>
    rw [hq] at h
    rcases h with h | h <;> exact absurd h (tyKey_nil ty)
  | some cp =>
    rw [hq] at h
    exact ⟨c, cp, Dict.mem_of_get? _ _ _ hq, h⟩

theorem profTy_addDirect (dts : List Tup) (prof : Profile) (c : String) (ty : String)
    (h : ProfTy (addDirect dts prof c) ty) : ProfTy prof ty ∨ ∃ x ∈ dts, ty = x.2.1 := by
  obtain ⟨cls, cp, hm, hk⟩ := h
  unfold addDirect at hm
  refine Dict.forall_upd prof c _
    (fun _ cp => (TyKey cp.direct ty ∨ TyKey cp.inverse ty) → ProfTy prof ty ∨ ∃ x ∈ dts, ty = x.2.1) ?_ ?_ cls cp hm hk
  · intro k v hkv hk'
    exact Or.inl ⟨k, v, hkv, hk'⟩
  · intro hk'
    simp only at hk'
    rcases hk' with hk' | hk'
    · rcases tyKey_foldl_bumpP dts _ ty hk' with h1 | h1
      · exact Or.inl (profTy_getD prof c ty (Or.inl h1))
      · exact Or.inr h1
    · exact Or.inl (profTy_getD prof c ty (Or.inr hk'))

theorem profTy_addInverse (its : List Tup) (prof : Profile) (c : String) (ty : String)
    (h : ProfTy (addInverse its prof c) ty) : ProfTy prof ty ∨ ∃ x ∈ its, ty = x.2.1 := by
  obtain ⟨cls, cp, hm, hk⟩ := h
  unfold addInverse at hm
  refine Dict.forall_upd prof c _
    (fun _ cp => (TyKey cp.direct ty ∨ TyKey cp.inverse ty) → ProfTy prof ty ∨ ∃ x ∈ its, ty = x.2.1) ?_ ?_ cls cp hm hk
  · intro k v hkv hk'
    exact Or.inl ⟨k, v, hkv, hk'⟩
  · intro hk'
    simp only at hk'
    rcases hk' with hk' | hk'
    · exact Or.inl (profTy_getD prof c ty (Or.inl hk'))
    · rcases tyKey_foldl_bumpP its _ ty hk' with h1 | h1
      · exact Or.inl (profTy_getD prof c ty (Or.inr h1))
      · exact Or.inr h1

theorem profTy_foldl_addDirect (dts : List Tup) (cs : List String) (prof : Profile) (ty : String)
    (h : ProfTy (cs.foldl (addDirect dts) prof) ty) : ProfTy prof ty ∨ ∃ x ∈ dts, ty = x.2.1 := by
  induction cs generalizing prof with
  | nil => exact Or.inl h
  | cons c cs ih =>
    rcases ih _ h with h1 | h1
    · exact profTy_addDirect dts prof c ty h1
    · exact Or.inr h1

theorem profTy_foldl_addInverse (its : List Tup) (cs : List String) (prof : Profile) (ty : String)
    (h : ProfTy (cs.foldl (addInverse its) prof) ty) : ProfTy prof ty ∨ ∃ x ∈ its, ty = x.2.1 := by
  induction cs generalizing prof with
  | nil => exact Or.inl h
  | cons c cs ih =>
    rcases ih _ h with h1 | h1
    · exact profTy_addInverse its prof c ty h1
    · exact Or.inr h1

theorem profTy_annotateInstance (cfg : Config) (prof : Profile) (ni : NodeInfo) (ty : String)
    (h : ProfTy (annotateInstance cfg prof ni) ty) : ProfTy prof ty ∨ TyKey ni.direct ty ∨ TyKey ni.inverse ty := by
  rw [annotateInstance_eq] at h
  have hd : ProfTy (ni.classes.foldl (addDirect (tuples cfg ni.direct)) prof) ty →
      ProfTy prof ty ∨ TyKey ni.direct ty ∨ TyKey ni.inverse ty := by
    intro h'
    rcases profTy_foldl_addDirect _ _ _ ty h' with h1 | ⟨x, hx, rfl⟩
    · exact Or.inl h1
    · exact Or.inr (Or.inl (tyKey_of_tuples cfg _ x hx))
  split at h
  · rcases profTy_foldl_addInverse _ _ _ ty h with h1 | ⟨x, hx, rfl⟩
    · exact hd h1
    · exact Or.inr (Or.inr (tyKey_of_tuples cfg _ x hx))
  · exact hd h

theorem profTy_initProfile (cfg : Config) (inst : Tracker.InstDict) (ty : String) : ¬ ProfTy (initProfile cfg inst) ty := by
  rintro ⟨cls, cp, hm, hk⟩
  have hg := (Dict.mem_iff_get? _ (WF_initProfile cfg inst) _ _).mp hm
  rw [AllEmpty_initProfile cfg inst cls cp hg] at hk
  rcases hk with hk | hk <;> exact absurd hk (tyKey_nil ty)

/-- every type key of the built profile is a type key of a feature dictionary of some node -/
theorem profTy_build (cfg : Config) (inst : Tracker.InstDict) (d : IDict) (ty : String)
    (h : ProfTy (build cfg inst d) ty) : ∃ e ∈ d, TyKey e.2.direct ty ∨ TyKey e.2.inverse ty := by
  rw [build_eq] at h
  have h0 := profTy_initProfile cfg inst ty
  generalize initProfile cfg inst = p0 at h h0
  induction d generalizing p0 with
  | nil => exact absurd h h0
  | cons e es ih =>
    simp only [List.foldl_cons] at h
    by_cases h1 : ProfTy (annotateInstance cfg p0 e.2) ty
    · rcases profTy_annotateInstance cfg p0 e.2 ty h1 with h2 | h2
      · exact absurd h2 h0
      · exact ⟨e, by simp, h2⟩
    · obtain ⟨e', he', hk⟩ := ih _ h h1
      exact ⟨e', List.mem_cons_of_mem _ he', hk⟩

/-! ### pass 2: where the type keys of the feature dictionaries come from -/

/-- `ty` is the type decided for the object or the subject of a triple, or the shape name (default namespace) of a
class of a selected instance -/
def TyFrom (cfg : Config) (inst : Tracker.InstDict) (ts : List Triple) (ty : String) : Prop :=
  (∃ t ∈ ts, ty = typeOf cfg t.p t.o ∨ ty = typeOf cfg t.p t.s) ∨
  (∃ k cs c, Dict.get? inst k = some cs ∧ c ∈ cs ∧ ty = shapeName c "http://weso.es/shapes/")

/-- every type key of every feature dictionary satisfies `P` -/
def NodeTy (d : IDict) (P : String → Prop) : Prop :=
  ∀ e ∈ d, ∀ ty, (TyKey e.2.direct ty ∨ TyKey e.2.inverse ty) → P ty

theorem tyKey_bump (f : Feat) (p ty0 ty : String) (h : TyKey (bump f p ty0) ty) : TyKey f ty ∨ ty = ty0 :=
  tyKey_upd2 f p ty0 _ ty h

theorem tyKey_bumpAll (f : Feat) (p : String) (tys : List String) (ty : String) (h : TyKey (bumpAll f p tys) ty) :
    TyKey f ty ∨ ty ∈ tys := by
  unfold bumpAll at h
  induction tys generalizing f with
  | nil => exact Or.inl h
  | cons t ts ih =>
    simp only [List.foldl_cons] at h
    rcases ih _ h with h1 | h1
    · rcases tyKey_bump f p t ty h1 with h2 | rfl
      · exact Or.inl h2
      · exact Or.inr (by simp)
    · exact Or.inr (List.mem_cons_of_mem _ h1)

theorem annotateSubject_eq (cfg : Config) (d : IDict) (t : Triple) :
    annotateSubject cfg d t = Dict.upd d t.s.key fun o =>
      { o.getD default with direct := bumpAll (o.getD default).direct t.p (subjBumps cfg d t) } := rfl

theorem annotateObject_eq (cfg : Config) (d : IDict) (t : Triple) :
    annotateObject cfg d t = Dict.upd d t.o.key fun o =>
      { o.getD default with inverse := bumpAll (o.getD default).inverse t.p (objBumps cfg d t) } := rfl

theorem nodeTy_annotateSubject (cfg : Config) (d : IDict) (t : Triple) (P : String → Prop)
    (hi : isInstance d t.s = true) (h : NodeTy d P) (hb : ∀ ty ∈ subjBumps cfg d t, P ty) :
    NodeTy (annotateSubject cfg d t) P := by
  obtain ⟨ni, hni⟩ := isInstance_key hi
  rw [annotateSubject_eq]
  intro e he
  obtain ⟨k, v⟩ := e
  refine Dict.forall_upd d t.s.key _ (fun _ v => ∀ ty, (TyKey v.direct ty ∨ TyKey v.inverse ty) → P ty) ?_ ?_ k v he
  · intro k' v' hkv; exact h (k', v') hkv
  · rw [hni]
    intro ty hk
    simp only [Option.getD_some] at hk
    have hold := h (t.s.key, ni) (Dict.mem_of_get? _ _ _ hni) ty
    rcases hk with hk | hk
    · rcases tyKey_bumpAll _ _ _ ty hk with h1 | h1
      · exact hold (Or.inl h1)
      · exact hb ty h1
    · exact hold (Or.inr hk)

theorem nodeTy_annotateObject (cfg : Config) (d : IDict) (t : Triple) (P : String → Prop)
    (hi : isInstance d t.o = true) (h : NodeTy d P) (hb : ∀ ty ∈ objBumps cfg d t, P ty) :
    NodeTy (annotateObject cfg d t) P := by
  obtain ⟨ni, hni⟩ := isInstance_key hi
  rw [annotateObject_eq]
  intro e he
  obtain ⟨k, v⟩ := e
  refine Dict.forall_upd d t.o.key _ (fun _ v => ∀ ty, (TyKey v.direct ty ∨ TyKey v.inverse ty) → P ty) ?_ ?_ k v he
  · intro k' v' hkv; exact h (k', v') hkv
  · rw [hni]
    intro ty hk
    simp only [Option.getD_some] at hk
    have hold := h (t.o.key, ni) (Dict.mem_of_get? _ _ _ hni) ty
    rcases hk with hk | hk
    · exact hold (Or.inl hk)
    · rcases tyKey_bumpAll _ _ _ ty hk with h1 | h1
      · exact hold (Or.inr h1)
      · exact hb ty h1

theorem mem_shapesOf (d : IDict) (k ty : String) (h : ty ∈ shapesOf d k) :
    ∃ cs, cls d k = some cs ∧ ∃ c ∈ cs, ty = shapeName c "http://weso.es/shapes/" := by
  unfold shapesOf at h
  unfold cls
  cases hq : Dict.get? d k with
  | none => rw [hq] at h; simp at h
  | some ni =>
    rw [hq] at h
    simp only [List.mem_map] at h
    obtain ⟨c, hc, rfl⟩ := h
    exact ⟨ni.classes, rfl, c, hc, rfl⟩

theorem subjBumps_from (cfg : Config) (inst : Tracker.InstDict) (ts : List Triple) (d : IDict)
    (hcls : ∀ k, cls d k = Dict.get? inst k) (t : Triple) (ht : t ∈ ts) :
    ∀ ty ∈ subjBumps cfg d t, TyFrom cfg inst ts ty := by
  intro ty hty
  unfold subjBumps at hty
  rcases List.mem_cons.mp hty with rfl | h
  · exact Or.inl ⟨t, ht, Or.inl rfl⟩
  · split at h
    · obtain ⟨cs, hcs, c, hc, rfl⟩ := mem_shapesOf d _ ty h
      rw [hcls] at hcs
      exact Or.inr ⟨_, cs, c, hcs, hc, rfl⟩
    · simp at h

theorem objBumps_from (cfg : Config) (inst : Tracker.InstDict) (ts : List Triple) (d : IDict)
    (hcls : ∀ k, cls d k = Dict.get? inst k) (t : Triple) (ht : t ∈ ts) :
    ∀ ty ∈ objBumps cfg d t, TyFrom cfg inst ts ty := by
  intro ty hty
  unfold objBumps at hty
  rcases List.mem_cons.mp hty with rfl | h
  · exact Or.inl ⟨t, ht, Or.inr rfl⟩
  · split at h
    · obtain ⟨cs, hcs, c, hc, rfl⟩ := mem_shapesOf d _ ty h
      rw [hcls] at hcs
      exact Or.inr ⟨_, cs, c, hcs, hc, rfl⟩
    · simp at h

theorem nodeTy_step (cfg : Config) (inst : Tracker.InstDict) (ts : List Triple) (d : IDict) (t : Triple) (ht : t ∈ ts)
    (hcls : ∀ k, cls d k = Dict.get? inst k) (h : NodeTy d (TyFrom cfg inst ts)) :
    NodeTy (step cfg d t) (TyFrom cfg inst ts) := by
  rw [step_eq]
  have hc1 : ∀ k, cls (phase1 cfg d t) k = Dict.get? inst k := fun k => by rw [(phase1_spec cfg d t).1 k, hcls]
  have h1 : NodeTy (phase1 cfg d t) (TyFrom cfg inst ts) := by
    unfold phase1
    split
    · rename_i hi
      exact nodeTy_annotateSubject cfg d t _ hi h (subjBumps_from cfg inst ts d hcls t ht)
    · exact h
  unfold phase2
  split
  · rename_i hi
    exact nodeTy_annotateObject cfg _ t _ hi.2 h1 (objBumps_from cfg inst ts _ hc1 t ht)
  · exact h1

theorem nodeTy_foldl_step (cfg : Config) (inst : Tracker.InstDict) (ts0 ts : List Triple) (hsub : ∀ t ∈ ts, t ∈ ts0)
    (d : IDict) (hcls : ∀ k, cls d k = Dict.get? inst k) (h : NodeTy d (TyFrom cfg inst ts0)) :
    NodeTy (ts.foldl (step cfg) d) (TyFrom cfg inst ts0) := by
  induction ts generalizing d with
  | nil => exact h
  | cons t ts ih =>
    simp only [List.foldl_cons]
    apply ih (fun t' ht' => hsub t' (List.mem_cons_of_mem _ ht'))
    · intro k; rw [(step_spec cfg d t).1 k, hcls]
    · exact nodeTy_step cfg inst ts0 d t (hsub t (by simp)) hcls h

/-- **type keys after pass 2**: the decided type of an end of a triple, or the shape name of a class of an instance -/
theorem nodeTy_pass2 (cfg : Config) (inst : Tracker.InstDict) (g : Graph) :
    NodeTy (pass2 cfg inst g) (TyFrom cfg inst g) := by
  unfold pass2
  apply nodeTy_foldl_step cfg inst g _ (fun t ht => (List.mem_filter.mp ht).1)
  · intro k; exact cls_adapt inst k
  · intro e he ty hk
    unfold adapt at he
    rw [List.mem_map] at he
    obtain ⟨⟨k, cs⟩, _, rfl⟩ := he
    rcases hk with hk | hk <;> exact absurd hk (tyKey_nil ty)

/-! ### every class of a selected instance has an entry in the built profile -/

theorem mem_keys_foldl_upd {ν : Type} (l : List String) (F : String → Option ν → ν) (d : Dict String ν) (k : String) :
    k ∈ Dict.keys (l.foldl (fun d c => Dict.upd d c (F c)) d) ↔ k ∈ l ∨ k ∈ Dict.keys d := by
  induction l generalizing d with
  | nil => simp
  | cons c cs ih =>
    simp only [List.foldl_cons]
    rw [ih, Dict.mem_keys_upd]
    simp only [List.mem_cons]
    constructor
    · rintro (h | h | h)
      · exact Or.inl (Or.inr h)
      · exact Or.inl (Or.inl h)
      · exact Or.inr h
    · rintro ((h | h) | h)
      · exact Or.inr (Or.inl h)
      · exact Or.inl h
      · exact Or.inr (Or.inr h)

theorem mem_keys_initFold (inst : Tracker.InstDict) (p0 : Profile) (c : String)
    (h : c ∈ Dict.keys p0 ∨ ∃ e ∈ inst, c ∈ e.2) :
    c ∈ Dict.keys (inst.foldl (fun d e => e.2.foldl (fun d c => Dict.setDefault d c ({} : ClassProfile)) d) p0) := by
  induction inst generalizing p0 with
  | nil =>
    rcases h with h | ⟨e, he, _⟩
    · exact h
    · simp at he
  | cons e es ih =>
    simp only [List.foldl_cons]
    apply ih
    have hk := mem_keys_foldl_upd e.2 (fun _ (o : Option ClassProfile) => o.getD {}) p0 c
    rcases h with h | ⟨e', he', hc⟩
    · exact Or.inl (hk.mpr (Or.inr h))
    · rcases List.mem_cons.mp he' with rfl | he''
      · exact Or.inl (hk.mpr (Or.inl hc))
      · exact Or.inr ⟨e', he'', hc⟩

theorem mem_keys_initProfile (cfg : Config) (inst : Tracker.InstDict) (e : String × List String) (he : e ∈ inst)
    (c : String) (hc : c ∈ e.2) : c ∈ Dict.keys (initProfile cfg inst) := by
  unfold initProfile
  exact mem_keys_initFold inst _ c (Or.inr ⟨e, he, hc⟩)

theorem keys_annotateInstance (cfg : Config) (prof : Profile) (ni : NodeInfo) (c : String) (h : c ∈ Dict.keys prof) :
    c ∈ Dict.keys (annotateInstance cfg prof ni) := by
  rw [annotateInstance_eq]
  have h1 : c ∈ Dict.keys (ni.classes.foldl (addDirect (tuples cfg ni.direct)) prof) := by
    unfold addDirect
    exact (mem_keys_foldl_upd ni.classes _ prof c).mpr (Or.inr h)
  split
  · unfold addInverse
    exact (mem_keys_foldl_upd ni.classes _ _ c).mpr (Or.inr h1)
  · exact h1

theorem keys_build (cfg : Config) (inst : Tracker.InstDict) (d : IDict) (c : String)
    (h : c ∈ Dict.keys (initProfile cfg inst)) : c ∈ Dict.keys (build cfg inst d) := by
  rw [build_eq]
  generalize initProfile cfg inst = p0 at h
  induction d generalizing p0 with
  | nil => exact h
  | cons e es ih =>
    simp only [List.foldl_cons]
    exact ih _ (keys_annotateInstance cfg p0 e.2 c h)

/-! ### closedness -/

theorem nonliteral_not_ref : Gen.NONLITERAL_ELEM_TYPE.startsWith Gen.STARTING_CHAR_FOR_SHAPE_NAME = false := by
  rw [String.startsWith_string_eq_false_iff]
  decide

theorem empty_not_ref : ("" : String).startsWith Gen.STARTING_CHAR_FOR_SHAPE_NAME = false := by
  rw [String.startsWith_string_eq_false_iff]
  decide

/-- **closedness before the removal, under the hypothesis that no decided type of an end of a triple (a datatype, or a
class IRI in object position of the instantiation property) starts with `%`**: every shape reference among the types of
a statement names a shape of the list.  (`cfg.cap = 0` and `cfg.protectedLabels = []` are not needed.) -/
theorem pre_closed_partial (cfg : Config) (hns : cfg.shapesNs = "http://weso.es/shapes/") (g : Graph)
    (hdt : ∀ t ∈ g, (typeOf cfg t.p t.o).startsWith Gen.STARTING_CHAR_FOR_SHAPE_NAME = false ∧
      (typeOf cfg t.p t.s).startsWith Gen.STARTING_CHAR_FOR_SHAPE_NAME = false)
    (sh : Shape) (hsh : sh ∈ preShapes cfg g) (s : Stmt) (hs : s ∈ sh.stmts) (ty : String) (hty : ty ∈ s.types)
    (href : ty.startsWith Gen.STARTING_CHAR_FOR_SHAPE_NAME = true) :
    ty ∈ names (preShapes cfg g) := by
  have hnl : ty ≠ Gen.NONLITERAL_ELEM_TYPE := by
    intro h
    rw [h, nonliteral_not_ref] at href
    exact absurd href (by simp)
  have h1 := pre_type_key cfg g sh hsh s hs ty hty hnl
  have hprof : (Profiler.run cfg g).profile =
      clean cfg (build cfg (Tracker.track cfg g) (pass2 cfg (Tracker.track cfg g) g)) := rfl
  rw [hprof] at h1
  obtain ⟨h2, hne⟩ := profTy_clean cfg _ (ProfWF_build cfg _ _) ty h1
  obtain ⟨e, he, hk⟩ := profTy_build cfg _ _ ty h2
  rcases nodeTy_pass2 cfg (Tracker.track cfg g) g e he ty hk with ⟨t, ht, h | h⟩ | ⟨k, cs, c, hg, hc, rfl⟩
  · rw [h, (hdt t ht).1] at href
    exact absurd href (by simp)
  · rw [h, (hdt t ht).2] at href
    exact absurd href (by simp)
  · have hk1 := mem_keys_initProfile cfg (Tracker.track cfg g) (k, cs) (Dict.mem_of_get? _ _ _ hg) c hc
    have hk2 := keys_build cfg (Tracker.track cfg g) (pass2 cfg (Tracker.track cfg g) g) c hk1
    rcases clean_survives cfg _ c hk2 with h | ⟨hr, hmem⟩
    · unfold names
      rw [preShapes_names, hprof, hns]
      unfold Dict.keys at h
      rw [List.mem_map] at h ⊢
      obtain ⟨e', he', rfl⟩ := h
      exact ⟨e', he', rfl⟩
    · exact absurd hmem (hne hr)

/- `pre_closed` at full strength is false of the model (see the `_partial` / `_refuted` neighbours): (see `pre_closed_partial` above for the true variant): a literal whose datatype starts with `%` yields a type that looks like a shape reference but names no shape. With `cfg := {allClasses := true}` and `g := [⟨.iri "x", rdf:type, .iri "C"⟩, ⟨.iri "x", "p", .lit "%dt"⟩]` the only pre-shape `%<http://weso.es/shapes/C>` has a statement with types `["%dt"]`.  -/

/-- **closedness of the final shapes, under the same hypothesis on the decided types** (choice statements included:
the first type of a choice statement is covered too) -/
theorem run_closed_partial (cfg : Config) (hns : cfg.shapesNs = "http://weso.es/shapes/") (g : Graph)
    (hdt : ∀ t ∈ g, (typeOf cfg t.p t.o).startsWith Gen.STARTING_CHAR_FOR_SHAPE_NAME = false ∧
      (typeOf cfg t.p t.s).startsWith Gen.STARTING_CHAR_FOR_SHAPE_NAME = false)
    (sh : Shape) (hsh : sh ∈ Shexer.run cfg g) (s : Stmt) (hs : s ∈ sh.stmts)
    (href : s.ty.startsWith Gen.STARTING_CHAR_FOR_SHAPE_NAME = true) :
    s.ty ∈ names (Shexer.run cfg g) := by
  rw [run_eq_clean_pre] at hsh ⊢
  obtain ⟨sh0, hsh0, hsub⟩ := cleanEmpty_sub cfg _ sh hsh
  have hs0 := hsub.2.2.2 s hs
  have hmem : s.ty ∈ s.types := by
    unfold Stmt.ty at href ⊢
    cases hq : s.types with
    | nil =>
      rw [hq] at href
      simp only [List.headD_nil] at href
      rw [empty_not_ref] at href
      exact absurd href (by simp)
    | cons a t => simp
  have hpre := pre_closed_partial cfg hns g hdt sh0 hsh0 s hs0 s.ty hmem href
  exact cleanEmpty_no_dangling_partial cfg (preShapes cfg g) (fun hi => pre_inverse cfg g hi) sh hsh s hs hpre

/- `run_closed` at full strength is false of the model (see the `_partial` / `_refuted` neighbours): (see `run_closed_partial` above for the true variant): same counterexample as for `pre_closed` — the final shape `%<http://weso.es/shapes/C>` has the non-choice statement of type `"%dt"`.  -/

end Shexer
end Shexer
