import ShexerModel.Lemmas.GenStrNtTokA
/-! The literal token and the whole line tokenizer of the regenerated N-Triples reader against `Nt.literalToken` / `Nt.tokens`. -/
namespace Shexer.GenStrNtTok
open Shexer PyOps

/-! ### the model functions split their argument -/

theorem ntB_closing_spec (l content rest : List Char) (h : Nt.closing l = some (content, rest)) :
    l = content ++ '"' :: rest := by
  induction l using Nt.closing.induct generalizing content rest with
  | case1 => simp [Nt.closing] at h
  | case2 t =>
    rw [Nt.closing.eq_def] at h; simp at h
    obtain ⟨h1, h2⟩ := h
    subst h1; subst h2; rfl
  | case3 hc =>
    rw [Nt.closing.eq_def] at h; simp at h
  | case4 d t' hc ih =>
    rw [Nt.closing.eq_def] at h; simp at h
    obtain ⟨a, hab, h1⟩ := h
    subst h1
    rw [ih a rest hab]; simp
  | case5 c t hc hc' ih =>
    rw [Nt.closing.eq_def] at h; simp [hc, hc'] at h
    obtain ⟨a, hab, h1⟩ := h
    subst h1
    rw [ih a rest hab]; simp

theorem ntB_toCorner_spec (l tok rest : List Char) (h : Nt.toCorner l = some (tok, rest)) :
    l = tok ++ rest ∧ 1 ≤ tok.length := by
  induction l generalizing tok rest with
  | nil => simp [Nt.toCorner] at h
  | cons c t ih =>
    simp only [Nt.toCorner] at h
    split at h
    · simp at h; obtain ⟨h1, h2⟩ := h; subst h1; subst h2; simp
    · simp at h
      obtain ⟨a, hab, h1⟩ := h
      subst h1
      have := ih a rest hab
      simp [this.1]

theorem ntB_getLast?_split {α} (l : List α) (x : α) (h : l.getLast? = some x) : l = l.dropLast ++ [x] := by
  have hne : l ≠ [] := by intro h0; simp [h0] at h
  have := List.dropLast_concat_getLast hne
  rw [List.getLast?_eq_some_getLast hne] at h
  simp at h
  rw [h] at this; exact this.symm

theorem ntB_toBlank_spec (l : List Char) : l = (Nt.toBlank l).1 ++ (Nt.toBlank l).2 := by
  unfold Nt.toBlank
  simp only
  split
  · rename_i h
    have h2 := ntB_getLast?_split _ _ h
    simp only
    conv => lhs; rw [← List.takeWhile_append_dropWhile (p := fun c => !Nt.isSpace c && c != '#') (l := l)]
    conv => lhs; rw [h2]
    simp
  · simp

/-! ### `PyOps` at natural-number indices -/

theorem ntB_clamp_nat (len a : Nat) : clamp len (a : Int) = min a len := by
  unfold clamp
  have : ¬ ((a : Int) < 0) := by omega
  simp only [this, if_false, Int.toNat_natCast]
  split <;> omega

theorem ntB_slice_nat (l : List Char) (a b : Nat) :
    slice l (some (a : Int)) (some (b : Int)) = (l.drop a).take (b - a) := by
  unfold slice
  simp only [ntB_clamp_nat]
  rw [List.drop_take]
  by_cases hb : b ≤ l.length
  · by_cases ha : a ≤ l.length
    · simp [Nat.min_eq_left hb, Nat.min_eq_left ha]
    · have : b - a = 0 := by omega
      simp [this]; omega
  · have hb' : min b l.length = l.length := by omega
    rw [hb']
    by_cases ha : a ≤ l.length
    · rw [Nat.min_eq_left ha]
      rw [List.take_of_length_le (by simp), List.take_of_length_le (by simp; omega)]
    · have : min a l.length = l.length := by omega
      rw [this]; simp
      omega

theorem ntB_index_nat (l : List Char) (k : Nat) (c : Char) (h : l[k]? = some c) : PyOps.index l (k : Int) = Except.ok c := by
  unfold PyOps.index
  have : ¬ ((k : Int) < 0) := by omega
  simp only [this, if_false, Int.toNat_natCast, h]
  rfl

theorem ntB_findFrom_corner (l : List Char) (n k : Nat) (hn : l.length - k = n) (hk : k ≤ l.length) :
    findFrom l ['>'] k = (Nt.toCorner (l.drop k)).map (fun p => k + p.1.length - 1) := by
  induction n generalizing k with
  | zero =>
    have : k = l.length := by omega
    subst this
    rw [findFrom]; simp [Nt.toCorner]
  | succ n ih =>
    rw [findFrom]
    have h1 : ¬ (k + ['>'].length > l.length) := by simp; omega
    simp only [h1, if_false]
    have hlt : k < l.length := by omega
    rw [ih (k+1) (by omega) (by omega)]
    rw [List.drop_eq_getElem_cons hlt]
    generalize l.drop (k+1) = t
    generalize l[k] = c
    by_cases hc : c = '>'
    · simp [hc, Nt.toCorner]
    · have : ¬ ('>' = c) := fun h => hc h.symm
      simp only [Nt.toCorner, hc, if_false]
      have : (['>'].isPrefixOf (c :: t)) = false := by simp [List.isPrefixOf, this]
      simp only [this]
      cases Nt.toCorner t with
      | none => simp
      | some p => simp

theorem ntB_findAt_corner (l : List Char) (k : Nat) (hk : k ≤ l.length) :
    findAt l ['>'] (k : Int) = match Nt.toCorner (l.drop k) with
      | some (tok, _) => ((k + tok.length : Nat) : Int) - 1
      | none => -1 := by
  unfold findAt
  have : ¬ ((k : Int) > (l.length : Int)) := by omega
  simp only [this, if_false, ntB_clamp_nat, Nat.min_eq_left hk]
  rw [ntB_findFrom_corner l _ k rfl hk]
  cases h : Nt.toCorner (List.drop k l) with
  | none => simp
  | some p =>
    obtain ⟨tok, rest⟩ := p
    have := (ntB_toCorner_spec _ _ _ h).2
    simp; omega

/-! ### the literal token -/

theorem ntB_space_caret : Nt.isSpace '^' = false := by decide
theorem ntB_space_at : Nt.isSpace '@' = false := by decide

theorem ntB_literalToken_some (l content rest : List Char) (h : Nt.closing l = some (content, rest)) :
    Nt.literalToken l =
      if rest.take 1 == "@".toList then some ('"' :: content ++ ['"'] ++ (Nt.toBlank rest).1, (Nt.toBlank rest).2)
      else if rest.take 3 == "^^<".toList then (Nt.toCorner rest).map fun x => ('"' :: content ++ ['"'] ++ x.1, x.2)
      else if rest.take 2 == "^^".toList then some ('"' :: content ++ ['"'] ++ (Nt.toBlank rest).1, (Nt.toBlank rest).2)
      else some ('"' :: content ++ ['"'], rest) := by
  unfold Nt.literalToken
  simp only [h]
  split
  · simp
  · simp
  · rename_i tl h1
    rcases tl with _ | ⟨e, t⟩
    · simp
    · have : e ≠ '<' := by intro he; exact h1 t (by rw [he])
      simp [this]
  · rename_i h1 h2 h3
    rcases rest with _ | ⟨c, t⟩
    · simp
    · have hc : c ≠ '@' := by intro he; exact h1 t (by rw [he])
      by_cases hc2 : c = '^'
      · subst hc2
        rcases t with _ | ⟨d, t⟩
        · simp
        · have hd : d ≠ '^' := by intro he; exact h3 t (by rw [he])
          simp [hd]
      · simp [hc, hc2]

theorem literal_token_eq (s : List Char) (i fuel : Nat) (hq : s[i]? = some '"') (hf : s.length + 1 ≤ fuel) :
    GenS.nt_look_for_last_index_of_literal_token fuel s (i : Int) =
      Except.ok (match Nt.literalToken (s.drop (i + 1)) with
                 | some (tok, _) => ((i + tok.length : Nat) : Int) - 1
                 | none => -1) := by
  unfold GenS.nt_look_for_last_index_of_literal_token
  rw [closing_quotes_eq s i fuel hf]
  have hi : i < s.length := by
    rcases Nat.lt_or_ge i s.length with h | h
    · exact h
    · rw [List.getElem?_eq_none h] at hq; cases hq
  cases hcl : Nt.closing (s.drop (i+1)) with
  | none =>
    simp only [bind, Except.bind, pure, Except.pure, Nt.literalToken, hcl]
    have e1 : ((s.length : Int) - 1 + 1) = ((s.length : Nat) : Int) := by omega
    have e2 : ((s.length : Int) - 1 + 2) = ((s.length + 1 : Nat) : Int) := by omega
    have e3 : ((s.length : Int) - 1 + 3) = ((s.length + 2 : Nat) : Int) := by omega
    have e4 : ((s.length : Int) - 1 + 4) = ((s.length + 3 : Nat) : Int) := by omega
    rw [e1, e2, e3, e4]
    simp only [ntB_slice_nat, List.drop_length, List.take_nil]
    have h1 : (([] : List Char) == "@".toList) = false := by decide
    have h2 : (([] : List Char) == "^^<".toList) = false := by decide
    have h3 : (([] : List Char) == "^^".toList) = false := by decide
    simp only [h1, h2, h3, Bool.false_eq_true, if_false]
    congr 1
    simp only [List.length_cons, List.length_drop]
    have : i + (s.length - (i + 1) + 1) = s.length := by omega
    rw [this]
  | some p =>
    obtain ⟨content, rest⟩ := p
    rw [ntB_literalToken_some _ _ _ hcl]
    simp only [bind, Except.bind, pure, Except.pure]
    have hsp := ntB_closing_spec _ _ _ hcl
    obtain ⟨ic, hic⟩ : ∃ ic, i + 1 + content.length = ic := ⟨_, rfl⟩
    simp only [hic]
    have hdrop : s.drop (ic + 1) = rest := by
      have : ic + 1 = (i + 1) + (content.length + 1) := by omega
      rw [this, ← List.drop_drop, hsp]
      simp
    have hlen : ic + 1 + rest.length = s.length := by
      have := congrArg List.length hdrop
      have h2 := congrArg List.length hsp
      simp at this h2
      omega
    have e1 : ((ic : Nat) : Int) + 1 = ((ic + 1 : Nat) : Int) := by omega
    have e2 : ((ic : Nat) : Int) + 2 = ((ic + 2 : Nat) : Int) := by omega
    have e3 : ((ic : Nat) : Int) + 3 = ((ic + 3 : Nat) : Int) := by omega
    have e4 : ((ic : Nat) : Int) + 4 = ((ic + 4 : Nat) : Int) := by omega
    rw [e1, e2, e3, e4]
    simp only [ntB_slice_nat, hdrop]
    have a1 : ic + 2 - (ic + 1) = 1 := by omega
    have a2 : ic + 3 - (ic + 1) = 2 := by omega
    have a3 : ic + 4 - (ic + 1) = 3 := by omega
    rw [a1, a2, a3]
    have hget : ∀ c t, rest = c :: t → s[ic + 1]? = some c := by
      intro c t h
      have : (s.drop (ic + 1))[0]? = some c := by rw [hdrop, h]; rfl
      rw [List.getElem?_drop] at this
      simpa using this
    have hbb : ∀ c t, rest = c :: t → Nt.isSpace c = false → c ≠ '#' →
        GenS.nt_look_for_last_index_before_blank fuel s ((ic + 1 : Nat) : Int) =
          Except.ok (((ic + 1 + (Nt.toBlank rest).1.length : Nat) : Int) - 1) := by
      intro c t h hs hh
      rw [before_blank_eq s (ic + 1) fuel c (hget c t h) hs hh hf, hdrop]
    by_cases c1 : (List.take 1 rest == "@".toList) = true
    · simp only [c1, ↓reduceIte]
      obtain ⟨t, ht⟩ : ∃ t, rest = '@' :: t := by
        rcases rest with _ | ⟨c, t⟩
        · simp at c1
        · simp at c1; exact ⟨t, by rw [c1]⟩
      rw [hbb '@' t ht ntB_space_at (by decide)]
      congr 1
      simp only [List.length_append, List.length_cons, List.length_nil]
      have : i + (content.length + 1 + (0 + 1) + (Nt.toBlank rest).fst.length) = ic + 1 + (Nt.toBlank rest).fst.length := by omega
      rw [this]
    · simp only [c1, Bool.false_eq_true, ↓reduceIte]
      by_cases c2 : (List.take 3 rest == "^^<".toList) = true
      · simp only [c2, ↓reduceIte]
        have hgt : ">".toList = ['>'] := rfl
        rw [hgt, ntB_findAt_corner s (ic + 1) (by omega), hdrop]
        cases hco : Nt.toCorner rest with
        | none => simp
        | some p =>
          simp only [Option.map_some]
          congr 1
          simp only [List.length_append, List.length_cons, List.length_nil]
          have : i + (content.length + 1 + (0 + 1) + p.fst.length) = ic + 1 + p.fst.length := by omega
          rw [this]
      · simp only [c2, Bool.false_eq_true, ↓reduceIte]
        by_cases c3 : (List.take 2 rest == "^^".toList) = true
        · simp only [c3, ↓reduceIte]
          obtain ⟨t, ht⟩ : ∃ t, rest = '^' :: t := by
            rcases rest with _ | ⟨c, t⟩
            · simp at c3
            · rcases t with _ | ⟨d, t⟩
              · simp at c3
              · simp at c3; exact ⟨_, by rw [c3.1]⟩
          rw [hbb '^' t ht ntB_space_caret (by decide)]
          congr 1
          simp only [List.length_append, List.length_cons, List.length_nil]
          have : i + (content.length + 1 + (0 + 1) + (Nt.toBlank rest).fst.length) = ic + 1 + (Nt.toBlank rest).fst.length := by omega
          rw [this]
        · simp only [c3, Bool.false_eq_true, ↓reduceIte]
          congr 1
          simp only [List.length_append, List.length_cons, List.length_nil]
          have : i + (content.length + 1 + (0 + 1)) = ic + 1 := by omega
          rw [this]
          show (ic:Int) = ((ic+1:Nat):Int) - 1
          omega

/-! ### the line tokenizer -/

/-- the body of the `while` loop of `GenS.nt_look_for_tokens` (same text) -/
def ntB_tokBody (fuel : Nat) (str_line : List Char) :
    Int × List (List Char) → Except PyExc (PyOps.Ctl (Int × List (List Char)) (List (List Char))) :=
  (fun (current_first_index, result) => do
  if !(← (do
  pure (!(current_first_index == ((str_line).length : Int))))) then pure (PyOps.Ctl.brk (current_first_index, result)) else (do
  let c_1 ← PyOps.index str_line current_first_index
  if (c_1 == '<') then (do
  let r_2 ← GenS.nt_look_for_last_index_of_uri_token str_line current_first_index
  let last_index := r_2
  let result := result ++ [(PyOps.slice str_line (some current_first_index) (some (last_index + (1 : Int))))]
  let current_first_index := (last_index + (1 : Int))
  pure (PyOps.Ctl.next (current_first_index, result)))
  else (do
  let c_3 ← PyOps.index str_line current_first_index
  if (c_3 == '"') then (do
  let r_4 ← GenS.nt_look_for_last_index_of_literal_token fuel str_line current_first_index
  let last_index := r_4
  let result := result ++ [(PyOps.slice str_line (some current_first_index) (some (last_index + (1 : Int))))]
  let current_first_index := (last_index + (1 : Int))
  pure (PyOps.Ctl.next (current_first_index, result)))
  else (do
  let c_5 ← PyOps.index str_line current_first_index
  if (c_5 == '_') then (do
  let r_6 ← GenS.nt_look_for_last_index_of_bnode_token fuel str_line current_first_index
  let last_index := r_6
  let result := result ++ [(PyOps.slice str_line (some current_first_index) (some (last_index + (1 : Int))))]
  let current_first_index := (last_index + (1 : Int))
  pure (PyOps.Ctl.next (current_first_index, result)))
  else (do
  let c_7 ← PyOps.index str_line current_first_index
  if (c_7 == '.') then (do
  pure (PyOps.Ctl.brk (current_first_index, result)))
  else (do
  let c_8 ← PyOps.index str_line current_first_index
  if (PyOps.isNumeric c_8) then (do
  let r_9 ← GenS.nt_look_for_last_index_of_unlabelled_number_token fuel str_line current_first_index
  let last_index := r_9
  let result := result ++ [(PyOps.slice str_line (some current_first_index) (some (last_index + (1 : Int))))]
  let current_first_index := (last_index + (1 : Int))
  pure (PyOps.Ctl.next (current_first_index, result)))
  else (do
  let current_first_index := (current_first_index + (1 : Int))
  pure (PyOps.Ctl.next (current_first_index, result)))))))))

theorem ntB_tokens_unfold (fuel : Nat) (line : List Char) :
    GenS.nt_look_for_tokens fuel line =
      (do let w ← PyOps.whileFuel (ntB_tokBody fuel line) fuel ((0 : Int), ([] : List (List Char)))
          match w with
          | .inr v => pure v
          | .inl (_, result) => pure result) := rfl

theorem ntB_tokBody_end (F : Nat) (line : List Char) (acc : List (List Char)) :
    ntB_tokBody F line ((line.length : Int), acc) = Except.ok (Ctl.brk ((line.length : Int), acc)) := by
  simp [ntB_tokBody, bind, Except.bind, pure, Except.pure]

/-- a token was cut: the loop goes on behind it -/
def ntB_stepNext (line : List Char) (k : Nat) (acc : List (List Char)) (v : Int) :
    Except PyExc (Ctl (Int × List (List Char)) (List (List Char))) :=
  Except.ok (Ctl.next (v + 1, acc ++ [slice line (some (k : Int)) (some (v + 1))]))

theorem ntB_tokBody_char (F : Nat) (line : List Char) (k : Nat) (c : Char) (acc : List (List Char)) (h : line[k]? = some c) :
    ntB_tokBody F line ((k : Int), acc) =
      if c = '<' then GenS.nt_look_for_last_index_of_uri_token line (k : Int) >>= ntB_stepNext line k acc
      else if c = '"' then GenS.nt_look_for_last_index_of_literal_token F line (k : Int) >>= ntB_stepNext line k acc
      else if c = '_' then GenS.nt_look_for_last_index_before_blank F line (k : Int) >>= ntB_stepNext line k acc
      else if c = '.' then Except.ok (Ctl.brk ((k : Int), acc))
      else if Nt.isNumeric c then GenS.nt_look_for_last_index_before_blank F line (k : Int) >>= ntB_stepNext line k acc
      else Except.ok (Ctl.next ((k : Int) + 1, acc)) := by
  have hk : k < line.length := by
    rcases Nat.lt_or_ge k line.length with h' | h'
    · exact h'
    · rw [List.getElem?_eq_none h'] at h; cases h
  have hne : ((k : Int) == (line.length : Int)) = false := by
    simp; omega
  have hnum : PyOps.isNumeric c = Nt.isNumeric c := rfl
  simp only [ntB_tokBody, bind, Except.bind, pure, Except.pure, ntB_index_nat _ _ _ h, hne, ntB_stepNext,
    GenS.nt_look_for_last_index_of_bnode_token, GenS.nt_look_for_last_index_of_unlabelled_number_token, hnum,
    Bool.not_false, Bool.not_true, Bool.false_eq_true, if_false, beq_iff_eq]

theorem ntB_whileFuel_next {σ ρ : Type} (body : σ → Except PyExc (Ctl σ ρ)) (f : Nat) (s s' : σ)
    (h : body s = Except.ok (Ctl.next s')) : whileFuel body (f + 1) s = whileFuel body f s' := by
  simp only [whileFuel, h, bind, Except.bind]

theorem ntB_whileFuel_brk {σ ρ : Type} (body : σ → Except PyExc (Ctl σ ρ)) (f : Nat) (s s' : σ)
    (h : body s = Except.ok (Ctl.brk s')) : whileFuel body (f + 1) s = Except.ok (Sum.inl s') := by
  simp only [whileFuel, h, bind, Except.bind, pure, Except.pure]

theorem ntB_literalToken_spec (t tok rest : List Char) (h : Nt.literalToken t = some (tok, rest)) :
    '"' :: t = tok ++ rest ∧ 1 ≤ tok.length := by
  cases hcl : Nt.closing t with
  | none =>
    simp [Nt.literalToken, hcl] at h
    obtain ⟨h1, h2⟩ := h
    subst h1; subst h2; simp
  | some p =>
    obtain ⟨content, r⟩ := p
    have hsp := ntB_closing_spec _ _ _ hcl
    rw [ntB_literalToken_some _ _ _ hcl] at h
    have hb := ntB_toBlank_spec r
    split at h
    · simp at h; obtain ⟨h1, h2⟩ := h; subst h1; subst h2
      simp [hsp]; exact hb
    · split at h
      · simp at h
        obtain ⟨a, ha, h1⟩ := h
        subst h1
        have := (ntB_toCorner_spec _ _ _ ha).1
        simp [hsp]; exact this
      · split at h
        · simp at h; obtain ⟨h1, h2⟩ := h; subst h1; subst h2
          simp [hsp]; exact hb
        · simp at h; obtain ⟨h1, h2⟩ := h; subst h1; subst h2
          simp [hsp]

theorem ntB_toBlank_pos (c : Char) (t : List Char) (hs : Nt.isSpace c = false) (hh : c ≠ '#') (hd : c ≠ '.') :
    1 ≤ (Nt.toBlank (c :: t)).1.length := by
  unfold Nt.toBlank
  have hp : (!Nt.isSpace c && c != '#') = true := by simp [hs, hh]
  simp only [List.takeWhile_cons, hp, if_true]
  split
  · rename_i h
    simp only
    generalize List.takeWhile (fun c => !Nt.isSpace c && c != '#') t = u at h
    rcases u with _ | ⟨d, u⟩
    · simp at h; exact absurd h hd
    · simp
  · simp

theorem ntB_cut_tok (line tok rest : List Char) (k : Nat) (h : line.drop k = tok ++ rest) :
    slice line (some (k : Int)) (some (((k + tok.length : Nat) : Int) - 1 + 1)) = tok ∧
      line.drop (k + tok.length) = rest ∧ (tok ≠ [] → k + tok.length ≤ line.length) := by
  have e : ((k + tok.length : Nat) : Int) - 1 + 1 = ((k + tok.length : Nat) : Int) := by omega
  rw [e, ntB_slice_nat, ← List.drop_drop, h]
  refine ⟨by simp, by simp, ?_⟩
  intro hne
  have := congrArg List.length h
  simp at this
  have : 0 < tok.length := List.length_pos_iff.mpr hne
  omega
theorem ntB_digit_facts (c : Char) (h : Nt.isNumeric c = true) : Nt.isSpace c = false ∧ c ≠ '#' ∧ c ≠ '.' := by
  unfold Nt.isNumeric Char.isDigit at h
  simp only [Bool.and_eq_true, decide_eq_true_eq] at h
  obtain ⟨h1, h2⟩ := h
  have h1' : 48 ≤ c.toNat := UInt32.le_iff_toNat_le.mp h1
  have h2' : c.toNat ≤ 57 := UInt32.le_iff_toNat_le.mp h2
  refine ⟨?_, ?_, ?_⟩
  · unfold Nt.isSpace
    simp
    omega
  · intro he; subst he; simp at h1'
  · intro he; subst he; simp at h1'

theorem ntB_tokens_loop (F : Nat) (line : List Char) (hF : line.length + 1 ≤ F) (n : Nat) :
    ∀ (k f : Nat) (acc ts : List (List Char)), k ≤ line.length → line.length - k + 1 ≤ f →
      Nt.tokensAux n (line.drop k) = some ts →
      ∃ k' : Int, whileFuel (ntB_tokBody F line) f ((k : Int), acc) = Except.ok (Sum.inl (k', acc ++ ts)) := by
  induction n with
  | zero => intro k f acc ts _ _ h; simp [Nt.tokensAux] at h
  | succ n ih =>
    intro k f acc ts hk hf h
    obtain ⟨f', rfl⟩ : ∃ f', f = f' + 1 := ⟨f - 1, by omega⟩
    rcases Nat.lt_or_ge k line.length with hlt | hge
    · have hget : line[k]? = some line[k] := List.getElem?_eq_getElem hlt
      rw [List.drop_eq_getElem_cons hlt] at h
      have hdrop := List.drop_eq_getElem_cons hlt
      generalize line[k] = c at h hget hdrop
      -- what a cut token does
      have next : ∀ (tok rest : List Char) (ts' : List (List Char)), line.drop k = tok ++ rest → 1 ≤ tok.length →
          Nt.tokensAux n rest = some ts' → ts = tok :: ts' →
          ntB_tokBody F line ((k : Int), acc) = ntB_stepNext line k acc (((k + tok.length : Nat) : Int) - 1) →
          ∃ k' : Int, whileFuel (ntB_tokBody F line) (f' + 1) ((k : Int), acc) = Except.ok (Sum.inl (k', acc ++ ts)) := by
        intro tok rest ts' hsplit hpos haux hts hbody
        obtain ⟨c1, c2, c3⟩ := ntB_cut_tok line tok rest k hsplit
        have hne : tok ≠ [] := by intro h0; rw [h0] at hpos; simp at hpos
        have c3 := c3 hne
        unfold ntB_stepNext at hbody
        rw [c1] at hbody
        have e : ((k + tok.length : Nat) : Int) - 1 + 1 = ((k + tok.length : Nat) : Int) := by omega
        rw [e] at hbody
        rw [ntB_whileFuel_next _ _ _ _ hbody]
        obtain ⟨k', hk'⟩ := ih (k + tok.length) f' (acc ++ [tok]) ts' c3 (by omega) (by rw [c2]; exact haux)
        refine ⟨k', ?_⟩
        rw [hk', hts]; simp
      rw [Nt.tokensAux] at h
      have hbody := ntB_tokBody_char F line k c acc hget
      by_cases c1 : c = '<'
      · simp only [c1, if_true] at h hbody
        rw [← c1, ← hdrop] at h
        rw [uri_token_eq line k hk] at hbody
        cases hco : Nt.toCorner (line.drop k) with
        | none => rw [hco] at h; simp at h
        | some p =>
          obtain ⟨tok, rest⟩ := p
          rw [hco] at h hbody
          simp only [Option.map_eq_some_iff] at h
          obtain ⟨ts', h1, h2⟩ := h
          obtain ⟨s1, s2⟩ := ntB_toCorner_spec _ _ _ hco
          exact next tok rest ts' s1 s2 h1 h2.symm hbody
      · simp only [c1, if_false] at h hbody
        -- tokens that end at a blank
        have blank : Nt.isSpace c = false → c ≠ '#' → c ≠ '.' →
            Option.map (fun x => (Nt.toBlank (c :: List.drop (k + 1) line)).fst :: x)
              (Nt.tokensAux n (Nt.toBlank (c :: List.drop (k + 1) line)).snd) = some ts →
            ntB_tokBody F line ((k : Int), acc) = (GenS.nt_look_for_last_index_before_blank F line (k : Int) >>= ntB_stepNext line k acc) →
            ∃ k' : Int, whileFuel (ntB_tokBody F line) (f' + 1) ((k : Int), acc) = Except.ok (Sum.inl (k', acc ++ ts)) := by
          intro hs hh hd h hbody
          have hpos := ntB_toBlank_pos c (List.drop (k + 1) line) hs hh hd
          rw [← hdrop] at h hpos
          rw [before_blank_eq line k F c hget hs hh hF] at hbody
          simp only [Option.map_eq_some_iff] at h
          obtain ⟨ts', h1, h2⟩ := h
          exact next _ _ ts' (ntB_toBlank_spec _) hpos h1 h2.symm hbody
        by_cases c2 : c = '"'
        · simp only [c2, if_true] at h hbody
          rw [literal_token_eq line k F (by rw [hget, c2]) hF] at hbody
          cases hlt : Nt.literalToken (line.drop (k + 1)) with
          | none => rw [hlt] at h; simp at h
          | some p =>
            obtain ⟨tok, rest⟩ := p
            rw [hlt] at h hbody
            simp only [Option.map_eq_some_iff] at h
            obtain ⟨ts', h1, h2⟩ := h
            obtain ⟨s1, s2⟩ := ntB_literalToken_spec _ _ _ hlt
            rw [← c2, ← hdrop] at s1
            exact next tok rest ts' s1 s2 h1 h2.symm hbody
        · simp only [c2, if_false] at h hbody
          by_cases c3 : c = '_'
          · simp only [c3, if_true] at h hbody
            rw [← c3] at h
            exact blank (by rw [c3]; decide) (by rw [c3]; decide) (by rw [c3]; decide) h hbody
          · simp only [c3, if_false] at h hbody
            by_cases c4 : c = '.'
            · simp only [c4, if_true] at h hbody
              simp only [Option.some.injEq] at h
              subst h
              refine ⟨(k : Int), ?_⟩
              rw [ntB_whileFuel_brk _ _ _ _ hbody]
              simp
            · simp only [c4, if_false] at h hbody
              by_cases c5 : Nt.isNumeric c = true
              · simp only [c5, if_true] at h hbody
                obtain ⟨d1, d2, d3⟩ := ntB_digit_facts c c5
                exact blank d1 d2 d3 h hbody
              · simp only [c5] at h hbody
                rw [ntB_whileFuel_next _ _ _ _ hbody]
                have e : (k : Int) + 1 = ((k + 1 : Nat) : Int) := by omega
                rw [e]
                exact ih (k + 1) f' acc ts (by omega) (by omega) h
    · have hkl : k = line.length := by omega
      subst hkl
      simp [Nt.tokensAux] at h
      subst h
      refine ⟨(line.length : Int), ?_⟩
      rw [ntB_whileFuel_brk _ _ _ _ (ntB_tokBody_end F line acc)]
      simp

theorem tokens_eq (line : List Char) (ts : List (List Char)) (h : Nt.tokens line = some ts) (fuel : Nat) (hf : line.length + 1 ≤ fuel) :
    GenS.nt_look_for_tokens fuel line = Except.ok ts := by
  unfold Nt.tokens at h
  obtain ⟨k', hk'⟩ := ntB_tokens_loop fuel line hf (line.length + 1) 0 fuel [] ts (by omega) (by omega) (by simpa using h)
  rw [ntB_tokens_unfold]
  have e : ((0 : Nat) : Int) = (0 : Int) := rfl
  rw [e] at hk'
  rw [hk']
  simp [bind, Except.bind, pure, Except.pure]

end Shexer.GenStrNtTok
