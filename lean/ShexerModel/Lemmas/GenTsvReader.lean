import ShexerModel.Lemmas.GenNtReader
import ShexerModel.Model.Tsv
/-! The TSV reader assembled from the regenerated functions.  `TsvNtTriplesYielder.yield_triples` does, for every line,

    tokens = self._look_for_tokens(a_line.strip())          # str_line.split("\t")
    if len(tokens) != 3: (count an error line)
    else: yield (tune_token(tokens[0]), tune_prop(tokens[1]), tune_token(tokens[2], allow_untyped_numbers=True))

`genTsvParseLine` is that body with the regenerated `GenS.tsv_look_for_tokens`, `GenS.tune_token`, `GenS.tune_prop` in the places of the calls
(glue written by hand; the `try / except ValueError` around the `yield` only logs and is outside the documents in scope).  It is the
hand-written model `Tsv.parseLine`, for every line, when `float()` is read as the model reads it. -/
namespace Shexer.GenTsvReader
open Shexer PyOps Shexer.GenStrTune2 Shexer.GenNtReader

def genTsvParseLine (resolve : List Char → List Char → List Char) (floatOf : List Char → Option Bool) (line : List Char) :
    Except PyExc (Option (Obj × Obj × Obj)) := do
  let tokens ← GenS.tsv_look_for_tokens (PyOps.strip line)
  match tokens with
  | [a, b, c] => do
    let s ← GenS.tune_token resolve floatOf a false true none
    let p ← GenS.tune_prop b true
    let o ← GenS.tune_token resolve floatOf c true true none
    pure (some (s, p, o))
  | _ => pure none

theorem gtr_tune_obj (resolve : List Char → List Char → List Char) (tok : List Char) :
    (GenS.tune_token resolve ttlFloat tok true true none).map termOfObj = (Tsv.tuneObj tok).mapError excOfNt := by
  simp only [GenS.tune_token, GenS.parse_literal, GenS.parse_unquoted_literal, GenStr.remove_corners_strict,
    GenStr.decide_literal_type_nt, Tsv.tuneObj, Nt.tuneToken, GenStr.startsWith_eq, GenStr.strip_eq, ↓reduceIte]
  by_cases c1 : Nt.startsWith tok "<" = true
  · simp only [c1, Bool.true_or, ↓reduceIte]
    rcases tn2_nt_rc_cases tok with ⟨s, h⟩ | h <;> rw [h]
    · simp [GenStr.convNt, bind, Except.bind, pure, Except.pure, Except.map, Except.mapError, termOfObj]
    · rfl
  by_cases c2 : Nt.startsWith tok "\"" = true
  · simp only [c1, c2, Bool.true_or, Bool.or_true, ↓reduceIte]
    rcases tn2_nt_dt_cases tok with ⟨s, h⟩ | h <;> rw [h]
    · simp [GenStr.convNt, bind, Except.bind, pure, Except.pure, Except.map, Except.mapError, termOfObj]
    · rfl
  by_cases c3 : Nt.startsWith tok "_:" = true
  · simp only [c1, c2, c3, Bool.true_or, Bool.or_true, ↓reduceIte]; rfl
  by_cases c4 : (Nt.strip tok == "[]".toList) = true
  · simp only [c1, c2, c3, c4, Bool.or_true, ↓reduceIte]; rfl
  by_cases c5 : Ttl.isNum tok = true
  · simp only [c1, c2, c3, c4, c5, ttlFloat, Bool.or_self, Bool.false_eq_true, ↓reduceIte]
    by_cases c6 : Ttl.isIntegral tok = true
    · simp only [c6, ↓reduceIte]; rfl
    · simp only [c6]; rfl
  · simp only [c1, c2, c3, c4, c5, ttlFloat, Bool.or_self, Bool.false_eq_true, ↓reduceIte]
    rcases tn2_nt_dt_cases tok with ⟨s, h⟩ | h <;> rw [h]
    · simp [GenStr.convNt, bind, Except.bind, pure, Except.pure, Except.map, Except.mapError, termOfObj]
    · rfl

theorem tsv_tokens_eq (l : List Char) : GenS.tsv_look_for_tokens l = Except.ok (Tsv.splitTab l) := by
  rfl

theorem genTsvParseLine_eq (resolve : List Char → List Char → List Char) (line : List Char) :
    (genTsvParseLine resolve ttlFloat line).map (Option.map tripleOfObjs) = (Tsv.parseLine line).mapError excOfNt := by
  unfold genTsvParseLine Tsv.parseLine
  rw [GenStr.strip_eq, tsv_tokens_eq]
  simp only [bind, Except.bind]
  generalize Tsv.splitTab (Nt.strip line) = ts
  match ts with
  | [] => rfl
  | [_] => rfl
  | [_, _] => rfl
  | _ :: _ :: _ :: _ :: _ => rfl
  | [a, b, c] =>
    rcases gnr_map_mapError _ _ _ _ (tune_token_nt_eq resolve ttlFloat a) with ⟨va, ha, ha'⟩ | ⟨ea, ha, ha'⟩
    · rcases gnr_map_mapError _ _ _ _ (gnr_tune_prop b) with ⟨vb, hb, hb'⟩ | ⟨eb, hb, hb'⟩
      · rcases gnr_map_mapError _ _ _ _ (gtr_tune_obj resolve c) with ⟨vc, hc, hc'⟩ | ⟨ec, hc, hc'⟩
        · simp only [ha, ha', hb, hb', hc, hc']
          rfl
        · simp only [ha, ha', hb, hb', hc, hc']
          rfl
      · simp only [ha, ha', hb, hb']
        rfl
    · simp only [ha, ha']
      rfl

end Shexer.GenTsvReader
