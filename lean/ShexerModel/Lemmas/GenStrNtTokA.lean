import ShexerModel.GeneratedStr
import ShexerModel.Model.Nt
/-! Index-based scans of the regenerated N-Triples tokenizer (`GenS.nt_look_for_*`, `while` loops over `PyOps.whileFuel`) against the
suffix-based helpers of the hand-written reader model (`Nt.closing`, `Nt.toBlank`, `Nt.toCorner`). -/
namespace Shexer.GenStrNtTok
open Shexer PyOps

/-! ### generic facts -/

theorem index_nat (s : List Char) (k : Nat) (h : k < s.length) : PyOps.index s (k : Int) = Except.ok s[k] := by
  unfold PyOps.index
  have h1 : ¬ ((k : Int) < 0) := by omega
  simp only [h1, if_false, Int.toNat_natCast, List.getElem?_eq_getElem h]
  rfl

theorem drop_cons (s : List Char) (k : Nat) (h : k < s.length) : s.drop k = s[k] :: s.drop (k + 1) :=
  List.drop_eq_getElem_cons h

theorem whileFuel_succ {σ ρ : Type} (body : σ → Except PyExc (Ctl σ ρ)) (fuel : Nat) (st : σ) :
    whileFuel body (fuel + 1) st = (body st >>= fun r => match r with
      | .next s' => whileFuel body fuel s'
      | .brk s' => pure (.inl s')
      | .ret r => pure (.inr r)) := by
  rfl

theorem slice_from_nat (l : List Char) (k : Nat) (h : k ≤ l.length) : slice l (some (k : Int)) none = l.drop k := by
  have h1 : ¬ ((k : Int) < 0) := by omega
  have h2 : ¬ (k > l.length) := by omega
  simp only [slice, clamp, h1, if_false, Int.toNat_natCast, h2, List.take_length]

/-! ### `find(">")` against `Nt.toCorner` -/

theorem toCorner_length_pos : ∀ (l tok rest : List Char), Nt.toCorner l = some (tok, rest) → 1 ≤ tok.length := by
  intro l
  induction l with
  | nil => intro tok rest h; simp [Nt.toCorner] at h
  | cons c t ih =>
    intro tok rest h
    unfold Nt.toCorner at h
    split at h
    · simp at h; rw [← h.1]; simp
    · cases hc : Nt.toCorner t with
      | none => rw [hc] at h; simp at h
      | some p =>
        rw [hc] at h
        simp at h
        rw [← h.1]; simp

theorem toCorner_cons_ne (c : Char) (t : List Char) (h : ¬ c = '>') :
    Nt.toCorner (c :: t) = (Nt.toCorner t).map fun (a, b) => (c :: a, b) := by
  rw [Nt.toCorner, if_neg h]

theorem findFrom_corner (l : List Char) : ∀ (n i : Nat), l.length - i = n → i ≤ l.length →
    findFrom l ['>'] i = (Nt.toCorner (l.drop i)).map fun p => i + p.1.length - 1 := by
  intro n
  induction n with
  | zero =>
    intro i h hi
    unfold findFrom
    have : i + ['>'].length > l.length := by simp; omega
    rw [if_pos this, List.drop_eq_nil_of_le (by omega)]; rfl
  | succ n ih =>
    intro i h hi
    unfold findFrom
    have : ¬ (i + ['>'].length > l.length) := by simp; omega
    rw [if_neg this]
    have hd := drop_cons l i (by omega)
    rw [hd]
    by_cases hx : l[i]'(by omega) = '>'
    · simp [List.isPrefixOf, hx, Nt.toCorner]
    · have hx' : ('>' == l[i]'(by omega)) = false := by
        simp; exact fun h => hx h.symm
      simp only [List.isPrefixOf, hx', Bool.false_and, Bool.false_eq_true, if_false]
      rw [ih (i + 1) (by omega) (by omega)]
      rw [toCorner_cons_ne _ _ hx]
      cases hc : Nt.toCorner (l.drop (i + 1)) with
      | none => rfl
      | some p =>
        have := toCorner_length_pos _ p.1 p.2 hc
        simp only [Option.map_some, List.length_cons]
        congr 1
        omega

/-! ### the closing-quotes scan against `Nt.closing` -/

def closingBody (target_str : List Char) : Int → Except PyExc (Ctl Int Int) := (fun index => do
  if !(← (do
  pure (decide (index < ((target_str).length : Int))))) then pure (PyOps.Ctl.brk index) else (do
  let c_1 ← PyOps.index target_str index
  if (c_1 == '\\') then (do
  let index := (index + (2 : Int))
  pure (PyOps.Ctl.next index))
  else (do
  let c_2 ← PyOps.index target_str index
  if (c_2 == '"') then (do
  pure (PyOps.Ctl.ret index))
  else (do
  let index := (index + (1 : Int))
  pure (PyOps.Ctl.next index)))))

theorem closing_unfold (fuel : Nat) (s : List Char) (i : Int) :
    GenS.nt_look_for_index_of_closing_quotes fuel s i =
      (whileFuel (closingBody s) fuel (i + 1) >>= fun w => match w with
        | .inr v => pure v
        | .inl _ => pure ((s.length : Int) - 1)) := by
  rfl

theorem closingBody_ge (s : List Char) (k : Nat) (h : s.length ≤ k) : closingBody s (k : Int) = Except.ok (Ctl.brk (k : Int)) := by
  unfold closingBody
  have : ¬ ((k : Int) < (s.length : Int)) := by omega
  simp [this]
  rfl

theorem closingBody_lt (s : List Char) (k : Nat) (h : k < s.length) : closingBody s (k : Int) =
    Except.ok (if s[k] = '\\' then Ctl.next ((k : Int) + 2) else if s[k] = '"' then Ctl.ret (k : Int) else Ctl.next ((k : Int) + 1)) := by
  unfold closingBody
  have : ((k : Int) < (s.length : Int)) := by omega
  simp only [this, index_nat s k h, decide_true, Bool.not_true, pure, Except.pure, bind, Except.bind, beq_iff_eq, Bool.false_eq_true, if_false]
  by_cases h1 : s[k] = '\\'
  · simp only [h1, if_true]
  · simp only [h1, if_false]
    by_cases h2 : s[k] = '"'
    · simp only [h2, if_true]
    · simp only [h2, if_false]

theorem closing_bs_nil : Nt.closing ['\\'] = none := by
  rw [Nt.closing.eq_def]; simp
theorem closing_bs_cons (d : Char) (t : List Char) :
    Nt.closing ('\\' :: d :: t) = (Nt.closing t).map fun (a, b) => ('\\' :: d :: a, b) := by
  rw [Nt.closing.eq_def]; simp
theorem closing_quote (t : List Char) : Nt.closing ('"' :: t) = some ([], t) := by
  rw [Nt.closing.eq_def]; simp
theorem closing_other (c : Char) (t : List Char) (h1 : ¬ c = '\\') (h2 : ¬ c = '"') :
    Nt.closing (c :: t) = (Nt.closing t).map fun (a, b) => (c :: a, b) := by
  rw [Nt.closing.eq_def]; simp only [if_neg h2, if_neg h1]

def closingPost (s : List Char) (w : Sum Int Int) : Int := match w with
  | .inr v => v
  | .inl _ => (s.length : Int) - 1

theorem closing_loop (s : List Char) : ∀ (fuel k : Nat), 1 ≤ fuel → s.length + 2 ≤ fuel + k →
    ∃ w, whileFuel (closingBody s) fuel (k : Int) = Except.ok w ∧
      closingPost s w = (match Nt.closing (s.drop k) with
                 | some (content, _) => ((k + content.length : Nat) : Int)
                 | none => (s.length : Int) - 1) := by
  intro fuel
  induction fuel with
  | zero => intro k h; omega
  | succ fuel ih =>
    intro k h1 h2
    rw [whileFuel_succ]
    by_cases hk : k < s.length
    · rw [closingBody_lt s k hk, drop_cons s k hk]
      by_cases c1 : s[k] = '\\'
      · simp only [c1, if_true]
        have hcast : ((k : Int) + 2) = ((k + 2 : Nat) : Int) := by push_cast; rfl
        show ∃ w, whileFuel (closingBody s) fuel ((k : Int) + 2) = Except.ok w ∧ _
        rw [hcast]
        obtain ⟨w, hw, hp⟩ := ih (k + 2) (by omega) (by omega)
        refine ⟨w, hw, ?_⟩
        rw [hp]
        by_cases hk1 : k + 1 < s.length
        · rw [drop_cons s (k + 1) hk1, closing_bs_cons]
          cases Nt.closing (s.drop (k + 1 + 1)) with
          | none => rfl
          | some p => simp only [Option.map_some, List.length_cons]; congr 1; omega
        · rw [List.drop_eq_nil_of_le (show s.length ≤ k + 2 by omega),
            List.drop_eq_nil_of_le (show s.length ≤ k + 1 by omega), closing_bs_nil]
          simp [Nt.closing]
      · simp only [c1, if_false]
        by_cases c2 : s[k] = '"'
        · simp only [c2, if_true, closing_quote]
          exact ⟨_, rfl, by simp [closingPost]⟩
        · simp only [c2, if_false]
          have hcast : ((k : Int) + 1) = ((k + 1 : Nat) : Int) := by push_cast; rfl
          show ∃ w, whileFuel (closingBody s) fuel ((k : Int) + 1) = Except.ok w ∧ _
          rw [hcast]
          obtain ⟨w, hw, hp⟩ := ih (k + 1) (by omega) (by omega)
          refine ⟨w, hw, ?_⟩
          rw [hp, closing_other _ _ c1 c2]
          cases Nt.closing (s.drop (k + 1)) with
          | none => rfl
          | some p => simp only [Option.map_some, List.length_cons]; congr 1; omega
    · rw [closingBody_ge s k (by omega), List.drop_eq_nil_of_le (by omega)]
      exact ⟨_, rfl, rfl⟩

theorem closing_quotes_eq (s : List Char) (i fuel : Nat) (hf : s.length + 1 ≤ fuel) :
    GenS.nt_look_for_index_of_closing_quotes fuel s (i : Int) =
      Except.ok (match Nt.closing (s.drop (i + 1)) with
                 | some (content, _) => ((i + 1 + content.length : Nat) : Int)
                 | none => (s.length : Int) - 1) := by
  rw [closing_unfold]
  have hcast : ((i : Int) + 1) = ((i + 1 : Nat) : Int) := by push_cast; rfl
  rw [hcast]
  obtain ⟨w, hw, hp⟩ := closing_loop s fuel (i + 1) (by omega) (by omega)
  rw [hw, ← hp]
  cases w <;> rfl

/-! ### the blank scan against `Nt.toBlank` -/

def blankBody (target_str : List Char) : Int → Except PyExc (Ctl Int Int) := (fun index => do
  if !(← (do
  if !(← (do
  pure (decide (index < ((target_str).length : Int))))) then pure false else (do
  if !(← (do
  let c_1 ← PyOps.index target_str index
  pure (!(PyOps.isSpace c_1)))) then pure false else (do
  let c_2 ← PyOps.index target_str index
  pure (!(c_2 == '#')))))) then pure (PyOps.Ctl.brk index) else (do
  let index := (index + (1 : Int))
  pure (PyOps.Ctl.next index)))

def blankPost (target_str : List Char) (w_3 : Sum Int Int) : Except PyExc Int :=
  match w_3 with
  | .inr v => pure v
  | .inl index => (do
  let c_4 ← PyOps.index target_str (index - (1 : Int))
  if (c_4 == '.') then (do
  let index := (index - (1 : Int))
  pure (index - (1 : Int)))
  else (do
  pure (index - (1 : Int))))

theorem blank_unfold (fuel : Nat) (s : List Char) (i : Int) :
    GenS.nt_look_for_last_index_before_blank fuel s i =
      (whileFuel (blankBody s) fuel i >>= blankPost s) := by
  rfl

def tokP (c : Char) : Bool := !Nt.isSpace c && c != '#'

theorem blankBody_ge (s : List Char) (k : Nat) (h : s.length ≤ k) : blankBody s (k : Int) = Except.ok (Ctl.brk (k : Int)) := by
  unfold blankBody
  have : ¬ ((k : Int) < (s.length : Int)) := by omega
  simp [this]
  rfl

theorem blankBody_lt (s : List Char) (k : Nat) (h : k < s.length) : blankBody s (k : Int) =
    Except.ok (if tokP s[k] then Ctl.next ((k : Int) + 1) else Ctl.brk (k : Int)) := by
  unfold blankBody
  have : ((k : Int) < (s.length : Int)) := by omega
  have e : Nt.isSpace = PyOps.isSpace := rfl
  cases hsp : PyOps.isSpace s[k] <;> cases hh : (s[k] == '#') <;>
    simp [this, index_nat s k h, tokP, e, hsp, hh, bind, Except.bind, pure, Except.pure] <;>
    simp_all

theorem blank_loop (s : List Char) : ∀ (fuel k : Nat), k ≤ s.length → s.length + 1 ≤ fuel + k →
    whileFuel (blankBody s) fuel (k : Int) =
      Except.ok (Sum.inl (((k + ((s.drop k).takeWhile tokP).length : Nat) : Int))) := by
  intro fuel
  induction fuel with
  | zero => intro k h1 h2; omega
  | succ fuel ih =>
    intro k h1 h2
    rw [whileFuel_succ]
    by_cases hk : k < s.length
    · rw [blankBody_lt s k hk, drop_cons s k hk]
      by_cases c1 : tokP s[k] = true
      · simp only [c1, if_true, List.takeWhile_cons_of_pos]
        have hcast : ((k : Int) + 1) = ((k + 1 : Nat) : Int) := by push_cast; rfl
        show whileFuel (blankBody s) fuel ((k : Int) + 1) = _
        rw [hcast, ih (k + 1) (by omega) (by omega)]
        simp only [List.length_cons]
        congr 3
        omega
      · rw [List.takeWhile_cons_of_neg c1]
        simp only [c1, if_false, Bool.false_eq_true]
        rfl
    · rw [blankBody_ge s k (by omega), List.drop_eq_nil_of_le (by omega)]
      rfl


theorem index_of_getElem? (s : List Char) (k : Nat) (c : Char) (h : s[k]? = some c) : PyOps.index s (k : Int) = Except.ok c := by
  have hk : k < s.length := by
    rcases Nat.lt_or_ge k s.length with h' | h'
    · exact h'
    · rw [List.getElem?_eq_none h'] at h; cases h
  rw [index_nat s k hk]
  rw [List.getElem?_eq_getElem hk] at h
  cases h; rfl

theorem toBlank_eq (l : List Char) : Nt.toBlank l =
    if (l.takeWhile tokP).getLast? = some '.' then ((l.takeWhile tokP).dropLast, '.' :: l.dropWhile tokP)
    else (l.takeWhile tokP, l.dropWhile tokP) := rfl

theorem takeWhile_last (s : List Char) (i : Nat) (h : 1 ≤ ((s.drop i).takeWhile tokP).length) :
    s[i + ((s.drop i).takeWhile tokP).length - 1]? = ((s.drop i).takeWhile tokP).getLast? := by
  have e : s.drop i = (s.drop i).takeWhile tokP ++ (s.drop i).dropWhile tokP := (List.takeWhile_append_dropWhile).symm
  generalize (s.drop i).takeWhile tokP = tw at e h
  have h1 : (s.drop i)[tw.length - 1]? = s[i + (tw.length - 1)]? := List.getElem?_drop
  have h2 : i + tw.length - 1 = i + (tw.length - 1) := by omega
  rw [h2, ← h1, e, List.getElem?_append_left (by omega), List.getLast?_eq_getElem?]

theorem before_blank_eq (s : List Char) (i fuel : Nat) (c : Char) (hc : s[i]? = some c) (hs : Nt.isSpace c = false) (hh : c ≠ '#')
    (hf : s.length + 1 ≤ fuel) :
    GenS.nt_look_for_last_index_before_blank fuel s (i : Int) =
      Except.ok (((i + (Nt.toBlank (s.drop i)).1.length : Nat) : Int) - 1) := by
  have hi : i < s.length := by
    rcases Nat.lt_or_ge i s.length with h' | h'
    · exact h'
    · rw [List.getElem?_eq_none h'] at hc; cases hc
  have hci : s[i] = c := by
    rw [List.getElem?_eq_getElem hi] at hc; cases hc; rfl
  have htok : tokP c = true := by simp [tokP, hs, hh]
  rw [blank_unfold, blank_loop s fuel i (by omega) (by omega), toBlank_eq]
  have hpos : 1 ≤ ((s.drop i).takeWhile tokP).length := by
    rw [drop_cons s i hi, hci, List.takeWhile_cons_of_pos htok]; simp
  have hlast := takeWhile_last s i hpos
  generalize (s.drop i).takeWhile tokP = tw at hpos hlast
  show blankPost s (Sum.inl _) = _
  unfold blankPost
  have hcast : (((i + tw.length : Nat) : Int) - 1) = ((i + tw.length - 1 : Nat) : Int) := by omega
  simp only [hcast]
  cases hg : tw.getLast? with
  | none => rw [List.getLast?_eq_none_iff] at hg; subst hg; simp at hpos
  | some d =>
    rw [hg] at hlast
    rw [index_of_getElem? s _ d hlast]
    by_cases hd : d = '.'
    · subst hd
      simp [bind, Except.bind, pure, Except.pure]
      omega
    · simp [bind, Except.bind, pure, Except.pure, hd]
      omega

theorem uri_token_eq (s : List Char) (i : Nat) (hi : i ≤ s.length) :
    GenS.nt_look_for_last_index_of_uri_token s (i : Int) =
      Except.ok (match Nt.toCorner (s.drop i) with
                 | some (tok, _) => ((i + tok.length : Nat) : Int) - 1
                 | none => (i : Int) - 1) := by
  unfold GenS.nt_look_for_last_index_of_uri_token
  have hsl : PyOps.slice s (some (i : Int)) none = s.drop i := slice_from_nat s i hi
  have hq : ">".toList = ['>'] := by simp
  simp only [hsl, hq, PyOps.find, List.length_drop]
  rw [findFrom_corner (s.drop i) _ 0 rfl (Nat.zero_le _), List.drop_zero]
  cases hc : Nt.toCorner (s.drop i) with
  | none => simp only [Option.map_none, pure, Except.pure]; congr 1; omega
  | some p =>
    have := toCorner_length_pos _ p.1 p.2 hc
    simp only [Option.map_some, pure, Except.pure]
    congr 1
    omega

end Shexer.GenStrNtTok
