import ShexerModel.Lemmas.CandLemmas
import ShexerModel.Spec.Counts
/-! C02 / C12: the two merge stages preserve the set of constraint keys and never produce two
statements with the same key. -/
namespace Shexer
namespace Shexer

/-- value class of a statement (the key of C02) -/
def vclassOf (cfg : Config) (s : Stmt) : Spec.VClass :=
  if s.prop == cfg.instProp then Spec.VClass.classValue s.ty
  else if s.choice || isNodeType s.ty || s.ty == Gen.NONLITERAL_ELEM_TYPE then Spec.VClass.nonliteral
  else Spec.VClass.datatype s.ty

def keyOf (cfg : Config) (s : Stmt) : String × Spec.VClass := (s.prop, vclassOf cfg s)

/-- ordinary candidate statement (what `candidates` produces) -/
def Plain (s : Stmt) : Prop := s.choice = false ∧ s.types.length = 1 ∧ s.ty ≠ Gen.NONLITERAL_ELEM_TYPE

/-! ### stage 1 -/

/-- the (property, type) pair of a statement -/
def pt (s : Stmt) : String × String := (s.prop, s.ty)

theorem sameKey_iff (a b : Stmt) : sameKey a b = true ↔ pt a = pt b := by
  simp [sameKey, pt]

theorem uselessPlus_find (g : List Stmt) (h : uselessPlus g = true) :
    ∃ r ∈ g, g.find? (fun s => s.card != Card.plus) = some r := by
  have hex : ∃ x ∈ g, (x.card != Card.plus) = true := by
    unfold uselessPlus at h
    split at h
    · rename_i a b
      simp only [Bool.and_eq_true] at h
      by_cases ha : (a.card == Card.plus) = true
      · refine ⟨b, by simp, ?_⟩
        have h2 := h.2
        rw [ha] at h2
        cases hb : (b.card == Card.plus)
        · simp [bne, hb]
        · rw [hb] at h2; simp at h2
      · refine ⟨a, by simp, ?_⟩
        simp only [Bool.not_eq_true] at ha
        simp [bne, ha]
    · cases h
  cases hf : g.find? (fun s => s.card != Card.plus) with
  | none =>
    rw [List.find?_eq_none] at hf
    obtain ⟨x, hx, hp⟩ := hex
    exact absurd hp (hf x hx)
  | some r => exact ⟨r, List.mem_of_find?_eq_some hf, rfl⟩

theorem orElse_head_mem (gs : List Stmt) (hne : gs ≠ []) (o : Option Stmt)
    (ho : ∀ r, o = some r → r ∈ gs) :
    ((o.orElse fun _ => gs.head?).getD default) ∈ gs := by
  cases o with
  | some r => simpa using ho r rfl
  | none =>
    cases gs with
    | nil => exact absurd rfl hne
    | cons x xs => simp

theorem decideBest_shape (cfg : Config) (g : List Stmt) (hne : g ≠ []) :
    ∃ r ∈ g, ∃ cm, decideBest cfg g = { r with comments := cm } := by
  unfold decideBest
  split
  · rename_i h
    simp only [Bool.and_eq_true] at h
    obtain ⟨r, hr, hf⟩ := uselessPlus_find g h.2
    rw [hf]
    exact ⟨r, hr, r.comments, rfl⟩
  · have hne' : sortDesc g ≠ [] := by
      intro h0
      have := length_sortDesc g
      rw [h0] at this
      cases g with
      | nil => exact hne rfl
      | cons _ _ => simp at this
    have hmem := orElse_head_mem (sortDesc g) hne'
      (if cfg.keepLessSpecific then (sortDesc g).find? fun s => s.card == Card.plus
       else (sortDesc g).find? fun s => s.card != Card.plus)
      (by
        intro r hr
        split at hr
        · exact List.mem_of_find?_eq_some hr
        · exact List.mem_of_find?_eq_some hr)
    exact ⟨_, (mem_sortDesc g _).mp hmem, _, rfl⟩

theorem decideBest_pt_plain (cfg : Config) (c : Stmt) (same : List Stmt)
    (hpt : ∀ s ∈ same, pt s = pt c) (hpl : ∀ s ∈ c :: same, Plain s) :
    pt (decideBest cfg (c :: same)) = pt c ∧ Plain (decideBest cfg (c :: same)) := by
  obtain ⟨r, hr, cm, he⟩ := decideBest_shape cfg (c :: same) (by simp)
  rw [he]
  have hptr : pt r = pt c := by
    rcases List.mem_cons.mp hr with rfl | hr'
    · rfl
    · exact hpt r hr'
  exact ⟨hptr, hpl r hr⟩

theorem groupSameAux_spec (cfg : Config) : ∀ (fuel : Nat) (l : List Stmt), l.length ≤ fuel →
    (∀ s ∈ l, Plain s) →
    (∀ s ∈ groupSameAux cfg fuel l, Plain s) ∧ ((groupSameAux cfg fuel l).map pt).Nodup ∧
      ∀ k, k ∈ (groupSameAux cfg fuel l).map pt ↔ k ∈ l.map pt := by
  intro fuel
  induction fuel with
  | zero =>
    intro l hlen _
    have : l = [] := List.eq_nil_of_length_eq_zero (by omega)
    subst this
    simp [groupSameAux]
  | succ fuel ih =>
    intro l hlen hpl
    cases l with
    | nil => simp [groupSameAux]
    | cons c cs =>
      have hrestlen : (cs.filter fun d => !sameKey c d).length ≤ fuel := by
        have := List.length_filter_le (fun d => !sameKey c d) cs
        simp only [List.length_cons] at hlen
        omega
      have hrestpl : ∀ s ∈ cs.filter (fun d => !sameKey c d), Plain s := by
        intro s hs
        exact hpl s (List.mem_cons_of_mem _ ((List.mem_filter.mp hs).1))
      obtain ⟨ih1, ih2, ih3⟩ := ih _ hrestlen hrestpl
      -- the head
      have hhead : pt (if (cs.filter (sameKey c)).isEmpty then c else decideBest cfg (c :: cs.filter (sameKey c))) = pt c
          ∧ Plain (if (cs.filter (sameKey c)).isEmpty then c else decideBest cfg (c :: cs.filter (sameKey c))) := by
        split
        · exact ⟨rfl, hpl c (by simp)⟩
        · apply decideBest_pt_plain
          · intro s hs
            have := (List.mem_filter.mp hs).2
            exact ((sameKey_iff c s).mp this).symm
          · intro s hs
            rcases List.mem_cons.mp hs with rfl | hs'
            · exact hpl _ (by simp)
            · exact hpl s (List.mem_cons_of_mem _ ((List.mem_filter.mp hs').1))
      have hunf : groupSameAux cfg (fuel + 1) (c :: cs) =
          (if (cs.filter (sameKey c)).isEmpty then c else decideBest cfg (c :: cs.filter (sameKey c))) ::
            groupSameAux cfg fuel (cs.filter fun d => !sameKey c d) := rfl
      rw [hunf]
      refine ⟨?_, ?_, ?_⟩
      · intro s hs
        rcases List.mem_cons.mp hs with rfl | hs'
        · exact hhead.2
        · exact ih1 s hs'
      · rw [List.map_cons, List.nodup_cons, hhead.1]
        refine ⟨?_, ih2⟩
        intro hmem
        rw [ih3] at hmem
        obtain ⟨d, hd, hde⟩ := List.mem_map.mp hmem
        have := (List.mem_filter.mp hd).2
        have hsk : sameKey c d = true := (sameKey_iff c d).mpr hde.symm
        simp [hsk] at this
      · intro k
        rw [List.map_cons, List.mem_cons, hhead.1, ih3, List.map_cons, List.mem_cons]
        constructor
        · rintro (h | h)
          · exact Or.inl h
          · obtain ⟨d, hd, hde⟩ := List.mem_map.mp h
            exact Or.inr (List.mem_map.mpr ⟨d, (List.mem_filter.mp hd).1, hde⟩)
        · rintro (h | h)
          · exact Or.inl h
          · obtain ⟨d, hd, hde⟩ := List.mem_map.mp h
            by_cases hk : k = pt c
            · exact Or.inl hk
            · refine Or.inr (List.mem_map.mpr ⟨d, List.mem_filter.mpr ⟨hd, ?_⟩, hde⟩)
              cases hsk : sameKey c d
              · rfl
              · exact absurd (hde ▸ ((sameKey_iff c d).mp hsk).symm) hk

/-! ### stage 2 -/

/-- what every result of the node merge looks like, for the property `p` of the group -/
def Good (p : String) (s : Stmt) : Prop :=
  s.prop = p ∧ (s.choice = true ∨ isNodeType s.ty = true ∨ s.ty = Gen.NONLITERAL_ELEM_TYPE)

/-- the dominant constraint of `mergeGroup` (copied from the model) -/
def domOf (g : List Stmt) : Stmt × Bool :=
  let gs := sortDesc g
  let bnode := (g.filter fun s => s.ty == Gen.BNODE_ELEM_TYPE).getLast?
  let iri := (g.filter fun s => s.ty == Gen.IRI_ELEM_TYPE).getLast?
  let shapes := sortDesc (g.filter fun s => isShapeType s.ty)
  match bnode with
  | some b =>
    match iri with
    | some i =>
      match shapes with
      | [s] => if i.n + b.n == s.n then (s, true)
               else ({ prop := b.prop, types := [Gen.NONLITERAL_ELEM_TYPE], card := mostGeneral b.card i.card,
                       n := b.n + i.n, inverse := b.inverse, parts := some (b.n, i.n) }, false)
      | _ => ({ prop := b.prop, types := [Gen.NONLITERAL_ELEM_TYPE], card := mostGeneral b.card i.card,
                n := b.n + i.n, inverse := b.inverse, parts := some (b.n, i.n) }, false)
    | none =>
      match shapes with
      | s :: _ => if s.n == b.n then (s, true) else (b, false)
      | [] => (b, false)
  | none =>
    match iri, shapes with
    | some i, [] => (i, false)
    | some i, s :: _ => if s.n < i.n then (i, false) else (s, true)
    | none, s :: _ => (s, true)
    | none, [] => (gs.headD default, false)

/-- `_tune_dominant_constraint_wrt_or_config` (copied from the model) -/
def tune1 (cfg : Config) (shapes : List Stmt) (d0 : Stmt) (domIsShape : Bool) : Stmt × Bool :=
  if cfg.disableOr then (d0, false)
  else
    let stTypes :=
      if cfg.allowRedundantOr then (if domIsShape then [] else [d0.ty]) ++ shapes.map (·.ty)
      else if domIsShape then shapes.map (·.ty) else []
    if stTypes.length > 1 then
      ({ prop := d0.prop, types := stTypes, choice := true, card := d0.card, n := d0.n, inverse := d0.inverse,
         parts := d0.parts }, true)
    else (d0, false)

theorem mergeGroup_eq (cfg : Config) (g : List Stmt) :
    ∃ cm, mergeGroup cfg g =
      { (tune1 cfg (sortDesc (g.filter fun s => isShapeType s.ty)) (domOf g).1 (domOf g).2).1 with comments := cm } :=
  ⟨_, rfl⟩

theorem domOf_good (p : String) (g : List Stmt) (hne : g ≠ []) (hg : ∀ s ∈ g, Good p s) :
    Good p (domOf g).1 := by
  have hb : ∀ b, (g.filter fun s => s.ty == Gen.BNODE_ELEM_TYPE).getLast? = some b → Good p b :=
    fun b h => hg b (List.mem_filter.mp (List.mem_of_getLast? h)).1
  have hi : ∀ b, (g.filter fun s => s.ty == Gen.IRI_ELEM_TYPE).getLast? = some b → Good p b :=
    fun b h => hg b (List.mem_filter.mp (List.mem_of_getLast? h)).1
  have hs : ∀ s, s ∈ sortDesc (g.filter fun s => isShapeType s.ty) → Good p s :=
    fun s h => hg s (List.mem_filter.mp ((mem_sortDesc _ _).mp h)).1
  have hfresh : ∀ b i : Stmt, Good p b →
      Good p { prop := b.prop, types := [Gen.NONLITERAL_ELEM_TYPE], card := mostGeneral b.card i.card,
               n := b.n + i.n, inverse := b.inverse, parts := some (b.n, i.n) } :=
    fun b i h => ⟨h.1, Or.inr (Or.inr rfl)⟩
  unfold domOf
  simp only []
  split
  · rename_i b hbe
    split
    · rename_i i hie
      split
      · rename_i s hse
        split
        · exact hs s (by rw [hse]; simp)
        · exact hfresh b i (hb b hbe)
      · exact hfresh b i (hb b hbe)
    · split
      · rename_i s t hse
        split
        · exact hs s (by rw [hse]; simp)
        · exact hb b hbe
      · exact hb b hbe
  · split
    · rename_i i hie _
      exact hi i hie
    · rename_i i s t hie hse
      split
      · exact hi i hie
      · exact hs s (by rw [hse]; simp)
    · rename_i s t _ hse
      exact hs s (by rw [hse]; simp)
    · have : (sortDesc g).headD default ∈ sortDesc g := by
        cases h : sortDesc g with
        | nil =>
          have := length_sortDesc g
          rw [h] at this
          cases g with
          | nil => exact absurd rfl hne
          | cons _ _ => simp at this
        | cons x xs => simp
      exact hg _ ((mem_sortDesc _ _).mp this)

theorem tune1_good (p : String) (cfg : Config) (shapes : List Stmt) (d0 : Stmt) (b : Bool)
    (h : Good p d0) : Good p (tune1 cfg shapes d0 b).1 := by
  have aux : ∀ (st : List String) (x : Stmt × Bool), x.1.prop = d0.prop → x.1.choice = true →
      Good p (if st.length > 1 then x else (d0, false)).1 := by
    intro st x hx1 hx2
    split
    · exact ⟨hx1.trans h.1, Or.inl hx2⟩
    · exact h
  unfold tune1
  split
  · exact h
  · exact aux _ _ rfl rfl

theorem mergeGroup_good (p : String) (cfg : Config) (g : List Stmt) (hne : g ≠ [])
    (hg : ∀ s ∈ g, Good p s) : Good p (mergeGroup cfg g) := by
  obtain ⟨cm, he⟩ := mergeGroup_eq cfg g
  rw [he]
  exact tune1_good p cfg _ _ _ (domOf_good p g hne hg)

theorem vclassOf_plain (cfg : Config) (s : Stmt) (h : Plain s) :
    vclassOf cfg s = if s.prop == cfg.instProp then Spec.VClass.classValue s.ty
      else if isNodeType s.ty then Spec.VClass.nonliteral else Spec.VClass.datatype s.ty := by
  unfold vclassOf
  simp [h.1, h.2.2]

/-- for ordinary statements the key is a function of (property, type) -/
theorem keyOf_of_pt (cfg : Config) (a b : Stmt) (ha : Plain a) (hb : Plain b) (h : pt a = pt b) :
    keyOf cfg a = keyOf cfg b := by
  have h1 : a.prop = b.prop := congrArg Prod.fst h
  have h2 : a.ty = b.ty := congrArg Prod.snd h
  unfold keyOf
  rw [vclassOf_plain cfg a ha, vclassOf_plain cfg b hb, h1, h2]

theorem keyOf_good (cfg : Config) (p : String) (s : Stmt) (hp : (p == cfg.instProp) = false)
    (h : Good p s) : keyOf cfg s = (p, Spec.VClass.nonliteral) := by
  obtain ⟨h1, h2⟩ := h
  unfold keyOf vclassOf
  rw [h1, hp]
  have : (s.choice || isNodeType s.ty || s.ty == Gen.NONLITERAL_ELEM_TYPE) = true := by
    rcases h2 with h | h | h
    · simp [h]
    · simp [h]
    · simp [h]
  simp [this]

theorem keyOf_nonliteral (cfg : Config) (p : String) (d : Stmt) (hd : Plain d)
    (hp : (p == cfg.instProp) = false) (h : keyOf cfg d = (p, Spec.VClass.nonliteral)) :
    isNodeType d.ty = true ∧ d.prop = p := by
  unfold keyOf at h
  rw [vclassOf_plain cfg d hd] at h
  have h1 : d.prop = p := congrArg Prod.fst h
  have h2 := congrArg Prod.snd h
  simp only at h2
  rw [h1, hp] at h2
  refine ⟨?_, h1⟩
  cases hn : isNodeType d.ty
  · rw [hn] at h2; simp at h2
  · rfl

theorem keyOf_pass (cfg : Config) (c d : Stmt) (hc : Plain c) (hd : Plain d)
    (hpass : (c.prop == cfg.instProp || !isNodeType c.ty) = true)
    (h : keyOf cfg d = keyOf cfg c) : pt d = pt c := by
  unfold keyOf at h
  rw [vclassOf_plain cfg d hd, vclassOf_plain cfg c hc] at h
  have h1 : d.prop = c.prop := congrArg Prod.fst h
  have h2 := congrArg Prod.snd h
  simp only at h2
  rw [h1] at h2
  unfold pt
  rw [h1]
  congr 1
  cases hi : (c.prop == cfg.instProp)
  · rw [hi] at h2 hpass
    have hn : isNodeType c.ty = false := by simpa using hpass
    rw [hn] at h2
    cases hnd : isNodeType d.ty
    · rw [hnd] at h2; simpa using h2
    · rw [hnd] at h2; simp at h2
  · rw [hi] at h2
    simpa using h2

theorem groupNodeAux_spec (cfg : Config) : ∀ (fuel : Nat) (l : List Stmt), l.length ≤ fuel →
    (∀ s ∈ l, Plain s) → (l.map pt).Nodup →
    ((groupNodeAux cfg fuel l).map (keyOf cfg)).Nodup ∧
      ∀ k, k ∈ (groupNodeAux cfg fuel l).map (keyOf cfg) ↔ k ∈ l.map (keyOf cfg) := by
  intro fuel
  induction fuel with
  | zero =>
    intro l hlen _ _
    have : l = [] := List.eq_nil_of_length_eq_zero (by omega)
    subst this
    simp [groupNodeAux]
  | succ fuel ih =>
    intro l hlen hpl hnd
    cases l with
    | nil => simp [groupNodeAux]
    | cons c cs =>
      have hunf : groupNodeAux cfg (fuel + 1) (c :: cs) =
          if (c.prop == cfg.instProp || !isNodeType c.ty) = true then c :: groupNodeAux cfg fuel cs
          else
            (if (cs.filter fun d => isNodeType d.ty && d.prop == c.prop).isEmpty then c
              else mergeGroup cfg (c :: cs.filter fun d => isNodeType d.ty && d.prop == c.prop)) ::
              groupNodeAux cfg fuel (cs.filter fun d => !(isNodeType d.ty && d.prop == c.prop)) := rfl
      rw [hunf]
      simp only [List.length_cons] at hlen
      rw [List.map_cons, List.nodup_cons] at hnd
      have hplc : Plain c := hpl c (by simp)
      have hplcs : ∀ s ∈ cs, Plain s := fun s hs => hpl s (List.mem_cons_of_mem _ hs)
      by_cases hc : (c.prop == cfg.instProp || !isNodeType c.ty) = true
      · rw [if_pos hc]
        obtain ⟨ih1, ih2⟩ := ih cs (by omega) hplcs hnd.2
        refine ⟨?_, ?_⟩
        · rw [List.map_cons, List.nodup_cons]
          refine ⟨?_, ih1⟩
          intro hmem
          rw [ih2] at hmem
          obtain ⟨d, hd, hde⟩ := List.mem_map.mp hmem
          have := keyOf_pass cfg c d hplc (hplcs d hd) hc hde
          exact hnd.1 (List.mem_map.mpr ⟨d, hd, this⟩)
        · intro k
          rw [List.map_cons, List.mem_cons, ih2, List.map_cons, List.mem_cons]
      · rw [if_neg hc]
        have hc' : (c.prop == cfg.instProp) = false ∧ isNodeType c.ty = true := by
          cases h1 : (c.prop == cfg.instProp) <;> cases h2 : isNodeType c.ty <;> simp [h1, h2] at hc ⊢
        have hrestlen : (cs.filter fun d => !(isNodeType d.ty && d.prop == c.prop)).length ≤ fuel := by
          have := List.length_filter_le (fun d => !(isNodeType d.ty && d.prop == c.prop)) cs
          omega
        have hrestpl : ∀ s ∈ cs.filter (fun d => !(isNodeType d.ty && d.prop == c.prop)), Plain s :=
          fun s hs => hplcs s (List.mem_filter.mp hs).1
        have hrestnd : ((cs.filter fun d => !(isNodeType d.ty && d.prop == c.prop)).map pt).Nodup :=
          hnd.2.sublist (List.Sublist.map pt List.filter_sublist)
        obtain ⟨ih1, ih2⟩ := ih _ hrestlen hrestpl hrestnd
        have hgoodc : Good c.prop c := ⟨rfl, Or.inr (Or.inl hc'.2)⟩
        have hgoodmem : ∀ d ∈ cs, (isNodeType d.ty && d.prop == c.prop) = true → Good c.prop d := by
          intro d _ hd
          simp only [Bool.and_eq_true, beq_iff_eq] at hd
          exact ⟨hd.2, Or.inr (Or.inl hd.1)⟩
        have hhead : keyOf cfg
            (if (cs.filter fun d => isNodeType d.ty && d.prop == c.prop).isEmpty then c
              else mergeGroup cfg (c :: cs.filter fun d => isNodeType d.ty && d.prop == c.prop))
            = (c.prop, Spec.VClass.nonliteral) := by
          apply keyOf_good cfg c.prop _ hc'.1
          split
          · exact hgoodc
          · apply mergeGroup_good c.prop cfg _ (by simp)
            intro s hs
            rcases List.mem_cons.mp hs with rfl | hs'
            · exact hgoodc
            · exact hgoodmem s (List.mem_filter.mp hs').1 (List.mem_filter.mp hs').2
        have hkc : keyOf cfg c = (c.prop, Spec.VClass.nonliteral) := keyOf_good cfg c.prop c hc'.1 hgoodc
        refine ⟨?_, ?_⟩
        · rw [List.map_cons, List.nodup_cons, hhead]
          refine ⟨?_, ih1⟩
          intro hmem
          rw [ih2] at hmem
          obtain ⟨d, hd, hde⟩ := List.mem_map.mp hmem
          have hd' := List.mem_filter.mp hd
          obtain ⟨h1, h2⟩ := keyOf_nonliteral cfg c.prop d (hplcs d hd'.1) hc'.1 hde
          have := hd'.2
          simp [h1, h2] at this
        · intro k
          rw [List.map_cons, List.mem_cons, hhead, ih2, List.map_cons, List.mem_cons, hkc]
          constructor
          · rintro (h | h)
            · exact Or.inl h
            · obtain ⟨d, hd, hde⟩ := List.mem_map.mp h
              exact Or.inr (List.mem_map.mpr ⟨d, (List.mem_filter.mp hd).1, hde⟩)
          · rintro (h | h)
            · exact Or.inl h
            · obtain ⟨d, hd, hde⟩ := List.mem_map.mp h
              cases hf : (isNodeType d.ty && d.prop == c.prop)
              · exact Or.inr (List.mem_map.mpr ⟨d, List.mem_filter.mpr ⟨hd, by simp [hf]⟩, hde⟩)
              · exact Or.inl (hde ▸ keyOf_good cfg c.prop d hc'.1 (hgoodmem d hd hf))

theorem keys_of_pt_iff (cfg : Config) (m l : List Stmt) (hm : ∀ s ∈ m, Plain s) (hl : ∀ s ∈ l, Plain s)
    (h : ∀ k, k ∈ m.map pt → k ∈ l.map pt) (k : String × Spec.VClass) :
    k ∈ m.map (keyOf cfg) → k ∈ l.map (keyOf cfg) := by
  intro hk
  obtain ⟨s, hs, hse⟩ := List.mem_map.mp hk
  obtain ⟨t, ht, hte⟩ := List.mem_map.mp (h (pt s) (List.mem_map.mpr ⟨s, hs, rfl⟩))
  exact List.mem_map.mpr ⟨t, ht, (keyOf_of_pt cfg t s (hl t ht) (hm s hs) hte).trans hse⟩

/-- **the merge stages neither invent nor lose a key** -/
theorem selectValid_keys (cfg : Config) (l : List Stmt) (hl : ∀ s ∈ l, Plain s) (k : String × Spec.VClass) :
    k ∈ (selectValid cfg l).map (keyOf cfg) ↔ k ∈ l.map (keyOf cfg) := by
  obtain ⟨h1, h2, h3⟩ := groupSameAux_spec cfg l.length l (Nat.le_refl _) hl
  obtain ⟨_, g2⟩ := groupNodeAux_spec cfg (groupSame cfg l).length (groupSame cfg l) (Nat.le_refl _) h1 h2
  show k ∈ (groupNodeAux cfg (groupSame cfg l).length (groupSame cfg l)).map (keyOf cfg) ↔ _
  rw [g2]
  exact ⟨keys_of_pt_iff cfg _ l h1 hl (fun k => (h3 k).mp) k,
         keys_of_pt_iff cfg l _ hl h1 (fun k => (h3 k).mpr) k⟩

/-- **never two constraints for the same key** -/
theorem selectValid_keys_nodup (cfg : Config) (l : List Stmt) (hl : ∀ s ∈ l, Plain s) :
    ((selectValid cfg l).map (keyOf cfg)).Nodup := by
  obtain ⟨h1, h2, _⟩ := groupSameAux_spec cfg l.length l (Nat.le_refl _) hl
  exact (groupNodeAux_spec cfg (groupSame cfg l).length (groupSame cfg l) (Nat.le_refl _) h1 h2).1

end Shexer
end Shexer
