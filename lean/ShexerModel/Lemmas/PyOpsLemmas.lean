import ShexerModel.Base.PyOps
import ShexerModel.Model.Ttl
import ShexerModel.Model.Profiler
/-! Facts about the Python-string primitives of `Base/PyOps.lean` and their relation to the hand-written helpers (`Nt.*`, `PyStr.*`), used by the obligations that tie the regenerated string functions (`GeneratedStr.lean`, fragment S of the extractor) compute what
the hand-written models of the readers and of the profiler assume.  These equalities are proof obligations of C05, C06, C07,
C08: a change to `remove_corners`, `decide_literal_type` or `build_shapes_name_for_class_uri` in /repo changes the generated
definition and breaks them. -/
namespace Shexer
namespace GenStr
open PyOps

/-- results of the N-Triples reader model in the vocabulary of the generated functions -/
def convNt : Except Nt.Err String → Except PyExc (List Char)
  | .ok s => .ok s.toList
  | .error .valueError => .error .valueError
  | .error .runtimeError => .error .runtimeError
  | .error .diverges => .error .indexError

/-- same for the streaming Turtle reader model -/
def convTtl : Except Ttl.Err String → Except PyExc (List Char)
  | .ok s => .ok s.toList
  | .error (.valueError _) => .error .valueError
  | .error .runtimeError => .error .runtimeError
  | .error .attributeError => .error .indexError
  | .error .indexError => .error .indexError

/-! ### Python-string primitives (`PyOps`) against the models' list functions -/

theorem isSpace_eq : PyOps.isSpace = Nt.isSpace := rfl
theorem strip_eq (l : List Char) : PyOps.strip l = Nt.strip l := rfl
theorem startsWith_eq (l : List Char) (p : String) : PyOps.startsWith l p.toList = Nt.startsWith l p := rfl
theorem endsWith_eq (l : List Char) (p : String) : PyOps.endsWith l p.toList = Nt.endsWith l p := rfl
theorem startsWith_eq' (l p : List Char) : PyOps.startsWith l p = PyStr.startsWith l p := rfl
theorem endsWith_eq' (l p : List Char) : PyOps.endsWith l p = PyStr.endsWith l p := rfl


theorem clamp_nat (len k : Nat) : clamp len (k : Int) = min k len := by
  unfold clamp
  have : ¬ ((k : Int) < 0) := by omega
  simp only [this, if_false, Int.toNat_natCast]
  split <;> omega

theorem clamp_neg1 (len : Nat) : clamp len (-1) = len - 1 := by
  unfold clamp
  simp
  split <;> omega

theorem slice_from (l : List Char) (k : Nat) : slice l (some (k : Int)) none = l.drop k := by
  simp only [slice, clamp_nat]
  rw [List.take_length]
  by_cases h : k ≤ l.length
  · rw [Nat.min_eq_left h]
  · have h' : l.length ≤ k := by omega
    rw [Nat.min_eq_right h', List.drop_length, List.drop_eq_nil_of_le h']

theorem slice_to_neg1 (l : List Char) : slice l none (some (-1)) = l.dropLast := by
  simp only [slice, clamp_neg1, List.drop_zero, List.dropLast_eq_take]

theorem slice_from_to_neg1 (l : List Char) (k : Nat) : slice l (some (k : Int)) (some (-1)) = (l.drop k).dropLast := by
  simp only [slice, clamp_nat, clamp_neg1, List.dropLast_eq_take, List.length_drop]
  rw [List.drop_take]
  by_cases h : k ≤ l.length
  · rw [Nat.min_eq_left h]; congr 1; omega
  · have h' : l.length ≤ k := by omega
    rw [Nat.min_eq_right h', List.drop_length, List.drop_eq_nil_of_le h']; simp


theorem filter_range_getLast (p : Nat → Bool) (k : Nat) (hk : p k = true) :
    ∀ n, k < n → (∀ i, k < i → i < n → p i = false) → ((List.range n).filter p).getLast? = some k := by
  intro n
  induction n with
  | zero => intro h; omega
  | succ n ih =>
    intro hlt hall
    rw [List.range_succ, List.filter_append]
    by_cases hn : n = k
    · subst hn
      simp [hk]
    · have hpn : p n = false := hall n (by omega) (by omega)
      have : (List.filter p [n]) = [] := by simp [hpn]
      rw [this, List.append_nil]
      exact ih (by omega) (fun i h1 h2 => hall i h1 (by omega))

theorem singleton_isPrefixOf_mem (c : Char) (d : List Char) (h : [c].isPrefixOf d = true) : c ∈ d := by
  cases d with
  | nil => simp at h
  | cons x xs => simp at h; simp [h]

theorem rfind_split (a b : List Char) (c : Char) (hb : c ∉ b) : rfind (a ++ c :: b) [c] = (a.length : Int) := by
  unfold rfind occurrences
  rw [filter_range_getLast _ a.length]
  · simp
  · simp; omega
  · intro i h1 h2
    simp only [Bool.and_eq_false_iff]
    right
    cases hp : [c].isPrefixOf (List.drop i (a ++ c :: b)) with
    | false => rfl
    | true =>
      exfalso
      have hm := singleton_isPrefixOf_mem _ _ hp
      obtain ⟨j, rfl⟩ : ∃ j, i = a.length + (j + 1) := ⟨i - a.length - 1, by omega⟩
      rw [List.drop_length_add_append, List.drop_succ_cons] at hm
      exact hb (List.mem_of_mem_drop hm)

theorem rfind_notin (l : List Char) (c : Char) (h : c ∉ l) : rfind l [c] = -1 := by
  unfold rfind occurrences
  have : (List.filter (fun i => decide (i + [c].length ≤ l.length) && [c].isPrefixOf (List.drop i l)) (List.range (l.length + 1))) = [] := by
    rw [List.filter_eq_nil_iff]
    intro i _ hp
    simp only [Bool.and_eq_true] at hp
    exact h (List.mem_of_mem_drop (singleton_isPrefixOf_mem _ _ hp.2))
  rw [this]; rfl

theorem split_last (l : List Char) (c : Char) (h : c ∈ l) : ∃ a b, l = a ++ c :: b ∧ c ∉ b := by
  have h' : c ∈ l.reverse := by simpa using h
  obtain ⟨s, t, hst, hs⟩ := List.eq_append_cons_of_mem h'
  refine ⟨t.reverse, s.reverse, ?_, by simpa using hs⟩
  have := congrArg List.reverse hst
  simpa using this

theorem rfindIdx_go_notin (c : Char) : ∀ (l : List Char) (i : Nat) (acc : Option Nat), c ∉ l → PyStr.rfindIdx.go c l i acc = acc := by
  intro l
  induction l with
  | nil => intros; rfl
  | cons x xs ih =>
    intro i acc h
    simp only [List.mem_cons, not_or] at h
    unfold PyStr.rfindIdx.go
    rw [ih _ _ h.2]
    have : ¬ x = c := fun e => h.1 e.symm
    simp [this]

theorem rfindIdx_go_split (c : Char) (b : List Char) (hb : c ∉ b) : ∀ (a : List Char) (i : Nat) (acc : Option Nat),
    PyStr.rfindIdx.go c (a ++ c :: b) i acc = some (i + a.length) := by
  intro a
  induction a with
  | nil => intro i acc; simp only [List.nil_append]; unfold PyStr.rfindIdx.go; rw [rfindIdx_go_notin c b _ _ hb]; simp
  | cons x xs ih =>
    intro i acc
    simp only [List.cons_append]
    unfold PyStr.rfindIdx.go
    rw [ih]; simp; omega

theorem rfindIdx_notin (l : List Char) (c : Char) (h : c ∉ l) : PyStr.rfindIdx l c = none := rfindIdx_go_notin c l 0 none h
theorem rfindIdx_split (a b : List Char) (c : Char) (hb : c ∉ b) : PyStr.rfindIdx (a ++ c :: b) c = some a.length := by
  unfold PyStr.rfindIdx; rw [rfindIdx_go_split c b hb]; simp

/-- `rfind` of a single character is `PyStr.rfindIdx` -/
theorem rfind_eq (l : List Char) (c : Char) : rfind l [c] = match PyStr.rfindIdx l c with | some i => (i : Int) | none => -1 := by
  by_cases h : c ∈ l
  · obtain ⟨a, b, rfl, hb⟩ := split_last l c h
    rw [rfind_split a b c hb, rfindIdx_split a b c hb]
  · rw [rfind_notin l c h, rfindIdx_notin l c h]

theorem slice_rfind (l l' : List Char) (c : Char) :
    slice l (some (rfind l' [c] + 1)) none = match PyStr.rfindIdx l' c with | none => l | some i => l.drop (i + 1) := by
  rw [rfind_eq]
  cases PyStr.rfindIdx l' c with
  | none => exact slice_from l 0
  | some i => exact slice_from l (i + 1)

theorem slice_rfind_afterLast (l : List Char) (c : Char) : slice l (some (rfind l [c] + 1)) none = PyStr.afterLast l c := by
  rw [slice_rfind]; unfold PyStr.afterLast; cases PyStr.rfindIdx l c <;> rfl

theorem takeWhile_split {p : Char → Bool} (c : Char) (t : List Char) (hc : p c = false) : ∀ s : List Char, (∀ x ∈ s, p x = true) →
    (s ++ c :: t).takeWhile p = s := by
  intro s
  induction s with
  | nil => intro _; simp [hc]
  | cons x xs ih =>
    intro h
    simp only [List.cons_append, List.takeWhile_cons, h x (by simp), if_true]
    rw [ih (fun y hy => h y (by simp [hy]))]

theorem takeWhile_all {p : Char → Bool} : ∀ s : List Char, (∀ x ∈ s, p x = true) → s.takeWhile p = s := by
  intro s
  induction s with
  | nil => intro _; rfl
  | cons x xs ih =>
    intro h
    simp only [List.takeWhile_cons, h x (by simp), if_true]
    rw [ih (fun y hy => h y (by simp [hy]))]

theorem afterLast_eq_takeWhile (l : List Char) (c : Char) : PyStr.afterLast l c = (l.reverse.takeWhile fun x => x != c).reverse := by
  unfold PyStr.afterLast
  by_cases h : c ∈ l
  · obtain ⟨a, b, rfl, hb⟩ := split_last l c h
    rw [rfindIdx_split a b c hb]
    simp only [List.reverse_append, List.reverse_cons, List.append_assoc, List.singleton_append]
    rw [takeWhile_split c a.reverse (by simp)]
    · simp
    · intro x hx; simp at hx ⊢; intro e; exact hb (e ▸ hx)
  · rw [rfindIdx_notin l c h]
    simp only
    rw [takeWhile_all]
    · simp
    · intro x hx; simp at hx ⊢; intro e; exact h (e ▸ hx)

theorem slice_rfind_quote (l : List Char) : slice l (some (rfind l "\"".toList + 1)) none = Nt.afterLastQuote l := by
  have : "\"".toList = ['"'] := by simp
  rw [this, slice_rfind_afterLast, afterLast_eq_takeWhile]; rfl


theorem single_isPrefixOf_cons (c x : Char) (t : List Char) : [c].isPrefixOf (x :: t) = (c == x) := by
  simp [List.isPrefixOf]

theorem findFrom_single (l : List Char) (c : Char) : ∀ (n i : Nat), l.length - i = n →
    (findFrom l [c] i).isSome = (l.drop i).contains c := by
  intro n
  induction n with
  | zero =>
    intro i h
    unfold findFrom
    have : i + [c].length > l.length := by simp; omega
    rw [if_pos this, List.drop_eq_nil_of_le (by omega)]; rfl
  | succ n ih =>
    intro i h
    unfold findFrom
    have : ¬ (i + [c].length > l.length) := by simp; omega
    rw [if_neg this]
    have hd : l.drop i = l[i]'(by omega) :: l.drop (i + 1) := List.drop_eq_getElem_cons (by omega)
    obtain ⟨y, hy⟩ : ∃ y, l.drop i = y :: l.drop (i + 1) := ⟨_, hd⟩
    rw [hy, single_isPrefixOf_cons]
    by_cases hx : c = y
    · simp [hx]
    · have hx' : (c == y) = false := by simpa using hx
      rw [hx']
      simp only [Bool.false_eq_true, if_false]
      rw [ih (i + 1) (by omega)]
      simp [hx]

theorem isIn_single (l : List Char) (c : Char) : isIn [c] l = l.contains c := by
  unfold isIn; rw [findFrom_single l c _ 0 rfl]; rfl

theorem endsWith_single (l : List Char) (c : Char) : PyOps.endsWith l [c] = (l.getLast? == some c) := by
  unfold PyOps.endsWith
  rw [← List.head?_reverse]
  cases l.reverse with
  | nil => rfl
  | cons x xs =>
    rw [List.reverse_singleton, single_isPrefixOf_cons]
    simp [BEq.comm (a := c)]

theorem not_endsWith_single (l : List Char) (c : Char) : (!PyOps.endsWith l [c]) = (l.getLast? != some c) := by
  rw [endsWith_single]; rfl

end GenStr
end Shexer
