import ShexerModel.Lemmas.GenStrTtlScanA
import ShexerModel.Lemmas.GenStrTune2
import ShexerModel.Lemmas.GenStrUnprefix
/-! `_clean_line` and `_parse_elem` of the streaming Turtle reader, regenerated, against `Ttl.cleanLine` / `Ttl.parseElem`. -/
namespace Shexer.GenStrTtlElem
open Shexer PyOps Shexer.GenStrTune2

/-! ### `_clean_line` -/

theorem tel_subClass (l : List Char) : PyOps.subClass "\r\n\t".toList " ".toList l = Ttl.subBlanks l := by
  have h1 : "\r\n\t".toList = ['\r', '\n', '\t'] := by decide
  have h2 : " ".toList = [' '] := by decide
  rw [h1, h2]
  unfold PyOps.subClass Ttl.subBlanks
  induction l with
  | nil => rfl
  | cons c t ih =>
    rw [List.flatMap_cons, List.map_cons, ih]
    by_cases h : (c = '\r' || c = '\n' || c = '\t') = true
    · have h' : ['\r', '\n', '\t'].contains c = true := by
        simp only [Bool.or_eq_true, decide_eq_true_eq] at h
        simp only [List.contains_cons, List.contains_nil, Bool.or_false, Bool.or_eq_true, beq_iff_eq]
        rcases h with (h | h) | h <;> simp [h]
      rw [if_pos h', if_pos h]; rfl
    · have h' : ¬ (['\r', '\n', '\t'].contains c = true) := by
        intro hc
        apply h
        simp only [List.contains_cons, List.contains_nil, Bool.or_false, Bool.or_eq_true, beq_iff_eq] at hc
        simp only [Bool.or_eq_true, decide_eq_true_eq]
        rcases hc with hc | hc | hc <;> simp [hc]
      rw [if_neg h', if_neg h]; rfl

theorem tel_squeezeGo (l : List Char) : ∀ b, PyOps.squeezeGo b l = Ttl.squeezeAux b l := by
  induction l with
  | nil => intro b; rfl
  | cons c t ih =>
    intro b
    simp only [PyOps.squeezeGo, Ttl.squeezeAux, ih]

theorem tel_squeeze (l : List Char) : PyOps.squeezeBlanks l = Ttl.squeeze l := tel_squeezeGo l false

theorem tel_squeezeAux_length (l : List Char) : ∀ b, (Ttl.squeezeAux b l).length ≤ l.length := by
  induction l with
  | nil => intro b; simp [Ttl.squeezeAux]
  | cons c t ih =>
    intro b
    simp only [Ttl.squeezeAux]
    have h1 := ih true
    have h2 := ih false
    split
    · split
      · simp only [List.length_cons]; omega
      · simp only [List.length_cons]; omega
    · simp only [List.length_cons]; omega

theorem tel_dropWhile_length (p : Char → Bool) (l : List Char) : (l.dropWhile p).length ≤ l.length := by
  induction l with
  | nil => simp
  | cons c t ih =>
    simp only [List.dropWhile]
    split
    · simp only [List.length_cons]; omega
    · exact Nat.le_refl _

theorem tel_strip_length (l : List Char) : (Nt.strip l).length ≤ l.length := by
  unfold Nt.strip
  rw [List.length_reverse]
  refine Nat.le_trans (tel_dropWhile_length _ _) ?_
  rw [List.length_reverse]
  exact tel_dropWhile_length _ _

theorem tel_hasSpaceHash_cons (c : Char) (t : List Char) :
    Ttl.hasSpaceHash (c :: t) = ((c == ' ' && ['#'].isPrefixOf t) || Ttl.hasSpaceHash t) := by
  by_cases hc : c = ' '
  · subst hc
    cases t with
    | nil => simp [Ttl.hasSpaceHash]
    | cons d t' =>
      by_cases hd : d = '#'
      · subst hd; simp [Ttl.hasSpaceHash]
      · rw [Ttl.hasSpaceHash.eq_def]
        simp [hd]
        intro h; exact absurd h.symm hd
  · rw [Ttl.hasSpaceHash.eq_def]
    simp [hc]

theorem tel_two_isPrefixOf_cons (y : Char) (t : List Char) :
    [' ', '#'].isPrefixOf (y :: t) = (y == ' ' && ['#'].isPrefixOf t) := by
  simp [List.isPrefixOf, BEq.comm (a := ' ')]

theorem tel_findFrom_spaceHash (l : List Char) : ∀ (n i : Nat), l.length - i = n →
    (findFrom l [' ', '#'] i).isSome = Ttl.hasSpaceHash (l.drop i) := by
  intro n
  induction n with
  | zero =>
    intro i h
    unfold findFrom
    have : i + [' ', '#'].length > l.length := by simp; omega
    rw [if_pos this, List.drop_eq_nil_of_le (by omega)]; rfl
  | succ n ih =>
    intro i h
    have hd : l.drop i = l[i]'(by omega) :: l.drop (i + 1) := List.drop_eq_getElem_cons (by omega)
    obtain ⟨y, hy⟩ : ∃ y, l.drop i = y :: l.drop (i + 1) := ⟨_, hd⟩
    unfold findFrom
    by_cases hlen : i + [' ', '#'].length > l.length
    · rw [if_pos hlen]
      have hnil : l.drop (i + 1) = [] := List.drop_eq_nil_of_le (by simp at hlen; omega)
      rw [hy, hnil, tel_hasSpaceHash_cons]
      simp [Ttl.hasSpaceHash]
    · rw [if_neg hlen, hy, tel_two_isPrefixOf_cons, tel_hasSpaceHash_cons, ← ih (i + 1) (by omega)]
      cases (y == ' ' && ['#'].isPrefixOf (List.drop (i + 1) l)) <;> simp

theorem tel_isIn_spaceHash (l : List Char) : isIn " #".toList l = Ttl.hasSpaceHash l := by
  have h : " #".toList = [' ', '#'] := by decide
  rw [h]
  unfold isIn; rw [tel_findFrom_spaceHash l _ 0 rfl]; rfl

theorem clean_line_eq (l : List Char) (fuel : Nat) (hf : l.length + 1 ≤ fuel) :
    GenS.ttl_clean_line fuel l = Except.ok (Ttl.cleanLine l) := by
  unfold GenS.ttl_clean_line Ttl.cleanLine
  simp only [tel_subClass, tel_squeeze, GenStr.strip_eq, tel_isIn_spaceHash]
  have hlen : (Nt.strip (Ttl.squeeze (Ttl.subBlanks l))).length + 1 ≤ fuel := by
    have h1 := tel_strip_length (Ttl.squeeze (Ttl.subBlanks l))
    have h2 : (Ttl.squeeze (Ttl.subBlanks l)).length ≤ (Ttl.subBlanks l).length := tel_squeezeAux_length _ false
    have h3 : (Ttl.subBlanks l).length = l.length := by unfold Ttl.subBlanks; rw [List.length_map]
    omega
  generalize Nt.strip (Ttl.squeeze (Ttl.subBlanks l)) = r at hlen
  by_cases h : Ttl.hasSpaceHash r = true
  · simp only [h, Bool.not_true, Bool.false_eq_true, ↓reduceIte]
    rw [Shexer.GenStrTtlScan.remove_comments_eq r fuel hlen]
  · have h' : Ttl.hasSpaceHash r = false := by simpa using h
    simp only [h', Bool.not_false, ↓reduceIte, Bool.false_eq_true]
    rfl

/-! ### `_parse_elem` -/

theorem tel_parse_cornered (resolve : List Char → List Char → List Char) (ctx : Ttl.Ctx) (tok : List Char) :
    GenS.ttl_parse_cornered_element resolve ctx.base tok = Except.ok (Ttl.parseCornered resolve ctx tok) := by
  have h := GenStr.slice_from_to_neg1 tok 1
  unfold GenS.ttl_parse_cornered_element Ttl.parseCornered
  cases ctx.base with
  | none => rfl
  | some b =>
    show Except.ok _ = Except.ok _
    rw [← h]
    rfl

theorem tel_expand (ctx : Ttl.Ctx) (tok : List Char) :
    GenS.ttl_expand_prefixed_datatype_if_needed ctx.prefixes tok = Except.ok (Ttl.expandDatatype ctx tok) := by
  rw [Shexer.GenStrTtlScan.expand_datatype_eq]
  rfl

theorem parse_elem_eq (resolve : List Char → List Char → List Char) (ctx : Ttl.Ctx) (tok : List Char) :
    GenS.ttl_parse_elem resolve ttlFloat ctx.base ctx.prefixes tok = (Ttl.parseElem resolve ctx tok).mapError excOfTtl := by
  cases tok with
  | nil => rfl
  | cons c t =>
    have hidx : PyOps.index (c :: t) (0 : Int) = Except.ok c := rfl
    unfold GenS.ttl_parse_elem Ttl.parseElem
    simp only [hidx, bind, Except.bind]
    by_cases h1 : c = '<'
    · simp only [h1, beq_self_eq_true, ↓reduceIte, tel_parse_cornered]
      rfl
    · have h1' : (c == '<') = false := by simpa using h1
      simp only [h1', h1, Bool.false_eq_true, ↓reduceIte]
      have hq : PyOps.startsWith (c :: t) "\"".toList = decide (c = '"') := by
        have hs : "\"".toList = ['"'] := by decide
        rw [hs]; unfold PyOps.startsWith
        rw [GenStr.single_isPrefixOf_cons]
        by_cases hc : c = '"'
        · simp [hc]
        · simp [hc]; exact fun e => hc e.symm
      have ha : "a".toList = ['a'] := by decide
      have hcolon : ":".toList = [':'] := by decide
      rw [hq, ha, hcolon, GenStr.isIn_single, GenStr.startsWith_eq]
      generalize c :: t = tok
      generalize "rdf:type".toList = rt
      generalize "true".toList = st
      generalize "false".toList = sf
      by_cases h2 : tok = ['a'] ∨ tok = rt
      · have e1 : (tok == ['a'] || tok == rt) = true := by simpa using h2
        have e2 : (decide (tok = ['a']) || decide (tok = rt)) = true := by simpa using h2
        simp only [e1, e2, ↓reduceIte]
        rfl
      have e1 : (tok == ['a'] || tok == rt) = false := by simpa using h2
      have e2 : (decide (tok = ['a']) || decide (tok = rt)) = false := by simpa using h2
      simp only [e1, e2, Bool.false_eq_true, ↓reduceIte]
      by_cases h3 : c = '"'
      · simp only [h3, decide_true, ↓reduceIte, tel_expand]
        rfl
      simp only [h3, decide_false, Bool.false_eq_true, ↓reduceIte]
      by_cases h4 : tok.contains ':' = true
      · simp only [h4, ↓reduceIte]
        by_cases h5 : Nt.startsWith tok "_:" = true
        · simp only [h5, ↓reduceIte]
          rfl
        · simp only [h5, Bool.false_eq_true, ↓reduceIte]
          rw [Shexer.GenStrUnprefix.unprefixize_mandatory_eq]
          cases Ttl.unprefixize ctx.prefixes tok <;> rfl
      simp only [h4, Bool.false_eq_true, ↓reduceIte]
      by_cases h6 : tok = st ∨ tok = sf
      · have e3 : (tok == st || tok == sf) = true := by simpa using h6
        have e4 : (decide (tok = st) || decide (tok = sf)) = true := by simpa using h6
        simp only [e3, e4, pure, Except.pure, Bool.true_or, ↓reduceIte]
        rfl
      have e3 : (tok == st || tok == sf) = false := by simpa using h6
      have e4 : (decide (tok = st) || decide (tok = sf)) = false := by simpa using h6
      simp only [e3, e4, pure, Except.pure, Bool.false_or, Bool.false_eq_true, ↓reduceIte, GenS.ttl_is_num_literal, ttlFloat]
      by_cases h7 : Ttl.isNum tok = true
      · simp only [h7, ↓reduceIte]
        rfl
      · simp only [h7, Bool.false_eq_true, ↓reduceIte]
        rfl

end Shexer.GenStrTtlElem
