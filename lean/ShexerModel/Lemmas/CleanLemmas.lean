import ShexerModel.Lemmas.SortLemmas
/-! `_clean_empty_shapes` commutes with every per-statement rewriting that leaves the type, the
direction and the shape header alone — the vehicle for the "each option changes only what it
documents" equations (C13) and for C03/C05. -/
namespace Shexer
namespace Shexer

/-- a per-shape statement rewriting that keeps `ty` and `inverse` -/
structure TyPreserving (f : Shape → Stmt → Stmt) : Prop where
  ty : ∀ sh s, (f sh s).ty = s.ty
  types : ∀ sh s, (f sh s).types = s.types
  choice : ∀ sh s, (f sh s).choice = s.choice
  inv : ∀ sh s, (f sh s).inverse = s.inverse
  /-- the rewriting looks at the header of the shape only -/
  hdr : ∀ sh sh' s, sh.name = sh'.name → sh.nInstances = sh'.nInstances → f sh s = f sh' s

def mapShape (f : Shape → Stmt → Stmt) (sh : Shape) : Shape := { sh with stmts := sh.stmts.map (f sh) }

@[simp] theorem mapShape_name (f : Shape → Stmt → Stmt) (sh : Shape) : (mapShape f sh).name = sh.name := rfl
@[simp] theorem mapShape_n (f : Shape → Stmt → Stmt) (sh : Shape) : (mapShape f sh).nInstances = sh.nInstances := rfl
@[simp] theorem mapShape_cls (f : Shape → Stmt → Stmt) (sh : Shape) : (mapShape f sh).classUri = sh.classUri := rfl

theorem filter_map_of_pred {α : Type} (l : List α) (f : α → α) (p : α → Bool) (h : ∀ a, p (f a) = p a) :
    (l.map f).filter p = (l.filter p).map f := by
  induction l with
  | nil => rfl
  | cons a as ih =>
    simp only [List.map_cons, List.filter_cons, h a]
    by_cases hp : p a = true
    · simp [hp, ih]
    · simp [hp, ih]

theorem dropRefs_mapShape (cfg : Config) (gone : List String) (f : Shape → Stmt → Stmt) (hf : TyPreserving f) (sh : Shape) :
    dropRefs cfg gone (mapShape f sh) = mapShape f (dropRefs cfg gone sh) := by
  have hfe : ∀ st : List Stmt, f { sh with stmts := st } = f sh :=
    fun st => funext (fun s => hf.hdr _ _ s rfl rfl)
  unfold dropRefs mapShape
  have e1 : ∀ l : List Stmt, (l.map (f sh)).filter (fun s => !s.inverse) = (l.filter fun s => !s.inverse).map (f sh) :=
    fun l => filter_map_of_pred l (f sh) _ (by intro a; rw [hf.inv])
  have e2 : ∀ l : List Stmt, (l.map (f sh)).filter (fun s => s.inverse) = (l.filter fun s => s.inverse).map (f sh) :=
    fun l => filter_map_of_pred l (f sh) _ (by intro a; rw [hf.inv])
  have e3 : ∀ l : List Stmt,
      (l.map (f sh)).filter (fun s => !gone.contains s.ty && (!s.choice || !(s.types.any fun ty => gone.contains ty)))
        = (l.filter fun s => !gone.contains s.ty && (!s.choice || !(s.types.any fun ty => gone.contains ty))).map (f sh) :=
    fun l => filter_map_of_pred l (f sh) _ (by intro a; simp only [hf.ty, hf.types, hf.choice])
  by_cases hi : cfg.inverse = true
  · simp only [hi, if_true, e1, e2, e3, hfe, List.map_append]
  · have hi' : cfg.inverse = false := by simpa using hi
    simp only [hi', Bool.false_eq_true, if_false, e1, e2, e3, hfe, List.map_append]

theorem cleanEmptyAux_map (cfg : Config) (f : Shape → Stmt → Stmt) (hf : TyPreserving f) (fuel : Nat) (shapes : List Shape) :
    cleanEmptyAux cfg fuel (shapes.map (mapShape f)) = (cleanEmptyAux cfg fuel shapes).map (mapShape f) := by
  induction fuel generalizing shapes with
  | zero => rfl
  | succ fuel ih =>
    unfold cleanEmptyAux
    have hgone : ((shapes.map (mapShape f)).filter fun sh => sh.stmts.isEmpty).map (·.name)
        = (shapes.filter fun sh => sh.stmts.isEmpty).map (·.name) := by
      rw [filter_map_of_pred shapes (mapShape f) (fun sh => sh.stmts.isEmpty) (by intro a; simp [mapShape])]
      rw [List.map_map]
      rfl
    simp only [hgone]
    by_cases hg : ((shapes.filter fun sh => sh.stmts.isEmpty).map (·.name)).isEmpty = true
    · simp [hg]
    · simp only [hg, Bool.false_eq_true, if_false]
      rw [filter_map_of_pred shapes (mapShape f) _ (by intro a; simp)]
      rw [List.map_map]
      rw [← ih]
      congr 1
      rw [List.map_map]
      apply List.map_congr_left
      intro sh _
      simp only [Function.comp]
      exact dropRefs_mapShape cfg _ f hf sh

theorem cleanEmpty_map (cfg : Config) (f : Shape → Stmt → Stmt) (hf : TyPreserving f) (shapes : List Shape) :
    cleanEmpty cfg (shapes.map (mapShape f)) = (cleanEmpty cfg shapes).map (mapShape f) := by
  unfold cleanEmpty
  by_cases h : cfg.removeEmpty = true
  · simp only [h, if_true, List.length_map]
    exact cleanEmptyAux_map cfg f hf _ shapes
  · simp [h]

/-- `cleanEmpty` reads only `inverse` and `removeEmpty` of the configuration -/
theorem cleanEmpty_congr (cfg cfg' : Config) (h1 : cfg.inverse = cfg'.inverse) (h2 : cfg.removeEmpty = cfg'.removeEmpty)
    (shapes : List Shape) : cleanEmpty cfg shapes = cleanEmpty cfg' shapes := by
  unfold cleanEmpty
  rw [h2]
  have : ∀ fuel sh, cleanEmptyAux cfg fuel sh = cleanEmptyAux cfg' fuel sh := by
    intro fuel
    induction fuel with
    | zero => intro sh; rfl
    | succ fuel ih =>
      intro sh
      unfold cleanEmptyAux
      have hd : ∀ gone, dropRefs cfg gone = dropRefs cfg' gone := by
        intro gone; funext s; unfold dropRefs; rw [h1]
      simp only [hd, ih]
  rw [this]

end Shexer
end Shexer

namespace Shexer
namespace Shexer

/-- `sh'` is `sh` with some statements removed (same header, surviving statements unchanged) -/
def SubShape (sh' sh : Shape) : Prop :=
  sh'.name = sh.name ∧ sh'.classUri = sh.classUri ∧ sh'.nInstances = sh.nInstances ∧ ∀ s ∈ sh'.stmts, s ∈ sh.stmts

theorem SubShape.refl (sh : Shape) : SubShape sh sh := ⟨rfl, rfl, rfl, fun _ h => h⟩

theorem SubShape.trans {a b c : Shape} (h1 : SubShape a b) (h2 : SubShape b c) : SubShape a c :=
  ⟨h1.1.trans h2.1, h1.2.1.trans h2.2.1, h1.2.2.1.trans h2.2.2.1, fun s hs => h2.2.2.2 s (h1.2.2.2 s hs)⟩

theorem dropRefs_sub (cfg : Config) (gone : List String) (sh : Shape) : SubShape (dropRefs cfg gone sh) sh := by
  unfold dropRefs
  refine ⟨?_, ?_, ?_, ?_⟩
  · split <;> rfl
  · split <;> rfl
  · split <;> rfl
  · intro s hs
    split at hs
    · simp only [List.mem_append, List.mem_filter] at hs
      rcases hs with h | h
      · exact h.1.1
      · exact h.1.1
    · simp only [List.mem_append, List.mem_filter] at hs
      rcases hs with h | h
      · exact h.1
      · exact h.1.1

/-- removal of empty shapes only ever deletes shapes and statements -/
theorem cleanEmptyAux_sub (cfg : Config) (fuel : Nat) (shapes : List Shape) :
    ∀ sh' ∈ cleanEmptyAux cfg fuel shapes, ∃ sh ∈ shapes, SubShape sh' sh := by
  induction fuel generalizing shapes with
  | zero => intro sh' h; exact ⟨sh', h, SubShape.refl _⟩
  | succ fuel ih =>
    intro sh' h
    unfold cleanEmptyAux at h
    simp only at h
    split at h
    · exact ⟨sh', h, SubShape.refl _⟩
    · obtain ⟨mid, hmid, hsub⟩ := ih _ sh' h
      simp only [List.mem_map, List.mem_filter] at hmid
      obtain ⟨orig, ⟨horig, _⟩, rfl⟩ := hmid
      exact ⟨orig, horig, hsub.trans (dropRefs_sub cfg _ orig)⟩

theorem cleanEmpty_sub (cfg : Config) (shapes : List Shape) :
    ∀ sh' ∈ cleanEmpty cfg shapes, ∃ sh ∈ shapes, SubShape sh' sh := by
  unfold cleanEmpty
  split
  · exact cleanEmptyAux_sub cfg _ shapes
  · intro sh' h; exact ⟨sh', h, SubShape.refl _⟩

end Shexer
end Shexer
