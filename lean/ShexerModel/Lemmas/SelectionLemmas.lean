import ShexerModel.Lemmas.TrackerLemmas
/-! Pass 1 equals the declarative selection, order included (class targets / all-classes, no cap). -/
namespace Shexer
namespace Tracker

theorem keys_addInst (d : InstDict) (t : Triple) :
    Dict.keys (addInst d t) = if t.s.key ∈ Dict.keys d then Dict.keys d else Dict.keys d ++ [t.s.key] := by
  unfold addInst
  rw [Dict.keys_upd]
  by_cases h : t.s.key ∈ Dict.keys d
  · have hc : Dict.contains d t.s.key = true := (Dict.get?_isSome_iff_mem_keys d _).mpr h
    simp [h, hc]
  · have hc : ¬ Dict.contains d t.s.key = true := fun hc => h ((Dict.get?_isSome_iff_mem_keys d _).mp hc)
    simp [h, hc]

/-- keys after folding `addInst`: the old keys, then the first occurrences of the new subjects -/
theorem keys_foldl_addInst (ts : List Triple) (d : InstDict) :
    Dict.keys (ts.foldl addInst d) =
      Dict.keys d ++ (Spec.dedup (ts.map (·.s.key))).filter (fun k => !(Dict.keys d).contains k) := by
  induction ts generalizing d with
  | nil => simp [Spec.dedup]
  | cons t ts ih =>
    simp only [List.foldl_cons, List.map_cons, Spec.dedup]
    rw [ih, keys_addInst]
    by_cases h : t.s.key ∈ Dict.keys d
    · rw [if_pos h]
      congr 1
      rw [List.filter_cons]
      have hc : (!(Dict.keys d).contains t.s.key) = false := by simp [h]
      rw [hc]
      simp only [Bool.false_eq_true, if_false, List.filter_filter]
      apply List.filter_congr
      intro x _
      by_cases hx : x ∈ Dict.keys d
      · simp [hx]
      · have : x ≠ t.s.key := fun e => hx (e ▸ h)
        simp [hx, this]
    · rw [if_neg h]
      rw [List.filter_cons]
      have hc : (!(Dict.keys d).contains t.s.key) = true := by simp [h]
      rw [hc]
      simp only [if_true, List.filter_filter, List.append_assoc, List.singleton_append]
      congr 2
      apply List.filter_congr
      intro x _
      by_cases hx : x ∈ Dict.keys d
      · simp [hx]
      · by_cases he : x = t.s.key
        · simp [he]
        · simp [hx, he]

/-- keys of the instance dictionary = first occurrences of the subjects of the selecting triples -/
theorem keys_track (cfg : Config) (hc : cfg.cap = 0) (g : Graph) :
    Dict.keys (track cfg g) = Spec.selectedNodes cfg g := by
  rw [track_nocap cfg hc, keys_foldl_addInst]
  unfold Spec.selectedNodes Spec.selects
  simp [Dict.keys]

/-- a dictionary with distinct keys is determined by its key list and its lookups -/
theorem eq_map_keys {ν : Type} (d : Dict String ν) (hw : Dict.WF d) (dflt : ν) :
    d = (Dict.keys d).map fun k => (k, (Dict.get? d k).getD dflt) := by
  unfold Dict.keys
  rw [List.map_map]
  conv => lhs; rw [← List.map_id d]
  apply List.map_congr_left
  intro e he
  have := (Dict.mem_iff_get? d hw e.1 e.2).mp he
  simp [this]

/-- **pass 1 = the declarative selection**, as lists (dictionary order = first-occurrence order,
classes in document order) -/
theorem track_eq_selectionOf (cfg : Config) (hc : cfg.cap = 0) (g : Graph) :
    track cfg g = Spec.selectionOf cfg g := by
  rw [eq_map_keys (track cfg g) (WF_track cfg hc g) []]
  unfold Spec.selectionOf
  rw [keys_track cfg hc]
  apply List.map_congr_left
  intro n hn
  have hs : Spec.isSelected cfg g n = true := by
    rw [← mem_keys_track cfg hc, keys_track cfg hc]; exact hn
  rw [get?_track cfg hc, if_pos hs]
  rfl

end Tracker
end Shexer
