import ShexerModel.Lemmas.FigureLemmas
import ShexerModel.Spec.ShExSem
/-! Soundness of the `?` cardinality (C03): with `keep_less_specific`, a constraint that ends as `?` is one whose
exact-one count equals its at-least-one count, so no instance has two values. -/
namespace Shexer
namespace OptSound
open Shexer Profiler

/-! ### cardinalities -/

/-- the relaxation pass produces `?` only from `{1}` (or from a `?` that was already there) -/
theorem card_opt_origin (a : Bool) (x : Card)
    (h : x = Card.opt ∨ Gen.generalize_cardinality x = Card.opt
          ∨ Gen.relax_cardinality a x = Card.opt
          ∨ Gen.generalize_cardinality (Gen.relax_cardinality a x) = Card.opt) :
    x = Card.opt ∨ x = Card.exact 1 := by
  by_cases h1 : x = Card.exact 1
  · exact Or.inr h1
  · have hr : Gen.relax_cardinality a x = Card.star := by
      unfold Gen.relax_cardinality
      have : (x == Card.exact 1) = false := by simpa using h1
      simp [this]
    rw [hr] at h
    rcases h with h | h | h | h
    · exact Or.inl h
    · left
      unfold Gen.generalize_cardinality at h
      split at h
      · cases h
      · exact h
    · cases h
    · simp [Gen.generalize_cardinality, Card.isInt] at h

/-! ### counting -/

theorem countP_eq_imp {α : Type} (p q : α → Bool) (l : List α) (hpq : ∀ x ∈ l, p x = true → q x = true)
    (h : l.countP p = l.countP q) : ∀ x ∈ l, q x = true → p x = true := by
  induction l with
  | nil => intro x hx; cases hx
  | cons a t ih =>
    have hle : t.countP p ≤ t.countP q :=
      List.countP_mono_left (fun x hx hp => hpq x (List.mem_cons_of_mem _ hx) hp)
    have ha := hpq a List.mem_cons_self
    simp only [List.countP_cons] at h
    intro x hx hq
    cases hpa : p a <;> cases hqa : q a <;> simp [hpa, hqa] at h ha
    all_goals
      rcases List.mem_cons.mp hx with rfl | hx'
      all_goals first
        | exact ih (fun x hx => hpq x (List.mem_cons_of_mem _ hx)) (by omega) x hx' hq
        | (simp_all; done)
        | omega

theorem cardMatches_exact_plus (cfg : Config) (p : String) (hp : p ≠ cfg.instProp) (j k : Nat)
    (h : Spec.cardMatches cfg p (Card.exact j) k = true) : Spec.cardMatches cfg p Card.plus k = true := by
  unfold Spec.cardMatches at *
  have : (p == cfg.instProp) = false := by simpa using hp
  simp [this] at h ⊢
  exact h.2

theorem countOver_exact_le_plus (cfg : Config) (sel : Spec.Selection) (g : Graph) (c : String) (inv : Bool)
    (p ty : String) (hp : p ≠ cfg.instProp) (j : Nat) :
    Spec.countOver cfg sel g c inv p ty (Card.exact j) ≤ Spec.countOver cfg sel g c inv p ty Card.plus := by
  unfold Spec.countOver
  exact List.countP_mono_left (fun n _ h => cardMatches_exact_plus cfg p hp j _ h)

theorem countOver_other (cfg : Config) (sel : Spec.Selection) (g : Graph) (c : String) (inv : Bool)
    (p ty : String) (hp : p ≠ cfg.instProp) :
    Spec.countOver cfg sel g c inv p ty Card.opt = 0 := by
  unfold Spec.countOver Spec.cardMatches
  have : (p == cfg.instProp) = false := by simpa using hp
  simp [this]

/-! ### stage 1: which member of a (property, type) group wins -/

/-- with `keep_less_specific`, if the winner of a group is not the `+` member then every `+` member of the
group has the winner's count (the group was a useless-positive-closure pair) -/
theorem decideBest_nonplus (cfg : Config) (hk : cfg.keepLessSpecific = true) (g : List Stmt)
    (hy : (decideBest cfg g).card ≠ Card.plus) :
    ∀ d ∈ g, d.card = Card.plus → d.n = (decideBest cfg g).n := by
  intro d hd hdp
  unfold decideBest at hy ⊢
  split at hy
  · rename_i h
    rw [if_pos h]
    simp only [Bool.and_eq_true] at h
    have hu := h.2
    unfold uselessPlus at hu
    split at hu
    · rename_i a b
      simp only [Bool.and_eq_true, beq_iff_eq] at hu
      obtain ⟨hn, hx⟩ := hu
      by_cases ha : a.card = Card.plus
      · have hb : b.card ≠ Card.plus := by
          intro hb; simp [ha, hb] at hx
        have hd' : d = a := by
          rcases List.mem_cons.mp hd with rfl | hd
          · rfl
          · simp only [List.mem_singleton] at hd
            subst hd; exact absurd hdp hb
        subst hd'
        have e1 : (d.card != Card.plus) = false := by simp [ha]
        have e2 : (b.card != Card.plus) = true := by simpa using hb
        simp [e1, e2, hn]
      · have hd' : d = b := by
          rcases List.mem_cons.mp hd with rfl | hd
          · exact absurd hdp ha
          · simpa using hd
        subst hd'
        have e1 : (a.card != Card.plus) = true := by simpa using ha
        simp [e1, hn]
    · cases hu
  · exfalso
    apply hy
    simp only []
    have hdgs : d ∈ sortDesc g := (mem_sortDesc g d).mpr hd
    cases hf : (sortDesc g).find? (fun s => s.card == Card.plus) with
    | none =>
      rw [List.find?_eq_none] at hf
      have := hf d hdgs
      simp [hdp] at this
    | some x =>
      have := List.find?_some hf
      simp only [beq_iff_eq] at this
      simp [this]

theorem sameKey_true_iff (a b : Stmt) : sameKey a b = true ↔ a.prop = b.prop ∧ a.ty = b.ty := by
  simp [sameKey]

/-- the winner of a group is a member of the group, up to comments -/
theorem decideBest_member (cfg : Config) (g : List Stmt) (hg : g ≠ []) :
    ∃ x ∈ g, (decideBest cfg g).prop = x.prop ∧ (decideBest cfg g).ty = x.ty := by
  obtain ⟨x, hx, cms, heq, _⟩ := decideBest_spec cfg g hg
  exact ⟨x, hx, by rw [heq], by rw [heq]; rfl⟩

/-- every output of stage 1 has the (property, type) of one of the inputs -/
theorem groupSameAux_key (cfg : Config) : ∀ (fuel : Nat) (l : List Stmt), ∀ y ∈ groupSameAux cfg fuel l,
    ∃ x ∈ l, x.prop = y.prop ∧ x.ty = y.ty := by
  intro fuel
  induction fuel with
  | zero => intro l y hy; simp [groupSameAux] at hy
  | succ fuel ih =>
    intro l y hy
    cases l with
    | nil => simp [groupSameAux] at hy
    | cons c cs =>
      simp only [groupSameAux, List.mem_cons] at hy
      rcases hy with rfl | hy
      · split
        · exact ⟨c, by simp, rfl, rfl⟩
        · obtain ⟨x, hx, h1, h2⟩ := decideBest_member cfg (c :: cs.filter (sameKey c)) (by simp)
          rcases List.mem_cons.mp hx with rfl | hx
          · exact ⟨x, by simp, h1.symm, h2.symm⟩
          · have hs := (sameKey_true_iff c x).mp (List.mem_filter.mp hx).2
            exact ⟨c, by simp, by rw [h1, hs.1], by rw [h2, hs.2]⟩
      · obtain ⟨x, hx, h1, h2⟩ := ih _ y hy
        exact ⟨x, List.mem_cons_of_mem _ (List.mem_filter.mp hx).1, h1, h2⟩

/-- **stage 1 with `keep_less_specific`**: if an output is not a `+` statement, every `+` input with the same
(property, type) carries the same count -/
theorem groupSameAux_nonplus (cfg : Config) (hk : cfg.keepLessSpecific = true) :
    ∀ (fuel : Nat) (l : List Stmt), ∀ y ∈ groupSameAux cfg fuel l, y.card ≠ Card.plus →
      ∀ d ∈ l, d.prop = y.prop → d.ty = y.ty → d.card = Card.plus → d.n = y.n := by
  intro fuel
  induction fuel with
  | zero => intro l y hy; simp [groupSameAux] at hy
  | succ fuel ih =>
    intro l y hy hyc d hd hdp hdt hdc
    cases l with
    | nil => simp [groupSameAux] at hy
    | cons c cs =>
      simp only [groupSameAux, List.mem_cons] at hy
      rcases hy with hy | hy
      · -- the head group
        have hkey : y.prop = c.prop ∧ y.ty = c.ty := by
          rw [hy]
          split
          · exact ⟨rfl, rfl⟩
          · obtain ⟨x, hx, h1, h2⟩ := decideBest_member cfg (c :: cs.filter (sameKey c)) (by simp)
            rcases List.mem_cons.mp hx with rfl | hx
            · exact ⟨h1, h2⟩
            · have hs := (sameKey_true_iff c x).mp (List.mem_filter.mp hx).2
              exact ⟨by rw [h1, hs.1], by rw [h2, hs.2]⟩
        have hdg : d ∈ c :: cs.filter (sameKey c) := by
          rcases List.mem_cons.mp hd with rfl | hd'
          · simp
          · refine List.mem_cons_of_mem _ (List.mem_filter.mpr ⟨hd', ?_⟩)
            rw [sameKey_true_iff]
            exact ⟨by rw [hdp, hkey.1], by rw [hdt, hkey.2]⟩
        by_cases he : (cs.filter (sameKey c)).isEmpty = true
        · rw [if_pos he] at hy
          have : cs.filter (sameKey c) = [] := by simpa using he
          rw [this] at hdg
          simp only [List.mem_singleton] at hdg
          subst hy
          subst hdg
          exact absurd hdc hyc
        · rw [if_neg he] at hy
          subst hy
          exact decideBest_nonplus cfg hk _ hyc d hdg hdc
      · -- a later group
        obtain ⟨x, hx, hxp, hxt⟩ := groupSameAux_key cfg fuel _ y hy
        have hxk := (List.mem_filter.mp hx).2
        have hdk : sameKey c d = false := by
          cases hq : sameKey c d with
          | false => rfl
          | true =>
            have := (sameKey_true_iff c d).mp hq
            have : sameKey c x = true := by
              rw [sameKey_true_iff]
              exact ⟨by rw [this.1, hdp, hxp], by rw [this.2, hdt, hxt]⟩
            simp [this] at hxk
        have hd' : d ∈ cs.filter fun d => !sameKey c d := by
          rcases List.mem_cons.mp hd with rfl | hd'
          · have : sameKey d d = true := by simp [sameKey]
            rw [this] at hdk; cases hdk
          · exact List.mem_filter.mpr ⟨hd', by simp [hdk]⟩
        exact ih _ y hy hyc d hd' hdp hdt hdc

/-! ### stage 2: an ordinary output is one of the stage-1 outputs -/

theorem mergeGroup_plain (cfg : Config) (g : List Stmt) (hg : g ≠ []) (m : Stmt) (hm : m = mergeGroup cfg g)
    (hp : m.parts = none) (hc : m.choice = false) :
    ∃ y ∈ g, y.prop = m.prop ∧ y.types = m.types ∧ y.card = m.card ∧ y.n = m.n := by
  rw [mergeGroup_eq] at hm
  have hb : ∀ b, (g.filter fun s => s.ty == Gen.BNODE_ELEM_TYPE).getLast? = some b → b ∈ g ∧ b.ty = Gen.BNODE_ELEM_TYPE := by
    intro b h
    have := List.mem_filter.mp (List.mem_of_getLast? h)
    exact ⟨this.1, by simpa using this.2⟩
  have hi : ∀ i, (g.filter fun s => s.ty == Gen.IRI_ELEM_TYPE).getLast? = some i → i ∈ g ∧ i.ty = Gen.IRI_ELEM_TYPE := by
    intro b h
    have := List.mem_filter.mp (List.mem_of_getLast? h)
    exact ⟨this.1, by simpa using this.2⟩
  have hs : ∀ s ∈ sortDesc (g.filter fun s => isShapeType s.ty), s ∈ g := by
    intro s h
    exact (List.mem_filter.mp ((mem_sortDesc _ s).mp h)).1
  have hgs : (sortDesc g).headD default ∈ g := by
    have := sortDesc_ne_nil g hg
    rw [← mem_sortDesc]
    cases h : sortDesc g with
    | nil => exact absurd h this
    | cons a t => simp
  have hd := domOf_spec g (sortDesc g) _ _ _ hb hi hs hgs
  simp only [] at hm
  generalize domOf (sortDesc g) _ _ _ = dom at hd hm
  obtain ⟨d0, isS⟩ := dom
  simp only [] at hd hm
  have ht := tuneOr_spec cfg (sortDesc (g.filter fun s => isShapeType s.ty)) d0 isS
  generalize tuneOr cfg _ d0 isS = t at ht hm
  obtain ⟨d1, rep⟩ := t
  simp only [] at ht hm
  subst hm
  simp only at hp hc ⊢
  rcases ht with rfl | ⟨ts, rfl⟩
  · rcases hd with h | ⟨b, _, i, _, _, _, rfl⟩
    · exact ⟨d1, h, rfl, rfl, rfl, rfl⟩
    · simp [freshNL] at hp
  · simp [choiceOf] at hc

theorem groupNodeAux_plain (cfg : Config) : ∀ (fuel : Nat) (l : List Stmt), ∀ s ∈ groupNodeAux cfg fuel l,
    s.parts = none → s.choice = false →
    ∃ y ∈ l, y.prop = s.prop ∧ y.types = s.types ∧ y.card = s.card ∧ y.n = s.n := by
  intro fuel
  induction fuel with
  | zero => intro l s hs; simp [groupNodeAux] at hs
  | succ fuel ih =>
    intro l s hs hp hc
    cases l with
    | nil => simp [groupNodeAux] at hs
    | cons c cs =>
      simp only [groupNodeAux] at hs
      split at hs
      · rcases List.mem_cons.mp hs with rfl | hs
        · exact ⟨s, by simp, rfl, rfl, rfl, rfl⟩
        · obtain ⟨y, hy, h⟩ := ih cs s hs hp hc
          exact ⟨y, List.mem_cons_of_mem _ hy, h⟩
      · rcases List.mem_cons.mp hs with hs | hs
        · split at hs
          · subst hs
            exact ⟨s, by simp, rfl, rfl, rfl, rfl⟩
          · obtain ⟨y, hy, h⟩ := mergeGroup_plain cfg _ (by simp) s hs hp hc
            refine ⟨y, ?_, h⟩
            rcases List.mem_cons.mp hy with rfl | hy
            · simp
            · exact List.mem_cons_of_mem _ (List.mem_filter.mp hy).1
        · obtain ⟨y, hy, h⟩ := ih _ s hs hp hc
          exact ⟨y, List.mem_cons_of_mem _ (List.mem_filter.mp hy).1, h⟩

/-! ### the class profile: positive counts, and the `+` sibling of every `{k}` entry -/

/-- every count stored in a property profile is at least one -/
def PPPos (pp : PropProfile) : Prop :=
  ∀ p ks, (p, ks) ∈ pp → ∀ ty cs, (ty, cs) ∈ ks → ∀ c n, (c, n) ∈ cs → 1 ≤ n

theorem PPPos_nil : PPPos [] := by intro p ks h; cases h

theorem PPPos_bumpP (pp : PropProfile) (x : Tup) (h : PPPos pp) : PPPos (bumpP pp x) := by
  have hks : ∀ ty cs, (ty, cs) ∈ (Dict.get? pp x.1).getD [] → ∀ c n, (c, n) ∈ cs → 1 ≤ n := by
    intro ty cs hm
    cases hq : Dict.get? pp x.1 with
    | none => rw [hq] at hm; simp at hm
    | some ks0 => rw [hq] at hm; exact h _ _ (Dict.mem_of_get? _ _ _ hq) ty cs hm
  have hcs : ∀ c n, (c, n) ∈ (Dict.get? ((Dict.get? pp x.1).getD []) x.2.1).getD [] → 1 ≤ n := by
    intro c n hm
    cases hq : Dict.get? ((Dict.get? pp x.1).getD []) x.2.1 with
    | none => rw [hq] at hm; simp at hm
    | some cs0 => rw [hq] at hm; exact hks _ _ (Dict.mem_of_get? _ _ _ hq) c n hm
  unfold bumpP
  apply Dict.forall_upd pp x.1 _ (fun _ ks => ∀ ty cs, (ty, cs) ∈ ks → ∀ c n, (c, n) ∈ cs → 1 ≤ n) h
  apply Dict.forall_upd _ x.2.1 _ (fun _ cs => ∀ c n, (c, n) ∈ cs → 1 ≤ n) hks
  apply Dict.forall_upd _ x.2.2 _ (fun _ n => 1 ≤ n) hcs
  omega

theorem PPPos_foldl (ts : List Tup) (pp : PropProfile) (h : PPPos pp) : PPPos (ts.foldl bumpP pp) := by
  induction ts generalizing pp with
  | nil => exact h
  | cons x xs ih => exact ih _ (PPPos_bumpP pp x h)

def ProfPos (prof : Profile) : Prop :=
  ∀ cls cp, Dict.get? prof cls = some cp → PPPos cp.direct ∧ PPPos cp.inverse

theorem ProfPos_upd (prof : Profile) (c : String) (f : Option ClassProfile → ClassProfile) (h : ProfPos prof)
    (hf : PPPos (f (Dict.get? prof c)).direct ∧ PPPos (f (Dict.get? prof c)).inverse) :
    ProfPos (Dict.upd prof c f) := by
  intro cls cp hg
  rw [Dict.get?_upd] at hg
  by_cases hc : c = cls
  · rw [if_pos hc] at hg
    simp only [Option.some.injEq] at hg
    subst hg
    exact hf
  · rw [if_neg hc] at hg
    exact h cls cp hg

theorem ProfPos_getD (prof : Profile) (c : String) (h : ProfPos prof) :
    PPPos ((Dict.get? prof c).getD {}).direct ∧ PPPos ((Dict.get? prof c).getD {}).inverse := by
  cases hq : Dict.get? prof c with
  | none => exact ⟨PPPos_nil, PPPos_nil⟩
  | some cp => exact h c cp hq

theorem ProfPos_addDirect (dts : List Tup) (prof : Profile) (c : String) (h : ProfPos prof) :
    ProfPos (addDirect dts prof c) := by
  unfold addDirect
  apply ProfPos_upd _ _ _ h
  have := ProfPos_getD prof c h
  exact ⟨PPPos_foldl _ _ this.1, this.2⟩

theorem ProfPos_addInverse (its : List Tup) (prof : Profile) (c : String) (h : ProfPos prof) :
    ProfPos (addInverse its prof c) := by
  unfold addInverse
  apply ProfPos_upd _ _ _ h
  have := ProfPos_getD prof c h
  exact ⟨this.1, PPPos_foldl _ _ this.2⟩

theorem ProfPos_foldl_addDirect (dts : List Tup) (cs : List String) (prof : Profile) (h : ProfPos prof) :
    ProfPos (cs.foldl (addDirect dts) prof) := by
  induction cs generalizing prof with
  | nil => exact h
  | cons c cs ih => exact ih _ (ProfPos_addDirect dts prof c h)

theorem ProfPos_foldl_addInverse (its : List Tup) (cs : List String) (prof : Profile) (h : ProfPos prof) :
    ProfPos (cs.foldl (addInverse its) prof) := by
  induction cs generalizing prof with
  | nil => exact h
  | cons c cs ih => exact ih _ (ProfPos_addInverse its prof c h)

theorem ProfPos_annotateInstance (cfg : Config) (prof : Profile) (ni : NodeInfo) (h : ProfPos prof) :
    ProfPos (annotateInstance cfg prof ni) := by
  rw [annotateInstance_eq]
  split
  · exact ProfPos_foldl_addInverse _ _ _ (ProfPos_foldl_addDirect _ _ _ h)
  · exact ProfPos_foldl_addDirect _ _ _ h

/-- every count in the class profile built by `Profiler.build` is positive -/
theorem ProfPos_build (cfg : Config) (inst : Tracker.InstDict) (d : IDict) : ProfPos (build cfg inst d) := by
  rw [build_eq]
  have h0 : ProfPos (initProfile cfg inst) := by
    intro cls cp hg
    rw [AllEmpty_initProfile cfg inst cls cp hg]
    exact ⟨PPPos_nil, PPPos_nil⟩
  generalize initProfile cfg inst = p0 at h0
  induction d generalizing p0 with
  | nil => exact h0
  | cons e es ih =>
    simp only [List.foldl_cons]
    exact ih _ (ProfPos_annotateInstance cfg p0 e.2 h0)

/-- next to every `{k}` entry of a property other than the instantiation property there is a `+` entry
with a count that is not smaller -/
def SibOK (cfg : Config) (pp : PropProfile) : Prop :=
  ∀ p ks, (p, ks) ∈ pp → p ≠ cfg.instProp → ∀ ty cs, (ty, cs) ∈ ks → ∀ k n, (Card.exact k, n) ∈ cs →
    ∃ m, n ≤ m ∧ (Card.plus, m) ∈ cs

theorem SibOK_of_exact (cfg : Config) (pp : PropProfile) (hwf : PPWF pp) (hpos : PPPos pp) (F : Tup → Nat)
    (hF : ∀ x, pget pp x = F x)
    (hmono : ∀ p ty k, p ≠ cfg.instProp → F (p, ty, Card.exact k) ≤ F (p, ty, Card.plus)) : SibOK cfg pp := by
  intro p ks hpk hp ty cs htc k n hkn
  obtain ⟨hw, hin⟩ := hwf
  have h1 := (Dict.mem_iff_get? pp hw _ _).mp hpk
  obtain ⟨hwk, hin2⟩ := hin _ _ h1
  have h2 := (Dict.mem_iff_get? ks hwk _ _).mp htc
  have h3 := (Dict.mem_iff_get? cs (hin2 _ _ h2) _ _).mp hkn
  have e1 : pget pp (p, ty, Card.exact k) = n := by simp [pget, h1, h2, h3]
  have hn : 1 ≤ n := hpos p ks hpk ty cs htc _ _ hkn
  have hm := hmono p ty k hp
  rw [← hF, ← hF, e1] at hm
  cases h4 : Dict.get? cs Card.plus with
  | none =>
    have : pget pp (p, ty, Card.plus) = 0 := by simp [pget, h1, h2, h4]
    omega
  | some m =>
    have : pget pp (p, ty, Card.plus) = m := by simp [pget, h1, h2, h4]
    exact ⟨m, by omega, Dict.mem_of_get? _ _ _ h4⟩

theorem SibOK_eraseTypesPP (cfg : Config) (names : List String) (pp : PropProfile) (h : SibOK cfg pp) :
    SibOK cfg (eraseTypesPP names pp) := by
  intro p ks' hpk hp ty cs htc k n hkn
  unfold eraseTypesPP at hpk
  rw [List.mem_map] at hpk
  obtain ⟨⟨p0, ks⟩, hm, heq⟩ := hpk
  simp only [Prod.mk.injEq] at heq
  obtain ⟨rfl, rfl⟩ := heq
  exact h p0 ks hm hp ty cs (mem_foldl_erase names ks _ htc) k n hkn

theorem passes_le (cfg : Config) (N n m : Nat) (h : n ≤ m) (hp : passes cfg N n = true) : passes cfg N m = true := by
  rw [passes_iff] at *
  exact Nat.le_trans hp (Nat.mul_le_mul_right _ h)

/-- the `+` sibling of a `{k}` candidate is a candidate too -/
theorem candidates_sibling (cfg : Config) (N : Nat) (inv : Bool) (pp : PropProfile) (h : SibOK cfg pp)
    (c : Stmt) (hc : c ∈ candidates cfg N inv pp) (hp : c.prop ≠ cfg.instProp) (k : Nat) (hk : c.card = Card.exact k) :
    ∃ d ∈ candidates cfg N inv pp, d.prop = c.prop ∧ d.types = c.types ∧ d.card = Card.plus ∧ c.n ≤ d.n := by
  obtain ⟨e, he, hpass, rfl⟩ := (mem_candidates cfg N inv pp c).mp hc
  unfold entries at he
  simp only [List.mem_flatMap, List.mem_map] at he
  obtain ⟨⟨p, ks⟩, hpk, ⟨ty, cs⟩, htc, ⟨cd, n⟩, hcn, heq⟩ := he
  subst heq
  simp only [mkStmt] at hp hk hpass ⊢
  subst hk
  obtain ⟨m, hnm, hmem⟩ := h p ks hpk hp ty cs htc k n hcn
  refine ⟨mkStmt inv (p, ty, Card.plus, m), ?_, rfl, rfl, rfl, hnm⟩
  rw [mem_candidates]
  refine ⟨(p, ty, Card.plus, m), ?_, passes_le cfg N n m hnm hpass, rfl⟩
  unfold entries
  simp only [List.mem_flatMap, List.mem_map]
  exact ⟨(p, ks), hpk, (ty, cs), htc, (Card.plus, m), hmem, rfl⟩

theorem candidates_pos (cfg : Config) (N : Nat) (inv : Bool) (pp : PropProfile) (h : PPPos pp)
    (c : Stmt) (hc : c ∈ candidates cfg N inv pp) : 1 ≤ c.n := by
  obtain ⟨e, he, _, rfl⟩ := (mem_candidates cfg N inv pp c).mp hc
  unfold entries at he
  simp only [List.mem_flatMap, List.mem_map] at he
  obtain ⟨⟨p, ks⟩, hpk, ⟨ty, cs⟩, htc, ⟨cd, n⟩, hcn, heq⟩ := he
  subst heq
  exact h p ks hpk ty cs htc cd n hcn

/-- the two facts about one direction of a built class profile -/
theorem built_facts (cfg : Config) (hc : cfg.cap = 0) (g : Graph)
    (hnd : ∀ n, (Spec.classesIn (Tracker.track cfg g) n).Nodup)
    (cls : String) (cp : ClassProfile)
    (hget : Dict.get? (build cfg (Tracker.track cfg g) (pass2 cfg (Tracker.track cfg g) g)) cls = some cp)
    (inv : Bool) (hinv : inv = true → cfg.inverse = true) :
    PPPos (if inv then cp.inverse else cp.direct) ∧ SibOK cfg (if inv then cp.inverse else cp.direct) := by
  have hpp : PPWF (if inv then cp.inverse else cp.direct) := by
    have := (build_WF _ _ _).2 cls cp hget
    cases inv
    · exact this.1
    · exact this.2
  have hpos : PPPos (if inv then cp.inverse else cp.direct) := by
    have := ProfPos_build _ _ _ cls cp hget
    cases inv
    · exact this.1
    · exact this.2
  refine ⟨hpos, ?_⟩
  apply SibOK_of_exact cfg _ hpp hpos
    (fun x => Spec.countOver cfg (Tracker.track cfg g) g cls inv x.1 x.2.1 x.2.2)
  · intro x
    have hx := Profiler.profile_exact cfg (Tracker.track cfg g) (Tracker.WF_track cfg hc g) g hnd cls inv
      x.1 x.2.1 x.2.2 hinv
    unfold eget at hx
    rw [hget] at hx
    exact hx
  · intro p ty k hp
    exact countOver_exact_le_plus cfg _ g cls inv p ty hp k

theorem SibOK_cleaned (cfg : Config) (inv : Bool) (cp cp' : ClassProfile)
    (h : cp' = cp ∨ ∃ names, cp' = eraseTypes names cp)
    (hs : SibOK cfg (if inv then cp.inverse else cp.direct)) :
    SibOK cfg (if inv then cp'.inverse else cp'.direct) := by
  rcases h with rfl | ⟨names, rfl⟩
  · exact hs
  · cases inv
    · exact SibOK_eraseTypesPP cfg names _ hs
    · exact SibOK_eraseTypesPP cfg names _ hs

/-- candidates of one direction of a base shape: positive count, and a `{k}` candidate of a property other than
the instantiation property has its `+` sibling among the candidates, with a count that is not smaller -/
theorem cands_facts (cfg : Config) (hc : cfg.cap = 0) (g : Graph)
    (hnd : ∀ n, (Spec.classesIn (Tracker.track cfg g) n).Nodup)
    (b : Shape) (hb : b ∈ baseShapes cfg (Profiler.run cfg g)) (inv : Bool) (hinv : inv = true → cfg.inverse = true)
    (c : Stmt) (hcm : c ∈ candsOf b inv) :
    1 ≤ c.n ∧ (c.prop ≠ cfg.instProp → ∀ k, c.card = Card.exact k →
      ∃ d ∈ candsOf b inv, d.prop = c.prop ∧ d.types = c.types ∧ d.card = Card.plus ∧ c.n ≤ d.n) := by
  obtain ⟨cls, cp', hm, hcls, _, _, hst⟩ := mem_baseShapes cfg _ b hb
  obtain ⟨cp, hget, hrel⟩ := get?_build_of_mem_run cfg g cls cp' hm
  have hcm0 := hcm
  unfold candsOf at hcm
  rw [List.mem_filter, mem_sortDesc, hst] at hcm
  obtain ⟨hmem, hci⟩ := hcm
  have hci : c.inverse = inv := by simpa using hci
  have hcand : c ∈ candidates cfg b.nInstances inv (if inv then cp'.inverse else cp'.direct) := by
    rcases List.mem_append.mp hmem with h | h
    · have := (candidate_props cfg _ _ _ c h).2.2.2.1
      rw [hci] at this
      subst this
      exact h
    · split at h
      · have := (candidate_props cfg _ _ _ c h).2.2.2.1
        rw [hci] at this
        subst this
        exact h
      · simp at h
  obtain ⟨hpos, hsib⟩ := built_facts cfg hc g hnd cls cp hget inv hinv
  refine ⟨candidates_pos cfg _ inv _ hpos c (candidates_of_cleaned cfg b.nInstances inv cp cp' hrel c hcand), ?_⟩
  intro hp k hk
  obtain ⟨d, hd, h1, h2, h3, h4⟩ :=
    candidates_sibling cfg b.nInstances inv _ (SibOK_cleaned cfg inv cp cp' hrel hsib) c hcand hp k hk
  refine ⟨d, ?_, h1, h2, h3, h4⟩
  have hdi := (candidate_props cfg _ _ _ d hd).2.2.2.1
  unfold candsOf
  rw [List.mem_filter, mem_sortDesc, hst]
  refine ⟨?_, by simp [hdi]⟩
  cases inv with
  | false => exact List.mem_append_left _ hd
  | true =>
    apply List.mem_append_right
    rw [if_pos (hinv rfl)]
    exact hd

/-- **`?` is sound** (class targets / all classes, no cap, `keep_less_specific`): if an ordinary final statement (not the
NONLITERAL sum, not a disjunction, not the instantiation property) carries cardinality `?`, every selected node of the
class has at most one value of the statement's type for its property and direction -/
theorem opt_is_sound (cfg : Config) (hc : cfg.cap = 0) (hk : cfg.keepLessSpecific = true) (g : Graph)
    (hnd : ∀ n, (Spec.classesIn (Tracker.track cfg g) n).Nodup)
    (sh : Shape) (hsh : sh ∈ Shexer.run cfg g) (s : Stmt) (hs : s ∈ sh.stmts)
    (hp : s.parts = none) (hch : s.choice = false) (hprop : s.prop ≠ cfg.instProp) (hopt : s.card = Card.opt) :
    ∀ n ∈ (Dict.keys (Tracker.track cfg g)).filter (fun n => (Spec.classesIn (Tracker.track cfg g) n).contains sh.classUri),
      (if s.inverse then Spec.inCount cfg (Tracker.track cfg g) g n s.prop s.ty
       else Spec.outCount cfg (Tracker.track cfg g) g n s.prop s.ty) ≤ 1 := by
  obtain ⟨b, hb, _, hcls, _, inv, hinv, s', hs', rfl⟩ := run_stmt_origin cfg g sh hsh s hs
  obtain ⟨hprop', htypes, hinvs, _, hchoice⟩ := tuneOne_skeleton cfg b.nInstances s'
  have hbase := candsOf_base cfg _ b hb inv
  rw [tuneOne_parts] at hp
  rw [hchoice] at hch
  rw [hprop'] at hprop
  have hs'inv : s'.inverse = inv := selectValid_inverse cfg _ inv hbase s' hs'
  -- stage 2: `s'` is a stage-1 output `y`; stage 1: `y` is a candidate `c`
  obtain ⟨y, hy, hyp, hyt, hyc, hyn⟩ := groupNodeAux_plain cfg _ _ s' hs' hp hch
  obtain ⟨_, _, ⟨c, hcm, hcp, hct, hcc, hcn, _⟩, _⟩ := groupSame_inv cfg _ (fun x hx => (hbase x hx).1) y hy
  have hcprop : c.prop ≠ cfg.instProp := by rw [hcp, hyp]; exact hprop
  obtain ⟨hcpos, hcsib⟩ := cands_facts cfg hc g hnd b hb inv hinv c hcm
  have hcfig := cand_figure cfg hc g hnd b hb inv hinv c hcm
  -- the cardinality before the relaxation pass was `{1}`
  have hcard : c.card = Card.exact 1 := by
    have h := tuneOne_card cfg b.nInstances s'
    rw [hopt] at h
    have h' := card_opt_origin cfg.allowOpt s'.card (by
      rcases h with h | h | h | h
      · exact Or.inl h.symm
      · exact Or.inr (Or.inl h.symm)
      · exact Or.inr (Or.inr (Or.inl h.symm))
      · exact Or.inr (Or.inr (Or.inr h.symm)))
    rw [← hyc, ← hcc] at h'
    rcases h' with h' | h'
    · rw [h', countOver_other cfg _ g _ inv _ _ hcprop] at hcfig
      omega
    · exact h'
  -- the `+` sibling has the same count
  obtain ⟨d, hd, hdp, hdt, hdc, hdn⟩ := hcsib hcprop 1 hcard
  have hdfig := cand_figure cfg hc g hnd b hb inv hinv d hd
  have hdty : d.ty = c.ty := by unfold Stmt.ty; rw [hdt]
  have hyne : y.card ≠ Card.plus := by rw [← hcc, hcard]; simp
  have hdy : d.n = y.n :=
    groupSameAux_nonplus cfg hk _ _ y hy hyne d hd (by rw [hdp, hcp])
      (by unfold Stmt.ty; rw [hdt, hct]) hdc
  have heq : Spec.countOver cfg (Tracker.track cfg g) g b.classUri inv c.prop c.ty (Card.exact 1)
      = Spec.countOver cfg (Tracker.track cfg g) g b.classUri inv c.prop c.ty Card.plus := by
    rw [← hcard, ← hcfig, ← hdc, ← hdp, ← hdty, ← hdfig, hdy, hcn]
  -- counting
  unfold Spec.countOver at heq
  have himp := countP_eq_imp _ _ _ (fun n _ h => cardMatches_exact_plus cfg c.prop hcprop 1 _ h) heq
  have hty : (tuneOne cfg b.nInstances s').ty = c.ty := by
    unfold Stmt.ty; rw [htypes, ← hyt, ← hct]
  intro n hn
  rw [hinvs, hprop', hty, hs'inv, ← hyp, ← hcp]
  rw [← hcls] at hn
  have h1 := himp n hn
  generalize (if inv = true then Spec.inCount cfg (Tracker.track cfg g) g n c.prop c.ty
    else Spec.outCount cfg (Tracker.track cfg g) g n c.prop c.ty) = K at h1 ⊢
  by_cases hK : K = 0
  · omega
  · have hne : (c.prop == cfg.instProp) = false := by simpa using hcprop
    have h2 : Spec.cardMatches cfg c.prop Card.plus K = true := by
      unfold Spec.cardMatches
      simp [hne]; omega
    have h3 := h1 h2
    unfold Spec.cardMatches at h3
    simp [hne] at h3
    omega

end OptSound
end Shexer

