import ShexerModel.GeneratedStr
import ShexerModel.Lemmas.PyOpsLemmas
import ShexerModel.Model.MinIri
/-! `GenS.longest_common_prefix` (regenerated from /repo's `utils/uri.py` by fragment S of the extractor, loop included) =
`MinIri.lcp`, the structural recursion the `detect_minimal_iri` model and the C17 theorems use. -/
namespace Shexer
namespace GenStr
open PyOps

/-- `l[i]` with a non-negative in-range index -/
theorem index_nat (l : List Char) (i : Nat) (h : i < l.length) : PyOps.index l (i : Int) = .ok l[i] := by
  unfold PyOps.index
  have h1 : ¬ ((i : Int) < 0) := by omega
  simp [h1, h, pure, Except.pure]

/-- `l[:k]` with a non-negative in-range bound -/
theorem slice_to_nat (l : List Char) (k : Nat) (h : k ≤ l.length) : PyOps.slice l none (some (k : Int)) = l.take k := by
  have h1 : ¬ ((k : Int) < 0) := by omega
  have h2 : ¬ (k > l.length) := by omega
  simp [PyOps.slice, PyOps.clamp, h1, h2]

/-- the first mismatch position cuts `lcp` -/
theorem lcp_mismatch : ∀ (a b : List Char) (s : Nat) (ha : s < a.length) (hb : s < b.length),
    a.take s = b.take s → a[s] ≠ b[s] → MinIri.lcp a b = a.take s
  | [], _, _, ha, _, _, _ => by simp at ha
  | _ :: _, [], _, _, hb, _, _ => by simp at hb
  | x :: as, y :: bs, 0, _, _, _, hne => by
    have : x ≠ y := by simpa using hne
    simp [MinIri.lcp, this]
  | x :: as, y :: bs, s + 1, ha, hb, ht, hne => by
    simp only [List.take_succ_cons, List.cons.injEq] at ht
    have ih := lcp_mismatch as bs s (by simpa using ha) (by simpa using hb) ht.2 (by simpa using hne)
    simp [MinIri.lcp, ht.1, ih]

/-- without a mismatch below the shorter length, `lcp` is that prefix -/
theorem lcp_all : ∀ (a b : List Char) (m : Nat), m ≤ a.length → m ≤ b.length → (m = a.length ∨ m = b.length) →
    a.take m = b.take m → MinIri.lcp a b = a.take m
  | [], b, m, _, _, _, _ => by cases b <;> simp [MinIri.lcp]
  | x :: as, [], m, _, hb, _, _ => by
    have : m = 0 := by simpa using hb
    simp [MinIri.lcp, this]
  | x :: as, y :: bs, 0, _, _, hm, _ => by simp at hm
  | x :: as, y :: bs, m + 1, ha, hb, hm, ht => by
    simp only [List.take_succ_cons, List.cons.injEq] at ht
    have ih := lcp_all as bs m (by simpa using ha) (by simpa using hb) (by simpa using hm) ht.2
    simp [MinIri.lcp, ht.1, ih]

/-- the loop body of `longest_common_prefix` -/
def lcpBody (a b : List Char) : Int → Except PyExc (Option (List Char)) := fun i => do
  let c_1 ← PyOps.index a i
  let c_2 ← PyOps.index b i
  if (!(c_1 == c_2)) then (do
  pure (some (PyOps.slice a none (some i))))
  else (do
  pure none)

theorem lcpBody_nat (a b : List Char) (i : Nat) (ha : i < a.length) (hb : i < b.length) :
    lcpBody a b (i : Int) = .ok (if a[i] ≠ b[i] then some (a.take i) else none) := by
  simp only [lcpBody, index_nat a i ha, index_nat b i hb, bind, Except.bind, slice_to_nat a i (by omega)]
  by_cases h : a[i] = b[i] <;> simp [h, pure, Except.pure]

/-- loop invariant: either the loop returned `lcp a b`, or it ran through and the prefixes agree -/
theorem loop_spec (a b : List Char) : ∀ (n s : Nat), s + n ≤ a.length → s + n ≤ b.length → a.take s = b.take s →
    PyOps.forRangeFrom (lcpBody a b) s n = .ok (some (MinIri.lcp a b)) ∨
      (PyOps.forRangeFrom (lcpBody a b) s n = .ok none ∧ a.take (s + n) = b.take (s + n))
  | 0, s, _, _, ht => by right; exact ⟨rfl, by simpa using ht⟩
  | n + 1, s, ha, hb, ht => by
    have hsa : s < a.length := by omega
    have hsb : s < b.length := by omega
    have hbody := lcpBody_nat a b s hsa hsb
    by_cases hne : a[s] = b[s]
    · have ht' : a.take (s + 1) = b.take (s + 1) := by
        rw [List.take_succ_eq_append_getElem hsa, List.take_succ_eq_append_getElem hsb, ht, hne]
      have ih := loop_spec a b n (s + 1) (by omega) (by omega) ht'
      have hstep : PyOps.forRangeFrom (lcpBody a b) s (n + 1) = PyOps.forRangeFrom (lcpBody a b) (s + 1) n := by
        rw [PyOps.forRangeFrom]
        have : lcpBody a b ((s : Nat) : Int) = .ok none := by rw [hbody]; simp [hne]
        simp only [bind, Except.bind, this]
      rw [hstep]
      have e : s + (n + 1) = s + 1 + n := by omega
      rw [e]; exact ih
    · left
      rw [PyOps.forRangeFrom]
      have : lcpBody a b ((s : Nat) : Int) = .ok (some (a.take s)) := by rw [hbody]; simp [hne]
      simp only [bind, Except.bind, this, lcp_mismatch a b s hsa hsb ht hne]
      rfl

/-- `longest_common_prefix(uri1, uri2)` never raises and is `MinIri.lcp` -/
theorem longest_common_prefix_eq (a b : List Char) : GenS.longest_common_prefix a b = .ok (MinIri.lcp a b) := by
  unfold GenS.longest_common_prefix
  split
  · rename_i h
    have : a = [] ∨ b = [] := by
      simp only [Bool.or_eq_true, beq_iff_eq] at h
      rcases h with h | h
      · left; exact List.eq_nil_of_length_eq_zero (by omega)
      · right; exact List.eq_nil_of_length_eq_zero (by omega)
    rcases this with rfl | rfl
    · cases b <;> rfl
    · cases a <;> rfl
  · change (PyOps.forRange _ (lcpBody a b) >>= _) = _
    unfold PyOps.forRange
    by_cases hlt : (a.length : Int) < (b.length : Int)
    · simp only [hlt, decide_true, if_true, Int.toNat_natCast]
      rcases loop_spec a b a.length 0 (by omega) (by omega) rfl with h | ⟨h, ht⟩
      · simp only [h, bind, Except.bind]; rfl
      · simp only [h, bind, Except.bind, slice_to_nat a a.length (Nat.le_refl _)]
        rw [Nat.zero_add] at ht
        rw [lcp_all a b a.length (Nat.le_refl _) (by omega) (Or.inl rfl) ht]; rfl
    · simp only [hlt, decide_false, Bool.false_eq_true, if_false, Int.toNat_natCast]
      have hle : b.length ≤ a.length := by omega
      rcases loop_spec a b b.length 0 (by omega) (by omega) rfl with h | ⟨h, ht⟩
      · simp only [h, bind, Except.bind]; rfl
      · simp only [h, bind, Except.bind, slice_to_nat a b.length hle]
        rw [Nat.zero_add] at ht
        rw [lcp_all a b b.length hle (Nat.le_refl _) (Or.inr rfl) ht]; rfl

end GenStr
end Shexer
