import ShexerModel.GeneratedStr
import ShexerModel.Model.Ttl
import ShexerModel.Lemmas.GenStrUnprefix
import ShexerModel.Lemmas.GenStrNtTokB
import ShexerModel.Lemmas.PyOpsLemmas
/-! Scans of the regenerated streaming Turtle reader (`GenS.ttl_*`) against the helpers of the hand-written reader model (`Model/Ttl.lean`):
comment removal, the next blank, prefixed datatypes. -/
namespace Shexer.GenStrTtlScan
open Shexer PyOps

/-! ### the next blank -/

theorem tsa_takeWhile_le (l : List Char) (p : Char → Bool) : (l.takeWhile p).length ≤ l.length := by
  induction l with
  | nil => simp
  | cons c t ih =>
    rw [List.takeWhile_cons]
    split
    · simp; exact ih
    · simp

theorem tsa_findFrom_blank (l : List Char) : ∀ (n i : Nat), l.length - i = n → i ≤ l.length →
    findFrom l [' '] i =
      (if i + ((l.drop i).takeWhile (· != ' ')).length < l.length then some (i + ((l.drop i).takeWhile (· != ' ')).length) else none) := by
  intro n
  induction n with
  | zero =>
    intro i h hi
    unfold findFrom
    have : i + [' '].length > l.length := by simp; omega
    rw [if_pos this, List.drop_eq_nil_of_le (by omega)]
    have h2 : ¬ (i < l.length) := by omega
    simp [h2]
  | succ n ih =>
    intro i h hi
    unfold findFrom
    have : ¬ (i + [' '].length > l.length) := by simp; omega
    rw [if_neg this]
    have hd := GenStrNtTok.drop_cons l i (by omega)
    rw [hd]
    by_cases hx : l[i]'(by omega) = ' '
    · rw [List.takeWhile_cons_of_neg (by simp [hx])]
      simp [List.isPrefixOf, hx]; omega
    · have hx' : (' ' == l[i]'(by omega)) = false := by
        simp; exact fun h => hx h.symm
      simp only [List.isPrefixOf, hx', Bool.false_and, Bool.false_eq_true, if_false]
      rw [ih (i + 1) (by omega) (by omega)]
      rw [List.takeWhile_cons_of_pos (by simp [hx])]
      simp only [List.length_cons]
      have e : i + 1 + (List.takeWhile (fun x => x != ' ') (List.drop (i + 1) l)).length =
          i + ((List.takeWhile (fun x => x != ' ') (List.drop (i + 1) l)).length + 1) := by omega
      rw [e]

/-! ### comment removal -/

/-- the body of the `while` loop of `GenS.ttl_remove_comments_if_needed` (same text) -/
def tsa_rcBody (str_line : List Char) : Bool × Int → Except PyExc (Ctl (Bool × Int) (List Char)) :=
  (fun (in_literal, index) => do
  if !(← (do
  pure (decide (index < ((str_line).length : Int))))) then pure (PyOps.Ctl.brk (in_literal, index)) else (do
  let c_1 ← PyOps.index str_line index
  let a_char := c_1
  if in_literal then (do
  if (a_char == '\\') then (do
  let index := (index + (1 : Int))
  let index := (index + (1 : Int))
  pure (PyOps.Ctl.next (in_literal, index)))
  else (do
  if (a_char == '"') then (do
  let in_literal := false
  let index := (index + (1 : Int))
  pure (PyOps.Ctl.next (in_literal, index)))
  else (do
  let index := (index + (1 : Int))
  pure (PyOps.Ctl.next (in_literal, index)))))
  else (do
  if (a_char == '"') then (do
  let in_literal := true
  let index := (index + (1 : Int))
  pure (PyOps.Ctl.next (in_literal, index)))
  else (do
  if ((a_char == ' ') && ((PyOps.slice str_line (some (index + (1 : Int))) (some (index + (2 : Int)))) == "#".toList)) then (do
  pure (PyOps.Ctl.ret (PyOps.slice str_line none (some index))))
  else (do
  let index := (index + (1 : Int))
  pure (PyOps.Ctl.next (in_literal, index)))))))

def tsa_rcPost (s : List Char) (w : Sum (Bool × Int) (List Char)) : Except PyExc (List Char) :=
  match w with
  | .inr v => pure v
  | .inl (_, _) => pure s

theorem tsa_rc_unfold (fuel : Nat) (s : List Char) :
    GenS.ttl_remove_comments_if_needed fuel s = (whileFuel (tsa_rcBody s) fuel (false, (0 : Int)) >>= tsa_rcPost s) := by
  rfl

theorem tsa_rcBody_ge (s : List Char) (b : Bool) (k : Nat) (h : s.length ≤ k) :
    tsa_rcBody s (b, (k : Int)) = Except.ok (Ctl.brk (b, (k : Int))) := by
  unfold tsa_rcBody
  have : ¬ ((k : Int) < (s.length : Int)) := by omega
  simp [this]
  rfl

theorem tsa_slice_to_nat (s : List Char) (k : Nat) : slice s none (some (k : Int)) = s.take k := by
  simp only [slice, GenStrNtTok.ntB_clamp_nat, List.drop_zero]
  by_cases h : k ≤ s.length
  · rw [Nat.min_eq_left h]
  · rw [Nat.min_eq_right (by omega), List.take_of_length_le (Nat.le_refl _), List.take_of_length_le (by omega)]

theorem tsa_rcBody_lt (s : List Char) (b : Bool) (k : Nat) (h : k < s.length) : tsa_rcBody s (b, (k : Int)) =
    Except.ok (if b then (if s[k] = '\\' then Ctl.next (b, ((k + 2 : Nat) : Int))
                          else if s[k] = '"' then Ctl.next (false, ((k + 1 : Nat) : Int))
                          else Ctl.next (b, ((k + 1 : Nat) : Int)))
               else if s[k] = '"' then Ctl.next (true, ((k + 1 : Nat) : Int))
               else if s[k] = ' ' ∧ (s.drop (k + 1)).take 1 = ['#'] then Ctl.ret (s.take k)
               else Ctl.next (b, ((k + 1 : Nat) : Int))) := by
  unfold tsa_rcBody
  have hlt : ((k : Int) < (s.length : Int)) := by omega
  have e1 : (k : Int) + 1 = ((k + 1 : Nat) : Int) := by omega
  have e2 : (k : Int) + 2 = ((k + 2 : Nat) : Int) := by omega
  have e3 : ((k + 1 : Nat) : Int) + 1 = ((k + 2 : Nat) : Int) := by omega
  have e4 : k + 2 - (k + 1) = 1 := by omega
  have e5 : "#".toList = ['#'] := rfl
  simp only [hlt, GenStrNtTok.index_nat s k h, decide_true, Bool.not_true, pure, Except.pure, bind, Except.bind,
    beq_iff_eq, Bool.false_eq_true, if_false, e1, e2, e3, e5, GenStrNtTok.ntB_slice_nat, tsa_slice_to_nat, e4,
    Bool.and_eq_true]
  cases b
  · simp only [Bool.false_eq_true, if_false]
    by_cases h1 : s[k] = '"'
    · simp only [h1, if_true]
    · simp only [h1, if_false]
      by_cases h2 : s[k] = ' ' ∧ (s.drop (k + 1)).take 1 = ['#']
      · simp only [h2, and_self, if_true]
      · simp only [h2, if_false]
  · simp only [if_true]
    by_cases h1 : s[k] = '\\'
    · simp only [h1, if_true]
    · simp only [h1, if_false]
      by_cases h2 : s[k] = '"'
      · simp only [h2, if_true]
      · simp only [h2, if_false]

theorem tsa_rcAux_nil (b : Bool) : Ttl.removeCommentAux b [] = [] := by
  cases b <;> simp [Ttl.removeCommentAux]

theorem tsa_rc_false_quote (c : Char) (t : List Char) (h : c = '"') :
    Ttl.removeCommentAux false (c :: t) = c :: Ttl.removeCommentAux true t := by
  subst h; simp [Ttl.removeCommentAux]

theorem tsa_take1_head (t : List Char) : (t.take 1 = ['#']) ↔ t.head? = some '#' := by
  cases t <;> simp

theorem tsa_rc_false_cut (c : Char) (t : List Char) (h : c = ' ' ∧ t.take 1 = ['#']) :
    Ttl.removeCommentAux false (c :: t) = [] := by
  obtain ⟨h1, h2⟩ := h
  subst h1
  rw [tsa_take1_head] at h2
  simp [Ttl.removeCommentAux, h2]

theorem tsa_rc_false_other (c : Char) (t : List Char) (h1 : ¬ c = '"') (h2 : ¬ (c = ' ' ∧ t.take 1 = ['#'])) :
    Ttl.removeCommentAux false (c :: t) = c :: Ttl.removeCommentAux false t := by
  rw [tsa_take1_head] at h2
  simp only [Ttl.removeCommentAux, h1, if_false]
  have : (c == ' ' && t.head? == some '#') = false := by
    cases hb : (c == ' ' && t.head? == some '#') with
    | false => rfl
    | true =>
      simp only [Bool.and_eq_true, beq_iff_eq] at hb
      exact absurd hb h2
  simp
  intro hc hh
  exact absurd ⟨hc, hh⟩ h2

theorem tsa_rc_true_bs_nil (c : Char) (h : c = '\\') : Ttl.removeCommentAux true [c] = [c] := by
  subst h; simp [Ttl.removeCommentAux]

theorem tsa_rc_true_bs_cons (c d : Char) (t : List Char) (h : c = '\\') :
    Ttl.removeCommentAux true (c :: d :: t) = c :: d :: Ttl.removeCommentAux true t := by
  subst h; simp [Ttl.removeCommentAux]

theorem tsa_rc_true_quote (c : Char) (t : List Char) (h : c = '"') :
    Ttl.removeCommentAux true (c :: t) = c :: Ttl.removeCommentAux false t := by
  cases t <;> simp [Ttl.removeCommentAux, h]

theorem tsa_rc_true_other (c : Char) (t : List Char) (h1 : ¬ c = '\\') (h2 : ¬ c = '"') :
    Ttl.removeCommentAux true (c :: t) = c :: Ttl.removeCommentAux true t := by
  cases t <;> simp [Ttl.removeCommentAux, h1, h2]

theorem tsa_rc_loop (s : List Char) : ∀ (fuel k : Nat) (b : Bool), 1 ≤ fuel → s.length + 1 ≤ fuel + k →
    (whileFuel (tsa_rcBody s) fuel (b, (k : Int)) >>= tsa_rcPost s) =
      Except.ok (s.take k ++ Ttl.removeCommentAux b (s.drop k)) := by
  intro fuel
  induction fuel with
  | zero => intro k b h; omega
  | succ fuel ih =>
    intro k b h1 h2
    rw [GenStrNtTok.whileFuel_succ]
    by_cases hk : k < s.length
    · have ht : s.take (k + 1) = s.take k ++ [s[k]] := List.take_succ_eq_append_getElem hk
      rw [tsa_rcBody_lt s b k hk, GenStrNtTok.drop_cons s k hk]
      cases b
      · simp only [Bool.false_eq_true, if_false]
        by_cases c1 : s[k] = '"'
        · simp only [c1, if_true]
          show (whileFuel (tsa_rcBody s) fuel (true, ((k + 1 : Nat) : Int)) >>= tsa_rcPost s) = _
          rw [ih (k + 1) true (by omega) (by omega), ht, tsa_rc_false_quote _ _ rfl, c1]
          simp
        · simp only [c1, if_false]
          by_cases c2 : s[k] = ' ' ∧ (s.drop (k + 1)).take 1 = ['#']
          · simp only [c2, and_self, if_true]
            rw [tsa_rc_false_cut _ _ ⟨rfl, c2.2⟩, List.append_nil]
            rfl
          · simp only [c2, if_false]
            show (whileFuel (tsa_rcBody s) fuel (false, ((k + 1 : Nat) : Int)) >>= tsa_rcPost s) = _
            rw [ih (k + 1) false (by omega) (by omega), ht, tsa_rc_false_other _ _ c1 c2]
            simp only [List.append_assoc, List.cons_append, List.nil_append]
      · simp only [if_true]
        by_cases c1 : s[k] = '\\'
        · simp only [c1, if_true]
          show (whileFuel (tsa_rcBody s) fuel (true, ((k + 2 : Nat) : Int)) >>= tsa_rcPost s) = _
          rw [ih (k + 2) true (by omega) (by omega)]
          by_cases hk1 : k + 1 < s.length
          · have ht2 : s.take (k + 1 + 1) = s.take (k + 1) ++ [s[k + 1]] := List.take_succ_eq_append_getElem hk1
            rw [GenStrNtTok.drop_cons s (k + 1) hk1, tsa_rc_true_bs_cons _ _ _ rfl, ht2, ht, c1]
            simp only [List.append_assoc, List.cons_append, List.nil_append]
          · rw [List.drop_eq_nil_of_le (show s.length ≤ k + 2 by omega),
              List.drop_eq_nil_of_le (show s.length ≤ k + 1 by omega), tsa_rc_true_bs_nil _ rfl, tsa_rcAux_nil,
              List.take_of_length_le (show s.length ≤ k + 2 by omega), List.append_nil]
            have : s.take (k + 1) = s := List.take_of_length_le (by omega)
            rw [← c1, ← ht, this]
        · simp only [c1, if_false]
          by_cases c2 : s[k] = '"'
          · simp only [c2, if_true]
            show (whileFuel (tsa_rcBody s) fuel (false, ((k + 1 : Nat) : Int)) >>= tsa_rcPost s) = _
            rw [ih (k + 1) false (by omega) (by omega), ht, tsa_rc_true_quote _ _ rfl, c2]
            simp only [List.append_assoc, List.cons_append, List.nil_append]
          · simp only [c2, if_false]
            show (whileFuel (tsa_rcBody s) fuel (true, ((k + 1 : Nat) : Int)) >>= tsa_rcPost s) = _
            rw [ih (k + 1) true (by omega) (by omega), ht, tsa_rc_true_other _ _ c1 c2]
            simp only [List.append_assoc, List.cons_append, List.nil_append]
    · rw [tsa_rcBody_ge s b k (by omega), List.drop_eq_nil_of_le (by omega), tsa_rcAux_nil,
        List.take_of_length_le (by omega), List.append_nil]
      rfl

theorem remove_comments_eq (s : List Char) (fuel : Nat) (hf : s.length + 1 ≤ fuel) :
    GenS.ttl_remove_comments_if_needed fuel s = Except.ok (Ttl.removeComment s) := by
  rw [tsa_rc_unfold]
  have := tsa_rc_loop s fuel 0 false (by omega) (by omega)
  simp only [List.take_zero, List.drop_zero, List.nil_append] at this
  exact this

theorem find_next_blank_eq (s : List Char) (i : Nat) (hi : i ≤ s.length) :
    GenS.ttl_find_next_blank s (i : Int) = Except.ok (((i + ((s.drop i).takeWhile (· != ' ')).length : Nat) : Int)) := by
  unfold GenS.ttl_find_next_blank findAt
  have h0 : " ".toList = [' '] := rfl
  have h1 : ¬ ((i : Int) > (s.length : Int)) := by omega
  have hle := tsa_takeWhile_le (s.drop i) (· != ' ')
  rw [List.length_drop] at hle
  simp only [h0, h1, if_false, GenStrNtTok.ntB_clamp_nat, Nat.min_eq_left hi]
  rw [tsa_findFrom_blank s _ i rfl hi]
  by_cases hc : i + ((s.drop i).takeWhile (· != ' ')).length < s.length
  · simp only [hc, if_true]
    have : ((((i + ((s.drop i).takeWhile (· != ' ')).length : Nat) : Int)) == -1) = false := by
      rw [beq_eq_false_iff_ne]; omega
    simp only [this, Bool.false_eq_true, if_false]; rfl
  · simp only [hc, if_false]
    have : i + ((s.drop i).takeWhile (· != ' ')).length = s.length := by omega
    simp [pure, Except.pure, this]

/-! ### prefixed datatypes -/

theorem tsa_quote_split (tok : List Char) : ∃ hd sfx : List Char, tok = hd ++ sfx ∧
    rfind tok "\"".toList + 1 = (hd.length : Int) ∧ Nt.afterLastQuote tok = sfx := by
  have hq : "\"".toList = ['"'] := rfl
  have hs := GenStr.slice_rfind_quote tok
  rw [hq] at hs ⊢
  by_cases h : '"' ∈ tok
  · obtain ⟨a, b, rfl, hb⟩ := GenStr.split_last tok '"' h
    refine ⟨a ++ ['"'], b, by simp, ?_, ?_⟩
    · rw [GenStr.rfind_split a b '"' hb]; simp
    · rw [← hs, GenStr.rfind_split a b '"' hb]
      have e : (a.length : Int) + 1 = ((a.length + 1 : Nat) : Int) := by omega
      rw [e, GenStr.slice_from]
      have : a ++ '"' :: b = (a ++ ['"']) ++ b := by simp
      rw [this, List.drop_left' (by simp)]
  · refine ⟨[], tok, by simp, ?_, ?_⟩
    · rw [GenStr.rfind_notin tok '"' h]; rfl
    · rw [← hs, GenStr.rfind_notin tok '"' h]
      exact GenStr.slice_from tok 0

theorem tsa_expand_split (prefixes : List (List Char × List Char)) (hd sfx : List Char)
    (hr : rfind (hd ++ sfx) "\"".toList + 1 = (hd.length : Int)) (ha : Nt.afterLastQuote (hd ++ sfx) = sfx) :
    GenS.ttl_expand_prefixed_datatype_if_needed prefixes (hd ++ sfx) =
      Except.ok (Ttl.expandDatatype { prefixes := prefixes } (hd ++ sfx)) := by
  unfold GenS.ttl_expand_prefixed_datatype_if_needed Ttl.expandDatatype
  have e2 : (hd.length : Int) + 2 = ((hd.length + 2 : Nat) : Int) := by omega
  have e3 : (hd.length : Int) + 3 = ((hd.length + 3 : Nat) : Int) := by omega
  have a2 : hd.length + 2 - hd.length = 2 := by omega
  have a3 : hd.length + 3 - (hd.length + 2) = 1 := by omega
  have d0 : (hd ++ sfx).drop hd.length = sfx := List.drop_left' rfl
  have d2 : (hd ++ sfx).drop (hd.length + 2) = sfx.drop 2 := by
    rw [← List.drop_drop, d0]
  have t2 : (hd ++ sfx).take (hd.length + 2) = hd ++ sfx.take 2 := by
    rw [List.take_add, List.take_left' rfl, d0]
  have t0 : (hd ++ sfx).take ((hd ++ sfx).length - sfx.length) = hd := by
    rw [List.length_append, Nat.add_sub_cancel, List.take_left' rfl]
  simp only [hr, ha, e2, e3, GenStrNtTok.ntB_slice_nat, GenStr.slice_from, tsa_slice_to_nat, a2, a3, d0, d2, t2, t0,
    Shexer.GenStrUnprefix.unprefixize_soft_eq]
  have q1 : "^^".toList = ['^', '^'] := rfl
  have q2 : "<".toList = ['<'] := rfl
  rw [q1, q2]
  rcases sfx with _ | ⟨c1, _ | ⟨c2, r⟩⟩
  · simp [pure, Except.pure]
  · by_cases h1 : c1 = '^'
    · subst h1; simp [pure, Except.pure]
    · simp [pure, Except.pure]
  · by_cases h1 : c1 = '^'
    · subst h1
      by_cases h2 : c2 = '^'
      · subst h2
        rcases r with _ | ⟨c3, r⟩
        · cases hu : Ttl.unprefixizeSoft prefixes [] <;> simp [pure, Except.pure, bind, Except.bind, hu]
        · by_cases h3 : c3 = '<'
          · subst h3; simp [pure, Except.pure]
          · cases hu : Ttl.unprefixizeSoft prefixes (c3 :: r) <;> simp [pure, Except.pure, bind, Except.bind, hu, h3]
      · simp [pure, Except.pure, h2]
    · simp [pure, Except.pure, h1]

theorem expand_datatype_eq (prefixes : List (List Char × List Char)) (tok : List Char) :
    GenS.ttl_expand_prefixed_datatype_if_needed prefixes tok = Except.ok (Ttl.expandDatatype { prefixes := prefixes } tok) := by
  obtain ⟨hd, sfx, rfl, hr, ha⟩ := tsa_quote_split tok
  exact tsa_expand_split prefixes hd sfx hr ha

end Shexer.GenStrTtlScan
