import ShexerModel.Spec.TtlGrammar
import ShexerModel.Lemmas.NtLemmas
/-! The streaming Turtle reader model yields the triples of the statement groups, for every placement of line breaks,
blanks and comments. -/
namespace Shexer
namespace TtlGrammar
open Ttl NtGrammar

section Part1
open Nt

/-! ## Layer 1: cleaning a line -/

/-- every word preceded by one space -/
def sp (ws : List (List Char)) : List Char := ws.flatMap (fun w => ' ' :: w)

/-- the words separated by single spaces -/
def joinW : List (List Char) → List Char
  | [] => []
  | w :: ws => w ++ sp ws

theorem sp_cons (w : List Char) (ws : List (List Char)) : sp (w :: ws) = ' ' :: w ++ sp ws := by
  simp [sp]

theorem sp_nil : sp [] = [] := rfl

/-- the two shapes of a token as the cleaning scanners see it -/
inductive Word : List Char → Prop
  | plain (w : List Char) : w ≠ [] → (∀ c ∈ w, plainChar c) → w.head? ≠ some '#' → Word w
  | lit (content : List Item) (S : List Char) : contentOk content → (∀ c ∈ S, plainChar c) →
      Word ('"' :: content.flatMap Item.chars ++ '"' :: S)

theorem plain_ne_space {c d : Char} (hc : plainChar c) (hd : isSpace d = true) : c ≠ d := by
  intro e; subst e; rw [hc.1] at hd; exact Bool.noConfusion hd

theorem plain_ne_sp {c : Char} (hc : plainChar c) : c ≠ ' ' := plain_ne_space hc (by decide)

theorem Word.ne_nil {w : List Char} (h : Word w) : w ≠ [] := by
  cases h with
  | plain _ h _ _ => exact h
  | lit _ _ _ _ => simp

theorem Word.head {w : List Char} (h : Word w) : ∃ c t, w = c :: t ∧ isSpace c = false ∧ c ≠ '#' ∧ c ≠ ' ' := by
  cases h with
  | plain _ hne hp hh =>
    cases w with
    | nil => exact absurd rfl hne
    | cons c t =>
      refine ⟨c, t, rfl, (hp c (by simp)).1, ?_, plain_ne_sp (hp c (by simp))⟩
      intro e; subst e; simp at hh
  | lit C S _ _ => exact ⟨'"', _, rfl, by decide, by decide, by decide⟩

/-! ### subBlanks -/

def allSp (l : List Char) : Prop := ∀ c ∈ l, c = ' '

theorem subBlanks_append (a b : List Char) : subBlanks (a ++ b) = subBlanks a ++ subBlanks b := by
  simp [subBlanks]

theorem subBlanks_blanks (b : List Char) (h : blanksOnly b) : allSp (subBlanks b) ∧ (subBlanks b = [] ↔ b = []) := by
  constructor
  · intro c hc
    simp only [subBlanks, List.mem_map] at hc
    obtain ⟨a, ha, rfl⟩ := hc
    have := h a ha
    simp only [isBlank, Bool.or_eq_true, decide_eq_true_eq] at this
    rcases this with (rfl | rfl) | rfl <;> simp
  · simp [subBlanks]

theorem subBlanks_id (l : List Char) (h : ∀ c ∈ l, c ≠ '\t' ∧ c ≠ '\r' ∧ c ≠ '\n') : subBlanks l = l := by
  induction l with
  | nil => rfl
  | cons a l ih =>
    have := h a (by simp)
    have ih' := ih (fun c hc => h c (by simp [hc]))
    simp only [subBlanks, List.map_cons] at ih' ⊢
    rw [ih']; simp [this.1, this.2.1, this.2.2]

theorem plain_noctl {c : Char} (h : plainChar c) : c ≠ '\t' ∧ c ≠ '\r' ∧ c ≠ '\n' :=
  ⟨plain_ne_space h (by decide), plain_ne_space h (by decide), plain_ne_space h (by decide)⟩

theorem subBlanks_word {w : List Char} (h : Word w) : subBlanks w = w := by
  apply subBlanks_id
  cases h with
  | plain _ _ hp _ => exact fun c hc => plain_noctl (hp c hc)
  | lit C S hC hS =>
    intro c hc
    simp only [List.cons_append, List.mem_cons, List.mem_append] at hc
    rcases hc with rfl | hc | rfl | hc
    · decide
    · exact hC.2.1 c hc
    · decide
    · exact plain_noctl (hS c hc)

/-! ### squeeze -/

theorem sq_cons_ne (p : Bool) (c : Char) (t : List Char) (h : c ≠ ' ') :
    squeezeAux p (c :: t) = c :: squeezeAux false t := by
  simp [squeezeAux, h]

theorem sq_cons_sp_true (t : List Char) : squeezeAux true (' ' :: t) = squeezeAux true t := by
  simp [squeezeAux]

theorem sq_cons_sp_false (t : List Char) : squeezeAux false (' ' :: t) = ' ' :: squeezeAux true t := by
  simp [squeezeAux]

theorem sq_sp_true (b l : List Char) (h : allSp b) : squeezeAux true (b ++ l) = squeezeAux true l := by
  induction b with
  | nil => rfl
  | cons a b ih =>
    have := h a (by simp); subst this
    rw [List.cons_append, sq_cons_sp_true]
    exact ih (fun c hc => h c (by simp [hc]))

theorem sq_sp_false (b l : List Char) (h : allSp b) (hne : b ≠ []) :
    squeezeAux false (b ++ l) = ' ' :: squeezeAux true l := by
  cases b with
  | nil => exact absurd rfl hne
  | cons a b =>
    have := h a (by simp); subst this
    rw [List.cons_append, sq_cons_sp_false, sq_sp_true b l (fun c hc => h c (by simp [hc]))]

theorem sq_nosp (w l : List Char) (h : ∀ c ∈ w, c ≠ ' ') : squeezeAux false (w ++ l) = w ++ squeezeAux false l := by
  induction w with
  | nil => rfl
  | cons a w ih =>
    rw [List.cons_append, sq_cons_ne _ _ _ (h a (by simp)), ih (fun c hc => h c (by simp [hc]))]; rfl

def NoDbl (C : List Char) : Prop := ∀ k, ¬ ([' ', ' '].isPrefixOf (C.drop k) = true)

theorem NoDbl.tail {c : Char} {C : List Char} (h : NoDbl (c :: C)) : NoDbl C := by
  intro k; have := h (k + 1); simpa using this

theorem sq_content (C r : List Char) : ∀ p : Bool, (p = true → C.head? ≠ some ' ') → NoDbl C →
    squeezeAux p (C ++ '"' :: r) = C ++ '"' :: squeezeAux false r := by
  induction C with
  | nil => intro p _ _; exact sq_cons_ne p '"' r (by decide)
  | cons c C ih =>
    intro p hp hd
    by_cases hc : c = ' '
    · subst hc
      have hpf : p = false := by
        cases p with
        | false => rfl
        | true => exact absurd rfl (hp rfl)
      subst hpf
      rw [List.cons_append, sq_cons_sp_false]
      rw [ih true _ hd.tail]
      · rfl
      · intro _ hh
        cases C with
        | nil => simp at hh
        | cons d C =>
          simp at hh; subst hh
          exact hd 0 (by simp [List.isPrefixOf])
    · rw [List.cons_append, sq_cons_ne p c _ hc, ih false (by simp) hd.tail]; rfl

theorem sq_word {w : List Char} (h : Word w) (p : Bool) (l : List Char) :
    squeezeAux p (w ++ l) = w ++ squeezeAux false l := by
  cases h with
  | plain _ hne hp _ =>
    cases w with
    | nil => exact absurd rfl hne
    | cons c t =>
      rw [List.cons_append, sq_cons_ne p c _ (plain_ne_sp (hp c (by simp))),
        sq_nosp t l (fun d hd => plain_ne_sp (hp d (by simp [hd])))]; rfl
  | lit C S hC hS =>
    have e : ('"' :: List.flatMap Item.chars C ++ '"' :: S) ++ l =
        '"' :: (List.flatMap Item.chars C ++ '"' :: (S ++ l)) := by simp
    rw [e, sq_cons_ne p '"' _ (by decide), sq_content _ _ false (by simp) hC.2.2,
      sq_nosp S l (fun d hd => plain_ne_sp (hS d hd))]
    simp

theorem sq_toks (xs : List (List Char × List Char)) (l : List Char)
    (h : ∀ x ∈ xs, allSp x.1 ∧ x.1 ≠ [] ∧ Word x.2) :
    squeezeAux false (xs.flatMap (fun x => x.1 ++ x.2) ++ l) = sp (xs.map (·.2)) ++ squeezeAux false l := by
  induction xs with
  | nil => rfl
  | cons x xs ih =>
    obtain ⟨h1, h2, h3⟩ := h x (by simp)
    have e : (x :: xs).flatMap (fun x => x.1 ++ x.2) ++ l = x.1 ++ (x.2 ++ (xs.flatMap (fun x => x.1 ++ x.2) ++ l)) := by
      simp
    rw [e, sq_sp_false _ _ h1 h2, sq_word h3, ih (fun y hy => h y (by simp [hy]))]
    simp [sp]

theorem sq_first (b w l : List Char) (hb : allSp b) (hw : Word w) :
    ∃ lead, allSp lead ∧ squeezeAux false (b ++ (w ++ l)) = lead ++ (w ++ squeezeAux false l) := by
  by_cases hne : b = []
  · subst hne
    exact ⟨[], by simp [allSp], by rw [List.nil_append, sq_word hw]; rfl⟩
  · refine ⟨[' '], by simp [allSp], ?_⟩
    rw [sq_sp_false _ _ hb hne, sq_word hw]; rfl

/-- what is left of trailing blanks and a comment after squeezing -/
theorem sq_tail (trail : List Char) (ht : allSp trail) (cmt : List Char)
    (hc : cmt = [] ∨ (trail ≠ [] ∧ ∃ z, cmt = '#' :: z)) :
    squeezeAux false (trail ++ cmt) = [] ∨ squeezeAux false (trail ++ cmt) = [' '] ∨
      ∃ Z, squeezeAux false (trail ++ cmt) = ' ' :: '#' :: Z := by
  rcases hc with rfl | ⟨hne, z, rfl⟩
  · by_cases hne : trail = []
    · subst hne; left; rfl
    · right; left; rw [sq_sp_false _ _ ht hne]; rfl
  · right; right
    refine ⟨squeezeAux false z, ?_⟩
    rw [sq_sp_false _ _ ht hne, sq_cons_ne true '#' _ (by decide)]

/-! ### strip -/

def rstrip (l : List Char) : List Char := (l.reverse.dropWhile isSpace).reverse

theorem strip_eq (l : List Char) : strip l = rstrip (l.dropWhile isSpace) := rfl

theorem dropWhile_append_stop {α} (p : α → Bool) (A : List α) (d : α) (B : List α) (hd : p d = false) :
    (A ++ d :: B).dropWhile p = A.dropWhile p ++ d :: B := by
  induction A with
  | nil => simp [hd]
  | cons a A ih =>
    by_cases ha : p a = true
    · simp [List.dropWhile, ha, ih]
    · simp [List.dropWhile, ha]

theorem rstrip_stop (P : List Char) (d : Char) (Z : List Char) (hd : isSpace d = false) :
    rstrip (P ++ d :: Z) = P ++ d :: rstrip Z := by
  unfold rstrip
  have e : (P ++ d :: Z).reverse = Z.reverse ++ d :: P.reverse := by simp
  rw [e, dropWhile_append_stop _ _ _ _ hd]; simp

def lastOk (l : List Char) : Prop := ∀ c, l.getLast? = some c → isSpace c = false

theorem rstrip_id (l : List Char) (h : lastOk l) : rstrip l = l := by
  unfold rstrip
  cases hr : l.reverse with
  | nil => simp at hr; subst hr; rfl
  | cons d u =>
    have hd : l.getLast? = some d := by rw [List.getLast?_eq_head?_reverse, hr]; rfl
    have := h d hd
    simp only [List.dropWhile, this]
    rw [← hr]; simp

theorem rstrip_snoc_sp (l : List Char) : rstrip (l ++ [' ']) = rstrip l := by
  unfold rstrip
  simp [show isSpace ' ' = true by decide]

theorem lastOk_append (A B : List Char) (hB : lastOk B) (hne : B ≠ []) : lastOk (A ++ B) := by
  intro c hc
  rw [List.getLast?_append] at hc
  cases hb : B.getLast? with
  | none => simp at hb; exact absurd hb hne
  | some d => rw [hb] at hc; simp at hc; subst hc; exact hB d hb

theorem Word.lastOk {w : List Char} (h : Word w) : lastOk w := by
  cases h with
  | plain _ _ hp _ => intro c hc; exact (hp c (List.mem_of_getLast? hc)).1
  | lit C S _ hS =>
    have e : ('"' :: List.flatMap Item.chars C ++ '"' :: S) = ('"' :: List.flatMap Item.chars C) ++ ('"' :: S) := by simp
    rw [e]
    apply lastOk_append _ _ _ (by simp)
    intro c hc
    cases S with
    | nil => simp at hc; subst hc; decide
    | cons s S =>
      rw [List.getLast?_cons_cons] at hc
      exact (hS c (List.mem_of_getLast? hc)).1

theorem sp_lastOk (ws : List (List Char)) (h : ∀ w ∈ ws, Word w) : lastOk (sp ws) := by
  induction ws with
  | nil => intro c hc; simp [sp] at hc
  | cons w ws ih =>
    rw [sp_cons]
    have ih' := ih (fun v hv => h v (by simp [hv]))
    by_cases hne : sp ws = []
    · rw [hne, List.append_nil]
      have hw := h w (by simp)
      have : ' ' :: w = [' '] ++ w := rfl
      rw [this]; exact lastOk_append _ _ hw.lastOk hw.ne_nil
    · exact lastOk_append _ _ ih' hne

theorem joinW_lastOk (ws : List (List Char)) (h : ∀ w ∈ ws, Word w) : lastOk (joinW ws) := by
  cases ws with
  | nil => intro c hc; simp [joinW] at hc
  | cons w ws =>
    simp only [joinW]
    by_cases hne : sp ws = []
    · rw [hne, List.append_nil]; exact (h w (by simp)).lastOk
    · exact lastOk_append _ _ (sp_lastOk ws (fun v hv => h v (by simp [hv]))) hne

/-! ### removeComment -/

theorem rc_true_plain (c : Char) (t : List Char) (h1 : c ≠ '\\') (h2 : c ≠ '"') :
    removeCommentAux true (c :: t) = c :: removeCommentAux true t := by
  cases t <;> simp [removeCommentAux, h1, h2]

theorem rc_true_esc (d : Char) (t : List Char) :
    removeCommentAux true ('\\' :: d :: t) = '\\' :: d :: removeCommentAux true t := by
  simp [removeCommentAux]

theorem rc_true_quote (t : List Char) : removeCommentAux true ('"' :: t) = '"' :: removeCommentAux false t := by
  cases t <;> simp [removeCommentAux]

theorem rc_false_quote (t : List Char) : removeCommentAux false ('"' :: t) = '"' :: removeCommentAux true t := by
  simp [removeCommentAux]

theorem rc_false_ne (c : Char) (t : List Char) (h1 : c ≠ '"') (h2 : c ≠ ' ') :
    removeCommentAux false (c :: t) = c :: removeCommentAux false t := by
  simp [removeCommentAux, h1, h2]

theorem rc_false_sp (t : List Char) (h : t.head? ≠ some '#') :
    removeCommentAux false (' ' :: t) = ' ' :: removeCommentAux false t := by
  simp [removeCommentAux, h]

theorem rc_false_cut (t : List Char) : removeCommentAux false (' ' :: '#' :: t) = [] := by
  simp [removeCommentAux]

theorem rc_plain (w l : List Char) (h : ∀ c ∈ w, plainChar c) :
    removeCommentAux false (w ++ l) = w ++ removeCommentAux false l := by
  induction w with
  | nil => rfl
  | cons a w ih =>
    have ha := h a (by simp)
    rw [List.cons_append, rc_false_ne a _ ha.2 (plain_ne_sp ha), ih (fun c hc => h c (by simp [hc]))]; rfl

theorem rc_content (content : List Item) (r : List Char) (hc : ∀ i ∈ content, i.Valid) :
    removeCommentAux true (content.flatMap Item.chars ++ '"' :: r) =
      content.flatMap Item.chars ++ '"' :: removeCommentAux false r := by
  induction content with
  | nil => simp [rc_true_quote]
  | cons i cs ih =>
    have ih' := ih (fun x hx => hc x (by simp [hx]))
    cases i with
    | plain c =>
      have hv := hc (.plain c) (by simp)
      simp only [List.flatMap_cons, Item.chars, List.cons_append, List.nil_append]
      rw [rc_true_plain c _ hv.2 hv.1, ih']
    | esc c =>
      simp only [List.flatMap_cons, Item.chars, List.cons_append, List.nil_append]
      rw [rc_true_esc, ih']

theorem rc_word {w : List Char} (h : Word w) (l : List Char) :
    removeCommentAux false (w ++ l) = w ++ removeCommentAux false l := by
  cases h with
  | plain _ _ hp _ => exact rc_plain w l hp
  | lit C S hC hS =>
    have e : ('"' :: List.flatMap Item.chars C ++ '"' :: S) ++ l =
        '"' :: (List.flatMap Item.chars C ++ '"' :: (S ++ l)) := by simp
    rw [e, rc_false_quote, rc_content C _ hC.1, rc_plain S l hS]; simp

theorem rc_sp (ws : List (List Char)) (h : ∀ w ∈ ws, Word w) (l : List Char) :
    removeCommentAux false (sp ws ++ l) = sp ws ++ removeCommentAux false l := by
  induction ws with
  | nil => rfl
  | cons w ws ih =>
    have hw := h w (by simp)
    obtain ⟨c, t, e, _, hc, _⟩ := hw.head
    have e2 : sp (w :: ws) ++ l = ' ' :: (w ++ (sp ws ++ l)) := by simp [sp_cons]
    rw [e2, rc_false_sp _ (by rw [e]; simp; exact hc), rc_word hw, ih (fun v hv => h v (by simp [hv]))]
    simp [sp_cons]

theorem rc_join (ws : List (List Char)) (h : ∀ w ∈ ws, Word w) (l : List Char) :
    removeCommentAux false (joinW ws ++ l) = joinW ws ++ removeCommentAux false l := by
  cases ws with
  | nil => rfl
  | cons w ws =>
    simp only [joinW, List.append_assoc]
    rw [rc_word (h w (by simp)), rc_sp ws (fun v hv => h v (by simp [hv]))]

theorem hsh_cons (a : Char) (l : List Char) (h : hasSpaceHash l = true) : hasSpaceHash (a :: l) = true := by
  unfold hasSpaceHash
  split
  · rfl
  · rename_i h1 h2; injection h2 with h2 h3; subst h3; exact h
  · rename_i h'; simp at h'

theorem hsh_append (J Z : List Char) : hasSpaceHash (J ++ ' ' :: '#' :: Z) = true := by
  induction J with
  | nil => simp [hasSpaceHash]
  | cons a J ih => exact hsh_cons a _ ih

/-- the end of `cleanLine` -/
theorem clean_finish (J T : List Char) (hT : T = [] ∨ ∃ Z, T = ' ' :: '#' :: Z)
    (hrc : removeCommentAux false (J ++ T) = J) :
    (if hasSpaceHash (J ++ T) then removeComment (J ++ T) else J ++ T) = J := by
  rcases hT with rfl | ⟨Z, rfl⟩
  · simp only [List.append_nil] at hrc ⊢
    split
    · exact hrc
    · rfl
  · rw [hsh_append]; exact hrc

/-- **cleaning**: a line with at least one token cleans to its tokens separated by single blanks -/
theorem clean_words (x0 : List Char × List Char) (xs : List (List Char × List Char)) (trail cmt : List Char)
    (h0 : blanksOnly x0.1) (w0 : Word x0.2) (hxs : ∀ x ∈ xs, blanksOnly x.1 ∧ x.1 ≠ [] ∧ Word x.2)
    (ht : blanksOnly trail) (hc : cmt = [] ∨ (trail ≠ [] ∧ ∃ z, cmt = '#' :: z)) :
    cleanLine ((x0 :: xs).flatMap (fun x => x.1 ++ x.2) ++ trail ++ cmt) = joinW ((x0 :: xs).map (·.2)) := by
  -- subBlanks
  have hsub : subBlanks ((x0 :: xs).flatMap (fun x => x.1 ++ x.2) ++ trail ++ cmt) =
      subBlanks x0.1 ++ (x0.2 ++ ((xs.map fun x => (subBlanks x.1, x.2)).flatMap (fun x => x.1 ++ x.2) ++
        (subBlanks trail ++ subBlanks cmt))) := by
    rw [subBlanks_append, subBlanks_append]
    have : ∀ ys : List (List Char × List Char), (∀ x ∈ ys, Word x.2) →
        subBlanks (ys.flatMap (fun x => x.1 ++ x.2)) = (ys.map fun x => (subBlanks x.1, x.2)).flatMap (fun x => x.1 ++ x.2) := by
      intro ys hys
      induction ys with
      | nil => rfl
      | cons y ys ih =>
        simp only [List.flatMap_cons, List.map_cons, subBlanks_append]
        rw [ih (fun x hx => hys x (by simp [hx])), subBlanks_word (hys y (by simp))]
    rw [List.flatMap_cons, subBlanks_append, subBlanks_append, subBlanks_word w0, this xs (fun x hx => (hxs x hx).2.2)]
    simp
  have hxs' : ∀ x ∈ xs.map (fun x => (subBlanks x.1, x.2)), allSp x.1 ∧ x.1 ≠ [] ∧ Word x.2 := by
    intro x hx
    simp only [List.mem_map] at hx
    obtain ⟨y, hy, rfl⟩ := hx
    obtain ⟨a, b, c⟩ := hxs y hy
    exact ⟨(subBlanks_blanks _ a).1, fun e => b ((subBlanks_blanks _ a).2.1 e), c⟩
  have hws : ∀ w ∈ (x0 :: xs).map (·.2), Word w := by
    intro w hw
    simp only [List.map_cons, List.mem_cons, List.mem_map] at hw
    rcases hw with rfl | ⟨y, hy, rfl⟩
    · exact w0
    · exact (hxs y hy).2.2
  have hcmt : subBlanks cmt = [] ∨ (subBlanks trail ≠ [] ∧ ∃ z, subBlanks cmt = '#' :: z) := by
    rcases hc with rfl | ⟨hne, z, rfl⟩
    · left; rfl
    · right; exact ⟨fun e => hne ((subBlanks_blanks _ ht).2.1 e), subBlanks z, by simp [subBlanks]⟩
  obtain ⟨lead, hlead, hsq⟩ := sq_first (subBlanks x0.1) x0.2
    ((xs.map fun x => (subBlanks x.1, x.2)).flatMap (fun x => x.1 ++ x.2) ++ (subBlanks trail ++ subBlanks cmt))
    (subBlanks_blanks _ h0).1 w0
  rw [sq_toks _ _ hxs'] at hsq
  have hmap : (xs.map fun x => (subBlanks x.1, x.2)).map (·.2) = xs.map (·.2) := by simp
  rw [hmap] at hsq
  obtain ⟨c, t, hw0, hcs, _, _⟩ := w0.head
  have hJ : joinW ((x0 :: xs).map (·.2)) = c :: (t ++ sp (xs.map (·.2))) := by
    simp [joinW, hw0]
  have hstrip : ∀ T, strip (lead ++ (x0.2 ++ (sp (xs.map (·.2)) ++ T))) = rstrip (joinW ((x0 :: xs).map (·.2)) ++ T) := by
    intro T
    have hl : blanks lead := by
      intro d hd; rw [hlead d hd]; decide
    have e : lead ++ (x0.2 ++ (sp (xs.map (·.2)) ++ T)) = lead ++ c :: (t ++ (sp (xs.map (·.2)) ++ T)) := by
      rw [hw0]; rfl
    rw [strip_eq, e, dropWhile_blanks lead c _ hl hcs, hJ]; simp
  have hlast := joinW_lastOk _ hws
  unfold cleanLine squeeze
  simp only []
  rw [hsub, hsq, hstrip]
  rcases sq_tail _ (subBlanks_blanks _ ht).1 _ hcmt with hT | hT | ⟨Z, hT⟩
  · rw [hT, List.append_nil, rstrip_id _ hlast]
    have := clean_finish (joinW ((x0 :: xs).map (·.2))) [] (Or.inl rfl) (by
      rw [rc_join _ hws]; simp [removeCommentAux])
    simpa using this
  · rw [hT, rstrip_snoc_sp, rstrip_id _ hlast]
    have := clean_finish (joinW ((x0 :: xs).map (·.2))) [] (Or.inl rfl) (by
      rw [rc_join _ hws]; simp [removeCommentAux])
    simpa using this
  · rw [hT]
    have e : joinW ((x0 :: xs).map (·.2)) ++ ' ' :: '#' :: Z = (joinW ((x0 :: xs).map (·.2)) ++ [' ']) ++ '#' :: Z := by simp
    rw [e, rstrip_stop _ _ _ (by decide)]
    have e2 : (joinW ((x0 :: xs).map (·.2)) ++ [' ']) ++ '#' :: rstrip Z = joinW ((x0 :: xs).map (·.2)) ++ ' ' :: '#' :: rstrip Z := by simp
    rw [e2]
    exact clean_finish _ _ (Or.inr ⟨_, rfl⟩) (by rw [rc_join _ hws, rc_false_cut]; simp)

/-- a line without tokens cleans to nothing or to a comment -/
theorem clean_empty (trail cmt : List Char) (ht : blanksOnly trail) (hc : cmt = [] ∨ ∃ z, cmt = '#' :: z) :
    cleanLine (trail ++ cmt) = [] ∨ ∃ z, cleanLine (trail ++ cmt) = '#' :: z := by
  have hsp := (subBlanks_blanks _ ht).1
  unfold cleanLine squeeze
  simp only []
  rw [subBlanks_append]
  rcases hc with rfl | ⟨z, rfl⟩
  · left
    have : squeezeAux false (subBlanks trail ++ subBlanks []) = [] ∨ squeezeAux false (subBlanks trail ++ subBlanks []) = [' '] := by
      by_cases hne : subBlanks trail = []
      · left; rw [hne]; rfl
      · right; rw [sq_sp_false _ _ hsp hne]; rfl
    rcases this with h | h <;> rw [h] <;> simp [strip, List.dropWhile, show isSpace ' ' = true by decide, hasSpaceHash]
  · right
    have hz : subBlanks ('#' :: z) = '#' :: subBlanks z := by simp [subBlanks]
    have : ∃ lead, blanks lead ∧ squeezeAux false (subBlanks trail ++ subBlanks ('#' :: z)) = lead ++ '#' :: squeezeAux false (subBlanks z) := by
      rw [hz]
      by_cases hne : subBlanks trail = []
      · refine ⟨[], by simp [blanks], ?_⟩
        rw [hne, List.nil_append, sq_cons_ne _ _ _ (by decide)]; rfl
      · refine ⟨[' '], by simp [blanks]; decide, ?_⟩
        rw [sq_sp_false _ _ hsp hne, sq_cons_ne _ _ _ (by decide)]; rfl
    obtain ⟨lead, hl, e⟩ := this
    rw [e, strip_eq, dropWhile_blanks lead '#' _ hl (by decide)]
    have e2 : '#' :: squeezeAux false (subBlanks z) = [] ++ '#' :: squeezeAux false (subBlanks z) := rfl
    rw [e2, rstrip_stop _ _ _ (by decide), List.nil_append]
    split
    · exact ⟨_, by rw [removeComment, rc_false_ne _ _ (by decide) (by decide)]⟩
    · exact ⟨_, rfl⟩

end Part1

section Part2
open Nt

/-! ## Layer 2: tokens -/

def Tok.Valid (resolve : List Char → List Char → List Char) (ctx : Ctx) : Tok → Prop
  | .elem e => e.Valid resolve ctx
  | _ => True

/-- the token as `_next_line_token` returns it: IRI references are resolved there already -/
def rtok (resolve : List Char → List Char → List Char) (ctx : Ctx) : Tok → List Char
  | .elem (.abs iri) => parseCornered resolve ctx ('<' :: iri ++ ['>'])
  | .elem (.rel r) => parseCornered resolve ctx ('<' :: r ++ ['>'])
  | t => t.chars

theorem digit_plain {c : Char} (h : c.isDigit = true) : plainChar c := by
  constructor
  · cases hs : isSpace c with
    | false => rfl
    | true =>
      have := blank_not_digit c hs
      simp only [isNumeric] at this
      rw [h] at this; exact Bool.noConfusion this
  · intro e; subst e; revert h; decide

/-- a character of an INTEGER token `[+-]?[0-9]+` -/
def intChar (c : Char) : Prop := c.isDigit = true ∨ c = '+' ∨ c = '-'

theorem intChar_plain {c : Char} (h : intChar c) : plainChar c := by
  rcases h with h | rfl | rfl
  · exact digit_plain h
  · exact ⟨by decide, by decide⟩
  · exact ⟨by decide, by decide⟩

theorem intChar_ne {c d : Char} (h : intChar c) (hd : d.isDigit = false) (h1 : d ≠ '+') (h2 : d ≠ '-') : c ≠ d := by
  intro e; subst e
  rcases h with h | h | h
  · rw [h] at hd; exact Bool.noConfusion hd
  · exact h1 h
  · exact h2 h

/-- the characters of a valid INTEGER token, and its first character -/
theorem int_valid_chars {resolve : List Char → List Char → List Char} {ctx : Ctx} {ds : List Char}
    (hv : (Elem.int ds).Valid resolve ctx) : (∀ c ∈ ds, intChar c) ∧ ds ≠ [] := by
  obtain ⟨sign, body, rfl, hs, hne, hd⟩ := hv
  refine ⟨?_, ?_⟩
  · intro c hc
    rcases List.mem_append.1 hc with hc | hc
    · rcases hs with rfl | rfl | rfl
      · simp at hc
      · simp at hc; exact Or.inr (Or.inl hc)
      · simp at hc; exact Or.inr (Or.inr hc)
    · exact Or.inl (hd c hc)
  · intro h; exact hne (List.append_eq_nil_iff.1 h).2

theorem plain_lit (l : List Char) (h : ∀ c ∈ l, c = '<' ∨ c = '>' ∨ c = ':' ∨ c = '^' ∨ c = '@' ∨ c = '_' ∨ c = 'a' ∨
    c = ',' ∨ c = ';' ∨ c = '.') : ∀ c ∈ l, plainChar c := by
  intro c hc
  rcases h c hc with rfl | rfl | rfl | rfl | rfl | rfl | rfl | rfl | rfl | rfl <;> exact ⟨by decide, by decide⟩

theorem plainChar_of {c : Char} (h1 : isSpace c = false) (h2 : c ≠ '"') : plainChar c := ⟨h1, h2⟩

theorem dt_chars_plain {resolve : List Char → List Char → List Char} {ctx : Ctx} (d : DtSpelling)
    (hv : d.Valid resolve ctx) : ∀ c ∈ d.chars, plainChar c := by
  intro c hc
  cases d with
  | abs iri =>
    simp only [DtSpelling.chars, List.mem_cons, List.mem_append, List.mem_nil_iff, or_false] at hc
    rcases hc with (rfl | hc) | rfl
    · exact ⟨by decide, by decide⟩
    · exact (hv.1 c hc).1
    · exact ⟨by decide, by decide⟩
  | pname pre loc =>
    simp only [DtSpelling.chars, List.mem_cons, List.mem_append] at hc
    rcases hc with hc | rfl | hc
    · exact (hv.1 c hc).2
    · exact ⟨by decide, by decide⟩
    · exact hv.2.1.1 c hc

theorem sf_chars_plain {resolve : List Char → List Char → List Char} {ctx : Ctx} (sf : LitSuffix)
    (hv : sf.Valid resolve ctx) : ∀ c ∈ sf.chars, plainChar c := by
  intro c hc
  cases sf with
  | none => simp [LitSuffix.chars] at hc
  | lang tag =>
    simp only [LitSuffix.chars, List.mem_cons] at hc
    rcases hc with rfl | hc
    · exact ⟨by decide, by decide⟩
    · exact hv.2 c hc
  | dt d =>
    simp only [LitSuffix.chars, List.mem_cons] at hc
    rcases hc with rfl | rfl | hc
    · exact ⟨by decide, by decide⟩
    · exact ⟨by decide, by decide⟩
    · exact dt_chars_plain d hv c hc

/-- every token but a literal consists of plain characters -/
theorem tok_chars_plain {resolve : List Char → List Char → List Char} {ctx : Ctx} (t : Tok)
    (hv : t.Valid resolve ctx) (hnl : ∀ C sf, t ≠ .elem (.lit C sf)) : ∀ c ∈ t.chars, plainChar c := by
  intro c hc
  cases t with
  | comma => simp [Tok.chars] at hc; subst hc; exact ⟨by decide, by decide⟩
  | semi => simp [Tok.chars] at hc; subst hc; exact ⟨by decide, by decide⟩
  | dot => simp [Tok.chars] at hc; subst hc; exact ⟨by decide, by decide⟩
  | elem e =>
    cases e with
    | abs iri =>
      simp only [Tok.chars, Elem.chars, List.mem_cons, List.mem_append, List.mem_nil_iff, or_false] at hc
      rcases hc with (rfl | hc) | rfl
      · exact ⟨by decide, by decide⟩
      · exact (hv.1 c hc).1
      · exact ⟨by decide, by decide⟩
    | rel r =>
      simp only [Tok.chars, Elem.chars, List.mem_cons, List.mem_append, List.mem_nil_iff, or_false] at hc
      rcases hc with (rfl | hc) | rfl
      · exact ⟨by decide, by decide⟩
      · exact (hv.1 c hc).1
      · exact ⟨by decide, by decide⟩
    | pname pre loc =>
      simp only [Tok.chars, Elem.chars, List.mem_cons, List.mem_append] at hc
      rcases hc with hc | rfl | hc
      · exact (hv.1 c hc).2
      · exact ⟨by decide, by decide⟩
      · exact hv.2.1.1 c hc
    | kwA => simp [Tok.chars, Elem.chars] at hc; subst hc; exact ⟨by decide, by decide⟩
    | bnode l =>
      simp only [Tok.chars, Elem.chars, List.mem_cons] at hc
      rcases hc with rfl | rfl | hc
      · exact ⟨by decide, by decide⟩
      · exact ⟨by decide, by decide⟩
      · exact hv.2 c hc
    | lit C sf => exact absurd rfl (hnl C sf)
    | int ds => exact intChar_plain ((int_valid_chars (resolve := resolve) (ctx := ctx) hv).1 c hc)

/-- first character of a token that is not a literal, an IRI reference or punctuation -/
theorem simple_head {resolve : List Char → List Char → List Char} {ctx : Ctx} (e : Elem) (hv : e.Valid resolve ctx)
    (h1 : ∀ C sf, e ≠ .lit C sf) (h2 : ∀ i, e ≠ .abs i) (h3 : ∀ r, e ≠ .rel r) :
    ∃ c w, e.chars = c :: w ∧ isClosure c = false ∧ c ≠ '<' ∧ c ≠ '"' ∧ c ≠ '#' ∧ c ≠ '@' := by
  cases e with
  | abs i => exact absurd rfl (h2 i)
  | rel r => exact absurd rfl (h3 r)
  | lit C sf => exact absurd rfl (h1 C sf)
  | kwA => exact ⟨'a', [], rfl, by decide, by decide, by decide, by decide, by decide⟩
  | bnode l => exact ⟨'_', ':' :: l, rfl, by decide, by decide, by decide, by decide, by decide⟩
  | int ds =>
    obtain ⟨hch, hne⟩ := int_valid_chars hv
    cases ds with
    | nil => exact absurd rfl hne
    | cons d ds =>
      have hd : intChar d := hch d (by simp)
      refine ⟨d, ds, rfl, ?_, ?_, ?_, ?_, ?_⟩
      · have a := intChar_ne hd (d := ',') (by decide) (by decide) (by decide)
        have b := intChar_ne hd (d := ';') (by decide) (by decide) (by decide)
        have c := intChar_ne hd (d := '.') (by decide) (by decide) (by decide)
        simp [isClosure, a, b, c]
      all_goals exact intChar_ne hd (by decide) (by decide) (by decide)
  | pname pre loc =>
    have hh := hv.2.2.2.2.1
    have hp : ∀ c ∈ pre, plainChar c := fun c hc => (hv.1 c hc).2
    cases pre with
    | nil =>
      exact ⟨':', loc, rfl, by decide, by decide, by decide, by decide, by decide⟩
    | cons p pre =>
      have := hh p (by simp)
      exact ⟨p, pre ++ ':' :: loc, by simp [Elem.chars], this.2.2.2, this.1, (hp p (by simp)).2, this.2.2.1, this.2.1⟩

theorem tok_word {resolve : List Char → List Char → List Char} {ctx : Ctx} (t : Tok) (hv : t.Valid resolve ctx) :
    Word t.chars := by
  by_cases hl : ∃ C sf, t = .elem (.lit C sf)
  · obtain ⟨C, sf, rfl⟩ := hl
    have := Word.lit C sf.chars hv.1 (sf_chars_plain sf hv.2)
    simpa [Tok.chars, Elem.chars] using this
  · have hnl : ∀ C sf, t ≠ .elem (.lit C sf) := fun C sf e => hl ⟨C, sf, e⟩
    have hp := tok_chars_plain t hv hnl
    cases t with
    | comma => exact Word.plain _ (by simp [Tok.chars]) hp (by simp [Tok.chars])
    | semi => exact Word.plain _ (by simp [Tok.chars]) hp (by simp [Tok.chars])
    | dot => exact Word.plain _ (by simp [Tok.chars]) hp (by simp [Tok.chars])
    | elem e =>
      by_cases ha : ∃ i, e = .abs i
      · obtain ⟨i, rfl⟩ := ha
        exact Word.plain _ (by simp [Tok.chars, Elem.chars]) hp (by simp [Tok.chars, Elem.chars])
      · by_cases hr : ∃ r, e = .rel r
        · obtain ⟨i, rfl⟩ := hr
          exact Word.plain _ (by simp [Tok.chars, Elem.chars]) hp (by simp [Tok.chars, Elem.chars])
        · obtain ⟨c, w, hc, _, _, _, h5, _⟩ := simple_head e hv (fun C sf h => hnl C sf (by rw [h]))
            (fun i h => ha ⟨i, h⟩) (fun r h => hr ⟨r, h⟩)
          refine Word.plain _ (by simp [Tok.chars, hc]) hp ?_
          simp only [Tok.chars, hc, List.head?_cons]; intro h; injection h with h; exact h5 h

/-- the first character of a token is never `@` (the directives) -/
theorem tok_head_ne_at {resolve : List Char → List Char → List Char} {ctx : Ctx} (t : Tok) (hv : t.Valid resolve ctx) :
    t.chars.head? ≠ some '@' := by
  cases t with
  | comma => simp [Tok.chars]
  | semi => simp [Tok.chars]
  | dot => simp [Tok.chars]
  | elem e =>
    by_cases hl : ∃ C sf, e = .lit C sf
    · obtain ⟨C, sf, rfl⟩ := hl; simp [Tok.chars, Elem.chars]
    · by_cases ha : ∃ i, e = .abs i
      · obtain ⟨i, rfl⟩ := ha; simp [Tok.chars, Elem.chars]
      · by_cases hr : ∃ r, e = .rel r
        · obtain ⟨i, rfl⟩ := hr; simp [Tok.chars, Elem.chars]
        · obtain ⟨c, w, hc, _, _, _, _, h6⟩ := simple_head e hv (fun C sf h => hl ⟨C, sf, h⟩)
            (fun i h => ha ⟨i, h⟩) (fun r h => hr ⟨r, h⟩)
          simp only [Tok.chars, hc, List.head?_cons]; intro h; injection h with h; exact h6 h

/-! ### `nextToken` -/

def spOrNil (R : List Char) : Prop := R = [] ∨ ∃ R', R = ' ' :: R'

theorem tw_stop (w R : List Char) (hw : ∀ c ∈ w, c ≠ ' ') (hR : spOrNil R) :
    (w ++ R).takeWhile (· != ' ') = w ∧ (w ++ R).dropWhile (· != ' ') = R := by
  induction w with
  | nil =>
    rcases hR with rfl | ⟨R', rfl⟩ <;> simp
  | cons a w ih =>
    have ha := hw a (by simp)
    have := ih (fun c hc => hw c (by simp [hc]))
    simp [ha, this]

theorem nt_closure (resolve : List Char → List Char → List Char) (ctx : Ctx) (l : List Char) (c : Char) (R : List Char)
    (hl : l.dropWhile (· = ' ') = c :: R) (hc : isClosure c = true) :
    nextToken resolve ctx l = .ok (some ([c], R)) := by
  unfold nextToken
  rw [hl]
  simp [hc, pure, Except.pure]

theorem nt_corner (resolve : List Char → List Char → List Char) (ctx : Ctx) (l v R : List Char)
    (hl : l.dropWhile (· = ' ') = '<' :: v ++ '>' :: R) (hv : ∀ c ∈ v, c ≠ '>') :
    nextToken resolve ctx l = .ok (some (parseCornered resolve ctx ('<' :: v ++ ['>']), R)) := by
  have hv' : ∀ c ∈ '<' :: v, c ≠ '>' := by
    intro c hc; simp at hc; rcases hc with rfl | hc
    · decide
    · exact hv c hc
  have := toCorner_spec ('<' :: v) R hv'
  unfold nextToken
  rw [hl]
  simp only [List.cons_append] at this ⊢
  simp [isClosure, this, pure, Except.pure]

theorem nt_lit (resolve : List Char → List Char → List Char) (ctx : Ctx) (l : List Char) (C : List Item) (S R : List Char)
    (hl : l.dropWhile (· = ' ') = '"' :: C.flatMap Item.chars ++ '"' :: (S ++ R)) (hC : ∀ i ∈ C, i.Valid)
    (hS : ∀ c ∈ S, c ≠ ' ') (hS' : ∀ c, S.head? = some c → c = '^' ∨ c = '@') (hR : spOrNil R) :
    nextToken resolve ctx l = .ok (some ('"' :: C.flatMap Item.chars ++ '"' :: S, R)) := by
  unfold nextToken
  rw [hl]
  simp only [List.cons_append]
  have hcl := closing_spec C (S ++ R) hC
  simp only [isClosure, show ('"' = ',') = False by simp, show ('"' = ';') = False by simp,
    show ('"' = '.') = False by simp, decide_false, Bool.or_false, Bool.false_eq_true, if_false,
    show ('"' = '<') = False by simp, if_true, hcl]
  cases S with
  | nil =>
    rcases hR with rfl | ⟨R', rfl⟩
    · simp [pure, Except.pure]
    · simp [pure, Except.pure]
  | cons d S =>
    have hd := hS' d rfl
    have hd' : d ≠ ' ' := hS d (by simp)
    obtain ⟨h1, h2⟩ := tw_stop (d :: S) R hS hR
    simp only [List.cons_append] at h1 h2
    simp only [List.cons_append, hd', if_false]
    have : (d = '^' ∨ d = '@') := hd
    simp only [Bool.or_eq_true, decide_eq_true_eq, this, if_true, h1, h2]
    simp [pure, Except.pure]

theorem nt_simple (resolve : List Char → List Char → List Char) (ctx : Ctx) (l : List Char) (c : Char) (w R : List Char)
    (hl : l.dropWhile (· = ' ') = c :: w ++ R) (h1 : isClosure c = false) (h2 : c ≠ '<') (h3 : c ≠ '"')
    (hw : ∀ d ∈ c :: w, d ≠ ' ') (hR : spOrNil R) :
    nextToken resolve ctx l = .ok (some (c :: w, R.drop 1)) := by
  unfold nextToken
  rw [hl]
  obtain ⟨e1, e2⟩ := tw_stop (c :: w) R hw hR
  simp only [List.cons_append] at e1 e2 ⊢
  simp only [h1, Bool.false_eq_true, if_false, h2, h3, toSpace, e1, e2]
  rfl

theorem nextToken_tok (resolve : List Char → List Char → List Char) (ctx : Ctx) (t : Tok) (ht : t.Valid resolve ctx)
    (l R : List Char) (hR : spOrNil R) (hl : l.dropWhile (· = ' ') = t.chars ++ R) :
    ∃ R2, nextToken resolve ctx l = .ok (some (rtok resolve ctx t, R2)) ∧ (R2 = R ∨ R2 = R.drop 1) := by
  by_cases hcl : t = .comma ∨ t = .semi ∨ t = .dot
  · rcases hcl with rfl | rfl | rfl
    · exact ⟨R, nt_closure resolve ctx l ',' R hl (by decide), Or.inl rfl⟩
    · exact ⟨R, nt_closure resolve ctx l ';' R hl (by decide), Or.inl rfl⟩
    · exact ⟨R, nt_closure resolve ctx l '.' R hl (by decide), Or.inl rfl⟩
  · cases t with
    | comma => exact absurd (Or.inl rfl) hcl
    | semi => exact absurd (Or.inr (Or.inl rfl)) hcl
    | dot => exact absurd (Or.inr (Or.inr rfl)) hcl
    | elem e =>
      by_cases hlit : ∃ C sf, e = .lit C sf
      · obtain ⟨C, sf, rfl⟩ := hlit
        have hp := sf_chars_plain sf ht.2
        refine ⟨R, ?_, Or.inl rfl⟩
        have := nt_lit resolve ctx l C sf.chars R (by simpa [Tok.chars, Elem.chars] using hl) ht.1.1
          (fun c hc => plain_ne_sp (hp c hc)) (by
            intro c hc
            cases sf with
            | none => simp [LitSuffix.chars] at hc
            | lang tag => simp [LitSuffix.chars] at hc; right; exact hc.symm
            | dt d => simp [LitSuffix.chars] at hc; left; exact hc.symm) hR
        simpa [rtok, Tok.chars, Elem.chars] using this
      · by_cases ha : ∃ i, e = .abs i
        · obtain ⟨i, rfl⟩ := ha
          exact ⟨R, nt_corner resolve ctx l i R (by simpa [Tok.chars, Elem.chars] using hl) (fun c hc => (ht.1 c hc).2),
            Or.inl rfl⟩
        · by_cases hr : ∃ r, e = .rel r
          · obtain ⟨i, rfl⟩ := hr
            exact ⟨R, nt_corner resolve ctx l i R (by simpa [Tok.chars, Elem.chars] using hl) (fun c hc => (ht.1 c hc).2),
              Or.inl rfl⟩
          · obtain ⟨c, w, hc, h1, h2, h3, _, _⟩ := simple_head e ht (fun C sf h => hlit ⟨C, sf, h⟩)
              (fun i h => ha ⟨i, h⟩) (fun r h => hr ⟨r, h⟩)
            have hp := tok_chars_plain (.elem e) ht (fun C sf h => hlit ⟨C, sf, by injection h⟩)
            have hrt : rtok resolve ctx (.elem e) = c :: w := by
              rw [← hc]
              cases e with
              | abs i => exact absurd ⟨i, rfl⟩ ha
              | rel r => exact absurd ⟨r, rfl⟩ hr
              | _ => rfl
            refine ⟨R.drop 1, ?_, Or.inr rfl⟩
            rw [hrt]
            apply nt_simple resolve ctx l c w R _ h1 h2 h3 _ hR
            · rw [hl]; simp [Tok.chars, hc]
            · intro d hd; apply plain_ne_sp; apply hp; simp only [Tok.chars, hc]; exact hd

theorem nextToken_nil (resolve : List Char → List Char → List Char) (ctx : Ctx) (l : List Char)
    (hl : l.dropWhile (· = ' ') = []) : nextToken resolve ctx l = .ok none := by
  unfold nextToken
  rw [hl]; rfl

end Part2

section Part3
open Nt

/-! ## Layer 3: elements -/

/-! ### prefixed names -/

theorem isPrefix_colon (p pre loc : List Char) (hp : ∀ c ∈ p, c ≠ ':') (hpre : ∀ c ∈ pre, c ≠ ':') :
    (p ++ [':']).isPrefixOf (pre ++ ':' :: loc) = decide (p = pre) := by
  induction p generalizing pre with
  | nil =>
    cases pre with
    | nil => simp [List.isPrefixOf]
    | cons a pre =>
      have : a ≠ ':' := hpre a (by simp)
      simp [List.isPrefixOf, Ne.symm this]
  | cons x p ih =>
    have hx : x ≠ ':' := hp x (by simp)
    cases pre with
    | nil => simp [List.isPrefixOf, hx]
    | cons a pre =>
      have := ih pre (fun c hc => hp c (by simp [hc])) (fun c hc => hpre c (by simp [hc]))
      simp only [List.cons_append, List.isPrefixOf, this]
      by_cases hxa : x = a
      · subst hxa; simp
      · simp [hxa]

theorem find_prefix (prefixes : List (List Char × List Char)) (pre loc : List Char)
    (hctx : ∀ e ∈ prefixes, ∀ c ∈ e.1, c ≠ ':') (hpre : ∀ c ∈ pre, c ≠ ':') :
    (prefixes.find? fun (p, _) => (p ++ [':']).isPrefixOf (pre ++ ':' :: loc)) =
      prefixes.find? fun e => e.1 = pre := by
  induction prefixes with
  | nil => rfl
  | cons e es ih =>
    have h1 := isPrefix_colon e.1 pre loc (hctx e (by simp)) hpre
    have ih' := ih (fun x hx => hctx x (by simp [hx]))
    simp only [List.find?_cons, h1, ih']

theorem replaceAllAux_id (pat by_ : List Char) : ∀ (l : List Char) (fuel : Nat),
    (∀ j, ¬ pat.isPrefixOf (l.drop j) = true) → replaceAllAux pat by_ fuel l = l := by
  intro l
  induction l with
  | nil => intro fuel _; cases fuel <;> simp [replaceAllAux]
  | cons c t ih =>
    intro fuel h
    cases fuel with
    | zero => simp [replaceAllAux]
    | succ n =>
      have h0 : pat.isPrefixOf (c :: t) = false := by
        have := h 0
        simp only [List.drop_zero] at this
        cases hb : pat.isPrefixOf (c :: t) with
        | false => rfl
        | true => exact absurd hb this
      rw [replaceAllAux]
      simp only [h0, Bool.false_and, Bool.false_eq_true, if_false]
      rw [ih n (fun j => by have := h (j + 1); simp only [List.drop_succ_cons] at this; exact this)]

theorem replaceAll_pname (pre loc ns : List Char) (hloc : locOk pre loc) :
    replaceAll (pre ++ [':']) ns (pre ++ ':' :: loc) = ns ++ loc := by
  unfold replaceAll
  have hne : ∃ c t, pre ++ ':' :: loc = c :: t := by
    cases pre with
    | nil => exact ⟨':', loc, rfl⟩
    | cons a p => exact ⟨a, p ++ ':' :: loc, rfl⟩
  obtain ⟨c, t, e⟩ := hne
  have hpfx : (pre ++ [':']).isPrefixOf (c :: t) = true := by
    rw [← e]; simp only [List.isPrefixOf_iff_prefix]
    exact ⟨loc, by simp⟩
  have hdrop : (c :: t).drop (pre ++ [':']).length = loc := by
    rw [← e]
    have : pre ++ ':' :: loc = (pre ++ [':']) ++ loc := by simp
    rw [this, List.drop_left]
  rw [e, replaceAllAux]
  simp only [hpfx, Bool.true_and]
  have hemp : (pre ++ [':']).isEmpty = false := by simp
  simp only [hemp, Bool.not_false, if_true]
  rw [hdrop, replaceAllAux_id]
  intro j hj
  apply hloc.2 (pre.length + j)
  have : (pre ++ ':' :: loc).drop (pre.length + j + 1) = loc.drop j := by
    rw [Nat.add_assoc, List.drop_length_add_append]; simp
  rw [this]; exact hj

theorem unprefixize_pname (ctx : Ctx) (hctx : ctxOk ctx) (pre loc ns : List Char) (hpre : preOk pre)
    (hloc : locOk pre loc) (hns : lookup ctx.prefixes pre = some ns) :
    unprefixize ctx.prefixes (pre ++ ':' :: loc) = some (ns ++ loc) := by
  unfold unprefixize
  rw [find_prefix ctx.prefixes pre loc hctx (fun c hc => (hpre c hc).1)]
  unfold lookup at hns
  cases hf : ctx.prefixes.find? (fun e => decide (e.1 = pre)) with
  | none => rw [hf] at hns; simp at hns
  | some e =>
    rw [hf] at hns
    simp only [Option.map_some, Option.some.injEq] at hns
    have he : e.1 = pre := by
      have := List.find?_some hf; simpa using this
    obtain ⟨p, n⟩ := e
    simp only at he hns
    subst he; subst hns
    simp only [Option.map_some]
    rw [replaceAll_pname p loc n hloc]

/-- `pre://…` would be a full IRI; a local name that does not start with `//` is not one -/
theorem not_scheme_prefix (e pre loc : List Char) (he : (e ++ [':']).isPrefixOf (pre ++ ':' :: loc) = (decide (e = pre)))
    (hloc : ['/', '/'].isPrefixOf loc = false) :
    ((e ++ [':']).isPrefixOf (pre ++ ':' :: loc) && !(e ++ [':', '/', '/']).isPrefixOf (pre ++ ':' :: loc)) = decide (e = pre) := by
  rw [he]
  by_cases h : e = pre
  · subst h
    have : (e ++ [':', '/', '/']).isPrefixOf (e ++ ':' :: loc) = false := by
      induction e with
      | nil =>
        cases loc with
        | nil => rfl
        | cons a t =>
          cases t with
          | nil => simp [List.isPrefixOf] at hloc ⊢
          | cons b u => simpa [List.isPrefixOf] using hloc
      | cons c t ih =>
        simp only [List.cons_append, List.isPrefixOf, BEq.rfl, Bool.true_and]
        exact ih (by simpa using he) 
    simp [this]
  · simp [h]

theorem find_prefix_soft (prefixes : List (List Char × List Char)) (pre loc : List Char)
    (hctx : ∀ e ∈ prefixes, ∀ c ∈ e.1, c ≠ ':') (hpre : ∀ c ∈ pre, c ≠ ':') (hloc : ['/', '/'].isPrefixOf loc = false) :
    (prefixes.find? fun (p, _) => (p ++ [':']).isPrefixOf (pre ++ ':' :: loc) && !(p ++ [':', '/', '/']).isPrefixOf (pre ++ ':' :: loc)) =
      prefixes.find? fun e => e.1 = pre := by
  induction prefixes with
  | nil => rfl
  | cons e es ih =>
    have h1 := isPrefix_colon e.1 pre loc (hctx e (by simp)) hpre
    have h2 := not_scheme_prefix e.1 pre loc h1 hloc
    have ih' := ih (fun x hx => hctx x (by simp [hx]))
    simp only [List.find?_cons, h2, ih']

theorem unprefixizeSoft_pname (ctx : Ctx) (hctx : ctxOk ctx) (pre loc ns : List Char) (hpre : preOk pre)
    (hloc : locOk pre loc) (hns : lookup ctx.prefixes pre = some ns) (hsl : ['/', '/'].isPrefixOf loc = false) :
    unprefixizeSoft ctx.prefixes (pre ++ ':' :: loc) = some (ns ++ loc) := by
  have h := unprefixize_pname ctx hctx pre loc ns hpre hloc hns
  unfold unprefixize at h
  unfold unprefixizeSoft
  rw [find_prefix ctx.prefixes pre loc hctx (fun c hc => (hpre c hc).1)] at h
  rw [find_prefix_soft ctx.prefixes pre loc hctx (fun c hc => (hpre c hc).1) hsl]
  exact h

end Part3

section Part4
open Nt

/-! ### IRI references -/

theorem rcs_cornered (v : List Char) : removeCornersSoft ('<' :: (v ++ ['>'])) = v := by
  simp [removeCornersSoft, startsWith, endsWith]

theorem pc_fix (resolve : List Char → List Char → List Char) (ctx : Ctx) (v : List Char)
    (h : ∀ b, ctx.base = some b → resolve b v = v) :
    parseCornered resolve ctx ('<' :: (v ++ ['>'])) = '<' :: (v ++ ['>']) := by
  unfold parseCornered
  cases hb : ctx.base with
  | none => rfl
  | some b => simp [h b hb]

theorem pc_base (resolve : List Char → List Char → List Char) (ctx : Ctx) (v b : List Char) (hb : ctx.base = some b) :
    parseCornered resolve ctx ('<' :: (v ++ ['>'])) = '<' :: (resolve b v ++ ['>']) := by
  unfold parseCornered
  simp [hb]

theorem parseElem_cornered (resolve : List Char → List Char → List Char) (ctx : Ctx) (t : List Char) :
    parseElem resolve ctx ('<' :: t) = .ok (some (parseCornered resolve ctx ('<' :: t))) := by
  simp [parseElem, pure, Except.pure]

theorem tune_cornered (resolve : List Char → List Char → List Char) (base : Option (List Char)) (v : List Char) :
    tuneSubj (some ('<' :: (v ++ ['>']))) = .ok (.iri (String.ofList v)) ∧
    tuneProp (some ('<' :: (v ++ ['>']))) = .ok (String.ofList v) ∧
    tuneObj resolve base (some ('<' :: (v ++ ['>']))) = .ok (.iri (String.ofList v)) := by
  refine ⟨?_, ?_, ?_⟩
  · simp [tuneSubj, startsWith, rcs_cornered, pure, Except.pure]
  · simp [tuneProp, rcs_cornered, pure, Except.pure]
  · simp [tuneObj, startsWith, rcs_cornered, pure, Except.pure]

/-! ### numbers -/

theorem tw_all {α} (p : α → Bool) (l : List α) (h : ∀ c ∈ l, p c = true) : l.takeWhile p = l ∧ l.dropWhile p = [] := by
  induction l with
  | nil => simp
  | cons a l ih =>
    have := ih (fun c hc => h c (by simp [hc]))
    simp [h a (by simp), this]

theorem intChars_strip (ds : List Char) (hd : ∀ c ∈ ds, intChar c) : strip ds = ds := by
  apply strip_id
  · intro c hc
    cases ds with
    | nil => simp at hc
    | cons a t => simp at hc; subst hc; exact (intChar_plain (hd _ (by simp))).1
  · intro c hc; exact (intChar_plain (hd c (List.mem_of_getLast? hc))).1

theorem digit_ne {c d : Char} (h : c.isDigit = true) (hd : d.isDigit = false) : c ≠ d := by
  intro e; subst e; rw [h] at hd; exact Bool.noConfusion hd

theorem sign_id (ds : List Char) : ds.head? ≠ some '+' → ds.head? ≠ some '-' →
    Ttl.isNum.match_1 (fun _ => List Char) ds (fun r => r) (fun r => r) (fun r => r) = ds := by
  intro h1 h2
  split
  · simp at h1
  · simp at h2
  · rfl

/-- `isNum` on a token that `strip` leaves alone and whose part after the optional sign is a run of digits -/
theorem isNum_of (tok ds : List Char) (hs : strip tok = tok)
    (hm : Ttl.isNum.match_1 (fun _ => List Char) tok (fun r => r) (fun r => r) (fun r => r) = ds)
    (hne : ds ≠ []) (hd : ∀ c ∈ ds, c.isDigit = true) : isNum tok = true := by
  unfold isNum
  rw [hs]
  simp only [hm]
  have h1 := tw_all (fun c => c != 'e' && c != 'E') ds (by
    intro c hc
    have a := digit_ne (hd c hc) (show Char.isDigit 'e' = false by decide)
    have b := digit_ne (hd c hc) (show Char.isDigit 'E' = false by decide)
    simp [a, b])
  rw [h1.1, h1.2]
  have h2 := tw_all (fun c => c != '.') ds (by
    intro c hc
    have a := digit_ne (hd c hc) (show Char.isDigit '.' = false by decide)
    simp [a])
  rw [h2.1]
  have hdot : ds.contains '.' = false := by
    cases hc : ds.contains '.' with
    | false => rfl
    | true =>
      have := List.contains_iff_mem.1 hc
      exact absurd (hd _ this) (by decide)
  have hdig : digits ds = true := by
    simp only [digits, Bool.and_eq_true, Bool.not_eq_true', List.all_eq_true]
    exact ⟨by cases ds with | nil => exact absurd rfl hne | cons _ _ => rfl, hd⟩
  have hmem : '.' ∉ ds := by
    intro h; exact absurd (hd _ h) (by decide)
  simp [hmem, hdig]

theorem isNum_int {resolve : List Char → List Char → List Char} {ctx : Ctx} (ds : List Char)
    (hv : (Elem.int ds).Valid resolve ctx) : isNum ds = true := by
  have hstrip := intChars_strip ds (int_valid_chars hv).1
  obtain ⟨sign, body, rfl, hs, hne, hd⟩ := hv
  refine isNum_of _ body hstrip ?_ hne hd
  rcases hs with rfl | rfl | rfl
  · exact sign_id body (by
      intro h; exact absurd (hd '+' (List.mem_of_mem_head? h)) (by decide)) (by
      intro h; exact absurd (hd '-' (List.mem_of_mem_head? h)) (by decide))
  · rfl
  · rfl

theorem isIntegral_intChars (ds : List Char) (hd : ∀ c ∈ ds, intChar c) : isIntegral ds = true := by
  unfold isIntegral
  rw [intChars_strip ds hd]
  have h1 := tw_all (fun c => c != 'e' && c != 'E') ds (by
    intro c hc
    have a := intChar_ne (hd c hc) (d := 'e') (by decide) (by decide) (by decide)
    have b := intChar_ne (hd c hc) (d := 'E') (by decide) (by decide) (by decide)
    simp [a, b])
  have h2 := tw_all (fun c => c != '.') ds (by
    intro c hc
    have a := intChar_ne (hd c hc) (d := '.') (by decide) (by decide) (by decide)
    simp [a])
  have he : ∀ x : Char, x.isDigit = false → x ≠ '+' → x ≠ '-' → ds.contains x = false := by
    intro x hx hp hm
    cases hc : ds.contains x with
    | false => rfl
    | true =>
      have := List.contains_iff_mem.1 hc
      exact absurd rfl (intChar_ne (hd _ this) hx hp hm)
  simp only [h1.1, h2.2, he 'e' (by decide) (by decide) (by decide), he 'E' (by decide) (by decide) (by decide)]
  rfl

/-! ### literals -/

theorem dT_none (resolve : List Char → List Char → List Char) (base : Option (List Char)) (tok : List Char)
    (h : afterLastQuote tok = []) : Ttl.decideType resolve base tok = .ok Gen.STRING_TYPE := by
  simp [Ttl.decideType, h, strip, startsWith, pure, Except.pure]

theorem dT_lang (resolve : List Char → List Char → List Char) (base : Option (List Char)) (tok tag : List Char)
    (h : afterLastQuote tok = '@' :: tag) (hst : strip ('@' :: tag) = '@' :: tag) :
    Ttl.decideType resolve base tok = .ok Gen.LANG_STRING_TYPE := by
  simp [Ttl.decideType, h, hst, startsWith, pure, Except.pure]

theorem dT_dt (resolve : List Char → List Char → List Char) (base : Option (List Char)) (tok d : List Char)
    (h : afterLastQuote tok = '^' :: '^' :: '<' :: (d ++ ['>']))
    (hst : strip ('^' :: '^' :: '<' :: (d ++ ['>'])) = '^' :: '^' :: '<' :: (d ++ ['>']))
    (hfix : ∀ b, base = some b → resolve b d = d) :
    Ttl.decideType resolve base tok = .ok (String.ofList d) := by
  cases hb : base with
  | none => simp [Ttl.decideType, h, hst, startsWith, endsWith, pure, Except.pure]
  | some b => simp [Ttl.decideType, h, hst, startsWith, endsWith, pure, Except.pure, hfix b hb]

theorem strip_dt (d : List Char) : strip ('^' :: '^' :: '<' :: (d ++ ['>'])) = '^' :: '^' :: '<' :: (d ++ ['>']) := by
  apply strip_id
  · intro c hc; simp at hc; subst hc; decide
  · intro c hc
    have : ('^' :: '^' :: '<' :: (d ++ ['>'])).getLast? = some '>' :=
      List.getLast?_concat (l := '^' :: '^' :: '<' :: d)
    rw [this] at hc; simp at hc; subst hc; decide

theorem tuneObj_lit (resolve : List Char → List Char → List Char) (base : Option (List Char)) (p : List Char) (d : String)
    (hd : Ttl.decideType resolve base ('"' :: p) = .ok d) : tuneObj resolve base (some ('"' :: p)) = .ok (.lit d) := by
  simp [tuneObj, startsWith, hd, bind, Except.bind, pure, Except.pure]

theorem expand_plain (ctx : Ctx) (tok : List Char) (h : ∀ dt, afterLastQuote tok ≠ '^' :: '^' :: dt) :
    expandDatatype ctx tok = tok := by
  unfold expandDatatype
  simp only []
  split
  · rfl
  · rename_i dt _ heq; exact absurd heq (h _)
  · rfl

theorem expand_abs (ctx : Ctx) (tok d : List Char) (h : afterLastQuote tok = '^' :: '^' :: '<' :: d) :
    expandDatatype ctx tok = tok := by
  unfold expandDatatype
  simp only [h]

theorem expand_pname (ctx : Ctx) (Q dt e : List Char) (hq : ∀ c ∈ dt, c ≠ '"') (hh : dt.head? ≠ some '<')
    (hu : unprefixizeSoft ctx.prefixes dt = some e) :
    expandDatatype ctx (Q ++ ['"'] ++ ('^' :: '^' :: dt)) = Q ++ ['"'] ++ ['^', '^', '<'] ++ e ++ ['>'] := by
  have ha : afterLastQuote (Q ++ ['"'] ++ ('^' :: '^' :: dt)) = '^' :: '^' :: dt := by
    apply afterLastQuote_spec
    intro c hc; simp only [List.mem_cons] at hc
    rcases hc with rfl | rfl | hc
    · decide
    · decide
    · exact hq c hc
  unfold expandDatatype
  simp only [ha]
  have htake : (Q ++ ['"'] ++ '^' :: '^' :: dt).take ((Q ++ ['"'] ++ '^' :: '^' :: dt).length - ('^' :: '^' :: dt).length) =
      Q ++ ['"'] := by
    apply List.take_left'
    simp only [List.length_append, List.length_cons, List.length_nil]
    omega
  split
  · rename_i x heq
    simp only [List.cons.injEq, true_and] at heq
    rw [heq] at hh; simp at hh
  · rename_i dt' _ heq
    simp only [List.cons.injEq, true_and] at heq
    subst heq
    rw [hu]
    simp only [htake]
  · rename_i h1 h2
    exact absurd rfl (h2 dt)

end Part4

section Part5
open Nt

/-- what the state machine needs to know about a written element: the token parses, it is not punctuation, and the
parsed form tunes to the term / IRI of the grammar in the positions the element may take -/
structure ElemOk (resolve : List Char → List Char → List Char) (ctx : Ctx) (e : Elem) (p : List Char) : Prop where
  parse : parseElem resolve ctx (rtok resolve ctx (.elem e)) = .ok (some p)
  head : ∃ c w, rtok resolve ctx (.elem e) = c :: w ∧ isClosure c = false
  subj : subjOk e → tuneSubj (some p) = .ok (e.term resolve ctx)
  pred : predOk e → tuneProp (some p) = .ok ((e.iri? resolve ctx).getD "")
  obj : objOk e → tuneObj resolve ctx.base (some p) = .ok (e.term resolve ctx)

variable {resolve : List Char → List Char → List Char} {ctx : Ctx}

theorem elemOk_abs (iri : List Char) (hv : (Elem.abs iri).Valid resolve ctx) :
    ElemOk resolve ctx (.abs iri) ('<' :: (iri ++ ['>'])) := by
  have hrt : rtok resolve ctx (.elem (.abs iri)) = '<' :: (iri ++ ['>']) := by
    simp only [rtok, List.cons_append]; exact pc_fix resolve ctx iri hv.2
  obtain ⟨t1, t2, t3⟩ := tune_cornered resolve ctx.base iri
  refine ⟨?_, ⟨'<', _, hrt, by decide⟩, fun _ => ?_, fun _ => ?_, fun _ => ?_⟩
  · rw [hrt, parseElem_cornered, pc_fix resolve ctx iri hv.2]
  · rw [t1]; simp [Elem.term, Elem.iri?]
  · rw [t2]; simp [Elem.iri?]
  · rw [t3]; simp [Elem.term, Elem.iri?]

theorem elemOk_rel (r : List Char) (hv : (Elem.rel r).Valid resolve ctx) :
    ∃ p, ElemOk resolve ctx (.rel r) p := by
  obtain ⟨_, b, hb, hok⟩ := hv
  have hrt : rtok resolve ctx (.elem (.rel r)) = '<' :: (resolve b r ++ ['>']) := by
    simp only [rtok, List.cons_append]; exact pc_base resolve ctx r b hb
  obtain ⟨t1, t2, t3⟩ := tune_cornered resolve ctx.base (resolve b r)
  refine ⟨'<' :: (resolve b r ++ ['>']), ?_, ⟨'<', _, hrt, by decide⟩, fun _ => ?_, fun _ => ?_, fun _ => ?_⟩
  · rw [hrt, parseElem_cornered, pc_base resolve ctx _ b hb, hok.idem]
  · rw [t1]; simp [Elem.term, Elem.iri?, hb]
  · rw [t2]; simp [Elem.iri?, hb]
  · rw [t3]; simp [Elem.term, Elem.iri?, hb]

theorem parseElem_pname (c : Char) (w e : List Char) (h1 : c ≠ '<') (h2 : c :: w ≠ ['a'])
    (h3 : c :: w ≠ "rdf:type".toList) (h4 : c ≠ '"') (h5 : (c :: w).contains ':' = true)
    (h6 : startsWith (c :: w) "_:" = false) (h7 : unprefixize ctx.prefixes (c :: w) = some e) :
    parseElem resolve ctx (c :: w) = .ok (some ('<' :: (e ++ ['>']))) := by
  have h23 : (decide (c :: w = ['a']) || decide (c :: w = "rdf:type".toList)) = false := by
    simp only [h2, h3, decide_false, Bool.or_false]
  unfold parseElem
  simp only [h1, if_false, h23, Bool.false_eq_true, h4, h5, if_true, h6, h7]
  rfl

theorem startsWith_bn_false (pre loc : List Char) (hpre : ∀ c ∈ pre, c ≠ ':') (hne : pre ≠ ['_']) :
    startsWith (pre ++ ':' :: loc) "_:" = false := by
  have e : "_:".toList = ['_', ':'] := by simp
  unfold startsWith
  rw [e]
  cases pre with
  | nil => simp [List.isPrefixOf]
  | cons a pre =>
    cases pre with
    | nil =>
      have : a ≠ '_' := fun h => hne (by rw [h])
      simp [List.isPrefixOf, Ne.symm this]
    | cons b pre =>
      have : b ≠ ':' := hpre b (by simp)
      simp [List.isPrefixOf, Ne.symm this]

theorem elemOk_pname (hctx : ctxOk ctx) (pre loc : List Char) (hv : (Elem.pname pre loc).Valid resolve ctx) :
    ∃ p, ElemOk resolve ctx (.pname pre loc) p := by
  obtain ⟨hpre, hloc, hnb, ⟨ns, hns⟩, _, hnt⟩ := hv
  obtain ⟨c, w, hc, h1, h2, h3, _, _⟩ := simple_head (resolve := resolve) (ctx := ctx) (.pname pre loc)
    ⟨hpre, hloc, hnb, ⟨ns, hns⟩, ‹_›, hnt⟩ (by intro _ _ h; cases h) (by intro _ h; cases h) (by intro _ h; cases h)
  have hch : (Elem.pname pre loc).chars = pre ++ ':' :: loc := rfl
  have hrt : rtok resolve ctx (.elem (.pname pre loc)) = c :: w := by rw [← hc]; rfl
  have hmem : ':' ∈ c :: w := by rw [← hc, hch]; simp
  have hp : parseElem resolve ctx (c :: w) = .ok (some ('<' :: ((ns ++ loc) ++ ['>']))) := by
    apply parseElem_pname c w (ns ++ loc) h2 _ _ h3 (List.contains_iff_mem.2 hmem)
    · rw [← hc, hch]; exact startsWith_bn_false pre loc (fun d hd => (hpre d hd).1) hnb
    · rw [← hc, hch]; exact unprefixize_pname ctx hctx pre loc ns hpre hloc hns
    · intro h; rw [h] at hmem; simp at hmem
    · rw [← hc, hch]; exact hnt
  obtain ⟨t1, t2, t3⟩ := tune_cornered resolve ctx.base (ns ++ loc)
  refine ⟨'<' :: ((ns ++ loc) ++ ['>']), ?_, ⟨c, w, hrt, h1⟩, fun _ => ?_, fun _ => ?_, fun _ => ?_⟩
  · rw [hrt]; exact hp
  · rw [t1]; simp [Elem.term, Elem.iri?, hns]
  · rw [t2]; simp [Elem.iri?, hns]
  · rw [t3]; simp [Elem.term, Elem.iri?, hns]

theorem rdf_type_uri : RDF_TYPE_URI = '<' :: (RDF_TYPE.toList ++ ['>']) := by
  rfl

theorem parseElem_a : parseElem resolve ctx ['a'] = .ok (some RDF_TYPE_URI) := by
  simp [parseElem, pure, Except.pure]

theorem tuneProp_a : tuneProp (some RDF_TYPE_URI) = .ok RDF_TYPE := by
  rw [rdf_type_uri, (tune_cornered (fun a _ => a) none _).2.1]; simp

theorem elemOk_kwA : ElemOk resolve ctx .kwA RDF_TYPE_URI := by
  have hrt : rtok resolve ctx (.elem .kwA) = ['a'] := rfl
  refine ⟨?_, ⟨'a', [], hrt, by decide⟩, fun h => h.elim, fun _ => ?_, fun h => h.elim⟩
  · rw [hrt]; exact parseElem_a
  · rw [tuneProp_a]; rfl

theorem elemOk_bnode (l : List Char) : ElemOk resolve ctx (.bnode l) ('_' :: ':' :: l) := by
  refine ⟨?_, ⟨'_', ':' :: l, rfl, by decide⟩, fun _ => ?_, fun h => h.elim, fun _ => ?_⟩
  · simp [rtok, Tok.chars, Elem.chars, parseElem, startsWith, pure, Except.pure]
  · simp [tuneSubj, startsWith, Elem.term, pure, Except.pure]
  · simp [tuneObj, startsWith, Elem.term, pure, Except.pure]

theorem elemOk_int (ds : List Char) (hv : (Elem.int ds).Valid resolve ctx) : ElemOk resolve ctx (.int ds) ds := by
  obtain ⟨hd, hne⟩ := int_valid_chars hv
  have hnum := isNum_int ds hv
  have hint := isIntegral_intChars ds hd
  have hstrip := intChars_strip ds hd
  cases ds with
  | nil => exact absurd rfl hne
  | cons d t =>
    have hdd : intChar d := hd d (by simp)
    have n1 : d ≠ '<' := intChar_ne hdd (by decide) (by decide) (by decide)
    have n2 : d ≠ '"' := intChar_ne hdd (by decide) (by decide) (by decide)
    have n3 : d ≠ 'a' := intChar_ne hdd (by decide) (by decide) (by decide)
    have n4 : d ≠ 'r' := intChar_ne hdd (by decide) (by decide) (by decide)
    have n5 : d ≠ '_' := intChar_ne hdd (by decide) (by decide) (by decide)
    have n6 : d ≠ '[' := intChar_ne hdd (by decide) (by decide) (by decide)
    have hcl : isClosure d = false := by
      have a := intChar_ne hdd (d := ',') (by decide) (by decide) (by decide)
      have b := intChar_ne hdd (d := ';') (by decide) (by decide) (by decide)
      have c := intChar_ne hdd (d := '.') (by decide) (by decide) (by decide)
      simp [isClosure, a, b, c]
    have hcol : (d :: t).contains ':' = false := by
      cases hc : (d :: t).contains ':' with
      | false => rfl
      | true =>
        exact absurd rfl (intChar_ne (hd _ (List.contains_iff_mem.1 hc)) (d := ':') (by decide) (by decide) (by decide))
    refine ⟨?_, ⟨d, t, rfl, hcl⟩, fun h => h.elim, fun h => h.elim, fun _ => ?_⟩
    · have hrt : rtok resolve ctx (.elem (.int (d :: t))) = d :: t := rfl
      have h23 : (decide (d :: t = ['a']) || decide (d :: t = "rdf:type".toList)) = false := by
        simp [n3, n4]
      rw [hrt]
      unfold parseElem
      simp only [n1, if_false, h23, Bool.false_eq_true, n2, hcol, hnum, Bool.or_true, if_true]
      rfl
    · have s1 : startsWith (d :: t) "<" = false := by simp [startsWith, List.isPrefixOf, Ne.symm n1]
      have s2 : startsWith (d :: t) "\"" = false := by simp [startsWith, List.isPrefixOf, Ne.symm n2]
      have s3 : startsWith (d :: t) "_:" = false := by simp [startsWith, List.isPrefixOf, Ne.symm n5]
      have s4 : (strip (d :: t) = "[]".toList) = False := by
        rw [hstrip]; simp [n6]
      unfold tuneObj
      simp only [s1, s2, s3, s4, hnum, hint, Bool.false_eq_true, if_false, if_true]
      rfl

/-! ### literals -/

theorem parseElem_quote (X : List Char) :
    parseElem resolve ctx ('"' :: X) = .ok (some (expandDatatype ctx ('"' :: X))) := by
  simp [parseElem, pure, Except.pure]

theorem strip_lang (tag : List Char) (hne : tag ≠ []) (ht : ∀ c ∈ tag, plainChar c) : strip ('@' :: tag) = '@' :: tag := by
  apply strip_id
  · intro c hc; simp at hc; subst hc; decide
  · intro c hc; rw [getLast?_cons_ne hne] at hc
    exact (ht c (List.mem_of_getLast? hc)).1

theorem elemOk_lit (hctx : ctxOk ctx) (C : List Item) (sf : LitSuffix) (hv : (Elem.lit C sf).Valid resolve ctx) :
    ∃ p, ElemOk resolve ctx (.lit C sf) p := by
  obtain ⟨hC, hsf⟩ := hv
  have hplain := sf_chars_plain sf hsf
  have hchars : (Elem.lit C sf).chars = ('"' :: C.flatMap Item.chars) ++ ['"'] ++ sf.chars := rfl
  have hcons : (Elem.lit C sf).chars = '"' :: (C.flatMap Item.chars ++ ['"'] ++ sf.chars) := by
    simp [Elem.chars]
  have hafter : afterLastQuote (Elem.lit C sf).chars = sf.chars := by
    rw [hchars]; exact afterLastQuote_spec _ _ (fun c hc => (hplain c hc).2)
  have hrt : rtok resolve ctx (.elem (.lit C sf)) = (Elem.lit C sf).chars := rfl
  have hhead : ∃ c w, rtok resolve ctx (.elem (.lit C sf)) = c :: w ∧ isClosure c = false :=
    ⟨'"', _, by rw [hrt, hcons], by decide⟩
  have hparse : parseElem resolve ctx (rtok resolve ctx (.elem (.lit C sf))) =
      .ok (some (expandDatatype ctx (Elem.lit C sf).chars)) := by
    rw [hrt, hcons]; exact parseElem_quote _
  -- the cases where the token is unchanged
  have same : ∀ d : String, expandDatatype ctx (Elem.lit C sf).chars = (Elem.lit C sf).chars →
      Ttl.decideType resolve ctx.base (Elem.lit C sf).chars = .ok d → (Elem.lit C sf).term resolve ctx = .lit d →
      ∃ p, ElemOk resolve ctx (.lit C sf) p := by
    intro d he hd ht
    refine ⟨(Elem.lit C sf).chars, ?_, hhead, fun h => h.elim, fun h => h.elim, fun _ => ?_⟩
    · rw [hparse, he]
    · rw [ht]; rw [hcons] at hd ⊢; exact tuneObj_lit resolve ctx.base _ d hd
  cases sf with
  | none =>
    apply same Gen.STRING_TYPE
    · apply expand_plain; intro dt; rw [hafter]; simp [LitSuffix.chars]
    · exact dT_none resolve ctx.base _ hafter
    · rfl
  | lang tag =>
    apply same Gen.LANG_STRING_TYPE
    · apply expand_plain; intro dt; rw [hafter]; simp [LitSuffix.chars]
    · exact dT_lang resolve ctx.base _ tag hafter (strip_lang tag hsf.1 hsf.2)
    · rfl
  | dt d =>
    cases d with
    | abs iri =>
      have hs : (LitSuffix.dt (.abs iri)).chars = '^' :: '^' :: '<' :: (iri ++ ['>']) := by
        simp [LitSuffix.chars, DtSpelling.chars]
      apply same (String.ofList iri)
      · exact expand_abs ctx _ (iri ++ ['>']) (by rw [hafter, hs])
      · exact dT_dt resolve ctx.base _ iri (by rw [hafter, hs]) (strip_dt iri) hsf.2
      · rfl
    | pname pre loc =>
      obtain ⟨hpre, hloc, ⟨ns, hns, hnq, hfix⟩, _, hh, hsl⟩ := hsf
      have hu := unprefixizeSoft_pname ctx hctx pre loc ns hpre hloc hns hsl
      have hs : (LitSuffix.dt (.pname pre loc)).chars = '^' :: '^' :: (pre ++ ':' :: loc) := rfl
      have hex := expand_pname ctx ('"' :: C.flatMap Item.chars) (pre ++ ':' :: loc) (ns ++ loc)
        (fun c hc => (hplain c (by rw [hs]; simp only [List.mem_cons]; right; right; exact hc)).2) hh hu
      have hex' : expandDatatype ctx (Elem.lit C (.dt (.pname pre loc))).chars =
          '"' :: (C.flatMap Item.chars ++ ['"'] ++ ['^', '^', '<'] ++ (ns ++ loc) ++ ['>']) := by
        rw [hchars, hs, hex]; simp
      have hal : afterLastQuote ('"' :: (C.flatMap Item.chars ++ ['"'] ++ ['^', '^', '<'] ++ (ns ++ loc) ++ ['>'])) =
          '^' :: '^' :: '<' :: ((ns ++ loc) ++ ['>']) := by
        have := afterLastQuote_spec ('"' :: C.flatMap Item.chars) ('^' :: '^' :: '<' :: ((ns ++ loc) ++ ['>'])) (by
          intro c hc
          simp only [List.mem_cons, List.mem_append, List.mem_nil_iff, or_false] at hc
          rcases hc with rfl | rfl | rfl | hc | rfl
          · decide
          · decide
          · decide
          · exact hnq c (by simpa using hc)
          · decide)
        rw [← this]; congr 1; simp
      have hd := dT_dt resolve ctx.base _ (ns ++ loc) hal (strip_dt _) hfix
      refine ⟨'"' :: (C.flatMap Item.chars ++ ['"'] ++ ['^', '^', '<'] ++ (ns ++ loc) ++ ['>']), ?_, hhead,
        fun h => h.elim, fun h => h.elim, fun _ => ?_⟩
      · rw [hparse, hex']
      · have ht : (Elem.lit C (.dt (.pname pre loc))).term resolve ctx = .lit (String.ofList (ns ++ loc)) := by
          simp [Elem.term, DtSpelling.iri, hns]
        rw [ht]; exact tuneObj_lit resolve ctx.base _ _ hd

/-- **elements** -/
theorem elem_ok (hctx : ctxOk ctx) (e : Elem) (hv : e.Valid resolve ctx) : ∃ p, ElemOk resolve ctx e p := by
  cases e with
  | abs iri => exact ⟨_, elemOk_abs iri hv⟩
  | rel r => exact elemOk_rel r hv
  | pname pre loc => exact elemOk_pname hctx pre loc hv
  | kwA => exact ⟨_, elemOk_kwA⟩
  | bnode l => exact ⟨_, elemOk_bnode l⟩
  | lit C sf => exact elemOk_lit hctx C sf hv
  | int ds => exact ⟨_, elemOk_int ds hv⟩

end Part5

section Part6
open Nt

/-! ## Layer 4: the state machine -/

variable {resolve : List Char → List Char → List Char} {ctx : Ctx}

/-- the state machine over a list of tokens (the tokens of several lines, concatenated) -/
def feed (resolve : List Char → List Char → List Char) : St → List (List Char) → M (St × List Triple)
  | st, [] => pure (st, [])
  | st, tok :: r => do
    let (st1, o1) ← stepToken resolve st tok
    let (st2, o2) ← feed resolve st1 r
    pure (st2, o1 ++ o2)

theorem feed_nil (st : St) : feed resolve st [] = .ok (st, []) := rfl

theorem feed_cons (st : St) (tok : List Char) (r : List (List Char)) :
    feed resolve st (tok :: r) =
      (stepToken resolve st tok >>= fun x => feed resolve x.1 r >>= fun y => pure (y.1, x.2 ++ y.2)) := by
  rw [feed]

theorem feed_cons_ok {st st1 st2 : St} {tok : List Char} {r : List (List Char)} {o1 o2 : List Triple}
    (h1 : stepToken resolve st tok = .ok (st1, o1)) (h2 : feed resolve st1 r = .ok (st2, o2)) :
    feed resolve st (tok :: r) = .ok (st2, o1 ++ o2) := by
  rw [feed_cons, h1]; simp only [bind, Except.bind]; rw [h2]; rfl

theorem stepToken_ctx {st st1 : St} {tok : List Char} {o : List Triple}
    (h : stepToken resolve st tok = .ok (st1, o)) : st1.ctx = st.ctx := by
  unfold stepToken at h
  split at h
  · cases he : emit resolve st with
    | error e => rw [he] at h; simp [bind, Except.bind] at h
    | ok t => rw [he] at h; simp [bind, Except.bind, pure, Except.pure] at h; rw [← h.1]
  · split at h
    · cases he : emit resolve st with
      | error e => rw [he] at h; simp [bind, Except.bind] at h
      | ok t => rw [he] at h; simp [bind, Except.bind, pure, Except.pure] at h; rw [← h.1]
    · split at h
      · cases he : emit resolve st with
        | error e => rw [he] at h; simp [bind, Except.bind] at h
        | ok t => rw [he] at h; simp [bind, Except.bind, pure, Except.pure] at h; rw [← h.1]
      · split at h
        all_goals first
          | (cases he : parseElem resolve st.ctx tok with
              | error e => rw [he] at h; simp [bind, Except.bind] at h
              | ok t => rw [he] at h; simp [bind, Except.bind, pure, Except.pure] at h; rw [← h.1])
          | (simp [throw, throwThe, MonadExceptOf.throw] at h)

theorem feed_ctx : ∀ (toks : List (List Char)) {st st1 : St} {o : List Triple},
    feed resolve st toks = .ok (st1, o) → st1.ctx = st.ctx := by
  intro toks
  induction toks with
  | nil => intro st st1 o h; rw [feed_nil] at h; injection h with h; injection h with h1 h2; rw [h1]
  | cons t r ih =>
    intro st st1 o h
    rw [feed_cons] at h
    cases hs : stepToken resolve st t with
    | error e => rw [hs] at h; simp [bind, Except.bind] at h
    | ok x =>
      rw [hs] at h
      simp only [bind, Except.bind] at h
      cases hf : feed resolve x.1 r with
      | error e => rw [hf] at h; simp at h
      | ok y =>
        rw [hf] at h
        simp only [pure, Except.pure, Except.ok.injEq, Prod.mk.injEq] at h
        have h1 := ih (st := x.1) (st1 := y.1) (o := y.2) (by rw [hf])
        have h2 := stepToken_ctx (st := st) (st1 := x.1) (o := x.2) (tok := t) (by rw [hs])
        rw [← h.1, h1, h2]

theorem feed_append_ok : ∀ (A B : List (List Char)) {st st2 : St} {o : List Triple},
    feed resolve st (A ++ B) = .ok (st2, o) →
    ∃ st1 o1 o2, feed resolve st A = .ok (st1, o1) ∧ feed resolve st1 B = .ok (st2, o2) ∧ o = o1 ++ o2 := by
  intro A
  induction A with
  | nil => intro B st st2 o h; exact ⟨st, [], o, rfl, h, rfl⟩
  | cons t A ih =>
    intro B st st2 o h
    rw [List.cons_append, feed_cons] at h
    cases hs : stepToken resolve st t with
    | error e => rw [hs] at h; simp [bind, Except.bind] at h
    | ok x =>
      rw [hs] at h
      simp only [bind, Except.bind] at h
      cases hf : feed resolve x.1 (A ++ B) with
      | error e => rw [hf] at h; simp at h
      | ok y =>
        rw [hf] at h
        simp only [pure, Except.pure, Except.ok.injEq, Prod.mk.injEq] at h
        obtain ⟨st1, o1, o2, e1, e2, e3⟩ := ih B (st := x.1) (st2 := y.1) (o := y.2) (by rw [hf])
        refine ⟨st1, x.2 ++ o1, o2, ?_, ?_, ?_⟩
        · exact feed_cons_ok (st1 := x.1) (o1 := x.2) (by rw [hs]) e1
        · rw [← h.1]; exact e2
        · rw [← h.2, e3]; simp

theorem feed_append {A B : List (List Char)} {st st1 st2 : St} {o1 o2 : List Triple}
    (h1 : feed resolve st A = .ok (st1, o1)) (h2 : feed resolve st1 B = .ok (st2, o2)) :
    feed resolve st (A ++ B) = .ok (st2, o1 ++ o2) := by
  induction A generalizing st o1 with
  | nil => rw [feed_nil] at h1; injection h1 with h1; injection h1 with a b; subst a; subst b; exact h2
  | cons t A ih =>
    rw [feed_cons] at h1
    cases hs : stepToken resolve st t with
    | error e => rw [hs] at h1; simp [bind, Except.bind] at h1
    | ok x =>
      rw [hs] at h1
      simp only [bind, Except.bind] at h1
      cases hf : feed resolve x.1 A with
      | error e => rw [hf] at h1; simp at h1
      | ok y =>
        rw [hf] at h1
        simp only [pure, Except.pure, Except.ok.injEq, Prod.mk.injEq] at h1
        have := ih (st := x.1) (o1 := y.2) (by rw [hf, ← h1.1])
        have r := feed_cons_ok (st := st) (st1 := x.1) (o1 := x.2) (tok := t) (by rw [hs]) this
        rw [List.cons_append, r, ← h1.2]; simp

/-! ### single steps -/

theorem not_closure {c : Char} (w : List Char) (h : isClosure c = false) :
    c :: w ≠ [','] ∧ c :: w ≠ [';'] ∧ c :: w ≠ ['.'] := by
  simp only [isClosure, Bool.or_eq_false_iff, decide_eq_false_iff_not] at h
  refine ⟨?_, ?_, ?_⟩ <;> intro e <;> injection e with e _
  · exact h.1.1 e
  · exact h.1.2 e
  · exact h.2 e

theorem step_subj (c : Char) (w : List Char) (p : Option (List Char)) (hc : isClosure c = false)
    (hp : parseElem resolve ctx (c :: w) = .ok p) (s0 p0 o0 : Option (List Char)) :
    stepToken resolve ⟨ctx, .subj, s0, p0, o0⟩ (c :: w) = .ok (⟨ctx, .pred, p, p0, o0⟩, []) := by
  obtain ⟨a, b, d⟩ := not_closure w hc
  simp [stepToken, a, b, d, hp, bind, Except.bind, pure, Except.pure]

theorem step_pred (c : Char) (w : List Char) (p : Option (List Char)) (hc : isClosure c = false)
    (hp : parseElem resolve ctx (c :: w) = .ok p) (s0 p0 o0 : Option (List Char)) :
    stepToken resolve ⟨ctx, .pred, s0, p0, o0⟩ (c :: w) = .ok (⟨ctx, .obj, s0, p, o0⟩, []) := by
  obtain ⟨a, b, d⟩ := not_closure w hc
  simp [stepToken, a, b, d, hp, bind, Except.bind, pure, Except.pure]

theorem step_obj (c : Char) (w : List Char) (p : Option (List Char)) (hc : isClosure c = false)
    (hp : parseElem resolve ctx (c :: w) = .ok p) (s0 p0 o0 : Option (List Char)) :
    stepToken resolve ⟨ctx, .obj, s0, p0, o0⟩ (c :: w) = .ok (⟨ctx, .notWaiting, s0, p0, p⟩, []) := by
  obtain ⟨a, b, d⟩ := not_closure w hc
  simp [stepToken, a, b, d, hp, bind, Except.bind, pure, Except.pure]

theorem emit_ok (wt : Wait) (ps pp po : List Char) (a : Term) (b : String) (c : Term)
    (h1 : tuneSubj (some ps) = .ok a) (h2 : tuneProp (some pp) = .ok b)
    (h3 : tuneObj resolve ctx.base (some po) = .ok c) :
    emit resolve ⟨ctx, wt, some ps, some pp, some po⟩ = .ok { s := a, p := b, o := c } := by
  simp [emit, h1, h2, h3, bind, Except.bind, pure, Except.pure]

theorem step_comma (st : St) (t : Triple) (h : emit resolve st = .ok t) :
    stepToken resolve st [','] = .ok ({ st with wait := .obj }, [t]) := by
  simp [stepToken, h, bind, Except.bind, pure, Except.pure]

theorem step_semi (st : St) (t : Triple) (h : emit resolve st = .ok t) :
    stepToken resolve st [';'] = .ok ({ st with wait := .pred }, [t]) := by
  simp [stepToken, h, bind, Except.bind, pure, Except.pure]

theorem step_dot (st : St) (t : Triple) (h : emit resolve st = .ok t) :
    stepToken resolve st ['.'] = .ok ({ st with wait := .subj }, [t]) := by
  simp [stepToken, h, bind, Except.bind, pure, Except.pure]

/-! ### objects, predicate-object lists, groups -/

def endWait (last : Tok) : Wait := if last = .semi then .pred else .subj

theorem step_last (last : Tok) (hlast : last = .semi ∨ last = .dot) (st : St) (t : Triple)
    (h : emit resolve st = .ok t) :
    stepToken resolve st (rtok resolve ctx last) = .ok ({ st with wait := endWait last }, [t]) := by
  rcases hlast with rfl | rfl
  · exact step_semi st t h
  · exact step_dot st t h

theorem feed_objs (hctx : ctxOk ctx) (last : Tok) (hlast : last = .semi ∨ last = .dot) (ps pp : List Char)
    (sT : Term) (pI : String) (hs : tuneSubj (some ps) = .ok sT) (hp : tuneProp (some pp) = .ok pI) :
    ∀ (os : List Elem), os ≠ [] → (∀ o ∈ os, o.Valid resolve ctx ∧ objOk o) → ∀ o0 : Option (List Char),
      ∃ o', feed resolve ⟨ctx, .obj, some ps, some pp, o0⟩ ((objToks last os).map (rtok resolve ctx)) =
        .ok (⟨ctx, endWait last, some ps, some pp, o'⟩,
          os.map fun o => { s := sT, p := pI, o := o.term resolve ctx }) := by
  intro os
  induction os with
  | nil => intro h; exact absurd rfl h
  | cons o os ih =>
    intro _ hv o0
    obtain ⟨hov, hoo⟩ := hv o (by simp)
    obtain ⟨po, hok⟩ := elem_ok hctx o hov
    obtain ⟨c, w, hcw, hcl⟩ := hok.head
    have h1 : stepToken resolve ⟨ctx, .obj, some ps, some pp, o0⟩ (rtok resolve ctx (.elem o)) =
        .ok (⟨ctx, .notWaiting, some ps, some pp, some po⟩, []) := by
      have := hok.parse
      rw [hcw] at this ⊢
      exact step_obj c w (some po) hcl this _ _ _
    have hem := emit_ok (resolve := resolve) (ctx := ctx) .notWaiting ps pp po sT pI _ hs hp (hok.obj hoo)
    cases os with
    | nil =>
      refine ⟨some po, ?_⟩
      have h2 := step_last (ctx := ctx) last hlast _ _ hem
      have := feed_cons_ok h1 (feed_cons_ok h2 (feed_nil _))
      simpa [objToks] using this
    | cons o2 os =>
      obtain ⟨o', ih'⟩ := ih (by simp) (fun x hx => hv x (by simp [hx])) (some po)
      refine ⟨o', ?_⟩
      have h2 := step_comma _ _ hem
      have := feed_cons_ok h1 (feed_cons_ok h2 ih')
      simpa [objToks, rtok, Tok.chars] using this

def poTriples (resolve : List Char → List Char → List Char) (ctx : Ctx) (sT : Term) (po : List (Elem × List Elem)) :
    List Triple :=
  po.flatMap fun x => x.2.map fun o => { s := sT, p := (x.1.iri? resolve ctx).getD "", o := o.term resolve ctx }

theorem feed_pos (hctx : ctxOk ctx) (ps : List Char) (sT : Term) (hs : tuneSubj (some ps) = .ok sT) :
    ∀ (po : List (Elem × List Elem)), po ≠ [] →
      (∀ x ∈ po, x.1.Valid resolve ctx ∧ predOk x.1 ∧ x.2 ≠ [] ∧ ∀ o ∈ x.2, o.Valid resolve ctx ∧ objOk o) →
      ∀ p0 o0 : Option (List Char),
      ∃ p' o', feed resolve ⟨ctx, .pred, some ps, p0, o0⟩ ((poToks po).map (rtok resolve ctx)) =
        .ok (⟨ctx, .subj, some ps, p', o'⟩, poTriples resolve ctx sT po) := by
  intro po
  induction po with
  | nil => intro h; exact absurd rfl h
  | cons x po ih =>
    intro _ hv p0 o0
    obtain ⟨hpv, hpo, hne, hos⟩ := hv x (by simp)
    obtain ⟨pp, hok⟩ := elem_ok hctx x.1 hpv
    obtain ⟨c, w, hcw, hcl⟩ := hok.head
    have h1 : stepToken resolve ⟨ctx, .pred, some ps, p0, o0⟩ (rtok resolve ctx (.elem x.1)) =
        .ok (⟨ctx, .obj, some ps, some pp, o0⟩, []) := by
      have := hok.parse
      rw [hcw] at this ⊢
      exact step_pred c w (some pp) hcl this _ _ _
    obtain ⟨p, os⟩ := x
    cases po with
    | nil =>
      obtain ⟨o', h2⟩ := feed_objs hctx .dot (Or.inr rfl) ps pp sT _ hs (hok.pred hpo) os hne hos o0
      refine ⟨some pp, o', ?_⟩
      have := feed_cons_ok h1 h2
      simpa [poToks, poTriples, endWait] using this
    | cons y po =>
      obtain ⟨o', h2⟩ := feed_objs hctx .semi (Or.inl rfl) ps pp sT _ hs (hok.pred hpo) os hne hos o0
      obtain ⟨p', o'', h3⟩ := ih (by simp) (fun z hz => hv z (by simp [hz])) (some pp) o'
      refine ⟨p', o'', ?_⟩
      have h23 := feed_append h2 (by simpa [endWait] using h3)
      have := feed_cons_ok h1 h23
      simpa [poToks, poTriples] using this

theorem feed_group (hctx : ctxOk ctx) (g : Group) (hg : g.Valid resolve ctx) (s0 p0 o0 : Option (List Char)) :
    ∃ s' p' o', feed resolve ⟨ctx, .subj, s0, p0, o0⟩ (g.toks.map (rtok resolve ctx)) =
      .ok (⟨ctx, .subj, s', p', o'⟩, g.triples resolve ctx) := by
  obtain ⟨hsv, hso, hne, hpo⟩ := hg
  obtain ⟨ps, hok⟩ := elem_ok hctx g.s hsv
  obtain ⟨c, w, hcw, hcl⟩ := hok.head
  have h1 : stepToken resolve ⟨ctx, .subj, s0, p0, o0⟩ (rtok resolve ctx (.elem g.s)) =
      .ok (⟨ctx, .pred, some ps, p0, o0⟩, []) := by
    have := hok.parse
    rw [hcw] at this ⊢
    exact step_subj c w (some ps) hcl this _ _ _
  obtain ⟨p', o', h2⟩ := feed_pos hctx ps _ (hok.subj hso) g.po hne hpo p0 o0
  refine ⟨some ps, p', o', ?_⟩
  have := feed_cons_ok h1 h2
  simpa [Group.toks, Group.triples, poTriples] using this

theorem feed_groups (hctx : ctxOk ctx) (groups : List Group) (hg : ∀ g ∈ groups, g.Valid resolve ctx) :
    ∀ (st : St), st.ctx = ctx → st.wait = .subj →
    ∃ st', feed resolve st ((groups.flatMap Group.toks).map (rtok resolve ctx)) =
      .ok (st', groups.flatMap (Group.triples resolve ctx)) ∧ st'.ctx = ctx ∧ st'.wait = .subj := by
  induction groups with
  | nil => intro st h1 h2; exact ⟨st, rfl, h1, h2⟩
  | cons g gs ih =>
    intro st h1 h2
    obtain ⟨c, wt, s0, p0, o0⟩ := st
    simp only at h1 h2
    subst h1; subst h2
    obtain ⟨s', p', o', hf⟩ := feed_group hctx g (hg g (by simp)) s0 p0 o0
    obtain ⟨st', hf', hc, hw⟩ := ih (fun x hx => hg x (by simp [hx])) ⟨c, .subj, s', p', o'⟩ rfl rfl
    refine ⟨st', ?_, hc, hw⟩
    have := feed_append hf hf'
    simpa using this

end Part6

section Part7
open Nt

/-! ## Layer 5: lines -/

variable {resolve : List Char → List Char → List Char} {ctx : Ctx}

theorem sp_spOrNil (ws : List (List Char)) : spOrNil (sp ws) := by
  cases ws with
  | nil => exact Or.inl rfl
  | cons w ws => exact Or.inr ⟨_, sp_cons w ws⟩

theorem dropWhile_sp_head (c : Char) (t : List Char) (hc : c ≠ ' ') :
    (c :: t).dropWhile (· = ' ') = c :: t := by
  simp [List.dropWhile, hc]

theorem sp_dropWhile (ws : List (List Char)) (h : ∀ w ∈ ws, Word w) :
    (sp ws).dropWhile (· = ' ') = joinW ws ∧ ((sp ws).drop 1).dropWhile (· = ' ') = joinW ws := by
  cases ws with
  | nil => exact ⟨rfl, rfl⟩
  | cons w ws =>
    obtain ⟨c, t, e, _, _, hc⟩ := (h w (by simp)).head
    rw [sp_cons]
    simp only [joinW, e, List.cons_append, List.drop_succ_cons, List.drop_zero]
    constructor
    · rw [List.dropWhile_cons]; simp only [decide_true, if_true]; exact dropWhile_sp_head c _ hc
    · exact dropWhile_sp_head c _ hc

theorem joinW_le_sp (ws : List (List Char)) : (joinW ws).length ≤ (sp ws).length := by
  cases ws with
  | nil => simp [joinW, sp]
  | cons w ws => rw [sp_cons]; simp [joinW]

theorem lineLoop_toks (ts : List Tok) (hv : ∀ t ∈ ts, t.Valid resolve ctx) :
    ∀ (fuel : Nat) (st : St) (l : List Char), st.ctx = ctx →
      l.dropWhile (· = ' ') = joinW (ts.map Tok.chars) → (joinW (ts.map Tok.chars)).length < fuel →
      lineLoop resolve fuel st l = feed resolve st (ts.map (rtok resolve ctx)) := by
  induction ts with
  | nil =>
    intro fuel st l hst hl hf
    cases fuel with
    | zero => exact absurd hf (Nat.not_lt_zero _)
    | succ f =>
      rw [lineLoop, hst, nextToken_nil resolve ctx l hl]
      rfl
  | cons t ts ih =>
    intro fuel st l hst hl hf
    have hws : ∀ w ∈ ts.map Tok.chars, Word w := by
      intro w hw; simp only [List.mem_map] at hw
      obtain ⟨t', ht', rfl⟩ := hw
      exact tok_word t' (hv t' (by simp [ht']))
    cases fuel with
    | zero => exact absurd hf (Nat.not_lt_zero _)
    | succ f =>
      simp only [List.map_cons, joinW] at hl hf
      obtain ⟨R2, hnt, hR2⟩ := nextToken_tok resolve ctx t (hv t (by simp)) l _ (sp_spOrNil _) hl
      obtain ⟨d1, d2⟩ := sp_dropWhile _ hws
      have hdrop : R2.dropWhile (· = ' ') = joinW (ts.map Tok.chars) := by
        rcases hR2 with rfl | rfl
        · exact d1
        · exact d2
      have hlen : (joinW (ts.map Tok.chars)).length < f := by
        have h1 := joinW_le_sp (ts.map Tok.chars)
        have h2 : 0 < t.chars.length := by
          have := (tok_word t (hv t (by simp))).ne_nil
          cases ht : t.chars with
          | nil => exact absurd ht this
          | cons _ _ => simp
        simp only [List.length_append] at hf
        omega
      rw [lineLoop, hst, hnt, List.map_cons, feed_cons]
      simp only [bind, Except.bind]
      cases hs : stepToken resolve st (rtok resolve ctx t) with
      | error e => rfl
      | ok x =>
        have hx : x.1.ctx = ctx := by
          rw [stepToken_ctx (st := st) (st1 := x.1) (o := x.2) (tok := rtok resolve ctx t) (by rw [hs]), hst]
        simp only []
        rw [ih (fun t' ht' => hv t' (by simp [ht'])) f x.1 R2 hx hdrop hlen]

/-- a line of the body is the state machine over its tokens -/
theorem processLine_line (ln : Line) (hln : ln.Valid) (hts : ∀ x ∈ ln.toks, x.2.Valid resolve ctx)
    (st : St) (hst : st.ctx = ctx) :
    processLine resolve st ln.chars = feed resolve st (ln.toks.map fun x => rtok resolve ctx x.2) := by
  obtain ⟨hb, hsep, htrail, hcmt⟩ := hln
  have hex : ∃ cmt, ln.chars = ln.toks.flatMap (fun x => x.1 ++ x.2.chars) ++ ln.trail ++ cmt ∧
      (cmt = [] ∨ ∃ z, ln.comment = some z ∧ cmt = '#' :: z) := by
    unfold Line.chars
    cases ln.comment with
    | none => exact ⟨[], rfl, Or.inl rfl⟩
    | some c => exact ⟨'#' :: c, rfl, Or.inr ⟨c, rfl, rfl⟩⟩
  obtain ⟨cmt, hchars0, hcmt0⟩ := hex
  cases htoks : ln.toks with
  | nil =>
    have hc : cmt = [] ∨ ∃ z, cmt = '#' :: z := by
      rcases hcmt0 with h | ⟨z, _, h⟩
      · exact Or.inl h
      · exact Or.inr ⟨z, h⟩
    have hchars : ln.chars = ln.trail ++ cmt := by
      rw [hchars0, htoks]; simp
    rw [hchars]
    rcases clean_empty _ _ htrail hc with h | ⟨z, h⟩
    · simp [processLine, h, feed_nil, pure, Except.pure]
    · simp [processLine, h, feed_nil, startsWith, pure, Except.pure]
  | cons x0 xs =>
    rw [htoks] at hb hsep hts
    have hcm : cmt = [] ∨ (ln.trail ≠ [] ∧ ∃ z, cmt = '#' :: z) := by
      rcases hcmt0 with h | ⟨z, hco, h⟩
      · exact Or.inl h
      · exact Or.inr ⟨(hcmt z hco).2 (by rw [htoks]; simp), z, h⟩
    have hxs : ∀ x ∈ xs.map (fun x => (x.1, x.2.chars)), blanksOnly x.1 ∧ x.1 ≠ [] ∧ Word x.2 := by
      intro y hy
      simp only [List.mem_map] at hy
      obtain ⟨x, hx, rfl⟩ := hy
      refine ⟨hb x (by simp [hx]), ?_, tok_word x.2 (hts x (by simp [hx]))⟩
      obtain ⟨i, hi⟩ := List.mem_iff_getElem?.1 hx
      exact hsep (i + 1) (Nat.succ_pos _) x (by simpa using hi)
    have hclean := clean_words (x0.1, x0.2.chars) (xs.map fun x => (x.1, x.2.chars)) ln.trail
      cmt (hb x0 (by simp))
      (tok_word x0.2 (hts x0 (by simp))) hxs htrail hcm
    have hchars : ln.chars = ((x0.1, x0.2.chars) :: xs.map fun x => (x.1, x.2.chars)).flatMap (fun x => x.1 ++ x.2) ++
        ln.trail ++ cmt := by
      rw [hchars0, htoks]; simp [List.flatMap_map]
    have hJ : (((x0.1, x0.2.chars) :: xs.map fun x => (x.1, x.2.chars)).map (·.2)) =
        ((x0 :: xs).map (·.2)).map Tok.chars := by
      simp
    rw [hJ] at hclean
    obtain ⟨c, t, e, _, hc1, hc2⟩ := (tok_word x0.2 (hts x0 (by simp))).head
    have hat := tok_head_ne_at x0.2 (hts x0 (by simp))
    have hc3 : c ≠ '@' := by
      intro h; rw [e, h] at hat; simp at hat
    have hJ2 : joinW (((x0 :: xs).map (·.2)).map Tok.chars) = c :: (t ++ sp ((xs.map (·.2)).map Tok.chars)) := by
      simp [joinW, e]
    have hloop := lineLoop_toks (resolve := resolve) (ctx := ctx) ((x0 :: xs).map (·.2)) (by
        intro t' ht'
        simp only [List.mem_map] at ht'
        obtain ⟨x, hx, rfl⟩ := ht'
        exact hts x hx)
      ((joinW (((x0 :: xs).map (·.2)).map Tok.chars)).length + 1) st
      (joinW (((x0 :: xs).map (·.2)).map Tok.chars)) hst
      (by rw [hJ2]; exact dropWhile_sp_head c _ hc2) (Nat.lt_succ_self _)
    have hmap : ((x0 :: xs).map (·.2)).map (rtok resolve ctx) = (x0 :: xs).map fun x => rtok resolve ctx x.2 := by
      simp
    rw [hmap] at hloop
    rw [← hloop]
    unfold processLine
    rw [hchars, hclean]
    simp only []
    have n1 : (joinW (((x0 :: xs).map (·.2)).map Tok.chars) = []) = False := by rw [hJ2]; simp
    have n2 : startsWith (joinW (((x0 :: xs).map (·.2)).map Tok.chars)) "@prefix" = false := by
      rw [hJ2]; simp [startsWith, List.isPrefixOf, Ne.symm hc3]
    have n3 : startsWith (joinW (((x0 :: xs).map (·.2)).map Tok.chars)) "@base" = false := by
      rw [hJ2]; simp [startsWith, List.isPrefixOf, Ne.symm hc3]
    have n4 : startsWith (joinW (((x0 :: xs).map (·.2)).map Tok.chars)) "#" = false := by
      rw [hJ2]; simp [startsWith, List.isPrefixOf, Ne.symm hc1]
    simp only [n1, n2, n3, n4, if_false, Bool.false_eq_true]

/-! ## the document body -/

theorem mem_objToks (last : Tok) (os : List Elem) (t : Tok) (h : t ∈ objToks last os) :
    t = last ∨ t = .comma ∨ ∃ o ∈ os, t = .elem o := by
  induction os with
  | nil => simp [objToks] at h; exact Or.inl h
  | cons o os ih =>
    cases os with
    | nil =>
      simp [objToks] at h
      rcases h with h | h
      · exact Or.inr (Or.inr ⟨o, by simp, h⟩)
      · exact Or.inl h
    | cons o2 os =>
      simp only [objToks, List.mem_cons] at h
      rcases h with h | h | h
      · exact Or.inr (Or.inr ⟨o, by simp, h⟩)
      · exact Or.inr (Or.inl h)
      · rcases ih (by simpa [List.mem_cons] using h) with h | h | ⟨o', ho', h⟩
        · exact Or.inl h
        · exact Or.inr (Or.inl h)
        · exact Or.inr (Or.inr ⟨o', by simp only [List.mem_cons] at ho' ⊢; exact Or.inr ho', h⟩)

theorem mem_poToks (po : List (Elem × List Elem)) (t : Tok) (h : t ∈ poToks po) :
    t = .dot ∨ t = .semi ∨ t = .comma ∨ ∃ x ∈ po, t = .elem x.1 ∨ ∃ o ∈ x.2, t = .elem o := by
  induction po with
  | nil => simp [poToks] at h; exact Or.inl h
  | cons x po ih =>
    obtain ⟨p, os⟩ := x
    cases po with
    | nil =>
      simp only [poToks, List.mem_cons] at h
      rcases h with h | h
      · exact Or.inr (Or.inr (Or.inr ⟨(p, os), by simp, Or.inl h⟩))
      · rcases mem_objToks _ _ _ h with h | h | ⟨o, ho, h⟩
        · exact Or.inl h
        · exact Or.inr (Or.inr (Or.inl h))
        · exact Or.inr (Or.inr (Or.inr ⟨(p, os), by simp, Or.inr ⟨o, ho, h⟩⟩))
    | cons y po =>
      have e : poToks ((p, os) :: y :: po) = .elem p :: (objToks .semi os ++ poToks (y :: po)) := rfl
      rw [e] at h
      simp only [List.mem_cons, List.mem_append] at h
      rcases h with h | h | h
      · exact Or.inr (Or.inr (Or.inr ⟨(p, os), by simp, Or.inl h⟩))
      · rcases mem_objToks _ _ _ h with h | h | ⟨o, ho, h⟩
        · exact Or.inr (Or.inl h)
        · exact Or.inr (Or.inr (Or.inl h))
        · exact Or.inr (Or.inr (Or.inr ⟨(p, os), by simp, Or.inr ⟨o, ho, h⟩⟩))
      · rcases ih h with h | h | h | ⟨x, hx, h⟩
        · exact Or.inl h
        · exact Or.inr (Or.inl h)
        · exact Or.inr (Or.inr (Or.inl h))
        · exact Or.inr (Or.inr (Or.inr ⟨x, by simp only [List.mem_cons] at hx ⊢; exact Or.inr hx, h⟩))

theorem group_toks_valid (g : Group) (hg : g.Valid resolve ctx) : ∀ t ∈ g.toks, t.Valid resolve ctx := by
  intro t ht
  obtain ⟨hs, _, _, hpo⟩ := hg
  simp only [Group.toks, List.mem_cons] at ht
  rcases ht with rfl | ht
  · exact hs
  · rcases mem_poToks _ _ ht with rfl | rfl | rfl | ⟨x, hx, h⟩
    · trivial
    · trivial
    · trivial
    · rcases h with rfl | ⟨o, ho, rfl⟩
      · exact (hpo x hx).1
      · exact ((hpo x hx).2.2.2 o ho).1

def bodyStep (resolve : List Char → List Char → List Char) (acc : St × List Triple) (l : List Char) :
    M (St × List Triple) := do
  let (st', o) ← processLine resolve acc.1 l
  pure (st', acc.2 ++ o)

theorem runBody_eq (st : St) (lines : List (List Char)) :
    runBody resolve st lines = lines.foldlM (bodyStep resolve) (st, []) := rfl

theorem runBody_feed (lines : List Line) (hl : ∀ ln ∈ lines, ln.Valid)
    (hts : ∀ ln ∈ lines, ∀ x ∈ ln.toks, x.2.Valid resolve ctx) :
    ∀ (st st' : St) (acc out : List Triple), st.ctx = ctx →
      feed resolve st (lines.flatMap fun ln => ln.toks.map fun x => rtok resolve ctx x.2) = .ok (st', out) →
      (lines.map Line.chars).foldlM (bodyStep resolve) (st, acc) = .ok (st', acc ++ out) := by
  induction lines with
  | nil =>
    intro st st' acc out _ h
    rw [List.flatMap_nil, feed_nil] at h
    injection h with h; injection h with h1 h2
    subst h1; subst h2
    simp [pure, Except.pure]
  | cons ln lines ih =>
    intro st st' acc out hst h
    rw [List.flatMap_cons] at h
    obtain ⟨st1, o1, o2, e1, e2, e3⟩ := feed_append_ok _ _ h
    have hp := processLine_line ln (hl ln (by simp)) (hts ln (by simp)) st hst
    rw [e1] at hp
    have hstep : bodyStep resolve (st, acc) ln.chars = .ok (st1, acc ++ o1) := by
      simp [bodyStep, hp, bind, Except.bind, pure, Except.pure]
    rw [List.map_cons, List.foldlM_cons, hstep]
    simp only [bind, Except.bind]
    have hst1 : st1.ctx = ctx := by rw [feed_ctx _ e1, hst]
    rw [ih (fun l hl' => hl l (by simp [hl'])) (fun l hl' => hts l (by simp [hl'])) st1 st' (acc ++ o1) o2 hst1 e2, e3]
    simp

end Part7

/-- **the reader yields exactly the triples of the document body**: the token stream of the statement groups is cut
into lines at arbitrary token boundaries, with arbitrary blank runs, trailing comments, empty and comment lines; read
from a state that waits for a subject, the lines yield the triples of the groups, in order, no exception, and the
reader is again waiting for a subject with the same prefixes and base -/
theorem body_reads (resolve : List Char → List Char → List Char) (ctx : Ctx) (hctx : ctxOk ctx)
    (groups : List Group) (hg : ∀ g ∈ groups, g.Valid resolve ctx)
    (lines : List Line) (hl : ∀ ln ∈ lines, ln.Valid)
    (hpart : lines.flatMap (fun ln => ln.toks.map (·.2)) = groups.flatMap Group.toks)
    (st : St) (hctx' : st.ctx = ctx) (hw : st.wait = .subj) :
    ∃ st', runBody resolve st (lines.map Line.chars) = .ok (st', groups.flatMap (Group.triples resolve ctx)) ∧
      st'.ctx = ctx ∧ st'.wait = .subj := by
  subst hctx'
  have htv : ∀ ln ∈ lines, ∀ x ∈ ln.toks, x.2.Valid resolve st.ctx := by
    intro ln hln x hx
    have hm : x.2 ∈ lines.flatMap (fun ln => ln.toks.map (·.2)) := by
      simp only [List.mem_flatMap, List.mem_map]; exact ⟨ln, hln, x, hx, rfl⟩
    rw [hpart] at hm
    simp only [List.mem_flatMap] at hm
    obtain ⟨g, hgm, ht⟩ := hm
    exact group_toks_valid g (hg g hgm) _ ht
  obtain ⟨st', hf, hc, hw'⟩ := feed_groups hctx groups hg st rfl hw
  have htoks : (lines.flatMap fun ln => ln.toks.map fun x => rtok resolve st.ctx x.2) =
      (groups.flatMap Group.toks).map (rtok resolve st.ctx) := by
    rw [← hpart, List.map_flatMap]; simp only [List.map_map]; rfl
  have := runBody_feed lines hl htv st st' [] _ rfl (by rw [htoks]; exact hf)
  refine ⟨st', ?_, hc, hw'⟩
  rw [runBody_eq, this]; simp

end TtlGrammar
end Shexer
