import ShexerModel.GeneratedStr
import ShexerModel.Model.Targets
import ShexerModel.Lemmas.PyOpsLemmas
/-! helper lemmas for `Props/GenStrLabel.lean` (fragment S: the shape-map label parser) -/
namespace Shexer.GenStrLabel
open Shexer PyOps

/-- `findFrom` for a single character: position of the first occurrence at or after `i` -/
theorem findFrom_single_idx (l : List Char) (c : Char) : ∀ (n i : Nat), l.length - i = n →
    findFrom l [c] i = if (l.drop i).contains c then some (i + ((l.drop i).takeWhile (· != c)).length) else none := by
  intro n
  induction n with
  | zero =>
    intro i h
    unfold findFrom
    have : i + [c].length > l.length := by simp; omega
    rw [if_pos this, List.drop_eq_nil_of_le (by omega)]; rfl
  | succ n ih =>
    intro i h
    unfold findFrom
    have : ¬ (i + [c].length > l.length) := by simp; omega
    rw [if_neg this]
    have hd : l.drop i = l[i]'(by omega) :: l.drop (i + 1) := List.drop_eq_getElem_cons (by omega)
    obtain ⟨y, hy⟩ : ∃ y, l.drop i = y :: l.drop (i + 1) := ⟨_, hd⟩
    rw [hy, GenStr.single_isPrefixOf_cons]
    by_cases hx : c = y
    · subst hx; simp
    · have hx' : (c == y) = false := by simpa using hx
      have hx2 : (y != c) = true := by simpa using fun e => hx e.symm
      rw [hx']
      simp only [Bool.false_eq_true, if_false]
      rw [ih (i + 1) (by omega)]
      simp only [List.contains_cons, hx', Bool.false_or, List.takeWhile_cons, hx2, if_true, List.length_cons]
      split
      · congr 1; omega
      · rfl

theorem dropWhile_nil_iff (l : List Char) (c : Char) : l.dropWhile (· != c) = [] ↔ l.contains c = false := by
  induction l with
  | nil => simp
  | cons x xs ih =>
    by_cases hx : x = c
    · subst hx; simp
    · have hx2 : (x != c) = true := by simpa using hx
      have hx3 : (c == x) = false := by simpa using fun e => hx e.symm
      rw [List.dropWhile_cons, if_pos hx2, ih, List.contains_cons, hx3, Bool.false_or]

theorem find_single_none (l : List Char) (c : Char) (h : l.dropWhile (· != c) = []) : find l [c] = -1 := by
  unfold find
  rw [findFrom_single_idx l c _ 0 rfl, List.drop_zero, (dropWhile_nil_iff l c).1 h]
  rfl

theorem find_single_some (l : List Char) (c x : Char) (rest : List Char) (h : l.dropWhile (· != c) = x :: rest) :
    find l [c] = ((l.takeWhile (· != c)).length : Int) := by
  unfold find
  have hc : l.contains c = true := by
    cases hh : l.contains c with
    | true => rfl
    | false => rw [(dropWhile_nil_iff l c).2 hh] at h; cases h
  rw [findFrom_single_idx l c _ 0 rfl, List.drop_zero, hc]
  simp

theorem take_takeWhile_length (p : Char → Bool) (l : List Char) : l.take (l.takeWhile p).length = l.takeWhile p := by
  induction l with
  | nil => rfl
  | cons x xs ih =>
    rw [List.takeWhile_cons]
    split
    · simp [ih]
    · simp

theorem drop_takeWhile_length (p : Char → Bool) (l : List Char) : l.drop (l.takeWhile p).length = l.dropWhile p := by
  induction l with
  | nil => rfl
  | cons x xs ih =>
    rw [List.takeWhile_cons, List.dropWhile_cons]
    split
    · simp [ih]
    · simp

theorem slice_to (l : List Char) (k : Nat) : slice l none (some (k : Int)) = l.take k := by
  simp only [slice, GenStr.clamp_nat, List.drop_zero]
  by_cases h : k ≤ l.length
  · rw [Nat.min_eq_left h]
  · have h' : l.length ≤ k := by omega
    rw [Nat.min_eq_right h', List.take_length, List.take_of_length_le h']

theorem is_prefixed_eq (d : List (List Char × List Char)) (raw : List Char) :
    GenS.label_is_a_prefixed_uri d raw =
      .ok (if raw.length < 2 then false else if ['<'].isPrefixOf raw && ['>'].isPrefixOf raw.reverse then false else true) := by
  unfold GenS.label_is_a_prefixed_uri
  have e1 : "<".toList = ['<'] := by simp
  have e2 : ">".toList = ['>'] := by simp
  rw [e1, e2]
  simp only [PyOps.startsWith, PyOps.endsWith, List.reverse_singleton]
  by_cases h : raw.length < 2
  · have : ((raw.length : Int) < 2) := by omega
    simp [h, this]; rfl
  · have : ¬ ((raw.length : Int) < 2) := by omega
    simp only [h, this, decide_false, if_false, Bool.false_eq_true]
    split <;> rfl

theorem parse_prefixed_eq (d : List (List Char × List Char)) (raw : List Char) :
    GenS.label_parse_prefixed_label d raw =
      (match raw.dropWhile (· != ':') with
       | [] => Except.error PyExc.valueError
       | _ :: rest =>
         match d.find? fun e => e.1 == raw.takeWhile (· != ':') with
         | some e => Except.ok (e.2 ++ rest)
         | none => Except.error PyExc.valueError) := by
  unfold GenS.label_parse_prefixed_label
  have e3 : ":".toList = [':'] := by simp
  rw [e3]
  cases hdw : raw.dropWhile (· != ':') with
  | nil =>
    rw [find_single_none raw ':' hdw]
    rfl
  | cons x rest =>
    rw [find_single_some raw ':' x rest hdw]
    have hne : (((raw.takeWhile (· != ':')).length : Int) == -(1 : Int)) = false := by
      simp
    simp only [hne, Bool.false_eq_true, if_false]
    have hs2 : slice raw (some (((raw.takeWhile (· != ':')).length : Int) + (1 : Int))) none = rest := by
      have := GenStr.slice_from raw ((raw.takeWhile (· != ':')).length + 1)
      rw [Int.natCast_add, Int.natCast_one] at this
      rw [this, ← List.drop_drop, drop_takeWhile_length, hdw]; rfl
    rw [slice_to, take_takeWhile_length, hs2]
    unfold PyOps.dictHas PyOps.dictGet
    cases hf : d.find? (fun e => e.1 == raw.takeWhile (· != ':')) with
    | none => rfl
    | some e => rfl

theorem parse_shape_map_label_eq (d : List (List Char × List Char)) (raw : List Char) :
    GenS.parse_shape_map_label d raw =
      (match Targets.parseLabelL d raw with
       | some r => Except.ok r
       | none => Except.error PyExc.valueError) := by
  unfold GenS.parse_shape_map_label Targets.parseLabelL
  rw [is_prefixed_eq, parse_prefixed_eq]
  have e4 : "%".toList = ['%'] := by simp
  have e5 : Gen.STARTING_CHAR_FOR_SHAPE_NAME.toList = ['%'] := by decide
  rw [e4, e5]
  by_cases h : raw.length < 2
  · simp only [h, if_true]; rfl
  · simp only [h, if_false]
    by_cases h2 : (['<'].isPrefixOf raw && ['>'].isPrefixOf raw.reverse) = true
    · simp only [h2, if_true]; rfl
    · simp only [h2]
      cases hdw : raw.dropWhile (· != ':') with
      | nil => rfl
      | cons x rest =>
        cases hf : d.find? (fun e => e.1 == raw.takeWhile (· != ':')) with
        | none => rfl
        | some e => simp [bind, Except.bind, pure, Except.pure]

end Shexer.GenStrLabel
