import ShexerModel.Lemmas.GenStrNtTokC
import ShexerModel.Lemmas.GenStrTune2
import ShexerModel.Lemmas.NtLemmas
/-! The N-Triples reader assembled from the regenerated functions.  `NtTriplesYielder.yield_triples` does, for every line,

    tokens = self._look_for_tokens(a_line.strip())
    if len(tokens) != 3: (count an error line)
    else: yield (tune_token(tokens[0]), tune_prop(tokens[1]), tune_token(tokens[2], allow_untyped_numbers=...))

`genParseLine` is that body with the regenerated `GenS.nt_look_for_tokens`, `GenS.tune_token`, `GenS.tune_prop` in the places of the calls
(the five lines of glue are written by hand; `allow_untyped_numbers` is off, the reader's default).  It is the hand-written reader model
`Nt.parseLine`, for every line. -/
namespace Shexer.GenNtReader
open Shexer PyOps Shexer.GenStrTune2

/-- the content of a model object -/
def strOfObj : Obj → String
  | .iri c => String.ofList c
  | .bnode c => String.ofList c
  | .lit c _ => String.ofList c
  | .prop c => String.ofList c

def tripleOfObjs (t : Obj × Obj × Obj) : Triple := { s := termOfObj t.1, p := strOfObj t.2.1, o := termOfObj t.2.2 }

/-- one round of `yield_triples`: `ok none` = the line is counted as an error line and dropped -/
def genParseLine (resolve : List Char → List Char → List Char) (floatOf : List Char → Option Bool) (fuel : Nat) (line : List Char) :
    Except PyExc (Option (Obj × Obj × Obj)) := do
  let tokens ← GenS.nt_look_for_tokens fuel (PyOps.strip line)
  match tokens with
  | [a, b, c] => do
    let s ← GenS.tune_token resolve floatOf a false true none
    let p ← GenS.tune_prop b true
    let o ← GenS.tune_token resolve floatOf c false true none
    pure (some (s, p, o))
  | _ => pure none

theorem gnr_dropWhile_length (p : Char → Bool) (l : List Char) : (l.dropWhile p).length ≤ l.length := by
  induction l with
  | nil => simp
  | cons c t ih =>
    simp only [List.dropWhile]
    split
    · simp only [List.length_cons]; omega
    · exact Nat.le_refl _

theorem gnr_strip_length (l : List Char) : (Nt.strip l).length ≤ l.length := by
  unfold Nt.strip
  rw [List.length_reverse]
  refine Nat.le_trans (gnr_dropWhile_length _ _) ?_
  rw [List.length_reverse]
  exact gnr_dropWhile_length _ _

/-- from `x.map f = y.mapError g`: both succeed or both fail, with related values -/
theorem gnr_map_mapError {α β ε ε' : Type} (f : α → β) (g : ε' → ε) (x : Except ε α) (y : Except ε' β)
    (h : x.map f = y.mapError g) :
    (∃ v, x = .ok v ∧ y = .ok (f v)) ∨ (∃ e', x = .error (g e') ∧ y = .error e') := by
  cases x with
  | ok v =>
    cases y with
    | ok w =>
      simp only [Except.map, Except.mapError] at h
      injection h with h
      exact Or.inl ⟨v, rfl, by rw [h]⟩
    | error e' => simp [Except.map, Except.mapError] at h
  | error e =>
    cases y with
    | ok w => simp [Except.map, Except.mapError] at h
    | error e' =>
      simp only [Except.map, Except.mapError] at h
      injection h with h
      exact Or.inr ⟨e', by rw [h], rfl⟩

theorem gnr_tune_prop (tok : List Char) :
    (GenS.tune_prop tok true).map strOfObj = (Nt.removeCorners tok).mapError excOfNt := by
  simp only [GenS.tune_prop, GenStr.remove_corners_strict]
  rcases tn2_nt_rc_cases tok with ⟨s, h⟩ | h <;> rw [h]
  · simp [GenStr.convNt, bind, Except.bind, pure, Except.pure, Except.map, Except.mapError, strOfObj]
  · rfl

theorem genParseLine_eq (resolve : List Char → List Char → List Char) (floatOf : List Char → Option Bool) (fuel : Nat) (line : List Char)
    (hf : line.length + 1 ≤ fuel) :
    (genParseLine resolve floatOf fuel line).map (Option.map tripleOfObjs) = (Nt.parseLine line).mapError excOfNt := by
  have hlen : (Nt.strip line).length + 1 ≤ fuel := by
    have := gnr_strip_length line
    omega
  unfold genParseLine Nt.parseLine
  rw [GenStr.strip_eq]
  cases ht : Nt.tokens (Nt.strip line) with
  | none =>
    rw [GenStrNtTok.tokens_diverges _ ht fuel]
    rfl
  | some ts =>
    rw [GenStrNtTok.tokens_eq _ ts ht fuel hlen]
    match ts with
    | [] => rfl
    | [_] => rfl
    | [_, _] => rfl
    | _ :: _ :: _ :: _ :: _ => rfl
    | [a, b, c] =>
      rcases gnr_map_mapError _ _ _ _ (tune_token_nt_eq resolve floatOf a) with ⟨va, ha, ha'⟩ | ⟨ea, ha, ha'⟩
      · rcases gnr_map_mapError _ _ _ _ (gnr_tune_prop b) with ⟨vb, hb, hb'⟩ | ⟨eb, hb, hb'⟩
        · rcases gnr_map_mapError _ _ _ _ (tune_token_nt_eq resolve floatOf c) with ⟨vc, hc, hc'⟩ | ⟨ec, hc, hc'⟩
          · simp only [bind, Except.bind, ha, ha', hb, hb', hc, hc']
            rfl
          · simp only [bind, Except.bind, ha, ha', hb, hb', hc, hc']
            rfl
        · simp only [bind, Except.bind, ha, ha', hb, hb']
          rfl
      · simp only [bind, Except.bind, ha, ha']
        rfl

end Shexer.GenNtReader
