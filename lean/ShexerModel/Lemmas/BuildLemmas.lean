import ShexerModel.Lemmas.FeatLemmas
/-! The class profile (`_build_class_profile`): every entry is a sum over the instance dictionary. -/
namespace Shexer
namespace Profiler
open Dict

abbrev Tup := String × String × Card

def pget (pp : PropProfile) (x : Tup) : Nat :=
  (Dict.get? ((Dict.get? ((Dict.get? pp x.1).getD []) x.2.1).getD []) x.2.2).getD 0

theorem pget_bumpP (pp : PropProfile) (x y : Tup) :
    pget (bumpP pp x) y = pget pp y + (if x = y then 1 else 0) := by
  obtain ⟨xp, xk, xc⟩ := x
  obtain ⟨yp, yk, yc⟩ := y
  unfold pget bumpP
  simp only
  by_cases hp : xp = yp
  · subst hp
    simp only [Dict.get?_upd_same, Option.getD_some]
    by_cases hk : xk = yk
    · subst hk
      simp only [Dict.get?_upd_same, Option.getD_some]
      by_cases hcd : xc = yc
      · subst hcd; simp
      · simp [Dict.get?_upd_other _ _ _ _ hcd, hcd]
    · simp [Dict.get?_upd_other _ _ _ _ hk, hk]
  · simp [Dict.get?_upd_other _ _ _ _ hp, hp]

theorem pget_foldl (ts : List Tup) (pp : PropProfile) (y : Tup) :
    pget (ts.foldl bumpP pp) y = pget pp y + ts.count y := by
  induction ts generalizing pp with
  | nil => simp
  | cons x xs ih =>
    simp only [List.foldl_cons, ih, pget_bumpP, List.count_cons]
    by_cases h : x = y <;> simp [h] <;> omega

@[simp] theorem pget_nil (x : Tup) : pget [] x = 0 := by simp [pget]

/-- entry of the class profile for class `c`, direction `inv`, tuple `x` (0 when absent) -/
def eget (prof : Profile) (c : String) (inv : Bool) (x : Tup) : Nat :=
  match Dict.get? prof c with
  | some cp => pget (if inv then cp.inverse else cp.direct) x
  | none => 0

def addDirect (dts : List Tup) (prof : Profile) (c : String) : Profile :=
  Dict.upd prof c fun o => let cp := o.getD {}; { cp with direct := dts.foldl bumpP cp.direct }

def addInverse (its : List Tup) (prof : Profile) (c : String) : Profile :=
  Dict.upd prof c fun o => let cp := o.getD {}; { cp with inverse := its.foldl bumpP cp.inverse }

theorem eget_addDirect (dts : List Tup) (prof : Profile) (c c' : String) (inv : Bool) (x : Tup) :
    eget (addDirect dts prof c) c' inv x =
      eget prof c' inv x + (if c = c' ∧ inv = false then dts.count x else 0) := by
  unfold eget addDirect
  rw [Dict.get?_upd]
  by_cases h : c = c'
  · subst h
    cases hg : Dict.get? prof c <;> cases inv <;> simp [pget_foldl]
  · simp [h]

theorem eget_addInverse (its : List Tup) (prof : Profile) (c c' : String) (inv : Bool) (x : Tup) :
    eget (addInverse its prof c) c' inv x =
      eget prof c' inv x + (if c = c' ∧ inv = true then its.count x else 0) := by
  unfold eget addInverse
  rw [Dict.get?_upd]
  by_cases h : c = c'
  · subst h
    cases hg : Dict.get? prof c <;> cases inv <;> simp [pget_foldl]
  · simp [h]

theorem eget_foldl_addDirect (dts : List Tup) (cs : List String) (prof : Profile) (c' : String) (inv : Bool) (x : Tup) :
    eget (cs.foldl (addDirect dts) prof) c' inv x =
      eget prof c' inv x + (if inv = false then cs.count c' * dts.count x else 0) := by
  induction cs generalizing prof with
  | nil => simp
  | cons c cs ih =>
    simp only [List.foldl_cons]
    rw [ih, eget_addDirect]
    cases inv
    · by_cases h : c = c'
      · subst h; simp [List.count_cons, Nat.add_mul]; omega
      · simp [h, List.count_cons]
    · simp

theorem eget_foldl_addInverse (its : List Tup) (cs : List String) (prof : Profile) (c' : String) (inv : Bool) (x : Tup) :
    eget (cs.foldl (addInverse its) prof) c' inv x =
      eget prof c' inv x + (if inv = true then cs.count c' * its.count x else 0) := by
  induction cs generalizing prof with
  | nil => simp
  | cons c cs ih =>
    simp only [List.foldl_cons]
    rw [ih, eget_addInverse]
    cases inv
    · simp
    · by_cases h : c = c'
      · subst h; simp [List.count_cons, Nat.add_mul]; omega
      · simp [h, List.count_cons]

/-- what one instance adds to the entry `(c, inv, x)` -/
def instContrib (cfg : Config) (ni : NodeInfo) (c : String) (inv : Bool) (x : Tup) : Nat :=
  if inv then (if cfg.inverse then ni.classes.count c * (tuples cfg ni.inverse).count x else 0)
  else ni.classes.count c * (tuples cfg ni.direct).count x

theorem annotateInstance_eq (cfg : Config) (prof : Profile) (ni : NodeInfo) :
    annotateInstance cfg prof ni =
      if cfg.inverse then ni.classes.foldl (addInverse (tuples cfg ni.inverse)) (ni.classes.foldl (addDirect (tuples cfg ni.direct)) prof)
      else ni.classes.foldl (addDirect (tuples cfg ni.direct)) prof := rfl

theorem eget_annotateInstance (cfg : Config) (prof : Profile) (ni : NodeInfo) (c : String) (inv : Bool) (x : Tup) :
    eget (annotateInstance cfg prof ni) c inv x = eget prof c inv x + instContrib cfg ni c inv x := by
  rw [annotateInstance_eq]
  unfold instContrib
  by_cases hi : cfg.inverse = true
  · rw [if_pos hi, eget_foldl_addInverse, eget_foldl_addDirect]
    cases inv <;> simp [hi]
  · rw [if_neg hi, eget_foldl_addDirect]
    have : cfg.inverse = false := by simpa using hi
    cases inv <;> simp [this]

theorem eget_build_fold (cfg : Config) (entries : List (String × NodeInfo)) (prof : Profile) (c : String) (inv : Bool) (x : Tup) :
    eget (entries.foldl (fun prof (e : String × NodeInfo) => annotateInstance cfg prof e.2) prof) c inv x =
      eget prof c inv x + (entries.map fun e => instContrib cfg e.2 c inv x).sum := by
  induction entries generalizing prof with
  | nil => simp
  | cons e es ih =>
    simp only [List.foldl_cons, List.map_cons, List.sum_cons]
    rw [ih, eget_annotateInstance]; omega

end Profiler
end Shexer
