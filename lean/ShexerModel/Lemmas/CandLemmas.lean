import ShexerModel.Lemmas.SortLemmas
/-! Candidates of a shape: the threshold filter over the class profile. -/
namespace Shexer
namespace Shexer
open Profiler

theorem passes_iff (cfg : Config) (N n : Nat) : passes cfg N n = true ↔ n * cfg.thDen ≥ cfg.thNum * N := by
  unfold passes Gen.threshold_keeps; simp

/-- all entries of a property profile, flattened in dictionary order -/
def entries (pp : PropProfile) : List (String × String × Card × Nat) :=
  pp.flatMap fun (p, ks) => ks.flatMap fun (ty, cs) => cs.map fun (c, n) => (p, ty, c, n)

def mkStmt (inv : Bool) (e : String × String × Card × Nat) : Stmt :=
  { prop := e.1, types := [e.2.1], card := e.2.2.1, n := e.2.2.2, inverse := inv }

/-- candidates = entries that pass the threshold, turned into statements -/
theorem candidates_eq (cfg : Config) (N : Nat) (inv : Bool) (pp : PropProfile) :
    candidates cfg N inv pp = ((entries pp).filter fun e => passes cfg N e.2.2.2).map (mkStmt inv) := by
  unfold candidates entries
  induction pp with
  | nil => rfl
  | cons hd tl ih =>
    obtain ⟨p, ks⟩ := hd
    simp only [List.flatMap_cons, List.filter_append, List.map_append]
    rw [ih]
    congr 1
    induction ks with
    | nil => rfl
    | cons hd2 tl2 ih2 =>
      obtain ⟨ty, cs⟩ := hd2
      simp only [List.flatMap_cons, List.filter_append, List.map_append]
      rw [ih2]
      congr 1
      induction cs with
      | nil => rfl
      | cons hd3 tl3 ih3 =>
        obtain ⟨c, n⟩ := hd3
        simp only [List.filterMap_cons, List.map_cons, List.filter_cons]
        by_cases h : passes cfg N n = true
        · simp only [h, if_true, List.map_cons]
          rw [ih3]; rfl
        · have h' : passes cfg N n = false := by simpa using h
          simp only [h', Bool.false_eq_true, if_false]
          exact ih3

theorem mem_candidates (cfg : Config) (N : Nat) (inv : Bool) (pp : PropProfile) (s : Stmt) :
    s ∈ candidates cfg N inv pp ↔ ∃ e ∈ entries pp, passes cfg N e.2.2.2 = true ∧ s = mkStmt inv e := by
  rw [candidates_eq]
  simp only [List.mem_map, List.mem_filter]
  constructor
  · rintro ⟨e, ⟨he, hp⟩, rfl⟩; exact ⟨e, he, hp, rfl⟩
  · rintro ⟨e, he, hp, rfl⟩; exact ⟨e, ⟨he, hp⟩, rfl⟩

/-- every candidate passes the threshold and carries no comment yet -/
theorem candidate_props (cfg : Config) (N : Nat) (inv : Bool) (pp : PropProfile) (s : Stmt) (h : s ∈ candidates cfg N inv pp) :
    passes cfg N s.n = true ∧ s.comments = [] ∧ s.choice = false ∧ s.inverse = inv ∧ s.parts = none ∧ s.types.length = 1 := by
  obtain ⟨e, _, hp, rfl⟩ := (mem_candidates cfg N inv pp s).mp h
  exact ⟨hp, rfl, rfl, rfl, rfl, rfl⟩

/-- raising the threshold keeps a sub-list of the candidates (C12) -/
theorem candidates_antitone (a b : Config) (N : Nat) (inv : Bool) (pp : PropProfile)
    (h : ∀ n, passes b N n = true → passes a N n = true) :
    candidates b N inv pp = (candidates a N inv pp).filter fun s => passes b N s.n := by
  rw [candidates_eq, candidates_eq]
  rw [show (fun s : Stmt => passes b N s.n) = (fun s : Stmt => passes b N s.n) from rfl]
  induction entries pp with
  | nil => rfl
  | cons e es ih =>
    simp only [List.filter_cons]
    by_cases hb : passes b N e.2.2.2 = true
    · have ha := h _ hb
      simp only [hb, ha, if_true, List.map_cons, List.filter_cons]
      have : passes b N (mkStmt inv e).n = true := hb
      simp only [this, if_true]
      rw [ih]
    · have hb' : passes b N e.2.2.2 = false := by simpa using hb
      by_cases ha : passes a N e.2.2.2 = true
      · simp only [hb', ha, if_true, Bool.false_eq_true, if_false, List.map_cons, List.filter_cons]
        have : passes b N (mkStmt inv e).n = false := hb'
        simp only [this, Bool.false_eq_true, if_false]
        exact ih
      · have ha' : passes a N e.2.2.2 = false := by simpa using ha
        simp only [hb', ha', Bool.false_eq_true, if_false]
        exact ih

/-- thresholds `a₁/b₁ ≤ a₂/b₂`: whatever passes the higher one passes the lower one -/
theorem passes_mono (c1 c2 : Config) (N : Nat) (hb1 : 0 < c1.thDen) (hb2 : 0 < c2.thDen)
    (hle : c1.thNum * c2.thDen ≤ c2.thNum * c1.thDen) (n : Nat) (h : passes c2 N n = true) : passes c1 N n = true := by
  rw [passes_iff] at *
  -- n*b2 ≥ a2*N ; a1*b2 ≤ a2*b1  ⊢ n*b1 ≥ a1*N
  have h1 : c1.thNum * N * c2.thDen ≤ c2.thNum * N * c1.thDen := by
    calc c1.thNum * N * c2.thDen = c1.thNum * c2.thDen * N := by rw [Nat.mul_right_comm]
      _ ≤ c2.thNum * c1.thDen * N := Nat.mul_le_mul_right N hle
      _ = c2.thNum * N * c1.thDen := by rw [Nat.mul_right_comm]
  have h2 : c2.thNum * N * c1.thDen ≤ n * c2.thDen * c1.thDen := Nat.mul_le_mul_right _ h
  have h3 : c1.thNum * N * c2.thDen ≤ n * c1.thDen * c2.thDen := by
    calc c1.thNum * N * c2.thDen ≤ n * c2.thDen * c1.thDen := Nat.le_trans h1 h2
      _ = n * c1.thDen * c2.thDen := by rw [Nat.mul_right_comm]
  exact Nat.le_of_mul_le_mul_right h3 hb2

end Shexer
end Shexer
