import ShexerModel.Lemmas.GenTtlReader
/-! One line, and a whole document, of the streaming Turtle reader assembled from the regenerated functions.  `_process_line_2` cleans the
line and dispatches: empty line, `@prefix` line (`_process_prefix_line`: the update of `self._prefixes`), `@base` line (`_process_base_line`: the
new `self._base`), comment line, otherwise the token loop; `yield_triples` runs that over the lines and raises ValueError when the last
statement is not closed.  `genProcessLine` / `genReadLines` are those bodies around the regenerated functions (glue by hand; a regenerated
method that ends in an attribute update returns the update, the glue applies it to the model's state record). -/
namespace Shexer.GenTtlDoc
open Shexer PyOps Shexer.GenStrTune2 Shexer.GenNtReader Shexer.GenTtlReader

theorem gtd_rc (tok : List Char) :
    GenS.remove_corners tok true = (Ttl.removeCornersHard tok).mapError excOfTtl := by
  rw [GenStr.remove_corners_strict]
  unfold Nt.removeCorners Ttl.removeCornersHard
  by_cases h : (Nt.startsWith tok "<" && Nt.endsWith tok ">") = true
  · simp only [h, ↓reduceIte, GenStr.convNt, pure, Except.pure, Except.mapError, String.toList_ofList]
  · simp only [h]; rfl

theorem gtd_split (l : List Char) : PyOps.splitChar l ' ' = Ttl.splitSpace l := rfl

/-- `d[k] = v` on an insertion-ordered dictionary: an existing key keeps its position -/
def dictSet (d : List (List Char × List Char)) (k v : List Char) : List (List Char × List Char) :=
  if d.any (·.1 = k) then d.map (fun e => if e.1 = k then (k, v) else e) else d ++ [(k, v)]

theorem process_prefix_line_eq (d : List (List Char × List Char)) (l : List Char) :
    GenS.ttl_process_prefix_line d l =
      ((match Ttl.splitSpace l with
        | [_, p, ns, dot] =>
          if dot = ['.'] then (Ttl.removeCornersHard ns).map fun ns' => (if Nt.endsWith p ":" then p.dropLast else p, ns')
          else throw (Ttl.Err.valueError "A directive is expected to be alone in its line")
        | _ => throw (Ttl.Err.valueError "A directive is expected to be alone in its line")) : Ttl.M (List Char × List Char)).mapError excOfTtl := by
  unfold GenS.ttl_process_prefix_line GenS.ttl_check_directive_alone_in_its_line
  rw [gtd_split]
  generalize Ttl.splitSpace l = ps
  match ps with
  | [] => rfl
  | [_] => rfl
  | [_, _] => rfl
  | [_, _, _] => rfl
  | [a, p, ns, dot] =>
    have h1 : PyOps.indexL [a, p, ns, dot] (-1) = .ok dot := rfl
    have h2 : PyOps.indexL [a, p, ns, dot] 1 = .ok p := rfl
    have h3 : PyOps.indexL [a, p, ns, dot] 2 = .ok ns := rfl
    simp only [h1, h2, h3, gtd_rc, GenStr.endsWith_eq]
    have hl : (!(([a, p, ns, dot].length : Int) == 4)) = false := rfl
    simp only [hl, bind, Except.bind, pure, Except.pure, Bool.false_eq_true, ↓reduceIte, GenStr.slice_to_neg1]
    by_cases hd : dot = ['.']
    · subst hd
      have hb : (!(['.'] == ".".toList)) = false := by decide
      simp only [hb, Bool.false_eq_true, ↓reduceIte]
      cases Ttl.removeCornersHard ns with
      | error e => cases Nt.endsWith p ":" <;> rfl
      | ok v => cases Nt.endsWith p ":" <;> rfl
    · have hb : (!(dot == ".".toList)) = true := by
        simp only [Bool.not_eq_true', beq_eq_false_iff_ne, ne_eq]; exact hd
      simp only [hb, ↓reduceIte, hd]
      rfl
  | a :: b :: c :: d :: e :: r =>
    have h : (!(((a :: b :: c :: d :: e :: r).length : Int) == 4)) = true := by
      simp only [List.length_cons, Bool.not_eq_true', beq_eq_false_iff_ne, ne_eq]
      omega
    simp only [h, bind, Except.bind, pure, Except.pure, ↓reduceIte]
    rfl

theorem process_base_line_eq (b : Option (List Char)) (l : List Char) :
    GenS.ttl_process_base_line b l =
      ((match Ttl.splitSpace l with
        | [_, x, dot] =>
          if dot = ['.'] then Ttl.removeCornersHard x
          else throw (Ttl.Err.valueError "A directive is expected to be alone in its line")
        | _ => throw (Ttl.Err.valueError "A directive is expected to be alone in its line")) : Ttl.M (List Char)).mapError excOfTtl := by
  unfold GenS.ttl_process_base_line GenS.ttl_check_directive_alone_in_its_line
  rw [gtd_split]
  generalize Ttl.splitSpace l = ps
  match ps with
  | [] => rfl
  | [_] => rfl
  | [_, _] => rfl
  | [a, x, dot] =>
    have h1 : PyOps.indexL [a, x, dot] (-1) = .ok dot := rfl
    have h2 : PyOps.indexL [a, x, dot] 1 = .ok x := rfl
    simp only [h1, h2, gtd_rc]
    have hl : (!(([a, x, dot].length : Int) == 3)) = false := rfl
    simp only [hl, bind, Except.bind, pure, Except.pure, Bool.false_eq_true, ↓reduceIte]
    by_cases hd : dot = ['.']
    · subst hd
      have hb : (!(['.'] == ".".toList)) = false := by decide
      simp only [hb, Bool.false_eq_true, ↓reduceIte]
    · have hb : (!(dot == ".".toList)) = true := by
        simp only [Bool.not_eq_true', beq_eq_false_iff_ne, ne_eq]; exact hd
      simp only [hb, ↓reduceIte, hd]
      rfl
  | a :: b :: c :: d :: r =>
    have h : (!(((a :: b :: c :: d :: r).length : Int) == 3)) = true := by
      simp only [List.length_cons, Bool.not_eq_true', beq_eq_false_iff_ne, ne_eq]
      omega
    simp only [h, bind, Except.bind, pure, Except.pure, ↓reduceIte]
    rfl

theorem gtd_removeCommentAux_length (b : Bool) (l : List Char) : (Ttl.removeCommentAux b l).length ≤ l.length := by
  fun_induction Ttl.removeCommentAux b l <;> simp only [List.length_cons, List.length_nil] <;> omega

theorem gtd_cleanLine_length (raw : List Char) : (Ttl.cleanLine raw).length ≤ raw.length := by
  have h1 := Shexer.GenStrTtlElem.tel_strip_length (Ttl.squeeze (Ttl.subBlanks raw))
  have h2 : (Ttl.squeeze (Ttl.subBlanks raw)).length ≤ (Ttl.subBlanks raw).length :=
    Shexer.GenStrTtlElem.tel_squeezeAux_length _ false
  have h3 : (Ttl.subBlanks raw).length = raw.length := by unfold Ttl.subBlanks; rw [List.length_map]
  unfold Ttl.cleanLine
  simp only []
  split
  · have h4 := gtd_removeCommentAux_length false (Nt.strip (Ttl.squeeze (Ttl.subBlanks raw)))
    unfold Ttl.removeComment
    omega
  · omega

def genProcessLine (resolve : List Char → List Char → List Char) (fuel : Nat) (st : Ttl.St) (raw : List Char) :
    Except PyExc (Ttl.St × List (Obj × Obj × Obj)) := do
  let l ← GenS.ttl_clean_line fuel raw
  if l = [] then pure (st, [])
  else if PyOps.startsWith l "@prefix".toList then do
    let u ← GenS.ttl_process_prefix_line st.ctx.prefixes l
    pure ({ st with ctx := { st.ctx with prefixes := dictSet st.ctx.prefixes u.1 u.2 } }, [])
  else if PyOps.startsWith l "@base".toList then do
    let b ← GenS.ttl_process_base_line st.ctx.base l
    pure ({ st with ctx := { st.ctx with base := some b } }, [])
  else if PyOps.startsWith l "#".toList then pure (st, [])
  else genLineLoop resolve fuel (l.length + 1) st l 0

/-- no `<` without a `>` after it at any scan position of the cleaned line (see `GenStrTtlTok.next_line_token_eq`) -/
def CornersClosed (raw : List Char) : Prop :=
  ∀ j t, ((Ttl.cleanLine raw).drop j).dropWhile (· = ' ') = '<' :: t → Nt.toCorner ('<' :: t) ≠ none

theorem genProcessLine_eq (resolve : List Char → List Char → List Char) (fuel : Nat) (st : Ttl.St) (raw : List Char)
    (hf : raw.length + 1 ≤ fuel) (hc : CornersClosed raw) :
    (genProcessLine resolve fuel st raw).map (fun r => (r.1, r.2.map tripleOfObjs)) =
      (Ttl.processLine resolve st raw).mapError excOfTtl := by
  have hlen := gtd_cleanLine_length raw
  unfold genProcessLine Ttl.processLine
  rw [Shexer.GenStrTtlElem.clean_line_eq raw fuel hf]
  simp only [bind, Except.bind, GenStr.startsWith_eq]
  have hc' : ∀ j t, ((Ttl.cleanLine raw).drop j).dropWhile (· = ' ') = '<' :: t → Nt.toCorner ('<' :: t) ≠ none := hc
  generalize Ttl.cleanLine raw = l at hlen hc'
  by_cases c0 : l = []
  · simp only [c0, ↓reduceIte]; rfl
  simp only [c0, ↓reduceIte]
  by_cases c1 : Nt.startsWith l "@prefix" = true
  · simp only [c1, ↓reduceIte, process_prefix_line_eq]
    generalize Ttl.splitSpace l = ps
    match ps with
    | [] => rfl
    | [_] => rfl
    | [_, _] => rfl
    | [_, _, _] => rfl
    | [a, p, ns, dot] =>
      by_cases hd : dot = ['.']
      · simp only [hd, ↓reduceIte]
        cases Ttl.removeCornersHard ns with
        | error e => rfl
        | ok v => rfl
      · simp only [hd, ↓reduceIte]; rfl
    | _ :: _ :: _ :: _ :: _ :: _ => rfl
  simp only [c1, Bool.false_eq_true, ↓reduceIte]
  by_cases c2 : Nt.startsWith l "@base" = true
  · simp only [c2, ↓reduceIte, process_base_line_eq]
    generalize Ttl.splitSpace l = ps
    match ps with
    | [] => rfl
    | [_] => rfl
    | [_, _] => rfl
    | [a, x, dot] =>
      by_cases hd : dot = ['.']
      · simp only [hd, ↓reduceIte]
        cases Ttl.removeCornersHard x with
        | error e => rfl
        | ok v => rfl
      · simp only [hd, ↓reduceIte]; rfl
    | _ :: _ :: _ :: _ :: _ => rfl
  simp only [c2, Bool.false_eq_true, ↓reduceIte]
  by_cases c3 : Nt.startsWith l "#" = true
  · simp only [c3, ↓reduceIte]; rfl
  simp only [c3, Bool.false_eq_true, ↓reduceIte]
  have h := genLineLoop_eq resolve fuel (l.length + 1) st l 0 (by omega) hc'
  simpa only [List.drop_zero, Int.natCast_zero] using h

theorem gtd_fold (resolve : List Char → List Char → List Char) (fuel : Nat) (lines : List (List Char)) :
    ∀ (st : Ttl.St) (out : List (Obj × Obj × Obj)),
    (∀ l ∈ lines, l.length + 1 ≤ fuel) → (∀ l ∈ lines, CornersClosed l) →
    (lines.foldlM (fun (acc : Ttl.St × List (Obj × Obj × Obj)) l => do
        let r ← genProcessLine resolve fuel acc.1 l
        pure (r.1, acc.2 ++ r.2)) (st, out)).map (fun (r : Ttl.St × List (Obj × Obj × Obj)) => (r.1, r.2.map tripleOfObjs)) =
      (lines.foldlM (fun (acc : Ttl.St × List Triple) l => do
        let (st', o) ← Ttl.processLine resolve acc.1 l
        pure (st', acc.2 ++ o)) (st, out.map tripleOfObjs)).mapError excOfTtl := by
  induction lines with
  | nil => intro st out _ _; rfl
  | cons l ls ih =>
    intro st out hf hc
    simp only [List.foldlM_cons]
    rcases gnr_map_mapError _ _ _ _ (genProcessLine_eq resolve fuel st l (hf l (List.mem_cons_self ..)) (hc l (List.mem_cons_self ..)))
      with ⟨v, h, h'⟩ | ⟨e, h, h'⟩
    · simp only [bind, Except.bind, h, h', pure, Except.pure]
      have := ih v.1 (out ++ v.2) (fun x hx => hf x (List.mem_cons_of_mem _ hx)) (fun x hx => hc x (List.mem_cons_of_mem _ hx))
      simp only [bind, Except.bind, pure, Except.pure, List.map_append] at this
      exact this
    · simp only [bind, Except.bind, h, h']; rfl

def genReadLines (resolve : List Char → List Char → List Char) (fuel : Nat) (lines : List (List Char)) : Except PyExc (List (Obj × Obj × Obj)) := do
  let r ← lines.foldlM (fun (acc : Ttl.St × List (Obj × Obj × Obj)) l => do
    let r ← genProcessLine resolve fuel acc.1 l
    pure (r.1, acc.2 ++ r.2)) (({} : Ttl.St), [])
  if r.1.wait != .subj then throw PyExc.valueError
  pure r.2

theorem genReadLines_eq (resolve : List Char → List Char → List Char) (fuel : Nat) (lines : List (List Char))
    (hf : ∀ l ∈ lines, l.length + 1 ≤ fuel) (hc : ∀ l ∈ lines, CornersClosed l) :
    (genReadLines resolve fuel lines).map (List.map tripleOfObjs) = (Ttl.readLines resolve lines).mapError excOfTtl := by
  unfold genReadLines Ttl.readLines
  rcases gnr_map_mapError _ _ _ _ (gtd_fold resolve fuel lines {} [] hf hc) with ⟨v, h, h'⟩ | ⟨e, h, h'⟩
  · simp only [List.map_nil] at h'
    rw [h, h']
    simp only [bind, Except.bind]
    cases hw : v.1.wait <;> rfl
  · simp only [List.map_nil] at h'
    rw [h, h']; rfl

end Shexer.GenTtlDoc
