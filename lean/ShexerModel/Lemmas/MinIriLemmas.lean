import ShexerModel.Model.MinIri
import ShexerModel.Lemmas.DictLemmas
/-! C17: the stem attached to a shape is the longest prefix, ending at a separator, common to the IRIs
of all instances of the shape; examples are real instances / real values. -/
namespace Shexer
namespace MinIri

theorem lcp_prefix_left (a b : List Char) : lcp a b <+: a := by
  induction a generalizing b with
  | nil => simp [lcp]
  | cons x xs ih =>
    cases b with
    | nil => simp [lcp]
    | cons y ys =>
      by_cases h : x = y
      · simp only [lcp, h, if_true]
        exact (List.prefix_cons_inj y).2 (ih ys)
      · simp [lcp, h]

theorem lcp_prefix_right (a b : List Char) : lcp a b <+: b := by
  induction a generalizing b with
  | nil => simp [lcp]
  | cons x xs ih =>
    cases b with
    | nil => simp [lcp]
    | cons y ys =>
      by_cases h : x = y
      · simp only [lcp, h, if_true]
        exact (List.prefix_cons_inj y).2 (ih ys)
      · simp [lcp, h]

theorem lcp_greatest (a b p : List Char) (ha : p <+: a) (hb : p <+: b) : p <+: lcp a b := by
  induction p generalizing a b with
  | nil => exact List.nil_prefix
  | cons z zs ih =>
    cases a with
    | nil => simp at ha
    | cons x xs =>
      cases b with
      | nil => simp at hb
      | cons y ys =>
        obtain ⟨h1, h2⟩ := List.cons_prefix_cons.1 ha
        obtain ⟨h3, h4⟩ := List.cons_prefix_cons.1 hb
        subst h1; subst h3
        simp only [lcp, if_true]
        exact (List.prefix_cons_inj z).2 (ih xs ys h2 h4)

/-- instances of class `c`: the keys of the entries whose class list contains `c` -/
def instancesOf (inst : Tracker.InstDict) (c : String) : List String :=
  (inst.filter fun e => e.2.contains c).map (·.1)

/-- invariant of the fold: `S c n` = "instance `n` of class `c` has been processed" -/
def Inv (d : Dict String (Option (List Char))) (S : String → String → Prop) : Prop :=
  ∀ c, (Dict.get? d c = none → ∀ n, ¬ S c n) ∧ Dict.get? d c ≠ some none ∧
    ∀ l, Dict.get? d c = some (some l) →
      (∀ n, S c n → l <+: n.toList) ∧ (∀ p : List Char, (∀ n, S c n → p <+: n.toList) → p <+: l) ∧ ∃ n, S c n

theorem Inv_congr {d : Dict String (Option (List Char))} {S S' : String → String → Prop}
    (h : ∀ c n, S c n ↔ S' c n) (hi : Inv d S) : Inv d S' := by
  have : S = S' := by
    funext c n; exact propext (h c n)
  subst this; exact hi

theorem Inv_step {d : Dict String (Option (List Char))} {S : String → String → Prop} (hi : Inv d S)
    (c n : String) :
    Inv (Dict.upd d c fun o => update (o.getD none) n.toList) (fun c' n' => S c' n' ∨ (c' = c ∧ n' = n)) := by
  intro c'
  by_cases hc : c = c'
  · subst hc
    rw [Dict.get?_upd_same]
    obtain ⟨h1, h2, h3⟩ := hi c
    cases hg : Dict.get? d c with
    | none =>
      simp only [Option.getD, update]
      refine ⟨by simp, by simp, ?_⟩
      intro l hl
      have hl' : n.toList = l := by simpa using hl
      subst hl'
      have hno := h1 hg
      refine ⟨?_, ?_, ⟨n, Or.inr (by simp)⟩⟩
      · intro n' hn'
        rcases hn' with hn' | ⟨_, hn'⟩
        · exact absurd hn' (hno n')
        · subst hn'; exact List.prefix_rfl
      · intro p hp
        exact hp n (Or.inr (by simp))
    | some v =>
      cases v with
      | none => exact absurd hg h2
      | some l0 =>
        simp only [Option.getD, update]
        obtain ⟨g1, g2, g3⟩ := h3 l0 hg
        refine ⟨by simp, by simp, ?_⟩
        intro l hl
        have hl' : lcp n.toList l0 = l := by simpa using hl
        subst hl'
        refine ⟨?_, ?_, ?_⟩
        · intro n' hn'
          rcases hn' with hn' | ⟨_, hn'⟩
          · exact (lcp_prefix_right _ _).trans (g1 n' hn')
          · subst hn'; exact lcp_prefix_left _ _
        · intro p hp
          apply lcp_greatest
          · exact hp n (Or.inr (by simp))
          · exact g2 p (fun n' hn' => hp n' (Or.inl hn'))
        · obtain ⟨n', hn'⟩ := g3
          exact ⟨n', Or.inl hn'⟩
  · rw [Dict.get?_upd_other _ _ _ _ hc]
    have hc' : ¬ c' = c := fun h => hc h.symm
    have hS : ∀ n', (S c' n' ∨ (c' = c ∧ n' = n)) ↔ S c' n' := by
      intro n'; simp [hc']
    obtain ⟨h1, h2, h3⟩ := hi c'
    refine ⟨?_, h2, ?_⟩
    · intro hg n' hn'
      exact h1 hg n' ((hS n').1 hn')
    · intro l hl
      obtain ⟨g1, g2, n0, g3⟩ := h3 l hl
      refine ⟨fun n' hn' => g1 n' ((hS n').1 hn'), ?_, ⟨n0, Or.inl g3⟩⟩
      intro p hp
      exact g2 p (fun n' hn' => hp n' (Or.inl hn'))

theorem Inv_inner {S : String → String → Prop} (n : String) (cls : List String) :
    ∀ {d : Dict String (Option (List Char))}, Inv d S →
    Inv (cls.foldl (fun d c => Dict.upd d c fun o => update (o.getD none) n.toList) d)
      (fun c' n' => S c' n' ∨ (c' ∈ cls ∧ n' = n)) := by
  induction cls generalizing S with
  | nil =>
    intro d hi
    exact Inv_congr (by simp) hi
  | cons c cs ih =>
    intro d hi
    simp only [List.foldl_cons]
    refine Inv_congr ?_ (ih (Inv_step hi c n))
    intro c' n'
    simp only [List.mem_cons]
    constructor
    · rintro ((h | ⟨h1, h2⟩) | ⟨h1, h2⟩)
      · exact Or.inl h
      · exact Or.inr ⟨Or.inl h1, h2⟩
      · exact Or.inr ⟨Or.inr h1, h2⟩
    · rintro (h | ⟨h1 | h1, h2⟩)
      · exact Or.inl (Or.inl h)
      · exact Or.inl (Or.inr ⟨h1, h2⟩)
      · exact Or.inr ⟨h1, h2⟩

theorem Inv_outer (inst : Tracker.InstDict) :
    ∀ {S : String → String → Prop} {d : Dict String (Option (List Char))}, Inv d S →
    Inv (inst.foldl (fun d (e : String × List String) =>
          e.2.foldl (fun d c => Dict.upd d c fun o => update (o.getD none) e.1.toList) d) d)
      (fun c' n' => S c' n' ∨ ∃ cls, (n', cls) ∈ inst ∧ c' ∈ cls) := by
  induction inst with
  | nil =>
    intro S d hi
    exact Inv_congr (by simp) hi
  | cons e es ih =>
    intro S d hi
    obtain ⟨n, cls⟩ := e
    simp only [List.foldl_cons]
    refine Inv_congr ?_ (ih (Inv_inner n cls hi))
    intro c' n'
    simp only [List.mem_cons, Prod.mk.injEq]
    constructor
    · rintro ((h | ⟨h1, h2⟩) | ⟨cl, h1, h2⟩)
      · exact Or.inl h
      · exact Or.inr ⟨cls, Or.inl ⟨h2, rfl⟩, h1⟩
      · exact Or.inr ⟨cl, Or.inr h1, h2⟩
    · rintro (h | ⟨cl, ⟨h0, h1⟩ | h1, h2⟩)
      · exact Or.inl (Or.inl h)
      · subst h1; exact Or.inl (Or.inr ⟨h2, h0⟩)
      · exact Or.inr ⟨cl, h1, h2⟩

theorem mem_instancesOf (inst : Tracker.InstDict) (c n : String) :
    n ∈ instancesOf inst c ↔ ∃ cls, (n, cls) ∈ inst ∧ c ∈ cls := by
  simp only [instancesOf, List.mem_map, List.mem_filter, List.contains_iff_mem]
  constructor
  · rintro ⟨⟨n', cls⟩, ⟨h1, h2⟩, h3⟩
    simp only at h3 h2
    subst h3
    exact ⟨cls, h1, h2⟩
  · rintro ⟨cls, h1, h2⟩
    exact ⟨(n, cls), ⟨h1, h2⟩, rfl⟩

theorem Inv_fold (inst : Tracker.InstDict) : Inv (fold inst) (fun c n => n ∈ instancesOf inst c) := by
  have h0 : Inv ([] : Dict String (Option (List Char))) (fun _ _ => False) := by
    intro c; simp
  have := Inv_outer inst h0
  refine Inv_congr ?_ this
  intro c n
  simp [mem_instancesOf]

/-- the fold computes the longest common prefix of the instances of each class -/
theorem fold_is_lcp (inst : Tracker.InstDict) (c : String) (l : List Char)
    (h : Dict.get? (fold inst) c = some (some l)) :
    (∀ n ∈ instancesOf inst c, l <+: n.toList) ∧
    (∀ p : List Char, (∀ n ∈ instancesOf inst c, p <+: n.toList) → p <+: l) ∧
    instancesOf inst c ≠ [] := by
  obtain ⟨g1, g2, n0, g3⟩ := (Inv_fold inst c).2.2 l h
  refine ⟨g1, g2, ?_⟩
  intro he
  rw [he] at g3
  simp at g3

theorem takeWhile_all {α : Type} (p : α → Bool) (l : List α) : ∀ x ∈ l.takeWhile p, p x = true := by
  induction l with
  | nil => simp
  | cons a as ih =>
    intro x hx
    by_cases h : p a = true
    · rw [List.takeWhile_cons_of_pos h] at hx
      rcases List.mem_cons.1 hx with hx | hx
      · subst hx; exact h
      · exact ih x hx
    · rw [List.takeWhile_cons_of_neg h] at hx
      simp at hx

theorem uptoLastSep_some (l r : List Char) (h : uptoLastSep l = some r) :
    r ≠ [] ∧ r.reverse = l.reverse.dropWhile (fun c => !isSep c) := by
  unfold uptoLastSep at h
  split at h
  · simp at h
  · next hne =>
    have : (l.reverse.dropWhile fun c => !isSep c).reverse = r := by simpa using h
    subst this
    refine ⟨?_, by simp⟩
    intro he
    apply hne
    simpa using he

theorem uptoLastSep_spec (l r : List Char) (h : uptoLastSep l = some r) :
    r <+: l ∧ (∃ c, r.getLast? = some c ∧ isSep c = true) ∧
    ∀ p : List Char, p <+: l → (∃ c, p.getLast? = some c ∧ isSep c = true) → p.length ≤ r.length := by
  obtain ⟨hne, hr⟩ := uptoLastSep_some l r h
  have hsplit : l.reverse.takeWhile (fun c => !isSep c) ++ r.reverse = l.reverse := by
    rw [hr]; exact List.takeWhile_append_dropWhile
  have hl : l = r ++ (l.reverse.takeWhile (fun c => !isSep c)).reverse := by
    have := congrArg List.reverse hsplit
    simpa using this.symm
  have hnosep : ∀ x ∈ (l.reverse.takeWhile (fun c => !isSep c)).reverse, isSep x = false := by
    intro x hx
    have := takeWhile_all (fun c => !isSep c) l.reverse x (List.mem_reverse.1 hx)
    simpa using this
  generalize (l.reverse.takeWhile (fun c => !isSep c)).reverse = t at hl hnosep
  refine ⟨?_, ?_, ?_⟩
  · rw [hl]; exact List.prefix_append _ _
  · have hrne : r.reverse ≠ [] := by simpa using hne
    have hd := List.head?_dropWhile_not (fun c => !isSep c) l.reverse
    rw [← hr] at hd
    cases hh : r.reverse.head? with
    | none =>
      rw [List.head?_eq_none_iff] at hh
      exact absurd hh hrne
    | some x =>
      rw [hh] at hd
      refine ⟨x, ?_, by simpa using hd⟩
      rw [← List.head?_reverse]; exact hh
  · intro p hp hsep
    obtain ⟨ch, hch, hs⟩ := hsep
    have hrl : r <+: l := by rw [hl]; exact List.prefix_append _ _
    rcases List.prefix_or_prefix_of_prefix hp hrl with h1 | h1
    · exact h1.length_le
    · obtain ⟨q, hq⟩ := h1
      subst hq
      rw [hl] at hp
      have hqt : q <+: t := (List.prefix_append_right_inj r).1 hp
      cases q with
      | nil => simp
      | cons a q' =>
        exfalso
        rw [List.getLast?_append] at hch
        have : (a :: q').getLast? = some ch := by
          cases hq' : (a :: q').getLast? with
          | none => simp at hq'
          | some v => rw [hq'] at hch; simpa using hch
        have hmem : ch ∈ a :: q' := by
          obtain ⟨ys, hys⟩ := List.getLast?_eq_some_iff.1 this
          rw [hys]; simp
        have := hnosep ch (hqt.subset hmem)
        rw [this] at hs
        exact absurd hs (by simp)

theorem stem_some (inst : Tracker.InstDict) (c s : String) (h : stem inst c = some s) :
    ∃ l cand, Dict.get? (fold inst) c = some (some l) ∧ uptoLastSep l = some cand ∧ s.toList = cand ∧
      3 ≤ cand.length ∧ ¬ ("http".toList.isPrefixOf cand = true ∧ cand.length < 9) := by
  unfold stem at h
  split at h
  · next l hl =>
    refine ⟨l, ?_⟩
    unfold suitable at h
    split at h
    · simp at h
    · next cand hc =>
      refine ⟨cand, hl, hc, ?_⟩
      by_cases h3 : cand.length < 3
      · simp [h3] at h
      · by_cases h9 : ("http".toList.isPrefixOf cand && decide (cand.length < 9)) = true
        · rw [if_neg h3, if_pos h9] at h; simp at h
        · rw [if_neg h3, if_neg h9] at h
          have hs : String.ofList cand = s := by simpa using h
          refine ⟨?_, by omega, ?_⟩
          · rw [← hs]; exact String.toList_ofList
          · intro hh
            apply h9
            rw [Bool.and_eq_true]; exact ⟨hh.1, decide_eq_true hh.2⟩
  · simp at h

/-- **the stem is a prefix of the IRI of every instance of the shape** -/
theorem stem_is_common_prefix (inst : Tracker.InstDict) (c s : String) (h : stem inst c = some s) :
    ∀ n ∈ instancesOf inst c, s.toList <+: n.toList := by
  obtain ⟨l, cand, h1, h2, h3, _, _⟩ := stem_some inst c s h
  intro n hn
  rw [h3]
  exact (uptoLastSep_spec l cand h2).1.trans ((fold_is_lcp inst c l h1).1 n hn)

/-- **it ends at a separator character** (`:`, `/` or `#`) -/
theorem stem_ends_at_sep (inst : Tracker.InstDict) (c s : String) (h : stem inst c = some s) :
    ∃ ch, s.toList.getLast? = some ch ∧ isSep ch = true := by
  obtain ⟨l, cand, h1, h2, h3, _, _⟩ := stem_some inst c s h
  rw [h3]
  exact (uptoLastSep_spec l cand h2).2.1

/-- **it is the longest such stem**: any separator-terminated string that is a prefix of all instances is no longer -/
theorem stem_longest (inst : Tracker.InstDict) (c s : String) (h : stem inst c = some s) (p : List Char)
    (hp : ∀ n ∈ instancesOf inst c, p <+: n.toList) (hsep : ∃ ch, p.getLast? = some ch ∧ isSep ch = true) :
    p.length ≤ s.toList.length := by
  obtain ⟨l, cand, h1, h2, h3, _, _⟩ := stem_some inst c s h
  rw [h3]
  exact (uptoLastSep_spec l cand h2).2.2 p ((fold_is_lcp inst c l h1).2.1 p hp) hsep

/-- **no stem shorter than three characters, none that is just `http://` or `https://`** -/
theorem stem_not_short (inst : Tracker.InstDict) (c s : String) (h : stem inst c = some s) :
    3 ≤ s.toList.length ∧ s ≠ "http://" ∧ s ≠ "https://" := by
  obtain ⟨l, cand, h1, h2, h3, h4, h5⟩ := stem_some inst c s h
  refine ⟨by rw [h3]; exact h4, ?_, ?_⟩
  · intro hs
    subst hs
    apply h5
    rw [← h3]
    decide
  · intro hs
    subst hs
    apply h5
    rw [← h3]
    decide

/-- **the shape example is one of the shape's instances** -/
theorem shapeExample_is_instance (inst : Tracker.InstDict) (c n : String) (h : shapeExample inst c = some n) :
    n ∈ instancesOf inst c := by
  unfold shapeExample at h
  rw [Option.map_eq_some_iff] at h
  obtain ⟨⟨n', cls⟩, hf, hn⟩ := h
  simp only at hn
  subst hn
  have hm := List.mem_of_find?_eq_some hf
  have hp := List.find?_some hf
  simp only at hp
  rw [mem_instancesOf]
  exact ⟨cls, hm, List.contains_iff_mem.1 hp⟩

/-- **a constraint example is an actual value of that property (in that direction) on an instance of the shape** -/
theorem constraintExample_is_value (cfg : Config) (inst : Tracker.InstDict) (g : Graph) (c : String) (inv : Bool) (p : String)
    (v : Term) (h : constraintExample cfg inst g c inv p = some v) :
    ∃ t ∈ g, t.p = p ∧
      (if inv then t.s = v ∧ ((Dict.get? inst t.o.key).getD []).contains c = true
       else t.o = v ∧ ((Dict.get? inst t.s.key).getD []).contains c = true) := by
  unfold constraintExample at h
  cases inv with
  | true =>
    simp only [if_true] at h
    rw [Option.map_eq_some_iff] at h
    obtain ⟨t, hf, hv⟩ := h
    have hm := List.mem_of_find?_eq_some hf
    have hp := List.find?_some hf
    simp only [Bool.and_eq_true, beq_iff_eq] at hp
    refine ⟨t, (List.mem_filter.1 hm).1, hp.1.1, ?_⟩
    simp only [if_true]
    exact ⟨hv, hp.2⟩
  | false =>
    simp only [Bool.false_eq_true, if_false] at h
    rw [Option.map_eq_some_iff] at h
    obtain ⟨t, hf, hv⟩ := h
    have hm := List.mem_of_find?_eq_some hf
    have hp := List.find?_some hf
    simp only [Bool.and_eq_true, beq_iff_eq] at hp
    refine ⟨t, (List.mem_filter.1 hm).1, hp.1.1, ?_⟩
    simp only [Bool.false_eq_true, if_false]
    exact ⟨hv, hp.2⟩

end MinIri
end Shexer
