import ShexerModel.Model.Endpoint
import ShexerModel.Lemmas.PermLemmas
/-! The endpoint cache is transparent and never asks more; the neighbourhood fetched at depth 1 carries every figure. -/
namespace Shexer
namespace Endpoint
open Spec

/-! ### `addAll` -/

theorem mem_addAll (ts : List Triple) (st : List Triple) (t : Triple) :
    t ∈ addAll st ts ↔ t ∈ st ∨ t ∈ ts := by
  unfold addAll
  induction ts generalizing st with
  | nil => simp
  | cons a ts ih =>
    rw [List.foldl_cons, ih]
    by_cases h : a ∈ st
    · have hc : st.contains a = true := by simpa using h
      rw [if_pos hc]
      constructor
      · rintro (h1 | h1)
        · exact Or.inl h1
        · exact Or.inr (List.mem_cons_of_mem _ h1)
      · rintro (h1 | h1)
        · exact Or.inl h1
        · rcases List.mem_cons.mp h1 with e | e
          · exact Or.inl (e ▸ h)
          · exact Or.inr e
    · have hc : ¬ st.contains a = true := by simpa using h
      rw [if_neg hc]
      constructor
      · rintro (h1 | h1)
        · rcases List.mem_append.mp h1 with h2 | h2
          · exact Or.inl h2
          · exact Or.inr (List.mem_cons.mpr (Or.inl (List.mem_singleton.mp h2)))
        · exact Or.inr (List.mem_cons_of_mem _ h1)
      · rintro (h1 | h1)
        · exact Or.inl (List.mem_append_left _ h1)
        · rcases List.mem_cons.mp h1 with e | e
          · exact Or.inl (List.mem_append_right _ (List.mem_singleton.mpr e))
          · exact Or.inr e

theorem nodup_addAll (ts : List Triple) (st : List Triple) (h : st.Nodup) : (addAll st ts).Nodup := by
  unfold addAll
  induction ts generalizing st with
  | nil => simpa using h
  | cons a ts ih =>
    rw [List.foldl_cons]
    apply ih
    by_cases hc : st.contains a = true
    · rw [if_pos hc]; exact h
    · rw [if_neg hc]
      have ha : a ∉ st := by simpa using hc
      rw [List.nodup_append]
      refine ⟨h, by simp, ?_⟩
      intro x hx y hy
      simp only [List.mem_singleton] at hy
      subst hy
      intro e
      exact ha (e ▸ hx)

/-! ### requests as predicates -/

def reqPred (instProp : String) : Req → Triple → Bool
  | .po s => fun t => t.s.isNode && t.s.key == s
  | .sp o => fun t => t.o.isNode && t.o.key == o
  | .classes s => fun t => t.p == instProp && (t.s.isNode && t.s.key == s)

theorem remote_eq_filter (instProp : String) (g : Graph) (r : Req) :
    remote instProp g r = g.filter (reqPred instProp r) := by
  cases r <;> simp [remote, reqPred, poOf, spOf, classesOf, List.filter_filter]

theorem localAnswer_eq_filter (instProp : String) (st : List Triple) (r : Req) :
    localAnswer instProp st r = st.filter (reqPred instProp r) := by
  cases r <;> simp [localAnswer, reqPred, List.filter_filter]

theorem answer_perm (instProp : String) (g : Graph) (hg : g.Nodup) (st : List Triple) (hst : st.Nodup)
    (hsub : ∀ t ∈ st, t ∈ g) (r : Req) (hall : ∀ t ∈ remote instProp g r, t ∈ st) :
    (localAnswer instProp st r).Perm (remote instProp g r) := by
  rw [remote_eq_filter] at hall ⊢
  rw [localAnswer_eq_filter]
  rw [List.perm_ext_iff_of_nodup (hst.sublist List.filter_sublist) (hg.sublist List.filter_sublist)]
  intro t
  simp only [List.mem_filter]
  constructor
  · rintro ⟨h1, h2⟩; exact ⟨hsub t h1, h2⟩
  · rintro ⟨h1, h2⟩; exact ⟨hall t (List.mem_filter.mpr ⟨h1, h2⟩), h2⟩

theorem remote_sub (instProp : String) (g : Graph) (r : Req) : ∀ t ∈ remote instProp g r, t ∈ g := by
  intro t ht
  rw [remote_eq_filter] at ht
  exact (List.mem_filter.mp ht).1

theorem classesOf_sub_poOf (instProp : String) (g : Graph) (s : String) :
    ∀ t ∈ classesOf instProp g s, t ∈ poOf g s := by
  intro t ht
  exact (List.mem_filter.mp ht).1

/-! ### the cache invariant -/

structure Inv (instProp : String) (g : Graph) (c : Cache) (done : List Req) : Prop where
  nodup : c.store.Nodup
  sub : ∀ t ∈ c.store, t ∈ g
  subj : ∀ s ∈ c.subjTracked, (∀ t ∈ poOf g s, t ∈ c.store) ∨
    (Req.classes s ∈ done ∧ ∀ t ∈ classesOf instProp g s, t ∈ c.store)
  obj : ∀ o ∈ c.objTracked, ∀ t ∈ spOf g o, t ∈ c.store

theorem cached_step (instProp : String) (g : Graph) (hg : g.Nodup) (c : Cache) (done : List Req) (r : Req)
    (hinv : Inv instProp g c done) (hd : ∀ s, r = Req.po s → Req.classes s ∉ done) :
    Inv instProp g (cached instProp g c r).1 (done ++ [r]) ∧
      (cached instProp g c r).2.Perm (remote instProp g r) := by
  -- monotonicity of the invariant in `done`
  have hmono : Inv instProp g c (done ++ [r]) :=
    ⟨hinv.nodup, hinv.sub, fun s hs => (hinv.subj s hs).imp id (fun h => ⟨List.mem_append_left _ h.1, h.2⟩), hinv.obj⟩
  -- the invariant after a miss
  have hst : (addAll c.store (remote instProp g r)).Nodup := nodup_addAll _ _ hinv.nodup
  have hsub : ∀ t ∈ addAll c.store (remote instProp g r), t ∈ g := by
    intro t ht
    rcases (mem_addAll _ _ _).mp ht with h | h
    · exact hinv.sub t h
    · exact remote_sub instProp g r t h
  have hkeep : ∀ t ∈ c.store, t ∈ addAll c.store (remote instProp g r) :=
    fun t ht => (mem_addAll _ _ _).mpr (Or.inl ht)
  have hnew : ∀ t ∈ remote instProp g r, t ∈ addAll c.store (remote instProp g r) :=
    fun t ht => (mem_addAll _ _ _).mpr (Or.inr ht)
  have hsubj' : ∀ s ∈ c.subjTracked, (∀ t ∈ poOf g s, t ∈ addAll c.store (remote instProp g r)) ∨
      (Req.classes s ∈ done ++ [r] ∧ ∀ t ∈ classesOf instProp g s, t ∈ addAll c.store (remote instProp g r)) :=
    fun s hs => (hinv.subj s hs).imp (fun h t ht => hkeep t (h t ht))
      (fun h => ⟨List.mem_append_left _ h.1, fun t ht => hkeep t (h.2 t ht)⟩)
  have hobj' : ∀ o ∈ c.objTracked, ∀ t ∈ spOf g o, t ∈ addAll c.store (remote instProp g r) :=
    fun o ho t ht => hkeep t (hinv.obj o ho t ht)
  cases r with
  | po s =>
    by_cases hit : s ∈ c.subjTracked
    · have hc : cached instProp g c (Req.po s) = (c, localAnswer instProp c.store (Req.po s)) := by
        simp [cached, hit]
      rw [hc]
      refine ⟨hmono, ?_⟩
      refine answer_perm instProp g hg _ hinv.nodup hinv.sub (Req.po s) ?_
      have hs : s ∈ c.subjTracked := hit
      rcases hinv.subj s hs with h | h
      · exact h
      · exact absurd h.1 (hd s rfl)
    · have hc : cached instProp g c (Req.po s) =
          ({ c with store := addAll c.store (remote instProp g (Req.po s)), subjTracked := s :: c.subjTracked,
                    queries := c.queries + 1 },
            localAnswer instProp (addAll c.store (remote instProp g (Req.po s))) (Req.po s)) := by
        simp [cached, hit]
      rw [hc]
      refine ⟨⟨hst, hsub, ?_, hobj'⟩, answer_perm instProp g hg _ hst hsub _ hnew⟩
      intro s' hs'
      rcases List.mem_cons.mp hs' with e | e
      · subst e; exact Or.inl hnew
      · exact hsubj' s' e
  | sp o =>
    by_cases hit : o ∈ c.objTracked
    · have hc : cached instProp g c (Req.sp o) = (c, localAnswer instProp c.store (Req.sp o)) := by
        simp [cached, hit]
      rw [hc]
      refine ⟨hmono, ?_⟩
      refine answer_perm instProp g hg _ hinv.nodup hinv.sub (Req.sp o) ?_
      have ho : o ∈ c.objTracked := hit
      exact hinv.obj o ho
    · have hc : cached instProp g c (Req.sp o) =
          ({ c with store := addAll c.store (remote instProp g (Req.sp o)), objTracked := o :: c.objTracked,
                    queries := c.queries + 1 },
            localAnswer instProp (addAll c.store (remote instProp g (Req.sp o))) (Req.sp o)) := by
        simp [cached, hit]
      rw [hc]
      refine ⟨⟨hst, hsub, hsubj', ?_⟩, answer_perm instProp g hg _ hst hsub _ hnew⟩
      intro o' ho'
      rcases List.mem_cons.mp ho' with e | e
      · subst e; exact hnew
      · exact hobj' o' e
  | classes s =>
    by_cases hit : s ∈ c.subjTracked
    · have hc : cached instProp g c (Req.classes s) = (c, localAnswer instProp c.store (Req.classes s)) := by
        simp [cached, hit]
      rw [hc]
      refine ⟨hmono, ?_⟩
      refine answer_perm instProp g hg _ hinv.nodup hinv.sub (Req.classes s) ?_
      have hs : s ∈ c.subjTracked := hit
      rcases hinv.subj s hs with h | h
      · exact fun t ht => h t (classesOf_sub_poOf instProp g s t ht)
      · exact h.2
    · have hc : cached instProp g c (Req.classes s) =
          ({ c with store := addAll c.store (remote instProp g (Req.classes s)), subjTracked := s :: c.subjTracked,
                    queries := c.queries + 1 },
            localAnswer instProp (addAll c.store (remote instProp g (Req.classes s))) (Req.classes s)) := by
        simp [cached, hit]
      rw [hc]
      refine ⟨⟨hst, hsub, ?_, hobj'⟩, answer_perm instProp g hg _ hst hsub _ hnew⟩
      intro s' hs'
      rcases List.mem_cons.mp hs' with e | e
      · subst e; exact Or.inr ⟨by simp, hnew⟩
      · exact hsubj' s' e

inductive Forall2 {α β : Type} (R : α → β → Prop) : List α → List β → Prop
  | nil : Forall2 R [] []
  | cons {a b l1 l2} : R a b → Forall2 R l1 l2 → Forall2 R (a :: l1) (b :: l2)

theorem runCached_cons (instProp : String) (g : Graph) (c : Cache) (r : Req) (rs : List Req) :
    runCached instProp g c (r :: rs) =
      ((runCached instProp g (cached instProp g c r).1 rs).1,
        (cached instProp g c r).2 :: (runCached instProp g (cached instProp g c r).1 rs).2) := rfl

theorem runCached_forall₂ (instProp : String) (g : Graph) (hg : g.Nodup) (rest : List Req) :
    ∀ (done : List Req) (c : Cache), Inv instProp g c done → disciplined (done ++ rest) →
      Forall2 (fun a r => a.Perm (remote instProp g r)) (runCached instProp g c rest).2 rest := by
  induction rest with
  | nil => intro done c _ _; exact Forall2.nil
  | cons r rs ih =>
    intro done c hinv hd
    rw [runCached_cons]
    have hstep := cached_step instProp g hg c done r hinv (by
      intro s hs hcl
      subst hs
      exact hd s (List.mem_append_left _ hcl) (List.mem_append_right _ (List.mem_cons_self)))
    refine Forall2.cons hstep.2 ?_
    apply ih (done ++ [r]) _ hstep.1
    simpa [List.append_assoc] using hd

theorem forall₂_getElem {α β : Type} {R : α → β → Prop} {l1 : List α} {l2 : List β} (h : Forall2 R l1 l2) :
    l1.length = l2.length ∧ ∀ i (h1 : i < l1.length) (h2 : i < l2.length), R l1[i] l2[i] := by
  induction h with
  | nil => exact ⟨rfl, fun i h1 => absurd h1 (Nat.not_lt_zero _)⟩
  | cons hr _ ih =>
    refine ⟨by simp [ih.1], ?_⟩
    intro i h1 h2
    cases i with
    | zero => simpa using hr
    | succ i => simpa using ih.2 i (by simpa using h1) (by simpa using h2)

/-! ### queries -/

/-- the node of the request is marked as fetched -/
def tracked (c : Cache) : Req → Prop
  | .po s => s ∈ c.subjTracked
  | .sp o => o ∈ c.objTracked
  | .classes s => s ∈ c.subjTracked

theorem cached_of_tracked (instProp : String) (g : Graph) (c : Cache) (r : Req) (h : tracked c r) :
    (cached instProp g c r).1 = c := by
  cases r <;> simp only [tracked] at h <;> simp [cached, h]

theorem cached_queries_le (instProp : String) (g : Graph) (c : Cache) (r : Req) :
    (cached instProp g c r).1.queries ≤ c.queries + 1 := by
  cases r with
  | po s => by_cases h : s ∈ c.subjTracked <;> simp [cached, h]
  | sp o => by_cases h : o ∈ c.objTracked <;> simp [cached, h]
  | classes s => by_cases h : s ∈ c.subjTracked <;> simp [cached, h]

theorem tracked_cached_self (instProp : String) (g : Graph) (c : Cache) (r : Req) :
    tracked (cached instProp g c r).1 r := by
  cases r with
  | po s => by_cases h : s ∈ c.subjTracked <;> simp [cached, h, tracked]
  | sp o => by_cases h : o ∈ c.objTracked <;> simp [cached, h, tracked]
  | classes s => by_cases h : s ∈ c.subjTracked <;> simp [cached, h, tracked]

theorem tracked_cached_mono (instProp : String) (g : Graph) (c : Cache) (r r' : Req) (h : tracked c r') :
    tracked (cached instProp g c r).1 r' := by
  cases r with
  | po s =>
    by_cases hh : s ∈ c.subjTracked
    · rw [cached_of_tracked instProp g c (Req.po s) hh]; exact h
    · cases r' <;> simp only [tracked] at h <;> simp [cached, hh, tracked, h]
  | sp o =>
    by_cases hh : o ∈ c.objTracked
    · rw [cached_of_tracked instProp g c (Req.sp o) hh]; exact h
    · cases r' <;> simp only [tracked] at h <;> simp [cached, hh, tracked, h]
  | classes s =>
    by_cases hh : s ∈ c.subjTracked
    · rw [cached_of_tracked instProp g c (Req.classes s) hh]; exact h
    · cases r' <;> simp only [tracked] at h <;> simp [cached, hh, tracked, h]

theorem tracked_runCached_mono (instProp : String) (g : Graph) (reqs : List Req) (r' : Req) :
    ∀ c, tracked c r' → tracked (runCached instProp g c reqs).1 r' := by
  induction reqs with
  | nil => intro c h; exact h
  | cons r rs ih =>
    intro c h
    rw [runCached_cons]
    exact ih _ (tracked_cached_mono instProp g c r r' h)

theorem tracked_runCached_of_mem (instProp : String) (g : Graph) (reqs : List Req) (r' : Req) :
    ∀ c, r' ∈ reqs → tracked (runCached instProp g c reqs).1 r' := by
  induction reqs with
  | nil => intro c h; exact absurd h List.not_mem_nil
  | cons r rs ih =>
    intro c h
    rw [runCached_cons]
    rcases List.mem_cons.mp h with e | e
    · subst e
      exact tracked_runCached_mono instProp g rs r' _ (tracked_cached_self instProp g c r')
    · exact ih _ e

theorem runCached_queries_le (instProp : String) (g : Graph) (reqs : List Req) :
    ∀ c, (runCached instProp g c reqs).1.queries ≤ c.queries + reqs.length := by
  induction reqs with
  | nil => intro c; exact Nat.le_refl _
  | cons r rs ih =>
    intro c
    rw [runCached_cons]
    have h1 := ih (cached instProp g c r).1
    have h2 := cached_queries_le instProp g c r
    simp only [List.length_cons]
    omega

theorem runCached_append_fst (instProp : String) (g : Graph) (l l' : List Req) :
    ∀ c, (runCached instProp g c (l ++ l')).1 = (runCached instProp g (runCached instProp g c l).1 l').1 := by
  induction l with
  | nil => intro c; rfl
  | cons r rs ih =>
    intro c
    rw [List.cons_append, runCached_cons, runCached_cons]
    exact ih _

/-! ### `dedupNodes` -/

theorem mem_dedupNodes (l : List String) (x : String) : x ∈ dedupNodes l ↔ x ∈ l := by
  induction l with
  | nil => simp [dedupNodes]
  | cons a l ih =>
    simp only [dedupNodes, List.mem_cons, List.mem_filter, ih]
    by_cases h : x = a
    · simp [h]
    · simp [h]

theorem nodup_dedupNodes (l : List String) : (dedupNodes l).Nodup := by
  induction l with
  | nil => simp [dedupNodes]
  | cons a l ih =>
    simp only [dedupNodes, List.nodup_cons]
    refine ⟨?_, List.Nodup.sublist List.filter_sublist ih⟩
    simp [List.mem_filter]

/-! ### the fetched list, structurally -/

theorem nodup_flatMap_of {α β : Type} (l : List α) (f : α → List β) (hl : l.Nodup)
    (hf : ∀ a ∈ l, (f a).Nodup) (hdisj : ∀ a b x, x ∈ f a → x ∈ f b → a = b) : (l.flatMap f).Nodup := by
  unfold List.Nodup
  rw [List.pairwise_flatMap]
  refine ⟨hf, ?_⟩
  refine List.Pairwise.imp ?_ hl
  intro a b hab x hx y hy e
  subst e
  exact hab (hdisj a b x hx hy)

def directOf (ip : String) (g : Graph) (ts ks : List String) : List Triple :=
  ts.flatMap (poOf g) ++ ks.flatMap (classesOf ip g)

def invOf (ip : String) (g : Graph) (ts ks : List String) : List Triple :=
  ts.flatMap (spOf g) ++ ks.flatMap (classesOf ip g)

def fetchedOf (ip : String) (g : Graph) (inverse : Bool) (ts ks ks' : List String) : List Triple :=
  if inverse then directOf ip g ts ks ++ (invOf ip g ts ks').filter fun t => !(directOf ip g ts ks).contains t
  else directOf ip g ts ks

theorem directRequests_shape (g : Graph) (targets : List String) :
    ∃ reached, directRequests g targets = (dedupNodes targets).map Req.po ++
      ((dedupNodes reached).filter fun k => !(dedupNodes targets).contains k).map Req.classes := ⟨_, rfl⟩

theorem inverseRequests_shape (g : Graph) (targets : List String) :
    ∃ reached, inverseRequests g targets = (dedupNodes targets).map Req.sp ++
      ((dedupNodes reached).filter fun k => !(dedupNodes targets).contains k).map Req.classes := ⟨_, rfl⟩

theorem fetched_eq (ip : String) (g : Graph) (inverse : Bool) (targets : List String) :
    ∃ ks ks', ks.Nodup ∧ (∀ k ∈ ks, k ∉ dedupNodes targets) ∧ (∀ k ∈ ks', k ∉ dedupNodes targets) ∧
      fetched ip g inverse targets = fetchedOf ip g inverse (dedupNodes targets) ks ks' := by
  obtain ⟨r1, h1⟩ := directRequests_shape g targets
  obtain ⟨r2, h2⟩ := inverseRequests_shape g targets
  refine ⟨(dedupNodes r1).filter fun k => !(dedupNodes targets).contains k,
    (dedupNodes r2).filter fun k => !(dedupNodes targets).contains k, ?_, ?_, ?_, ?_⟩
  · exact (nodup_dedupNodes r1).sublist List.filter_sublist
  · intro k hk
    have := (List.mem_filter.mp hk).2
    simpa using this
  · intro k hk
    have := (List.mem_filter.mp hk).2
    simpa using this
  · unfold fetched fetchedOf directOf invOf
    rw [h1, h2]
    simp [List.flatMap_append, List.flatMap_map, remote]

section
variable (ip : String) (g : Graph) (ts ks ks' : List String)

theorem mem_flatMap_poOf (t : Triple) : t ∈ ts.flatMap (poOf g) ↔ t ∈ g ∧ t.s.isNode = true ∧ t.s.key ∈ ts := by
  simp only [List.mem_flatMap, poOf, List.mem_filter, Bool.and_eq_true, beq_iff_eq]
  constructor
  · rintro ⟨a, ha, h1, h2, h3⟩; exact ⟨h1, h2, h3 ▸ ha⟩
  · rintro ⟨h1, h2, h3⟩; exact ⟨_, h3, h1, h2, rfl⟩

theorem mem_flatMap_spOf (t : Triple) : t ∈ ts.flatMap (spOf g) ↔ t ∈ g ∧ t.o.isNode = true ∧ t.o.key ∈ ts := by
  simp only [List.mem_flatMap, spOf, List.mem_filter, Bool.and_eq_true, beq_iff_eq]
  constructor
  · rintro ⟨a, ha, h1, h2, h3⟩; exact ⟨h1, h2, h3 ▸ ha⟩
  · rintro ⟨h1, h2, h3⟩; exact ⟨_, h3, h1, h2, rfl⟩

theorem mem_flatMap_classesOf (t : Triple) :
    t ∈ ks.flatMap (classesOf ip g) ↔ t ∈ g ∧ t.s.isNode = true ∧ t.s.key ∈ ks ∧ t.p = ip := by
  simp only [List.mem_flatMap, classesOf, poOf, List.mem_filter, Bool.and_eq_true, beq_iff_eq]
  constructor
  · rintro ⟨a, ha, ⟨h1, h2, h3⟩, h4⟩; exact ⟨h1, h2, h3 ▸ ha, h4⟩
  · rintro ⟨h1, h2, h3, h4⟩; exact ⟨_, h3, ⟨h1, h2, rfl⟩, h4⟩

theorem directOf_sub (t : Triple) (h : t ∈ directOf ip g ts ks) : t ∈ g := by
  rcases List.mem_append.mp h with h | h
  · exact ((mem_flatMap_poOf g ts t).mp h).1
  · exact ((mem_flatMap_classesOf ip g ks t).mp h).1

theorem invOf_sub (t : Triple) (h : t ∈ invOf ip g ts ks') : t ∈ g := by
  rcases List.mem_append.mp h with h | h
  · exact ((mem_flatMap_spOf g ts t).mp h).1
  · exact ((mem_flatMap_classesOf ip g ks' t).mp h).1

theorem mem_directOf_of_subj (t : Triple) (h1 : t ∈ g) (h2 : t.s.isNode = true) (h3 : t.s.key ∈ ts) :
    t ∈ directOf ip g ts ks :=
  List.mem_append_left _ ((mem_flatMap_poOf g ts t).mpr ⟨h1, h2, h3⟩)

theorem mem_invOf_of_obj (t : Triple) (h1 : t ∈ g) (h2 : t.o.isNode = true) (h3 : t.o.key ∈ ts) :
    t ∈ invOf ip g ts ks' :=
  List.mem_append_left _ ((mem_flatMap_spOf g ts t).mpr ⟨h1, h2, h3⟩)

theorem nodup_flatMap_poOf (hg : g.Nodup) (hts : ts.Nodup) : (ts.flatMap (poOf g)).Nodup := by
  apply nodup_flatMap_of _ _ hts
  · intro a _; exact hg.sublist List.filter_sublist
  · intro a b x hx hy
    simp only [poOf, List.mem_filter, Bool.and_eq_true, beq_iff_eq] at hx hy
    exact hx.2.2.symm.trans hy.2.2

theorem nodup_flatMap_spOf (hg : g.Nodup) (hts : ts.Nodup) : (ts.flatMap (spOf g)).Nodup := by
  apply nodup_flatMap_of _ _ hts
  · intro a _; exact hg.sublist List.filter_sublist
  · intro a b x hx hy
    simp only [spOf, List.mem_filter, Bool.and_eq_true, beq_iff_eq] at hx hy
    exact hx.2.2.symm.trans hy.2.2

theorem nodup_flatMap_classesOf (hg : g.Nodup) (hks : ks.Nodup) : (ks.flatMap (classesOf ip g)).Nodup := by
  apply nodup_flatMap_of _ _ hks
  · intro a _; exact (hg.sublist List.filter_sublist).sublist List.filter_sublist
  · intro a b x hx hy
    simp only [classesOf, poOf, List.mem_filter, Bool.and_eq_true, beq_iff_eq] at hx hy
    exact hx.1.2.2.symm.trans hy.1.2.2

theorem directOf_nodup (hg : g.Nodup) (hts : ts.Nodup) (hks : ks.Nodup) (hdisj : ∀ k ∈ ks, k ∉ ts) :
    (directOf ip g ts ks).Nodup := by
  unfold directOf
  rw [List.nodup_append]
  refine ⟨nodup_flatMap_poOf g ts hg hts, nodup_flatMap_classesOf ip g ks hg hks, ?_⟩
  intro a ha b hb e
  subst e
  have h1 := (mem_flatMap_poOf g ts a).mp ha
  have h2 := (mem_flatMap_classesOf ip g ks a).mp hb
  exact hdisj _ h2.2.2.1 h1.2.2

theorem fetchedOf_sub (inverse : Bool) (t : Triple) (h : t ∈ fetchedOf ip g inverse ts ks ks') : t ∈ g := by
  unfold fetchedOf at h
  cases inverse with
  | false => exact directOf_sub ip g ts ks t (by simpa using h)
  | true =>
    simp only [if_true] at h
    rcases List.mem_append.mp h with h | h
    · exact directOf_sub ip g ts ks t h
    · exact invOf_sub ip g ts ks' t (List.mem_filter.mp h).1

theorem mem_fetchedOf_subj (inverse : Bool) (t : Triple) (h2 : t.s.isNode = true) (h3 : t.s.key ∈ ts) :
    t ∈ fetchedOf ip g inverse ts ks ks' ↔ t ∈ g := by
  refine ⟨fetchedOf_sub ip g ts ks ks' inverse t, ?_⟩
  intro h1
  have hd := mem_directOf_of_subj ip g ts ks t h1 h2 h3
  unfold fetchedOf
  cases inverse with
  | false => simpa using hd
  | true => simp only [if_true]; exact List.mem_append_left _ hd

theorem mem_fetchedOf_obj (t : Triple) (h2 : t.o.isNode = true) (h3 : t.o.key ∈ ts) :
    t ∈ fetchedOf ip g true ts ks ks' ↔ t ∈ g := by
  refine ⟨fetchedOf_sub ip g ts ks ks' true t, ?_⟩
  intro h1
  have hi := mem_invOf_of_obj ip g ts ks' t h1 h2 h3
  unfold fetchedOf
  simp only [if_true]
  by_cases hd : t ∈ directOf ip g ts ks
  · exact List.mem_append_left _ hd
  · exact List.mem_append_right _ (List.mem_filter.mpr ⟨hi, by simpa using hd⟩)

/-- the outgoing triples of a target node are fetched exactly once -/
theorem fetchedOf_filter_subj_perm (hg : g.Nodup) (hts : ts.Nodup) (hks : ks.Nodup) (hdisj : ∀ k ∈ ks, k ∉ ts)
    (inverse : Bool) (n : String) (hn : n ∈ ts) (q : Triple → Bool)
    (hq : ∀ t, q t = true → t.s.isNode = true ∧ t.s.key = n) :
    ((fetchedOf ip g inverse ts ks ks').filter q).Perm (g.filter q) := by
  have hnd : ((fetchedOf ip g inverse ts ks ks').filter q).Nodup := by
    have hD : ((directOf ip g ts ks).filter q).Nodup :=
      (directOf_nodup ip g ts ks hg hts hks hdisj).sublist List.filter_sublist
    unfold fetchedOf
    cases inverse with
    | false => simpa using hD
    | true =>
      simp only [if_true]
      have hI : ((invOf ip g ts ks').filter fun t => !(directOf ip g ts ks).contains t).filter q = [] := by
        rw [List.filter_eq_nil_iff]
        intro t ht hqt
        have h1 := List.mem_filter.mp ht
        have hd := mem_directOf_of_subj ip g ts ks t (invOf_sub ip g ts ks' t h1.1) (hq t hqt).1
          ((hq t hqt).2 ▸ hn)
        have : ¬ t ∈ directOf ip g ts ks := by simpa using h1.2
        exact this hd
      rw [List.filter_append, hI, List.append_nil]
      exact hD
  rw [List.perm_ext_iff_of_nodup hnd (hg.sublist List.filter_sublist)]
  intro t
  simp only [List.mem_filter]
  constructor
  · rintro ⟨h1, h2⟩; exact ⟨fetchedOf_sub ip g ts ks ks' inverse t h1, h2⟩
  · rintro ⟨h1, h2⟩
    exact ⟨(mem_fetchedOf_subj ip g ts ks ks' inverse t (hq t h2).1 ((hq t h2).2 ▸ hn)).mpr h1, h2⟩

/-- the incoming triples of a target node, other than instantiation triples, are fetched exactly once -/
theorem fetchedOf_filter_obj_perm (hg : g.Nodup) (hts : ts.Nodup) (hks : ks.Nodup) (hdisj : ∀ k ∈ ks, k ∉ ts)
    (n : String) (hn : n ∈ ts) (q : Triple → Bool)
    (hq : ∀ t, q t = true → t.o.isNode = true ∧ t.o.key = n ∧ t.p ≠ ip) :
    ((fetchedOf ip g true ts ks ks').filter q).Perm (g.filter q) := by
  have hnd : ((fetchedOf ip g true ts ks ks').filter q).Nodup := by
    have hD : ((directOf ip g ts ks).filter q).Nodup :=
      (directOf_nodup ip g ts ks hg hts hks hdisj).sublist List.filter_sublist
    unfold fetchedOf
    simp only [if_true]
    rw [List.filter_append, List.nodup_append]
    refine ⟨hD, ?_, ?_⟩
    · have hsub : (((invOf ip g ts ks').filter fun t => !(directOf ip g ts ks).contains t).filter q).Sublist
          ((invOf ip g ts ks').filter q) := List.Sublist.filter q List.filter_sublist
      refine List.Nodup.sublist hsub ?_
      unfold invOf
      have hC : (ks'.flatMap (classesOf ip g)).filter q = [] := by
        rw [List.filter_eq_nil_iff]
        intro t ht hqt
        exact (hq t hqt).2.2 ((mem_flatMap_classesOf ip g ks' t).mp ht).2.2.2
      rw [List.filter_append, hC, List.append_nil]
      exact (nodup_flatMap_spOf g ts hg hts).sublist List.filter_sublist
    · intro a ha b hb e
      subst e
      have h1 := (List.mem_filter.mp (List.mem_filter.mp hb).1).2
      have : ¬ a ∈ directOf ip g ts ks := by simpa using h1
      exact this (List.mem_filter.mp ha).1
  rw [List.perm_ext_iff_of_nodup hnd (hg.sublist List.filter_sublist)]
  intro t
  simp only [List.mem_filter]
  constructor
  · rintro ⟨h1, h2⟩; exact ⟨fetchedOf_sub ip g ts ks ks' true t h1, h2⟩
  · rintro ⟨h1, h2⟩
    exact ⟨(mem_fetchedOf_obj ip g ts ks ks' t (hq t h2).1 ((hq t h2).2.1 ▸ hn)).mpr h1, h2⟩

end

/-! ### the counts over the fetched list -/

theorem outCount_fetched (cfg : Config) (sel : Selection) (g : Graph) (hg : g.Nodup) (targets : List String)
    (n : String) (hn : n ∈ targets) (p ty : String) :
    outCount cfg sel (fetched cfg.instProp g cfg.inverse targets) n p ty = outCount cfg sel g n p ty := by
  obtain ⟨ks, ks', hks, hd, _, he⟩ := fetched_eq cfg.instProp g cfg.inverse targets
  rw [he]
  unfold outCount visible
  rw [List.filter_filter, List.filter_filter]
  apply List.Perm.sum_nat
  apply List.Perm.map
  apply fetchedOf_filter_subj_perm cfg.instProp g _ ks ks' hg (nodup_dedupNodes targets) hks hd cfg.inverse n
    ((mem_dedupNodes targets n).mpr hn)
  intro t ht
  simp only [Bool.and_eq_true, beq_iff_eq] at ht
  exact ⟨ht.1.1.1, ht.1.1.2⟩

theorem inCount_fetched (cfg : Config) (sel : Selection) (g : Graph) (hg : g.Nodup) (targets : List String)
    (n : String) (hn : n ∈ targets) (p ty : String) (hp : p ≠ cfg.instProp) :
    inCount cfg sel (fetched cfg.instProp g true targets) n p ty = inCount cfg sel g n p ty := by
  obtain ⟨ks, ks', hks, hd, _, he⟩ := fetched_eq cfg.instProp g true targets
  rw [he]
  unfold inCount visible
  rw [List.filter_filter, List.filter_filter]
  apply List.Perm.sum_nat
  apply List.Perm.map
  apply fetchedOf_filter_obj_perm cfg.instProp g _ ks ks' hg (nodup_dedupNodes targets) hks hd n
    ((mem_dedupNodes targets n).mpr hn)
  intro t ht
  simp only [Bool.and_eq_true, beq_iff_eq] at ht
  exact ⟨ht.1.1.1, ht.1.1.2, fun e => hp (ht.1.2.symm.trans e)⟩

/-- for the instantiation property an incoming triple may be fetched twice (by the `sp` request of the target and by
the `classes` request of its subject): the count may be larger, but it is positive for the same nodes -/
theorem inCount_fetched_pos (cfg : Config) (sel : Selection) (g : Graph) (targets : List String)
    (n : String) (hn : n ∈ targets) (p ty : String) :
    1 ≤ inCount cfg sel (fetched cfg.instProp g true targets) n p ty ↔ 1 ≤ inCount cfg sel g n p ty := by
  obtain ⟨ks, ks', _, _, _, he⟩ := fetched_eq cfg.instProp g true targets
  rw [he]
  unfold inCount visible
  rw [List.filter_filter, List.filter_filter]
  show 0 < _ ↔ 0 < _
  rw [List.sum_pos_iff_exists_pos_nat, List.sum_pos_iff_exists_pos_nat]
  simp only [List.mem_map, List.mem_filter]
  have hmem : ∀ t : Triple, (t.o.isNode && t.o.key == n && t.p == p && Profiler.passesFilter cfg t) = true →
      (t ∈ fetchedOf cfg.instProp g true (dedupNodes targets) ks ks' ↔ t ∈ g) := by
    intro t ht
    simp only [Bool.and_eq_true, beq_iff_eq] at ht
    exact mem_fetchedOf_obj cfg.instProp g _ ks ks' t ht.1.1.1 (ht.1.1.2 ▸ (mem_dedupNodes targets n).mpr hn)
  constructor
  · rintro ⟨x, ⟨t, ⟨h1, h2⟩, h3⟩, h4⟩
    exact ⟨x, ⟨t, ⟨(hmem t h2).mp h1, h2⟩, h3⟩, h4⟩
  · rintro ⟨x, ⟨t, ⟨h1, h2⟩, h3⟩, h4⟩
    exact ⟨x, ⟨t, ⟨(hmem t h2).mpr h1, h2⟩, h3⟩, h4⟩

theorem cardMatches_instProp (cfg : Config) (card : Card) (k1 k2 : Nat) (h : 1 ≤ k1 ↔ 1 ≤ k2) :
    cardMatches cfg cfg.instProp card k1 = cardMatches cfg cfg.instProp card k2 := by
  unfold cardMatches
  simp only [beq_self_eq_true, if_true]
  by_cases h1 : 1 ≤ k1
  · simp [h1, h.mp h1]
  · have h2 : ¬ 1 ≤ k2 := fun h2 => h1 (h.mpr h2)
    simp [h1, h2]

/-! ### the theorems -/

/-- **the cache is transparent**: for a disciplined run of requests over a served graph without repeated triples, every
answer given with the cache has exactly the rows the endpoint gives (as a list up to order: the local graph is a set) -/
theorem cached_answers_perm (instProp : String) (g : Graph) (hg : g.Nodup) (reqs : List Req) (hd : disciplined reqs) :
    (runCached instProp g {} reqs).2.length = reqs.length ∧
    ∀ i (h1 : i < (runCached instProp g {} reqs).2.length) (h2 : i < reqs.length),
      ((runCached instProp g {} reqs).2[i]).Perm (remote instProp g reqs[i]) := by
  refine forall₂_getElem (R := fun (a : List Triple) r => a.Perm (remote instProp g r))
    (runCached_forall₂ instProp g hg reqs [] {} ?_ ?_)
  · exact ⟨List.nodup_nil, fun t ht => absurd ht List.not_mem_nil, fun s hs => absurd hs List.not_mem_nil,
      fun o ho => absurd ho List.not_mem_nil⟩
  · simpa using hd

/-- **caching never issues more queries than no caching** (any run of requests, disciplined or not) -/
theorem cache_queries_le (instProp : String) (g : Graph) (reqs : List Req) :
    (runCached instProp g {} reqs).1.queries ≤ (runUncached instProp g reqs).1 := by
  have h := runCached_queries_le instProp g reqs {}
  simpa [runUncached] using h

/-- a request that has been made before costs no further query -/
theorem repeated_request_is_free (instProp : String) (g : Graph) (reqs : List Req) (r : Req) (h : r ∈ reqs) :
    (runCached instProp g {} (reqs ++ [r])).1.queries = (runCached instProp g {} reqs).1.queries := by
  rw [runCached_append_fst, runCached_cons]
  show (cached instProp g (runCached instProp g {} reqs).1 r).1.queries = _
  rw [cached_of_tracked instProp g _ r (tracked_runCached_of_mem instProp g reqs r {} h)]

/-- the requests of the neighbourhood fetch are disciplined -/
theorem fetch_disciplined (g : Graph) (targets : List String) :
    disciplined (directRequests g targets ++ inverseRequests g targets) := by
  intro s hc hp
  have h1 : s ∈ dedupNodes targets := by
    simp [directRequests, inverseRequests] at hp
    exact hp
  have h2 : s ∉ dedupNodes targets := by
    simp [directRequests, inverseRequests] at hc
    rcases hc with hc | hc
    · exact hc.2
    · exact hc.2
  exact h2 h1

/-- **the fetched neighbourhood carries every figure**: for a selection whose nodes are among the target nodes, every
count computed from the triples the endpoint reader yields equals the count computed from the whole served graph -/
theorem fetched_suffices (cfg : Config) (sel : Selection) (g : Graph) (hg : g.Nodup) (targets : List String)
    (hsel : ∀ n ∈ Dict.keys sel, n ∈ targets)
    (c : String) (inv : Bool) (p ty : String) (card : Card) (hinv : inv = true → cfg.inverse = true) :
    countOver cfg sel (fetched cfg.instProp g cfg.inverse targets) c inv p ty card = countOver cfg sel g c inv p ty card := by
  unfold countOver
  apply List.countP_congr
  intro n hn
  have hn' : n ∈ targets := hsel n (List.mem_filter.mp hn).1
  cases inv with
  | false =>
    simp only [Bool.false_eq_true, if_false]
    rw [outCount_fetched cfg sel g hg targets n hn' p ty]
  | true =>
    simp only [if_true]
    have hci : cfg.inverse = true := hinv rfl
    rw [hci]
    by_cases hp : p = cfg.instProp
    · subst hp
      rw [cardMatches_instProp cfg card _ _ (inCount_fetched_pos cfg sel g targets n hn' cfg.instProp ty)]
    · rw [inCount_fetched cfg sel g hg targets n hn' p ty hp]

end Endpoint
end Shexer
