import ShexerModel.Lemmas.Pass2Lemmas
/-! Pass 2 against the declarative counts: for a selected node, the stored numbers are
`Spec.outCount` / `Spec.inCount`; keys and well-formedness of the dictionary. -/
namespace Shexer
namespace Profiler
open Dict

theorem sum_map_ite {α : Type} (l : List α) (c : α → Bool) (f : α → Nat) :
    (l.map fun x => if c x = true then f x else 0).sum = ((l.filter c).map f).sum := by
  induction l with
  | nil => rfl
  | cons x xs ih =>
    by_cases h : c x = true
    · simp [List.filter_cons, h, ih]
    · have h' : c x = false := by simpa using h
      simp [List.filter_cons, h', ih]

theorem get?_adapt (inst : Tracker.InstDict) (k : String) :
    Dict.get? (adapt inst) k = (Dict.get? inst k).map fun c => { classes := c } := by
  unfold adapt
  exact Dict.get?_map_snd inst (fun _ c => ({ classes := c } : NodeInfo)) k

theorem cls_adapt (inst : Tracker.InstDict) (k : String) : cls (adapt inst) k = Dict.get? inst k := by
  unfold cls; rw [get?_adapt]; cases Dict.get? inst k <;> rfl

theorem keys_adapt (inst : Tracker.InstDict) : Dict.keys (adapt inst) = Dict.keys inst := by
  unfold adapt
  exact Dict.keys_map_snd inst (fun _ c => ({ classes := c } : NodeInfo))

section
variable (cfg : Config) (inst : Tracker.InstDict) (g : Graph)

theorem shapesOf_d0 (k : String) : shapesOf (adapt inst) k = Spec.shapesOfValue inst k := by
  unfold shapesOf Spec.shapesOfValue Spec.classesIn
  rw [get?_adapt]
  cases Dict.get? inst k <;> simp

theorem subjBumps_d0 (t : Triple) : subjBumps cfg (adapt inst) t = Spec.objTypes cfg inst t.p t.o := by
  unfold subjBumps Spec.objTypes
  rw [shapesOf_d0]

theorem objBumps_d0 (t : Triple) : objBumps cfg (adapt inst) t = Spec.subjTypes cfg inst t.p t.s := by
  unfold objBumps Spec.subjTypes
  rw [shapesOf_d0]

theorem isInstance_d0 (t : Term) : isInstance (adapt inst) t = (t.isNode && Dict.contains inst t.key) := by
  unfold isInstance Dict.contains
  rw [get?_adapt]
  cases Dict.get? inst t.key <;> simp

/-- **pass 2, outgoing**: the number stored for a selected node is the declarative count -/
theorem dcount_pass2 (n p ty : String) (hn : Dict.contains inst n = true) :
    dcount (pass2 cfg inst g) n p ty = Spec.outCount cfg inst g n p ty := by
  unfold pass2
  obtain ⟨_, hd, _⟩ := foldl_step_spec cfg (g.filter (passesFilter cfg)) (adapt inst)
  rw [hd]
  have h0 : dcount (adapt inst) n p ty = 0 := by
    unfold dcount; rw [get?_adapt]
    cases Dict.get? inst n <;> simp [fget, fget?]
  rw [h0, Nat.zero_add]
  have hR : Spec.outCount cfg inst g n p ty = ((g.filter (passesFilter cfg)).map fun t =>
      if (t.s.isNode && t.s.key == n && t.p == p) = true then (Spec.objTypes cfg inst p t.o).count ty else 0).sum := by
    unfold Spec.outCount Spec.visible; rw [sum_map_ite]
  rw [hR]
  congr 1
  apply List.map_congr_left
  intro t _
  unfold dContrib
  rw [isInstance_d0, subjBumps_d0]
  by_cases h1 : t.s.key = n
  · subst h1
    by_cases h2 : t.p = p
    · subst h2; simp [hn]
    · simp [h2]
  · simp [h1]

/-- **pass 2, incoming** (with `inverse_paths`) -/
theorem icount_pass2 (n p ty : String) (hn : Dict.contains inst n = true) (hinv : cfg.inverse = true) :
    icount (pass2 cfg inst g) n p ty = Spec.inCount cfg inst g n p ty := by
  unfold pass2
  obtain ⟨_, _, hi⟩ := foldl_step_spec cfg (g.filter (passesFilter cfg)) (adapt inst)
  rw [hi]
  have h0 : icount (adapt inst) n p ty = 0 := by
    unfold icount; rw [get?_adapt]
    cases Dict.get? inst n <;> simp [fget, fget?]
  rw [h0, Nat.zero_add]
  have hR : Spec.inCount cfg inst g n p ty = ((g.filter (passesFilter cfg)).map fun t =>
      if (t.o.isNode && t.o.key == n && t.p == p) = true then (Spec.subjTypes cfg inst p t.s).count ty else 0).sum := by
    unfold Spec.inCount Spec.visible; rw [sum_map_ite]
  rw [hR]
  congr 1
  apply List.map_congr_left
  intro t _
  unfold iContrib
  rw [isInstance_d0, objBumps_d0]
  by_cases h1 : t.o.key = n
  · subst h1
    by_cases h2 : t.p = p
    · subst h2; simp [hn, hinv]
    · simp [h2]
  · simp [h1]

/-- without `inverse_paths` no incoming feature is ever recorded -/
theorem icount_pass2_noinv (n p ty : String) (hinv : cfg.inverse = false) :
    icount (pass2 cfg inst g) n p ty = 0 := by
  unfold pass2
  obtain ⟨_, _, hi⟩ := foldl_step_spec cfg (g.filter (passesFilter cfg)) (adapt inst)
  rw [hi]
  have h0 : icount (adapt inst) n p ty = 0 := by
    unfold icount; rw [get?_adapt]
    cases Dict.get? inst n <;> simp [fget, fget?]
  rw [h0, Nat.zero_add]
  have : ∀ t, iContrib cfg (adapt inst) t n p ty = 0 := by
    intro t; unfold iContrib; simp [hinv]
  generalize g.filter (passesFilter cfg) = l
  induction l with
  | nil => rfl
  | cons x xs ih =>
    simp only [List.map_cons, List.sum_cons]
    rw [this x, Nat.zero_add]
    exact ih

theorem cls_pass2 (k : String) : cls (pass2 cfg inst g) k = Dict.get? inst k := by
  unfold pass2
  rw [(foldl_step_spec cfg _ _).1 k, cls_adapt]

end

end Profiler
end Shexer
