import ShexerModel.Lemmas.GenStrTtlScanA
import ShexerModel.Lemmas.GenStrTtlScanB
import ShexerModel.Lemmas.GenStrTune2
/-! `_next_line_token` of the streaming Turtle reader, regenerated (`GenS.ttl_next_line_token`: skip blanks, then a closure character, a
cornered IRI, a quoted literal or a run up to the next blank; returns the token and the index to go on from), against the suffix-based
`Ttl.nextToken` of the hand-written model (token and rest of the line). -/
namespace Shexer.GenStrTtlTok
open Shexer PyOps Shexer.GenStrTune2

theorem parse_cornered_eq (resolve : List Char → List Char → List Char) (ctx : Ttl.Ctx) (tok : List Char) :
    GenS.ttl_parse_cornered_element resolve ctx.base tok = Except.ok (Ttl.parseCornered resolve ctx tok) := by
  unfold GenS.ttl_parse_cornered_element Ttl.parseCornered
  cases ctx.base with
  | none => rfl
  | some b =>
    have h : PyOps.slice tok (some (1 : Int)) (some (-(1 : Int))) = (tok.drop 1).dropLast := GenStr.slice_from_to_neg1 tok 1
    simp only [h, pure, Except.pure]
    rfl

open Shexer.GenStrNtTok Shexer.GenStrTtlScan

/-- the body of the blank-skipping loop of `GenS.ttl_next_line_token` (same text) -/
def ttk_skipBody (a_line : List Char) : Int → Except PyExc (Ctl Int (Option (List Char × Int))) := (fun start_index => do
  if !(← (do
  if !(← (do
  pure (decide (start_index < ((a_line).length : Int))))) then pure false else (do
  let c_1 ← PyOps.index a_line start_index
  pure (c_1 == ' ')))) then pure (PyOps.Ctl.brk start_index) else (do
  let start_index := (start_index + (1 : Int))
  pure (PyOps.Ctl.next start_index)))

/-- what `GenS.ttl_next_line_token` does after the loop (same text) -/
def ttk_post (resolve : List Char → List Char → List Char) (fuel : Nat) (self_base : Option (List Char)) (a_line : List Char)
    (w_2 : Sum Int (Option (List Char × Int))) : Except PyExc (Option (List Char × Int)) :=
  match w_2 with
  | .inr v => pure v
  | .inl start_index => (do
  if (decide (start_index ≥ ((a_line).length : Int))) then (do
  pure none)
  else (do
  let c_3 ← PyOps.index a_line start_index
  if ((",;.".toList).contains c_3) then (do
  let c_4 ← PyOps.index a_line start_index
  pure (some ([c_4], (start_index + (1 : Int)))))
  else (do
  let c_5 ← PyOps.index a_line start_index
  if (c_5 == '<') then (do
  let end_index := (PyOps.findAt a_line ">".toList start_index)
  let r_6 ← GenS.ttl_parse_cornered_element resolve self_base (PyOps.slice a_line (some start_index) (some (end_index + (1 : Int))))
  pure (some (r_6, (end_index + (1 : Int)))))
  else (do
  let c_7 ← PyOps.index a_line start_index
  if (c_7 == '"') then (do
  let r_8 ← GenS.ttl_find_next_quoted_literal_ending fuel a_line start_index
  let end_index := r_8
  pure (some ((PyOps.slice a_line (some start_index) (some (end_index + (1 : Int)))), (end_index + (1 : Int)))))
  else (do
  let r_9 ← GenS.ttl_find_next_blank a_line start_index
  let end_index := r_9
  pure (some ((PyOps.slice a_line (some start_index) (some end_index)), (end_index + (1 : Int)))))))))

theorem ttk_unfold (resolve : List Char → List Char → List Char) (fuel : Nat) (base : Option (List Char)) (s : List Char) (st : Int) :
    GenS.ttl_next_line_token resolve fuel base s st = (whileFuel (ttk_skipBody s) fuel st >>= ttk_post resolve fuel base s) := by
  rfl

theorem ttk_skipBody_ge (s : List Char) (k : Nat) (h : s.length ≤ k) : ttk_skipBody s (k : Int) = Except.ok (Ctl.brk (k : Int)) := by
  unfold ttk_skipBody
  have : ¬ ((k : Int) < (s.length : Int)) := by omega
  simp [this]
  rfl

theorem ttk_skipBody_lt (s : List Char) (k : Nat) (h : k < s.length) : ttk_skipBody s (k : Int) =
    Except.ok (if s[k] = ' ' then Ctl.next (((k + 1 : Nat) : Int)) else Ctl.brk (k : Int)) := by
  unfold ttk_skipBody
  have hlt : ((k : Int) < (s.length : Int)) := by omega
  have e1 : (k : Int) + 1 = ((k + 1 : Nat) : Int) := by omega
  simp only [hlt, index_nat s k h, decide_true, Bool.not_true, pure, Except.pure, bind, Except.bind,
    Bool.false_eq_true, if_false, e1]
  by_cases h1 : s[k] = ' '
  · simp [h1]
  · simp [h1]

theorem ttk_skip_loop (s : List Char) : ∀ (fuel k : Nat), 1 ≤ fuel → s.length + 1 ≤ fuel + k →
    whileFuel (ttk_skipBody s) fuel (k : Int) =
      Except.ok (Sum.inl (((k + ((s.drop k).takeWhile (· = ' ')).length : Nat) : Int))) := by
  intro fuel
  induction fuel with
  | zero => intro k h; omega
  | succ fuel ih =>
    intro k h1 h2
    by_cases hk : k < s.length
    · have hb := ttk_skipBody_lt s k hk
      rw [drop_cons s k hk]
      by_cases hc : s[k] = ' '
      · rw [if_pos hc] at hb
        rw [ntB_whileFuel_next _ _ _ _ hb, ih (k + 1) (by omega) (by omega)]
        have hp : (decide (s[k] = ' ')) = true := by simp [hc]
        rw [List.takeWhile_cons_of_pos (p := fun x => decide (x = ' ')) hp]
        simp only [List.length_cons]
        congr 3
        omega
      · rw [if_neg hc] at hb
        rw [ntB_whileFuel_brk _ _ _ _ hb]
        have hp : ¬ (decide (s[k] = ' ')) = true := by simp [hc]
        rw [List.takeWhile_cons_of_neg (p := fun x => decide (x = ' ')) hp]
        simp
    · rw [ntB_whileFuel_brk _ _ _ _ (ttk_skipBody_ge s k (by omega)), List.drop_eq_nil_of_le (by omega)]
      simp

theorem ttk_cut (s tok rest : List Char) (k : Nat) (h : s.drop k = tok ++ rest) :
    slice s (some (k : Int)) (some ((k + tok.length : Nat) : Int)) = tok ∧ s.drop (k + tok.length) = rest := by
  rw [ntB_slice_nat, ← List.drop_drop, h]
  refine ⟨by simp, by simp⟩

theorem ttk_closure_eq (c : Char) : (",;.".toList).contains c = Ttl.isClosure c := by
  show [',', ';', '.'].contains c = _
  simp [Ttl.isClosure, Bool.or_assoc]

theorem ttk_post_nil (resolve : List Char → List Char → List Char) (fuel : Nat) (base : Option (List Char)) (s : List Char) (k : Nat)
    (h : s.length ≤ k) : ttk_post resolve fuel base s (.inl (k : Int)) = Except.ok none := by
  have : ((k : Int) ≥ (s.length : Int)) := by omega
  simp only [ttk_post, this, decide_true, if_true]
  rfl

theorem ttk_post_cons (resolve : List Char → List Char → List Char) (fuel : Nat) (base : Option (List Char)) (s : List Char) (k : Nat)
    (c : Char) (hget : s[k]? = some c) :
    ttk_post resolve fuel base s (.inl (k : Int)) =
      if Ttl.isClosure c = true then Except.ok (some ([c], ((k + 1 : Nat) : Int)))
      else if c = '<' then
        (GenS.ttl_parse_cornered_element resolve base (slice s (some (k : Int)) (some (findAt s ['>'] (k : Int) + 1))) >>= fun r =>
          Except.ok (some (r, findAt s ['>'] (k : Int) + 1)))
      else if c = '"' then
        (GenS.ttl_find_next_quoted_literal_ending fuel s (k : Int) >>= fun e =>
          Except.ok (some (slice s (some (k : Int)) (some (e + 1)), e + 1)))
      else (GenS.ttl_find_next_blank s (k : Int) >>= fun e => Except.ok (some (slice s (some (k : Int)) (some e), e + 1))) := by
  have hk : k < s.length := by
    rcases Nat.lt_or_ge k s.length with h' | h'
    · exact h'
    · rw [List.getElem?_eq_none h'] at hget; cases hget
  have hnot : ¬ ((k : Int) ≥ (s.length : Int)) := by omega
  have e1 : (k : Int) + 1 = ((k + 1 : Nat) : Int) := by omega
  have hq : ">".toList = ['>'] := rfl
  simp only [ttk_post, bind, Except.bind, pure, Except.pure, ntB_index_nat _ _ _ hget, hnot, decide_false, Bool.false_eq_true,
    if_false, ttk_closure_eq, beq_iff_eq, hq]
  by_cases c1 : Ttl.isClosure c = true
  · simp only [c1, if_true, e1]
  · simp only [c1, Bool.false_eq_true, if_false]

theorem ttk_model_nil (resolve : List Char → List Char → List Char) (ctx : Ttl.Ctx) (l : List Char)
    (h : l.dropWhile (· = ' ') = []) : Ttl.nextToken resolve ctx l = Except.ok none := by
  unfold Ttl.nextToken; rw [h]; rfl

theorem ttk_model_cons (resolve : List Char → List Char → List Char) (ctx : Ttl.Ctx) (l : List Char) (c : Char) (t : List Char)
    (h : l.dropWhile (· = ' ') = c :: t) :
    Ttl.nextToken resolve ctx l =
      if Ttl.isClosure c = true then Except.ok (some ([c], t))
      else if c = '<' then
        match Nt.toCorner (c :: t) with
        | some (tok, rest) => Except.ok (some (Ttl.parseCornered resolve ctx tok, rest))
        | none => Except.error .indexError
      else if c = '"' then
        match Nt.closing t with
        | none => Except.error (.valueError "Can`t find quotes matching")
        | some (content, rest) =>
          match rest with
          | [] => Except.ok (some ('"' :: content ++ ['"'], []))
          | d :: _ =>
            if d = ' ' then Except.ok (some ('"' :: content ++ ['"'], rest))
            else if (d = '^' || d = '@') = true then
              Except.ok (some ('"' :: content ++ ['"'] ++ rest.takeWhile (· != ' '), rest.dropWhile (· != ' ')))
            else Except.error (.valueError "Malformed literal")
      else Except.ok (some (Ttl.toSpace (c :: t))) := by
  unfold Ttl.nextToken; rw [h]; rfl

/-- what the conclusion does to a returned pair -/
def ttk_view (s : List Char) : Option (List Char × Int) → Option (List Char × List Char) :=
  Option.map fun p => (p.1, s.drop p.2.toNat)

theorem ttk_view_some (s tok : List Char) (n : Nat) : ttk_view s (some (tok, (n : Int))) = some (tok, s.drop n) := by
  simp [ttk_view]

theorem ttk_post_eq (resolve : List Char → List Char → List Char) (ctx : Ttl.Ctx) (s : List Char) (fuel k : Nat)
    (hf : s.length + 1 ≤ fuel) (hns : ∀ t, s.drop k ≠ ' ' :: t)
    (hc : ∀ t, s.drop k = '<' :: t → Nt.toCorner ('<' :: t) ≠ none) :
    (ttk_post resolve fuel ctx.base s (.inl (k : Int))).map (ttk_view s) =
      (Ttl.nextToken resolve ctx (s.drop k)).mapError excOfTtl := by
  by_cases hk : k < s.length
  · have hd := drop_cons s k hk
    have hget : s[k]? = some s[k] := List.getElem?_eq_getElem hk
    generalize s[k] = c at hd hget
    have hcs : ¬ c = ' ' := fun h => hns _ (by rw [hd, h])
    have hdw : (s.drop k).dropWhile (· = ' ') = c :: s.drop (k + 1) := by
      rw [hd, List.dropWhile_cons_of_neg (by simp [hcs])]
    rw [ttk_post_cons resolve fuel ctx.base s k c hget, ttk_model_cons resolve ctx _ c _ hdw]
    by_cases c1 : Ttl.isClosure c = true
    · rw [if_pos c1, if_pos c1]
      simp only [Except.map, Except.mapError, ttk_view_some]
    · rw [if_neg c1, if_neg c1]
      by_cases c2 : c = '<'
      · rw [if_pos c2, if_pos c2]
        subst c2
        rw [← hd]
        cases hco : Nt.toCorner (s.drop k) with
        | none => exact absurd (hd ▸ hco) (hc _ hd)
        | some p =>
          obtain ⟨tok, rest⟩ := p
          obtain ⟨s1, s2⟩ := ntB_toCorner_spec _ _ _ hco
          obtain ⟨u1, u2⟩ := ttk_cut s tok rest k s1
          have e : ((k + tok.length : Nat) : Int) - 1 + 1 = ((k + tok.length : Nat) : Int) := by omega
          rw [ntB_findAt_corner s k (by omega), hco]
          simp only [e, u1, parse_cornered_eq, bind, Except.bind, Except.map, Except.mapError, ttk_view_some, u2]
      · rw [if_neg c2, if_neg c2]
        by_cases c3 : c = '"'
        · rw [if_pos c3, if_pos c3]
          subst c3
          rw [quoted_literal_ending_eq s k fuel hget hf]
          cases hcl : Nt.closing (s.drop (k + 1)) with
          | none => rfl
          | some p =>
            obtain ⟨content, rest⟩ := p
            have hsp := ntB_closing_spec _ _ _ hcl
            have hsplit : s.drop k = ('"' :: content ++ ['"']) ++ rest := by
              rw [hd, hsp]; simp
            have hlen : ('"' :: content ++ ['"']).length = content.length + 2 := by simp
            obtain ⟨u1, u2⟩ := ttk_cut s _ rest k hsplit
            have e : ((k + 1 + content.length : Nat) : Int) + 1 = ((k + ('"' :: content ++ ['"']).length : Nat) : Int) := by
              rw [hlen]; omega
            cases rest with
            | nil =>
              simp only [e, u1, u2, bind, Except.bind, Except.map, Except.mapError, ttk_view_some]
            | cons d r =>
              simp only []
              by_cases d1 : d = ' '
              · simp only [d1, if_true, e, u1, u2, bind, Except.bind, Except.map, Except.mapError, ttk_view_some]
              · simp only [d1, if_false]
                by_cases d2 : (d = '^' || d = '@') = true
                · simp only [d2, if_true]
                  have hsplit2 : s.drop k = (('"' :: content ++ ['"']) ++ (d :: r).takeWhile (· != ' ')) ++ (d :: r).dropWhile (· != ' ') := by
                    rw [List.append_assoc, List.takeWhile_append_dropWhile]; exact hsplit
                  obtain ⟨v1, v2⟩ := ttk_cut s _ _ k hsplit2
                  have e' : ((k + 1 + content.length + ((d :: r).takeWhile (· != ' ')).length : Nat) : Int) + 1 =
                      ((k + (('"' :: content ++ ['"']) ++ (d :: r).takeWhile (· != ' ')).length : Nat) : Int) := by
                    rw [List.length_append, hlen]; omega
                  simp only [e', v1, v2, bind, Except.bind, Except.map, Except.mapError, ttk_view_some]
                · simp only [d2]
                  rfl
        · rw [if_neg c3, if_neg c3, find_next_blank_eq s k (by omega), ← hd]
          have hsplit : s.drop k = (s.drop k).takeWhile (· != ' ') ++ (s.drop k).dropWhile (· != ' ') :=
            (List.takeWhile_append_dropWhile).symm
          obtain ⟨u1, u2⟩ := ttk_cut s _ _ k hsplit
          have u3 : s.drop (k + ((s.drop k).takeWhile (· != ' ')).length + 1) = ((s.drop k).dropWhile (· != ' ')).drop 1 := by
            rw [← List.drop_drop, u2]
          have e : ((k + ((s.drop k).takeWhile (· != ' ')).length : Nat) : Int) + 1 =
              ((k + ((s.drop k).takeWhile (· != ' ')).length + 1 : Nat) : Int) := by omega
          simp only [bind, Except.bind, Except.map, Except.mapError, u1, e, ttk_view_some, u3, Ttl.toSpace]
  · have hnil : s.drop k = [] := List.drop_eq_nil_of_le (by omega)
    rw [ttk_post_nil resolve fuel ctx.base s k (by omega), ttk_model_nil resolve ctx _ (by rw [hnil]; rfl)]
    rfl

theorem ttk_dropWhile_idem (p : Char → Bool) (l : List Char) : (l.dropWhile p).dropWhile p = l.dropWhile p := by
  induction l with
  | nil => rfl
  | cons c t ih =>
    by_cases h : p c = true
    · rw [List.dropWhile_cons_of_pos h]; exact ih
    · rw [List.dropWhile_cons_of_neg h, List.dropWhile_cons_of_neg h]

theorem ttk_dropWhile_head (l t : List Char) : l.dropWhile (· = ' ') ≠ ' ' :: t := by
  induction l with
  | nil => simp
  | cons c r ih =>
    by_cases h : c = ' '
    · rw [List.dropWhile_cons_of_pos (by simp [h])]; exact ih
    · rw [List.dropWhile_cons_of_neg (by simp [h])]
      intro he
      exact h (List.cons.inj he).1

theorem ttk_nextToken_dropWhile (resolve : List Char → List Char → List Char) (ctx : Ttl.Ctx) (l : List Char) :
    Ttl.nextToken resolve ctx (l.dropWhile (· = ' ')) = Ttl.nextToken resolve ctx l := by
  unfold Ttl.nextToken
  rw [ttk_dropWhile_idem]

theorem ttk_drop_takeWhile (p : Char → Bool) (l : List Char) : l.drop (l.takeWhile p).length = l.dropWhile p := by
  have h : l = l.takeWhile p ++ l.dropWhile p := (List.takeWhile_append_dropWhile).symm
  conv => lhs; arg 2; rw [h]
  exact List.drop_left' rfl

/-- The index the code returns denotes the rest the model returns (`s.drop k`); the one place where code and model are cut differently is a
`<` with no `>` after it, excluded by `hc` (the code returns an empty token there and fails one step later, in `_parse_elem`; the model
raises at once). -/
theorem next_line_token_eq (resolve : List Char → List Char → List Char) (ctx : Ttl.Ctx) (s : List Char) (i fuel : Nat)
    (hf : s.length + 1 ≤ fuel)
    (hc : ∀ t, (s.drop i).dropWhile (· = ' ') = '<' :: t → Nt.toCorner ('<' :: t) ≠ none) :
    (GenS.ttl_next_line_token resolve fuel ctx.base s (i : Int)).map (Option.map fun p => (p.1, s.drop p.2.toNat)) =
      (Ttl.nextToken resolve ctx (s.drop i)).mapError excOfTtl := by
  rw [ttk_unfold, ttk_skip_loop s fuel i (by omega) (by omega)]
  have hdrop : s.drop (i + ((s.drop i).takeWhile (· = ' ')).length) = (s.drop i).dropWhile (· = ' ') := by
    rw [← List.drop_drop, ttk_drop_takeWhile]
  show (ttk_post resolve fuel ctx.base s (.inl ((i + ((s.drop i).takeWhile (· = ' ')).length : Nat) : Int))).map (ttk_view s) = _
  rw [ttk_post_eq resolve ctx s fuel _ hf (by rw [hdrop]; exact ttk_dropWhile_head _) (by rw [hdrop]; exact hc), hdrop,
    ttk_nextToken_dropWhile]

end Shexer.GenStrTtlTok
