import ShexerModel.Lemmas.CloseLemmas
/-! `inverse_paths` leaves the direct part of every shape untouched (run level). -/

namespace Shexer
namespace Dict
variable {κ ν μ : Type} [DecidableEq κ]

/-- value-wise projection of a dictionary (keys and their order kept) -/
def pmap (φ : ν → μ) (d : Dict κ ν) : Dict κ μ := d.map fun e => (e.1, φ e.2)

theorem get?_pmap (φ : ν → μ) (d : Dict κ ν) (k : κ) : get? (pmap φ d) k = (get? d k).map φ := by
  induction d with
  | nil => rfl
  | cons hd tl ih =>
    obtain ⟨k', v'⟩ := hd
    by_cases hk : k' = k
    · subst hk; simp [pmap, get?]
    · simp only [pmap] at ih
      simp [pmap, get?, hk, ih]

theorem contains_pmap (φ : ν → μ) (d : Dict κ ν) (k : κ) : contains (pmap φ d) k = contains d k := by
  unfold contains
  rw [get?_pmap]
  cases get? d k <;> rfl

theorem contains_of_pmap_eq (φ : ν → μ) (d d' : Dict κ ν) (h : pmap φ d = pmap φ d') (k : κ) :
    contains d k = contains d' k := by
  rw [← contains_pmap φ d, h, contains_pmap]

theorem pmap_upd_rel (φ : ν → μ) (d d' : Dict κ ν) (k : κ) (f f' : Option ν → ν)
    (h : pmap φ d = pmap φ d') (hf : ∀ o o' : Option ν, o.map φ = o'.map φ → φ (f o) = φ (f' o')) :
    pmap φ (upd d k f) = pmap φ (upd d' k f') := by
  induction d generalizing d' with
  | nil =>
    cases d' with
    | nil => simp [upd, pmap, hf none none rfl]
    | cons a b => simp [pmap] at h
  | cons hd tl ih =>
    cases d' with
    | nil => simp [pmap] at h
    | cons hd' tl' =>
      obtain ⟨k0, v⟩ := hd
      obtain ⟨k0', v'⟩ := hd'
      simp only [pmap, List.map_cons, List.cons.injEq, Prod.mk.injEq] at h
      obtain ⟨⟨hk, hv⟩, htl⟩ := h
      subst hk
      by_cases hk : k0 = k
      · subst hk
        simp only [upd, if_true, pmap, List.map_cons, List.cons.injEq, Prod.mk.injEq, true_and]
        exact ⟨hf (some v) (some v') (by simp [hv]), htl⟩
      · simp only [upd, hk, if_false, pmap, List.map_cons, List.cons.injEq, Prod.mk.injEq, true_and]
        exact ⟨hv, ih tl' htl⟩

theorem pmap_upd_id (φ : ν → μ) (d : Dict κ ν) (k : κ) (f : Option ν → ν)
    (hc : contains d k = true) (hf : ∀ v, φ (f (some v)) = φ v) : pmap φ (upd d k f) = pmap φ d := by
  induction d with
  | nil => simp [contains, get?] at hc
  | cons hd tl ih =>
    obtain ⟨k0, v⟩ := hd
    by_cases hk : k0 = k
    · subst hk
      simp [upd, pmap, hf]
    · have hc' : contains tl k = true := by simpa [contains, get?, hk] using hc
      simp only [pmap] at ih
      simp [upd, hk, pmap, ih hc']

end Dict

namespace Shexer

theorem insertDesc_of_le (x : Stmt) (l : List Stmt) (h : ∀ y ∈ l, y.n ≤ x.n) : insertDesc x l = x :: l := by
  cases l with
  | nil => rfl
  | cons y ys => unfold insertDesc; rw [if_pos (h y (by simp))]

theorem insertDesc_filter (p : Stmt → Bool) (x : Stmt) (l : List Stmt) (hs : SortedDesc l) :
    (insertDesc x l).filter p = if p x then insertDesc x (l.filter p) else l.filter p := by
  induction l with
  | nil => simp [insertDesc, List.filter_cons]
  | cons y ys ih =>
    unfold SortedDesc at hs
    rw [List.pairwise_cons] at hs
    by_cases hc : y.n ≤ x.n
    · have hall : ∀ z ∈ (y :: ys).filter p, z.n ≤ x.n := by
        intro z hz
        rcases List.mem_cons.mp (List.mem_filter.mp hz).1 with rfl | hz'
        · exact hc
        · exact Nat.le_trans (hs.1 z hz') hc
      rw [insertDesc_of_le x _ hall]
      have : insertDesc x (y :: ys) = x :: y :: ys := by unfold insertDesc; rw [if_pos hc]
      rw [this, List.filter_cons]
    · have e1 : insertDesc x (y :: ys) = y :: insertDesc x ys := by simp only [insertDesc, if_neg hc]
      rw [e1, List.filter_cons, ih hs.2]
      by_cases hy : p y = true
      · have e2 : insertDesc x (y :: ys.filter p) = y :: insertDesc x (ys.filter p) := by
          simp only [insertDesc, if_neg hc]
        rw [if_pos hy, List.filter_cons, if_pos hy, e2]
        split <;> rfl
      · rw [if_neg hy, List.filter_cons, if_neg hy]

/-- the stable sort commutes with every filter -/
theorem sortDesc_filter (p : Stmt → Bool) (l : List Stmt) : (sortDesc l).filter p = sortDesc (l.filter p) := by
  induction l with
  | nil => rfl
  | cons x xs ih =>
    show (insertDesc x (sortDesc xs)).filter p = sortDesc ((x :: xs).filter p)
    rw [insertDesc_filter p x _ (sortDesc_sorted xs), ih, List.filter_cons]
    split <;> rfl

end Shexer
end Shexer

namespace Shexer
namespace Profiler
open Dict

/-- what the direct pipeline reads of a node -/
def dkey (ni : NodeInfo) : List String × Feat := (ni.classes, ni.direct)

/-- same keys in the same order, same classes, same direct features -/
def DRel (d d' : IDict) : Prop := Dict.pmap dkey d = Dict.pmap dkey d'

theorem isInstance_rel {d d' : IDict} (h : DRel d d') (t : Term) : isInstance d t = isInstance d' t := by
  unfold isInstance
  rw [Dict.contains_of_pmap_eq dkey d d' h]

theorem shapesOf_rel {d d' : IDict} (h : DRel d d') (k : String) : shapesOf d k = shapesOf d' k := by
  have h1 : (Dict.get? d k).map dkey = (Dict.get? d' k).map dkey := by
    rw [← Dict.get?_pmap, ← Dict.get?_pmap, h]
  unfold shapesOf
  cases h2 : Dict.get? d k <;> cases h3 : Dict.get? d' k <;> rw [h2, h3] at h1 <;> simp [dkey] at h1 ⊢
  rw [h1.1]

theorem annotateSubject_rel (cfg : Config) {d d' : IDict} (h : DRel d d') (t : Triple) :
    DRel (annotateSubject cfg d t) (annotateSubject cfg d' t) := by
  unfold annotateSubject
  simp only []
  rw [shapesOf_rel h]
  apply Dict.pmap_upd_rel dkey d d' _ _ _ h
  intro o o' ho
  cases o <;> cases o' <;> simp [dkey] at ho ⊢
  simp [ho.1, ho.2]

theorem annotateObject_id (cfg : Config) (d : IDict) (t : Triple) (hi : isInstance d t.o = true) :
    DRel (annotateObject cfg d t) d := by
  unfold annotateObject
  apply Dict.pmap_upd_id dkey d _ _ (contains_of_isInstance hi)
  intro v
  rfl

theorem step_rel (cfg : Config) {d d' : IDict} (h : DRel d d') (t : Triple) :
    DRel (step { cfg with inverse := true } d t) (step { cfg with inverse := false } d' t) := by
  have h1 : DRel (if isInstance d t.s then annotateSubject cfg d t else d)
      (if isInstance d' t.s then annotateSubject cfg d' t else d') := by
    rw [isInstance_rel h]
    split
    · exact annotateSubject_rel cfg h t
    · exact h
  show DRel (if isInstance (if isInstance d t.s then annotateSubject cfg d t else d) t.o
      then annotateObject cfg (if isInstance d t.s then annotateSubject cfg d t else d) t
      else (if isInstance d t.s then annotateSubject cfg d t else d))
    (if isInstance d' t.s then annotateSubject cfg d' t else d')
  generalize (if isInstance d t.s then annotateSubject cfg d t else d) = d1 at h1 ⊢
  by_cases hi : isInstance d1 t.o = true
  · rw [if_pos hi]
    exact (annotateObject_id cfg d1 t hi).trans h1
  · rw [if_neg hi]
    exact h1

theorem foldl_step_rel (cfg : Config) (ts : List Triple) {d d' : IDict} (h : DRel d d') :
    DRel (ts.foldl (step { cfg with inverse := true }) d) (ts.foldl (step { cfg with inverse := false }) d') := by
  induction ts generalizing d d' with
  | nil => exact h
  | cons t ts ih => exact ih (step_rel cfg h t)

theorem pass2_rel (cfg : Config) (inst : Tracker.InstDict) (g : Graph) :
    DRel (pass2 { cfg with inverse := true } inst g) (pass2 { cfg with inverse := false } inst g) :=
  foldl_step_rel cfg _ rfl

end Profiler
end Shexer

namespace Shexer
namespace Profiler
open Dict Shexer

/-- same classes in the same order with the same direct profile -/
def PRel (p p' : Profile) : Prop := Dict.pmap ClassProfile.direct p = Dict.pmap ClassProfile.direct p'

theorem addDirect_rel (dts : List Tup) {p p' : Profile} (h : PRel p p') (c : String) :
    PRel (addDirect dts p c) (addDirect dts p' c) := by
  unfold addDirect
  apply Dict.pmap_upd_rel ClassProfile.direct p p' _ _ _ h
  intro o o' ho
  cases o <;> cases o' <;> simp at ho ⊢
  rw [ho]

theorem foldl_addDirect_rel (dts : List Tup) (cs : List String) {p p' : Profile} (h : PRel p p') :
    PRel (cs.foldl (addDirect dts) p) (cs.foldl (addDirect dts) p') := by
  induction cs generalizing p p' with
  | nil => exact h
  | cons c cs ih => exact ih (addDirect_rel dts h c)

theorem addInverse_id (its : List Tup) (p : Profile) (c : String) (hc : Dict.contains p c = true) :
    PRel (addInverse its p c) p := by
  unfold addInverse
  apply Dict.pmap_upd_id ClassProfile.direct p _ _ hc
  intro v
  rfl

theorem foldl_addInverse_id (its : List Tup) (cs : List String) (p : Profile)
    (hc : ∀ c ∈ cs, Dict.contains p c = true) : PRel (cs.foldl (addInverse its) p) p := by
  induction cs generalizing p with
  | nil => exact rfl
  | cons c cs ih =>
    simp only [List.foldl_cons]
    have h1 := addInverse_id its p c (hc c (by simp))
    refine (ih _ ?_).trans h1
    intro c' hc'
    rw [Dict.contains_of_pmap_eq _ _ _ h1]
    exact hc c' (by simp [hc'])

theorem contains_foldl_addDirect (dts : List Tup) (cs : List String) (p : Profile) (c : String) (hc : c ∈ cs) :
    Dict.contains (cs.foldl (addDirect dts) p) c = true := by
  unfold Dict.contains
  rw [Dict.get?_isSome_iff_mem_keys]
  unfold addDirect
  exact (mem_keys_foldl_upd cs _ p c).mpr (Or.inl hc)

theorem annotateInstance_rel (cfg : Config) {p p' : Profile} (h : PRel p p') (ni ni' : NodeInfo)
    (hcl : ni.classes = ni'.classes) (hd : ni.direct = ni'.direct) :
    PRel (annotateInstance { cfg with inverse := true } p ni) (annotateInstance { cfg with inverse := false } p' ni') := by
  show PRel (ni.classes.foldl (addInverse (tuples cfg ni.inverse)) (ni.classes.foldl (addDirect (tuples cfg ni.direct)) p))
    (ni'.classes.foldl (addDirect (tuples cfg ni'.direct)) p')
  rw [← hcl, ← hd]
  exact (foldl_addInverse_id _ _ _ (fun c hc => contains_foldl_addDirect _ _ _ c hc)).trans
    (foldl_addDirect_rel _ _ h)

theorem build_fold_rel (cfg : Config) (d d' : IDict) (hd : DRel d d') {p p' : Profile} (h : PRel p p') :
    PRel (d.foldl (fun prof e => annotateInstance { cfg with inverse := true } prof e.2) p)
      (d'.foldl (fun prof e => annotateInstance { cfg with inverse := false } prof e.2) p') := by
  induction d generalizing d' p p' with
  | nil =>
    cases d' with
    | nil => exact h
    | cons a b => simp [DRel, Dict.pmap] at hd
  | cons e es ih =>
    cases d' with
    | nil => simp [DRel, Dict.pmap] at hd
    | cons e' es' =>
      simp only [DRel, Dict.pmap, List.map_cons, List.cons.injEq, Prod.mk.injEq, dkey] at hd
      obtain ⟨⟨_, hcl, hdir⟩, htl⟩ := hd
      simp only [List.foldl_cons]
      exact ih es' htl (annotateInstance_rel cfg h e.2 e'.2 hcl hdir)

theorem build_rel (cfg : Config) (inst : Tracker.InstDict) (d d' : IDict) (hd : DRel d d') :
    PRel (build { cfg with inverse := true } inst d) (build { cfg with inverse := false } inst d') :=
  build_fold_rel cfg d d' hd rfl

end Profiler
end Shexer

namespace Shexer
namespace Shexer
open Profiler

theorem filter_append_split (D I : List Stmt) (hD : ∀ s ∈ D, s.inverse = false) (hI : ∀ s ∈ I, s.inverse = true) :
    ((D ++ I).filter fun s => !s.inverse) = D ∧ ((D ++ I).filter fun s => s.inverse) = I := by
  rw [List.filter_append, List.filter_append]
  have h1 : (D.filter fun s => !s.inverse) = D := List.filter_eq_self.mpr (fun s hs => by simp [hD s hs])
  have h2 : (I.filter fun s => !s.inverse) = [] := List.filter_eq_nil_iff.mpr (fun s hs => by simp [hI s hs])
  have h3 : (D.filter fun s => s.inverse) = [] := List.filter_eq_nil_iff.mpr (fun s hs => by simp [hD s hs])
  have h4 : (I.filter fun s => s.inverse) = I := List.filter_eq_self.mpr (fun s hs => by simp [hI s hs])
  rw [h1, h2, h3, h4]
  simp

theorem selectValid_inv_irrel (cfg : Config) (b : Bool) (l : List Stmt) :
    selectValid { cfg with inverse := b } l = selectValid cfg l :=
  selectValid_congr { cfg with inverse := b } cfg ⟨rfl, rfl, rfl, rfl, rfl⟩ l

theorem tuneOne_inv_irrel (cfg : Config) (b : Bool) (N : Nat) (s : Stmt) :
    tuneOne { cfg with inverse := b } N s = tuneOne cfg N s := rfl

/-- the per-shape core: the non-inverse statements of the shape computed with the option are the
statements computed without it -/
theorem shape_direct (cfg : Config) (N : Nat) (D I : List Stmt)
    (hD : ∀ s ∈ D, Base s ∧ s.inverse = false) (hI : ∀ s ∈ I, Base s ∧ s.inverse = true) :
    ((setValid { cfg with inverse := true }
        { name := "", classUri := "", nInstances := N, stmts := sortDesc (D ++ I) }).stmts.filter fun s => !s.inverse)
      = (setValid { cfg with inverse := false }
        { name := "", classUri := "", nInstances := N, stmts := sortDesc (D ++ []) }).stmts := by
  rw [setValid_eq, setValid_eq]
  simp only [validOf, if_true, Bool.false_eq_true, if_false, List.append_nil]
  rw [sortDesc_filter, sortDesc_filter, sortDesc_filter]
  obtain ⟨e1, e2⟩ := filter_append_split D I (fun s hs => (hD s hs).2) (fun s hs => (hI s hs).2)
  have e3 : (D.filter fun s => !s.inverse) = D := List.filter_eq_self.mpr (fun s hs => by simp [(hD s hs).2])
  rw [e1, e2, e3, selectValid_inv_irrel cfg true (sortDesc D), selectValid_inv_irrel cfg true (sortDesc I),
    selectValid_inv_irrel cfg false (sortDesc D), tune_eq_map, tune_eq_map]
  have hV : ∀ s ∈ selectValid cfg (sortDesc D), s.inverse = false := by
    intro s hs
    exact selectValid_inverse cfg _ false (fun y hy => hD y ((mem_sortDesc _ _).mp hy)) s hs
  have hW : ∀ s ∈ selectValid cfg (sortDesc I), s.inverse = true := by
    intro s hs
    exact selectValid_inverse cfg _ true (fun y hy => hI y ((mem_sortDesc _ _).mp hy)) s hs
  rw [filter_map_of_pred _ _ _ (fun a => by rw [(tuneOne_skeleton _ N a).2.2.1]), sortDesc_filter,
    (filter_append_split _ _ hV hW).1]
  rfl

end Shexer
end Shexer

namespace Shexer
namespace Shexer
open Profiler

theorem map_congr_pmap {κ ν μ β : Type} (φ : ν → μ) (l l' : Dict κ ν) (h : Dict.pmap φ l = Dict.pmap φ l')
    (F G : κ × ν → β) (hFG : ∀ k v v', φ v = φ v' → F (k, v) = G (k, v')) : l.map F = l'.map G := by
  induction l generalizing l' with
  | nil =>
    cases l' with
    | nil => rfl
    | cons a b => simp [Dict.pmap] at h
  | cons e es ih =>
    cases l' with
    | nil => simp [Dict.pmap] at h
    | cons e' es' =>
      obtain ⟨k, v⟩ := e
      obtain ⟨k', v'⟩ := e'
      simp only [Dict.pmap, List.map_cons, List.cons.injEq, Prod.mk.injEq] at h
      obtain ⟨⟨hk, hv⟩, htl⟩ := h
      subst hk
      simp only [List.map_cons, List.cons.injEq]
      exact ⟨hFG k v v' hv, ih es' htl⟩

/-- the final shape of one profile entry (no removal of empty shapes) -/
def shapeOfEntry (cfg : Config) (counts : Dict String Nat) (e : String × ClassProfile) : Shape :=
  setValid cfg
    { name := shapeName e.1 cfg.shapesNs, classUri := e.1, nInstances := (Dict.get? counts e.1).getD 0,
      stmts := sortDesc (candidates cfg ((Dict.get? counts e.1).getD 0) false e.2.direct ++
        (if cfg.inverse then candidates cfg ((Dict.get? counts e.1).getD 0) true e.2.inverse else [])) }

theorem run_eq_map (cfg : Config) (hre : cfg.removeEmpty = false) (g : Graph) :
    Shexer.run cfg g =
      (build cfg (Tracker.track cfg g) (pass2 cfg (Tracker.track cfg g) g)).map
        (shapeOfEntry cfg (initCounts cfg (Tracker.track cfg g))) := by
  unfold Shexer.run shexClasses cleanEmpty Profiler.run Profiler.runSel Profiler.clean baseShapes
  simp only [hre, Bool.false_eq_true, if_false, List.map_map]
  apply List.map_congr_left
  intro e _
  rfl

end Shexer
end Shexer

namespace Shexer
namespace InverseLemmas
open Shexer Profiler

/-- **the direct constraints are the same with and without `inverse_paths`** (empty shapes not removed): same shapes in
the same order, same instance counts, and the non-inverse statements of each shape — cardinalities, counts, comments
included — are exactly the statements of the run without the option -/
theorem direct_part_untouched (cfg : Config) (hre : cfg.removeEmpty = false) (g : Graph) :
    (Shexer.run { cfg with inverse := true } g).map
        (fun sh => (sh.name, sh.classUri, sh.nInstances, sh.stmts.filter fun s => !s.inverse))
      = (Shexer.run { cfg with inverse := false } g).map (fun sh => (sh.name, sh.classUri, sh.nInstances, sh.stmts)) := by
  rw [Shexer.run_eq_map { cfg with inverse := true } hre g, Shexer.run_eq_map { cfg with inverse := false } hre g,
    List.map_map, List.map_map]
  have htr : ∀ b, Tracker.track { cfg with inverse := b } g = Tracker.track cfg g := fun _ => rfl
  have hic : ∀ b, initCounts { cfg with inverse := b } (Tracker.track cfg g) = initCounts cfg (Tracker.track cfg g) :=
    fun _ => rfl
  rw [htr true, htr false, hic true, hic false]
  have hprof := build_rel cfg (Tracker.track cfg g) _ _ (pass2_rel cfg (Tracker.track cfg g) g)
  apply Shexer.map_congr_pmap ClassProfile.direct _ _ hprof
  intro k cp cp' hcp
  simp only [Function.comp_def, Shexer.shapeOfEntry, if_true, Bool.false_eq_true, if_false]
  rw [hcp]
  generalize (Dict.get? (initCounts cfg (Tracker.track cfg g)) k).getD 0 = N
  have hcore := Shexer.shape_direct cfg N (Shexer.candidates cfg N false cp'.direct) (Shexer.candidates cfg N true cp.inverse)
    (fun s hs => by
      obtain ⟨_, h1, h2, h3, h4, h5⟩ := Shexer.candidate_props cfg _ _ _ s hs
      exact ⟨⟨h1, h4, h2, h5⟩, h3⟩)
    (fun s hs => by
      obtain ⟨_, h1, h2, h3, h4, h5⟩ := Shexer.candidate_props cfg _ _ _ s hs
      exact ⟨⟨h1, h4, h2, h5⟩, h3⟩)
  refine Prod.ext rfl (Prod.ext rfl (Prod.ext rfl ?_))
  exact hcore

/-- without the option no statement of the result is an inverse statement -/
theorem no_inverse_statement_without_option (cfg : Config) (h : cfg.inverse = false) (g : Graph)
    (sh : Shape) (hsh : sh ∈ Shexer.run cfg g) (s : Stmt) (hs : s ∈ sh.stmts) : s.inverse = false := by
  rw [Shexer.run_eq_clean_pre] at hsh
  obtain ⟨sh0, hsh0, _, _, _, hsub⟩ := Shexer.cleanEmpty_sub cfg _ sh hsh
  exact Shexer.pre_inverse cfg g h sh0 hsh0 s (hsub s hs)

end InverseLemmas
end Shexer
