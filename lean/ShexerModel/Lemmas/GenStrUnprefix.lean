import ShexerModel.GeneratedStr
import ShexerModel.Model.Ttl
import ShexerModel.Lemmas.GenStrPrefixize
/-! helper lemmas for `Props/GenStrUnprefix.lean` (fragment S: `unprefixize_uri_*`, `add_corners*`, `there_is_arroba_after_last_quotes`) -/
namespace Shexer.GenStrUnprefix
open Shexer PyOps

/-- the two fuelled recursions agree once the fuel covers the list -/
theorem replaceAllAux_eq_replaceGo (pat by_ : List Char) (h : pat ≠ []) :
    ∀ (n : Nat) (l : List Char), l.length ≤ n → Ttl.replaceAllAux pat by_ (n + 1) l = PyOps.replaceGo pat by_ n l := by
  have hlen : 1 ≤ pat.length := by
    cases pat with
    | nil => exact absurd rfl h
    | cons a p => simp
  have hemp : pat.isEmpty = false := by
    cases pat with
    | nil => exact absurd rfl h
    | cons a p => rfl
  intro n
  induction n with
  | zero =>
    intro l hl
    cases l with
    | nil => rfl
    | cons c t => simp at hl
  | succ n ih =>
    intro l hl
    cases l with
    | nil => rfl
    | cons c t =>
      have hd : ((c :: t).drop pat.length).length ≤ n := by
        rw [List.length_drop]
        simp only [List.length_cons] at hl ⊢
        omega
      have ht : t.length ≤ n := by
        simp only [List.length_cons] at hl
        omega
      show (if (pat.isPrefixOf (c :: t) && !pat.isEmpty) = true then by_ ++ Ttl.replaceAllAux pat by_ (n + 1) ((c :: t).drop pat.length)
            else c :: Ttl.replaceAllAux pat by_ (n + 1) t) =
           (if pat.isPrefixOf (c :: t) = true then by_ ++ PyOps.replaceGo pat by_ n ((c :: t).drop pat.length) else c :: PyOps.replaceGo pat by_ n t)
      rw [ih _ hd, ih _ ht, hemp]
      cases pat.isPrefixOf (c :: t) <;> rfl

theorem replaceAll_is_replace (pat by_ l : List Char) (h : pat ≠ []) : Ttl.replaceAll pat by_ l = PyOps.replace l pat by_ := by
  have hemp : pat.isEmpty = false := by
    cases pat with
    | nil => exact absurd rfl h
    | cons a p => rfl
  unfold Ttl.replaceAll PyOps.replace
  rw [hemp]
  simp only [Bool.false_eq_true, if_false]
  exact replaceAllAux_eq_replaceGo pat by_ h _ l (Nat.le_refl _)

/-- the loop body shared by the two generated functions, with the test on the key abstracted -/
def body (tok : List Char) (d : List (List Char × List Char)) (corners : Bool) (c : List Char → Bool) :
    List Char → Except PyExc (Option (List Char)) := fun a_prefix => do
  if c a_prefix then (do
  let d_1 ← PyOps.dictGet d a_prefix
  let result := (PyOps.replace tok (a_prefix ++ ":".toList) d_1)
  if corners then (do
  let r_2 ← GenS.add_corners result
  let result := r_2
  pure (some result))
  else (do
  pure (some result)))
  else (do
  pure none)

/-- what the body returns on the key that is found -/
def out (tok : List Char) (corners : Bool) (e : List Char × List Char) : List Char :=
  if corners then '<' :: PyOps.replace tok (e.1 ++ [':']) e.2 ++ ['>'] else PyOps.replace tok (e.1 ++ [':']) e.2

theorem body_true (tok : List Char) (d : List (List Char × List Char)) (corners : Bool) (c : List Char → Bool)
    (e : List Char × List Char) (hc : c e.1 = true) (hg : PyOps.dictGet d e.1 = .ok e.2) :
    body tok d corners c e.1 = .ok (some (out tok corners e)) := by
  unfold body out
  simp only [hc, if_true]
  rw [hg]
  have e3 : ":".toList = [':'] := by simp
  rw [e3]
  cases corners <;> rfl

theorem body_false (tok : List Char) (d : List (List Char × List Char)) (corners : Bool) (c : List Char → Bool)
    (k : List Char) (hc : c k = false) : body tok d corners c k = .ok none := by
  unfold body
  simp only [hc, Bool.false_eq_true, if_false]
  rfl

theorem forEach_cons_some {α β : Type} (x : α) (rest : List α) (f : α → Except PyExc (Option β)) (r : β)
    (h : f x = .ok (some r)) : PyOps.forEach (x :: rest) f = .ok (some r) := by
  unfold PyOps.forEach
  rw [h]
  rfl

theorem forEach_cons_none {α β : Type} (x : α) (rest : List α) (f : α → Except PyExc (Option β))
    (h : f x = .ok none) : PyOps.forEach (x :: rest) f = PyOps.forEach rest f := by
  conv => lhs; unfold PyOps.forEach
  rw [h]
  rfl

theorem loop_eq (tok : List Char) (d : List (List Char × List Char)) (corners : Bool) (c : List Char → Bool) :
    ∀ (suf pre : List (List Char × List Char)), d = pre ++ suf → (∀ x ∈ pre, c x.1 = false) →
      PyOps.forEach (suf.map Prod.fst) (body tok d corners c) = .ok ((suf.find? fun e => c e.1).map (out tok corners)) := by
  intro suf
  induction suf with
  | nil => intro pre _ _; rfl
  | cons x xs ih =>
    intro pre hd hpre
    rw [List.map_cons, List.find?_cons]
    cases hc : c x.1 with
    | true =>
      have hfind : d.find? (fun e => c e.1) = some x := by
        rw [hd, List.find?_append]
        have hn : pre.find? (fun e => c e.1) = none := by
          rw [List.find?_eq_none]
          intro y hy
          simp [hpre y hy]
        rw [hn, List.find?_cons, hc]
        rfl
      have hg := GenStr.dictGet_of_find c x d hfind
      rw [forEach_cons_some _ _ _ _ (body_true tok d corners c x hc hg)]
      rfl
    | false =>
      rw [forEach_cons_none _ _ _ (body_false tok d corners c x.1 hc)]
      apply ih (pre ++ [x])
      · rw [hd]; simp
      · intro y hy
        rw [List.mem_append] at hy
        cases hy with
        | inl h => exact hpre y h
        | inr h =>
          have : y = x := by simpa using h
          rw [this]; exact hc

theorem loop_eq' (tok : List Char) (d : List (List Char × List Char)) (corners : Bool) (c : List Char → Bool) :
    PyOps.forEach (d.map Prod.fst) (body tok d corners c) = .ok ((d.find? fun e => c e.1).map (out tok corners)) :=
  loop_eq tok d corners c d [] rfl (by intro x hx; cases hx)

theorem out_eq (tok : List Char) (corners : Bool) (e : List Char × List Char) :
    out tok corners e = if corners then '<' :: Ttl.replaceAll (e.1 ++ [':']) e.2 tok ++ ['>'] else Ttl.replaceAll (e.1 ++ [':']) e.2 tok := by
  unfold out
  rw [replaceAll_is_replace _ _ _ (by simp)]

theorem unprefixize_mandatory_eq (tok : List Char) (d : List (List Char × List Char)) (corners : Bool) :
    GenS.unprefixize_uri_mandatory tok d corners =
      (match Ttl.unprefixize d tok with
       | some r => Except.ok (if corners then '<' :: r ++ ['>'] else r)
       | none => Except.error PyExc.valueError) := by
  have hgen : GenS.unprefixize_uri_mandatory tok d corners =
      (do let r_3 ← PyOps.forEach (d.map Prod.fst) (body tok d corners fun k => PyOps.startsWith tok (k ++ ":".toList))
          match r_3 with
          | some v => pure v
          | none => throw PyExc.valueError) := rfl
  rw [hgen, loop_eq']
  have e3 : ":".toList = [':'] := by simp
  have hm : Ttl.unprefixize d tok =
      (d.find? fun e => PyOps.startsWith tok (e.1 ++ ":".toList)).map fun e => Ttl.replaceAll (e.1 ++ [':']) e.2 tok := by
    rw [e3]; rfl
  rw [hm]
  cases hf : d.find? (fun e => PyOps.startsWith tok (e.1 ++ ":".toList)) with
  | none => rfl
  | some e =>
    simp only [Option.map_some]
    rw [out_eq]
    rfl

theorem unprefixize_soft_eq (tok : List Char) (d : List (List Char × List Char)) (corners : Bool) :
    GenS.unprefixize_uri_if_possible tok d corners =
      Except.ok (match Ttl.unprefixizeSoft d tok with
                 | some r => if corners then '<' :: r ++ ['>'] else r
                 | none => tok) := by
  have hgen : GenS.unprefixize_uri_if_possible tok d corners =
      (do let r_3 ← PyOps.forEach (d.map Prod.fst)
            (body tok d corners fun k => PyOps.startsWith tok (k ++ ":".toList) && !(PyOps.startsWith tok (k ++ "://".toList)))
          match r_3 with
          | some v => pure v
          | none => pure tok) := rfl
  rw [hgen, loop_eq']
  have e3 : ":".toList = [':'] := by simp
  have e4 : "://".toList = [':', '/', '/'] := by simp
  have hm : Ttl.unprefixizeSoft d tok =
      (d.find? fun e => PyOps.startsWith tok (e.1 ++ ":".toList) && !(PyOps.startsWith tok (e.1 ++ "://".toList))).map
        fun e => Ttl.replaceAll (e.1 ++ [':']) e.2 tok := by
    rw [e3, e4]; rfl
  rw [hm]
  cases hf : d.find? (fun e => PyOps.startsWith tok (e.1 ++ ":".toList) && !(PyOps.startsWith tok (e.1 ++ "://".toList))) with
  | none => rfl
  | some e =>
    simp only [Option.map_some]
    rw [out_eq]
    rfl

theorem add_corners_if_needed_eq (s : List Char) :
    GenS.add_corners_if_needed s = Except.ok (if ['<'].isPrefixOf s then s else '<' :: s ++ ['>']) := by
  unfold GenS.add_corners_if_needed GenS.add_corners PyOps.startsWith
  have e1 : "<".toList = ['<'] := by simp
  have e2 : ">".toList = ['>'] := by simp
  rw [e1, e2]
  cases h : ['<'].isPrefixOf s <;> rfl

theorem add_corners_if_it_is_an_uri_eq (s : List Char) :
    GenS.add_corners_if_it_is_an_uri s =
      Except.ok (if "http://".toList.isPrefixOf s || "https://".toList.isPrefixOf s then '<' :: s ++ ['>'] else s) := by
  unfold GenS.add_corners_if_it_is_an_uri PyOps.startsWith
  have e1 : "<".toList = ['<'] := by simp
  have e2 : ">".toList = ['>'] := by simp
  rw [e1, e2]
  cases h : ("http://".toList.isPrefixOf s || "https://".toList.isPrefixOf s) <;> rfl

theorem arroba_eq (s : List Char) :
    GenS.there_is_arroba_after_last_quotes s = Except.ok (decide (PyOps.rfind s ['@'] > PyOps.rfind s ['"'])) := by
  unfold GenS.there_is_arroba_after_last_quotes
  have e1 : "@".toList = ['@'] := by simp
  have e2 : "\"".toList = ['"'] := by simp
  rw [e1, e2]
  cases h : decide (PyOps.rfind s ['@'] > PyOps.rfind s ['"']) <;> rfl

end Shexer.GenStrUnprefix
