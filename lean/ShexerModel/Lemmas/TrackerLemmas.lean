import ShexerModel.Lemmas.DictLemmas
import ShexerModel.Spec.Counts
/-! Pass 1 without cap: the instance dictionary is exactly "selected node ↦ its classes". -/
namespace Shexer
namespace Tracker
open Dict

/-- `add_instance_to_instances_dict` + `annotate_class` as one update -/
def addInst (d : InstDict) (t : Triple) : InstDict :=
  Dict.upd d t.s.key fun o => o.getD [] ++ [t.o.key]

theorem upd_setDefault {κ ν : Type} [DecidableEq κ] (d : Dict κ ν) (k : κ) (v : ν) (f : Option ν → ν) :
    Dict.upd (Dict.setDefault d k v) k f = Dict.upd d k (fun o => f (some (o.getD v))) := by
  induction d with
  | nil => simp [Dict.setDefault, Dict.upd]
  | cons hd tl ih =>
    obtain ⟨k', v'⟩ := hd
    by_cases h : k' = k
    · simp [Dict.setDefault, Dict.upd, h]
    · simp only [Dict.setDefault, Dict.upd, h, if_false] at *
      rw [ih]

theorem annotate_nocap (cfg : Config) (hc : cfg.cap = 0) (st : St) (t : Triple) :
    annotate cfg st t = { st with inst := addInst st.inst t } := by
  unfold annotate addInst
  rw [upd_setDefault]
  simp [hc]

theorem step_nocap (cfg : Config) (hc : cfg.cap = 0) (st : St) (t : Triple) (hs : st.stopped = false) :
    step cfg st t = { st with inst := if innerRelevant cfg t then addInst st.inst t else st.inst } := by
  unfold step relevant
  rw [annotate_nocap cfg hc]
  obtain ⟨i, c, k, s⟩ := st
  simp only at hs
  subst hs
  by_cases hr : innerRelevant cfg t = true <;> simp [hr, hc]

theorem foldl_step_nocap (cfg : Config) (hc : cfg.cap = 0) (g : Graph) (st : St) (hs : st.stopped = false) :
    (g.foldl (step cfg) st).inst = (g.filter (innerRelevant cfg)).foldl addInst st.inst
    ∧ (g.foldl (step cfg) st).stopped = false := by
  induction g generalizing st with
  | nil => exact ⟨rfl, hs⟩
  | cons t ts ih =>
    simp only [List.foldl_cons]
    rw [step_nocap cfg hc st t hs]
    have := ih { st with inst := if innerRelevant cfg t then addInst st.inst t else st.inst } hs
    by_cases hr : innerRelevant cfg t = true
    · simp only [hr, if_true, List.filter_cons, List.foldl_cons] at *
      exact this
    · have hr' : innerRelevant cfg t = false := by simpa using hr
      simp only [hr', List.filter_cons, Bool.false_eq_true, if_false] at *
      exact this

/-- without a cap, pass 1 is a fold of `addInst` over the selecting triples -/
theorem track_nocap (cfg : Config) (hc : cfg.cap = 0) (g : Graph) :
    track cfg g = (g.filter (innerRelevant cfg)).foldl addInst [] :=
  (foldl_step_nocap cfg hc g {} rfl).1

theorem get?_addInst (d : InstDict) (t : Triple) (n : String) :
    Dict.get? (addInst d t) n =
      if t.s.key = n then some ((Dict.get? d n).getD [] ++ [t.o.key]) else Dict.get? d n := by
  unfold addInst
  rw [Dict.get?_upd]
  by_cases h : t.s.key = n
  · subst h; simp
  · simp [h]

theorem get?_foldl_addInst (ts : List Triple) (d : InstDict) (n : String) :
    Dict.get? (ts.foldl addInst d) n =
      if (Dict.get? d n).isSome || ts.any (fun t => t.s.key == n)
      then some ((Dict.get? d n).getD [] ++ (ts.filter fun t => t.s.key == n).map (·.o.key))
      else none := by
  induction ts generalizing d with
  | nil =>
    cases h : Dict.get? d n <;> simp [h]
  | cons t ts ih =>
    simp only [List.foldl_cons]
    rw [ih, get?_addInst]
    by_cases hk : t.s.key = n
    · simp [hk, List.filter_cons]
    · have hk' : (t.s.key == n) = false := by simpa using hk
      simp [hk, hk', List.filter_cons]

theorem WF_foldl_addInst (ts : List Triple) (d : InstDict) (h : Dict.WF d) : Dict.WF (ts.foldl addInst d) := by
  induction ts generalizing d with
  | nil => exact h
  | cons t ts ih => exact ih _ (Dict.WF_upd _ _ _ h)

/-- **pass 1, no cap**: a node key is in the instance dictionary iff it is selected, and then it
maps to its classes in document order -/
theorem get?_track (cfg : Config) (hc : cfg.cap = 0) (g : Graph) (n : String) :
    Dict.get? (track cfg g) n = if Spec.isSelected cfg g n then some (Spec.classesOf cfg g n) else none := by
  rw [track_nocap cfg hc, get?_foldl_addInst]
  simp only [Dict.get?_nil, Option.isSome_none, Bool.false_or, Option.getD_none, List.nil_append]
  unfold Spec.isSelected Spec.classesOf Spec.selects
  simp only [List.any_filter, List.filter_filter]
  have h1 : (fun a : Triple => a.s.key == n && innerRelevant cfg a) = (fun t => innerRelevant cfg t && t.s.key == n) := by
    funext t; exact Bool.and_comm _ _
  rw [h1]

theorem WF_track (cfg : Config) (hc : cfg.cap = 0) (g : Graph) : Dict.WF (track cfg g) := by
  rw [track_nocap cfg hc]
  exact WF_foldl_addInst _ _ Dict.WF_nil

theorem mem_keys_track (cfg : Config) (hc : cfg.cap = 0) (g : Graph) (n : String) :
    n ∈ Dict.keys (track cfg g) ↔ Spec.isSelected cfg g n = true := by
  rw [← Dict.get?_isSome_iff_mem_keys, get?_track cfg hc]
  by_cases h : Spec.isSelected cfg g n = true <;> simp [h]

end Tracker
end Shexer
