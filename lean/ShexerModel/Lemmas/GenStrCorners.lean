import ShexerModel.GeneratedStr
import ShexerModel.Lemmas.PyOpsLemmas
/-! `GenS.remove_corners` (regenerated from /repo) = the reader models' `removeCorners`. -/
namespace Shexer
namespace GenStr
open PyOps

/-- `remove_corners(tok)` is `Nt.removeCorners` -/
theorem remove_corners_strict (tok : List Char) : GenS.remove_corners tok true = convNt (Nt.removeCorners tok) := by
  have h := slice_from_to_neg1 tok 1
  simp only [GenS.remove_corners, Nt.removeCorners, startsWith_eq, endsWith_eq]
  split
  · simp only [convNt, pure, Except.pure, String.toList_ofList]
    exact congrArg _ h
  · rfl

/-- `remove_corners(tok, raise_error_if_no_corners=False)` is `Ttl.removeCornersSoft` -/
theorem remove_corners_soft (tok : List Char) : GenS.remove_corners tok false = .ok (Ttl.removeCornersSoft tok) := by
  have h := slice_from_to_neg1 tok 1
  simp only [GenS.remove_corners, Ttl.removeCornersSoft, startsWith_eq, endsWith_eq]
  by_cases hc : (Nt.startsWith tok "<" && Nt.endsWith tok ">") = true
  · simp only [hc, ↓reduceIte]; exact congrArg Except.ok h
  · simp only [hc]; rfl


end GenStr
end Shexer
