import ShexerModel.Spec.ShExEachOf
/-! helper lemmas for `Props/C03each.lean` -/
namespace Shexer.EachOfLemmas
open Shexer Spec

/-- no value of `vs` matches the statements at two different positions of `acc` -/
def Dj (m : Stmt → Term → Bool) (vs : List Term) (acc : List (Stmt × Nat)) : Prop :=
  ∀ v ∈ vs, ∀ i j : Nat, i ≠ j → ∀ a b, acc[i]? = some a → acc[j]? = some b → ¬ (m a.1 v = true ∧ m b.1 v = true)

/-- pointwise form of the independent reading, with the counts already received -/
def P (m : Stmt → Term → Bool) (vs : List Term) (acc : List (Stmt × Nat)) : Prop :=
  (∀ v ∈ vs, ∃ (i : Nat) (x : Stmt × Nat), acc[i]? = some x ∧ m x.1 v = true) ∧
  (∀ (i : Nat) (x : Stmt × Nat), acc[i]? = some x → inInterval x.1.card (x.2 + vs.countP (m x.1)) = true)

theorem get_set {α} (acc : List α) (i j : Nat) (x y : α) (hi : acc[i]? = some x) :
    (acc.set i y)[j]? = if i = j then some y else acc[j]? := by
  have hlt : i < acc.length := (List.getElem?_eq_some_iff.1 hi).1
  rw [List.getElem?_set]
  by_cases hij : i = j
  · subst hij; simp [hlt]
  · simp [hij]

theorem Dj_set (m : Stmt → Term → Bool) (v : Term) (vs : List Term) (acc : List (Stmt × Nat)) (i : Nat) (x : Stmt × Nat) (n : Nat)
    (hi : acc[i]? = some x) (hd : Dj m (v :: vs) acc) : Dj m vs (acc.set i (x.1, n)) := by
  intro w hw j k hjk a b ha hb hab
  rw [get_set acc i j x _ hi] at ha
  rw [get_set acc i k x _ hi] at hb
  have hw' : w ∈ v :: vs := List.mem_cons_of_mem _ hw
  by_cases h1 : i = j
  · by_cases h2 : i = k
    · exact hjk (h1 ▸ h2 ▸ rfl)
    · rw [if_pos h1] at ha; rw [if_neg h2] at hb
      cases ha
      exact hd w hw' i k h2 x b hi hb hab
  · by_cases h2 : i = k
    · rw [if_neg h1] at ha; rw [if_pos h2] at hb
      cases hb
      exact hd w hw' j i (fun e => h1 e.symm) a x ha hi hab
    · rw [if_neg h1] at ha; rw [if_neg h2] at hb
      exact hd w hw' j k hjk a b ha hb hab

theorem step (m : Stmt → Term → Bool) (v : Term) (vs : List Term) (acc : List (Stmt × Nat)) (i : Nat) (x : Stmt × Nat)
    (hi : acc[i]? = some x) (hm : m x.1 v = true) (hd : Dj m (v :: vs) acc) :
    P m vs (acc.set i (x.1, x.2 + 1)) ↔ P m (v :: vs) acc := by
  constructor
  · rintro ⟨hc, hn⟩
    refine ⟨?_, ?_⟩
    · intro w hw
      rcases List.mem_cons.1 hw with rfl | hw
      · exact ⟨i, x, hi, hm⟩
      · obtain ⟨j, y, hj, hy⟩ := hc w hw
        rw [get_set acc i j x _ hi] at hj
        by_cases h1 : i = j
        · rw [if_pos h1] at hj; cases hj
          exact ⟨i, x, hi, hy⟩
        · rw [if_neg h1] at hj
          exact ⟨j, y, hj, hy⟩
    · intro j y hj
      by_cases h1 : i = j
      · subst h1
        rw [hi] at hj; cases hj
        have := hn i (x.1, x.2 + 1) (by rw [get_set acc i i x _ hi, if_pos rfl])
        rw [List.countP_cons, if_pos hm]
        simpa [Nat.add_assoc, Nat.add_comm, Nat.add_left_comm] using this
      · have := hn j y (by rw [get_set acc i j x _ hi, if_neg h1]; exact hj)
        have hf : ¬ (m y.1 v = true) := fun hy =>
          hd v (List.mem_cons_self) i j h1 x y hi hj ⟨hm, hy⟩
        rw [List.countP_cons, if_neg hf]
        simpa using this
  · rintro ⟨hc, hn⟩
    refine ⟨?_, ?_⟩
    · intro w hw
      obtain ⟨j, y, hj, hy⟩ := hc w (List.mem_cons_of_mem _ hw)
      by_cases h1 : i = j
      · subst h1
        rw [hi] at hj; cases hj
        exact ⟨i, (x.1, x.2 + 1), by rw [get_set acc i i x _ hi, if_pos rfl], hy⟩
      · exact ⟨j, y, by rw [get_set acc i j x _ hi, if_neg h1]; exact hj, hy⟩
    · intro j y hj
      rw [get_set acc i j x _ hi] at hj
      by_cases h1 : i = j
      · rw [if_pos h1] at hj; cases hj
        have := hn i x hi
        rw [List.countP_cons, if_pos hm] at this
        simpa [Nat.add_assoc, Nat.add_comm, Nat.add_left_comm] using this
      · rw [if_neg h1] at hj
        have := hn j y hj
        have hf : ¬ (m y.1 v = true) := fun hy =>
          hd v (List.mem_cons_self) i j h1 x y hi hj ⟨hm, hy⟩
        rw [List.countP_cons, if_neg hf] at this
        simpa using this

theorem distribute_iff (m : Stmt → Term → Bool) : ∀ (vs : List Term) (acc : List (Stmt × Nat)), Dj m vs acc →
    (distribute m vs acc = true ↔ P m vs acc)
  | [], acc, _ => by
    unfold distribute P
    rw [List.all_eq_true]
    constructor
    · intro h
      refine ⟨fun v hv => absurd hv List.not_mem_nil, ?_⟩
      intro i x hx
      simpa using h x (List.mem_of_getElem? hx)
    · rintro ⟨_, h⟩ x hx
      obtain ⟨i, hi⟩ := List.getElem?_of_mem hx
      simpa using h i x hi
  | v :: vs, acc, hd => by
    have key : distribute m (v :: vs) acc = true ↔
        ∃ (i : Nat) (x : Stmt × Nat), acc[i]? = some x ∧ m x.1 v = true ∧ distribute m vs (acc.set i (x.1, x.2 + 1)) = true := by
      rw [distribute, List.any_eq_true]
      constructor
      · rintro ⟨i, _, h⟩
        cases hx : acc[i]? with
        | none => rw [hx] at h; simp at h
        | some x =>
          rw [hx] at h
          simp only [Bool.and_eq_true] at h
          exact ⟨i, x, hx, h.1, h.2⟩
      · rintro ⟨i, x, hx, h1, h2⟩
        refine ⟨i, List.mem_range.2 (List.getElem?_eq_some_iff.1 hx).1, ?_⟩
        rw [hx]
        simp only [Bool.and_eq_true]
        exact ⟨h1, h2⟩
    rw [key]
    constructor
    · rintro ⟨i, x, hx, h1, h2⟩
      have ih := distribute_iff m vs (acc.set i (x.1, x.2 + 1)) (Dj_set m v vs acc i x _ hx hd)
      exact (step m v vs acc i x hx h1 hd).1 (ih.1 h2)
    · intro hp
      obtain ⟨i, x, hx, h1⟩ := hp.1 v List.mem_cons_self
      have ih := distribute_iff m vs (acc.set i (x.1, x.2 + 1)) (Dj_set m v vs acc i x _ hx hd)
      exact ⟨i, x, hx, h1, ih.2 ((step m v vs acc i x hx h1 hd).2 hp)⟩

theorem distribute_eq_independent (m : Stmt → Term → Bool) (vs : List Term) (ts : List Stmt)
    (h : ∀ v ∈ vs, ∀ i j : Nat, i < j → ∀ a b, ts[i]? = some a → ts[j]? = some b → ¬ (m a v = true ∧ m b v = true)) :
    distribute m vs (ts.map fun t => (t, 0))
      = (vs.all (fun v => ts.any fun t => m t v) && ts.all fun t => inInterval t.card (vs.countP (m t))) := by
  have get : ∀ (i : Nat) (a : Stmt × Nat), (ts.map fun t => (t, 0))[i]? = some a → ts[i]? = some a.1 ∧ a.2 = 0 := by
    intro i a ha
    rw [List.getElem?_map] at ha
    cases ht : ts[i]? with
    | none => rw [ht] at ha; simp at ha
    | some t => rw [ht] at ha; simp at ha; subst ha; exact ⟨rfl, rfl⟩
  have hd : Dj m vs (ts.map fun t => (t, 0)) := by
    intro v hv i j hij a b ha hb hab
    rcases Nat.lt_or_gt_of_ne hij with hlt | hlt
    · exact h v hv i j hlt a.1 b.1 (get i a ha).1 (get j b hb).1 hab
    · exact h v hv j i hlt b.1 a.1 (get j b hb).1 (get i a ha).1 ⟨hab.2, hab.1⟩
  rw [Bool.eq_iff_iff, distribute_iff m vs _ hd, Bool.and_eq_true, List.all_eq_true, List.all_eq_true]
  unfold P
  constructor
  · rintro ⟨hc, hn⟩
    refine ⟨?_, ?_⟩
    · intro v hv
      obtain ⟨i, x, hx, hm⟩ := hc v hv
      rw [List.any_eq_true]
      exact ⟨x.1, List.mem_of_getElem? (get i x hx).1, hm⟩
    · intro t ht
      obtain ⟨i, hi⟩ := List.getElem?_of_mem ht
      have := hn i (t, 0) (by rw [List.getElem?_map, hi]; rfl)
      simpa using this
  · rintro ⟨hc, hn⟩
    refine ⟨?_, ?_⟩
    · intro v hv
      have := hc v hv
      rw [List.any_eq_true] at this
      obtain ⟨t, ht, hm⟩ := this
      obtain ⟨i, hi⟩ := List.getElem?_of_mem ht
      exact ⟨i, (t, 0), by rw [List.getElem?_map, hi]; rfl, hm⟩
    · intro i x hx
      obtain ⟨h1, h2⟩ := get i x hx
      have := hn x.1 (List.mem_of_getElem? h1)
      rw [h2]
      simpa using this

theorem all_congr_mem {α} (l : List α) (f g : α → Bool) (h : ∀ x ∈ l, f x = g x) : l.all f = l.all g := by
  induction l with
  | nil => rfl
  | cons a l ih =>
    rw [List.all_cons, List.all_cons, h a List.mem_cons_self, ih (fun x hx => h x (List.mem_cons_of_mem _ hx))]

theorem mem_tcsOf (sh : Shape) (inv : Bool) (p : String) (t : Stmt) :
    t ∈ tcsOf sh inv p ↔ t ∈ sh.stmts ∧ t.inverse = inv ∧ t.prop = p := by
  unfold tcsOf
  rw [List.mem_filter, Bool.and_eq_true, beq_iff_eq, beq_iff_eq]

theorem shex_eq_independent (cfg : Config) (sel : Selection) (g : Graph) (n : String) (sh : Shape)
    (h : ∀ st ∈ sh.stmts, ∀ v ∈ valuesOf g st.inverse n st.prop, ∀ i j : Nat, i < j → ∀ a b,
      (tcsOf sh st.inverse st.prop)[i]? = some a → (tcsOf sh st.inverse st.prop)[j]? = some b →
      ¬ (stmtMatches cfg sel a v = true ∧ stmtMatches cfg sel b v = true)) :
    nodeConformsShEx cfg sel g n sh = nodeConforms cfg sel g n sh := by
  unfold nodeConformsShEx nodeConforms
  have e := all_congr_mem sh.stmts
    (fun st => distribute (stmtMatches cfg sel) (valuesOf g st.inverse n st.prop) ((tcsOf sh st.inverse st.prop).map fun t => (t, 0)))
    (fun st => ((valuesOf g st.inverse n st.prop).all (fun v => (tcsOf sh st.inverse st.prop).any fun t => stmtMatches cfg sel t v) &&
      (tcsOf sh st.inverse st.prop).all fun t => inInterval t.card ((valuesOf g st.inverse n st.prop).countP (stmtMatches cfg sel t))))
    (fun st hst => distribute_eq_independent (stmtMatches cfg sel) _ _ (h st hst))
  rw [e]
  unfold valuesCovered
  rw [Bool.eq_iff_iff, Bool.and_eq_true, List.all_eq_true, List.all_eq_true, List.all_eq_true]
  constructor
  · intro H
    refine ⟨fun st hst => ?_, fun st hst => ?_⟩
    · have h1 := H st hst
      rw [Bool.and_eq_true, List.all_eq_true, List.all_eq_true] at h1
      exact h1.2 st ((mem_tcsOf sh _ _ st).2 ⟨hst, rfl, rfl⟩)
    · have h1 := H st hst
      rw [Bool.and_eq_true, List.all_eq_true, List.all_eq_true] at h1
      rw [List.all_eq_true]
      intro v hv
      have h2 := h1.1 v hv
      rw [List.any_eq_true] at h2 ⊢
      obtain ⟨t, ht, hm⟩ := h2
      obtain ⟨ht1, hi, hp⟩ := (mem_tcsOf sh _ _ t).1 ht
      refine ⟨t, ht1, ?_⟩
      rw [Bool.and_eq_true, Bool.and_eq_true, beq_iff_eq, beq_iff_eq]
      exact ⟨⟨hi, hp⟩, hm⟩
  · rintro ⟨H1, H2⟩ st hst
    rw [Bool.and_eq_true, List.all_eq_true, List.all_eq_true]
    refine ⟨fun v hv => ?_, fun t ht => ?_⟩
    · have h1 := H2 st hst
      rw [List.all_eq_true] at h1
      have h2 := h1 v hv
      rw [List.any_eq_true] at h2 ⊢
      obtain ⟨t, ht, hm⟩ := h2
      rw [Bool.and_eq_true, Bool.and_eq_true, beq_iff_eq, beq_iff_eq] at hm
      exact ⟨t, (mem_tcsOf sh _ _ t).2 ⟨ht, hm.1.1, hm.1.2⟩, hm.2⟩
    · obtain ⟨ht1, hi, hp⟩ := (mem_tcsOf sh _ _ t).1 ht
      have h1 := H1 t ht1
      unfold stmtOk at h1
      rw [hi, hp] at h1
      exact h1

end Shexer.EachOfLemmas
