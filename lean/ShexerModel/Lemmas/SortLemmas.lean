import ShexerModel.Model.Shexer
/-! `list.sort(reverse=True, key=probability)` as modelled by `sortDesc`: a permutation, sorted,
and stable. -/
namespace Shexer
namespace Shexer

theorem insertDesc_perm (x : Stmt) (l : List Stmt) : (insertDesc x l).Perm (x :: l) := by
  induction l with
  | nil => exact List.Perm.refl _
  | cons y ys ih =>
    unfold insertDesc
    by_cases h : y.n ≤ x.n
    · rw [if_pos h]
    · rw [if_neg h]
      exact (List.Perm.cons y ih).trans (List.Perm.swap x y ys)

theorem sortDesc_perm (l : List Stmt) : (sortDesc l).Perm l := by
  induction l with
  | nil => exact List.Perm.refl _
  | cons x xs ih =>
    show (insertDesc x (sortDesc xs)).Perm (x :: xs)
    exact (insertDesc_perm x _).trans (List.Perm.cons x ih)

theorem mem_sortDesc (l : List Stmt) (s : Stmt) : s ∈ sortDesc l ↔ s ∈ l :=
  (sortDesc_perm l).mem_iff

theorem length_sortDesc (l : List Stmt) : (sortDesc l).length = l.length :=
  (sortDesc_perm l).length_eq

/-- descending by `n` -/
def SortedDesc (l : List Stmt) : Prop := l.Pairwise fun a b => b.n ≤ a.n

theorem insertDesc_sorted (x : Stmt) (l : List Stmt) (h : SortedDesc l) : SortedDesc (insertDesc x l) := by
  induction l with
  | nil => simp [insertDesc, SortedDesc]
  | cons y ys ih =>
    unfold insertDesc
    unfold SortedDesc at h
    rw [List.pairwise_cons] at h
    by_cases hc : y.n ≤ x.n
    · rw [if_pos hc]
      unfold SortedDesc
      rw [List.pairwise_cons]
      refine ⟨?_, List.pairwise_cons.mpr h⟩
      intro z hz
      rcases List.mem_cons.mp hz with rfl | hz
      · exact hc
      · exact Nat.le_trans (h.1 z hz) hc
    · rw [if_neg hc]
      unfold SortedDesc
      rw [List.pairwise_cons]
      refine ⟨?_, ih h.2⟩
      intro z hz
      have := (insertDesc_perm x ys).mem_iff.mp hz
      rcases List.mem_cons.mp this with rfl | hz'
      · omega
      · exact h.1 z hz'

theorem sortDesc_sorted (l : List Stmt) : SortedDesc (sortDesc l) := by
  induction l with
  | nil => simp [sortDesc, SortedDesc]
  | cons x xs ih => exact insertDesc_sorted x _ ih

/-- a list that is already sorted is left alone (stability in its simplest form) -/
theorem sortDesc_of_sorted (l : List Stmt) (h : SortedDesc l) : sortDesc l = l := by
  induction l with
  | nil => rfl
  | cons x xs ih =>
    unfold SortedDesc at h
    rw [List.pairwise_cons] at h
    show insertDesc x (sortDesc xs) = x :: xs
    rw [ih h.2]
    cases xs with
    | nil => rfl
    | cons y ys =>
      unfold insertDesc
      rw [if_pos (h.1 y (List.mem_cons_self))]

theorem sortDesc_idem (l : List Stmt) : sortDesc (sortDesc l) = sortDesc l :=
  sortDesc_of_sorted _ (sortDesc_sorted l)

end Shexer
end Shexer
