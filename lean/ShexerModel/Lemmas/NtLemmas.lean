import ShexerModel.Spec.NtGrammar
/-! Round trip of the N-Triples reader model over the grammar of `Spec/NtGrammar.lean`. -/
namespace Shexer
namespace NtGrammar
open Nt

/-! ### blanks -/
theorem blank_not_digit (c : Char) (h : isSpace c = true) : isNumeric c = false := by
  simp only [isSpace, Bool.or_eq_true, Bool.and_eq_true, decide_eq_true_eq, beq_iff_eq] at h
  simp [isNumeric, Char.isDigit, UInt32.le_iff_toNat_le]
  omega

theorem blank_ne {c d : Char} (h : isSpace c = true) (hd : isSpace d = false) : c ≠ d := by
  intro e; subst e; rw [h] at hd; exact Bool.noConfusion hd

/-! ### strip -/
theorem dropWhile_blanks (lead : List Char) (c : Char) (r : List Char) (hl : blanks lead) (hc : isSpace c = false) :
    (lead ++ c :: r).dropWhile isSpace = c :: r := by
  induction lead with
  | nil => simp [hc]
  | cons a l ih =>
    have ha : isSpace a = true := hl a (by simp)
    simp only [List.cons_append, List.dropWhile, ha]
    exact ih (fun x hx => hl x (by simp [hx]))

/-- dropping blanks from the reversed line stops at the final dot at the latest -/
theorem dropWhile_rev_dot (b : List Char) : ∀ r : List Char, ∃ k r', r = k ++ r' ∧
    (r ++ '.' :: b).dropWhile isSpace = r' ++ '.' :: b ∧ (∀ c, r'.head? = some c → isSpace c = false) := by
  intro r
  induction r with
  | nil => exact ⟨[], [], rfl, by simp [show isSpace '.' = false by decide], by simp⟩
  | cons x r ih =>
    by_cases hx : isSpace x = true
    · obtain ⟨k, r', h1, h2, h3⟩ := ih
      refine ⟨x :: k, r', by simp [h1], ?_, h3⟩
      simp only [List.cons_append, List.dropWhile, hx]; exact h2
    · have hx' : isSpace x = false := by simpa using hx
      refine ⟨[], x :: r, rfl, ?_, ?_⟩
      · simp only [List.cons_append, List.dropWhile, hx']
      · intro c hc; simp at hc; subst hc; exact hx'

theorem strip_line (lead body tail : List Char) (c : Char) (hl : blanks lead) (hc : isSpace c = false) :
    ∃ tail' k, tail = tail' ++ k ∧ strip (lead ++ c :: body ++ '.' :: tail) = c :: body ++ '.' :: tail' := by
  obtain ⟨k, r', h1, h2, _⟩ := dropWhile_rev_dot (body.reverse ++ [c]) tail.reverse
  refine ⟨r'.reverse, k.reverse, ?_, ?_⟩
  · have := congrArg List.reverse h1; simpa using this
  · unfold strip
    have e : lead ++ c :: body ++ '.' :: tail = lead ++ c :: (body ++ '.' :: tail) := by simp
    rw [e, dropWhile_blanks lead c _ hl hc]
    have e2 : (c :: (body ++ '.' :: tail)).reverse = tail.reverse ++ '.' :: (body.reverse ++ [c]) := by simp
    rw [e2, h2]; simp

theorem tailOk_prefix {t t' k : List Char} (h : t = t' ++ k) (ht : tailOk t) : tailOk t' := by
  intro c hc
  apply ht c
  cases t' with
  | nil => simp at hc
  | cons a u => simp at hc; subst hc; simp [h]

theorem strip_id (l : List Char) (h1 : ∀ c, l.head? = some c → isSpace c = false)
    (h2 : ∀ c, l.getLast? = some c → isSpace c = false) : strip l = l := by
  unfold strip
  cases l with
  | nil => rfl
  | cons a t =>
    have ha := h1 a rfl
    simp only [List.dropWhile, ha]
    cases hr : (a :: t).reverse with
    | nil => simp at hr
    | cons d u =>
      have hd : (a :: t).getLast? = some d := by
        rw [List.getLast?_eq_head?_reverse, hr]; rfl
      have := h2 d hd
      simp only [List.dropWhile, this]
      rw [← hr]; simp

/-! ### token scanners -/
theorem toCorner_spec (v r : List Char) (hv : ∀ c ∈ v, c ≠ '>') :
    toCorner (v ++ '>' :: r) = some (v ++ ['>'], r) := by
  induction v with
  | nil => simp [toCorner]
  | cons a v ih =>
    have ha : a ≠ '>' := hv a (by simp)
    simp only [List.cons_append, toCorner, ha, if_false]
    rw [ih (fun x hx => hv x (by simp [hx]))]; rfl

/-- the scan predicate of `toBlank` -/
def inTok (c : Char) : Bool := !isSpace c && c != '#'

theorem takeDrop_tok (l r : List Char) (hl : ∀ c ∈ l, inTok c = true) (hr : ∀ c, r.head? = some c → inTok c = false) :
    (l ++ r).takeWhile inTok = l ∧ (l ++ r).dropWhile inTok = r := by
  induction l with
  | nil =>
    cases r with
    | nil => simp
    | cons b t => have := hr b rfl; simp [this]
  | cons a l ih =>
    have ha := hl a (by simp)
    have := ih (fun x hx => hl x (by simp [hx]))
    simp [ha, this]

theorem toBlank_eq (l : List Char) : toBlank l =
    if (l.takeWhile inTok).getLast? = some '.' then ((l.takeWhile inTok).dropLast, '.' :: l.dropWhile inTok)
    else (l.takeWhile inTok, l.dropWhile inTok) := rfl

/-- the token ends before a blank or a comment -/
theorem toBlank_stop (l r : List Char) (hl : ∀ c ∈ l, inTok c = true) (hr : ∀ c, r.head? = some c → inTok c = false)
    (hlast : l.getLast? ≠ some '.') : toBlank (l ++ r) = (l, r) := by
  obtain ⟨h1, h2⟩ := takeDrop_tok l r hl hr
  rw [toBlank_eq, h1, h2, if_neg hlast]

/-- the token is glued to the final dot -/
theorem toBlank_dot (l r : List Char) (hl : ∀ c ∈ l, inTok c = true) (hr : ∀ c, r.head? = some c → inTok c = false) :
    toBlank (l ++ '.' :: r) = (l, '.' :: r) := by
  have hl' : ∀ c ∈ l ++ ['.'], inTok c = true := by
    intro c hc; simp at hc; rcases hc with hc | hc
    · exact hl c hc
    · subst hc; decide
  obtain ⟨h1, h2⟩ := takeDrop_tok (l ++ ['.']) r hl' hr
  have e : l ++ '.' :: r = (l ++ ['.']) ++ r := by simp
  rw [toBlank_eq, e, h1, h2]; simp

theorem closing_quote (r : List Char) : closing ('"' :: r) = some ([], r) := by
  rw [closing.eq_def]; simp
theorem closing_plain (c : Char) (r : List Char) (h1 : c ≠ '"') (h2 : c ≠ '\\') :
    closing (c :: r) = (closing r).map fun (a, b) => (c :: a, b) := by
  rw [closing.eq_def]; simp [h1, h2]
theorem closing_esc (d : Char) (r : List Char) :
    closing ('\\' :: d :: r) = (closing r).map fun (a, b) => ('\\' :: d :: a, b) := by
  rw [closing.eq_def]; simp

theorem closing_spec (content : List Item) (r : List Char) (hc : ∀ i ∈ content, i.Valid) :
    closing (content.flatMap Item.chars ++ '"' :: r) = some (content.flatMap Item.chars, r) := by
  induction content with
  | nil => simp [closing_quote]
  | cons i cs ih =>
    have ih' := ih (fun x hx => hc x (by simp [hx]))
    cases i with
    | plain c =>
      have hv := hc (.plain c) (by simp)
      simp only [List.flatMap_cons, Item.chars, List.cons_append, List.nil_append]
      rw [closing_plain c _ hv.1 hv.2, ih']; rfl
    | esc c =>
      simp only [List.flatMap_cons, Item.chars, List.cons_append, List.nil_append]
      rw [closing_esc, ih']; rfl


theorem tokensAux_cons (f : Nat) (c : Char) (t : List Char) : tokensAux (f + 1) (c :: t) =
    if c = '<' then
      match toCorner (c :: t) with
      | none => none
      | some (tok, rest) => (tokensAux f rest).map (tok :: ·)
    else if c = '"' then
      match literalToken t with
      | none => none
      | some (tok, rest) => (tokensAux f rest).map (tok :: ·)
    else if c = '_' then
      (tokensAux f (toBlank (c :: t)).2).map ((toBlank (c :: t)).1 :: ·)
    else if c = '.' then some []
    else if isNumeric c then
      (tokensAux f (toBlank (c :: t)).2).map ((toBlank (c :: t)).1 :: ·)
    else tokensAux f t := by
  rw [tokensAux]; rfl

theorem tokensAux_blank (f : Nat) (c : Char) (t : List Char) (h : isSpace c = true) :
    tokensAux (f + 1) (c :: t) = tokensAux f t := by
  rw [tokensAux_cons]
  have h1 : c ≠ '<' := blank_ne h (by decide)
  have h2 : c ≠ '"' := blank_ne h (by decide)
  have h3 : c ≠ '_' := blank_ne h (by decide)
  have h4 : c ≠ '.' := blank_ne h (by decide)
  simp [h1, h2, h3, h4, blank_not_digit c h]

theorem tokensAux_blanks (f : Nat) (b l : List Char) (hb : blanks b) :
    tokensAux (f + b.length) (b ++ l) = tokensAux f l := by
  induction b with
  | nil => rfl
  | cons a b ih =>
    have ha := hb a (by simp)
    rw [List.length_cons, ← Nat.add_assoc, List.cons_append, tokensAux_blank _ _ _ ha]
    exact ih (fun x hx => hb x (by simp [hx]))

theorem tokensAux_dot (f : Nat) (t : List Char) : tokensAux (f + 1) ('.' :: t) = some [] := by
  rw [tokensAux_cons]; simp

theorem tokensAux_succ : ∀ (f : Nat) (l : List Char) (r : List (List Char)),
    tokensAux f l = some r → tokensAux (f + 1) l = some r := by
  intro f
  induction f with
  | zero => intro l r h; simp [tokensAux] at h
  | succ n ih =>
    intro l r h
    cases l with
    | nil => simp [tokensAux] at h ⊢; exact h
    | cons c t =>
      have key : ∀ (tok : List Char) (rest : List Char), (tokensAux n rest).map (tok :: ·) = some r →
          (tokensAux (n + 1) rest).map (tok :: ·) = some r := by
        intro tok rest hm
        cases hx : tokensAux n rest with
        | none => rw [hx] at hm; simp at hm
        | some y => rw [hx] at hm; rw [ih _ _ hx]; exact hm
      rw [tokensAux_cons] at h ⊢
      by_cases h1 : c = '<'
      · simp only [h1, if_true] at h ⊢
        cases hc : toCorner ('<' :: t) with
        | none => rw [hc] at h; simp at h
        | some p => rw [hc] at h; exact key _ _ h
      · simp only [h1, if_false] at h ⊢
        by_cases h2 : c = '"'
        · simp only [h2, if_true] at h ⊢
          cases hc : literalToken t with
          | none => rw [hc] at h; simp at h
          | some p => rw [hc] at h; exact key _ _ h
        · simp only [h2, if_false] at h ⊢
          by_cases h3 : c = '_'
          · simp only [h3, if_true] at h ⊢; exact key _ _ h
          · simp only [h3, if_false] at h ⊢
            by_cases h4 : c = '.'
            · simp only [h4, if_true] at h ⊢; exact h
            · simp only [h4, if_false] at h ⊢
              by_cases h5 : isNumeric c = true
              · simp only [h5, if_true] at h ⊢; exact key _ _ h
              · simp only [h5] at h ⊢; exact ih _ _ h

theorem tokensAux_mono (f g : Nat) (l : List Char) (r : List (List Char)) (h : tokensAux f l = some r) (hfg : f ≤ g) :
    tokensAux g l = some r := by
  induction hfg with
  | refl => exact h
  | step _ ih => exact tokensAux_succ _ _ _ ih


/-- what follows a token in a rendered line: a blank, or the final dot followed by a blank, a comment or nothing -/
def Rest (R : List Char) : Prop :=
  (∃ b t, R = b :: t ∧ isSpace b = true) ∨ (∃ t, R = '.' :: t ∧ ∀ c, t.head? = some c → inTok c = false)

theorem toBlank_rest (l R : List Char) (hl : ∀ c ∈ l, inTok c = true) (hlast : l.getLast? ≠ some '.') (hR : Rest R) :
    toBlank (l ++ R) = (l, R) := by
  rcases hR with ⟨b, t, rfl, hb⟩ | ⟨t, rfl, ht⟩
  · apply toBlank_stop l _ hl _ hlast
    intro c hc; simp at hc; subst hc; simp [inTok, hb]
  · exact toBlank_dot l t hl ht

theorem Rest.head {R : List Char} (hR : Rest R) : ∃ x t, R = x :: t ∧ x ≠ '@' ∧ x ≠ '^' := by
  rcases hR with ⟨b, t, rfl, hb⟩ | ⟨t, rfl, _⟩
  · exact ⟨b, t, rfl, blank_ne hb (by decide), blank_ne hb (by decide)⟩
  · exact ⟨'.', t, rfl, by decide, by decide⟩

theorem getLast?_cons_ne {a : Char} {l : List Char} (hl : l ≠ []) : (a :: l).getLast? = l.getLast? := by
  cases l with
  | nil => exact absurd rfl hl
  | cons b t => simp [List.getLast?]

theorem literalToken_spec (content : List Item) (sf : Suffix) (R : List Char) (hc : ∀ i ∈ content, i.Valid)
    (hs : sf.Valid) (hR : Rest R) :
    literalToken (content.flatMap Item.chars ++ '"' :: (sf.chars ++ R)) =
      some ('"' :: content.flatMap Item.chars ++ ['"'] ++ sf.chars, R) := by
  unfold literalToken
  rw [closing_spec content _ hc]
  cases sf with
  | none =>
    obtain ⟨x, t, rfl, h1, h2⟩ := hR.head
    simp only [Suffix.chars, List.nil_append, List.append_nil]
    split <;> simp_all
  | lang tag =>
    obtain ⟨hne, htag, hlast⟩ := hs
    have hl : ∀ c ∈ '@' :: tag, inTok c = true := by
      intro c hc; simp at hc; rcases hc with rfl | hc
      · decide
      · have := htag c hc; simp [inTok, this.1, this.2.2]
    have hlast' : ('@' :: tag).getLast? ≠ some '.' := by rw [getLast?_cons_ne hne]; exact hlast
    have := toBlank_rest ('@' :: tag) R hl hlast' hR
    simp only [Suffix.chars, List.cons_append] at this ⊢
    simp [this]
  | dt d =>
    have hv : ∀ c ∈ '^' :: '^' :: '<' :: d, c ≠ '>' := by
      intro c hc; simp only [List.mem_cons] at hc; rcases hc with rfl | rfl | rfl | hc
      · decide
      · decide
      · decide
      · exact (hs c hc).1
    have := toCorner_spec ('^' :: '^' :: '<' :: d) R hv
    have e : "^^<".toList = ['^', '^', '<'] := by simp
    simp only [Suffix.chars, e, List.cons_append, List.nil_append, List.append_assoc] at this ⊢
    simp [this]

theorem node_token (n : Node) (hn : n.Valid) (R : List Char) (hR : Rest R) (f : Nat) :
    tokensAux (f + 1) (n.chars ++ R) = (tokensAux f R).map (n.chars :: ·) := by
  cases n with
  | iri v =>
    have hv : ∀ c ∈ '<' :: v, c ≠ '>' := by
      intro c hc; simp at hc; rcases hc with rfl | hc
      · decide
      · exact hn c hc
    have := toCorner_spec ('<' :: v) R hv
    simp only [Node.chars, List.cons_append, List.append_assoc, List.nil_append] at this ⊢
    rw [tokensAux_cons]; simp [this]
  | bnode l =>
    obtain ⟨hne, hl, hlast⟩ := hn
    have hl' : ∀ c ∈ '_' :: ':' :: l, inTok c = true := by
      intro c hc; simp at hc; rcases hc with rfl | rfl | hc
      · decide
      · decide
      · have := hl c hc; simp [inTok, this.1, this.2]
    have hlast' : ('_' :: ':' :: l).getLast? ≠ some '.' := by
      rw [getLast?_cons_ne (by simp), getLast?_cons_ne hne]; exact hlast
    have := toBlank_rest ('_' :: ':' :: l) R hl' hlast' hR
    simp only [Node.chars, List.cons_append] at this ⊢
    rw [tokensAux_cons]; simp [this]
  | lit content sf =>
    have := literalToken_spec content sf R hn.1 hn.2 hR
    simp only [Node.chars, List.cons_append, List.append_assoc, List.nil_append] at this ⊢
    rw [tokensAux_cons]; simp [this]


theorem takeWhile_append_stop {α} (p : α → Bool) (a : List α) (x : α) (X : List α) (ha : ∀ c ∈ a, p c = true)
    (hx : p x = false) : (a ++ x :: X).takeWhile p = a := by
  induction a with
  | nil => simp [hx]
  | cons b a ih => simp [ha b (by simp), ih (fun c hc => ha c (by simp [hc]))]

theorem afterLastQuote_spec (pre sfx : List Char) (hs : ∀ c ∈ sfx, c ≠ '"') :
    afterLastQuote (pre ++ ['"'] ++ sfx) = sfx := by
  unfold afterLastQuote
  have e : (pre ++ ['"'] ++ sfx).reverse = sfx.reverse ++ '"' :: pre.reverse := by simp
  rw [e, takeWhile_append_stop _ _ _ _ (by intro c hc; simp at hc; simpa using hs c hc) (by simp)]
  simp

theorem removeCorners_iri (v : List Char) : removeCorners ('<' :: v ++ ['>']) = .ok (String.ofList v) := by
  simp [removeCorners, startsWith, endsWith, pure, Except.pure]

theorem decideType_none (tok : List Char) (h : afterLastQuote tok = []) : decideType tok = .ok Gen.STRING_TYPE := by
  simp [decideType, h, strip, startsWith, pure, Except.pure]

theorem decideType_lang (tok tag : List Char) (h : afterLastQuote tok = '@' :: tag)
    (hst : strip ('@' :: tag) = '@' :: tag) : decideType tok = .ok Gen.LANG_STRING_TYPE := by
  simp [decideType, h, hst, startsWith, pure, Except.pure]

theorem decideType_dt (tok d : List Char) (h : afterLastQuote tok = '^' :: '^' :: '<' :: (d ++ ['>']))
    (hst : strip ('^' :: '^' :: '<' :: (d ++ ['>'])) = '^' :: '^' :: '<' :: (d ++ ['>'])) :
    decideType tok = .ok (String.ofList d) := by
  simp [decideType, h, hst, startsWith, endsWith, pure, Except.pure]

theorem tune_iri (tok : List Char) (s : String) (h1 : startsWith tok "<" = true) (h2 : removeCorners tok = .ok s) :
    tuneToken tok = .ok (.iri s) := by
  simp [tuneToken, h1, h2, bind, Except.bind, pure, Except.pure]

theorem tune_lit (tok : List Char) (d : String) (h0 : startsWith tok "<" = false) (h1 : startsWith tok "\"" = true)
    (h2 : decideType tok = .ok d) : tuneToken tok = .ok (.lit d) := by
  simp [tuneToken, h0, h1, h2, bind, Except.bind, pure, Except.pure]

theorem decideType_lit (content : List Item) (sf : Suffix) (hs : sf.Valid) :
    decideType ('"' :: content.flatMap Item.chars ++ ['"'] ++ sf.chars) =
      .ok (match sf with | .none => Gen.STRING_TYPE | .lang _ => Gen.LANG_STRING_TYPE | .dt d => String.ofList d) := by
  cases sf with
  | none =>
    exact decideType_none _ (afterLastQuote_spec ('"' :: content.flatMap Item.chars) [] (by simp))
  | lang tag =>
    obtain ⟨hne, htag, hlast⟩ := hs
    have h := afterLastQuote_spec ('"' :: content.flatMap Item.chars) ('@' :: tag) (by
      intro c hc; simp at hc; rcases hc with rfl | hc
      · decide
      · exact (htag c hc).2.1)
    have hst : strip ('@' :: tag) = '@' :: tag := by
      apply strip_id
      · intro c hc; simp at hc; subst hc; decide
      · intro c hc; rw [getLast?_cons_ne hne] at hc
        exact (htag c (List.mem_of_getLast? hc)).1
    exact decideType_lang _ tag h hst
  | dt d =>
    have e : (Suffix.dt d).chars = '^' :: '^' :: '<' :: (d ++ ['>']) := by simp [Suffix.chars]
    rw [e]
    have h := afterLastQuote_spec ('"' :: content.flatMap Item.chars) ('^' :: '^' :: '<' :: (d ++ ['>'])) (by
      intro c hc; simp only [List.mem_cons, List.mem_append] at hc
      rcases hc with rfl | rfl | rfl | hc | hc
      · decide
      · decide
      · decide
      · exact (hs c hc).2
      · simp at hc; subst hc; decide)
    have hst : strip ('^' :: '^' :: '<' :: (d ++ ['>'])) = '^' :: '^' :: '<' :: (d ++ ['>']) := by
      apply strip_id
      · intro c hc; simp at hc; subst hc; decide
      · intro c hc
        have : ('^' :: '^' :: '<' :: (d ++ ['>'])).getLast? = some '>' :=
          List.getLast?_concat (l := '^' :: '^' :: '<' :: d)
        rw [this] at hc; simp at hc; subst hc; decide
    exact decideType_dt _ d h hst

theorem tune_node (n : Node) (hn : n.Valid) : tuneToken n.chars = .ok n.term := by
  cases n with
  | iri v => exact tune_iri _ _ (by simp [Node.chars, startsWith]) (removeCorners_iri v)
  | bnode l => simp [tuneToken, startsWith, Node.chars, Node.term, pure, Except.pure]
  | lit content sf =>
    have := tune_lit _ _ (by simp [startsWith, List.isPrefixOf]) (by simp [startsWith, List.isPrefixOf]) (decideType_lit content sf hn.2)
    cases sf <;> exact this


theorem node_chars_head (n : Node) : ∃ c s', n.chars = c :: s' ∧ isSpace c = false := by
  cases n with
  | iri v => exact ⟨'<', v ++ ['>'], rfl, by decide⟩
  | bnode l => exact ⟨'_', ':' :: l, rfl, by decide⟩
  | lit content sf => exact ⟨'"', content.flatMap Item.chars ++ ['"'] ++ sf.chars, by simp [Node.chars], by decide⟩

theorem tokensAux_iri (f : Nat) (p R : List Char) (hp : iriOk p) (hR : Rest R) :
    tokensAux (f + 1) ('<' :: p ++ '>' :: R) = (tokensAux f R).map (('<' :: p ++ ['>']) :: ·) := by
  have := node_token (.iri p) hp R hR f
  simpa [Node.chars] using this

theorem rest_blanks (b X : List Char) (hb : blanks b) (hne : b ≠ []) : Rest (b ++ X) := by
  cases b with
  | nil => exact absurd rfl hne
  | cons a t => exact Or.inl ⟨a, t ++ X, rfl, hb a (by simp)⟩

theorem rest_dot (dot t : List Char) (hb : blanks dot) (ht : tailOk t) : Rest (dot ++ '.' :: t) := by
  cases dot with
  | nil =>
    refine Or.inr ⟨t, rfl, ?_⟩
    intro c hc
    rcases ht c hc with h | h
    · simp [inTok, h]
    · simp [inTok, h]
  | cons a d => exact rest_blanks _ _ hb (by simp)

theorem tokens_line (s o : Node) (p sep1 sep2 dot t : List Char) (hs : s.Valid) (ho : o.Valid) (hp : iriOk p)
    (h1 : blanks sep1) (h1' : sep1 ≠ []) (h2 : blanks sep2) (h2' : sep2 ≠ []) (hd : blanks dot) (ht : tailOk t) :
    tokens (s.chars ++ (sep1 ++ ('<' :: p ++ '>' :: (sep2 ++ (o.chars ++ (dot ++ '.' :: t)))))) =
      some [s.chars, '<' :: p ++ ['>'], o.chars] := by
  unfold tokens
  apply tokensAux_mono (((((((0 + 1) + dot.length) + 1) + sep2.length) + 1) + sep1.length) + 1)
  · rw [node_token s hs _ (rest_blanks _ _ h1 h1'), tokensAux_blanks _ _ _ h1,
      tokensAux_iri _ _ _ hp (rest_blanks _ _ h2 h2'), tokensAux_blanks _ _ _ h2,
      node_token o ho _ (rest_dot _ _ hd ht), tokensAux_blanks _ _ _ hd, tokensAux_dot]
    rfl
  · simp only [List.length_append, List.length_cons]
    omega

/-- **the reader yields the triple of the statement**, whatever the lexical form of a literal contains and however
the line is laid out -/
theorem parseLine_render (st : Stmt) (lay : Layout) (hst : st.Valid) (hl : lay.Valid) :
    parseLine (render st lay) = .ok (some st.triple) := by
  obtain ⟨hs, _, hp, ho⟩ := hst
  obtain ⟨hlead, h1, h1', h2, h2', hd, ht⟩ := hl
  obtain ⟨c, s', hc, hcb⟩ := node_chars_head st.s
  obtain ⟨t', k, hk, hstrip⟩ := strip_line lay.lead
    (s' ++ lay.sep1 ++ ('<' :: st.p ++ ['>']) ++ lay.sep2 ++ st.o.chars ++ lay.dot) lay.tail c hlead hcb
  have e1 : render st lay = lay.lead ++ c ::
      (s' ++ lay.sep1 ++ ('<' :: st.p ++ ['>']) ++ lay.sep2 ++ st.o.chars ++ lay.dot) ++ '.' :: lay.tail := by
    simp [render, hc]
  have e2 : c :: (s' ++ lay.sep1 ++ ('<' :: st.p ++ ['>']) ++ lay.sep2 ++ st.o.chars ++ lay.dot) ++ '.' :: t' =
      st.s.chars ++ (lay.sep1 ++ ('<' :: st.p ++ '>' :: (lay.sep2 ++ (st.o.chars ++ (lay.dot ++ '.' :: t'))))) := by
    simp [hc]
  unfold parseLine
  rw [e1, hstrip, e2, tokens_line st.s st.o st.p _ _ _ t' hs ho hp h1 h1' h2 h2' hd (tailOk_prefix hk ht)]
  have hrc : removeCorners ('<' :: (st.p ++ ['>'])) = .ok (String.ofList st.p) := removeCorners_iri st.p
  simp [tune_node _ hs, tune_node _ ho, hrc, Stmt.triple, bind, Except.bind, pure, Except.pure]

/-- the body of the loop of `readLines` -/
def readStep (acc : List Triple × Nat) (l : List Char) : Except Err (List Triple × Nat) := do
  match ← parseLine l with
  | some t => pure (acc.1 ++ [t], acc.2)
  | none => pure (acc.1, acc.2 + 1)

theorem readLines_eq (lines : List (List Char)) : readLines lines = lines.foldlM readStep ([], 0) := rfl

theorem readLines_aux (doc : List (Stmt × Layout)) (h : ∀ x ∈ doc, x.1.Valid ∧ x.2.Valid) (acc : List Triple × Nat) :
    (doc.map fun x => render x.1 x.2).foldlM readStep acc = .ok (acc.1 ++ doc.map (fun x => x.1.triple), acc.2) := by
  induction doc generalizing acc with
  | nil => simp [pure, Except.pure]
  | cons x xs ih =>
    have hx := h x (by simp)
    have hstep : readStep acc (render x.1 x.2) = .ok (acc.1 ++ [x.1.triple], acc.2) := by
      simp [readStep, parseLine_render x.1 x.2 hx.1 hx.2, bind, Except.bind, pure, Except.pure]
    rw [List.map_cons, List.foldlM_cons, hstep]
    simp only [bind, Except.bind]
    rw [ih (fun y hy => h y (by simp [hy]))]
    simp

/-- a document: every line yields its triple, in order, and no line is counted as an error -/
theorem readLines_render (doc : List (Stmt × Layout)) (h : ∀ x ∈ doc, x.1.Valid ∧ x.2.Valid) :
    readLines (doc.map fun x => render x.1 x.2) = .ok (doc.map fun x => x.1.triple, 0) := by
  rw [readLines_eq, readLines_aux doc h]; simp

end NtGrammar
end Shexer
