import ShexerModel.GeneratedStr
import ShexerModel.Lemmas.PyOpsLemmas
/-! `GenS.build_shapes_name_for_class_uri` (regenerated from /repo) = `Profiler.shapeName`. -/
namespace Shexer
namespace GenStr
open PyOps

theorem slice_1 (l : List Char) : slice l (some (1 : Int)) none = l.drop 1 := slice_from l 1

theorem stage1 (cs : List Char) :
    (if (PyOps.isIn "#".toList cs && !PyOps.endsWith cs "#".toList) = true then
        PyOps.slice cs (some (PyOps.rfind cs "#".toList + (1 : Int))) none else cs)
    = (if (cs.contains '#' && cs.getLast? != some '#') = true then PyStr.afterLast cs '#' else cs) := by
  have e : "#".toList = ['#'] := by simp
  rw [e, isIn_single, not_endsWith_single, slice_rfind_afterLast]

theorem stage2 (l1 : List Char) :
    (if PyOps.isIn "/".toList l1 = true then
        (if (!PyOps.endsWith l1 "/".toList) = true then PyOps.slice l1 (some (PyOps.rfind l1 "/".toList + (1 : Int))) none
         else PyOps.slice l1 (some (PyOps.rfind (PyOps.slice l1 none (some (-(1 : Int)))) "/".toList + (1 : Int))) none)
      else l1)
    = (if l1.contains '/' = true then
        (if (l1.getLast? != some '/') = true then PyStr.afterLast l1 '/'
         else match PyStr.rfindIdx l1.dropLast '/' with
              | none => l1
              | some i => l1.drop (i + 1))
       else l1) := by
  have e : "/".toList = ['/'] := by simp
  rw [e, isIn_single, not_endsWith_single, slice_rfind_afterLast, slice_to_neg1, slice_rfind]
  cases PyStr.rfindIdx l1.dropLast '/' <;> rfl

theorem stage3 (l2 : List Char) :
    (if PyOps.endsWith l2 ">".toList = true then PyOps.slice l2 none (some (-(1 : Int))) else l2)
    = (if PyStr.endsWith l2 ['>'] = true then l2.dropLast else l2) := by
  have e : ">".toList = ['>'] := by simp
  rw [e, slice_to_neg1]; rfl

theorem stage4 (l3 : List Char) :
    (if PyOps.startsWith l3 "<".toList = true then PyOps.slice l3 (some (1 : Int)) none else l3)
    = (if PyStr.startsWith l3 ['<'] = true then l3.drop 1 else l3) := by
  have e : "<".toList = ['<'] := by simp
  rw [e, slice_1]; rfl

/-- `build_shapes_name_for_class_uri(class_uri, shapes_namespace)` is `Profiler.shapeName` -/
theorem shape_name (c ns : String) :
    GenS.build_shapes_name_for_class_uri c.toList ns.toList = .ok (Profiler.shapeName c ns).toList := by
  have e1 : "@".toList = ['@'] := by simp
  have e2 : "<".toList = ['<'] := by simp
  have e3 : ">".toList = ['>'] := by simp
  simp only [GenS.build_shapes_name_for_class_uri, Profiler.shapeName, stage1, stage2, stage3, stage4]
  simp only [startsWith_eq', endsWith_eq', e1, e2, e3]
  by_cases c1 : PyStr.startsWith c.toList ['@'] = true
  · simp only [c1, ↓reduceIte]; rfl
  by_cases c2 : (PyStr.startsWith c.toList ['<'] && PyStr.endsWith c.toList ['>']) = true
  · simp only [c1, c2, Bool.false_eq_true, ↓reduceIte, Gen.STARTING_CHAR_FOR_SHAPE_NAME, String.toList_append]; rfl
  simp only [c1, c2, Bool.false_eq_true, ↓reduceIte, Gen.STARTING_CHAR_FOR_SHAPE_NAME, String.toList_append,
    String.toList_ofList, pure, Except.pure, e2, e3]
  rfl


end GenStr
end Shexer
