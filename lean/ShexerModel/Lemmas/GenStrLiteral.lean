import ShexerModel.GeneratedStr
import ShexerModel.Lemmas.PyOpsLemmas
/-! `GenS.decide_literal_type` (regenerated from /repo) = the reader models' `decideType`. -/
namespace Shexer
namespace GenStr
open PyOps

theorem slice_3_neg1 (l : List Char) : slice l (some (3 : Int)) (some (-(1 : Int))) = (l.drop 3).dropLast := slice_from_to_neg1 l 3
theorem slice_5 (l : List Char) : slice l (some (5 : Int)) none = l.drop 5 := slice_from l 5
theorem slice_6 (l : List Char) : slice l (some (6 : Int)) none = l.drop 6 := slice_from l 6

/-- `decide_literal_type(tok)` (no base namespace) is `Nt.decideType` -/
theorem decide_literal_type_nt (resolve : List Char → List Char → List Char) (tok : List Char) :
    GenS.decide_literal_type resolve tok none = convNt (Nt.decideType tok) := by
  simp only [GenS.decide_literal_type, Nt.decideType, slice_rfind_quote, strip_eq, startsWith_eq, endsWith_eq,
    slice_3_neg1, slice_5, slice_6]
  generalize Nt.strip (Nt.afterLastQuote tok) = suffix
  by_cases c1 : Nt.startsWith suffix "@" = true
  · simp only [c1, ↓reduceIte]; rfl
  by_cases c2 : (!Nt.startsWith suffix "^^") = true
  · simp only [c1, c2, ↓reduceIte]; rfl
  by_cases c3 : (Nt.startsWith suffix "^^<" && Nt.endsWith suffix ">") = true
  · simp only [c1, c2, c3, Bool.false_eq_true, ↓reduceIte]
    simp only [convNt, pure, Except.pure, String.toList_ofList]
  by_cases c4 : Nt.startsWith suffix "^^xsd:" = true
  · simp only [c1, c2, c3, c4, Bool.false_eq_true, ↓reduceIte, convNt, pure, Except.pure, String.toList_append, String.toList_ofList, Gen.XSD_NAMESPACE]
  by_cases c5 : Nt.startsWith suffix "^^rdf:" = true
  · simp only [c1, c2, c3, c4, c5, Bool.false_eq_true, ↓reduceIte, convNt, pure, Except.pure, String.toList_append, String.toList_ofList, Gen.RDF_SYNTAX_NAMESPACE]
  by_cases c6 : Nt.startsWith suffix "^^dt:" = true
  · simp only [c1, c2, c3, c4, c5, c6, Bool.false_eq_true, ↓reduceIte, convNt, pure, Except.pure, String.toList_append, String.toList_ofList, Gen.DT_NAMESPACE]
  by_cases c7 : Nt.startsWith suffix "^^geo:" = true
  · simp only [c1, c2, c3, c4, c5, c6, c7, Bool.false_eq_true, ↓reduceIte, convNt, pure, Except.pure, String.toList_append, String.toList_ofList, Gen.OPENGIS_NAMESPACE]
  simp only [c1, c2, c3, c4, c5, c6, c7]; rfl

/-- `decide_literal_type(tok, base_namespace)` is `Ttl.decideType` -/
theorem decide_literal_type_ttl (resolve : List Char → List Char → List Char) (tok : List Char) (base : Option (List Char)) :
    GenS.decide_literal_type resolve tok base = convTtl (Ttl.decideType resolve base tok) := by
  simp only [GenS.decide_literal_type, Ttl.decideType, slice_rfind_quote, strip_eq, startsWith_eq, endsWith_eq,
    slice_3_neg1, slice_5, slice_6]
  generalize Nt.strip (Nt.afterLastQuote tok) = suffix
  by_cases c1 : Nt.startsWith suffix "@" = true
  · simp only [c1, ↓reduceIte]; rfl
  by_cases c2 : (!Nt.startsWith suffix "^^") = true
  · simp only [c1, c2, ↓reduceIte]; rfl
  by_cases c3 : (Nt.startsWith suffix "^^<" && Nt.endsWith suffix ">") = true
  · simp only [c1, c2, c3, Bool.false_eq_true, ↓reduceIte]
    cases base with
    | none => simp only [convTtl, pure, Except.pure, String.toList_ofList]
    | some b => simp only [convTtl, pure, Except.pure, String.toList_ofList]
  by_cases c4 : Nt.startsWith suffix "^^xsd:" = true
  · simp only [c1, c2, c3, c4, Bool.false_eq_true, ↓reduceIte, convTtl, pure, Except.pure, String.toList_append, String.toList_ofList, Gen.XSD_NAMESPACE]
  by_cases c5 : Nt.startsWith suffix "^^rdf:" = true
  · simp only [c1, c2, c3, c4, c5, Bool.false_eq_true, ↓reduceIte, convTtl, pure, Except.pure, String.toList_append, String.toList_ofList, Gen.RDF_SYNTAX_NAMESPACE]
  by_cases c6 : Nt.startsWith suffix "^^dt:" = true
  · simp only [c1, c2, c3, c4, c5, c6, Bool.false_eq_true, ↓reduceIte, convTtl, pure, Except.pure, String.toList_append, String.toList_ofList, Gen.DT_NAMESPACE]
  by_cases c7 : Nt.startsWith suffix "^^geo:" = true
  · simp only [c1, c2, c3, c4, c5, c6, c7, Bool.false_eq_true, ↓reduceIte, convTtl, pure, Except.pure, String.toList_append, String.toList_ofList, Gen.OPENGIS_NAMESPACE]
  simp only [c1, c2, c3, c4, c5, c6, c7]; rfl


end GenStr
end Shexer
