import ShexerModel.Lemmas.FeatLemmas
import ShexerModel.Lemmas.TrackerLemmas
/-! Pass 2 (`_build_shape_of_instances`): after the fold, the feature dictionary of every selected
node holds, for each (property, type), the declarative count `Spec.outCount` / `Spec.inCount`. -/
namespace Shexer
namespace Profiler
open Dict

/-- classes recorded for a key (`none` when the key is not an instance) -/
def cls (d : IDict) (k : String) : Option (List String) := (Dict.get? d k).map (·.classes)

def dcount (d : IDict) (n p ty : String) : Nat :=
  match Dict.get? d n with
  | some ni => fget ni.direct p ty
  | none => 0

def icount (d : IDict) (n p ty : String) : Nat :=
  match Dict.get? d n with
  | some ni => fget ni.inverse p ty
  | none => 0

/-- types bumped by `_annotate_target_subject` for triple `t` -/
def subjBumps (cfg : Config) (d : IDict) (t : Triple) : List String :=
  let ty := typeOf cfg t.p t.o
  ty :: (if ty == Gen.IRI_ELEM_TYPE || ty == Gen.BNODE_ELEM_TYPE then shapesOf d t.o.key else [])

/-- types bumped by `_annotate_target_object` for triple `t` -/
def objBumps (cfg : Config) (d : IDict) (t : Triple) : List String :=
  let ty := typeOf cfg t.p t.s
  ty :: (if ty == Gen.IRI_ELEM_TYPE then shapesOf d t.s.key else [])

theorem shapesOf_congr (d d' : IDict) (k : String) (h : cls d k = cls d' k) : shapesOf d k = shapesOf d' k := by
  unfold shapesOf
  unfold cls at h
  cases h1 : Dict.get? d k <;> cases h2 : Dict.get? d' k <;> simp_all

theorem subjBumps_congr (cfg : Config) (d d' : IDict) (t : Triple) (h : ∀ k, cls d k = cls d' k) :
    subjBumps cfg d t = subjBumps cfg d' t := by
  unfold subjBumps; rw [shapesOf_congr d d' _ (h _)]

theorem objBumps_congr (cfg : Config) (d d' : IDict) (t : Triple) (h : ∀ k, cls d k = cls d' k) :
    objBumps cfg d t = objBumps cfg d' t := by
  unfold objBumps; rw [shapesOf_congr d d' _ (h _)]

theorem get?_annotateSubject (cfg : Config) (d : IDict) (t : Triple) (n : String) :
    Dict.get? (annotateSubject cfg d t) n =
      if t.s.key = n then
        some { (Dict.get? d n).getD default with direct := bumpAll ((Dict.get? d n).getD default).direct t.p (subjBumps cfg d t) }
      else Dict.get? d n := by
  unfold annotateSubject subjBumps
  rw [Dict.get?_upd]
  by_cases h : t.s.key = n
  · subst h; simp
  · simp [h]

theorem get?_annotateObject (cfg : Config) (d : IDict) (t : Triple) (n : String) :
    Dict.get? (annotateObject cfg d t) n =
      if t.o.key = n then
        some { (Dict.get? d n).getD default with inverse := bumpAll ((Dict.get? d n).getD default).inverse t.p (objBumps cfg d t) }
      else Dict.get? d n := by
  unfold annotateObject objBumps
  rw [Dict.get?_upd]
  by_cases h : t.o.key = n
  · subst h; simp
  · simp [h]

theorem isInstance_key {d : IDict} {t : Term} (h : isInstance d t = true) : ∃ ni, Dict.get? d t.key = some ni := by
  unfold isInstance Dict.contains at h
  simp only [Bool.and_eq_true] at h
  cases hg : Dict.get? d t.key with
  | none => rw [hg] at h; simp at h
  | some ni => exact ⟨ni, rfl⟩

/-- one annotation of a subject: classes and membership untouched, direct count bumped -/
theorem annotateSubject_spec (cfg : Config) (d : IDict) (t : Triple) (hi : isInstance d t.s = true) :
    (∀ k, cls (annotateSubject cfg d t) k = cls d k)
    ∧ (∀ n p ty, dcount (annotateSubject cfg d t) n p ty =
        dcount d n p ty + (if t.s.key = n ∧ t.p = p then (subjBumps cfg d t).count ty else 0))
    ∧ (∀ n p ty, icount (annotateSubject cfg d t) n p ty = icount d n p ty) := by
  obtain ⟨ni, hni⟩ := isInstance_key hi
  refine ⟨?_, ?_, ?_⟩
  · intro k
    unfold cls
    rw [get?_annotateSubject]
    by_cases h : t.s.key = k
    · subst h; simp [hni]
    · simp [h]
  · intro n p ty
    unfold dcount
    rw [get?_annotateSubject]
    by_cases h : t.s.key = n
    · subst h
      simp only [if_true, hni, Option.getD_some, true_and]
      rw [fget_bumpAll]
    · simp [h]
  · intro n p ty
    unfold icount
    rw [get?_annotateSubject]
    by_cases h : t.s.key = n
    · subst h; simp [hni]
    · simp [h]

theorem annotateObject_spec (cfg : Config) (d : IDict) (t : Triple) (hi : isInstance d t.o = true) :
    (∀ k, cls (annotateObject cfg d t) k = cls d k)
    ∧ (∀ n p ty, icount (annotateObject cfg d t) n p ty =
        icount d n p ty + (if t.o.key = n ∧ t.p = p then (objBumps cfg d t).count ty else 0))
    ∧ (∀ n p ty, dcount (annotateObject cfg d t) n p ty = dcount d n p ty) := by
  obtain ⟨ni, hni⟩ := isInstance_key hi
  refine ⟨?_, ?_, ?_⟩
  · intro k
    unfold cls
    rw [get?_annotateObject]
    by_cases h : t.o.key = k
    · subst h; simp [hni]
    · simp [h]
  · intro n p ty
    unfold icount
    rw [get?_annotateObject]
    by_cases h : t.o.key = n
    · subst h
      simp only [if_true, hni, Option.getD_some, true_and]
      rw [fget_bumpAll]
    · simp [h]
  · intro n p ty
    unfold dcount
    rw [get?_annotateObject]
    by_cases h : t.o.key = n
    · subst h; simp [hni]
    · simp [h]

theorem isInstance_congr (d d' : IDict) (t : Term) (h : ∀ k, cls d k = cls d' k) : isInstance d t = isInstance d' t := by
  unfold isInstance Dict.contains
  have := h t.key
  unfold cls at this
  cases h1 : Dict.get? d t.key <;> cases h2 : Dict.get? d' t.key <;> simp_all

/-- contribution of one triple to the outgoing count of `(n, p, ty)` -/
def dContrib (cfg : Config) (d : IDict) (t : Triple) (n p ty : String) : Nat :=
  if isInstance d t.s = true ∧ t.s.key = n ∧ t.p = p then (subjBumps cfg d t).count ty else 0

/-- contribution of one triple to the incoming count of `(n, p, ty)` (only with `inverse_paths`) -/
def iContrib (cfg : Config) (d : IDict) (t : Triple) (n p ty : String) : Nat :=
  if cfg.inverse = true ∧ isInstance d t.o = true ∧ t.o.key = n ∧ t.p = p then (objBumps cfg d t).count ty else 0

/-- subject phase of one step -/
def phase1 (cfg : Config) (d : IDict) (t : Triple) : IDict :=
  if isInstance d t.s = true then annotateSubject cfg d t else d

/-- object phase of one step (only with `inverse_paths`) -/
def phase2 (cfg : Config) (d : IDict) (t : Triple) : IDict :=
  if cfg.inverse = true ∧ isInstance d t.o = true then annotateObject cfg d t else d

theorem step_eq (cfg : Config) (d : IDict) (t : Triple) : step cfg d t = phase2 cfg (phase1 cfg d t) t := by
  unfold step phase1 phase2
  by_cases hinv : cfg.inverse = true
  · simp [hinv]
  · have : cfg.inverse = false := by simpa using hinv
    simp [this]

theorem phase1_spec (cfg : Config) (d : IDict) (t : Triple) :
    (∀ k, cls (phase1 cfg d t) k = cls d k)
    ∧ (∀ n p ty, dcount (phase1 cfg d t) n p ty = dcount d n p ty + dContrib cfg d t n p ty)
    ∧ (∀ n p ty, icount (phase1 cfg d t) n p ty = icount d n p ty) := by
  unfold phase1 dContrib
  by_cases hs : isInstance d t.s = true
  · obtain ⟨c1, d1, i1⟩ := annotateSubject_spec cfg d t hs
    rw [if_pos hs]
    refine ⟨c1, ?_, i1⟩
    intro n p ty; rw [d1]; simp [hs]
  · rw [if_neg hs]
    refine ⟨fun _ => rfl, ?_, fun _ _ _ => rfl⟩
    intro n p ty; simp [hs]

theorem phase2_spec (cfg : Config) (d : IDict) (t : Triple) :
    (∀ k, cls (phase2 cfg d t) k = cls d k)
    ∧ (∀ n p ty, icount (phase2 cfg d t) n p ty = icount d n p ty + iContrib cfg d t n p ty)
    ∧ (∀ n p ty, dcount (phase2 cfg d t) n p ty = dcount d n p ty) := by
  unfold phase2 iContrib
  by_cases hc : cfg.inverse = true ∧ isInstance d t.o = true
  · obtain ⟨c2, i2, d2⟩ := annotateObject_spec cfg d t hc.2
    rw [if_pos hc]
    refine ⟨c2, ?_, d2⟩
    intro n p ty; rw [i2]; simp [hc.1, hc.2]
  · rw [if_neg hc]
    refine ⟨fun _ => rfl, ?_, fun _ _ _ => rfl⟩
    intro n p ty
    have : ¬ (cfg.inverse = true ∧ isInstance d t.o = true ∧ t.o.key = n ∧ t.p = p) := fun h => hc ⟨h.1, h.2.1⟩
    simp [this]

theorem iContrib_congr' (cfg : Config) (d d' : IDict) (t : Triple) (n p ty : String) (h : ∀ k, cls d k = cls d' k) :
    iContrib cfg d t n p ty = iContrib cfg d' t n p ty := by
  unfold iContrib; rw [isInstance_congr d d' _ h, objBumps_congr cfg d d' t h]

theorem step_spec (cfg : Config) (d : IDict) (t : Triple) :
    (∀ k, cls (step cfg d t) k = cls d k)
    ∧ (∀ n p ty, dcount (step cfg d t) n p ty = dcount d n p ty + dContrib cfg d t n p ty)
    ∧ (∀ n p ty, icount (step cfg d t) n p ty = icount d n p ty + iContrib cfg d t n p ty) := by
  rw [step_eq]
  obtain ⟨c1, d1, i1⟩ := phase1_spec cfg d t
  obtain ⟨c2, i2, d2⟩ := phase2_spec cfg (phase1 cfg d t) t
  refine ⟨fun k => by rw [c2, c1], ?_, ?_⟩
  · intro n p ty; rw [d2, d1]
  · intro n p ty; rw [i2, i1, iContrib_congr' cfg _ d t n p ty c1]

theorem dContrib_congr (cfg : Config) (d d' : IDict) (t : Triple) (n p ty : String) (h : ∀ k, cls d k = cls d' k) :
    dContrib cfg d t n p ty = dContrib cfg d' t n p ty := by
  unfold dContrib; rw [isInstance_congr d d' _ h, subjBumps_congr cfg d d' t h]

theorem iContrib_congr (cfg : Config) (d d' : IDict) (t : Triple) (n p ty : String) (h : ∀ k, cls d k = cls d' k) :
    iContrib cfg d t n p ty = iContrib cfg d' t n p ty := by
  unfold iContrib; rw [isInstance_congr d d' _ h, objBumps_congr cfg d d' t h]

/-- the whole fold: classes never change, counts are the sums of the per-triple contributions
(evaluated against the initial dictionary) -/
theorem foldl_step_spec (cfg : Config) (ts : List Triple) (d : IDict) :
    (∀ k, cls (ts.foldl (step cfg) d) k = cls d k)
    ∧ (∀ n p ty, dcount (ts.foldl (step cfg) d) n p ty = dcount d n p ty + (ts.map fun t => dContrib cfg d t n p ty).sum)
    ∧ (∀ n p ty, icount (ts.foldl (step cfg) d) n p ty = icount d n p ty + (ts.map fun t => iContrib cfg d t n p ty).sum) := by
  induction ts generalizing d with
  | nil => simp
  | cons t ts ih =>
    obtain ⟨c1, d1, i1⟩ := step_spec cfg d t
    obtain ⟨c2, d2, i2⟩ := ih (step cfg d t)
    simp only [List.foldl_cons, List.map_cons, List.sum_cons]
    refine ⟨fun k => by rw [c2, c1], ?_, ?_⟩
    · intro n p ty
      rw [d2, d1]
      have : (ts.map fun t' => dContrib cfg (step cfg d t) t' n p ty) = (ts.map fun t' => dContrib cfg d t' n p ty) := by
        apply List.map_congr_left; intro t' _; exact dContrib_congr cfg _ _ _ _ _ _ c1
      rw [this]; omega
    · intro n p ty
      rw [i2, i1]
      have : (ts.map fun t' => iContrib cfg (step cfg d t) t' n p ty) = (ts.map fun t' => iContrib cfg d t' n p ty) := by
        apply List.map_congr_left; intro t' _; exact iContrib_congr cfg _ _ _ _ _ _ c1
      rw [this]; omega

end Profiler
end Shexer
