import ShexerModel.Base.Dict
/-! Lemmas about the insertion-ordered dictionary: well-formedness (distinct keys), lookups vs
membership, folds of updates. -/
namespace Shexer
namespace Dict
variable {κ ν : Type} [DecidableEq κ]
set_option linter.unusedSectionVars false

/-- every dictionary built from `[]` by `upd`/`set`/`erase` has pairwise distinct keys -/
def WF (d : Dict κ ν) : Prop := (keys d).Nodup

theorem WF_nil : WF ([] : Dict κ ν) := by simp [WF, keys]

theorem mem_keys_upd (d : Dict κ ν) (k k2 : κ) (f : Option ν → ν) :
    k2 ∈ keys (upd d k f) ↔ k2 = k ∨ k2 ∈ keys d := by
  rw [keys_upd]
  by_cases h : contains d k = true
  · rw [if_pos h]
    constructor
    · intro hm; exact Or.inr hm
    · rintro (rfl | hm)
      · exact (get?_isSome_iff_mem_keys d k2).mp h
      · exact hm
  · rw [if_neg h]
    simp only [List.mem_append, List.mem_singleton]
    constructor
    · rintro (hm | rfl)
      · exact Or.inr hm
      · exact Or.inl rfl
    · rintro (rfl | hm)
      · exact Or.inr rfl
      · exact Or.inl hm

theorem WF_upd (d : Dict κ ν) (k : κ) (f : Option ν → ν) (h : WF d) : WF (upd d k f) := by
  unfold WF at *
  rw [keys_upd]
  by_cases hc : contains d k = true
  · rw [if_pos hc]; exact h
  · rw [if_neg hc]
    have hn : k ∉ keys d := fun hm => hc ((get?_isSome_iff_mem_keys d k).mpr hm)
    rw [List.nodup_append]
    refine ⟨h, by simp, ?_⟩
    intro a ha b hb
    simp only [List.mem_singleton] at hb
    subst hb
    intro heq; subst heq; exact hn ha

theorem WF_cons {k : κ} {v : ν} {d : Dict κ ν} (h : WF ((k, v) :: d)) : k ∉ keys d ∧ WF d := by
  unfold WF keys at *
  simpa using h

theorem get?_of_not_mem (d : Dict κ ν) (k : κ) (h : k ∉ keys d) : get? d k = none := by
  cases hg : get? d k with
  | none => rfl
  | some v =>
    have : (get? d k).isSome = true := by simp [hg]
    exact absurd ((get?_isSome_iff_mem_keys d k).mp this) h

/-- under `WF`, membership of a pair is lookup -/
theorem mem_iff_get? (d : Dict κ ν) (h : WF d) (k : κ) (v : ν) : (k, v) ∈ d ↔ get? d k = some v := by
  induction d with
  | nil => simp
  | cons hd tl ih =>
    obtain ⟨k', v'⟩ := hd
    obtain ⟨hn, hw⟩ := WF_cons h
    by_cases hk : k' = k
    · subst hk
      simp only [List.mem_cons, Prod.mk.injEq, true_and, get?, if_true, Option.some.injEq]
      constructor
      · rintro (rfl | hm)
        · rfl
        · exact absurd (List.mem_map_of_mem (f := Prod.fst) hm) hn
      · intro he; exact Or.inl he.symm
    · simp only [List.mem_cons, Prod.mk.injEq, get?, hk, if_false]
      rw [← ih hw]
      constructor
      · rintro (⟨he, _⟩ | hm)
        · exact absurd he.symm hk
        · exact hm
      · intro hm; exact Or.inr hm

theorem get?_getD_upd_other (d : Dict κ ν) (k k2 : κ) (f : Option ν → ν) (dflt : ν) (h : k ≠ k2) :
    (get? (upd d k f) k2).getD dflt = (get? d k2).getD dflt := by
  rw [get?_upd_other _ _ _ _ h]

theorem WF_map_snd {μ : Type} (d : Dict κ ν) (g : κ → ν → μ) (h : WF d) :
    WF (d.map fun (k, v) => (k, g k v)) := by
  unfold WF keys at *
  simpa [List.map_map, Function.comp_def] using h

theorem get?_map_snd {μ : Type} (d : Dict κ ν) (g : κ → ν → μ) (k : κ) :
    get? (d.map fun (k, v) => (k, g k v)) k = (get? d k).map (g k) := by
  induction d with
  | nil => rfl
  | cons hd tl ih =>
    obtain ⟨k', v'⟩ := hd
    by_cases hk : k' = k
    · subst hk; simp [get?]
    · simp [get?, hk, ih]

theorem keys_map_snd {μ : Type} (d : Dict κ ν) (g : κ → ν → μ) :
    keys (d.map fun (k, v) => (k, g k v)) = keys d := by
  simp [keys, List.map_map, Function.comp_def]

theorem WF_filter (d : Dict κ ν) (p : κ × ν → Bool) (h : WF d) : WF (d.filter p) := by
  unfold WF keys at *
  exact List.Nodup.sublist (List.Sublist.map _ List.filter_sublist) h

theorem get?_filter (d : Dict κ ν) (p : κ × ν → Bool) (h : WF d) (k : κ) :
    get? (d.filter p) k = (get? d k).filter fun v => p (k, v) := by
  induction d with
  | nil => rfl
  | cons hd tl ih =>
    obtain ⟨k', v'⟩ := hd
    obtain ⟨hn, hw⟩ := WF_cons h
    by_cases hk : k' = k
    · subst hk
      by_cases hp : p (k', v') = true
      · simp [List.filter, hp, get?, Option.filter]
      · have hnf : k' ∉ keys (tl.filter p) := fun hm =>
          hn (List.Sublist.subset (List.Sublist.map _ List.filter_sublist) hm)
        simp [List.filter, hp, get?, get?_of_not_mem _ _ hnf, Option.filter]
    · by_cases hp : p (k', v') = true
      · simp [List.filter, hp, get?, hk, ih hw]
      · simp [List.filter, hp, get?, hk, ih hw]

end Dict
end Shexer

namespace Shexer
namespace Dict
variable {κ ν : Type} [DecidableEq κ]

/-- a predicate on entries survives an update if the updated entry satisfies it -/
theorem forall_upd (d : Dict κ ν) (k0 : κ) (f : Option ν → ν) (P : κ → ν → Prop)
    (hd : ∀ k v, (k, v) ∈ d → P k v) (hnew : P k0 (f (get? d k0))) :
    ∀ k v, (k, v) ∈ upd d k0 f → P k v := by
  induction d with
  | nil =>
    intro k v h
    simp only [upd, List.mem_singleton, Prod.mk.injEq] at h
    obtain ⟨rfl, rfl⟩ := h
    simpa [get?] using hnew
  | cons hd' tl ih =>
    obtain ⟨k', v'⟩ := hd'
    intro k v h
    by_cases hk : k' = k0
    · subst hk
      simp only [upd, if_true, List.mem_cons, Prod.mk.injEq] at h
      rcases h with ⟨rfl, rfl⟩ | h
      · simpa [get?] using hnew
      · exact hd k v (List.mem_cons_of_mem _ h)
    · simp only [upd, hk, if_false, List.mem_cons, Prod.mk.injEq] at h
      rcases h with ⟨rfl, rfl⟩ | h
      · exact hd _ _ List.mem_cons_self
      · exact ih (fun k v hm => hd k v (List.mem_cons_of_mem _ hm)) (by simpa [get?, hk] using hnew) k v h

/-- lookups return entries -/
theorem mem_of_get? (d : Dict κ ν) (k : κ) (v : ν) (h : get? d k = some v) : (k, v) ∈ d := by
  induction d with
  | nil => simp at h
  | cons hd tl ih =>
    obtain ⟨k', v'⟩ := hd
    by_cases hk : k' = k
    · subst hk; simp only [get?, if_true, Option.some.injEq] at h; subst h; exact List.mem_cons_self
    · simp only [get?, hk, if_false] at h; exact List.mem_cons_of_mem _ (ih h)

end Dict
end Shexer
