import ShexerModel.Lemmas.GenStrPrefixize
import ShexerModel.Lemmas.GenStrCorners
import ShexerModel.Model.Text
/-! helper lemmas for `Props/GenStrTune.lean` (fragment S: `BaseStatementSerializer.tune_token`, `str_of_target_element`) -/
namespace Shexer.GenStrTune
open Shexer PyOps

theorem str_of_target_element_eq (ip ty prop : List Char) (d : List (List Char × List Char)) :
    GenS.serializer_str_of_target_element ip ty prop d =
      (GenS.serializer_tune_token ty d).map (fun r => if prop == ip then '[' :: (r ++ [']']) else r) := by
  unfold GenS.serializer_str_of_target_element
  have e1 : "[".toList = ['['] := by simp
  have e2 : "]".toList = [']'] := by simp
  cases hp : prop == ip with
  | true =>
    cases ht : GenS.serializer_tune_token ty d with
    | ok r => simp [e1, e2, Except.map]; rfl
    | error e => simp [Except.map]; rfl
  | false =>
    cases ht : GenS.serializer_tune_token ty d with
    | ok r => simp [Except.map]
    | error e => simp [Except.map]

theorem tune_token_macro (tok : List Char) (d : List (List Char × List Char))
    (h : tok = "IRI".toList ∨ tok = "BNode".toList ∨ tok = "NONLITERAL".toList) :
    GenS.serializer_tune_token tok d = .ok tok := by
  unfold GenS.serializer_tune_token
  rcases h with h | h | h <;> subst h <;> rfl

theorem tune_token_iri (ns : Text.Namespaces) (tok : String)
    (hsep : ∀ e ∈ ns, (e.1.toList.contains '/' || e.1.toList.contains '#') = true)
    (hcolon : tok.toList.contains ':' = true)
    (hnotref : PyOps.startsWith tok.toList ['%'] = false)
    (hnotmacro : tok.toList ≠ "IRI".toList ∧ tok.toList ≠ "BNode".toList ∧ tok.toList ≠ "NONLITERAL".toList) :
    GenS.serializer_tune_token tok.toList (ns.map fun e => (e.1.toList, e.2.toList)) =
      .ok (match Text.bestNamespace ns tok with
           | some e => e.2.toList ++ ':' :: tok.toList.drop e.1.toList.length
           | none => '<' :: (tok.toList ++ ['>'])) := by
  unfold GenS.serializer_tune_token
  have e1 : "%".toList = ['%'] := by simp
  have e2 : ":".toList = [':'] := by simp
  have e3 : "<".toList = ['<'] := by simp
  have e4 : ">".toList = ['>'] := by simp
  have m1 : (tok.toList == "IRI".toList) = false := by simpa using hnotmacro.1
  have m2 : (tok.toList == "BNode".toList) = false := by simpa using hnotmacro.2.1
  have m3 : (tok.toList == "NONLITERAL".toList) = false := by simpa using hnotmacro.2.2
  rw [e1, hnotref, m1, m2, m3, e2, GenStr.isIn_single, hcolon,
    GenStr.serializer_prefixize_is_bestNamespace ns tok hsep]
  cases Text.bestNamespace ns tok with
  | none => simp [e3, e4, bind, Except.bind, pure, Except.pure]
  | some e => simp [bind, Except.bind, pure, Except.pure]

theorem remove_corners_wrapped (iri : List Char) :
    GenS.remove_corners ('<' :: (iri ++ ['>'])) true = .ok iri := by
  have e3 : "<".toList = ['<'] := by simp
  have e4 : ">".toList = ['>'] := by simp
  unfold GenS.remove_corners
  have hs : PyOps.startsWith ('<' :: (iri ++ ['>'])) ['<'] = true := by
    simp [PyOps.startsWith, List.isPrefixOf]
  have he : PyOps.endsWith ('<' :: (iri ++ ['>'])) ['>'] = true := by
    rw [GenStr.endsWith_single, ← List.cons_append, List.getLast?_concat]; simp
  have hsl : PyOps.slice ('<' :: (iri ++ ['>'])) (some (1 : Int)) (some (-(1 : Int))) = iri := by
    have h1 : PyOps.slice ('<' :: (iri ++ ['>'])) (some ((1 : Nat) : Int)) (some (-1)) = _ :=
      GenStr.slice_from_to_neg1 ('<' :: (iri ++ ['>'])) 1
    refine Eq.trans h1 ?_
    simp
  rw [e3, e4, hs, he, hsl]
  rfl

theorem tune_token_ref (iri : List Char) (d : List (List Char × List Char)) :
    GenS.serializer_tune_token ('%' :: '<' :: (iri ++ ['>'])) d =
      .ok ('@' :: (match d.find? fun e => PyStr.directChildOf iri e.1 with
                   | some e => PyOps.replace iri e.1 (e.2 ++ [':'])
                   | none => '<' :: (iri ++ ['>']))) := by
  unfold GenS.serializer_tune_token
  have e1 : "%".toList = ['%'] := by simp
  have e2 : ":".toList = [':'] := by simp
  have e5 : "@".toList = ['@'] := by simp
  have hs : PyOps.startsWith ('%' :: '<' :: (iri ++ ['>'])) ['%'] = true := by
    simp [PyOps.startsWith, List.isPrefixOf]
  rw [e1, hs]
  unfold GenS.prefixize_shape_name_if_possible GenS.prefixize_uri_if_possible
  have hsl : PyOps.slice ('%' :: '<' :: (iri ++ ['>'])) (some (1 : Int)) none = '<' :: (iri ++ ['>']) := by
    exact GenStr.slice_from ('%' :: '<' :: (iri ++ ['>'])) 1
  rw [hsl]
  simp only [if_true, remove_corners_wrapped, bind, Except.bind]
  have hc : (fun a_namespace => (PyOps.startsWith iri a_namespace) && ((!(PyOps.isIn "/".toList (PyOps.slice iri (some ((a_namespace).length : Int)) none))) && (!(PyOps.isIn "#".toList (PyOps.slice iri (some ((a_namespace).length : Int)) none))))) =
      fun k => PyStr.directChildOf iri k := funext (GenStr.pfx_cond iri)
  simp only [hc]
  unfold PyOps.findFirst
  cases hf : d.find? (fun e => PyStr.directChildOf iri e.1) with
  | none => simp [e5, pure, Except.pure]
  | some e =>
    simp only [Option.map_some]
    rw [GenStr.dictGet_of_find (fun k => PyStr.directChildOf iri k) e d hf]
    simp [e2, e5, pure, Except.pure]

end Shexer.GenStrTune
