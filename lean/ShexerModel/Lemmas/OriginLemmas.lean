import ShexerModel.Lemmas.CandLemmas
/-! C01 part 2 (R2): figures travel unchanged from the candidates through the two merge stages.
Every statement that comes out is a candidate (same property, types, cardinality, count, direction)
with extra comments, or the NONLITERAL sum of a BNode and an IRI candidate, or a disjunction built on
one of those; every comment is the figure of a candidate of the same property. -/
namespace Shexer
namespace Shexer

/-- what `candidates` produces -/
def Base (s : Stmt) : Prop := s.comments = [] ∧ s.parts = none ∧ s.choice = false ∧ s.types.length = 1

/-- `cm` is the figure of a candidate of property `p` -/
def CmOk (l : List Stmt) (p : String) (cm : Comment) : Prop := ∃ c ∈ l, c.prop = p ∧ cm = commentOf c

/-- `s` carries the figures of a candidate -/
def Orig (l : List Stmt) (s : Stmt) : Prop :=
  ∃ c ∈ l, c.prop = s.prop ∧ c.types = s.types ∧ c.card = s.card ∧ c.n = s.n ∧ c.inverse = s.inverse

/-- invariant of stage-1 outputs -/
def Inv1 (l : List Stmt) (s : Stmt) : Prop :=
  s.parts = none ∧ s.choice = false ∧ Orig l s ∧ ∀ cm ∈ s.comments, CmOk l s.prop cm

theorem sortDesc_ne_nil (g : List Stmt) (hg : g ≠ []) : sortDesc g ≠ [] := by
  intro h
  have := length_sortDesc g
  rw [h] at this
  cases g with
  | nil => exact hg rfl
  | cons a t => simp at this

theorem pick_mem (gs : List Stmt) (hgs : gs ≠ []) (pick : Option Stmt) (hp : ∀ x, pick = some x → x ∈ gs) :
    (pick.orElse fun _ => gs.head?).getD default ∈ gs := by
  cases pick with
  | some x => simpa using hp x rfl
  | none =>
    cases gs with
    | nil => exact absurd rfl hgs
    | cons a t => simp

theorem decideBest_spec (cfg : Config) (g : List Stmt) (hg : g ≠ []) :
    ∃ x ∈ g, ∃ cms, decideBest cfg g = { x with comments := x.comments ++ cms } ∧ ∀ cm ∈ cms, ∃ y ∈ g, cm = commentOf y := by
  unfold decideBest
  split
  · rename_i h
    simp only [Bool.and_eq_true] at h
    have hu := h.2
    cases hf : g.find? (fun s => s.card != Card.plus) with
    | some x =>
      refine ⟨x, List.mem_of_find?_eq_some hf, [], ?_, by simp⟩
      simp
    | none =>
      exfalso
      rw [List.find?_eq_none] at hf
      unfold uselessPlus at hu
      split at hu
      · rename_i a b
        have ha := hf a (by simp)
        have hb := hf b (by simp)
        simp at ha hb
        simp [ha, hb] at hu
      · exact absurd hu (by simp)
  · have hgs := sortDesc_ne_nil g hg
    have hres := pick_mem (sortDesc g) hgs
      (if cfg.keepLessSpecific then (sortDesc g).find? fun s => s.card == Card.plus
       else (sortDesc g).find? fun s => s.card != Card.plus)
      (by
        intro x hx
        split at hx <;> exact List.mem_of_find?_eq_some hx)
    refine ⟨_, (mem_sortDesc g _).mp hres, _, rfl, ?_⟩
    intro cm hcm
    rw [List.mem_map] at hcm
    obtain ⟨y, hy, rfl⟩ := hcm
    exact ⟨y, (mem_sortDesc g y).mp (List.mem_filter.mp hy).1, rfl⟩

theorem inv1_of_base (l : List Stmt) (hl : ∀ s ∈ l, Base s) (c : Stmt) (hc : c ∈ l) : Inv1 l c := by
  obtain ⟨h1, h2, h3, _⟩ := hl c hc
  refine ⟨h2, h3, ⟨c, hc, rfl, rfl, rfl, rfl, rfl⟩, ?_⟩
  rw [h1]; simp

theorem groupSameAux_inv (cfg : Config) (l : List Stmt) (hl : ∀ s ∈ l, Base s) :
    ∀ (fuel : Nat) (l' : List Stmt), (∀ s ∈ l', s ∈ l) → ∀ s ∈ groupSameAux cfg fuel l', Inv1 l s := by
  intro fuel
  induction fuel with
  | zero => intro l' _ s hs; simp [groupSameAux] at hs
  | succ fuel ih =>
    intro l' hl' s hs
    cases l' with
    | nil => simp [groupSameAux] at hs
    | cons c cs =>
      simp only [groupSameAux, List.mem_cons] at hs
      rcases hs with rfl | hs
      · split
        · exact inv1_of_base l hl c (hl' c (by simp))
        · have hmem : ∀ y ∈ c :: cs.filter (sameKey c), y ∈ l ∧ y.prop = c.prop := by
            intro y hy
            rcases List.mem_cons.mp hy with rfl | hy
            · exact ⟨hl' _ (by simp), rfl⟩
            · rw [List.mem_filter] at hy
              refine ⟨hl' _ (List.mem_cons_of_mem _ hy.1), ?_⟩
              have := hy.2
              simp [sameKey] at this
              exact this.1.symm
          obtain ⟨x, hx, cms, heq, hcms⟩ := decideBest_spec cfg (c :: cs.filter (sameKey c)) (by simp)
          rw [heq]
          obtain ⟨hxl, hxp⟩ := hmem x hx
          obtain ⟨h1, h2, h3, _⟩ := hl x hxl
          refine ⟨h2, h3, ⟨x, hxl, rfl, rfl, rfl, rfl, rfl⟩, ?_⟩
          intro cm hcm
          simp only [h1, List.nil_append] at hcm
          obtain ⟨y, hy, rfl⟩ := hcms cm hcm
          obtain ⟨hyl, hyp⟩ := hmem y hy
          exact ⟨y, hyl, by simp [hyp, hxp], rfl⟩
      · exact ih _ (fun s hs => hl' s (List.mem_cons_of_mem _ (List.mem_filter.mp hs).1)) s hs

theorem groupSame_inv (cfg : Config) (l : List Stmt) (hl : ∀ s ∈ l, Base s) : ∀ s ∈ groupSame cfg l, Inv1 l s :=
  groupSameAux_inv cfg l hl _ l (fun _ h => h)


def freshNL (b i : Stmt) : Stmt :=
  { prop := b.prop, types := [Gen.NONLITERAL_ELEM_TYPE], card := mostGeneral b.card i.card,
    n := b.n + i.n, inverse := b.inverse, parts := some (b.n, i.n) }

def domOf (gs : List Stmt) (bnode iri : Option Stmt) (shapes : List Stmt) : Stmt × Bool :=
    match bnode with
    | some b =>
      match iri with
      | some i =>
        match shapes with
        | [s] => if i.n + b.n == s.n then (s, true)
                 else (freshNL b i, false)
        | _ => (freshNL b i, false)
      | none =>
        match shapes with
        | s :: _ => if s.n == b.n then (s, true) else (b, false)
        | [] => (b, false)
    | none =>
      match iri, shapes with
      | some i, [] => (i, false)
      | some i, s :: _ => if s.n < i.n then (i, false) else (s, true)
      | none, s :: _ => (s, true)
      | none, [] => (gs.headD default, false)

def choiceOf (d0 : Stmt) (ts : List String) : Stmt :=
  { prop := d0.prop, types := ts, choice := true, card := d0.card, n := d0.n, inverse := d0.inverse,
           parts := d0.parts }

def tuneOr (cfg : Config) (shapes : List Stmt) (d0 : Stmt) (domIsShape : Bool) : Stmt × Bool :=
    if cfg.disableOr then (d0, false)
    else
      let stTypes :=
        if cfg.allowRedundantOr then (if domIsShape then [] else [d0.ty]) ++ shapes.map (·.ty)
        else if domIsShape then shapes.map (·.ty) else []
      if stTypes.length > 1 then
        (choiceOf d0 stTypes, true)
      else (d0, false)

def cBOf (bnode iri : Option Stmt) : List Comment :=
  match bnode with
    | some b => [commentOf b] ++ (match iri with | some i => [commentOf i] | none => [])
    | none => []

theorem mergeGroup_eq (cfg : Config) (g : List Stmt) :
    mergeGroup cfg g =
      let bnode := (g.filter fun s => s.ty == Gen.BNODE_ELEM_TYPE).getLast?
      let iri := (g.filter fun s => s.ty == Gen.IRI_ELEM_TYPE).getLast?
      let shapes := sortDesc (g.filter fun s => isShapeType s.ty)
      let dom := domOf (sortDesc g) bnode iri shapes
      let t := tuneOr cfg shapes dom.1 dom.2
      { t.1 with comments := t.1.comments ++ cBOf bnode iri ++
          (shapes.filter fun s => t.2 || !(dom.2 && s == dom.1)).map commentOf } := rfl

/-- invariant of stage-2 outputs -/
def Inv2 (l : List Stmt) (s : Stmt) : Prop :=
  (∀ cm ∈ s.comments, CmOk l s.prop cm) ∧
  (s.parts = none → s.choice = false → Orig l s) ∧
  (∀ nb ni, s.parts = some (nb, ni) →
    ∃ b ∈ l, ∃ i ∈ l, b.ty = Gen.BNODE_ELEM_TYPE ∧ i.ty = Gen.IRI_ELEM_TYPE ∧ b.prop = s.prop ∧ i.prop = s.prop
      ∧ nb = b.n ∧ ni = i.n ∧ s.n = nb + ni
      ∧ (s.choice = false → s.types = [Gen.NONLITERAL_ELEM_TYPE] ∧ s.card = mostGeneral b.card i.card))

theorem inv2_of_inv1 (l : List Stmt) (s : Stmt) (h : Inv1 l s) : Inv2 l s := by
  obtain ⟨h1, h2, h3, h4⟩ := h
  refine ⟨h4, fun _ _ => h3, ?_⟩
  intro nb ni hp
  rw [h1] at hp
  exact absurd hp (by simp)

/-- a stage-1 output has the same figure as its candidate -/
theorem inv1_comment (l : List Stmt) (hl : ∀ s ∈ l, Base s) (y : Stmt) (h : Inv1 l y) :
    ∃ c ∈ l, c.prop = y.prop ∧ c.ty = y.ty ∧ c.n = y.n ∧ c.card = y.card ∧ commentOf y = commentOf c := by
  obtain ⟨_, h2, ⟨c, hc, hp, ht, hcard, hn, _⟩, _⟩ := h
  refine ⟨c, hc, hp, ?_, hn, hcard, ?_⟩
  · simp [Stmt.ty, ht]
  · have := (hl c hc).2.2.1
    simp [commentOf, h2, this, Stmt.ty, ht, hcard, hn]

theorem inv2_fresh (l : List Stmt) (hl : ∀ s ∈ l, Base s) (b i : Stmt) (hb : Inv1 l b) (hi : Inv1 l i)
    (hbt : b.ty = Gen.BNODE_ELEM_TYPE) (hit : i.ty = Gen.IRI_ELEM_TYPE) (hpi : i.prop = b.prop) :
    Inv2 l (freshNL b i) := by
  obtain ⟨cb, hcb, hpb, htb, hnb, hcardb, _⟩ := inv1_comment l hl b hb
  obtain ⟨ci, hci, hpi', hti, hni, hcardi, _⟩ := inv1_comment l hl i hi
  refine ⟨by simp [freshNL], by simp [freshNL], ?_⟩
  intro nb ni hp
  simp only [freshNL, Option.some.injEq, Prod.mk.injEq] at hp
  refine ⟨cb, hcb, ci, hci, htb.trans hbt, hti.trans hit, ?_, ?_, ?_, ?_, ?_, ?_⟩
  · simp [freshNL, hpb]
  · simp [freshNL, hpi', hpi]
  · rw [hnb]; exact hp.1.symm
  · rw [hni]; exact hp.2.symm
  · simp [freshNL, hp.1, hp.2]
  · intro _; simp [freshNL, hcardb, hcardi]

theorem inv2_choice (l : List Stmt) (d : Stmt) (ts : List String) (h : Inv2 l d) : Inv2 l (choiceOf d ts) := by
  obtain ⟨_, _, h3⟩ := h
  refine ⟨by simp [choiceOf], by simp [choiceOf], ?_⟩
  intro nb ni hp
  obtain ⟨b, hb, i, hi, h1, h2, h3', h4, h5, h6, h7, _⟩ := h3 nb ni hp
  exact ⟨b, hb, i, hi, h1, h2, h3', h4, h5, h6, h7, by simp [choiceOf]⟩

theorem inv2_comments (l : List Stmt) (d : Stmt) (cms : List Comment) (h : Inv2 l d)
    (hc : ∀ cm ∈ cms, CmOk l d.prop cm) : Inv2 l { d with comments := d.comments ++ cms } := by
  obtain ⟨h1, h2, h3⟩ := h
  refine ⟨?_, h2, h3⟩
  intro cm hcm
  rcases List.mem_append.mp hcm with h | h
  · exact h1 cm h
  · exact hc cm h

/-- the dominant statement before the disjunction step -/
def D0 (g : List Stmt) (d : Stmt) : Prop :=
  d ∈ g ∨ ∃ b ∈ g, ∃ i ∈ g, b.ty = Gen.BNODE_ELEM_TYPE ∧ i.ty = Gen.IRI_ELEM_TYPE ∧ d = freshNL b i

theorem domOf_spec (g gs : List Stmt) (bnode iri : Option Stmt) (shapes : List Stmt)
    (hb : ∀ b, bnode = some b → b ∈ g ∧ b.ty = Gen.BNODE_ELEM_TYPE)
    (hi : ∀ i, iri = some i → i ∈ g ∧ i.ty = Gen.IRI_ELEM_TYPE)
    (hs : ∀ s ∈ shapes, s ∈ g) (hgs : gs.headD default ∈ g) :
    D0 g (domOf gs bnode iri shapes).1 := by
  unfold domOf
  repeat' split
  all_goals first
    | exact Or.inl hgs
    | exact Or.inl (hb _ rfl).1
    | exact Or.inl (hi _ rfl).1
    | exact Or.inr ⟨_, (hb _ rfl).1, _, (hi _ rfl).1, (hb _ rfl).2, (hi _ rfl).2, rfl⟩
    | exact Or.inl (hs _ (by simp))

theorem ite_choice (c : Prop) [Decidable c] (d0 : Stmt) (ts : List String) :
    (if c then (choiceOf d0 ts, true) else (d0, false)).1 = d0 ∨
      ∃ ts', (if c then (choiceOf d0 ts, true) else (d0, false)).1 = choiceOf d0 ts' := by
  split
  · exact Or.inr ⟨_, rfl⟩
  · exact Or.inl rfl

theorem tuneOr_spec (cfg : Config) (shapes : List Stmt) (d0 : Stmt) (b : Bool) :
    (tuneOr cfg shapes d0 b).1 = d0 ∨ ∃ ts, (tuneOr cfg shapes d0 b).1 = choiceOf d0 ts := by
  unfold tuneOr
  split
  · exact Or.inl rfl
  · exact ite_choice _ _ _

theorem mergeGroup_inv (cfg : Config) (l : List Stmt) (hl : ∀ s ∈ l, Base s) (p : String) (g : List Stmt) (hg : g ≠ [])
    (hmem : ∀ y ∈ g, Inv1 l y ∧ y.prop = p) : Inv2 l (mergeGroup cfg g) := by
  rw [mergeGroup_eq]
  have hb : ∀ b, (g.filter fun s => s.ty == Gen.BNODE_ELEM_TYPE).getLast? = some b → b ∈ g ∧ b.ty = Gen.BNODE_ELEM_TYPE := by
    intro b h
    have := List.mem_filter.mp (List.mem_of_getLast? h)
    exact ⟨this.1, by simpa using this.2⟩
  have hi : ∀ i, (g.filter fun s => s.ty == Gen.IRI_ELEM_TYPE).getLast? = some i → i ∈ g ∧ i.ty = Gen.IRI_ELEM_TYPE := by
    intro b h
    have := List.mem_filter.mp (List.mem_of_getLast? h)
    exact ⟨this.1, by simpa using this.2⟩
  have hs : ∀ s ∈ sortDesc (g.filter fun s => isShapeType s.ty), s ∈ g := by
    intro s h
    exact (List.mem_filter.mp ((mem_sortDesc _ s).mp h)).1
  have hgs : (sortDesc g).headD default ∈ g := by
    have := sortDesc_ne_nil g hg
    rw [← mem_sortDesc]
    cases h : sortDesc g with
    | nil => exact absurd h this
    | cons a t => simp
  have hcm : ∀ y ∈ g, CmOk l p (commentOf y) := by
    intro y hy
    obtain ⟨c, hc, hp, _, _, _, hcm⟩ := inv1_comment l hl y (hmem y hy).1
    exact ⟨c, hc, hp.trans (hmem y hy).2, hcm⟩
  have hd := domOf_spec g (sortDesc g) _ _ _ hb hi hs hgs
  simp only []
  generalize domOf (sortDesc g) _ _ _ = dom at hd ⊢
  obtain ⟨d0, isS⟩ := dom
  simp only [] at hd ⊢
  have hd0 : Inv2 l d0 ∧ d0.prop = p := by
    rcases hd with h | ⟨b, hb', i, hi', hbt, hit, rfl⟩
    · exact ⟨inv2_of_inv1 l d0 (hmem d0 h).1, (hmem d0 h).2⟩
    · refine ⟨inv2_fresh l hl b i (hmem b hb').1 (hmem i hi').1 hbt hit ?_, ?_⟩
      · rw [(hmem b hb').2, (hmem i hi').2]
      · simp [freshNL, (hmem b hb').2]
  have ht := tuneOr_spec cfg (sortDesc (g.filter fun s => isShapeType s.ty)) d0 isS
  generalize tuneOr cfg _ d0 isS = t at ht ⊢
  obtain ⟨d1, rep⟩ := t
  simp only [] at ht ⊢
  have hd1 : Inv2 l d1 ∧ d1.prop = p := by
    rcases ht with rfl | ⟨ts, rfl⟩
    · exact hd0
    · exact ⟨inv2_choice l d0 ts hd0.1, by simp [choiceOf, hd0.2]⟩
  rw [List.append_assoc]
  apply inv2_comments l d1 _ hd1.1
  rw [hd1.2]
  intro cm hcm'
  rcases List.mem_append.mp hcm' with h | h
  · unfold cBOf at h
    split at h
    · rename_i b hbe
      rcases List.mem_append.mp h with h | h
      · simp only [List.mem_singleton] at h
        rw [h]; exact hcm b (hb b hbe).1
      · split at h
        · rename_i i hie
          simp only [List.mem_singleton] at h
          rw [h]; exact hcm i (hi i hie).1
        · simp at h
    · simp at h
  · rw [List.mem_map] at h
    obtain ⟨y, hy, rfl⟩ := h
    exact hcm y (hs y (List.mem_filter.mp hy).1)

theorem groupNodeAux_inv (cfg : Config) (l : List Stmt) (hl : ∀ s ∈ l, Base s) :
    ∀ (fuel : Nat) (l' : List Stmt), (∀ s ∈ l', Inv1 l s) → ∀ s ∈ groupNodeAux cfg fuel l', Inv2 l s := by
  intro fuel
  induction fuel with
  | zero => intro l' _ s hs; simp [groupNodeAux] at hs
  | succ fuel ih =>
    intro l' hl' s hs
    cases l' with
    | nil => simp [groupNodeAux] at hs
    | cons c cs =>
      have hcs : ∀ s ∈ cs, Inv1 l s := fun s h => hl' s (List.mem_cons_of_mem _ h)
      simp only [groupNodeAux] at hs
      split at hs
      · rcases List.mem_cons.mp hs with rfl | hs
        · exact inv2_of_inv1 l _ (hl' _ (by simp))
        · exact ih cs hcs s hs
      · rcases List.mem_cons.mp hs with rfl | hs
        · split
          · exact inv2_of_inv1 l _ (hl' _ (by simp))
          · apply mergeGroup_inv cfg l hl c.prop _ (by simp)
            intro y hy
            rcases List.mem_cons.mp hy with rfl | hy
            · exact ⟨hl' _ (by simp), rfl⟩
            · rw [List.mem_filter] at hy
              refine ⟨hcs y hy.1, ?_⟩
              have := hy.2
              simp at this
              exact this.2
        · exact ih _ (fun s hs => hcs s (List.mem_filter.mp hs).1) s hs

theorem selectValid_inv (cfg : Config) (l : List Stmt) (hl : ∀ s ∈ l, Base s) : ∀ s ∈ selectValid cfg l, Inv2 l s :=
  groupNodeAux_inv cfg l hl _ _ (groupSame_inv cfg l hl)

/-- line figures: an ordinary (non-merged, non-choice) output statement is a candidate -/
theorem selectValid_line (cfg : Config) (l : List Stmt) (hl : ∀ s ∈ l, Base s) (s : Stmt) (hs : s ∈ selectValid cfg l)
    (hp : s.parts = none) (hc : s.choice = false) :
    ∃ c ∈ l, c.prop = s.prop ∧ c.types = s.types ∧ c.card = s.card ∧ c.n = s.n ∧ c.inverse = s.inverse :=
  (selectValid_inv cfg l hl s hs).2.1 hp hc

/-- comment figures: every comment of an output statement is the figure of a candidate of the same property -/
theorem selectValid_comments (cfg : Config) (l : List Stmt) (hl : ∀ s ∈ l, Base s) (s : Stmt) (hs : s ∈ selectValid cfg l) :
    ∀ cm ∈ s.comments, ∃ c ∈ l, c.prop = s.prop ∧ cm = commentOf c :=
  (selectValid_inv cfg l hl s hs).1

/-- the only figure that is not a candidate's: the NONLITERAL sum, and it is the sum of the BNode
and the IRI candidate of that property -/
theorem selectValid_parts (cfg : Config) (l : List Stmt) (hl : ∀ s ∈ l, Base s) (s : Stmt) (hs : s ∈ selectValid cfg l)
    (nb ni : Nat) (hp : s.parts = some (nb, ni)) :
    ∃ b ∈ l, ∃ i ∈ l, b.ty = Gen.BNODE_ELEM_TYPE ∧ i.ty = Gen.IRI_ELEM_TYPE ∧ b.prop = s.prop ∧ i.prop = s.prop
      ∧ nb = b.n ∧ ni = i.n ∧ s.n = nb + ni
      ∧ (s.choice = false → s.types = [Gen.NONLITERAL_ELEM_TYPE] ∧ s.card = mostGeneral b.card i.card) :=
  (selectValid_inv cfg l hl s hs).2.2 nb ni hp

end Shexer
end Shexer
