import ShexerModel.Lemmas.Pass2Inv
import ShexerModel.Lemmas.TuplesLemmas
/-! **R1 — profile refinement.**  After the two passes, every entry of the class profile equals
the declarative count `Spec.countOver` over the selected nodes, and every class count equals the
number of selected nodes of the class. -/
namespace Shexer
namespace Profiler
open Dict

/-- all class profiles are still empty -/
def AllEmpty (prof : Profile) : Prop := ∀ c cp, Dict.get? prof c = some cp → cp = {}

theorem AllEmpty_set (prof : Profile) (c : String) (h : AllEmpty prof) : AllEmpty (Dict.set prof c {}) := by
  intro c' cp hg
  unfold Dict.set at hg
  rw [Dict.get?_upd] at hg
  by_cases hc : c = c'
  · simp only [hc, if_true, Option.some.injEq] at hg; exact hg.symm
  · simp only [hc, if_false] at hg; exact h c' cp hg

theorem AllEmpty_setDefault (prof : Profile) (c : String) (h : AllEmpty prof) : AllEmpty (Dict.setDefault prof c {}) := by
  intro c' cp hg
  unfold Dict.setDefault at hg
  rw [Dict.get?_upd] at hg
  by_cases hc : c = c'
  · subst hc
    simp only [if_true, Option.some.injEq] at hg
    cases hp : Dict.get? prof c with
    | none => rw [hp] at hg; exact hg.symm
    | some cp0 => rw [hp] at hg; simp only [Option.getD_some] at hg; rw [← hg]; exact h c cp0 hp
  · simp only [hc, if_false] at hg; exact h c' cp hg

theorem AllEmpty_foldl_set (l : List String) (p : Profile) (h : AllEmpty p) :
    AllEmpty (l.foldl (fun d c => Dict.set d c ({} : ClassProfile)) p) := by
  induction l generalizing p with
  | nil => exact h
  | cons c cs ih => exact ih _ (AllEmpty_set p c h)

theorem AllEmpty_foldl_setDefault (l : List String) (p : Profile) (h : AllEmpty p) :
    AllEmpty (l.foldl (fun d c => Dict.setDefault d c ({} : ClassProfile)) p) := by
  induction l generalizing p with
  | nil => exact h
  | cons c cs ih => exact ih _ (AllEmpty_setDefault p c h)

theorem AllEmpty_initProfile (cfg : Config) (inst : Tracker.InstDict) : AllEmpty (initProfile cfg inst) := by
  unfold initProfile
  have h0 : AllEmpty (seedProfile cfg) := by
    unfold seedProfile
    cases seedTargets cfg with
    | none => intro c cp hg; simp at hg
    | some ts => exact AllEmpty_foldl_set ts [] (by intro c cp hg; simp at hg)
  generalize seedProfile cfg = p0 at h0
  induction inst generalizing p0 with
  | nil => exact h0
  | cons e es ih =>
    simp only [List.foldl_cons]
    exact ih _ (AllEmpty_foldl_setDefault e.2 p0 h0)

theorem eget_of_AllEmpty (prof : Profile) (h : AllEmpty prof) (c : String) (inv : Bool) (x : Tup) : eget prof c inv x = 0 := by
  unfold eget
  cases hg : Dict.get? prof c with
  | none => rfl
  | some cp => rw [h c cp hg]; cases inv <;> simp

theorem build_eq (cfg : Config) (inst : Tracker.InstDict) (d : IDict) :
    build cfg inst d = d.foldl (fun prof (e : String × NodeInfo) => annotateInstance cfg prof e.2) (initProfile cfg inst) := rfl

/-- entry of the profile = sum over the instance dictionary of the per-instance contributions -/
theorem eget_build (cfg : Config) (inst : Tracker.InstDict) (d : IDict) (c : String) (inv : Bool) (x : Tup) :
    eget (build cfg inst d) c inv x = (d.map fun e => instContrib cfg e.2 c inv x).sum := by
  rw [build_eq, eget_build_fold, eget_of_AllEmpty _ (AllEmpty_initProfile cfg inst), Nat.zero_add]

theorem map_entries_eq_map_keys {ν : Type} (d : Dict String ν) (hw : Dict.WF d) (H : String → ν → Nat) (dflt : ν) :
    (d.map fun e => H e.1 e.2) = (Dict.keys d).map fun k => H k ((Dict.get? d k).getD dflt) := by
  unfold Dict.keys
  rw [List.map_map]
  apply List.map_congr_left
  intro e he
  have := (Dict.mem_iff_get? d hw e.1 e.2).mp he
  simp [this]

section
variable (cfg : Config) (inst : Tracker.InstDict) (hw : Dict.WF inst) (g : Graph)
include hw

/-- what instance `n` contributes, declaratively -/
def specContrib (n c : String) (inv : Bool) (p ty : String) (card : Card) : Nat :=
  (Spec.classesIn inst n).count c *
    (if Spec.cardMatches cfg p card (if inv then Spec.inCount cfg inst g n p ty else Spec.outCount cfg inst g n p ty) then 1 else 0)

/-- **R1 (multiplicity form, for any selection with distinct keys)** -/
theorem eget_profile (c : String) (inv : Bool) (p ty : String) (card : Card) (hinv : inv = true → cfg.inverse = true) :
    eget (build cfg inst (pass2 cfg inst g)) c inv (p, ty, card) =
      ((Dict.keys inst).map fun n => specContrib cfg inst g n c inv p ty card).sum := by
  rw [eget_build]
  obtain ⟨hinvD, hkeys⟩ := pass2_inv cfg inst g hw
  rw [map_entries_eq_map_keys _ hinvD.wf (fun _ ni => instContrib cfg ni c inv (p, ty, card)) default, hkeys]
  apply congrArg
  apply List.map_congr_left
  intro n hn
  have hsel : Dict.contains inst n = true := (Dict.get?_isSome_iff_mem_keys inst n).mpr hn
  have hcls := cls_pass2 cfg inst g n
  unfold cls at hcls
  cases hg : Dict.get? (pass2 cfg inst g) n with
  | none =>
    rw [hg] at hcls
    unfold Dict.contains at hsel
    rw [← hcls] at hsel
    simp at hsel
  | some ni =>
    rw [hg] at hcls
    simp only [Option.map_some] at hcls
    have hcl : Spec.classesIn inst n = ni.classes := by unfold Spec.classesIn; rw [← hcls]; rfl
    obtain ⟨okD, okI⟩ := hinvD.ok n ni hg
    simp only [Option.getD_some]
    unfold instContrib specContrib
    cases inv with
    | false =>
      simp only [Bool.false_eq_true, if_false]
      rw [count_tuples_spec cfg ni.direct okD, hcl]
      have := dcount_pass2 cfg inst g n p ty hsel
      simp only [dcount, hg] at this
      rw [this]
    | true =>
      have hi := hinv rfl
      simp only [if_true, hi]
      rw [count_tuples_spec cfg ni.inverse okI, hcl]
      have := icount_pass2 cfg inst g n p ty hsel hi
      simp only [icount, hg] at this
      rw [this]

omit hw in
theorem sum_map_mul_ite (l : List String) (a : String → Nat) (b : String → Bool) (ha : ∀ n ∈ l, a n ≤ 1) :
    (l.map fun n => a n * (if b n then 1 else 0)).sum = (l.filter fun n => decide (a n = 1)).countP b := by
  induction l with
  | nil => rfl
  | cons x xs ih =>
    have hx := ha x (List.mem_cons_self)
    have ih' := ih (fun n hn => ha n (List.mem_cons_of_mem _ hn))
    simp only [List.map_cons, List.sum_cons, List.filter_cons]
    rw [ih']
    by_cases h1 : a x = 1
    · by_cases hb : b x = true
      · simp [h1, hb, List.countP_cons]; omega
      · have hb' : b x = false := by simpa using hb
        simp [h1, hb', List.countP_cons]
    · have h0 : a x = 0 := by omega
      simp [h0]

/-- **R1**: when no node is selected twice for the same class, every profile entry is the number of
selected nodes of the class whose value count matches the cardinality -/
theorem profile_exact (hnd : ∀ n, (Spec.classesIn inst n).Nodup)
    (c : String) (inv : Bool) (p ty : String) (card : Card) (hinv : inv = true → cfg.inverse = true) :
    eget (build cfg inst (pass2 cfg inst g)) c inv (p, ty, card) = Spec.countOver cfg inst g c inv p ty card := by
  rw [eget_profile cfg inst hw g c inv p ty card hinv]
  unfold specContrib Spec.countOver
  rw [sum_map_mul_ite]
  · congr 1
    apply List.filter_congr
    intro n _
    have h1 := (List.nodup_iff_count.mp (hnd n)) c
    by_cases hm : c ∈ Spec.classesIn inst n
    · have : List.count c (Spec.classesIn inst n) = 1 := by
        have := List.count_pos_iff.mpr hm; omega
      simp [this, hm]
    · have : List.count c (Spec.classesIn inst n) = 0 := List.count_eq_zero_of_not_mem hm
      simp [this, hm]
  · intro n _
    exact (List.nodup_iff_count.mp (hnd n)) c

end

end Profiler
end Shexer

namespace Shexer
namespace Profiler
open Dict

/-- `c_counts[c]` (0 when absent) -/
def cget (d : Dict String Nat) (c : String) : Nat := (Dict.get? d c).getD 0

theorem cget_foldl_bump (cs : List String) (d : Dict String Nat) (c : String) :
    cget (cs.foldl (fun d c => Dict.upd d c fun o => o.getD 0 + 1) d) c = cget d c + cs.count c := by
  induction cs generalizing d with
  | nil => simp
  | cons x xs ih =>
    simp only [List.foldl_cons]
    rw [ih]
    unfold cget
    rw [Dict.get?_upd]
    by_cases h : x = c
    · subst h; simp [List.count_cons]; omega
    · simp [h, List.count_cons]

theorem cget_seedCounts (cfg : Config) (c : String) : cget (seedCounts cfg) c = 0 := by
  unfold seedCounts
  cases seedTargets cfg with
  | none => simp [cget]
  | some ts =>
    simp only
    have : ∀ (l : List String) (d : Dict String Nat), cget d c = 0 → cget (l.foldl (fun d c => Dict.set d c 0) d) c = 0 := by
      intro l
      induction l with
      | nil => intro d h; exact h
      | cons x xs ih =>
        intro d h
        simp only [List.foldl_cons]
        apply ih
        unfold cget Dict.set
        rw [Dict.get?_upd]
        by_cases hx : x = c
        · simp [hx]
        · simp only [hx, if_false]; exact h
    exact this ts [] (by simp [cget])

theorem cget_initCounts (cfg : Config) (inst : Tracker.InstDict) (c : String) :
    cget (initCounts cfg inst) c = (inst.map fun e => e.2.count c).sum := by
  unfold initCounts
  have : ∀ (l : Tracker.InstDict) (d : Dict String Nat),
      cget (l.foldl (fun d e => e.2.foldl (fun d c => Dict.upd d c fun o => o.getD 0 + 1) d) d) c
        = cget d c + (l.map fun e => e.2.count c).sum := by
    intro l
    induction l with
    | nil => intro d; simp
    | cons e es ih =>
      intro d
      simp only [List.foldl_cons, List.map_cons, List.sum_cons]
      rw [ih, cget_foldl_bump]; omega
  rw [this, cget_seedCounts, Nat.zero_add]

/-- **R1, class counts**: the number reported for a class is the number of nodes selected for it -/
theorem count_exact (cfg : Config) (inst : Tracker.InstDict) (hw : Dict.WF inst)
    (hnd : ∀ n, (Spec.classesIn inst n).Nodup) (c : String) :
    cget (initCounts cfg inst) c = Spec.classSize inst c := by
  rw [cget_initCounts]
  rw [map_entries_eq_map_keys _ hw (fun _ cls => cls.count c) []]
  unfold Spec.classSize
  generalize Dict.keys inst = l
  induction l with
  | nil => rfl
  | cons n ns ih =>
    simp only [List.map_cons, List.sum_cons, List.filter_cons]
    rw [ih]
    have h1 := (List.nodup_iff_count.mp (hnd n)) c
    unfold Spec.classesIn at h1 ⊢
    by_cases hm : c ∈ (Dict.get? inst n).getD []
    · have : List.count c ((Dict.get? inst n).getD []) = 1 := by
        have := List.count_pos_iff.mpr hm; omega
      simp [this, hm]; omega
    · simp [List.count_eq_zero_of_not_mem hm, hm]

end Profiler
end Shexer
