import ShexerModel.Model.Shexer
/-! `MergeableConstraints.merge_group` once more, this time *with* Python's failure modes: the three optional slots
(`_bnode_constraint`, `_iri_constraint`, `_dominant_constraint`) are `Option`s whose attribute access fails on `None`
(`AttributeError`), `_shape_constraints[0]` fails on the empty list (`IndexError`).  Conditions are evaluated with
Python's short-circuit order.  `Props/C04.lean` proves that no failure is reachable and that the result is the one of
the total model `Shexer.mergeGroup` used by the pipeline. -/
namespace Shexer
namespace MergeE
open Shexer

inductive PyErr where
  | attributeOnNone (slot : String)
  | indexOutOfRange (what : String)
deriving DecidableEq, Repr

abbrev M := Except PyErr

/-- attribute access on an optional slot -/
def deref (slot : String) : Option α → M α
  | some a => pure a
  | none => throw (.attributeOnNone slot)

/-- `self._shape_constraints[0]` -/
def first : List α → M α
  | a :: _ => pure a
  | [] => throw (.indexOutOfRange "_shape_constraints[0]")

/-- Python `a and b` -/
def andThen (a : M Bool) (b : M Bool) : M Bool := do if (← a) then b else pure false
/-- Python `a or b` -/
def orElse (a : M Bool) (b : M Bool) : M Bool := do if (← a) then pure true else b

structure Slots where
  bnode : Option Stmt
  iri : Option Stmt
  shapes : List Stmt

/-- the slots after `add_constraint` of every member and `sort()` -/
def slotsOf (g : List Stmt) : Slots :=
  { bnode := (g.filter fun s => s.ty == Gen.BNODE_ELEM_TYPE).getLast?
    iri := (g.filter fun s => s.ty == Gen.IRI_ELEM_TYPE).getLast?
    shapes := sortDesc (g.filter fun s => isShapeType s.ty) }

def nonliteral (b i : Stmt) : Stmt :=
  { prop := b.prop, types := [Gen.NONLITERAL_ELEM_TYPE], card := mostGeneral b.card i.card,
    n := b.n + i.n, inverse := b.inverse, parts := some (b.n, i.n) }

/-- `_bnode_merging_strategy` -/
def bnodeStrategy (sl : Slots) : M (Stmt × Bool) := do
  if sl.iri.isSome then
    -- len(shapes) == 1 and iri.n + bnode.n == shapes[0].n
    let c ← andThen (pure (sl.shapes.length == 1))
      (do let i ← deref "_iri_constraint" sl.iri
          let b ← deref "_bnode_constraint" sl.bnode
          let s ← first sl.shapes
          pure (i.n + b.n == s.n))
    if c then
      let s ← first sl.shapes
      pure (s, true)
    else
      let b ← deref "_bnode_constraint" sl.bnode
      let i ← deref "_iri_constraint" sl.iri
      pure (nonliteral b i, false)
  else
    let c ← andThen (pure (sl.shapes.length != 0))
      (do let s ← first sl.shapes
          let b ← deref "_bnode_constraint" sl.bnode
          pure (s.n == b.n))
    if c then
      let s ← first sl.shapes
      pure (s, true)
    else
      let b ← deref "_bnode_constraint" sl.bnode
      pure (b, false)

/-- `_no_bnode_merging_strategy` -/
def noBnodeStrategy (sl : Slots) : M (Stmt × Bool) := do
  let c ← andThen (pure sl.iri.isSome)
    (orElse (pure (sl.shapes.length == 0))
      (do let s ← first sl.shapes
          let i ← deref "_iri_constraint" sl.iri
          pure (s.n < i.n)))
  if c then
    let i ← deref "_iri_constraint" sl.iri
    pure (i, false)
  else
    let s ← first sl.shapes
    pure (s, true)

/-- `_tune_dominant_constraint_wrt_or_config` (the `disable_or` branch compares a count with a statement object and so
never fires; it dereferences nothing) -/
def tuneOr (cfg : Config) (sl : Slots) (d0 : Stmt) (domIsShape : Bool) : Stmt × Bool :=
  if cfg.disableOr then (d0, false)
  else
    let stTypes :=
      if cfg.allowRedundantOr then (if domIsShape then [] else [d0.ty]) ++ sl.shapes.map (·.ty)
      else if domIsShape then sl.shapes.map (·.ty) else []
    if stTypes.length > 1 then
      ({ prop := d0.prop, types := stTypes, choice := true, card := d0.card, n := d0.n, inverse := d0.inverse,
         parts := d0.parts }, true)
    else (d0, false)

/-- `_feed_dominant_constraint_with_comments` (both optional slots are tested before use) -/
def feed (sl : Slots) (d0 d1 : Stmt) (domIsShape replaced : Bool) : Stmt :=
  let cB := match sl.bnode with
    | some b => [commentOf b] ++ (match sl.iri with | some i => [commentOf i] | none => [])
    | none => []
  let cS := (sl.shapes.filter fun s => replaced || !(domIsShape && s == d0)).map commentOf
  { d1 with comments := d1.comments ++ cB ++ cS }

/-- `merge_group` -/
def mergeGroupE (cfg : Config) (g : List Stmt) : M Stmt := do
  let sl := slotsOf g
  let d ← if sl.bnode.isSome then bnodeStrategy sl else noBnodeStrategy sl
  let t := tuneOr cfg sl d.1 d.2
  pure (feed sl d.1 t.1 d.2 t.2)

/-- the seeded variant of `_bnode_merging_strategy` without the `len(...) == 1` guard (kept as a regression witness:
`Props/C04.lean` shows that it *does* fail) -/
def bnodeStrategyUnguarded (sl : Slots) : M (Stmt × Bool) := do
  if sl.iri.isSome then
    let c ← (do let i ← deref "_iri_constraint" sl.iri
                let b ← deref "_bnode_constraint" sl.bnode
                let s ← first sl.shapes
                pure (i.n + b.n == s.n))
    if c then
      let s ← first sl.shapes
      pure (s, true)
    else
      let b ← deref "_bnode_constraint" sl.bnode
      let i ← deref "_iri_constraint" sl.iri
      pure (nonliteral b i, false)
  else bnodeStrategy sl

/-- the Python exception a run ended with, if any -/
def errorOf : M α → Option PyErr
  | .error e => some e
  | .ok _ => none

end MergeE
end Shexer
