import ShexerModel.Model.Profiler
/-! `detect_minimal_iri`: the longest-common-prefix fold of `ClassProfiler._annotate_min_iris` and
`AnnotateMinIriStrategy._determine_suitable_iri_pattern`; `examples_mode`: first-seen bookkeeping
of `ShapeExampleFeaturesDict`. -/
namespace Shexer
namespace MinIri
open Profiler

/-- `utils.uri.longest_common_prefix` on characters -/
def lcp : List Char → List Char → List Char
  | a :: as, b :: bs => if a = b then a :: lcp as bs else []
  | _, _ => []

/-- `_update_shape_min_iri`: the sentinel (`%`, `none` here) is replaced by the first instance -/
def update (cur : Option (List Char)) (inst : List Char) : Option (List Char) :=
  match cur with
  | none => some inst
  | some c => some (lcp inst c)

/-- `_annotate_min_iris`: instances in dictionary order, each updating every class it has -/
def fold (inst : Tracker.InstDict) : Dict String (Option (List Char)) :=
  inst.foldl (fun d (n, cls) => cls.foldl (fun d c => Dict.upd d c fun o => update (o.getD none) n.toList) d) []

def isSep (c : Char) : Bool := c == ':' || c == '/' || c == '#'

/-- longest prefix of `l` that ends in a separator (`none` if `l` has no separator) -/
def uptoLastSep (l : List Char) : Option (List Char) :=
  match (l.reverse.dropWhile fun c => !isSep c) with
  | [] => none
  | r => some r.reverse

/-- `_determine_suitable_iri_pattern` -/
def suitable (l : List Char) : Option (List Char) :=
  match uptoLastSep l with
  | none => none
  | some cand =>
    if cand.length < 3 then none
    else if ("http".toList.isPrefixOf cand) && cand.length < 9 then none
    else some cand

/-- the stem printed for class `c` -/
def stem (inst : Tracker.InstDict) (c : String) : Option String :=
  match Dict.get? (fold inst) c with
  | some (some l) => (suitable l).map String.ofList
  | _ => none

/-- shape example: the first instance (dictionary order) of the class -/
def shapeExample (inst : Tracker.InstDict) (c : String) : Option String :=
  (inst.find? fun (_, cls) => cls.contains c).map (·.1)

/-- constraint example of `(class, direction, property)`: the value of the first triple (document order,
after the namespace filter) whose subject (object, for the inverse direction) is an instance of the class -/
def constraintExample (cfg : Config) (inst : Tracker.InstDict) (g : Graph) (c : String) (inv : Bool) (p : String) : Option Term :=
  let vis := g.filter (passesFilter cfg)
  if inv then
    (vis.find? fun t => t.p == p && t.o.isNode && ((Dict.get? inst t.o.key).getD []).contains c).map (·.s)
  else
    (vis.find? fun t => t.p == p && t.s.isNode && ((Dict.get? inst t.s.key).getD []).contains c).map (·.o)

end MinIri
end Shexer
