import ShexerModel.Model.Shexer
/-! `ShaclSerializer`: the abstract content of the SHACL graph, statement by statement. -/
namespace Shexer
namespace Shacl
open Shexer (Stmt Shape)

inductive Restriction
  | nodeKind (k : String)
  | none_                        -- a macro mapped to nothing ('.')
  | datatype (d : String)        -- `sh:dataType` (sheXer's spelling)
  | node (shapeIri : String)
  | inValue (c : String)         -- `sh:in ( c )`
  | anyOf (tys : List String)    -- `sh:or ( [r₁] [r₂] … )`: one anonymous shape per alternative of a disjunction, `rᵢ` = `restrictionOf tyᵢ`
deriving DecidableEq, Repr

structure PropShape where
  inverse : Bool
  path : String
  restr : Restriction
  min : Occ
  max : Occ
deriving DecidableEq, Repr

structure NodeShape where
  iri : String
  targetClass : String
  props : List PropShape
deriving DecidableEq, Repr

/-- `_generate_shape_uri`: `%<iri>` ↦ `iri` (anything else is an error in the code) -/
def shapeIri (name : String) : String := ((name.drop 2).dropEnd 1).toString

/-- `_add_single_node_type` (one plain constraint, or one alternative of a disjunction) -/
def restrictionOf (ty : String) : Restriction :=
  match Gen.MACRO_MAPPING.lookup ty with
  | some (some k) => Restriction.nodeKind k
  | some none => Restriction.none_
  | none =>
    if ty.startsWith Gen.STARTING_CHAR_FOR_SHAPE_NAME then Restriction.node (shapeIri ty)
    else Restriction.datatype ty

/-- `_add_constraint`: instantiation constraints get `sh:in` (and, since the repair, the path of their direction); the others
`_add_node_type` + `_add_cardinality` + `_add_path` -/
def propShapeOf (cfg : Config) (s : Stmt) : PropShape :=
  if s.prop == cfg.instProp then
    { inverse := s.inverse, path := s.prop, restr := Restriction.inValue s.ty,
      min := Gen.min_occurs_from_cardinality s.card, max := Gen.max_occurs_from_cardinality s.card }
  else
    { inverse := s.inverse, path := s.prop, restr := if s.choice then Restriction.anyOf s.types else restrictionOf s.ty,
      min := Gen.min_occurs_from_cardinality s.card, max := Gen.max_occurs_from_cardinality s.card }

def emit (cfg : Config) (shapes : List Shape) : List NodeShape :=
  shapes.map fun sh => { iri := shapeIri sh.name, targetClass := sh.classUri, props := sh.stmts.map (propShapeOf cfg) }

end Shacl
end Shexer
