import ShexerModel.Base.Dict
import ShexerModel.Base.PyStr
import ShexerModel.Rdf
import ShexerModel.Model.Config
import ShexerModel.Model.Tracker
/-! Pass 2 and the class profile: `ClassProfiler.profile_classes` with
`DirectFeaturesStrategy` / `IncludeReverseFeaturesStrategy`. -/
namespace Shexer
namespace Profiler
open Tracker (InstDict)

/-- per node: property ↦ type ↦ number of values -/
abbrev Feat := Dict String (Dict String Nat)

structure NodeInfo where
  classes : List String
  direct : Feat := []
  inverse : Feat := []
deriving Repr, Inhabited

abbrev IDict := Dict String NodeInfo

/-- class ↦ property ↦ type ↦ cardinality ↦ number of instances -/
abbrev PropProfile := Dict String (Dict String (Dict Card Nat))
structure ClassProfile where
  direct : PropProfile := []
  inverse : PropProfile := []
deriving Repr, Inhabited
abbrev Profile := Dict String ClassProfile

/-- `utils.shapes.build_shapes_name_for_class_uri` -/
def shapeName (classUri ns : String) : String :=
  let cs := classUri.toList
  if PyStr.startsWith cs ['@'] then classUri
  else if PyStr.startsWith cs ['<'] && PyStr.endsWith cs ['>'] then Gen.STARTING_CHAR_FOR_SHAPE_NAME ++ classUri
  else
    let l1 := if cs.contains '#' && cs.getLast? != some '#' then PyStr.afterLast cs '#' else cs
    let l2 := if l1.contains '/' then
                (if l1.getLast? != some '/' then PyStr.afterLast l1 '/'
                 else match PyStr.rfindIdx l1.dropLast '/' with
                      | none => l1
                      | some i => l1.drop (i + 1))
              else l1
    let l3 := if PyStr.endsWith l2 ['>'] then l2.dropLast else l2
    let l4 := if PyStr.startsWith l3 ['<'] then l3.drop 1 else l3
    Gen.STARTING_CHAR_FOR_SHAPE_NAME ++ "<" ++ ns ++ String.ofList l4 ++ ">"

/-- `adapt_instances_dict` -/
def adapt (inst : InstDict) : IDict := inst.map fun (k, cls) => (k, { classes := cls })

/-- `_is_relevant_instance` -/
def isInstance (d : IDict) (t : Term) : Bool := t.isNode && Dict.contains d t.key

/-- `_decide_type_elem` -/
def typeOf (cfg : Config) (p : String) (t : Term) : String :=
  if p != cfg.instProp then
    match t with
    | .iri _ => Gen.IRI_ELEM_TYPE
    | .bnode _ => Gen.BNODE_ELEM_TYPE
    | .lit dt => dt
  else t.key

/-- `_decide_shapes_elem` (the profiler is always built with the default shapes namespace) -/
def shapesOf (d : IDict) (k : String) : List String :=
  match Dict.get? d k with
  | none => []
  | some ni => ni.classes.map fun c => shapeName c "http://weso.es/shapes/"

/-- `f[p][ty] += 1` with the `setdefault`s of `_introduce_needed_elements_…` -/
def bump (f : Feat) (p ty : String) : Feat :=
  Dict.upd f p fun ks => Dict.upd (ks.getD []) ty fun c => c.getD 0 + 1

def bumpAll (f : Feat) (p : String) (tys : List String) : Feat :=
  -- keys are introduced first (type, then shapes) and then incremented in the same order;
  -- since an increment never creates a key here, doing both at once gives the same dictionary
  tys.foldl (fun f ty => bump f p ty) f

/-- `_annotate_target_subject` -/
def annotateSubject (cfg : Config) (d : IDict) (t : Triple) : IDict :=
  let ty := typeOf cfg t.p t.o
  let shapes := if ty == Gen.IRI_ELEM_TYPE || ty == Gen.BNODE_ELEM_TYPE then shapesOf d t.o.key else []
  Dict.upd d t.s.key fun o =>
    let ni := o.getD default
    { ni with direct := bumpAll ni.direct t.p (ty :: shapes) }

/-- `_annotate_target_object` -/
def annotateObject (cfg : Config) (d : IDict) (t : Triple) : IDict :=
  let ty := typeOf cfg t.p t.s
  let shapes := if ty == Gen.IRI_ELEM_TYPE then shapesOf d t.s.key else []
  Dict.upd d t.o.key fun o =>
    let ni := o.getD default
    { ni with inverse := bumpAll ni.inverse t.p (ty :: shapes) }

/-- one triple of `_build_shape_of_instances` (relevance test + annotation) -/
def step (cfg : Config) (d : IDict) (t : Triple) : IDict :=
  if cfg.inverse then
    let d1 := if isInstance d t.s then annotateSubject cfg d t else d
    if isInstance d1 t.o then annotateObject cfg d1 t else d1
  else
    if isInstance d t.s then annotateSubject cfg d t else d

/-- `FilterNamespacesTriplesYielder._pass_filters` -/
def passesFilter (cfg : Config) (t : Triple) : Bool :=
  match cfg.ignoreNs with
  | none => true
  | some nss => !(nss.any fun ns => PyStr.directChildOf t.p.toList ns.toList)

def pass2 (cfg : Config) (inst : InstDict) (g : Graph) : IDict :=
  (g.filter (passesFilter cfg)).foldl (step cfg) (adapt inst)

/-- `_infer_valid_cardinalities` -/
def validCards (cfg : Config) (p : String) (k : Nat) : List Card :=
  if p == cfg.instProp then [Card.exact 1] else [Card.exact k, Card.plus]

/-- `_infer_direct_3tuple_features` / `_infer_inverse_3tuple_features` -/
def tuples (cfg : Config) (f : Feat) : List (String × String × Card) :=
  f.flatMap fun (p, ks) => ks.flatMap fun (ty, k) => (validCards cfg p k).map fun c => (p, ty, c)

def bumpP (pr : PropProfile) (x : String × String × Card) : PropProfile :=
  Dict.upd pr x.1 fun ks => Dict.upd (ks.getD []) x.2.1 fun cs => Dict.upd (cs.getD []) x.2.2 fun c => c.getD 0 + 1

/-- `annotate_instance_features` for one instance: every class of the instance receives its tuples -/
def annotateInstance (cfg : Config) (prof : Profile) (ni : NodeInfo) : Profile :=
  let dts := tuples cfg ni.direct
  let p1 := ni.classes.foldl (fun prof c =>
    Dict.upd prof c fun o => let cp := o.getD {}; { cp with direct := dts.foldl bumpP cp.direct }) prof
  if cfg.inverse then
    let its := tuples cfg ni.inverse
    ni.classes.foldl (fun prof c =>
      Dict.upd prof c fun o => let cp := o.getD {}; { cp with inverse := its.foldl bumpP cp.inverse }) p1
  else p1

/-- `_init_class_counts_and_shape_dict`: original targets first (reset to empty / 0), then one
    count per (instance, class) pair in dictionary order -/
def seedTargets (cfg : Config) : Option (List String) :=
  if cfg.targetsFromFile then none else cfg.targets

def seedCounts (cfg : Config) : Dict String Nat :=
  match seedTargets cfg with
  | some ts => ts.foldl (fun d c => Dict.set d c 0) []
  | none => []

def initCounts (cfg : Config) (inst : InstDict) : Dict String Nat :=
  inst.foldl (fun d e => e.2.foldl (fun d c => Dict.upd d c fun o => o.getD 0 + 1) d) (seedCounts cfg)

def seedProfile (cfg : Config) : Profile :=
  match seedTargets cfg with
  | some ts => ts.foldl (fun d c => Dict.set d c {}) []
  | none => []

def initProfile (cfg : Config) (inst : InstDict) : Profile :=
  inst.foldl (fun d e => e.2.foldl (fun d c => Dict.setDefault d c {}) d) (seedProfile cfg)

def build (cfg : Config) (inst : InstDict) (d : IDict) : Profile :=
  d.foldl (fun prof e => annotateInstance cfg prof e.2) (initProfile cfg inst)

/-- `has_shape_annotated_features` -/
def hasFeatures (cp : ClassProfile) : Bool := !cp.direct.isEmpty || !cp.inverse.isEmpty

/-- delete the type keys `names` from every property of one direction -/
def eraseTypesPP (names : List String) (pp : PropProfile) : PropProfile :=
  pp.map fun (p, ks) => (p, names.foldl (fun d nm => Dict.erase d nm) ks)

def eraseTypes (names : List String) (cp : ClassProfile) : ClassProfile :=
  { direct := eraseTypesPP names cp.direct, inverse := eraseTypesPP names cp.inverse }

/-- `_clean_class_profile`.  The keys of the profile are class IRIs while `_original_target_nodes`
holds shape *names*, so with class targets no key is ever protected.  Every class without features
is dropped, and the references to its shape (type keys carrying the *name* of the shape, in the
profiler's default namespace) are deleted from every property of every remaining class.  One
iteration suffices: deleting a type key never empties the property dictionary of a class. -/
def clean (cfg : Config) (prof : Profile) : Profile :=
  if cfg.removeEmpty then
    let names := (prof.filter fun (c, cp) => !hasFeatures cp && !cfg.protectedLabels.contains c).map
      fun (c, _) => shapeName c "http://weso.es/shapes/"
    (prof.filter fun (c, cp) => hasFeatures cp || cfg.protectedLabels.contains c).map fun (c, cp) => (c, eraseTypes names cp)
  else prof

structure Result where
  profile : Profile
  counts : Dict String Nat
  idict : IDict
deriving Repr, Inhabited

/-- the profiler for a given selection of instances (class targets, or the nodes of a shape map) -/
def runSel (cfg : Config) (inst : InstDict) (g : Graph) : Result :=
  let d := pass2 cfg inst g
  { profile := clean cfg (build cfg inst d), counts := initCounts cfg inst, idict := d }

def run (cfg : Config) (g : Graph) : Result := runSel cfg (Tracker.track cfg g) g

end Profiler
end Shexer
