import ShexerModel.Model.Profiler
/-! `ClassShexer.shex_classes` with `DirectShexingStrategy` / `DirectAndInverseShexingStrategy`
and `MergeableConstraints`: threshold filter, sorting, the two merge stages, the relaxation
pass and the removal of empty shapes. -/
namespace Shexer
namespace Shexer
open Profiler

/-- a rendered `# … obj: T. Cardinality: c` comment (figures frozen when the comment is made) -/
structure Comment where
  n : Nat
  /-- type shown (`none` for the comment of a choice statement: "… with cardinality c") -/
  ty : Option String
  card : Card
deriving DecidableEq, Repr, Inhabited

structure Stmt where
  prop : String
  /-- one type for an ordinary `Statement`; several for a `FixedPropChoiceStatement` -/
  types : List String
  choice : Bool := false
  card : Card
  n : Nat
  inverse : Bool := false
  comments : List Comment := []
  /-- provenance of `probability` for the merged `NONLITERAL` statement: the implementation adds the
  two floats `nB/N + nI/N`; the model keeps the two counts (`n = nB + nI`) -/
  parts : Option (Nat × Nat) := none
deriving DecidableEq, Repr, Inhabited

/-- `st_type` of an ordinary statement -/
def Stmt.ty (s : Stmt) : String := s.types.headD ""

structure Shape where
  name : String
  classUri : String
  nInstances : Nat
  stmts : List Stmt
deriving DecidableEq, Repr, Inhabited

/-- `frequency >= acceptance_threshold` with `frequency = n / N` and threshold `a / b` -/
def passes (cfg : Config) (N n : Nat) : Bool := Gen.threshold_keeps n N cfg.thNum cfg.thDen

/-- candidates of one direction, in dictionary order -/
def candidates (cfg : Config) (N : Nat) (inv : Bool) (pp : PropProfile) : List Stmt :=
  pp.flatMap fun (p, ks) => ks.flatMap fun (ty, cs) => cs.filterMap fun (c, n) =>
    if passes cfg N n then some { prop := p, types := [ty], card := c, n := n, inverse := inv } else none

/-- `_yield_base_shapes_direction_aware` -/
def baseShapes (cfg : Config) (r : Profiler.Result) : List Shape :=
  r.profile.map fun (cls, cp) =>
    let N := (Dict.get? r.counts cls).getD 0
    { name := shapeName cls cfg.shapesNs, classUri := cls, nInstances := N,
      stmts := candidates cfg N false cp.direct ++ (if cfg.inverse then candidates cfg N true cp.inverse else []) }

/-- stable descending insertion: `x` goes before the first element whose key is `≤` its own -/
def insertDesc (x : Stmt) : List Stmt → List Stmt
  | [] => [x]
  | y :: ys => if y.n ≤ x.n then x :: y :: ys else y :: insertDesc x ys

/-- `list.sort(reverse=True, key=probability)`: stable, descending (all statements of a shape
share the denominator, so the key is `n`) -/
def sortDesc (l : List Stmt) : List Stmt := l.foldr insertDesc []

def commentOf (s : Stmt) : Comment :=
  { n := s.n, ty := if s.choice then none else some s.ty, card := s.card }

def sameKey (a b : Stmt) : Bool := a.prop == b.prop && a.ty == b.ty

/-- `_is_a_group_of_statements_with_useless_positive_closure` (tolerance 0) -/
def uselessPlus (g : List Stmt) : Bool :=
  match g with
  | [a, b] => a.n == b.n && ((a.card == Card.plus) != (b.card == Card.plus))
  | _ => false

/-- `_decide_best_statement_with_cardinalities_in_comments` -/
def decideBest (cfg : Config) (g : List Stmt) : Stmt :=
  if cfg.discardUseless && uselessPlus g then
    (g.find? fun s => s.card != Card.plus).getD default
  else
    let gs := sortDesc g
    let pick : Option Stmt :=
      if cfg.keepLessSpecific then gs.find? fun s => s.card == Card.plus
      else gs.find? fun s => s.card != Card.plus
    let res := (pick.orElse fun _ => gs.head?).getD default
    { res with comments := res.comments ++ (gs.filter fun s => s.card != res.card).map commentOf }

/-- `_group_constraints_with_same_prop_and_obj` (fuel = length; each round consumes the head) -/
def groupSameAux (cfg : Config) : Nat → List Stmt → List Stmt
  | 0, _ => []
  | _ + 1, [] => []
  | fuel + 1, c :: cs =>
    let same := cs.filter (sameKey c)
    let rest := cs.filter fun d => !sameKey c d
    (if same.isEmpty then c else decideBest cfg (c :: same)) :: groupSameAux cfg fuel rest

def groupSame (cfg : Config) (l : List Stmt) : List Stmt := groupSameAux cfg l.length l

/-- `_is_a_literal` negated: IRI, BNode or a shape name -/
def isNodeType (ty : String) : Bool :=
  ty.startsWith Gen.STARTING_CHAR_FOR_SHAPE_NAME || ty == Gen.IRI_ELEM_TYPE || ty == Gen.BNODE_ELEM_TYPE

def isShapeType (ty : String) : Bool :=
  !(ty == Gen.IRI_ELEM_TYPE) && !(ty == Gen.BNODE_ELEM_TYPE)

/-- `_most_general_cardinality` (generated from the AST) -/
def mostGeneral (a b : Card) : Card := Gen.most_general_cardinality a b

/-- `MergeableConstraints.merge_group` for a group of ≥ 2 node-kind statements of one property -/
def mergeGroup (cfg : Config) (g : List Stmt) : Stmt :=
  let gs := sortDesc g
  let bnode := (g.filter fun s => s.ty == Gen.BNODE_ELEM_TYPE).getLast?
  let iri := (g.filter fun s => s.ty == Gen.IRI_ELEM_TYPE).getLast?
  let shapes := sortDesc (g.filter fun s => isShapeType s.ty)
  -- dominant constraint, and whether it is one of the shape constraints
  let dom : Stmt × Bool :=
    match bnode with
    | some b =>
      match iri with
      | some i =>
        match shapes with
        | [s] => if i.n + b.n == s.n then (s, true)
                 else ({ prop := b.prop, types := [Gen.NONLITERAL_ELEM_TYPE], card := mostGeneral b.card i.card,
                         n := b.n + i.n, inverse := b.inverse, parts := some (b.n, i.n) }, false)
        | _ => ({ prop := b.prop, types := [Gen.NONLITERAL_ELEM_TYPE], card := mostGeneral b.card i.card,
                  n := b.n + i.n, inverse := b.inverse, parts := some (b.n, i.n) }, false)
      | none =>
        match shapes with
        | s :: _ => if s.n == b.n then (s, true) else (b, false)
        | [] => (b, false)
    | none =>
      match iri, shapes with
      | some i, [] => (i, false)
      | some i, s :: _ => if s.n < i.n then (i, false) else (s, true)
      | none, s :: _ => (s, true)
      | none, [] => (gs.headD default, false)
  let (d0, domIsShape) := dom
  -- `_tune_dominant_constraint_wrt_or_config`
  let (d1, replaced) : Stmt × Bool :=
    if cfg.disableOr then (d0, false)
    else
      let stTypes :=
        if cfg.allowRedundantOr then (if domIsShape then [] else [d0.ty]) ++ shapes.map (·.ty)
        else if domIsShape then shapes.map (·.ty) else []
      if stTypes.length > 1 then
        ({ prop := d0.prop, types := stTypes, choice := true, card := d0.card, n := d0.n, inverse := d0.inverse,
           parts := d0.parts }, true)
      else (d0, false)
  -- `_feed_dominant_constraint_with_comments`
  let cB := match bnode with
    | some b => [commentOf b] ++ (match iri with | some i => [commentOf i] | none => [])
    | none => []
  let cS := (shapes.filter fun s => replaced || !(domIsShape && s == d0)).map commentOf
  { d1 with comments := d1.comments ++ cB ++ cS }

/-- `_group_node_constraints` -/
def groupNodeAux (cfg : Config) : Nat → List Stmt → List Stmt
  | 0, _ => []
  | _ + 1, [] => []
  | fuel + 1, c :: cs =>
    if c.prop == cfg.instProp || !isNodeType c.ty then c :: groupNodeAux cfg fuel cs
    else
      let mem := cs.filter fun d => isNodeType d.ty && d.prop == c.prop
      let rest := cs.filter fun d => !(isNodeType d.ty && d.prop == c.prop)
      (if mem.isEmpty then c else mergeGroup cfg (c :: mem)) :: groupNodeAux cfg fuel rest

def groupNode (cfg : Config) (l : List Stmt) : List Stmt := groupNodeAux cfg l.length l

/-- `_select_valid_statements_of_shape` -/
def selectValid (cfg : Config) (l : List Stmt) : List Stmt := groupNode cfg (groupSame cfg l)

/-- `_change_statement_cardinality_to_all_compliant` (applied when `probability != 1`) -/
def relax (cfg : Config) (N : Nat) (s : Stmt) : Stmt :=
  if Gen.relax_trigger s.n N then
    { s with comments := commentOf s :: s.comments,
             card := Gen.relax_cardinality cfg.allowOpt s.card }
  else s

/-- `_generalize_exact_cardinalities` -/
def generalize (s : Stmt) : Stmt := { s with card := Gen.generalize_cardinality s.card }

/-- `_tune_list_of_valid_statements` -/
def tune (cfg : Config) (N : Nat) (l : List Stmt) : List Stmt :=
  let l1 := sortDesc l
  let l2 := if cfg.allCompliant then l1.map (relax cfg N) else l1
  let l3 := if cfg.disableExact then l2.map generalize else l2
  if cfg.disableComments then l3.map fun s => { s with comments := [] } else l3

/-- `set_valid_shape_constraints` -/
def setValid (cfg : Config) (sh : Shape) : Shape :=
  let direct := sh.stmts.filter fun s => !s.inverse
  let inv := sh.stmts.filter fun s => s.inverse
  let valid := if cfg.inverse then selectValid cfg direct ++ selectValid cfg inv else selectValid cfg direct
  { sh with stmts := tune cfg sh.nInstances valid }

/-- `_statements_without_shapes_to_remove` through the `direct_statements` / `inverse_statements`
setters (which move the rewritten direction to the end of the list) -/
def dropRefs (cfg : Config) (gone : List String) (sh : Shape) : Shape :=
  -- a plain statement is kept unless its type is a removed shape; a disjunction unless one of its types is
  let keep (s : Stmt) : Bool := !gone.contains s.ty && (!s.choice || !(s.types.any fun ty => gone.contains ty))
  let direct := (sh.stmts.filter fun s => !s.inverse).filter keep
  let inv := sh.stmts.filter fun s => s.inverse
  if cfg.inverse then { sh with stmts := direct ++ inv.filter keep }
  else { sh with stmts := inv ++ direct }

/-- `_clean_empty_shapes` -/
def cleanEmptyAux (cfg : Config) : Nat → List Shape → List Shape
  | 0, shapes => shapes
  | fuel + 1, shapes =>
    let gone := (shapes.filter fun sh => sh.stmts.isEmpty).map (·.name)
    if gone.isEmpty then shapes
    else cleanEmptyAux cfg fuel ((shapes.filter fun sh => !gone.contains sh.name).map (dropRefs cfg gone))

def cleanEmpty (cfg : Config) (shapes : List Shape) : List Shape :=
  if cfg.removeEmpty then cleanEmptyAux cfg (shapes.length + 1) shapes else shapes

/-- `ClassShexer.shex_classes` -/
def shexClasses (cfg : Config) (r : Profiler.Result) : List Shape :=
  let base := baseShapes cfg r
  let sorted := base.map fun sh => { sh with stmts := sortDesc sh.stmts }
  cleanEmpty cfg (sorted.map (setValid cfg))

def run (cfg : Config) (g : Graph) : List Shape := shexClasses cfg (Profiler.run cfg g)

/-- the same pipeline for an externally given selection (shape maps, mixed mode) -/
def runSel (cfg : Config) (inst : Tracker.InstDict) (g : Graph) : List Shape := shexClasses cfg (Profiler.runSel cfg inst g)

end Shexer
end Shexer
