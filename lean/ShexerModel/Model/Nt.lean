import ShexerModel.Rdf
import ShexerModel.Generated
/-! `NtTriplesYielder`: the line tokenizer (`_look_for_tokens` and its `_look_for_last_index_*` helpers), the
classification of tokens (`utils.triple_yielders.tune_token` / `tune_prop`) and the datatype decision
(`utils.uri.decide_literal_type`), on lists of characters.  Python indices become suffixes: every search of the
implementation goes forward from the current index, the one look-behind (`target_str[index - 1] == "."`) stays
inside the token.  A search whose failure (`find` = -1) makes the implementation loop for ever is `none`. -/
namespace Shexer
namespace Nt

/-- `str.isspace()` for one character (the code points with the Unicode White_Space property or bidi class B/S/WS) -/
def isSpace (c : Char) : Bool :=
  let n := c.toNat
  (9 ≤ n && n ≤ 13) || (28 ≤ n && n ≤ 32) || n == 133 || n == 160 || n == 5760 || (8192 ≤ n && n ≤ 8202) ||
    n == 8232 || n == 8233 || n == 8239 || n == 8287 || n == 12288

/-- `str.isnumeric()`, restricted to what the tokenizer can meet at a scan position of the documents in scope
(ASCII digits; other numeric code points only occur inside tokens there) -/
def isNumeric (c : Char) : Bool := c.isDigit

/-- `str.strip()` -/
def strip (l : List Char) : List Char := ((l.dropWhile isSpace).reverse.dropWhile isSpace).reverse

/-- `_look_for_last_index_before_blank` from the first char of `l`: (token, rest of the line); the token ends at the
next blank or right before a comment.  A dot that ends the token is the final dot of the statement and stays in
the rest. -/
def toBlank (l : List Char) : List Char × List Char :=
  let tok := l.takeWhile fun c => !isSpace c && c != '#'
  let rest := l.dropWhile fun c => !isSpace c && c != '#'
  if tok.getLast? = some '.' then (tok.dropLast, '.' :: rest) else (tok, rest)

/-- `_look_for_index_of_closing_quotes`, from the char after the opening quotes: (lexical form with its escapes, rest
after the closing quotes); `none` when the line ends first -/
def closing : List Char → Option (List Char × List Char)
  | [] => none
  | c :: t =>
    if c = '"' then some ([], t)
    else if c = '\\' then
      match t with
      | [] => none
      | d :: t' => (closing t').map fun (a, b) => (c :: d :: a, b)
    else (closing t).map fun (a, b) => (c :: a, b)

/-- `target.find(">")`: (up to and including the first `>`, rest) -/
def toCorner : List Char → Option (List Char × List Char)
  | [] => none
  | c :: t => if c = '>' then some ([c], t) else (toCorner t).map fun (a, b) => (c :: a, b)

/-- `_look_for_last_index_of_literal_token`, from the char after the opening quotes; outer `none` = the implementation
does not terminate (datatype IRI without `>`) -/
def literalToken (afterOpen : List Char) : Option (List Char × List Char) :=
  match closing afterOpen with
  | none => some ('"' :: afterOpen, [])                      -- unterminated: the token takes the rest of the line
  | some (content, rest) =>
    let head := '"' :: content ++ ['"']
    match rest with
    | '@' :: _ => let r := toBlank rest; some (head ++ r.1, r.2)
    | '^' :: '^' :: '<' :: _ => (toCorner rest).map fun (a, b) => (head ++ a, b)
    | '^' :: '^' :: _ => let r := toBlank rest; some (head ++ r.1, r.2)
    | _ => some (head, rest)

/-- `_look_for_tokens` on the stripped line; `none` = does not terminate -/
def tokensAux : Nat → List Char → Option (List (List Char))
  | 0, _ => none
  | _, [] => some []
  | fuel + 1, c :: t =>
    if c = '<' then
      match toCorner (c :: t) with
      | none => none
      | some (tok, rest) => (tokensAux fuel rest).map (tok :: ·)
    else if c = '"' then
      match literalToken t with
      | none => none
      | some (tok, rest) => (tokensAux fuel rest).map (tok :: ·)
    else if c = '_' then
      let r := toBlank (c :: t)
      (tokensAux fuel r.2).map (r.1 :: ·)
    else if c = '.' then some []
    else if isNumeric c then
      let r := toBlank (c :: t)
      (tokensAux fuel r.2).map (r.1 :: ·)
    else tokensAux fuel t

def tokens (line : List Char) : Option (List (List Char)) := tokensAux (line.length + 1) line

inductive Err where
  | valueError       -- `remove_corners`: "Wrong parameter of function"
  | runtimeError     -- `decide_literal_type`: "Unrecognized literal type"
  | diverges
deriving DecidableEq, Repr

/-- `a[a.rfind('"') + 1:]` -/
def afterLastQuote (l : List Char) : List Char := (l.reverse.takeWhile fun c => c != '"').reverse

def startsWith (l : List Char) (p : String) : Bool := p.toList.isPrefixOf l
def endsWith (l : List Char) (p : String) : Bool := p.toList.reverse.isPrefixOf l.reverse

/-- `decide_literal_type` (no base namespace: N-Triples) -/
def decideType (tok : List Char) : Except Err String :=
  let suffix := strip (afterLastQuote tok)
  if startsWith suffix "@" then pure Gen.LANG_STRING_TYPE
  else if !startsWith suffix "^^" then pure Gen.STRING_TYPE
  else if startsWith suffix "^^<" && endsWith suffix ">" then pure (String.ofList ((suffix.drop 3).dropLast))
  else if startsWith suffix "^^xsd:" then pure (Gen.XSD_NAMESPACE ++ String.ofList (suffix.drop 6))
  else if startsWith suffix "^^rdf:" then pure (Gen.RDF_SYNTAX_NAMESPACE ++ String.ofList (suffix.drop 6))
  else if startsWith suffix "^^dt:" then pure (Gen.DT_NAMESPACE ++ String.ofList (suffix.drop 5))
  else if startsWith suffix "^^geo:" then pure (Gen.OPENGIS_NAMESPACE ++ String.ofList (suffix.drop 6))
  else throw .runtimeError

/-- `remove_corners(raise_error_if_no_corners=True)` -/
def removeCorners (tok : List Char) : Except Err String :=
  if startsWith tok "<" && endsWith tok ">" then pure (String.ofList ((tok.drop 1).dropLast)) else throw .valueError

/-- `tune_token` (`allow_untyped_numbers=False`) -/
def tuneToken (tok : List Char) : Except Err Term :=
  if startsWith tok "<" then do pure (.iri (← removeCorners tok))
  else if startsWith tok "\"" then do pure (.lit (← decideType tok))
  else if startsWith tok "_:" then pure (.bnode (String.ofList tok))
  else if strip tok == "[]".toList then pure (.bnode (String.ofList tok))
  else do pure (.lit (← decideType tok))

/-- one iteration of `yield_triples`: `ok none` = the line is counted as an error and dropped -/
def parseLine (line : List Char) : Except Err (Option Triple) :=
  match tokens (strip line) with
  | none => throw .diverges
  | some [a, b, c] => do
    let s ← tuneToken a
    let p ← removeCorners b
    let o ← tuneToken c
    pure (some { s := s, p := p, o := o })
  | some _ => pure none

/-- the whole reader: triples in document order, number of error lines -/
def readLines (lines : List (List Char)) : Except Err (List Triple × Nat) :=
  lines.foldlM (fun (acc : List Triple × Nat) l => do
    match ← parseLine l with
    | some t => pure (acc.1 ++ [t], acc.2)
    | none => pure (acc.1, acc.2 + 1)) ([], 0)

end Nt
end Shexer
