import ShexerModel.Model.Tracker
import ShexerModel.Base.PyStr
/-! Target resolution for shape maps: `ShapeMapLabelParser`, `NodeSelectorParser` (node, prefixed
node, `{FOCUS p o}` / `{s p FOCUS}` with `_` and `a`), `ShapeMapInstanceTracker` and
`MixedInstanceTracker._integrate_dicts`.  FOCUS patterns are *evaluated* here directly on the triple
list (one row per matching triple, document order); the implementation compiles them to SPARQL and
asks rdflib, whose row order is not specified. -/
namespace Shexer
namespace Targets

/-- prefix ↦ namespace (the reversed `namespaces_dict`), in dictionary order -/
abbrev Prefixes := List (String × String)

/-- `uri.replace(prefix + ":", namespace)` — every occurrence, as Python's `str.replace` -/
def replaceAll (s pat rep : String) : String := s.replace pat rep

/-- first prefix (dictionary order) such that the token starts with `prefix:` -/
def findPrefix (px : Prefixes) (tok : String) : Option (String × String) :=
  px.find? fun (p, _) => tok.startsWith (p ++ ":")

/-- `ShapeMapLabelParser.parse_shape_map_label`: `<iri>` stays as it is (corners included); a prefixed
name becomes `%` + expanded IRI; unknown prefix / no colon is a `ValueError` (`none`) -/
def parseLabelL (px : List (List Char × List Char)) (raw : List Char) : Option (List Char) :=
  if raw.length < 2 then some raw
  else if ['<'].isPrefixOf raw && ['>'].isPrefixOf raw.reverse then some raw
  else
    match raw.dropWhile (· != ':') with
    | [] => none                                            -- no colon at all
    | _ :: rest =>                                          -- cut at the FIRST colon: the local name may contain more
      match px.find? fun e => e.1 == raw.takeWhile (· != ':') with
      | some e => some (Gen.STARTING_CHAR_FOR_SHAPE_NAME.toList ++ e.2 ++ rest)
      | none => none

/-- the same on `String`s (what the driver and the target resolution use); `Props/GenStrLabel.lean` proves that `parseLabelL` is the
label parser regenerated from /repo -/
def parseLabel (px : Prefixes) (raw : String) : Option String :=
  (parseLabelL (px.map fun e => (e.1.toList, e.2.toList)) raw.toList).map String.ofList

inductive Pos
  | focus
  | wildcard
  | term (iri : String)
deriving DecidableEq, Repr

inductive Selector
  | node (iri : String)
  | pattern (s : Pos) (p : String) (o : Pos)
  | unsupported (raw : String)      -- SPARQL selectors: evaluated by rdflib only
  | error
deriving DecidableEq, Repr

/-- `_parse_uri_focus_expression` (result without corners) -/
def parseUriTok (px : Prefixes) (tok : String) : Option String :=
  if tok == "a" then some "http://www.w3.org/1999/02/22-rdf-syntax-ns#type"
  else if tok.endsWith ">" then (if tok.startsWith "<" then some ((tok.drop 1).dropEnd 1).toString else none)
  else match findPrefix px tok with
    | some (p, ns) => some (replaceAll tok (p ++ ":") ns)
    | none => none

def parsePos (px : Prefixes) (tok : String) : Option Pos :=
  if tok.toLower == "focus" then some Pos.focus
  else if tok == "_" then some Pos.wildcard
  else (parseUriTok px tok).map Pos.term

/-- `NodeSelectorParser.parse_node_selector` -/
def parseSelector (px : Prefixes) (raw0 : String) : Selector :=
  let raw := raw0.trimAscii.toString
  if raw.startsWith "<" then
    (if raw.endsWith ">" then Selector.node ((raw.drop 1).dropEnd 1).toString else Selector.error)
  else if raw.startsWith "{" then
    if !raw.endsWith "}" then Selector.error
    else
      let inner := ((raw.drop 1).dropEnd 1).toString.trimAscii.toString
      let pieces := (inner.splitOn " ").filter (· != "")
      match pieces with
      | [a, b, c] =>
        match parsePos px a, parseUriTok px b, parsePos px c with
        | some s, some p, some o =>
          let nf := (if s == Pos.focus then 1 else 0) + (if o == Pos.focus then 1 else 0)
          if nf == 1 then Selector.pattern s p o else Selector.error
        | _, _, _ => Selector.error
      | _ => Selector.error
  else if raw.startsWith "SPARQL" then Selector.unsupported raw
  else match findPrefix px raw with
    | some (p, ns) => Selector.node (replaceAll raw (p ++ ":") ns)
    | none => Selector.error

def posMatches (pos : Pos) (t : Term) : Bool :=
  match pos with
  | Pos.focus => true
  | Pos.wildcard => true
  | Pos.term iri => t == Term.iri iri

/-- the rows a selector returns: one per matching triple (document order), the focus position's key -/
def evalSelector (g : Graph) : Selector → List String
  | Selector.node iri => [iri]
  | Selector.pattern s p o =>
    (g.filter fun t => posMatches s t.s && t.p == p && posMatches o t.o).map fun t =>
      if s == Pos.focus then t.s.key else t.o.key
  | _ => []

/-- `ShapeMapInstanceTracker.track_instances`: per item, every returned node gets the label once -/
def trackItems (items : List (List String × String)) : Tracker.InstDict :=
  items.foldl (fun d (nodes, label) =>
    nodes.foldl (fun d n => Dict.upd d n fun o => let l := o.getD []; if l.contains label then l else l ++ [label]) d) []

/-- `MixedInstanceTracker._integrate_dicts` (no name clash between class IRIs and labels assumed) -/
def integrate (ref new : Tracker.InstDict) : Tracker.InstDict :=
  new.foldl (fun d (n, cls) => Dict.upd d n fun o => o.getD [] ++ cls) ref

/-- a fixed-syntax shape-map line: `selector@label[,]`; `none` for blank lines and `#` comments -/
def splitFixedLine (line0 : String) : Option (Option (String × String)) :=
  let line := line0.trimAscii.toString
  if line.isEmpty || line.startsWith "#" then none
  else
    let l1 := if line.endsWith "," then (line.dropEnd 1).toString else line
    match l1.splitOn "@" with
    | [a, b] => some (some (a.trimAscii.toString, b.trimAscii.toString))
    | _ => some none          -- ValueError: not exactly one '@'

end Targets
end Shexer
