import ShexerModel.Model.Ttl
/-! `TsvNtTriplesYielder` (input format `TSV_SPO`): one statement per line, the three terms in N-Triples syntax separated
by tabs, no final dot; and the concatenation of several sources (`MultifileBaseTripleYielder.yield_triples`). -/
namespace Shexer
namespace Tsv
open Nt (strip startsWith tuneToken removeCorners Err)

/-- `str.split("\t")` -/
def splitTab (l : List Char) : List (List Char) :=
  l.foldr (fun c acc => if c = '\t' then [] :: acc else match acc with | [] => [[c]] | h :: t => (c :: h) :: t) [[]]

/-- `tune_token(tok, allow_untyped_numbers=True)`: as in the N-Triples reader, plus the numeric reading of unquoted tokens -/
def tuneObj (tok : List Char) : Except Err Term :=
  if startsWith tok "<" || startsWith tok "\"" || startsWith tok "_:" || strip tok == "[]".toList then tuneToken tok
  else if Ttl.isNum tok then pure (.lit (if Ttl.isIntegral tok then Ttl.INTEGER_TYPE else Ttl.FLOAT_TYPE))
  else tuneToken tok

/-- one iteration of `yield_triples`: `ok none` = the line is counted as an error -/
def parseLine (line : List Char) : Except Err (Option Triple) :=
  match splitTab (strip line) with
  | [a, b, c] => do
    let s ← tuneToken a
    let p ← removeCorners b
    let o ← tuneObj c
    pure (some { s := s, p := p, o := o })
  | _ => pure none

def readLines (lines : List (List Char)) : Except Err (List Triple × Nat) :=
  lines.foldlM (fun (acc : List Triple × Nat) l => do
    match ← parseLine l with
    | some t => pure (acc.1 ++ [t], acc.2)
    | none => pure (acc.1, acc.2 + 1)) ([], 0)

/-- `MultifileBaseTripleYielder.yield_triples`: the sources one after the other, each with a reader of its own -/
def readSources (read : List (List Char) → Except Err (List Triple × Nat)) (sources : List (List (List Char))) :
    Except Err (List Triple × Nat) :=
  sources.foldlM (fun (acc : List Triple × Nat) src => do
    let r ← read src
    pure (acc.1 ++ r.1, acc.2 + r.2)) ([], 0)

end Tsv
end Shexer
