import ShexerModel.Model.Nt
/-! `BigTtlTriplesYielder` (input format `TURTLE_ITER`): line cleaning (`_clean_line`, `_remove_comments_if_needed`),
the tokenizer (`_next_line_token` and its helpers), the subject / predicate / object state machine that persists
across lines (`_process_line_with_potential_triples`, `_assing_tmp_element_and_promote_state`), prefix and base
handling (`_process_prefix_line`, `_process_base_line`, `_parse_elem`, `_parse_cornered_element`,
`_expand_prefixed_datatype_if_needed`) and the final classification (`tune_subj`, `tune_prop`, `tune_token`).

Modelled, not verified: `urllib.parse.urljoin` is the parameter `resolve` (an external function of the standard
library); `float()` acceptance is `isNum` (sign, digits, one dot, exponent; `inf`, `nan`, `_` not modelled);
`_find_next_unescaped_quotes` counts the backslashes before a quote backwards, the model skips escape pairs forwards
(`Nt.closing`) — the same quote for every string that starts at an opening quote. -/
namespace Shexer
namespace Ttl
open Nt (isSpace strip closing startsWith endsWith afterLastQuote)

inductive Err where
  | valueError (what : String)
  | runtimeError
  | attributeError      -- a `None` element reaches `tune_*`
  | indexError
deriving DecidableEq, Repr

abbrev M := Except Err

/-! ### `_clean_line` -/

/-- `_OTHER_BLANKS.sub(" ", …)` -/
def subBlanks (l : List Char) : List Char := l.map fun c => if c = '\r' || c = '\n' || c = '\t' then ' ' else c

/-- `_SEVERAL_BLANKS.sub(" ", …)`: every run of two or more spaces becomes one space -/
def squeezeAux : Bool → List Char → List Char
  | _, [] => []
  | prevSpace, c :: t => if c = ' ' then (if prevSpace then squeezeAux true t else c :: squeezeAux true t) else c :: squeezeAux false t

def squeeze (l : List Char) : List Char := squeezeAux false l

/-- `_remove_comments_if_needed`: cut at the first `" #"` that is not inside a string literal -/
def removeCommentAux : Bool → List Char → List Char
  | _, [] => []
  | true, c :: t =>
    if c = '\\' then
      match t with
      | [] => [c]
      | d :: t' => c :: d :: removeCommentAux true t'
    else if c = '"' then c :: removeCommentAux false t
    else c :: removeCommentAux true t
  | false, c :: t =>
    if c = '"' then c :: removeCommentAux true t
    else if c = ' ' && t.head? = some '#' then []
    else c :: removeCommentAux false t

def removeComment (l : List Char) : List Char := removeCommentAux false l

/-- `" #" in s` -/
def hasSpaceHash : List Char → Bool
  | ' ' :: '#' :: _ => true
  | _ :: t => hasSpaceHash t
  | [] => false

def cleanLine (l : List Char) : List Char :=
  let r := strip (squeeze (subBlanks l))
  if hasSpaceHash r then removeComment r else r

/-! ### `_next_line_token` -/

def isClosure (c : Char) : Bool := c = ',' || c = ';' || c = '.'

/-- up to the next space (exclusive) and the rest after that space -/
def toSpace (l : List Char) : List Char × List Char :=
  (l.takeWhile (· != ' '), (l.dropWhile (· != ' ')).drop 1)

structure Ctx where
  prefixes : List (List Char × List Char) := []
  base : Option (List Char) := none

/-- `_parse_cornered_element`; `resolve base rel` is `urllib.parse.urljoin` -/
def parseCornered (resolve : List Char → List Char → List Char) (ctx : Ctx) (tok : List Char) : List Char :=
  match ctx.base with
  | none => tok
  | some b => '<' :: resolve b ((tok.drop 1).dropLast) ++ ['>']

/-- `_next_line_token`: `none` at the end of the line, otherwise (token, rest of the line) -/
def nextToken (resolve : List Char → List Char → List Char) (ctx : Ctx) (l : List Char) : M (Option (List Char × List Char)) :=
  match l.dropWhile (· = ' ') with
  | [] => pure none
  | c :: t =>
    if isClosure c then pure (some ([c], t))
    else if c = '<' then
      match Nt.toCorner (c :: t) with
      | some (tok, rest) => pure (some (parseCornered resolve ctx tok, rest))
      | none => throw .indexError        -- `find` = -1: the empty slice reaches `_parse_elem('')[0]`
    else if c = '"' then
      match closing t with
      | none => throw (.valueError "Can`t find quotes matching")
      | some (content, rest) =>
        let head := '"' :: content ++ ['"']
        match rest with
        | [] => pure (some (head, []))
        | d :: _ =>
          if d = ' ' then pure (some (head, rest))
          else if d = '^' || d = '@' then
            pure (some (head ++ rest.takeWhile (· != ' '), rest.dropWhile (· != ' ')))
          else throw (.valueError "Malformed literal")
    else
      let r := toSpace (c :: t)
      pure (some r)

/-! ### `_parse_elem` -/

def replaceAllAux (pat by_ : List Char) : Nat → List Char → List Char
  | 0, l => l
  | _, [] => []
  | fuel + 1, c :: t =>
    if pat.isPrefixOf (c :: t) && !pat.isEmpty then by_ ++ replaceAllAux pat by_ fuel ((c :: t).drop pat.length)
    else c :: replaceAllAux pat by_ fuel t

/-- `str.replace(pat, by)` -/
def replaceAll (pat by_ l : List Char) : List Char := replaceAllAux pat by_ (l.length + 1) l

/-- `unprefixize_uri_mandatory`'s search: the first declared prefix `p` (dictionary order) with `tok.startswith(p + ":")`, expanded -/
def unprefixize (prefixes : List (List Char × List Char)) (tok : List Char) : Option (List Char) :=
  (prefixes.find? fun (p, _) => (p ++ [':']).isPrefixOf tok).map fun (p, ns) => replaceAll (p ++ [':']) ns tok

/-- `unprefixize_uri_if_possible`: as `unprefixize`, except that `pre://…` is a full IRI, never the prefixed name `pre:` + `//…` -/
def unprefixizeSoft (prefixes : List (List Char × List Char)) (tok : List Char) : Option (List Char) :=
  (prefixes.find? fun (p, _) => (p ++ [':']).isPrefixOf tok && !(p ++ [':', '/', '/']).isPrefixOf tok).map
    fun (p, ns) => replaceAll (p ++ [':']) ns tok

def digits (l : List Char) : Bool := !l.isEmpty && l.all Char.isDigit

/-- `float(tok)` succeeds (modelled part of Python's grammar) -/
def isNum (tok : List Char) : Bool :=
  let t := match strip tok with | '+' :: r => r | '-' :: r => r | r => r
  let mant := t.takeWhile fun c => c != 'e' && c != 'E'
  let expo := t.dropWhile fun c => c != 'e' && c != 'E'
  let ip := mant.takeWhile (· != '.')
  let fp := (mant.dropWhile (· != '.')).drop 1
  let hasDot := mant.contains '.'
  let mantOk := if hasDot then (digits ip && (fp.isEmpty || digits fp)) || (ip.isEmpty && digits fp) else digits ip
  let expoOk := match expo with
    | [] => true
    | _ :: e => digits (match e with | '+' :: r => r | '-' :: r => r | r => r)
  mantOk && expoOk

/-- `float(tok) % 1.0 == 0` for the tokens `isNum` accepts without exponent: no fractional digit other than 0 -/
def isIntegral (tok : List Char) : Bool :=
  let t := strip tok
  let mant := t.takeWhile fun c => c != 'e' && c != 'E'
  ((mant.dropWhile (· != '.')).drop 1).all (· = '0') && !(t.contains 'e' || t.contains 'E')

def RDF_TYPE_URI : List Char := "<http://www.w3.org/1999/02/22-rdf-syntax-ns#type>".toList

/-- `_expand_prefixed_datatype_if_needed` -/
def expandDatatype (ctx : Ctx) (tok : List Char) : List Char :=
  let suffix := afterLastQuote tok
  let head := tok.take (tok.length - suffix.length)
  match suffix with
  | '^' :: '^' :: '<' :: _ => tok
  | '^' :: '^' :: dt =>
    match unprefixizeSoft ctx.prefixes dt with
    | some e => head ++ ['^', '^', '<'] ++ e ++ ['>']
    | none => tok
  | _ => tok

/-- `_parse_elem`: `none` is Python's implicit `None` -/
def parseElem (resolve : List Char → List Char → List Char) (ctx : Ctx) (tok : List Char) : M (Option (List Char)) :=
  match tok with
  | [] => throw .indexError
  | c :: _ =>
    if c = '<' then pure (some (parseCornered resolve ctx tok))
    else if tok = ['a'] || tok = "rdf:type".toList then pure (some RDF_TYPE_URI)
    else if c = '"' then pure (some (expandDatatype ctx tok))
    else if tok.contains ':' then
      if startsWith tok "_:" then pure (some tok)
      else match unprefixize ctx.prefixes tok with
        | some e => pure (some ('<' :: e ++ ['>']))
        | none => throw (.valueError "Unrecognized prefix")
    else if tok = "true".toList || tok = "false".toList || isNum tok then pure (some tok)
    else pure none

/-! ### the state machine -/

inductive Wait | subj | pred | obj | notWaiting
deriving DecidableEq, Repr

structure St where
  ctx : Ctx := {}
  wait : Wait := .subj
  s : Option (List Char) := none
  p : Option (List Char) := none
  o : Option (List Char) := none

/-- `remove_corners(raise_error_if_no_corners=False)` -/
def removeCornersSoft (tok : List Char) : List Char :=
  if startsWith tok "<" && endsWith tok ">" then (tok.drop 1).dropLast else tok

/-- `decide_literal_type` with the base namespace of the reader -/
def decideType (resolve : List Char → List Char → List Char) (base : Option (List Char)) (tok : List Char) : M String :=
  let suffix := strip (afterLastQuote tok)
  if startsWith suffix "@" then pure Gen.LANG_STRING_TYPE
  else if !startsWith suffix "^^" then pure Gen.STRING_TYPE
  else if startsWith suffix "^^<" && endsWith suffix ">" then
    let cand := (suffix.drop 3).dropLast
    match base with
    | some b => pure (String.ofList (resolve b cand))
    | none => pure (String.ofList cand)
  else if startsWith suffix "^^xsd:" then pure (Gen.XSD_NAMESPACE ++ String.ofList (suffix.drop 6))
  else if startsWith suffix "^^rdf:" then pure (Gen.RDF_SYNTAX_NAMESPACE ++ String.ofList (suffix.drop 6))
  else if startsWith suffix "^^dt:" then pure (Gen.DT_NAMESPACE ++ String.ofList (suffix.drop 5))
  else if startsWith suffix "^^geo:" then pure (Gen.OPENGIS_NAMESPACE ++ String.ofList (suffix.drop 6))
  else throw .runtimeError

def INTEGER_TYPE : String := "http://www.w3.org/2001/XMLSchema#integer"
def FLOAT_TYPE : String := "http://www.w3.org/2001/XMLSchema#float"

def tuneSubj : Option (List Char) → M Term
  | none => throw .attributeError
  | some tok =>
    if startsWith tok "<" then pure (.iri (String.ofList (removeCornersSoft tok)))
    else if startsWith tok "_:" then pure (.bnode (String.ofList tok))
    else if strip tok = "[]".toList then pure (.bnode (String.ofList tok))
    else throw (.valueError "Unrecognized token in subject position")

def tuneProp : Option (List Char) → M String
  | none => throw .attributeError
  | some tok => pure (String.ofList (removeCornersSoft tok))

def tuneObj (resolve : List Char → List Char → List Char) (base : Option (List Char)) : Option (List Char) → M Term
  | none => throw .attributeError
  | some tok =>
    if startsWith tok "<" then pure (.iri (String.ofList (removeCornersSoft tok)))
    else if startsWith tok "\"" then do pure (.lit (← decideType resolve base tok))
    else if startsWith tok "_:" then pure (.bnode (String.ofList tok))
    else if strip tok = "[]".toList then pure (.bnode (String.ofList tok))
    else if isNum tok then pure (.lit (if isIntegral tok then INTEGER_TYPE else FLOAT_TYPE))
    else do pure (.lit (← decideType resolve none tok))

/-- the triple that `yield_triples` builds from `_current_triple()` -/
def emit (resolve : List Char → List Char → List Char) (st : St) : M Triple := do
  let s ← tuneSubj st.s
  let p ← tuneProp st.p
  let o ← tuneObj resolve st.ctx.base st.o
  pure { s := s, p := p, o := o }

/-- one token of `_process_line_with_potential_triples` -/
def stepToken (resolve : List Char → List Char → List Char) (st : St) (tok : List Char) : M (St × List Triple) :=
  if tok = [','] then do pure ({ st with wait := .obj }, [← emit resolve st])
  else if tok = [';'] then do pure ({ st with wait := .pred }, [← emit resolve st])
  else if tok = ['.'] then do pure ({ st with wait := .subj }, [← emit resolve st])
  else match st.wait with
    | .subj => do pure ({ st with s := ← parseElem resolve st.ctx tok, wait := .pred }, [])
    | .pred => do pure ({ st with p := ← parseElem resolve st.ctx tok, wait := .obj }, [])
    | .obj => do pure ({ st with o := ← parseElem resolve st.ctx tok, wait := .notWaiting }, [])
    | .notWaiting => throw (.valueError "Malformed file. Processing an unexpected token")

/-- the tokens of a cleaned line, one after the other -/
def lineLoop (resolve : List Char → List Char → List Char) : Nat → St → List Char → M (St × List Triple)
  | 0, st, _ => pure (st, [])
  | fuel + 1, st, l => do
    match ← nextToken resolve st.ctx l with
    | none => pure (st, [])
    | some (tok, rest) =>
      let (st1, out1) ← stepToken resolve st tok
      let (st2, out2) ← lineLoop resolve fuel st1 rest
      pure (st2, out1 ++ out2)

/-- `str.split(" ")` -/
def splitSpace (l : List Char) : List (List Char) :=
  l.foldr (fun c acc => if c = ' ' then [] :: acc else match acc with | [] => [[c]] | h :: t => (c :: h) :: t) [[]]

def removeCornersHard (tok : List Char) : M (List Char) :=
  if startsWith tok "<" && endsWith tok ">" then pure ((tok.drop 1).dropLast) else throw (.valueError "Wrong parameter of function")

/-- `_process_line_2` -/
def processLine (resolve : List Char → List Char → List Char) (st : St) (raw : List Char) : M (St × List Triple) :=
  let l := cleanLine raw
  if l = [] then pure (st, [])
  else if startsWith l "@prefix" then
    match splitSpace l with
    | [_, p, ns, dot] =>
      if dot = ['.'] then do
        let ns' ← removeCornersHard ns
        let key := if endsWith p ":" then p.dropLast else p
        -- `dict[key] = value`: an existing key keeps its position
        let prefixes := if st.ctx.prefixes.any (·.1 = key) then st.ctx.prefixes.map (fun e => if e.1 = key then (key, ns') else e)
                        else st.ctx.prefixes ++ [(key, ns')]
        pure ({ st with ctx := { st.ctx with prefixes := prefixes } }, [])
      else throw (.valueError "A directive is expected to be alone in its line")
    | _ => throw (.valueError "A directive is expected to be alone in its line")
  else if startsWith l "@base" then
    match splitSpace l with
    | [_, b, dot] =>
      if dot = ['.'] then do
        let b' ← removeCornersHard b
        pure ({ st with ctx := { st.ctx with base := some b' } }, [])
      else throw (.valueError "A directive is expected to be alone in its line")
    | _ => throw (.valueError "A directive is expected to be alone in its line")
  else if startsWith l "#" then pure (st, [])
  else lineLoop resolve (l.length + 1) st l

/-- `yield_triples` over the lines of the document -/
def readLines (resolve : List Char → List Char → List Char) (lines : List (List Char)) : M (List Triple) := do
  let (st, out) ← lines.foldlM (fun (acc : St × List Triple) l => do
    let (st', o) ← processLine resolve acc.1 l
    pure (st', acc.2 ++ o)) (({} : St), [])
  if st.wait != .subj then throw (.valueError "Malformed file. The last statement is not closed with '.'")
  pure out

/-- executable stand-in for `urljoin` on the cases the correspondence exercises: an absolute reference (it has a scheme)
is itself; `#frag` and a path without leading `/` are appended to a base that ends in `/`; `/path` replaces the path
of the base.  Everything else is reported as unmodelled by the driver. -/
def hasScheme (r : List Char) : Bool :=
  let s := r.takeWhile fun c => c.isAlphanum || c = '+' || c = '-' || c = '.'
  !s.isEmpty && (r.drop s.length).head? = some ':' && s.head?.any Char.isAlpha

def authorityOf (b : List Char) : List Char :=
  -- scheme://authority
  let scheme := b.takeWhile (· != ':')
  let rest := b.drop (scheme.length + 3)
  scheme ++ "://".toList ++ rest.takeWhile (· != '/')

def simpleResolve (b r : List Char) : List Char :=
  if hasScheme r then r
  else match r with
    | '/' :: _ => authorityOf b ++ r
    | _ => b ++ r

end Ttl
end Shexer
