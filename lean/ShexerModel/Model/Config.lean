import ShexerModel.Generated
/-! Configuration of one extraction, after `Shaper.__init__` has normalised its arguments. -/
namespace Shexer

structure Config where
  instProp : String := "http://www.w3.org/1999/02/22-rdf-syntax-ns#type"
  allClasses : Bool := false
  /-- tuned target classes (`None` ↦ `none`) -/
  targets : Option (List String) := none
  /-- targets came from `file_target_classes` (the profiler is then not seeded with them) -/
  targetsFromFile : Bool := false
  /-- `instances_cap` (`≤ 0` ↦ `0` = no cap) -/
  cap : Nat := 0
  ignoreNs : Option (List String) := none
  inverse : Bool := false
  /-- acceptance threshold as the rational `thNum / thDen` -/
  thNum : Nat := 0
  thDen : Nat := 1
  allCompliant : Bool := true
  keepLessSpecific : Bool := true
  discardUseless : Bool := true
  allowOpt : Bool := true
  disableExact : Bool := false
  disableComments : Bool := false
  disableOr : Bool := true
  allowRedundantOr : Bool := false
  removeEmpty : Bool := true
  shapesNs : String := "http://weso.es/shapes/"
  detectMinIri : Bool := false
  /-- shape-map mode: the labels of the shape map (`_original_target_nodes`), which the profiler never
  removes as empty; class-target modes leave this empty -/
  protectedLabels : List String := []
deriving Repr, Inhabited

end Shexer
