import ShexerModel.Model.Shexer
/-! Token level of the ShExC serialiser: the prefix chosen for the shapes namespace
(`utils.namespaces.find_adequate_prefix_for_shapes_namespaces`), prefix declarations, and
`BaseStatementSerializer.tune_token` / `_prefixize_uri_if_possible`. -/
namespace Shexer
namespace Text

/-- namespace ↦ prefix, in dictionary order (`namespaces_dict`) -/
abbrev Namespaces := List (String × String)

/-- first default prefix that is not a value of the user's dictionary; `none` = a random one is drawn -/
def adequatePrefix (ns : Namespaces) : Option String :=
  Gen.PRIORITY_PREFIXES_FOR_SHAPES.find? fun p => !(ns.map (·.2)).contains p

/-- `Shaper._add_shapes_namespaces_to_namespaces_dict` (when no randomness is needed) -/
def withShapesNs (ns : Namespaces) (shapesNs : String) : Option Namespaces :=
  (adequatePrefix ns).map fun p => Dict.set ns shapesNs p

/-- `PREFIX p: <ns>` lines -/
def prefixLines (ns : Namespaces) : List String := ns.map fun (n, p) => "PREFIX " ++ p ++ ": <" ++ n ++ ">"

/-- first namespace (dictionary order) the IRI is a direct child of -/
def bestNamespace (ns : Namespaces) (uri : String) : Option (String × String) :=
  ns.find? fun (n, _) => PyStr.directChildOf uri.toList n.toList

inductive Token
  | macro (m : String)                 -- IRI, BNode, NONLITERAL
  | pname (pfx loc : String) (ref : Bool)
  | iriref (iri : String) (ref : Bool)
deriving DecidableEq, Repr

/-- `tune_token` on the tokens the pipeline produces (`ref`: a shape reference, printed with `@`) -/
def tuneToken (ns : Namespaces) (tok : String) : Token :=
  if tok.startsWith Gen.STARTING_CHAR_FOR_SHAPE_NAME then
    -- `%<iri>`: prefixize the IRI inside the corners
    let iri := ((tok.drop 2).dropEnd 1).toString
    match bestNamespace ns iri with
    | some (n, p) => Token.pname p (iri.drop n.length).toString true
    | none => Token.iriref iri true
  else if tok == Gen.IRI_ELEM_TYPE || tok == Gen.BNODE_ELEM_TYPE || tok == Gen.NONLITERAL_ELEM_TYPE then Token.macro tok
  else
    match bestNamespace ns tok with
    | some (n, p) => Token.pname p (tok.drop n.length).toString false
    | none => Token.iriref tok false

def Token.render : Token → String
  | Token.macro m => m
  | Token.pname p l r => (if r then "@" else "") ++ p ++ ":" ++ l
  | Token.iriref i r => (if r then "@" else "") ++ "<" ++ i ++ ">"

/-- `BaseStatementSerializer.str_of_target_element`: the value of a constraint on the instantiation property is a value set `[ex:C]`,
every other value expression a bare token; the direction of the constraint plays no part -/
def valueToken (cfg : Config) (ns : Namespaces) (s : Shexer.Stmt) (ty : String) : String :=
  if s.prop == cfg.instProp then "[" ++ (tuneToken ns ty).render ++ "]" else (tuneToken ns ty).render

/-- the key of a constraint as written: `^`, predicate token, value tokens -/
def stmtTokens (cfg : Config) (ns : Namespaces) (s : Shexer.Stmt) : String × String × List String :=
  (if s.inverse then "^" else "", (tuneToken ns s.prop).render, s.types.map (valueToken cfg ns s))

end Text
end Shexer
