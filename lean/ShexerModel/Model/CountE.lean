import ShexerModel.Model.Profiler
import ShexerModel.Model.MergeE
/-! The counting updates of pass 2 and of the class profile once more, with Python's failure mode: `d[k]` on a missing
key raises `KeyError`.  The implementation first introduces the keys it needs (`_introduce_needed_elements_…`:
`if k not in d: d[k] = …`) and then increments with plain subscripts (`d[p][t] += 1`).  `Props/C04b.lean` proves that the
subscripts never fail and that the result is the one of the defaulting update `Dict.upd` used by the pipeline model. -/
namespace Shexer
namespace CountE
open Profiler

inductive KeyErr where
  | keyError (what : String)
deriving DecidableEq, Repr

abbrev M := Except KeyErr

/-- `d[k]` -/
def sub {ν : Type} (what : String) (d : Dict String ν) (k : String) : M ν :=
  match Dict.get? d k with
  | some v => pure v
  | none => throw (.keyError what)

/-- `if k not in d: d[k] = v` -/
def ensure {ν : Type} (d : Dict String ν) (k : String) (v : ν) : Dict String ν :=
  if Dict.contains d k then d else Dict.set d k v

/-- `_introduce_needed_elements_in_shape_instances_dict_for_subj`: the property row, the type key, one key per shape -/
def introduce (f : Feat) (p ty : String) (shapes : List String) : M Feat := do
  let f1 := ensure f p []
  let row ← sub "features[prop]" f1 p
  let row1 := ensure row ty 0
  let row2 := shapes.foldl (fun r sh => ensure r sh 0) row1
  pure (Dict.set f1 p row2)

/-- `features[p][k] += 1` -/
def incr (f : Feat) (p k : String) : M Feat := do
  let row ← sub "features[prop]" f p
  let n ← sub "features[prop][type]" row k
  pure (Dict.set f p (Dict.set row k (n + 1)))

/-- `_annotate_target_subject` / `_annotate_target_object` on the feature dictionary of one node -/
def annotateE (f : Feat) (p ty : String) (shapes : List String) : M Feat := do
  let f1 ← introduce f p ty shapes
  let f2 ← incr f1 p ty
  shapes.foldlM (fun acc sh => incr acc p sh) f2

/-- the seeded variant in which the per-shape counters are created only when the type key is new (regression witness) -/
def introduceLazy (f : Feat) (p ty : String) (shapes : List String) : M Feat := do
  let f1 := ensure f p []
  let row ← sub "features[prop]" f1 p
  if Dict.contains row ty then pure f1
  else
    let row1 := Dict.set row ty 0
    pure (Dict.set f1 p (shapes.foldl (fun r sh => ensure r sh 0) row1))

def annotateLazyE (f : Feat) (p ty : String) (shapes : List String) : M Feat := do
  let f1 ← introduceLazy f p ty shapes
  let f2 ← incr f1 p ty
  shapes.foldlM (fun acc sh => incr acc p sh) f2

/-! ### the class profile and the class counts -/

/-- `_introduce_needed_elements_in_shape_classes_dict` followed by
`self._c_shapes_dict[a_class][prop][type][card] += 1` on the property profile of one class -/
def profileIncrE (pr : PropProfile) (x : String × String × Card) : M PropProfile := do
  let pr1 := if Dict.contains pr x.1 then pr else Dict.set pr x.1 []
  let byType ← sub "profile[prop]" pr1 x.1
  let byType1 := if Dict.contains byType x.2.1 then byType else Dict.set byType x.2.1 []
  let byCard := (Dict.get? byType1 x.2.1)
  match byCard with
  | none => throw (.keyError "profile[prop][type]")
  | some bc =>
    let bc1 := if Dict.contains bc x.2.2 then bc else Dict.set bc x.2.2 0
    match Dict.get? bc1 x.2.2 with
    | none => throw (.keyError "profile[prop][type][card]")
    | some n => pure (Dict.set pr1 x.1 (Dict.set byType1 x.2.1 (Dict.set bc1 x.2.2 (n + 1))))

/-- `init_annotated_targets`: the class is introduced in *both* dictionaries when it is missing from the shapes
dictionary; the count is then incremented with a plain subscript -/
structure Seeds where
  shapes : List String            -- keys of `_c_shapes_dict`
  counts : Dict String Nat        -- `_c_counts`

def countClassE (s : Seeds) (c : String) : M Seeds := do
  let s1 : Seeds := if s.shapes.contains c then s else { shapes := s.shapes ++ [c], counts := Dict.set s.counts c 0 }
  let n ← sub "_c_counts[class]" s1.counts c
  pure { s1 with counts := Dict.set s1.counts c (n + 1) }

def countAllE (s : Seeds) (inst : Tracker.InstDict) : M Seeds :=
  inst.foldlM (fun s e => e.2.foldlM countClassE s) s

def errorOf {α : Type} : M α → Option KeyErr
  | .error e => some e
  | .ok _ => none

end CountE
end Shexer
