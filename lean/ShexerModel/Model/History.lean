import ShexerModel.Model.Shexer
import ShexerModel.Model.Emit
/-! `Shaper` as an object with history: the three memoised pipeline stages of `Shaper.shex_graph` /
`Shaper.profile_graph` (`_target_classes_dict`, `_profile`, `_shape_list` — the last one keyed by the threshold it was
built for), and the line buffer of the serializers (`_write_line`, `_write_lines_buffer`, `_flush`). -/
namespace Shexer
namespace History

inductive Fmt | shexc | shacl
deriving DecidableEq, Repr

inductive Op
  | shex (fmt : Fmt) (thNum thDen : Nat)
  | profile
deriving DecidableEq, Repr

/-- what a call computes before it is written out (the writer is `Sink` below) -/
inductive Out
  | shapes (fmt : Fmt) (l : List Shexer.Shape)
  | profile (p : Profiler.Profile)
deriving Repr

structure Shaper where
  cfg : Config
  g : Graph
  tracked : Option Tracker.InstDict := none
  profile : Option Profiler.Result := none
  /-- the shapes of the last `shex_graph` with the threshold they were built for -/
  shapes : Option (Nat × Nat × List Shexer.Shape) := none

def new (cfg : Config) (g : Graph) : Shaper := { cfg := cfg, g := g }

/-- `if self._target_classes_dict is None: self._launch_instance_tracker()` -/
def ensureTracked (s : Shaper) : Shaper × Tracker.InstDict :=
  match s.tracked with
  | some t => (s, t)
  | none => let t := Tracker.track s.cfg s.g; ({ s with tracked := some t }, t)

/-- `if self._profile is None: self._launch_class_profiler()` -/
def ensureProfile (s : Shaper) : Shaper × Profiler.Result :=
  let (s1, t) := ensureTracked s
  match s1.profile with
  | some r => (s1, r)
  | none => let r := Profiler.runSel s1.cfg t s1.g; ({ s1 with profile := some r }, r)

/-- `if self._shape_list is None or self._shape_list_threshold != acceptance_threshold: …` -/
def ensureShapes (s : Shaper) (n d : Nat) : Shaper × List Shexer.Shape :=
  let (s1, r) := ensureProfile s
  match s1.shapes with
  | some (n', d', l) =>
    if n' = n ∧ d' = d then (s1, l)
    else let l := Shexer.shexClasses { s1.cfg with thNum := n, thDen := d } r; ({ s1 with shapes := some (n, d, l) }, l)
  | none => let l := Shexer.shexClasses { s1.cfg with thNum := n, thDen := d } r; ({ s1 with shapes := some (n, d, l) }, l)

def step (s : Shaper) : Op → Shaper × Out
  | .shex fmt n d => let (s1, l) := ensureShapes s n d; (s1, .shapes fmt l)
  | .profile => let (s1, r) := ensureProfile s; (s1, .profile r.profile)

def runOps (s : Shaper) (ops : List Op) : Shaper := ops.foldl (fun s op => (step s op).1) s

/-- the variant before the repair: the shapes of the first call are reused whatever the threshold (regression
witness for `Props/C18.lean`) -/
def stepStale (s : Shaper) : Op → Shaper × Out
  | .shex fmt n d =>
    let (s1, r) := ensureProfile s
    match s1.shapes with
    | some (_, _, l) => (s1, .shapes fmt l)
    | none => let l := Shexer.shexClasses { s1.cfg with thNum := n, thDen := d } r; ({ s1 with shapes := some (n, d, l) }, .shapes fmt l)
  | .profile => let (s1, r) := ensureProfile s; (s1, .profile r.profile)

/-! ### the line buffer -/

structure Sink where
  buffer : List String := []
  /-- the pieces appended so far to the result string / to the file, oldest first -/
  written : List String := []

/-- `_write_line`: append to the buffer; when it reaches `cap` lines (5000), write it out and empty it -/
def Sink.writeLine (cap : Nat) (s : Sink) (line : String) : Sink :=
  let b := s.buffer ++ [line]
  if b.length ≥ cap then { buffer := [], written := s.written ++ [String.join b] } else { s with buffer := b }

/-- `_flush` at the end of `serialize_shapes` -/
def Sink.flush (s : Sink) : Sink := { s with written := s.written ++ [String.join s.buffer] }

/-- the content of the string result, or of the file opened in append mode for every piece -/
def Sink.content (s : Sink) : String := String.join s.written

def writeAll (cap : Nat) (lines : List String) : String :=
  ((lines.foldl (Sink.writeLine cap) {}).flush).content

end History
end Shexer
