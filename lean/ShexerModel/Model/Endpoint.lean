import ShexerModel.Spec.Counts
/-! `EndpointSGraph`: the graph served by a SPARQL endpoint, seen through three kinds of request (the outgoing
triples of a node, its incoming triples, its instantiation triples), with and without the per-node cache
(`_subjects_tracked`, `_objects_tracked`, a local rdflib graph); and the neighbourhood fetch of
`SGraph.yield_p_o_triples_of_target_nodes` / `yield_s_p_triples_of_target_nodes` at depth 1.

The endpoint is a function of the query (the same query gets the same rows); rows carry no duplicates (the served
graph is a set of triples). -/
namespace Shexer
namespace Endpoint

inductive Req
  | po (s : String)          -- SELECT ?p ?o WHERE { <s> ?p ?o }
  | sp (o : String)          -- SELECT ?s ?p WHERE { ?s ?p <o> }
  | classes (s : String)     -- SELECT ?o WHERE { <s> <instantiation property> ?o }
deriving DecidableEq, Repr

def poOf (g : Graph) (s : String) : List Triple := g.filter fun t => t.s.isNode && t.s.key == s
def spOf (g : Graph) (o : String) : List Triple := g.filter fun t => t.o.isNode && t.o.key == o
def classesOf (instProp : String) (g : Graph) (s : String) : List Triple := (poOf g s).filter fun t => t.p == instProp

/-- what the endpoint answers (`_yield_remote_*`) -/
def remote (instProp : String) (g : Graph) : Req → List Triple
  | .po s => poOf g s
  | .sp o => spOf g o
  | .classes s => classesOf instProp g s

/-- the cache: the local graph (a set: `add` of a present triple changes nothing), the nodes whose outgoing /
class triples have been fetched, the nodes whose incoming triples have been fetched, and the number of queries sent -/
structure Cache where
  store : List Triple := []
  subjTracked : List String := []
  objTracked : List String := []
  queries : Nat := 0

def addAll (store : List Triple) (ts : List Triple) : List Triple :=
  ts.foldl (fun st t => if st.contains t then st else st ++ [t]) store

/-- what the local graph answers (`RdflibSgraph.yield_*` on the local store) -/
def localAnswer (instProp : String) (store : List Triple) : Req → List Triple
  | .po s => store.filter fun t => t.s.isNode && t.s.key == s
  | .sp o => store.filter fun t => t.o.isNode && t.o.key == o
  | .classes s => (store.filter fun t => t.s.isNode && t.s.key == s).filter fun t => t.p == instProp

/-- `_yield_local_*`: fetch and remember on a miss; always answer from the local graph.  Note that a `classes`
request marks its node in the same set as a `po` request (`_subjects_tracked`), as the code does. -/
def cached (instProp : String) (g : Graph) (c : Cache) (r : Req) : Cache × List Triple :=
  let hit := match r with
    | .po s => c.subjTracked.contains s
    | .sp o => c.objTracked.contains o
    | .classes s => c.subjTracked.contains s
  let c' : Cache :=
    if hit then c
    else
      let st := addAll c.store (remote instProp g r)
      match r with
      | .po s => { c with store := st, subjTracked := s :: c.subjTracked, queries := c.queries + 1 }
      | .sp o => { c with store := st, objTracked := o :: c.objTracked, queries := c.queries + 1 }
      | .classes s => { c with store := st, subjTracked := s :: c.subjTracked, queries := c.queries + 1 }
  (c', localAnswer instProp c'.store r)

/-- a run of requests with the cache: final cache and the answers -/
def runCached (instProp : String) (g : Graph) : Cache → List Req → Cache × List (List Triple)
  | c, [] => (c, [])
  | c, r :: rs =>
    let (c1, a) := cached instProp g c r
    let (c2, as) := runCached instProp g c1 rs
    (c2, a :: as)

/-- without the cache every request is one query -/
def runUncached (instProp : String) (g : Graph) (reqs : List Req) : Nat × List (List Triple) :=
  (reqs.length, reqs.map (remote instProp g))

/-- the discipline of the callers: a node is never asked for its class triples only *and*, at another time, for all
its outgoing triples (`yield_p_o_triples_of_target_nodes` asks `po` for the target nodes and `classes` for the objects
that are not targets) -/
def disciplined (reqs : List Req) : Prop := ∀ s, Req.classes s ∈ reqs → Req.po s ∉ reqs

/-! ### the neighbourhood fetch at depth 1 -/

/-- requests of `yield_p_o_triples_of_target_nodes(targets, depth=1, classes_at_last_level=True)` followed, with
`inverse_paths`, by those of `yield_s_p_triples_of_target_nodes`: `targets` without repetition (the `already_visited`
set), then the class triples of the IRI objects (resp. subjects) reached that are not targets -/
def dedupNodes : List String → List String
  | [] => []
  | x :: xs => x :: (dedupNodes xs).filter (· != x)

def directRequests (g : Graph) (targets : List String) : List Req :=
  let ts := dedupNodes targets
  let reached := (ts.flatMap fun s => (poOf g s).filterMap fun t => match t.o with | .iri k => some k | _ => none)
  ts.map Req.po ++ ((dedupNodes reached).filter fun k => !ts.contains k).map Req.classes

def inverseRequests (g : Graph) (targets : List String) : List Req :=
  let ts := dedupNodes targets
  let reached := (ts.flatMap fun o => (spOf g o).filterMap fun t => match t.s with | .iri k => some k | _ => none)
  ts.map Req.sp ++ ((dedupNodes reached).filter fun k => !ts.contains k).map Req.classes

/-- the triples a reader of the endpoint hands to both passes: the answers concatenated; with `inverse_paths` a triple
already seen among the direct ones is not repeated -/
def fetched (instProp : String) (g : Graph) (inverse : Bool) (targets : List String) : List Triple :=
  let direct := (directRequests g targets).flatMap (remote instProp g)
  if inverse then direct ++ ((inverseRequests g targets).flatMap (remote instProp g)).filter fun t => !direct.contains t
  else direct

end Endpoint
end Shexer
