import ShexerModel.Base.Dict
import ShexerModel.Rdf
import ShexerModel.Model.Config
/-! Pass 1: `InstanceTracker.track_instances` with the strategy chosen by
`BaseAnnotator._get_proper_strategy` (all-classes / target-classes, optionally wrapped in
`InstanceCapMode`).  Result: node key ↦ list of classes, in first-occurrence order. -/
namespace Shexer
namespace Tracker

abbrev InstDict := Dict String (List String)

structure St where
  inst : InstDict := []
  /-- `InstanceCapMode._class_counts` -/
  counts : Dict String Nat := []
  completed : Nat := 0
  stopped : Bool := false
deriving Repr, Inhabited

/-- `AllClasesMode.is_relevant_triple` / `TargetClassesMode.is_relevant_triple` -/
def innerRelevant (cfg : Config) (t : Triple) : Bool :=
  if cfg.allClasses then t.p == cfg.instProp
  else match cfg.targets with
    | some ts => t.p == cfg.instProp && t.o.isIri && ts.contains t.o.key
    | none => false

/-- `InstanceCapMode._check_class_counts` -/
def capAllows (cfg : Config) (counts : Dict String Nat) (t : Triple) : Bool :=
  if t.p != cfg.instProp then true
  else match Dict.get? counts t.o.key with
    | none => true
    | some c => decide (c < cfg.cap)

def relevant (cfg : Config) (st : St) (t : Triple) : Bool :=
  if cfg.cap = 0 then innerRelevant cfg t
  else capAllows cfg st.counts t && innerRelevant cfg t

/-- number of target classes that arms the early stop (`n_target_classes`, `-1` ↦ `0`) -/
def nTargetForStop (cfg : Config) : Nat :=
  if cfg.allClasses then 0 else match cfg.targets with
    | some ts => ts.length
    | none => 0

/-- `add_instance_to_instances_dict` + `annotate_class` (with the bookkeeping of the cap mode) -/
def annotate (cfg : Config) (st : St) (t : Triple) : St :=
  let inst := Dict.upd (Dict.setDefault st.inst t.s.key []) t.s.key (fun o => o.getD [] ++ [t.o.key])
  if cfg.cap = 0 then { st with inst := inst }
  else
    let counts := Dict.upd st.counts t.o.key (fun o => o.getD 0 + 1)
    let completed := if (Dict.get? counts t.o.key).getD 0 = cfg.cap then st.completed + 1 else st.completed
    let stopped := nTargetForStop cfg > 0 && completed == nTargetForStop cfg
    { inst := inst, counts := counts, completed := completed, stopped := stopped }

def step (cfg : Config) (st : St) (t : Triple) : St :=
  if st.stopped then st
  else if relevant cfg st t then annotate cfg st t else st

def track (cfg : Config) (g : Graph) : InstDict := (g.foldl (step cfg) {}).inst

end Tracker
end Shexer
