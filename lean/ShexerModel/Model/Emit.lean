import ShexerModel.Model.Shexer
/-! Canonical, line-oriented rendering of the model's result (what the correspondence compares). -/
namespace Shexer
namespace Emit
open Shexer

/-- `cardinality_representation` inside a comment (generated from the AST) -/
def cardStr (c : Card) : String := Gen.cardinality_representation c false

def commentLine (c : Comment) : String :=
  "CM\t" ++ toString c.n ++ "\t" ++ (c.ty.getD "~choice") ++ "\t" ++ cardStr c.card

def stmtLines (s : Stmt) : List String :=
  ("ST\t" ++ (if s.inverse then "I" else "D") ++ "\t" ++ s.prop ++ "\t" ++ "|".intercalate s.types ++ "\t"
    ++ cardStr s.card ++ "\t" ++ toString s.n
    ++ (match s.parts with | some (b, i) => "\t" ++ toString b ++ "+" ++ toString i | none => "\t-"))
    :: s.comments.map commentLine

def shapeLines (sh : Shape) : List String :=
  ("SHAPE\t" ++ sh.name ++ "\t" ++ sh.classUri ++ "\t" ++ toString sh.nInstances) :: sh.stmts.flatMap stmtLines

def render (shapes : List Shape) : List String := shapes.flatMap shapeLines

end Emit
end Shexer
