import ShexerModel.Generated
/-! The part of `Shaper.__init__` that runs after the six leading checks and can still fail on the
*configuration alone*: `get_shape_map_if_needed` → `RdflibSgraph(...)` → `ShapeMapParser.parse_shape_map`
(hand-written from those three functions), and the configuration-only failure points of the first
`shex_graph` call (`_get_base_zip_archive_if_needed`, `BaseAnnotator._get_proper_strategy`). -/
namespace Shexer
namespace Ctor

/-- formats rdflib has no parser plugin for (sheXer's own readers) -/
def rdflibCannotRead (fmt : String) : Bool := fmt == Gen.TSV_SPO || fmt == Gen.TURTLE_ITER

/-- `get_shape_map_if_needed`: builds an `RdflibSgraph` from `rdflib_graph` / `raw_graph` /
`graph_file_input` only, then parses the shape map (`_check_input`: exactly one of file / raw) -/
def shapeMapStage (a : InitArgs) : Guard :=
  if !a.shape_map_file && !a.shape_map_raw then Guard.ok
  else
    let sgraph : Guard :=
      if a.url_endpoint || a.rdflib_graph then Guard.ok
      else if a.graph_file_input then
        (if rdflibCannotRead a.input_format then Guard.otherError "PluginException"
         else if a.compression_mode.isSome then Guard.otherError "ParserError" else Guard.ok)
      else if a.raw_graph then
        (if rdflibCannotRead a.input_format then Guard.otherError "PluginException" else Guard.ok)
      else Guard.valueError      -- list of files / URL inputs: nothing handed to rdflib
    Guard.andThen sgraph (if a.shape_map_file && a.shape_map_raw then Guard.valueError else Guard.ok)

/-- the constructor as far as the configuration decides it -/
def ctor (a : InitArgs) : Guard := Guard.andThen (Gen.init_guard a) (shapeMapStage a)

/-- formats handed to rdflib's parsers by `RdflibParserTripleYielder` -/
def rdflibParsed (fmt : String) : Bool :=
  fmt == Gen.TURTLE || fmt == Gen.N3 || fmt == Gen.RDF_XML || fmt == Gen.JSON_LD

/-- configuration-only failures of the first `shex_graph` on an accepted configuration:
`compression_mode = zip` without a file to open (`_get_base_zip_archive_if_needed` iterates `None`),
and `gz` / `xz` with a raw string that goes to an rdflib parser (decompression of `None`); a remote source in a format only
sheXer's own readers know (`ValueError: Unsupported input format`, finding F-C20-4) -/
def deferred (a : InitArgs) : Guard :=
  if a.compression_mode == some Gen.ZIP && !a.graph_file_input && !a.graph_list_of_files_input then Guard.otherError "TypeError"
  else if a.compression_mode.isSome && a.raw_graph && rdflibParsed a.input_format then Guard.otherError "TypeError"
  -- remote sources are always handed to rdflib (`RdflibParserTripleYielder`), which has no reader for sheXer's own line formats
  else if (a.url_graph_input || a.list_of_url_input) && rdflibCannotRead a.input_format then Guard.valueError
  else Guard.ok

end Ctor
end Shexer
