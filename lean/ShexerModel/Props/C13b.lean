import ShexerModel.Lemmas.AllowOptLemmas
/-! # C13 (second part) — `allow_opt_cardinality = False` only replaces `?` by `*`

Run-level statement for the whole pipeline (`Shexer.run`), every document and configuration: the run with the option off is
the run with the option on in which each statement whose cardinality is `?` gets `*` — same shapes in the same order, same
statements, types, figures and comments; nothing else moves (agent-proved `AllowOptLemmas`: the relaxation pass is the only
source of `?`, because no statement that reaches it carries `?` — an invariant from the class profile through both merge
stages). -/
namespace Shexer.C13
open Shexer

theorem allow_opt_only_replaces_opt (cfg : Config) (g : Graph) :
    Shexer.run { cfg with allowOpt := false } g
      = (Shexer.run { cfg with allowOpt := true } g).map (mapShape optToStar) :=
  allow_opt_off_only_replaces_opt cfg g

/-- `optToStar` changes a `?` and nothing else -/
example (sh : Shape) : (optToStar sh { prop := "p", types := ["IRI"], card := Card.opt, n := 2 }).card = Card.star := by simp [optToStar]
example (sh : Shape) : (optToStar sh { prop := "p", types := ["IRI"], card := Card.exact 1, n := 2 }).card = Card.exact 1 := by simp [optToStar]

end Shexer.C13
