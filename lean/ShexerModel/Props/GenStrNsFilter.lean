import ShexerModel.Lemmas.GenStrNsFilter
import ShexerModel.Model.Profiler
/-! # Tie 1, fragment S — the namespace filter regenerated from /repo is the filter of the model

`GenS.check_if_property_belongs_to_namespace_list` is the translation of `utils/triple_yielders.py:
check_if_property_belongs_to_namespace_list`, the loop over the ignored namespaces included (`PyOps.forEach`).  Obligation of
C16: for **every** property and list of namespaces it raises nothing and is `any (directChildOf prop ·)`, hence
`Profiler.passesFilter` - the predicate `Props/C16.lean`'s `ignore_is_filter` is about - keeps a triple exactly when the
regenerated function says its predicate belongs to no ignored namespace. -/
namespace Shexer.GenStrNsFilterProps
open Shexer GenStr PyOps

theorem ns_filter_is_model (prop : List Char) (nss : List (List Char)) :
    GenS.check_if_property_belongs_to_namespace_list prop nss = .ok (nss.any fun ns => PyStr.directChildOf prop ns) :=
  ns_filter_eq prop nss

/-- `FilterNamespacesTriplesYielder._pass_filters` of the model = negation of the regenerated test -/
theorem passesFilter_is_generated (cfg : Config) (nss : List String) (h : cfg.ignoreNs = some nss) (t : Triple) :
    GenS.check_if_property_belongs_to_namespace_list t.p.toList (nss.map String.toList) = .ok (!Profiler.passesFilter cfg t) := by
  rw [ns_filter_eq]
  simp [Profiler.passesFilter, h, List.any_map, Function.comp_def]

/-- one level deeper is not ignored; a namespace that is only a string prefix ignores its direct children only -/
example : (GenS.check_if_property_belongs_to_namespace_list "http://e.org/deep/p".toList ["http://e.org/".toList]).toOption = some false := by decide +kernel
example : (GenS.check_if_property_belongs_to_namespace_list "http://e.org/p1".toList ["http://x.org/".toList, "http://e.org/p".toList]).toOption = some true := by decide +kernel

end Shexer.GenStrNsFilterProps
