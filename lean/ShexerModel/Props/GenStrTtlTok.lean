import ShexerModel.Lemmas.GenStrTtlTok
import ShexerModel.Lemmas.GenStrTtlElem
/-! # Tie 1, fragment S — the token scanner of the streaming Turtle reader regenerated from /repo is the model's

`GenS.ttl_next_line_token` is the translation of `BigTtlTriplesYielder._next_line_token` (skip blanks; a closure character `,` `;` `.`, a
cornered IRI through `_parse_cornered_element`, a quoted literal through `_find_next_quoted_literal_ending`, otherwise the run up to the next
blank; it returns the token and the index to go on from, or `None, None` at the end of the line).  The hand-written model `Ttl.nextToken`
works on suffixes and returns the token and the rest of the line.  Obligations of C07:

* `next_line_token_is_model` - for every cleaned line `s`, every start index, every base: the regenerated scanner returns `None` exactly when
  the model does, otherwise the model's token and an index `k` with `s[k:]` = the model's rest, and raises ValueError exactly where the model
  does; for every fuel of at least `len + 1`.  One visible hypothesis: no `<` without a `>` after it at the scan position - there the code
  returns an empty token and fails one step later (`_parse_elem('')[0]`) while the model raises at once (the model cuts the two steps
  differently; such lines are outside the dialect) (agent: GenStrTtlTok).
* `parse_cornered_is_model` - `_parse_cornered_element` is `Ttl.parseCornered` (the token itself without a base, `<` urljoin(base, inner) `>` with one).
* `clean_line_is_model` - the regenerated `_clean_line` (`[\r\n\t]` -> blank, runs of blanks -> one blank, strip, comment removal when the line
  contains `" #"`) is `Ttl.cleanLine` for every line (agent: GenStrTtlElem).
* `parse_elem_is_model` - the regenerated `_parse_elem` (cornered IRI, `a` / `rdf:type`, literal with a prefixed datatype, blank node, prefixed
  name through `unprefixize_uri_mandatory`, boolean / number, otherwise `None`) is `Ttl.parseElem` for every token, base and prefix dictionary:
  IndexError on the empty token, ValueError on an undeclared prefix, never anything else. -/
namespace Shexer.GenStrTtlTokProps
open Shexer PyOps Shexer.GenStrTune2

theorem parse_cornered_is_model (resolve : List Char → List Char → List Char) (ctx : Ttl.Ctx) (tok : List Char) :
    GenS.ttl_parse_cornered_element resolve ctx.base tok = Except.ok (Ttl.parseCornered resolve ctx tok) :=
  GenStrTtlTok.parse_cornered_eq resolve ctx tok

theorem next_line_token_is_model (resolve : List Char → List Char → List Char) (ctx : Ttl.Ctx) (s : List Char) (i fuel : Nat)
    (hf : s.length + 1 ≤ fuel)
    (hc : ∀ t, (s.drop i).dropWhile (· = ' ') = '<' :: t → Nt.toCorner ('<' :: t) ≠ none) :
    (GenS.ttl_next_line_token resolve fuel ctx.base s (i : Int)).map (Option.map fun p => (p.1, s.drop p.2.toNat)) =
      (Ttl.nextToken resolve ctx (s.drop i)).mapError excOfTtl :=
  GenStrTtlTok.next_line_token_eq resolve ctx s i fuel hf hc

theorem clean_line_is_model (l : List Char) (fuel : Nat) (hf : l.length + 1 ≤ fuel) :
    GenS.ttl_clean_line fuel l = Except.ok (Ttl.cleanLine l) :=
  GenStrTtlElem.clean_line_eq l fuel hf

theorem parse_elem_is_model (resolve : List Char → List Char → List Char) (ctx : Ttl.Ctx) (tok : List Char) :
    GenS.ttl_parse_elem resolve ttlFloat ctx.base ctx.prefixes tok = (Ttl.parseElem resolve ctx tok).mapError excOfTtl :=
  GenStrTtlElem.parse_elem_eq resolve ctx tok

example : (GenS.ttl_clean_line 60 "ex:s\t ex:p   \"a # b\"  ;   # c\r\n".toList).toOption = some "ex:s ex:p \"a # b\" ;".toList := by decide +kernel
example : (GenS.ttl_parse_elem (fun _ r => r) ttlFloat none [("ex".toList, "http://e/".toList)] "ex:a".toList).toOption =
    some (some "<http://e/a>".toList) := by decide +kernel
example : (match GenS.ttl_parse_elem (fun _ r => r) ttlFloat none [] "zz:a".toList with | .error .valueError => true | _ => false) = true := by decide +kernel

/- non-vacuity: the object list of a statement, token by token -/
example : (GenS.ttl_next_line_token (fun _ r => r) 60 none "ex:s ex:p \"a b\"@en , <http://e/o> ;".toList 10).toOption =
    some (some ("\"a b\"@en".toList, 18)) := by decide +kernel
example : (GenS.ttl_next_line_token (fun _ r => r) 60 none "ex:s ex:p \"a b\"@en , <http://e/o> ;".toList 18).toOption =
    some (some (",".toList, 20)) := by decide +kernel
example : (GenS.ttl_next_line_token (fun _ r => r) 60 none "ex:s ex:p \"a b\"@en , <http://e/o> ;".toList 35).toOption = some none := by decide +kernel

end Shexer.GenStrTtlTokProps
