import ShexerModel.Lemmas.GenStrTtlScanA
import ShexerModel.Lemmas.GenStrTtlScanB
/-! # Tie 1, fragment S — scans of the streaming Turtle reader regenerated from /repo are the model's

`Model/Ttl.lean` says of itself: "`_find_next_unescaped_quotes` counts the backslashes before a quote backwards, the model skips escape pairs
forwards (`Nt.closing`) - the same quote for every string that starts at an opening quote".  That sentence was an argument; with the
functions regenerated from the Python source (`GenS.ttl_find_next_unescaped_quotes` with `GenS.ttl_count_prior_backslashes`,
`GenS.ttl_find_next_quoted_literal_ending` with `GenS.ttl_find_next_blank`) it is a theorem.  Obligations of C07:

* `find_next_unescaped_quotes_is_model` - from the character after an opening quote the backward-counting scan of the code returns the index
  of the quote `Nt.closing` finds, and raises ValueError exactly when `Nt.closing` has none; for every string and every fuel of at least
  `len + 1` rounds (agent: GenStrTtlScanB).
* `quoted_literal_ending_is_model` - the last index of a literal token is the one `Ttl.nextToken` cuts: the closing quote when the line ends
  there or a blank follows, the last character before the next blank when `^` or `@` follows, ValueError otherwise.
* `remove_comments_is_model` - the regenerated `_remove_comments_if_needed` (a `while` loop over an index and an "inside a literal" flag) is
  `Ttl.removeComment` for every line: the cut is at the first `" #"` outside string literals, escapes inside literals skipped (agent: GenStrTtlScanA).
* `find_next_blank_is_model` - `_find_next_blank` is the length of the run up to the next blank (the whole rest when there is none).
* `expand_datatype_is_model` - the regenerated `_expand_prefixed_datatype_if_needed` is `Ttl.expandDatatype` for every token and prefix
  dictionary (through the regenerated `unprefixize_uri_if_possible`), and never raises. -/
namespace Shexer.GenStrTtlScanProps
open Shexer PyOps

theorem find_next_unescaped_quotes_is_model (s : List Char) (i fuel : Nat) (hq : s[i]? = some '"') (hf : s.length + 1 ≤ fuel) :
    GenS.ttl_find_next_unescaped_quotes fuel s ((i : Int) + 1) =
      (match Nt.closing (s.drop (i + 1)) with
       | some (content, _) => Except.ok (((i + 1 + content.length : Nat) : Int))
       | none => Except.error PyExc.valueError) :=
  GenStrTtlScan.find_next_unescaped_quotes_eq s i fuel hq hf

theorem quoted_literal_ending_is_model (s : List Char) (i fuel : Nat) (hq : s[i]? = some '"') (hf : s.length + 1 ≤ fuel) :
    GenS.ttl_find_next_quoted_literal_ending fuel s (i : Int) =
      (match Nt.closing (s.drop (i + 1)) with
       | none => Except.error PyExc.valueError
       | some (content, rest) =>
         match rest with
         | [] => Except.ok (((i + 1 + content.length : Nat) : Int))
         | d :: _ =>
           if d = ' ' then Except.ok (((i + 1 + content.length : Nat) : Int))
           else if d = '^' || d = '@' then Except.ok (((i + 1 + content.length + (rest.takeWhile (· != ' ')).length : Nat) : Int))
           else Except.error PyExc.valueError) :=
  GenStrTtlScan.quoted_literal_ending_eq s i fuel hq hf

theorem remove_comments_is_model (s : List Char) (fuel : Nat) (hf : s.length + 1 ≤ fuel) :
    GenS.ttl_remove_comments_if_needed fuel s = Except.ok (Ttl.removeComment s) :=
  GenStrTtlScan.remove_comments_eq s fuel hf

theorem find_next_blank_is_model (s : List Char) (i : Nat) (hi : i ≤ s.length) :
    GenS.ttl_find_next_blank s (i : Int) = Except.ok (((i + ((s.drop i).takeWhile (· != ' ')).length : Nat) : Int)) :=
  GenStrTtlScan.find_next_blank_eq s i hi

theorem expand_datatype_is_model (prefixes : List (List Char × List Char)) (tok : List Char) :
    GenS.ttl_expand_prefixed_datatype_if_needed prefixes tok = Except.ok (Ttl.expandDatatype { prefixes := prefixes } tok) :=
  GenStrTtlScan.expand_datatype_eq prefixes tok

example : (GenS.ttl_remove_comments_if_needed 60 "ex:s ex:p \"a # \\\" # b\" , \"c\" # real comment".toList).toOption =
    some "ex:s ex:p \"a # \\\" # b\" , \"c\"".toList := by decide +kernel

/- non-vacuity: an escaped backslash right before the closing quote, an escaped quote, an unterminated literal -/
example : (GenS.ttl_find_next_unescaped_quotes 50 "ex:s ex:p \"a\\\\\" .".toList 11).toOption = some 14 := by decide +kernel
example : (GenS.ttl_find_next_unescaped_quotes 50 "ex:s ex:p \"a\\\"b\" .".toList 11).toOption = some 15 := by decide +kernel
example : (match GenS.ttl_find_next_unescaped_quotes 50 "ex:s ex:p \"a\\\" .".toList 11 with | .error .valueError => true | _ => false) = true := by decide +kernel
example : (GenS.ttl_find_next_quoted_literal_ending 50 "ex:s ex:p \"a b\"^^xsd:int ;".toList 10).toOption = some 23 := by decide +kernel

end Shexer.GenStrTtlScanProps
