import ShexerModel.Lemmas.NtLemmas
/-! # C06 — the N-Triples reader yields exactly the triples of the document

`Model/Nt.lean` is the line tokenizer, the token classification and the datatype decision of `NtTriplesYielder`;
`Spec/NtGrammar.lean` is the set of documents the property quantifies over: abstract statements (subject IRI or
blank node, predicate IRI, object IRI / blank node / literal whose lexical form is **any** sequence of plain
characters and escape pairs, followed by nothing, a language tag or a datatype IRI) with **any** layout (blanks
before / between the tokens, blanks or nothing before the final dot, blanks or a comment after it).

* `reads_the_statement` — every such line is read as exactly the triple the RDF semantics gives the statement: same
  node kinds, same IRIs and labels, `xsd:string` / `rdf:langString` / the written datatype for literals, no exception,
  not counted as an error — for all lexical forms, not up to a length;
* `reads_the_document` — a document is read as the list of its triples, in order, with zero error lines;
* non-vacuity: concrete adversarial statements satisfy the hypotheses (`example`s below, kernel-checked).

Before the repairs recorded in `known_findings.json` the statements were false of the code (the model of the old
tokenizer does not satisfy them: `"a^^b c"`, `"x"@en . # me@x`, `_:b0. #c`); what the proof needed — a scan for the
unescaped closing quotes, the datatype decided by the suffix, `tailOk` — is exactly what the `fix:` commits changed. -/
namespace Shexer.C06
open Shexer Nt NtGrammar

theorem reads_the_statement (st : Stmt) (lay : Layout) (hst : st.Valid) (hl : lay.Valid) :
    parseLine (render st lay) = .ok (some st.triple) :=
  parseLine_render st lay hst hl

theorem reads_the_document (doc : List (Stmt × Layout)) (h : ∀ x ∈ doc, x.1.Valid ∧ x.2.Valid) :
    readLines (doc.map fun x => render x.1 x.2) = .ok (doc.map fun x => x.1.triple, 0) :=
  readLines_render doc h

/-- the tokenizer stops at the final dot: nothing after it is looked at -/
theorem tokens_stop_at_dot (fuel : Nat) (t : List Char) : tokensAux (fuel + 1) ('.' :: t) = some [] := by
  unfold tokensAux
  simp

/-- a literal whose lexical form is `a\"^^b @x #`, language-tagged, dot glued, comment glued -/
def advStmt : Stmt :=
  { s := .bnode "a.b".toList, p := "http://e/p#q".toList,
    o := .lit [.plain 'a', .esc '"', .plain '^', .plain '^', .plain 'b', .plain ' ', .plain '@', .plain 'x', .plain ' ', .plain '#']
           (.lang "en-GB".toList) }
def advLayout : Layout := { lead := [' '], sep1 := ['\t'], sep2 := [' ', ' '], dot := [], tail := "#c \"q\"@z".toList }

example : render advStmt advLayout = " _:a.b\t<http://e/p#q>  \"a\\\"^^b @x #\"@en-GB.#c \"q\"@z".toList := by decide +kernel

theorem advLayout_valid : advLayout.Valid := by
  unfold Layout.Valid blanks tailOk advLayout
  refine ⟨by decide, by decide, by decide, by decide, by decide, by decide, ?_⟩
  intro c hc
  simp at hc
  right; exact hc.symm

theorem advStmt_valid : advStmt.Valid := by
  unfold Stmt.Valid advStmt
  refine ⟨?_, trivial, ?_, ?_⟩
  · unfold Node.Valid labelOk; refine ⟨by decide, by decide, by decide⟩
  · unfold iriOk; decide
  · unfold Node.Valid Suffix.Valid
    refine ⟨?_, by decide, by decide, by decide⟩
    intro i hi
    simp only [List.mem_cons, List.not_mem_nil, or_false] at hi
    repeat' (rcases hi with rfl | hi)
    all_goals (first | (subst hi; simp [Item.Valid]) | simp [Item.Valid])

/-- the hypotheses of `reads_the_statement` are satisfiable by an adversarial statement, and its conclusion is the
kernel-evaluated behaviour of the model on that line -/
example : parseLine (render advStmt advLayout) = .ok (some advStmt.triple) :=
  reads_the_statement advStmt advLayout advStmt_valid advLayout_valid

example : (parseLine (render advStmt advLayout)).toOption =
    some (some { s := .bnode "_:a.b", p := "http://e/p#q", o := .lit Gen.LANG_STRING_TYPE }) := by decide +kernel

end Shexer.C06
