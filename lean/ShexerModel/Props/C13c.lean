import ShexerModel.Lemmas.OrLemmas
/-! # C13 (third part) — `disable_or_statements = False` only turns a single non-literal constraint into a disjunction over the same alternatives

Run-level statement (`Shexer.run`), every document and configuration with empty shapes kept, redundant disjunctions allowed or
not: the run with disjunctions has the same shapes in the same order (name, class, number of instances) and, shape by shape, the
same number of statements in the same order with the same predicate, direction, cardinality and count; a statement either
keeps its type or becomes a disjunction that contains it (`orRefines`).  Agent-proved `OrLemmas`: the option is read in one
place of `MergeableConstraints.merge_group`, every statement that enters it is a plain one, and sorting / relaxation /
generalisation read only what the option leaves alone.

With `remove_empty_shapes` a disjunction that names a removed shape is dropped as a whole while a single reference is dropped
alone, so the two runs can lose different constraints (finding F-C02-2); that case is decided by the search with the finding's
trigger. -/
namespace Shexer.C13
open Shexer

theorem disable_or_only_adds_alternatives (cfg : Config) (hre : cfg.removeEmpty = false) (r : Bool) (g : Graph) :
    All2 (fun (off on : Shape) => on.name = off.name ∧ on.classUri = off.classUri ∧ on.nInstances = off.nInstances ∧
        All2 orRefines off.stmts on.stmts)
      (Shexer.run { cfg with disableOr := true, allowRedundantOr := false } g)
      (Shexer.run { cfg with disableOr := false, allowRedundantOr := r } g) :=
  or_only_adds_alternatives cfg hre r g

/-- `orRefines` is satisfiable by a real disjunction and rejects a changed cardinality -/
example : orRefines { prop := "p", types := ["%<A>"], card := Card.exact 2, n := 3 }
                    { prop := "p", types := ["IRI", "%<A>", "%<B>"], choice := true, card := Card.exact 2, n := 3 } := by
  refine ⟨rfl, Or.inr ⟨rfl, rfl, ?_⟩⟩
  simp [Stmt.ty]
example : ¬ orRefines { prop := "p", types := ["IRI"], card := Card.exact 2, n := 3 }
                      { prop := "p", types := ["IRI", "%<A>"], choice := true, card := Card.plus, n := 3 } := by
  intro h
  have := h.1
  simp [orSkeleton] at this

end Shexer.C13
