import ShexerModel.Spec.ShExEachOf
import ShexerModel.Lemmas.EachOfLemmas
/-! C03 — the independent reading of a shape (`Spec.nodeConforms`, used by the theorems of `Props/C03.lean`) is ShEx's `EachOf`
semantics whenever no value matches two constraints of one predicate; and it is not when a constraint is repeated. -/
namespace Shexer.C03each
open Shexer Spec

/-- no value of `vs` matches two different positions of `ts` -/
def Disjoint (m : Stmt → Term → Bool) (vs : List Term) (ts : List Stmt) : Prop :=
  ∀ v ∈ vs, ∀ i j : Nat, i < j → ∀ a b, ts[i]? = some a → ts[j]? = some b → ¬ (m a v = true ∧ m b v = true)

/-- **distribution = independent counting** when the constraints are disjoint on the values: the values can be distributed iff every
value matches some constraint and every constraint's number of matching values lies in its interval (all lists, all lengths) -/
theorem distribute_eq_independent (m : Stmt → Term → Bool) (vs : List Term) (ts : List Stmt) (h : Disjoint m vs ts) :
    distribute m vs (ts.map fun t => (t, 0))
      = (vs.all (fun v => ts.any fun t => m t v) && ts.all fun t => inInterval t.card (vs.countP (m t))) :=
  EachOfLemmas.distribute_eq_independent m vs ts h

/-- **node level**: when, for every predicate the shape mentions, no value of the node matches two of that predicate's constraints,
conformance under ShEx (`Spec.nodeConformsShEx`, values distributed over the constraints) is the independent reading
(`Spec.nodeConforms`) that the theorems of `Props/C03.lean` are stated with - for every graph, selection, node and shape -/
theorem shex_eq_independent (cfg : Config) (sel : Selection) (g : Graph) (n : String) (sh : Shape)
    (h : ∀ st ∈ sh.stmts, Disjoint (stmtMatches cfg sel) (valuesOf g st.inverse n st.prop) (tcsOf sh st.inverse st.prop)) :
    nodeConformsShEx cfg sel g n sh = nodeConforms cfg sel g n sh :=
  EachOfLemmas.shex_eq_independent cfg sel g n sh h

/-- with a constraint listed twice no node that has a value for it conforms under ShEx (while the independent reading is satisfied):
one value cannot be given to both copies of `p IRI` -/
theorem repeated_constraint_fails :
    let st : Stmt := { prop := "p", types := [Gen.IRI_ELEM_TYPE], card := Card.exact 1, n := 1 }
    let m : Stmt → Term → Bool := fun _ v => v.isIri
    distribute m [Term.iri "x"] [(st, 0), (st, 0)] = false ∧
    ([Term.iri "x"].all (fun v => [st, st].any fun t => m t v) && [st, st].all fun t => inInterval t.card ([Term.iri "x"].countP (m t))) = true := by
  decide

/-- a shape reference and a node kind on one predicate: ShEx can give the `S` instance to `@S` and the other IRI to `IRI`,
the independent reading rejects (it counts two IRIs for `IRI {1}`) - so the premise of `distribute_eq_independent` is needed -/
theorem overlapping_constraints_differ :
    let a : Stmt := { prop := "p", types := ["A"], card := Card.exact 1, n := 1 }
    let b : Stmt := { prop := "p", types := ["B"], card := Card.exact 1, n := 1 }
    let m : Stmt → Term → Bool := fun t v => if t.ty == "A" then v.isIri else v.key == "x"
    distribute m [Term.iri "x", Term.iri "y"] [(a, 0), (b, 0)] = true ∧
    ([a, b].all fun t => inInterval t.card ([Term.iri "x", Term.iri "y"].countP (m t))) = false := by
  decide

end Shexer.C03each
