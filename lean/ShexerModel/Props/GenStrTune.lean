import ShexerModel.Lemmas.GenStrTune
/-! # Tie 1, fragment S — the ShExC token renderer regenerated from /repo

`GenS.serializer_tune_token` and `GenS.serializer_str_of_target_element` are the translations of `BaseStatementSerializer.tune_token` (with
`utils.shapes.prefixize_shape_name_if_possible` -> `utils.uri.prefixize_uri_if_possible` -> `remove_corners`, and the class's
`_prefixize_uri_if_possible`, all regenerated and called as translated functions) and of `str_of_target_element`.  Obligations of C05
(tokens of the document), C11 and C14 (how a value is written):

* `value_is_bracketed_iff_instantiation_property` — for **every** element, predicate, instantiation property and dictionary the value is
  written `[` token `]` when the predicate is the instantiation property and as the bare token otherwise - nothing else enters the
  decision (no direction, no node kind); this is `Text.valueToken` of the model, statement for statement;
* `macro_token_unchanged` — `IRI`, `BNode`, `NONLITERAL` are written as they are;
* `iri_token_is_model` — an IRI (a token with a colon that is neither a macro nor a shape name) is written `prefix:local` with
  `Text.bestNamespace`'s choice - the first namespace of the dictionary the IRI is a direct child of - or `<iri>` when there is none
  (namespaces with a `/` or `#`, as in `prefixize_is_model`);
* `reference_token_is_find_and_replace` — a shape name `%<iri>` is written `@` + the prefixed name under the first namespace the IRI is a
  direct child of, or `@<iri>`; never an exception. -/
namespace Shexer.GenStrTuneProps
open Shexer PyOps

theorem value_is_bracketed_iff_instantiation_property (ip ty prop : List Char) (d : List (List Char × List Char)) :
    GenS.serializer_str_of_target_element ip ty prop d =
      (GenS.serializer_tune_token ty d).map (fun r => if prop == ip then '[' :: (r ++ [']']) else r) :=
  GenStrTune.str_of_target_element_eq ip ty prop d

theorem macro_token_unchanged (tok : List Char) (d : List (List Char × List Char))
    (h : tok = "IRI".toList ∨ tok = "BNode".toList ∨ tok = "NONLITERAL".toList) :
    GenS.serializer_tune_token tok d = .ok tok :=
  GenStrTune.tune_token_macro tok d h

theorem iri_token_is_model (ns : Text.Namespaces) (tok : String)
    (hsep : ∀ e ∈ ns, (e.1.toList.contains '/' || e.1.toList.contains '#') = true)
    (hcolon : tok.toList.contains ':' = true)
    (hnotref : PyOps.startsWith tok.toList ['%'] = false)
    (hnotmacro : tok.toList ≠ "IRI".toList ∧ tok.toList ≠ "BNode".toList ∧ tok.toList ≠ "NONLITERAL".toList) :
    GenS.serializer_tune_token tok.toList (ns.map fun e => (e.1.toList, e.2.toList)) =
      .ok (match Text.bestNamespace ns tok with
           | some e => e.2.toList ++ ':' :: tok.toList.drop e.1.toList.length
           | none => '<' :: (tok.toList ++ ['>'])) :=
  GenStrTune.tune_token_iri ns tok hsep hcolon hnotref hnotmacro

theorem reference_token_is_find_and_replace (iri : List Char) (d : List (List Char × List Char)) :
    GenS.serializer_tune_token ('%' :: '<' :: (iri ++ ['>'])) d =
      .ok ('@' :: (match d.find? fun e => PyStr.directChildOf iri e.1 with
                   | some e => PyOps.replace iri e.1 (e.2 ++ [':'])
                   | none => '<' :: (iri ++ ['>']))) :=
  GenStrTune.tune_token_ref iri d

/- non-vacuity -/
example : (GenS.serializer_str_of_target_element "http://t".toList "http://e.org/rex".toList "http://t".toList [("http://e.org/".toList, "ex".toList)]).toOption
    = some "[ex:rex]".toList := by decide +kernel
example : (GenS.serializer_tune_token "%<http://s.org/A>".toList [("http://s.org/".toList, "".toList)]).toOption = some "@:A".toList := by decide +kernel

end Shexer.GenStrTuneProps
