import ShexerModel.Model.Text
import ShexerModel.Lemmas.FigureLemmas
/-! C05 — produced schemas are well-formed and closed (part 1: prefixes, labels; the closure
theorems are in `Props/C05b.lean`). -/
namespace Shexer.C05
open Shexer Text

/-- **the shapes prefix never collides with a prefix of the user**, whatever the user's dictionary -/
theorem shapes_prefix_fresh (ns : Namespaces) (p : String) (h : adequatePrefix ns = some p) :
    p ∉ ns.map (·.2) := by
  unfold adequatePrefix at h
  have := List.find?_some h
  simpa using this

/-- it is the *first* default prefix that is free (no randomness involved, C19) -/
theorem shapes_prefix_first_free (ns : Namespaces) (p : String) (h : adequatePrefix ns = some p) :
    p ∈ Gen.PRIORITY_PREFIXES_FOR_SHAPES ∧
    ∀ q ∈ Gen.PRIORITY_PREFIXES_FOR_SHAPES.takeWhile (· != p), q ∈ ns.map (·.2) := by
  unfold adequatePrefix at h
  refine ⟨List.mem_of_find?_eq_some h, ?_⟩
  intro q hq
  -- every element before the found one fails the predicate
  have key : ∀ (l : List String) (p : String), l.find? (fun x => !(ns.map (·.2)).contains x) = some p →
      ∀ q ∈ l.takeWhile (· != p), q ∈ ns.map (·.2) := by
    intro l
    induction l with
    | nil => intro p h; simp at h
    | cons x xs ih =>
      intro p h q hq
      simp only [List.find?_cons] at h
      by_cases hx : (!(ns.map (·.2)).contains x) = true
      · simp only [hx] at h
        have : x = p := by simpa using h
        subst this
        simp at hq
      · have hx' : (!(ns.map (·.2)).contains x) = false := by simpa using hx
        simp only [hx'] at h
        simp only [List.takeWhile_cons] at hq
        by_cases hne : (x != p) = true
        · simp only [hne, if_true, List.mem_cons] at hq
          rcases hq with rfl | hq
          · simpa using hx'
          · exact ih p h q hq
        · simp [hne] at hq
  exact key _ p h q hq

/-- a prefix is found whenever one of the four defaults is unused -/
theorem shapes_prefix_exists (ns : Namespaces) (h : ∃ p ∈ Gen.PRIORITY_PREFIXES_FOR_SHAPES, p ∉ ns.map (·.2)) :
    (adequatePrefix ns).isSome = true := by
  unfold adequatePrefix
  rw [List.find?_isSome]
  obtain ⟨p, hp, hn⟩ := h
  exact ⟨p, hp, by simpa using hn⟩

/-- **the declared prefix map stays functional**: if the user's prefixes are pairwise distinct, so are
the prefixes after the shapes namespace has been added (a namespace already present is re-bound) -/
theorem prefix_map_functional (ns : Namespaces) (shapesNs : String) (ns' : Namespaces)
    (hu : (ns.map (·.2)).Nodup) (hk : (ns.map (·.1)).Nodup) (hnew : shapesNs ∉ ns.map (·.1))
    (h : withShapesNs ns shapesNs = some ns') : (ns'.map (·.2)).Nodup := by
  unfold withShapesNs at h
  cases hp : adequatePrefix ns with
  | none => rw [hp] at h; simp at h
  | some p =>
    rw [hp] at h
    simp only [Option.map_some, Option.some.injEq] at h
    subst h
    have hfresh := shapes_prefix_fresh ns p hp
    -- the namespace is new, so `set` appends (shapesNs, p)
    have happ : Dict.set ns shapesNs p = ns ++ [(shapesNs, p)] := by
      have : ∀ (l : Namespaces), shapesNs ∉ l.map (·.1) → Dict.set l shapesNs p = l ++ [(shapesNs, p)] := by
        intro l
        induction l with
        | nil => intro _; rfl
        | cons hd tl ih =>
          intro hn
          obtain ⟨k, v⟩ := hd
          simp only [List.map_cons, List.mem_cons, not_or] at hn
          have hk' : ¬ k = shapesNs := fun e => hn.1 e.symm
          simp only [Dict.set, Dict.upd, hk', if_false, List.cons_append]
          have := ih hn.2
          simp only [Dict.set] at this
          rw [this]
      exact this ns hnew
    rw [happ, List.map_append, List.nodup_append]
    refine ⟨hu, by simp, ?_⟩
    intro a ha b hb
    simp only [List.map_cons, List.map_nil, List.mem_singleton] at hb
    subst hb
    intro e; subst e; exact hfresh ha

/-- **every prefix used in a token is declared**: `tune_token` only ever uses prefixes of the dictionary,
and every entry of the dictionary is printed as a `PREFIX` line -/
theorem used_prefix_declared (ns : Namespaces) (tok pfx loc : String) (r : Bool)
    (h : tuneToken ns tok = Token.pname pfx loc r) : pfx ∈ ns.map (·.2) := by
  unfold tuneToken at h
  have key : ∀ (x : String) (b : Bool), (match bestNamespace ns x with
      | some (n, p) => Token.pname p (x.drop n.length).toString b
      | none => Token.iriref x b) = Token.pname pfx loc r → pfx ∈ ns.map (·.2) := by
    intro x b hx
    cases hb : bestNamespace ns x with
    | none => rw [hb] at hx; cases hx
    | some np =>
      obtain ⟨n, p⟩ := np
      rw [hb] at hx
      simp only [Token.pname.injEq] at hx
      obtain ⟨rfl, _, _⟩ := hx
      exact List.mem_map_of_mem (f := (·.2)) (List.mem_of_find?_eq_some hb)
  by_cases h1 : tok.startsWith Gen.STARTING_CHAR_FOR_SHAPE_NAME = true
  · rw [if_pos h1] at h
    exact key _ _ h
  · rw [if_neg h1] at h
    by_cases h2 : (tok == Gen.IRI_ELEM_TYPE || tok == Gen.BNODE_ELEM_TYPE || tok == Gen.NONLITERAL_ELEM_TYPE) = true
    · rw [if_pos h2] at h; cases h
    · rw [if_neg h2] at h
      exact key _ _ h

theorem prefix_lines_cover (ns : Namespaces) : (prefixLines ns).length = ns.length := by
  simp [prefixLines]

/-- **labels**: the label of every final shape is derived from its class alone -/
theorem label_from_class (cfg : Config) (g : Graph) (sh : Shexer.Shape) (h : sh ∈ Shexer.run cfg g) :
    sh.name = Profiler.shapeName sh.classUri cfg.shapesNs :=
  (Shexer.run_shape_header cfg g sh h).1

/- non-vacuity -/
example : adequatePrefix [("http://e/", "ex"), ("http://t/", "")] = some "weso-s" := by decide
example : adequatePrefix [("a", ""), ("b", "weso-s"), ("c", "shapes"), ("d", "w-shapes")] = none := by decide

end Shexer.C05
