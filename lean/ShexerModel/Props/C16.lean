import ShexerModel.Lemmas.R1
import ShexerModel.Lemmas.CapLemmas
/-! C16 — restriction options equal restricting the input.

`namespaces_to_ignore` wraps the triple source of the *feature* pass only: class membership is read
from the full graph, features from the filtered one.  `instances_cap` restricts the *selection*
(`cap_is_restriction` below); by R1 (`Props/C01`) all figures are then exact for
whatever selection is in force. -/
namespace Shexer.C16
open Shexer Profiler

/-- the instance tracker never sees the namespace filter -/
theorem ignore_not_in_selection (cfg : Config) (ns : Option (List String)) (g : Graph) :
    Tracker.track { cfg with ignoreNs := ns } g = Tracker.track cfg g := rfl

/-- **`namespaces_to_ignore = N` is the feature pass on the filtered document** -/
theorem ignore_is_filter (cfg : Config) (N : List String) (sel : Spec.Selection) (g : Graph) :
    pass2 { cfg with ignoreNs := some N } sel g
      = pass2 { cfg with ignoreNs := none } sel (g.filter (passesFilter { cfg with ignoreNs := some N })) := by
  unfold pass2
  have : ∀ l : Graph, l.filter (passesFilter { cfg with ignoreNs := none }) = l := by
    intro l; apply List.filter_eq_self.mpr; intro t _; rfl
  rw [this]
  rfl

/-- a triple is dropped exactly when its predicate is a *direct child* of one of the namespaces -/
theorem filter_spec (cfg : Config) (N : List String) (t : Triple) :
    passesFilter { cfg with ignoreNs := some N } t = !(N.any fun ns => PyStr.directChildOf t.p.toList ns.toList) := rfl

/-- nested namespaces behave as the union: the order in the list is irrelevant -/
theorem filter_union (cfg : Config) (N M : List String) (t : Triple) :
    passesFilter { cfg with ignoreNs := some (N ++ M) } t
      = (passesFilter { cfg with ignoreNs := some N } t && passesFilter { cfg with ignoreNs := some M } t) := by
  simp [filter_spec, List.any_append, Bool.not_or]

theorem filter_perm (cfg : Config) (N M : List String) (h : N.Perm M) (t : Triple) :
    passesFilter { cfg with ignoreNs := some N } t = passesFilter { cfg with ignoreNs := some M } t := by
  simp only [filter_spec]
  congr 1
  exact h.any_eq

/-- a predicate one path segment deeper than the namespace is kept -/
theorem deeper_kept (ns rest : List Char) (h : rest.contains '/' = true) :
    PyStr.directChildOf (ns ++ rest) ns = false := by
  unfold PyStr.directChildOf
  have h' : '/' ∈ rest := by simpa using h
  simp [h']

/-- figures under any restriction of the selection (e.g. the first `k` instances of each class) are
exact for that selection: R1 is parametric in the selection -/
theorem figures_exact_for_any_selection (cfg : Config) (sel : Spec.Selection) (hw : Dict.WF sel)
    (hnd : ∀ n, (Spec.classesIn sel n).Nodup) (g : Graph)
    (c : String) (inv : Bool) (p ty : String) (card : Card) (hinv : inv = true → cfg.inverse = true) :
    eget (build cfg sel (pass2 cfg sel g)) c inv (p, ty, card) = Spec.countOver cfg sel g c inv p ty card
    ∧ cget (initCounts cfg sel) c = Spec.classSize sel c :=
  ⟨profile_exact cfg sel hw g hnd c inv p ty card hinv, count_exact cfg sel hw hnd c⟩

/-- **`instances_cap = k` selects exactly what no cap selects on the document from which the
(k+1)-th and later instantiation triples of each class have been dropped** - for the all-classes
variant and for the target-classes variant with its early stop -/
theorem cap_is_restriction (cfg : Config) (k : Nat) (hk : 0 < k) (g : Graph)
    (hT : ∀ ts, cfg.targets = some ts → ts.Nodup) :
    Tracker.track { cfg with cap := k } g = Tracker.track { cfg with cap := 0 } (Tracker.capRestrict cfg k g) :=
  Tracker.track_cap cfg k hk g hT

/-- a cap not smaller than every class changes nothing -/
theorem cap_large_noop (cfg : Config) (k : Nat) (hk : 0 < k) (g : Graph)
    (hT : ∀ ts, cfg.targets = some ts → ts.Nodup)
    (h : ∀ c, ((g.filter fun t => Tracker.innerRelevant cfg t && t.o.key == c).length) ≤ k) :
    Tracker.track { cfg with cap := k } g = Tracker.track { cfg with cap := 0 } g := by
  rw [cap_is_restriction cfg k hk g hT, Tracker.capRestrict_large cfg k g h]

/-- the feature pass never looks at the cap: features of the selected nodes come from the whole document -/
theorem cap_not_in_feature_pass (cfg : Config) (k : Nat) (sel : Spec.Selection) (g : Graph) :
    pass2 { cfg with cap := k } sel g = pass2 cfg sel g := rfl

/- non-vacuity -/
example : Tracker.capRestrict { allClasses := true, instProp := "T" } 1
    [⟨.iri "a", "T", .iri "C"⟩, ⟨.iri "b", "T", .iri "C"⟩, ⟨.iri "b", "p", .iri "a"⟩]
  = [⟨.iri "a", "T", .iri "C"⟩, ⟨.iri "b", "p", .iri "a"⟩] := by decide
example : PyStr.directChildOf "http://e/p".toList "http://e/".toList = true := by decide
example : PyStr.directChildOf "http://e/deep/p".toList "http://e/".toList = false := by decide
example : PyStr.directChildOf "http://e/deep/p".toList "http://e/deep/".toList = true := by decide

end Shexer.C16
