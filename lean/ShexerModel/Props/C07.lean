import ShexerModel.Rdf
/-! C07 — placeholder until the Turtle reader model is integrated. -/
namespace Shexer.C07
theorem placeholder : True := trivial
end Shexer.C07
