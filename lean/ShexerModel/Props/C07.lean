import ShexerModel.Lemmas.TtlLemmas
/-! # C07 — the streaming Turtle reader yields exactly the triples of the document

`Model/Ttl.lean` is `BigTtlTriplesYielder`: line cleaning and comment stripping, the tokenizer, the subject / predicate /
object state machine that persists across lines, prefix and base handling, the final classification.
`Spec/TtlGrammar.lean` is the reader's dialect as data: statement groups (`s p o (, o)* (; p o …)* .`) whose terms are
written as `<absolute>`, `<relative>`, `pre:local`, `a`, `_:label`, `"…"`, `"…"@tag`, `"…"^^<iri>`, `"…"^^pre:local` or
an untyped integer `[+-]?[0-9]+`; their token stream is cut into physical lines at **arbitrary** token boundaries, every token
preceded by an arbitrary run of blanks (space, tab, CR), lines may end in blanks and a comment, empty lines and
whole-line comments may be interleaved.

* `reads_the_body` — for every such layout the reader yields exactly the triples a standard parser assigns (same node
  kinds, IRIs after prefix / base expansion, blank-node labels, literal datatypes), in document order, raises nothing,
  and is back in the state that waits for a subject with the same prefixes and base — for unboundedly many groups,
  lines, blanks, and arbitrary literal content without tab / CR / double blank (`contentOk`; the reader normalises blank
  runs *inside* literals, which changes the lexical form but not the datatype — that part is covered by the
  correspondence check only);
* `resolve` stands for `urllib.parse.urljoin`; the hypotheses used about it are stated in the grammar (`ResolveOk`,
  absolute references are fixed points).

Outside the dialect the reader must raise rather than yield other triples: that clause is decided by the search (15
families of documents), and by the correspondence, which compares exception classes too. -/
namespace Shexer.C07
open Shexer Ttl TtlGrammar

theorem reads_the_body (resolve : List Char → List Char → List Char) (ctx : Ctx) (hctx : ctxOk ctx)
    (groups : List Group) (hg : ∀ g ∈ groups, g.Valid resolve ctx)
    (lines : List Line) (hl : ∀ ln ∈ lines, ln.Valid)
    (hpart : lines.flatMap (fun ln => ln.toks.map (·.2)) = groups.flatMap Group.toks)
    (st : St) (hctx' : st.ctx = ctx) (hw : st.wait = .subj) :
    ∃ st', runBody resolve st (lines.map Line.chars) = .ok (st', groups.flatMap (Group.triples resolve ctx)) ∧
      st'.ctx = ctx ∧ st'.wait = .subj :=
  body_reads resolve ctx hctx groups hg lines hl hpart st hctx' hw

/-- a directive line sets the prefix it declares (and nothing else) -/
example : (processLine simpleResolve {} "@prefix ex: <http://e.org/> .".toList).toOption.map (fun r => r.1.ctx.prefixes)
    = some [("ex".toList, "http://e.org/".toList)] := by decide +kernel

/-- a subject alone on its line, punctuation on its own line, a comment with quotes, a literal with ' #' and ';' inside -/
example : ((runBody simpleResolve { ctx := { prefixes := [("ex".toList, "http://e.org/".toList)] } }
      ["ex:s".toList, "\ta  <http://o.org/C> # c \"q\" ; .".toList, ";".toList, "ex:p \"a #\\\";\"@en , 42".toList, " .".toList]).toOption.map (·.2))
    = some [⟨.iri "http://e.org/s", "http://www.w3.org/1999/02/22-rdf-syntax-ns#type", .iri "http://o.org/C"⟩,
            ⟨.iri "http://e.org/s", "http://e.org/p", .lit "http://www.w3.org/1999/02/22-rdf-syntax-ns#langString"⟩,
            ⟨.iri "http://e.org/s", "http://e.org/p", .lit "http://www.w3.org/2001/XMLSchema#integer"⟩] := by decide +kernel

/-- signed untyped integers are integers (Turtle's INTEGER production) -/
example : ((runBody simpleResolve {} ["<http://e.org/s> <http://e.org/p> -7 , +3 .".toList]).toOption.map (·.2))
    = some [⟨.iri "http://e.org/s", "http://e.org/p", .lit "http://www.w3.org/2001/XMLSchema#integer"⟩,
            ⟨.iri "http://e.org/s", "http://e.org/p", .lit "http://www.w3.org/2001/XMLSchema#integer"⟩] := by decide +kernel

/-- the validity predicate of a signed integer token is satisfiable -/
example : (TtlGrammar.Elem.int "-7".toList).Valid simpleResolve {} := ⟨['-'], ['7'], rfl, Or.inr (Or.inr rfl), by simp, by decide⟩

end Shexer.C07
