import ShexerModel.Lemmas.CandLemmas
import ShexerModel.Lemmas.R1
/-! C02 — a shape holds exactly the features at or above the acceptance threshold.

The comparison operator of the threshold test is regenerated from the AST (`Gen.threshold_keeps`);
the candidates of a shape are exactly the profile entries that pass it; by R1 (Props/C01) those
entries are the declarative counts. -/
namespace Shexer.C02
open Shexer Shexer.Shexer Profiler

/-- the threshold test is `n / N ≥ a / b`, in exact arithmetic -/
theorem threshold_is_geq (cfg : Config) (N n : Nat) : passes cfg N n = true ↔ n * cfg.thDen ≥ cfg.thNum * N :=
  passes_iff cfg N n

/-- the boundary case frequency == threshold is kept (`>=`, not `>`) -/
theorem boundary_kept (cfg : Config) (N n : Nat) (h : n * cfg.thDen = cfg.thNum * N) : passes cfg N n = true := by
  rw [passes_iff]; omega

/-- just below the boundary is dropped -/
theorem below_dropped (cfg : Config) (N n : Nat) (h : n * cfg.thDen < cfg.thNum * N) : passes cfg N n = false := by
  have : ¬ (passes cfg N n = true) := by rw [passes_iff]; omega
  simpa using this

/-- at threshold 0 every observed entry is a candidate -/
theorem zero_keeps_all (cfg : Config) (h : cfg.thNum = 0) (N n : Nat) : passes cfg N n = true := by
  rw [passes_iff, h]; simp

/-- at threshold 1 only entries held by all instances remain -/
theorem one_keeps_universal (cfg : Config) (h : cfg.thNum = cfg.thDen) (hb : 0 < cfg.thDen) (N n : Nat) :
    passes cfg N n = true ↔ N ≤ n := by
  rw [passes_iff, h]
  constructor
  · intro hle
    have : cfg.thDen * N ≤ cfg.thDen * n := by rw [Nat.mul_comm cfg.thDen n]; exact hle
    exact Nat.le_of_mul_le_mul_left this hb
  · intro hle
    rw [Nat.mul_comm cfg.thDen N]
    exact Nat.mul_le_mul_right _ hle

/-- **candidates are exactly the entries of the profile that pass the threshold**, in dictionary
order, each as a statement without comments -/
theorem candidates_exact (cfg : Config) (N : Nat) (inv : Bool) (pp : PropProfile) (s : Stmt) :
    s ∈ candidates cfg N inv pp ↔ ∃ e ∈ entries pp, passes cfg N e.2.2.2 = true ∧ s = mkStmt inv e :=
  mem_candidates cfg N inv pp s

/-- no candidate below the threshold -/
theorem candidates_pass (cfg : Config) (N : Nat) (inv : Bool) (pp : PropProfile) (s : Stmt)
    (h : s ∈ candidates cfg N inv pp) : s.n * cfg.thDen ≥ cfg.thNum * N :=
  (passes_iff cfg N s.n).mp (candidate_props cfg N inv pp s h).1

/- non-vacuity: 2 of 3 instances, threshold 2/3 (kept) and 67/100 (dropped) -/
example : passes { thNum := 2, thDen := 3 } 3 2 = true := by decide
example : passes { thNum := 67, thDen := 100 } 3 2 = false := by decide

end Shexer.C02
