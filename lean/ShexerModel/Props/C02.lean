import ShexerModel.Lemmas.CandLemmas
import ShexerModel.Lemmas.R1
import ShexerModel.Lemmas.KeyLemmas
/-! C02 — a shape holds exactly the features at or above the acceptance threshold.

The comparison operator of the threshold test is regenerated from the AST (`Gen.threshold_keeps`);
the candidates of a shape are exactly the profile entries that pass it; by R1 (Props/C01) those
entries are the declarative counts. -/
namespace Shexer.C02
open Shexer Shexer.Shexer Profiler

/-- the threshold test is `n / N ≥ a / b`, in exact arithmetic -/
theorem threshold_is_geq (cfg : Config) (N n : Nat) : passes cfg N n = true ↔ n * cfg.thDen ≥ cfg.thNum * N :=
  passes_iff cfg N n

/-- the boundary case frequency == threshold is kept (`>=`, not `>`) -/
theorem boundary_kept (cfg : Config) (N n : Nat) (h : n * cfg.thDen = cfg.thNum * N) : passes cfg N n = true := by
  rw [passes_iff]; omega

/-- just below the boundary is dropped -/
theorem below_dropped (cfg : Config) (N n : Nat) (h : n * cfg.thDen < cfg.thNum * N) : passes cfg N n = false := by
  have : ¬ (passes cfg N n = true) := by rw [passes_iff]; omega
  simpa using this

/-- at threshold 0 every observed entry is a candidate -/
theorem zero_keeps_all (cfg : Config) (h : cfg.thNum = 0) (N n : Nat) : passes cfg N n = true := by
  rw [passes_iff, h]; simp

/-- at threshold 1 only entries held by all instances remain -/
theorem one_keeps_universal (cfg : Config) (h : cfg.thNum = cfg.thDen) (hb : 0 < cfg.thDen) (N n : Nat) :
    passes cfg N n = true ↔ N ≤ n := by
  rw [passes_iff, h]
  constructor
  · intro hle
    have : cfg.thDen * N ≤ cfg.thDen * n := by rw [Nat.mul_comm cfg.thDen n]; exact hle
    exact Nat.le_of_mul_le_mul_left this hb
  · intro hle
    rw [Nat.mul_comm cfg.thDen N]
    exact Nat.mul_le_mul_right _ hle

/-- **candidates are exactly the entries of the profile that pass the threshold**, in dictionary
order, each as a statement without comments -/
theorem candidates_exact (cfg : Config) (N : Nat) (inv : Bool) (pp : PropProfile) (s : Stmt) :
    s ∈ candidates cfg N inv pp ↔ ∃ e ∈ entries pp, passes cfg N e.2.2.2 = true ∧ s = mkStmt inv e :=
  mem_candidates cfg N inv pp s

/-- no candidate below the threshold -/
theorem candidates_pass (cfg : Config) (N : Nat) (inv : Bool) (pp : PropProfile) (s : Stmt)
    (h : s ∈ candidates cfg N inv pp) : s.n * cfg.thDen ≥ cfg.thNum * N :=
  (passes_iff cfg N s.n).mp (candidate_props cfg N inv pp s h).1

/-- candidates are ordinary statements (the hypothesis of the key theorems), provided no datatype of
the data is literally called `NONLITERAL` -/
theorem candidates_plain (cfg : Config) (N : Nat) (inv : Bool) (pp : PropProfile) (s : Stmt)
    (h : s ∈ candidates cfg N inv pp) (hnl : s.ty ≠ Gen.NONLITERAL_ELEM_TYPE) : Plain s :=
  ⟨(candidate_props cfg N inv pp s h).2.2.1, (candidate_props cfg N inv pp s h).2.2.2.2.2, hnl⟩

/-- **never two constraints for the same key**: after the two merge stages the keys
(property, value class) of one direction are pairwise distinct — for every input list, every
configuration -/
theorem keys_nodup (cfg : Config) (l : List Stmt) (hl : ∀ s ∈ l, Plain s) :
    ((selectValid cfg l).map (keyOf cfg)).Nodup :=
  selectValid_keys_nodup cfg l hl

/-- **the merge stages neither invent nor lose a key**: a key is present after them iff one of the
candidates (entries at or above the threshold) has it -/
theorem keys_exact (cfg : Config) (l : List Stmt) (hl : ∀ s ∈ l, Plain s) (k : String × Spec.VClass) :
    k ∈ (selectValid cfg l).map (keyOf cfg) ↔ k ∈ l.map (keyOf cfg) :=
  selectValid_keys cfg l hl k

/-- FULL STATEMENT of the "if and only if" of C02 for non-literal keys: present iff the fraction of
instances with at least one non-literal value reaches the threshold.  Proved: present iff *some
candidate of that value class* (IRI kind, BNode kind, or a shape reference) reaches it
(`keys_exact` + `candidates_exact`); the two differ exactly when the kinds are mixed across
instances and neither reaches the threshold alone (finding F-C02-1, witness below). -/
theorem nonliteral_key_iff_some_kind_passes (cfg : Config) (l : List Stmt) (hl : ∀ s ∈ l, Plain s) (p : String)
    (hp : (p == cfg.instProp) = false) :
    (p, Spec.VClass.nonliteral) ∈ (selectValid cfg l).map (keyOf cfg) ↔
      ∃ s ∈ l, s.prop = p ∧ isNodeType s.ty = true := by
  rw [keys_exact cfg l hl]
  simp only [List.mem_map]
  constructor
  · rintro ⟨s, hs, hk⟩
    refine ⟨s, hs, ?_⟩
    unfold keyOf vclassOf at hk
    have h1 : s.prop = p := (Prod.mk.inj hk).1
    have h2 := (Prod.mk.inj hk).2
    rw [h1, hp] at h2
    obtain ⟨hc, _, hn⟩ := hl s hs
    have hn' : (s.ty == Gen.NONLITERAL_ELEM_TYPE) = false := by simpa using hn
    simp only [hc, hn', Bool.false_or, Bool.or_false, Bool.false_eq_true, if_false] at h2
    refine ⟨h1, ?_⟩
    by_cases hnt : isNodeType s.ty = true
    · exact hnt
    · simp [hnt] at h2
  · rintro ⟨s, hs, h1, hnt⟩
    refine ⟨s, hs, ?_⟩
    unfold keyOf vclassOf
    rw [h1, hp]
    simp [hnt]

/-- ¬ full statement (F-C02-1): one instance has an IRI value, the other a blank-node value; at
threshold 3/5 neither kind (1/2 each) passes although all instances have a non-literal value -/
theorem fails_at_mixed_kinds :
    let cfg : Config := { allClasses := true, thNum := 3, thDen := 5 }
    let T := "http://www.w3.org/1999/02/22-rdf-syntax-ns#type"
    let g : Graph := [⟨.iri "a", T, .iri "C"⟩, ⟨.iri "b", T, .iri "C"⟩, ⟨.iri "a", "p", .iri "x"⟩, ⟨.iri "b", "p", .bnode "_:y"⟩]
    (Shexer.run cfg g).map (fun sh => sh.stmts.map (·.prop)) = [[T]]
    ∧ Spec.keyCount cfg (Spec.selectionOf cfg g) g "C" false "p" Spec.VClass.nonliteral = 2 := by decide

/- non-vacuity: 2 of 3 instances, threshold 2/3 (kept) and 67/100 (dropped) -/
example : passes { thNum := 2, thDen := 3 } 3 2 = true := by decide
example : passes { thNum := 67, thDen := 100 } 3 2 = false := by decide

end Shexer.C02
