import ShexerModel.Lemmas.R1
/-! C01 — every reported instance count and frequency is exact.

Part 1 (this file, proved): **R1** — the numbers sheXer's two passes put into the class profile
(from which every figure on a constraint line or in a comment is taken) are exactly the declarative
counts of `Spec/Counts.lean`, for every graph, every class-target / all-classes configuration
without instance cap (the cap is reduced to this case by C16), direct and inverse.
Part 2 (figures travel unchanged from the profile to the shapes): `Props/C01b.lean`. -/
namespace Shexer.C01
open Shexer Profiler

/-- the hypothesis "duplicate-free graph" as the counting passes need it: no node is given the
same class twice by the selecting triples -/
def NoDupClasses (cfg : Config) (g : Graph) : Prop := ∀ n, (Spec.classesOf cfg g n).Nodup

/-- keys identify terms: no IRI is spelled like a blank-node label in this graph -/
def KeysIdentify (g : Graph) : Prop :=
  ∀ t1 ∈ g, ∀ t2 ∈ g, (t1.s.key = t2.s.key → t1.s = t2.s) ∧ (t1.o.key = t2.o.key → t1.o = t2.o)

/-- a duplicate-free triple list whose keys identify terms never types a node twice with one class -/
theorem noDupClasses_of_nodup (cfg : Config) (g : Graph) (hnd : g.Nodup) (hk : KeysIdentify g) :
    NoDupClasses cfg g := by
  intro n
  unfold Spec.classesOf
  rw [List.Nodup, List.pairwise_map]
  have hp : List.Pairwise (fun a b : Triple => a ≠ b) (g.filter fun t => Spec.selects cfg t && t.s.key == n) :=
    List.Pairwise.filter _ hnd
  have hmem : ∀ t ∈ g.filter (fun t => Spec.selects cfg t && t.s.key == n), t ∈ g ∧ Spec.selects cfg t = true ∧ t.s.key = n := by
    intro t ht
    simp only [List.mem_filter, Bool.and_eq_true, beq_iff_eq] at ht
    exact ⟨ht.1, ht.2.1, ht.2.2⟩
  refine List.Pairwise.imp_of_mem ?_ hp
  intro a b ha hb hne heq
  obtain ⟨hag, hasel, hak⟩ := hmem a ha
  obtain ⟨hbg, hbsel, hbk⟩ := hmem b hb
  apply hne
  have hs : a.s = b.s := (hk a hag b hbg).1 (hak.trans hbk.symm)
  have ho : a.o = b.o := (hk a hag b hbg).2 heq
  have hp1 : a.p = cfg.instProp := by
    unfold Spec.selects Tracker.innerRelevant at hasel
    by_cases hall : cfg.allClasses = true
    · simpa [hall] using hasel
    · have : cfg.allClasses = false := by simpa using hall
      cases ht : cfg.targets <;> simp_all
  have hp2 : b.p = cfg.instProp := by
    unfold Spec.selects Tracker.innerRelevant at hbsel
    by_cases hall : cfg.allClasses = true
    · simpa [hall] using hbsel
    · have : cfg.allClasses = false := by simpa using hall
      cases ht : cfg.targets <;> simp_all
  cases a; cases b; simp_all

/-- the selection pass 1 computes for class targets / all-classes mode without cap: exactly the
selected nodes, each with its classes in document order -/
theorem selection_exact (cfg : Config) (hc : cfg.cap = 0) (g : Graph) :
    Dict.WF (Tracker.track cfg g) ∧
    ∀ n, Dict.get? (Tracker.track cfg g) n =
      if Spec.isSelected cfg g n then some (Spec.classesOf cfg g n) else none :=
  ⟨Tracker.WF_track cfg hc g, Tracker.get?_track cfg hc g⟩

theorem classesIn_track (cfg : Config) (hc : cfg.cap = 0) (g : Graph) (n : String) :
    Spec.classesIn (Tracker.track cfg g) n = Spec.classesOf cfg g n := by
  unfold Spec.classesIn
  rw [Tracker.get?_track cfg hc]
  by_cases h : Spec.isSelected cfg g n = true
  · simp [h]
  · have : Spec.classesOf cfg g n = [] := by
      unfold Spec.classesOf
      unfold Spec.isSelected at h
      simp only [List.any_eq_true, not_exists, not_and, Bool.not_eq_true] at h
      simp only [List.map_eq_nil_iff, List.filter_eq_nil_iff]
      intro t ht
      simpa using h t ht
    simp [h, this]

/-- **R1 / profile, for any selection** (class targets, capped selections, shape maps): every entry
`(class, direction, property, type, cardinality)` of the profile is the number of nodes selected
for the class having exactly that many (at least one, for `+`) values of that type -/
theorem profile_count_exact (cfg : Config) (sel : Spec.Selection) (hw : Dict.WF sel)
    (hnd : ∀ n, (Spec.classesIn sel n).Nodup) (g : Graph)
    (c : String) (inv : Bool) (p ty : String) (card : Card) (hinv : inv = true → cfg.inverse = true) :
    eget (build cfg sel (pass2 cfg sel g)) c inv (p, ty, card) = Spec.countOver cfg sel g c inv p ty card :=
  profile_exact cfg sel hw g hnd c inv p ty card hinv

/-- **R1 / instance counts**: the per-shape instance count is the number of nodes selected for it -/
theorem instance_count_exact (cfg : Config) (sel : Spec.Selection) (hw : Dict.WF sel)
    (hnd : ∀ n, (Spec.classesIn sel n).Nodup) (c : String) :
    cget (initCounts cfg sel) c = Spec.classSize sel c :=
  count_exact cfg sel hw hnd c

/-- no entry exceeds the instance count ("no ratio above 100 %" at the level of the profile) -/
theorem profile_count_le (cfg : Config) (sel : Spec.Selection) (hw : Dict.WF sel)
    (hnd : ∀ n, (Spec.classesIn sel n).Nodup) (g : Graph)
    (c : String) (inv : Bool) (p ty : String) (card : Card) (hinv : inv = true → cfg.inverse = true) :
    eget (build cfg sel (pass2 cfg sel g)) c inv (p, ty, card) ≤ cget (initCounts cfg sel) c := by
  rw [profile_count_exact cfg sel hw hnd g c inv p ty card hinv, instance_count_exact cfg sel hw hnd c]
  unfold Spec.countOver Spec.classSize
  exact List.countP_le_length

/-- the two together for class targets without cap, on duplicate-free documents -/
theorem class_targets_exact (cfg : Config) (hc : cfg.cap = 0) (g : Graph) (hnd : NoDupClasses cfg g)
    (c : String) (inv : Bool) (p ty : String) (card : Card) (hinv : inv = true → cfg.inverse = true) :
    eget (Profiler.build cfg (Tracker.track cfg g) (pass2 cfg (Tracker.track cfg g) g)) c inv (p, ty, card)
      = Spec.countOver cfg (Tracker.track cfg g) g c inv p ty card
    ∧ cget (initCounts cfg (Tracker.track cfg g)) c = Spec.classSize (Tracker.track cfg g) c := by
  have hw := Tracker.WF_track cfg hc g
  have hnd' : ∀ n, (Spec.classesIn (Tracker.track cfg g) n).Nodup := by
    intro n; rw [classesIn_track cfg hc g n]; exact hnd n
  exact ⟨profile_count_exact cfg _ hw hnd' g c inv p ty card hinv, instance_count_exact cfg _ hw hnd' c⟩

/-- R1 without any hypothesis on the multiplicity of classes: a node selected twice for the same
class is counted twice — what the code does on documents with repeated statements -/
theorem profile_count_multiplicity (cfg : Config) (sel : Spec.Selection) (hw : Dict.WF sel) (g : Graph)
    (c : String) (inv : Bool) (p ty : String) (card : Card) (hinv : inv = true → cfg.inverse = true) :
    eget (build cfg sel (pass2 cfg sel g)) c inv (p, ty, card) =
      ((Dict.keys sel).map fun n => specContrib cfg sel g n c inv p ty card).sum :=
  eget_profile cfg sel hw g c inv p ty card hinv

/- non-vacuity: a concrete graph with a multi-typed node, a blank-node instance and cardinality 2 -/
def exGraph : Graph :=
  let T := "http://www.w3.org/1999/02/22-rdf-syntax-ns#type"
  [ ⟨.iri "a", T, .iri "C"⟩, ⟨.iri "a", T, .iri "D"⟩, ⟨.bnode "_:b", T, .iri "C"⟩,
    ⟨.iri "a", "p", .iri "x"⟩, ⟨.iri "a", "p", .bnode "_:b"⟩, ⟨.bnode "_:b", "p", .lit "dt"⟩,
    ⟨.iri "a", "q", .lit "dt"⟩ ]
def exCfg : Config := { allClasses := true, inverse := true }

example : NoDupClasses exCfg exGraph :=
  noDupClasses_of_nodup exCfg exGraph (by decide) (by unfold KeysIdentify; decide)
example : eget (build exCfg (Tracker.track exCfg exGraph) (pass2 exCfg (Tracker.track exCfg exGraph) exGraph))
    "C" false ("p", "IRI", Card.plus) = 1 := by decide
example : Spec.countOver exCfg (Tracker.track exCfg exGraph) exGraph "C" false "p" "IRI" Card.plus = 1 := by decide
example : Tracker.track exCfg exGraph = Spec.selectionOf exCfg exGraph := by decide
example : cget (initCounts exCfg (Tracker.track exCfg exGraph)) "C" = 2 := by decide

end Shexer.C01
