import ShexerModel.Lemmas.GenStrUnprefix
/-! # Tie 1, fragment S — prefix expansion and corner helpers regenerated from /repo are the model's

`GenS.unprefixize_uri_mandatory`, `GenS.unprefixize_uri_if_possible` (loops over the keys of the prefix dictionary with a dictionary
lookup, `str.replace`, a call of `add_corners`), `GenS.add_corners_if_needed`, `GenS.add_corners_if_it_is_an_uri` and
`GenS.there_is_arroba_after_last_quotes` are translations of the functions of `shexer/utils/uri.py`.  Obligations of C07 (the Turtle
reader expands prefixed names with the first two), C10 / C20 (`target_classes` and `instantiation_property` given as prefixed names go
through `unprefixize_uri_if_possible`) and C15 (rows of an endpoint / an rdflib graph get their corners from the `add_corners*` helpers):

* `unprefixize_mandatory_is_model` — for **every** token and dictionary: the first prefix (dictionary order) with `tok.startswith(p + ":")`
  is expanded exactly as `Ttl.unprefixize` does, and without such a prefix the code raises ValueError; it never raises KeyError;
* `unprefixize_soft_is_model` — `Ttl.unprefixizeSoft` (a prefix followed by `://` is skipped), the token itself when nothing applies, no exception at all;
* `replace_is_replaceAll` — the two formalisations of `str.replace` (`PyOps.replace` used by the translator, `Ttl.replaceAll` used by the
  reader model) agree for every non-empty pattern. -/
namespace Shexer.GenStrUnprefixProps
open Shexer PyOps

theorem replace_is_replaceAll (pat by_ l : List Char) (h : pat ≠ []) : Ttl.replaceAll pat by_ l = PyOps.replace l pat by_ :=
  GenStrUnprefix.replaceAll_is_replace pat by_ l h

theorem unprefixize_mandatory_is_model (tok : List Char) (d : List (List Char × List Char)) (corners : Bool) :
    GenS.unprefixize_uri_mandatory tok d corners =
      (match Ttl.unprefixize d tok with
       | some r => Except.ok (if corners then '<' :: r ++ ['>'] else r)
       | none => Except.error PyExc.valueError) :=
  GenStrUnprefix.unprefixize_mandatory_eq tok d corners

theorem unprefixize_soft_is_model (tok : List Char) (d : List (List Char × List Char)) (corners : Bool) :
    GenS.unprefixize_uri_if_possible tok d corners =
      Except.ok (match Ttl.unprefixizeSoft d tok with
                 | some r => if corners then '<' :: r ++ ['>'] else r
                 | none => tok) :=
  GenStrUnprefix.unprefixize_soft_eq tok d corners

theorem add_corners_if_needed_spec (s : List Char) :
    GenS.add_corners_if_needed s = Except.ok (if ['<'].isPrefixOf s then s else '<' :: s ++ ['>']) :=
  GenStrUnprefix.add_corners_if_needed_eq s

theorem add_corners_if_it_is_an_uri_spec (s : List Char) :
    GenS.add_corners_if_it_is_an_uri s =
      Except.ok (if "http://".toList.isPrefixOf s || "https://".toList.isPrefixOf s then '<' :: s ++ ['>'] else s) :=
  GenStrUnprefix.add_corners_if_it_is_an_uri_eq s

theorem arroba_spec (s : List Char) :
    GenS.there_is_arroba_after_last_quotes s = Except.ok (decide (PyOps.rfind s ['@'] > PyOps.rfind s ['"'])) :=
  GenStrUnprefix.arroba_eq s

/- non-vacuity: a prefixed name is expanded, `http://…` is left alone although a prefix is called `http` -/
example : (GenS.unprefixize_uri_if_possible "ex:a".toList [("ex".toList, "http://e.org/".toList)] true).toOption = some "<http://e.org/a>".toList := by
  decide +kernel
example : (GenS.unprefixize_uri_if_possible "http://e.org/a".toList [("http".toList, "urn:h:".toList)] false).toOption = some "http://e.org/a".toList := by
  decide +kernel
example : (GenS.unprefixize_uri_mandatory "zz:a".toList [("ex".toList, "http://e.org/".toList)] true).toOption = none := by decide +kernel

end Shexer.GenStrUnprefixProps
