import ShexerModel.Lemmas.GenTtlReader
/-! # Tie 1, fragment S — the token loop of the streaming Turtle reader assembled from regenerated functions is the model's

`GenTtlReader.genLineLoop` is `BigTtlTriplesYielder._process_line_with_potential_triples` together with the classification `yield_triples`
applies to what it yields - scan the next token, on `,` `;` `.` emit the current triple and move the subject / predicate / object state, otherwise
store the parsed element - with the functions regenerated from /repo's Python source in the places of the calls (`GenS.ttl_next_line_token`,
`GenS.ttl_parse_elem`, `GenS.tune_subj`, `GenS.tune_prop`, `GenS.tune_token`).  The state record is the model's; the glue around the calls (about
thirty lines) is written by hand and tied, like the model, by the document-by-document correspondence of the C07 check.  Obligation of C07:

* `regenerated_token_loop_is_model` - for every cleaned line, start index, reader state (waiting position, stored elements, base, prefixes) and
  bound on the rounds: the regenerated loop ends in the state, with the triples (kinds, IRIs, labels, datatypes), or with the exception class of
  `Ttl.lineLoop` - the function the round-trip theorem `C07.reads_the_body` is about.  Hypotheses: fuel of at least `len + 1` for the scans, and no
  `<` without a `>` after it (see `Props/GenStrTtlTok`) (agent: GenTtlReader).

With `clean_line_is_model` what stays hand-modelled of the reader is `_process_line_2`'s dispatch on `@prefix` / `@base` / comment lines with the
dictionary bookkeeping of the two directives, and the final "statement not closed" test of `yield_triples`. -/
namespace Shexer.GenTtlReaderProps
open Shexer PyOps Shexer.GenStrTune2 Shexer.GenNtReader Shexer.GenTtlReader

theorem regenerated_token_loop_is_model (resolve : List Char → List Char → List Char) (fuel n : Nat) (st : Ttl.St) (line : List Char) (i : Nat)
    (hf : line.length + 1 ≤ fuel)
    (hc : ∀ j t, (line.drop j).dropWhile (· = ' ') = '<' :: t → Nt.toCorner ('<' :: t) ≠ none) :
    (genLineLoop resolve fuel n st line (i : Int)).map (fun r => (r.1, r.2.map tripleOfObjs)) =
      (Ttl.lineLoop resolve n st (line.drop i)).mapError excOfTtl :=
  genLineLoop_eq resolve fuel n st line i hf hc

/- non-vacuity: one line with a predicate list and an object list, from the initial state -/
example : ((genLineLoop (fun _ r => r) 80 80 { ctx := { prefixes := [("ex".toList, "http://e/".toList)] } }
      "ex:s ex:p \"a\"@en , 12 ; a ex:C .".toList 0).map (fun r => (r.1.wait, r.2.map tripleOfObjs))).toOption =
    some (Ttl.Wait.subj,
      [{ s := .iri "http://e/s", p := "http://e/p", o := .lit "http://www.w3.org/1999/02/22-rdf-syntax-ns#langString" },
       { s := .iri "http://e/s", p := "http://e/p", o := .lit "http://www.w3.org/2001/XMLSchema#integer" },
       { s := .iri "http://e/s", p := "http://www.w3.org/1999/02/22-rdf-syntax-ns#type", o := .iri "http://e/C" }]) := by decide +kernel

end Shexer.GenTtlReaderProps
