import ShexerModel.Lemmas.GenStrSuitable
/-! # Tie 1, fragment S — `_determine_suitable_iri_pattern` regenerated from /repo is `MinIri.suitable`

`GenS.determine_suitable_iri_pattern` is the translation of `AnnotateMinIriStrategy._determine_suitable_iri_pattern`
(reversal, `re.compile("[:/#]").search`, the two length rules, `None` for "no pattern").  Obligation of C17: for **every**
prefix it raises nothing and equals `MinIri.suitable`, the function `MinIri.stem` uses and the C17 theorems (separator,
longest, length rules) are about. -/
namespace Shexer.GenStrSuitableProps
open Shexer GenStr PyOps

theorem determine_suitable_none_is_model : GenS.determine_suitable_iri_pattern none = .ok none := determine_suitable_none

theorem determine_suitable_is_model (l : List Char) : GenS.determine_suitable_iri_pattern (some l) = .ok (MinIri.suitable l) :=
  determine_suitable_eq l

/-- cut back to the last separator; a bare scheme is no pattern -/
example : (GenS.determine_suitable_iri_pattern (some "http://e.org/people/al".toList)).toOption = some (some "http://e.org/people/".toList) := by decide +kernel
example : (GenS.determine_suitable_iri_pattern (some "https://e".toList)).toOption = some none := by decide +kernel

end Shexer.GenStrSuitableProps
