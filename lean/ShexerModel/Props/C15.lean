import ShexerModel.Lemmas.EndpointLemmas
/-! # C15 — extraction from a SPARQL endpoint equals extraction from the same graph locally

`Model/Endpoint.lean` is `EndpointSGraph` seen through its three kinds of request (outgoing triples of a node, incoming
triples, instantiation triples), the per-node cache (`_subjects_tracked`, `_objects_tracked`, the local rdflib graph) and
the neighbourhood fetch of `SGraph.yield_p_o_triples_of_target_nodes` / `yield_s_p_triples_of_target_nodes` at depth 1.
The endpoint itself is a function of the query over a set of triples.

* `cache_transparent` — for every disciplined run of requests (any length, any repetition) each answer given with the
  cache has exactly the rows the endpoint gives; `disable_endpoint_cache` therefore cannot change a result;
* `cache_never_asks_more` — the cached run sends at most as many queries as the uncached one, for **every** run;
  `repeated_request_free` — a request made before costs nothing;
* `fetch_is_disciplined` — the requests of the neighbourhood fetch satisfy the discipline the cache needs
  (`stale_cache_witness` shows the discipline is not decorative: asking `classes s` then `po s` does return a
  truncated neighbourhood — the latent hazard of sharing `_subjects_tracked` between the two kinds of fetch);
* `neighbourhood_carries_every_figure` — for a selection among the target nodes, every count computed from the triples
  the endpoint reader yields equals the count computed from the whole served graph, in both directions (so, by R1, so
  does every figure of the shapes): depth 1 is enough, and the de-duplication of triples met in both directions is
  what makes the inverse counts right (the `fix:` commit for the double count).

What the model cannot exhibit: the SPARQL JSON result reader (`io/sparql/query.py`, which keeps no datatype), HTTP
and retries; the search runs the real client code over an in-process SPARQL evaluator. -/
namespace Shexer.C15
open Shexer Endpoint Spec

theorem cache_transparent (instProp : String) (g : Graph) (hg : g.Nodup) (reqs : List Req) (hd : disciplined reqs) :
    (runCached instProp g {} reqs).2.length = reqs.length ∧
    ∀ i (h1 : i < (runCached instProp g {} reqs).2.length) (h2 : i < reqs.length),
      ((runCached instProp g {} reqs).2[i]).Perm (remote instProp g reqs[i]) :=
  cached_answers_perm instProp g hg reqs hd

theorem cache_never_asks_more (instProp : String) (g : Graph) (reqs : List Req) :
    (runCached instProp g {} reqs).1.queries ≤ (runUncached instProp g reqs).1 :=
  cache_queries_le instProp g reqs

theorem repeated_request_free (instProp : String) (g : Graph) (reqs : List Req) (r : Req) (h : r ∈ reqs) :
    (runCached instProp g {} (reqs ++ [r])).1.queries = (runCached instProp g {} reqs).1.queries :=
  repeated_request_is_free instProp g reqs r h

theorem fetch_is_disciplined (g : Graph) (targets : List String) :
    disciplined (directRequests g targets ++ inverseRequests g targets) :=
  fetch_disciplined g targets

theorem neighbourhood_carries_every_figure (cfg : Config) (sel : Selection) (g : Graph) (hg : g.Nodup) (targets : List String)
    (hsel : ∀ n ∈ Dict.keys sel, n ∈ targets)
    (c : String) (inv : Bool) (p ty : String) (card : Card) (hinv : inv = true → cfg.inverse = true) :
    countOver cfg sel (fetched cfg.instProp g cfg.inverse targets) c inv p ty card = countOver cfg sel g c inv p ty card :=
  fetched_suffices cfg sel g hg targets hsel c inv p ty card hinv

/-- an undisciplined run: the class triples of `a` are fetched first, which marks `a` as tracked; the later request for
all outgoing triples of `a` is answered from the local graph and misses `a p b` -/
theorem stale_cache_witness :
    let g : Graph := [⟨.iri "a", "T", .iri "C"⟩, ⟨.iri "a", "p", .iri "b"⟩]
    ((runCached "T" g {} [.classes "a", .po "a"]).2.map List.length) = [1, 1] ∧ (remote "T" g (.po "a")).length = 2 := by
  decide +kernel

end Shexer.C15
