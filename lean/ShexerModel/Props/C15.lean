import ShexerModel.Rdf
namespace Shexer.C15
theorem placeholder : True := trivial
end Shexer.C15
