import ShexerModel.Lemmas.CountELemmas
/-! # C04 (second part) — the counting passes never raise `KeyError`

`Model/CountE.lean` is the code of `_annotate_target_subject` / `_annotate_target_object`,
`_introduce_needed_elements_in_shape_classes_dict` + `… += 1` and `init_annotated_targets` with plain subscripts that raise
on a missing key.  For **every** dictionary state, property, type, list of shapes (repetitions included), tuple and
instance dictionary:

* `pass2_update_never_fails`, `profile_update_never_fails`, `class_counts_never_fail` — no `KeyError`, and the value is the
  defaulting update that the pipeline model uses (`Profiler.bumpAll`, `bumpP`, the fold of `initCounts`), so every theorem
  about `Profiler.run` is about what the subscripted code computes;
* `lazy_variant_fails` — a kernel-checked witness that creating the per-shape counters only when the type key is new (the
  seeded change C04-m2) does raise: the theorem is carried by the unconditional introduction of the keys. -/
namespace Shexer.C04b
open Shexer Profiler CountE

theorem pass2_update_never_fails (f : Feat) (p ty : String) (shapes : List String) :
    annotateE f p ty shapes = .ok (bumpAll f p (ty :: shapes)) :=
  annotate_never_fails f p ty shapes

theorem profile_update_never_fails (pr : PropProfile) (x : String × String × Card) :
    profileIncrE pr x = .ok (bumpP pr x) :=
  profileIncr_never_fails pr x

theorem class_counts_never_fail (s : Seeds) (inst : Tracker.InstDict)
    (hinv : ∀ c ∈ s.shapes, Dict.contains s.counts c = true) (hinv2 : ∀ c, Dict.contains s.counts c = true → c ∈ s.shapes) :
    ∃ s', countAllE s inst = .ok s' ∧ (∀ c ∈ s'.shapes, Dict.contains s'.counts c = true) ∧
      (∀ c, Dict.contains s'.counts c = true → c ∈ s'.shapes) ∧
      s'.counts = inst.foldl (fun d e => e.2.foldl (fun d c => Dict.upd d c fun o => o.getD 0 + 1) d) s.counts :=
  countAll_never_fails s inst hinv hinv2

/-- a node that already has IRI values for `p` gets a value that is also an instance of a new shape -/
theorem lazy_variant_fails :
    errorOf (annotateLazyE [("p", [("IRI", 2), ("%A", 1)])] "p" "IRI" ["%B"]) = some (.keyError "features[prop][type]") := by
  decide +kernel

end Shexer.C04b
