import ShexerModel.Props.C05
import ShexerModel.Props.C09
/-! # C19 — extraction is deterministic across processes

The model is a function: it has no hashing, no address, no clock.  What can make the *implementation* differ from
process to process is (a) a `set` whose iteration order leaks into the result, (b) an input channel whose order is
decided by hashing, (c) the random shapes prefix.  The theorems say that, where the implementation uses those, the
model's result cannot depend on them:

* `removal_uses_membership_only` / `removal_order_free` — the set of empty shapes (`_detect_shapes_to_remove`) is only
  asked for membership: the shapes after a removal round are the same for any two collections with the same members,
  in particular for any iteration order of the set;
* `random_prefix_only_when_all_taken` — `find_adequate_prefix_for_shapes_namespaces` reaches its random branch only
  when each of the four default prefixes is already used by the caller;
* `figures_order_free`, `class_sizes_order_free` — every count and every class size is the same for any order in which
  the triples arrive (node lists that pass through a set, rdflib's hash-ordered iteration): only positions and
  tie-breaks can move, which is what the search compares byte for byte across hash seeds.

Ordered output (which shape first, which of two equally frequent constraints first) *is* a function of the order of
arrival; for the channels that read a file top to bottom that order is the document's, and the correspondence check
compares the implementation's order with the model's. -/
namespace Shexer.C19
open Shexer

theorem removal_uses_membership_only (cfg : Config) (gone gone' : List String) (sh : Shexer.Shape)
    (h : ∀ x, gone.contains x = gone'.contains x) : Shexer.dropRefs cfg gone sh = Shexer.dropRefs cfg gone' sh := by
  unfold Shexer.dropRefs
  have hk : (fun s : Shexer.Stmt => !gone.contains s.ty && (!s.choice || !(s.types.any fun ty => gone.contains ty)))
      = (fun s : Shexer.Stmt => !gone'.contains s.ty && (!s.choice || !(s.types.any fun ty => gone'.contains ty))) := by
    funext s
    have : (fun ty => gone.contains ty) = (fun ty => gone'.contains ty) := funext h
    rw [h, this]
  simp only [hk]

theorem removal_order_free (cfg : Config) (gone gone' : List String) (hp : gone.Perm gone') (sh : Shexer.Shape) :
    Shexer.dropRefs cfg gone sh = Shexer.dropRefs cfg gone' sh := by
  apply removal_uses_membership_only
  intro x
  have hm : x ∈ gone ↔ x ∈ gone' := hp.mem_iff
  cases ha : gone.contains x <;> cases hb : gone'.contains x <;> try rfl
  · exact absurd (hm.mpr (List.contains_iff_mem.mp hb)) (by
      intro hx; rw [List.contains_iff_mem.mpr hx] at ha; exact absurd ha (by simp))
  · exact absurd (hm.mp (List.contains_iff_mem.mp ha)) (by
      intro hx; rw [List.contains_iff_mem.mpr hx] at hb; exact absurd hb (by simp))

theorem random_prefix_only_when_all_taken (ns : Text.Namespaces) (h : Text.adequatePrefix ns = none) :
    ∀ p ∈ Gen.PRIORITY_PREFIXES_FOR_SHAPES, p ∈ ns.map (·.2) := by
  intro p hp
  apply Classical.byContradiction
  intro hn
  have := C05.shapes_prefix_exists ns ⟨p, hp, hn⟩
  rw [h] at this
  exact absurd this (by simp)

theorem figures_order_free (cfg : Config) (g g' : Graph) (h : g.Perm g') (c : String) (inv : Bool) (p ty : String) (card : Card) :
    Spec.countOver cfg (Spec.selectionOf cfg g) g c inv p ty card
      = Spec.countOver cfg (Spec.selectionOf cfg g') g' c inv p ty card :=
  C09.spec_count_perm cfg g g' h c inv p ty card

theorem class_sizes_order_free (cfg : Config) (g g' : Graph) (h : g.Perm g') (c : String) :
    Spec.classSize (Spec.selectionOf cfg g) c = Spec.classSize (Spec.selectionOf cfg g') c :=
  C09.class_size_perm cfg g g' h c

end Shexer.C19
