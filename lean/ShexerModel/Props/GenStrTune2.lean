import ShexerModel.Lemmas.GenStrTune2
/-! # Tie 1, fragment S — from a token to the model object: the regenerated `tune_*` functions are the readers' classification

`tune_subj`, `tune_prop`, `tune_token` (`shexer/utils/triple_yielders.py`) with `parse_literal` / `parse_unquoted_literal`
(`shexer/utils/uri.py`) turn a token into the model object (`IRI`, `BNode`, `Literal(content, elem_type)`, `Property`) both line readers
yield.  They are regenerated from the Python source (`PyOps.Obj` for the objects, the parameter `floatOf` for `float()`, `resolve` for
`urljoin`).  Downstream of the readers only the kind, the IRI / label and the datatype matter: `termOfObj`.  Obligations of C06, C07, C08:

* `tune_token_is_nt_model`, `tune_prop_is_nt_model` - with the arguments `NtTriplesYielder` passes, the regenerated functions are
  `Nt.tuneToken` / `Nt.removeCorners` for every token, ValueError / RuntimeError exactly where the model raises them (no numeric
  inference there, so `floatOf` is irrelevant: the theorem holds for every `floatOf`).
* `tune_subj_is_ttl_model`, `tune_prop_is_ttl_model`, `tune_token_is_ttl_model` - with the arguments `BigTtlTriplesYielder` passes
  (`allow_untyped_numbers` on, corners optional, the reader's base) they are `Ttl.tuneSubj` / `Ttl.tuneProp` / `Ttl.tuneObj`; `float()` is read
  as the model reads it (`ttlFloat`: sign, digits, one dot, exponent - `inf`, `nan`, `_` are outside, see `Model/Ttl.lean`).

With `GenStrNtTok.tokens_is_model` every step of the N-Triples reader between the stripped line and the yielded triple is now a regenerated
function proved equal to the model's; what stays hand-modelled there is the generator glue of `yield_triples`. (agent: GenStrTune2) -/
namespace Shexer.GenStrTune2Props
open Shexer PyOps Shexer.GenStrTune2

theorem tune_token_is_nt_model (resolve : List Char → List Char → List Char) (floatOf : List Char → Option Bool) (tok : List Char) :
    (GenS.tune_token resolve floatOf tok false true none).map termOfObj = (Nt.tuneToken tok).mapError excOfNt :=
  tune_token_nt_eq resolve floatOf tok

theorem tune_prop_is_nt_model (tok : List Char) :
    (GenS.tune_prop tok true).map termOfObj = ((Nt.removeCorners tok).map Term.iri).mapError excOfNt :=
  tune_prop_nt_eq tok

theorem tune_subj_is_ttl_model (tok : List Char) :
    (GenS.tune_subj tok false).map termOfObj = (Ttl.tuneSubj (some tok)).mapError excOfTtl :=
  tune_subj_ttl_eq tok

theorem tune_prop_is_ttl_model (tok : List Char) :
    (GenS.tune_prop tok false).map termOfObj = ((Ttl.tuneProp (some tok)).map Term.iri).mapError excOfTtl :=
  tune_prop_ttl_eq tok

theorem tune_token_is_ttl_model (resolve : List Char → List Char → List Char) (base : Option (List Char)) (tok : List Char) :
    (GenS.tune_token resolve ttlFloat tok true false base).map termOfObj = (Ttl.tuneObj resolve base (some tok)).mapError excOfTtl :=
  tune_token_ttl_eq resolve base tok

/- non-vacuity: a language-tagged literal, a typed one, an untyped number, a token nothing recognises -/
example : (GenS.tune_token (fun _ r => r) (fun _ => none) "\"chat\"@fr".toList false true none).toOption =
    some (.lit "chat".toList "http://www.w3.org/1999/02/22-rdf-syntax-ns#langString".toList) := by decide +kernel
example : ((GenS.tune_token (fun _ r => r) ttlFloat "12".toList true false none).map termOfObj).toOption =
    some (.lit "http://www.w3.org/2001/XMLSchema#integer") := by decide +kernel
example : ((GenS.tune_token (fun _ r => r) ttlFloat "1.5".toList true false none).map termOfObj).toOption =
    some (.lit "http://www.w3.org/2001/XMLSchema#float") := by decide +kernel
example : (match GenS.tune_token (fun _ r => r) (fun _ => none) "\"a\"^^b".toList false true none with | .error .runtimeError => true | _ => false) = true := by decide +kernel

end Shexer.GenStrTune2Props
