import ShexerModel.Lemmas.GenStrLabel
/-! # Tie 1, fragment S — the shape-map label parser regenerated from /repo is the model's

`GenS.parse_shape_map_label` is the translation of `ShapeMapLabelParser.parse_shape_map_label` with the two methods it calls
(`_is_a_prefixed_uri`, `_parse_prefixed_label`; the dictionary attribute `self._namespaces_prefix_dict` is a parameter).  Obligation of C10:

* `label_parser_is_model` — for **every** raw label and prefix dictionary the regenerated parser returns what `Targets.parseLabelL` returns
  (`Targets.parseLabel`, used by the target resolution `Targets.resolve` and by the driver, is `parseLabelL` on strings) and raises
  ValueError exactly when the model has no label: no colon, or an undeclared prefix.  In particular the label is cut at the FIRST colon
  (`ex:Person:adult` keeps its whole local name) and `<...>` labels stay as they are. -/
namespace Shexer.GenStrLabelProps
open Shexer PyOps

theorem label_parser_is_model (d : List (List Char × List Char)) (raw : List Char) :
    GenS.parse_shape_map_label d raw =
      (match Targets.parseLabelL d raw with
       | some r => Except.ok r
       | none => Except.error PyExc.valueError) :=
  GenStrLabel.parse_shape_map_label_eq d raw

/-- on strings: the model's parser is the list parser -/
theorem parseLabel_is_parseLabelL (px : Targets.Prefixes) (raw : String) :
    Targets.parseLabel px raw = (Targets.parseLabelL (px.map fun e => (e.1.toList, e.2.toList)) raw.toList).map String.ofList := rfl

/- non-vacuity: a local name with a colon, an unknown prefix, a bracketed label -/
example : (GenS.parse_shape_map_label [("ex".toList, "http://e/".toList)] "ex:Person:adult".toList).toOption = some "%http://e/Person:adult".toList := by decide +kernel
example : (GenS.parse_shape_map_label [("ex".toList, "http://e/".toList)] "zz:S".toList).toOption = none := by decide +kernel
example : (GenS.parse_shape_map_label [] "<http://e/S>".toList).toOption = some "<http://e/S>".toList := by decide +kernel

end Shexer.GenStrLabelProps
